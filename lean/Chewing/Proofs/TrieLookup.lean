import Chewing.Model.TrieCodec
import Chewing.Proofs.TrieLayout
import Chewing.Proofs.TrieBytes
/-!
The reader on a laid-out index refines a walk over the builder tree (`tLookup`), for both
strategies: threads of record views correspond one to one, in order, to tree nodes.
-/
namespace Chewing.TrieCodec
open Chewing Chewing.Der

/-! ### the walk on the tree -/

def Item.kids : Item → List Item
  | .node _ l sub => kidsOf l sub
  | .leaf _ => []

/-- what a thread ending at this node contributes -/
def Item.leafPhrases : Item → List Phrase
  | .node _ (some ps) _ => sortLeaf ps
  | _ => []

def tStep (st : Strategy) (syl : Nat) (items : List Item) : List Item :=
  items.flatMap fun it => it.kids.filter fun k => matchSyl st k.syl syl

def tWalk (st : Strategy) : List Nat → List Item → List Item
  | [], th => th
  | s :: rest, th => tWalk st rest (tStep st s th)

/-- lookup on the tree: the nodes reached by the key, their leaves concatenated -/
def tLookup (st : Strategy) (key : List Nat) (root : Item) : List Phrase :=
  (tWalk st key [root]).flatMap Item.leafPhrases

theorem tWalk_nil (st : Strategy) (key : List Nat) : tWalk st key [] = [] := by
  induction key with
  | nil => rfl
  | cons s rest ih => simpa [tWalk, tStep] using ih

/-! ### `Forall₂` helpers -/

/-- two lists related element by element -/
inductive Forall₂ {α β : Type} (R : α → β → Prop) : List α → List β → Prop
  | nil : Forall₂ R [] []
  | cons {a : α} {b : β} {l₁ : List α} {l₂ : List β} : R a b → Forall₂ R l₁ l₂ → Forall₂ R (a :: l₁) (b :: l₂)

section
variable {α β : Type} {R R' : α → β → Prop}

theorem forall₂_of_getElem? : ∀ (l₁ : List α) (l₂ : List β), l₁.length = l₂.length →
    (∀ (j : Nat) (a : α) (b : β), l₁[j]? = some a → l₂[j]? = some b → R a b) → Forall₂ R l₁ l₂ := by
  intro l₁
  induction l₁ with
  | nil => intro l₂ hl _; cases l₂ with
    | nil => exact .nil
    | cons _ _ => simp at hl
  | cons a l₁ ih =>
    intro l₂ hl h
    cases l₂ with
    | nil => simp at hl
    | cons b l₂ =>
      refine .cons (h 0 a b rfl rfl) (ih l₂ (by simpa using hl) ?_)
      intro j a' b' ha hb
      exact h (j + 1) a' b' (by simpa using ha) (by simpa using hb)

theorem forall₂_filter {p : α → Bool} {q : β → Bool} {l₁ : List α} {l₂ : List β}
    (h : Forall₂ R l₁ l₂) (hpq : ∀ a b, R a b → p a = q b) :
    Forall₂ R (l₁.filter p) (l₂.filter q) := by
  induction h with
  | nil => exact .nil
  | @cons a b l₁ l₂ hab _ ih =>
    simp only [List.filter_cons]
    rw [hpq a b hab]
    split
    · exact .cons hab ih
    · exact ih

theorem forall₂_imp_mem {l₁ : List α} {l₂ : List β} (h : Forall₂ R l₁ l₂)
    (himp : ∀ a b, R a b → b ∈ l₂ → R' a b) : Forall₂ R' l₁ l₂ := by
  induction h with
  | nil => exact .nil
  | @cons a b l₁ l₂ hab _ ih =>
    exact .cons (himp a b hab (by simp)) (ih (fun a' b' h' hm => himp a' b' h' (by simp [hm])))

theorem forall₂_append {l₁ l₃ : List α} {l₂ l₄ : List β} (h : Forall₂ R l₁ l₂)
    (h' : Forall₂ R l₃ l₄) : Forall₂ R (l₁ ++ l₃) (l₂ ++ l₄) := by
  induction h with
  | nil => exact h'
  | cons hab _ ih => exact .cons hab ih

theorem forall₂_nil_left {l₂ : List β} (h : Forall₂ R [] l₂) : l₂ = [] := by
  cases h; rfl

end

/-! ### records of laid-out items -/

/-- the record at a laid-out item's position: fields in range, syllable field = the item's -/
theorem laid_rec {recs : List Rec} {data : Bytes} {pos : Nat} {it : Item}
    (h : Laid recs data pos it) (hp : it.Pre) :
    ∃ r, recs[pos]? = some r ∧ r.1 < 4294967296 ∧ r.2.1 < 65536 ∧ r.2.2 < 65536 ∧ r.2.2 = it.syl := by
  cases h with
  | leaf h1 h2 h3 _ _ => exact ⟨_, h1, h2, h3, by simp, rfl⟩
  | node h1 h2 h3 _ _ => exact ⟨_, h1, h2, h3, hp.1, rfl⟩

theorem toItems_syl_pos {f : Forest} (hf : f.WF) : ∀ it ∈ f.toItems, 0 < it.syl := by
  induction f with
  | nil => intro it h; cases h
  | cons s l sub next _ ih =>
    intro it h
    simp only [Forest.toItems, List.mem_cons] at h
    rcases h with h | h
    · subst h; exact hf.1
    · exact ih hf.2.2.2.2.2.2.2 it h

/-- a record view `w` stands for the queued item `k` -/
def KidRep (recs : List Rec) (data : Bytes) (w : Rec) (k : Item) : Prop :=
  ∃ pos, recs[pos]? = some w ∧ Laid recs data pos k ∧ k.WF ∧ w.2.2 = k.syl

/-- a thread `v` stands for the tree node `it` (a node with at least one record below it) -/
def Rep (recs : List Rec) (data : Bytes) (v : Rec) (it : Item) : Prop :=
  ∃ pos, recs[pos]? = some v ∧ Laid recs data pos it ∧ it.Pre ∧ it.kids ≠ []

theorem Item.WF.kids_ne_nil {s : Nat} {l : Option (List Phrase)} {sub : Forest} (h : (Item.node s l sub).WF) :
    (Item.node s l sub).kids ≠ [] := by
  obtain ⟨_, _, _, _, h4, _⟩ := h
  simp only [Item.kids, kidsOf_eq]
  rcases h4 with h4 | h4
  · cases l with
    | none => simp at h4
    | some ps => simp [leafItem]
  · cases sub with
    | nil => exact absurd rfl h4
    | cons t l' sub' next =>
      intro hnil
      have hlen := congrArg List.length hnil
      simp only [List.length_append, sortBy_length, Forest.toItems, List.length_cons, List.length_nil] at hlen
      omega

theorem KidRep.rep {recs : List Rec} {data : Bytes} {w : Rec} {k : Item} (h : KidRep recs data w k)
    (hs : k.syl ≠ 0) : Rep recs data w k := by
  obtain ⟨pos, h1, h2, h3, _⟩ := h
  cases k with
  | leaf ps => exact absurd rfl hs
  | node s l sub => exact ⟨pos, h1, h2, h3.pre, h3.kids_ne_nil⟩

theorem matchSyl_ne_zero {st : Strategy} {n syl : Nat} (hsyl : syl ≠ 0) (h : matchSyl st n syl = true) : n ≠ 0 := by
  cases st with
  | standard => simp [matchSyl] at h; omega
  | fuzzyPartialPrefix => simp [matchSyl] at h; exact h.1.1

/-- the children of a thread: in bounds, and the views are the records of the node's queue entries -/
theorem rep_children {recs : List Rec} {data : Bytes} {v : Rec} {s : Nat} {l : Option (List Phrase)} {sub : Forest}
    (h : Rep recs data v (.node s l sub)) :
    oob (cbOf v) (ceOf v) (recs.flatMap recBytes).length = false ∧
    v.1 + 1 ≤ recs.length ∧
    Forall₂ (KidRep recs data) (childViews (recs.flatMap recBytes) v) (kidsOf l sub) := by
  obtain ⟨pos, h1, h2, h3, h4⟩ := h
  cases h2 with
  | node hr hcb hn hle hk =>
    rename_i cb
    rw [h1] at hr
    cases hr
    have hpos : 0 < (kidsOf l sub).length := List.length_pos_iff.mpr h4
    refine ⟨?_, by simp only; omega, ?_⟩
    · have e1 : cbOf (cb, (kidsOf l sub).length, s) = cb * 8 := rfl
      have e2 : ceOf (cb, (kidsOf l sub).length, s) = (cb + (kidsOf l sub).length) * 8 := rfl
      simp only [oob, e1, e2, flatMap_recBytes_length, Bool.or_eq_false_iff, decide_eq_false_iff_not]
      constructor <;> omega
    · refine forall₂_of_getElem? _ _ (by simp [childViews]) ?_
      intro j w k hw hkj
      have hj : j < (kidsOf l sub).length := by
        rcases Nat.lt_or_ge j (kidsOf l sub).length with h' | h'
        · exact h'
        · rw [List.getElem?_eq_none h'] at hkj; cases hkj
      have hlk := hk j k hkj
      have hwf : k.WF := h3.kids k (List.mem_of_getElem? hkj)
      obtain ⟨r, hr1, hr2, hr3, hr4, hr5⟩ := laid_rec hlk hwf.pre
      simp only [childViews, List.getElem?_map, List.getElem?_range hj, Option.map_some, Option.some.injEq] at hw
      rw [viewAt_recs recs (cb + j) r hr1 hr2 hr3 hr4] at hw
      subst hw
      exact ⟨cb + j, hr1, hlk, hwf, hr5⟩

/-! ### threads -/

theorem stepThreads_rep {recs : List Rec} {data : Bytes} {st : Strategy} {syl : Nat} (hsyl : syl ≠ 0)
    {views : List Rec} {items : List Item} (h : Forall₂ (Rep recs data) views items) :
    ∃ views', stepThreads (recs.flatMap recBytes) st syl views = some views' ∧
      Forall₂ (Rep recs data) views' (tStep st syl items) := by
  induction h with
  | nil => exact ⟨[], rfl, .nil⟩
  | @cons v it views items hab _ ih =>
    obtain ⟨views', hv', hf'⟩ := ih
    cases it with
    | leaf ps => obtain ⟨_, _, _, _, hk⟩ := hab; exact absurd rfl hk
    | node s l sub =>
      obtain ⟨hoob, _, hkids⟩ := rep_children hab
      refine ⟨_, by simp only [stepThreads, hoob, hv']; rfl, ?_⟩
      simp only [tStep, List.flatMap_cons]
      refine forall₂_append ?_ hf'
      have hfil := forall₂_filter (p := fun n => matchSyl st n.2.2 syl) (q := fun k => matchSyl st k.syl syl) hkids
        (fun a b hab => by rw [hab.choose_spec.2.2.2])
      refine forall₂_imp_mem hfil ?_
      intro w k hwk hmem
      simp only [Item.kids, List.mem_filter] at hmem
      exact hwk.rep (matchSyl_ne_zero hsyl hmem.2)

theorem walk_rep {recs : List Rec} {data : Bytes} {st : Strategy} (key : List Nat) (hkey : ∀ s ∈ key, s ≠ 0) :
    ∀ {views : List Rec} {items : List Item}, Forall₂ (Rep recs data) views items →
    match walk (recs.flatMap recBytes) st key views with
    | none => tWalk st key items = []
    | some views' => Forall₂ (Rep recs data) views' (tWalk st key items) := by
  induction key with
  | nil => intro views items h; exact h
  | cons s rest ih =>
    intro views items h
    obtain ⟨views', hv', hf'⟩ := stepThreads_rep (st := st) (hkey s (by simp)) h
    simp only [walk, hv', tWalk]
    cases views' with
    | nil =>
      simp only [List.isEmpty_nil, if_true]
      rw [forall₂_nil_left hf', tWalk_nil]
    | cons w ws =>
      simp only [List.isEmpty_cons]
      exact ih (fun t ht => hkey t (by simp [ht])) hf'

theorem sortLeaf_perm (ps : List Phrase) : (sortLeaf ps).Perm ps := sortBy_perm _ _

theorem sortLeaf_valid {ps : List Phrase} (h : ∀ p ∈ ps, ValidPhrase p) : ∀ p ∈ sortLeaf ps, ValidPhrase p :=
  fun p hp => h p ((sortLeaf_perm ps).mem_iff.mp hp)

/-- the leaf slice decodes to the sorted phrase vector -/
theorem decPhrases_sortLeaf {ps : List Phrase} (hv : ∀ p ∈ ps, ValidPhrase p)
    (hl : (encPhrases (sortLeaf ps)).length < 65536) :
    decPhrases (encPhrases (sortLeaf ps)) = sortLeaf ps := by
  refine decPhrases_encPhrases _ (fun p hp => ⟨sortLeaf_valid hv p hp, ?_⟩)
  have := encPhrase_le_encPhrases hp
  unfold maxLen
  omega

theorem collect_rep {recs : List Rec} {data : Bytes} {views : List Rec} {items : List Item}
    (h : Forall₂ (Rep recs data) views items) :
    ∀ acc, collect (recs.flatMap recBytes) data views acc = acc ++ items.flatMap Item.leafPhrases := by
  induction h with
  | nil => intro acc; simp [collect]
  | @cons v it views items hab _ ih =>
    intro acc
    cases it with
    | leaf ps => obtain ⟨_, _, _, _, hk⟩ := hab; exact absurd rfl hk
    | node s l sub =>
      obtain ⟨hoob, hlen, hkids⟩ := rep_children hab
      have hoob2 : oob 0 8 ((recs.flatMap recBytes).length - cbOf v) = false := by
        simp only [oob, cbOf, flatMap_recBytes_length, Bool.or_eq_false_iff, decide_eq_false_iff_not]
        constructor <;> omega
      obtain ⟨pos, _, _, hpre, hne⟩ := hab
      simp only [collect, hoob, hoob2, Bool.false_eq_true, if_false]
      -- the first child record
      cases hkl : kidsOf l sub with
      | nil => exact absurd hkl hne
      | cons k ks =>
        rw [hkl] at hkids
        cases hcv : childViews (recs.flatMap recBytes) v with
        | nil => rw [hcv] at hkids; cases hkids
        | cons w ws =>
          rw [hcv] at hkids
          cases hkids with
          | cons hwk _ =>
            have hw : viewAt (recs.flatMap recBytes) (cbOf v) = w := by
              have : (childViews (recs.flatMap recBytes) v)[0]? = some w := by rw [hcv]; rfl
              have hn : 0 < v.2.1 := by
                rcases Nat.eq_zero_or_pos v.2.1 with h0 | h0
                · simp [childViews, h0] at hcv
                · exact h0
              simp only [childViews, List.getElem?_map, List.getElem?_range hn, Option.map_some,
                Option.some.injEq, Nat.add_zero] at this
              exact this
            rw [hw]
            obtain ⟨kpos, hk1, hk2, hk3, hk4⟩ := hwk
            cases l with
            | some ps =>
              -- the first queue entry is the leaf
              have hk : k = .leaf ps := by
                simp only [kidsOf_eq, leafItem, List.cons_append, List.nil_append, List.cons.injEq] at hkl
                exact hkl.1.symm
              subst hk
              cases hk2 with
              | leaf hr hdb hln hsl hle =>
                rename_i db
                rw [hk1] at hr
                cases hr
                have hne' : 0 < (encPhrases (sortLeaf ps)).length := by
                  have h1 := encPhrases_length_ge (sortLeaf ps)
                  have h2 := (sortLeaf_perm ps).length_eq
                  have h3 : 0 < ps.length := List.length_pos_iff.mpr hk3.1
                  omega
                have hoob3 : oob db (db + (encPhrases (sortLeaf ps)).length) data.length = false := by
                  simp only [oob, Bool.or_eq_false_iff, decide_eq_false_iff_not]
                  constructor <;> omega
                simp only [ne_eq, not_true_eq_false, if_false, hoob3, Bool.false_eq_true, dataSlice, hsl]
                rw [decPhrases_sortLeaf hk3.2 hln, ih]
                simp [Item.leafPhrases, List.append_assoc]
            | none =>
              -- the first queue entry is a child node: its syllable field is not zero
              have hkm : k ∈ sortBy sylLt sub.toItems := by
                simp only [kidsOf_eq, leafItem, List.nil_append] at hkl
                rw [hkl]; simp
              have hksyl : k.syl ≠ 0 := by
                have := toItems_syl_pos hpre.2.2 k (mem_sortBy.mp hkm)
                omega
              rw [if_pos (by rw [hk4]; exact hksyl), ih]
              simp [Item.leafPhrases]

/-! ### the whole lookup -/

theorem tLookup_no_kids {st : Strategy} {key : List Nat} {s : Nat} {l : Option (List Phrase)} {sub : Forest}
    (h : kidsOf l sub = []) : tLookup st key (.node s l sub) = [] := by
  have hl : l = none := by
    cases l with
    | none => rfl
    | some ps => simp [kidsOf_eq, leafItem] at h
  cases key with
  | nil => simp [tLookup, tWalk, Item.leafPhrases, hl]
  | cons t rest => simp [tLookup, tWalk, tStep, Item.kids, h, tWalk_nil]

/-- **the reader refines the tree walk** (both strategies) -/
theorem lookupAll_eq_tLookup {recs : List Rec} {data : Bytes} {info : Info} {root : Item}
    (hl : Laid recs data 0 root) (hp : root.Pre) (hroot : ∃ l sub, root = .node 0 l sub)
    (st : Strategy) (key : List Nat) (hkey : ∀ s ∈ key, s ≠ 0) :
    lookupAll { info := info, index := recs.flatMap recBytes, data := data } key st = tLookup st key root := by
  obtain ⟨l, sub, rfl⟩ := hroot
  obtain ⟨r, hr1, hr2, hr3, hr4, hr5⟩ := laid_rec hl hp
  have hv : viewAt (recs.flatMap recBytes) 0 = r := by
    simpa using viewAt_recs recs 0 r hr1 hr2 hr3 hr4
  have hlen : 1 ≤ recs.length := by
    rcases Nat.lt_or_ge 0 recs.length with h | h
    · exact h
    · rw [List.getElem?_eq_none h] at hr1; cases hr1
  have hoob : oob 0 8 (recs.flatMap recBytes).length = false := by
    simp only [oob, flatMap_recBytes_length, Bool.or_eq_false_iff, decide_eq_false_iff_not]
    constructor <;> omega
  simp only [lookupAll, hoob, Bool.false_eq_true, if_false, hv]
  cases hl with
  | node hr hcb hn hle hk =>
    rename_i cb
    rw [hr1] at hr
    cases hr
    by_cases hkids : kidsOf l sub = []
    · rw [tLookup_no_kids hkids]
      simp [cbOf, ceOf, hkids]
    · have hpos : 0 < (kidsOf l sub).length := List.length_pos_iff.mpr hkids
      rw [if_neg (by simp only [cbOf, ceOf]; omega)]
      have hrep : Forall₂ (Rep recs data) [(cb, (kidsOf l sub).length, 0)] [Item.node 0 l sub] :=
        .cons ⟨0, hr1, Laid.node hr1 hcb hn hle hk, hp, hkids⟩ .nil
      have hw := walk_rep (st := st) key hkey hrep
      cases hwalk : walk (recs.flatMap recBytes) st key [(cb, (kidsOf l sub).length, 0)] with
      | none =>
        rw [hwalk] at hw
        simp only at hw ⊢
        simp [tLookup, hw]
      | some views' =>
        rw [hwalk] at hw
        simp only at hw ⊢
        rw [collect_rep hw]
        simp [tLookup]

end Chewing.TrieCodec
