import Chewing.Model.TrieCodec
import Chewing.Proofs.TrieSort
/-!
The documented order of a leaf: single characters keep insertion order, multi-character phrases
are sorted by descending frequency (ties: descending UTF-8 order).
-/
namespace Chewing.TrieCodec
open Chewing Chewing.Der

theorem lexLt_asymm : ∀ (a b : List Nat), lexLt a b = true → lexLt b a = false := by
  intro a
  induction a with
  | nil => intro b _; cases b <;> rfl
  | cons x xs ih =>
    intro b h
    cases b with
    | nil => simp [lexLt] at h
    | cons y ys =>
      simp only [lexLt] at h ⊢
      split at h
      · rename_i hxy
        rw [if_neg (by omega), if_pos hxy]
      · split at h
        · cases h
        · rename_i h1 h2
          rw [if_neg h2, if_neg h1]
          exact ih ys h

theorem lexLt_negtrans : ∀ (a b c : List Nat), lexLt a b = false → lexLt b c = false → lexLt a c = false := by
  intro a
  induction a with
  | nil =>
    intro b c hab hbc
    cases c with
    | nil => rfl
    | cons z zs =>
      cases b with
      | nil => simp [lexLt] at hbc
      | cons y ys => simp [lexLt] at hab
  | cons x xs ih =>
    intro b c hab hbc
    cases c with
    | nil => rfl
    | cons z zs =>
      cases b with
      | nil => simp [lexLt] at hbc
      | cons y ys =>
        simp only [lexLt] at hab hbc ⊢
        split at hab
        · cases hab
        · rename_i hxy
          split at hbc
          · cases hbc
          · rename_i hyz
            rw [if_neg (by omega)]
            split at hab
            · rename_i hyx
              rw [if_pos (by omega)]
            · rename_i hyx
              split at hbc
              · rename_i hzy
                rw [if_pos (by omega)]
              · rename_i hzy
                rw [if_neg (by omega)]
                exact ih ys zs hab hbc

/-- the comparator on multi-character phrases -/
theorem phraseLt_multi {a b : Phrase} (ha : a.text.length ≠ 1) (hb : b.text.length ≠ 1) :
    phraseLt a b = if a.freq = b.freq then lexLt (utf8Enc b.text) (utf8Enc a.text) else decide (b.freq < a.freq) := by
  unfold phraseLt
  rw [if_neg (by intro h; exact ha h.1), if_neg ha, if_neg hb]

theorem phraseLt_single {a b : Phrase} (ha : a.text.length = 1) (hb : b.text.length = 1) : phraseLt a b = false := by
  unfold phraseLt
  rw [if_pos ⟨ha, hb⟩]

theorem phraseLt_single_multi {a b : Phrase} (ha : a.text.length = 1) (hb : b.text.length ≠ 1) : phraseLt a b = true := by
  unfold phraseLt
  rw [if_neg (by intro h; exact hb h.2), if_pos ha]

theorem phraseLt_multi_single {a b : Phrase} (ha : a.text.length ≠ 1) (hb : b.text.length = 1) : phraseLt a b = false := by
  unfold phraseLt
  rw [if_neg (by intro h; exact ha h.1), if_neg ha, if_pos hb]

def isSingle (p : Phrase) : Bool := p.text.length == 1

/-- the comparator is a total preorder: "not after" is transitive … -/
theorem phraseLt_negtrans (a b c : Phrase) (hba : phraseLt b a = false) (hcb : phraseLt c b = false) :
    phraseLt c a = false := by
  by_cases ha : a.text.length = 1 <;> by_cases hb : b.text.length = 1 <;> by_cases hc : c.text.length = 1
  · exact phraseLt_single hc ha
  · exact phraseLt_multi_single hc ha
  · exact phraseLt_single hc ha
  · exact phraseLt_multi_single hc ha
  · rw [phraseLt_single_multi hb ha] at hba; cases hba
  · rw [phraseLt_single_multi hb ha] at hba; cases hba
  · rw [phraseLt_single_multi hc hb] at hcb; cases hcb
  · rw [phraseLt_multi hb ha] at hba
    rw [phraseLt_multi hc hb] at hcb
    rw [phraseLt_multi hc ha]
    by_cases e1 : b.freq = a.freq
    · rw [if_pos e1] at hba
      by_cases e2 : c.freq = b.freq
      · rw [if_pos e2] at hcb
        rw [if_pos (by omega)]
        exact lexLt_negtrans _ _ _ hba hcb
      · rw [if_neg e2] at hcb
        rw [if_neg (by omega)]
        simp at hcb ⊢; omega
    · rw [if_neg e1] at hba
      by_cases e2 : c.freq = b.freq
      · rw [if_pos e2] at hcb
        rw [if_neg (by omega)]
        simp at hba ⊢; omega
      · rw [if_neg e2] at hcb
        simp at hba hcb
        by_cases e3 : c.freq = a.freq
        · omega
        · rw [if_neg e3]; simp; omega

/-- … and it is asymmetric -/
theorem phraseLt_asymm (a b : Phrase) (hab : phraseLt a b = true) : phraseLt b a = false := by
  by_cases ha : a.text.length = 1 <;> by_cases hb : b.text.length = 1
  · exact phraseLt_single hb ha
  · exact phraseLt_multi_single hb ha
  · rw [phraseLt_multi_single ha hb] at hab; cases hab
  · rw [phraseLt_multi ha hb] at hab
    rw [phraseLt_multi hb ha]
    by_cases e1 : a.freq = b.freq
    · rw [if_pos e1] at hab
      rw [if_pos e1.symm]
      exact lexLt_asymm _ _ hab
    · rw [if_neg e1] at hab
      rw [if_neg (fun e => e1 e.symm)]
      simp at hab ⊢; omega

/-- every leaf is sorted by the comparator -/
theorem sortLeaf_sorted (ps : List Phrase) : (sortLeaf ps).Pairwise (fun a b => phraseLt b a = false) :=
  sortBy_sorted _ _ (fun a _ b _ c _ => phraseLt_negtrans a b c) (fun a _ b _ => phraseLt_asymm a b)

/-- single characters keep their insertion order (also among longer phrases) -/
theorem sortLeaf_singles (ps : List Phrase) : (sortLeaf ps).filter isSingle = ps.filter isSingle :=
  sortBy_filter_stable _ _ _ (fun a _ b _ ha hb =>
    phraseLt_single (by simpa [isSingle] using ha) (by simpa [isSingle] using hb))

/-- multi-character phrases are in descending frequency (also among single characters) -/
theorem sortLeaf_multis (ps : List Phrase) :
    ((sortLeaf ps).filter (fun p => !isSingle p)).Pairwise (fun a b => b.freq ≤ a.freq) := by
  have h := (sortLeaf_sorted ps).filter (fun p => !isSingle p)
  refine List.Pairwise.imp_of_mem ?_ h
  intro a b ha hb hlt
  have ha' : a.text.length ≠ 1 := by simpa [isSingle] using (List.mem_filter.mp ha).2
  have hb' : b.text.length ≠ 1 := by simpa [isSingle] using (List.mem_filter.mp hb).2
  rw [phraseLt_multi hb' ha'] at hlt
  by_cases e : b.freq = a.freq
  · omega
  · rw [if_neg e] at hlt
    simp at hlt; omega

/-- single characters stand before all longer phrases -/
theorem sortLeaf_singles_first (ps : List Phrase) :
    (sortLeaf ps).Pairwise (fun a b => isSingle b = true → isSingle a = true) := by
  refine List.Pairwise.imp ?_ (sortLeaf_sorted ps)
  intro a b hlt hb
  by_cases ha : a.text.length = 1
  · simpa [isSingle] using ha
  · rw [phraseLt_single_multi (by simpa [isSingle] using hb) ha] at hlt; cases hlt

/-- single-character leaves keep the insertion order -/
theorem sortLeaf_single (ps : List Phrase) (h : ∀ p ∈ ps, p.text.length = 1) : sortLeaf ps = ps :=
  sortBy_id _ _ (fun a ha b hb => phraseLt_single (h a ha) (h b hb))

/-- multi-character leaves: descending frequency -/
theorem sortLeaf_multi_freq (ps : List Phrase) (h : ∀ p ∈ ps, p.text.length ≠ 1) :
    (sortLeaf ps).Pairwise (fun a b => b.freq ≤ a.freq) := by
  have hm := sortLeaf_multis ps
  have : (sortLeaf ps).filter (fun p => !isSingle p) = sortLeaf ps := by
    rw [List.filter_eq_self]
    intro p hp
    have := h p (mem_sortBy.mp hp)
    simpa [isSingle] using this
  rwa [this] at hm

end Chewing.TrieCodec
