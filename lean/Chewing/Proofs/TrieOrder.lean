import Chewing.Model.TrieCodec
import Chewing.Proofs.TrieSort
/-!
The documented order of a leaf: single characters keep insertion order, multi-character phrases
are sorted by descending frequency (ties: descending UTF-8 order).
-/
namespace Chewing.TrieCodec
open Chewing Chewing.Der

theorem lexLt_asymm : ∀ (a b : List Nat), lexLt a b = true → lexLt b a = false := by
  intro a
  induction a with
  | nil => intro b _; cases b <;> rfl
  | cons x xs ih =>
    intro b h
    cases b with
    | nil => simp [lexLt] at h
    | cons y ys =>
      simp only [lexLt] at h ⊢
      split at h
      · rename_i hxy
        rw [if_neg (by omega), if_pos hxy]
      · split at h
        · cases h
        · rename_i h1 h2
          rw [if_neg h2, if_neg h1]
          exact ih ys h

theorem lexLt_negtrans : ∀ (a b c : List Nat), lexLt a b = false → lexLt b c = false → lexLt a c = false := by
  intro a
  induction a with
  | nil =>
    intro b c hab hbc
    cases c with
    | nil => rfl
    | cons z zs =>
      cases b with
      | nil => simp [lexLt] at hbc
      | cons y ys => simp [lexLt] at hab
  | cons x xs ih =>
    intro b c hab hbc
    cases c with
    | nil => rfl
    | cons z zs =>
      cases b with
      | nil => simp [lexLt] at hbc
      | cons y ys =>
        simp only [lexLt] at hab hbc ⊢
        split at hab
        · cases hab
        · rename_i hxy
          split at hbc
          · cases hbc
          · rename_i hyz
            rw [if_neg (by omega)]
            split at hab
            · rename_i hyx
              rw [if_pos (by omega)]
            · rename_i hyx
              split at hbc
              · rename_i hzy
                rw [if_pos (by omega)]
              · rename_i hzy
                rw [if_neg (by omega)]
                exact ih ys zs hab hbc

/-- the comparator on multi-character phrases -/
theorem phraseLt_multi {a b : Phrase} (ha : a.text.length ≠ 1) (hb : b.text.length ≠ 1) :
    phraseLt a b = if a.freq = b.freq then lexLt (utf8Enc b.text) (utf8Enc a.text) else decide (b.freq < a.freq) := by
  unfold phraseLt
  rw [if_neg (by intro h; exact ha h.1), if_neg (by intro h; rcases h with h | h; exact ha h; exact hb h)]

theorem phraseLt_single {a b : Phrase} (ha : a.text.length = 1) (hb : b.text.length = 1) : phraseLt a b = false := by
  unfold phraseLt
  rw [if_pos ⟨ha, hb⟩]

/-- single-character leaves keep the insertion order -/
theorem sortLeaf_single (ps : List Phrase) (h : ∀ p ∈ ps, p.text.length = 1) : sortLeaf ps = ps :=
  sortBy_id _ _ (fun a ha b hb => phraseLt_single (h a ha) (h b hb))

/-- multi-character leaves are sorted by the comparator … -/
theorem sortLeaf_multi_sorted (ps : List Phrase) (h : ∀ p ∈ ps, p.text.length ≠ 1) :
    (sortLeaf ps).Pairwise (fun a b => phraseLt b a = false) := by
  refine sortBy_sorted _ _ ?_ ?_
  · intro a ha b hb c hc hba hcb
    rw [phraseLt_multi (h b hb) (h a ha)] at hba
    rw [phraseLt_multi (h c hc) (h b hb)] at hcb
    rw [phraseLt_multi (h c hc) (h a ha)]
    by_cases e1 : b.freq = a.freq
    · rw [if_pos e1] at hba
      by_cases e2 : c.freq = b.freq
      · rw [if_pos e2] at hcb
        rw [if_pos (by omega)]
        exact lexLt_negtrans _ _ _ hba hcb
      · rw [if_neg e2] at hcb
        rw [if_neg (by omega)]
        simp at hcb ⊢; omega
    · rw [if_neg e1] at hba
      by_cases e2 : c.freq = b.freq
      · rw [if_pos e2] at hcb
        rw [if_neg (by omega)]
        simp at hba ⊢; omega
      · rw [if_neg e2] at hcb
        simp at hba hcb
        by_cases e3 : c.freq = a.freq
        · omega
        · rw [if_neg e3]; simp; omega
  · intro a ha b hb hab
    rw [phraseLt_multi (h a ha) (h b hb)] at hab
    rw [phraseLt_multi (h b hb) (h a ha)]
    by_cases e1 : a.freq = b.freq
    · rw [if_pos e1] at hab
      rw [if_pos e1.symm]
      exact lexLt_asymm _ _ hab
    · rw [if_neg e1] at hab
      rw [if_neg (fun e => e1 e.symm)]
      simp at hab ⊢; omega

/-- … in particular by descending frequency -/
theorem sortLeaf_multi_freq (ps : List Phrase) (h : ∀ p ∈ ps, p.text.length ≠ 1) :
    (sortLeaf ps).Pairwise (fun a b => b.freq ≤ a.freq) := by
  refine List.Pairwise.imp_of_mem ?_ (sortLeaf_multi_sorted ps h)
  intro a b ha hb hlt
  have ha' := h a (mem_sortBy.mp ha)
  have hb' := h b (mem_sortBy.mp hb)
  rw [phraseLt_multi hb' ha'] at hlt
  by_cases e : b.freq = a.freq
  · omega
  · rw [if_neg e] at hlt
    simp at hlt; omega

end Chewing.TrieCodec
