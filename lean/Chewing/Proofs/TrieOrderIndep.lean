import Chewing.Model.TrieCodec
import Chewing.Proofs.TrieBuilder
import Chewing.Proofs.TrieSort
import Chewing.Proofs.TrieLayout
/-!
# The written bytes do not depend on the order in which different keys were inserted

`TrieCodec.Builder` keeps every node's children in first-insertion order (`Forest.modify` pushes a new child at
the end), so two insert sequences that build the same map key ↦ phrase vector give, in general, DIFFERENT trees.
`write` however sorts the children of every node by syllable before it queues them, and sibling syllables are
pairwise distinct, so what the breadth-first loop sees is a function of the map alone:

* `Forest.Good` — the shape invariant needed here (distinct sibling syllables; every node has a leaf or a child),
  for EVERY insert sequence (no validity hypothesis on the entries): `Good_ofEntries`;
* `ItemEq` — two queued items denote the same map (`findNode · (l, sub)`), both `Good`;
* `kids_rel` — extensionality, one level: for `Good` forests with the same denotation the children sorted by
  syllable correspond one to one (same syllable, same denotation below);
* `writeLoop_congr` — the loop maps queues that correspond item by item to the same buffers;
* `writeLoop_fuel` — fuel beyond the number of queued nodes is irrelevant (the two trees are not known to have
  the same size beforehand);
* `write_ext` — builders with the same metadata and the same `find` write the same bytes.
-/
namespace Chewing.TrieCodec
open Chewing Chewing.Der

/-! ### the shape invariant, for arbitrary insert sequences -/

/-- sibling syllables are pairwise distinct and every node has a leaf or a child -/
def Forest.Good : Forest → Prop
  | .nil => True
  | .cons s l sub next => next.child s = none ∧ (l.isSome = true ∨ sub ≠ .nil) ∧ sub.Good ∧ next.Good

/-- a non-root node: has a leaf or a child -/
def NodeGood (nd : NodeData) : Prop := (nd.1.isSome = true ∨ nd.2 ≠ .nil) ∧ nd.2.Good

theorem Good_modify (f : Forest) (s : Nat) (g : NodeData → NodeData) (hf : f.Good)
    (hg0 : NodeGood (g (none, .nil))) (hg : ∀ nd, NodeGood nd → NodeGood (g nd)) : (f.modify s g).Good := by
  induction f with
  | nil =>
    simp only [Forest.modify, Forest.Good, Forest.child]
    exact ⟨trivial, hg0.1, hg0.2, trivial⟩
  | cons t l sub next _ ih =>
    obtain ⟨h3, h5, h6, h7⟩ := hf
    simp only [Forest.modify]
    by_cases ht : t = s
    · rw [if_pos ht]
      have := hg (l, sub) ⟨h5, h6⟩
      exact ⟨h3, this.1, this.2, h7⟩
    · rw [if_neg ht]
      exact ⟨child_modify_none next s t g h3 ht, h5, h6, ih h7⟩

theorem NodeGood_insertNode (k : List Nat) (p : Phrase) (nd : NodeData) (hw : nd.2.Good) :
    NodeGood (insertNode k p nd) := by
  induction k generalizing nd with
  | nil => exact ⟨Or.inl rfl, hw⟩
  | cons s rest ih =>
    refine ⟨Or.inr (modify_ne_nil _ _ _), ?_⟩
    simp only [insertNode]
    exact Good_modify _ _ _ hw (ih (none, .nil) trivial) (fun nd' hnd' => ih nd' hnd'.2)

theorem Good_insert (b : Builder) (k : List Nat) (p : Phrase) (hb : b.kids.Good) : (b.insert k p).kids.Good :=
  (NodeGood_insertNode k p (b.leaf, b.kids) hb).2

/-- every builder reachable by inserts has the shape invariant -/
theorem Good_ofEntries (info : Info) (es : List Entry) : (Builder.ofEntries info es).kids.Good := by
  unfold Builder.ofEntries
  generalize hb : ({ info := info } : Builder) = b
  have hw : b.kids.Good := by subst hb; exact trivial
  clear hb
  induction es generalizing b with
  | nil => exact hw
  | cons e es ih => exact ih _ (Good_insert b e.1 e.2 hw)

/-! ### children and their denotation -/

theorem mem_toItems_child {f : Forest} (hf : f.Good) (it : Item) :
    it ∈ f.toItems ↔ ∃ s l sub, it = .node s l sub ∧ f.child s = some (l, sub) := by
  induction f with
  | nil => simp [Forest.toItems, Forest.child]
  | cons t l sub next _ ih =>
    obtain ⟨h3, _, _, h7⟩ := hf
    simp only [Forest.toItems, List.mem_cons, ih h7, Forest.child]
    constructor
    · rintro (h | ⟨s, l', sub', h1, h2⟩)
      · exact ⟨t, l, sub, h, by simp⟩
      · refine ⟨s, l', sub', h1, ?_⟩
        have : ¬ t = s := by
          intro e; subst e; rw [h3] at h2; cases h2
        rw [if_neg this]; exact h2
    · rintro ⟨s, l', sub', h1, h2⟩
      by_cases hts : t = s
      · rw [if_pos hts] at h2
        cases h2
        exact Or.inl (by rw [h1, hts])
      · rw [if_neg hts] at h2
        exact Or.inr ⟨s, l', sub', h1, h2⟩

theorem child_good {f : Forest} (hf : f.Good) {s : Nat} {nd : NodeData} (h : f.child s = some nd) : NodeGood nd := by
  induction f with
  | nil => cases h
  | cons t l sub next _ ih =>
    obtain ⟨_, h5, h6, h7⟩ := hf
    simp only [Forest.child] at h
    split at h
    · cases h; exact ⟨h5, h6⟩
    · exact ih h7 h

theorem toItems_syl_nodup' {f : Forest} (hf : f.Good) : (f.toItems.map Item.syl).Nodup := by
  induction f with
  | nil => exact List.nodup_nil
  | cons t l sub next _ ih =>
    obtain ⟨h3, _, _, h7⟩ := hf
    simp only [Forest.toItems, List.map_cons, List.nodup_cons]
    refine ⟨?_, ih h7⟩
    intro hm
    obtain ⟨it, hit, hs⟩ := List.mem_map.mp hm
    obtain ⟨s, l', sub', e, hc⟩ := (mem_toItems_child h7 it).mp hit
    subst e
    simp only [Item.syl] at hs
    subst hs
    rw [h3] at hc
    cases hc

/-- liveness: below every node of a `Good` forest some key is present -/
theorem good_live (f : Forest) (hf : f.Good) :
    ∀ s l sub next, f = .cons s l sub next → ∃ k ps, findNode k (l, sub) = some ps := by
  induction f with
  | nil => intro s l sub next h; cases h
  | cons t l0 sub0 next0 ihs _ =>
    intro s l sub next h
    cases h
    obtain ⟨_, h5, h6, _⟩ := hf
    cases l0 with
    | some ps => exact ⟨[], ps, rfl⟩
    | none =>
      cases sub0 with
      | nil => simp at h5
      | cons s' l' sub' next' =>
        obtain ⟨k, ps, hk⟩ := ihs h6 s' l' sub' next' rfl
        exact ⟨s' :: k, ps, by simp [findNode, Forest.child, hk]⟩

theorem nodeGood_live {nd : NodeData} (h : NodeGood nd) : ∃ k ps, findNode k nd = some ps := by
  obtain ⟨l, sub⟩ := nd
  exact good_live (.cons 0 l sub .nil) ⟨rfl, h.1, h.2, trivial⟩ 0 l sub .nil rfl

/-- which syllables have a child is visible in the denotation -/
theorem child_isSome_iff {f : Forest} (hf : f.Good) (x : Option (List Phrase)) (s : Nat) :
    (f.child s).isSome = true ↔ ∃ k ps, findNode (s :: k) (x, f) = some ps := by
  constructor
  · intro h
    cases hc : f.child s with
    | none => rw [hc] at h; cases h
    | some nd =>
      obtain ⟨k, ps, hk⟩ := nodeGood_live (child_good hf hc)
      exact ⟨k, ps, by simp [findNode, hc, hk]⟩
  · rintro ⟨k, ps, h⟩
    cases hc : f.child s with
    | none => simp [findNode, hc] at h
    | some nd => rfl

/-! ### the relation on queued items -/

/-- two queued items denote the same thing: the same syllable and the same map below (both trees `Good`) -/
def ItemEq : Item → Item → Prop
  | .node s l sub, .node s' l' sub' =>
    s = s' ∧ sub.Good ∧ sub'.Good ∧ ∀ k, findNode k (l, sub) = findNode k (l', sub')
  | .leaf ps, .leaf ps' => ps = ps'
  | _, _ => False

/-- queues that correspond item by item -/
inductive QRel : List Item → List Item → Prop
  | nil : QRel [] []
  | cons {a b : Item} {q q' : List Item} : ItemEq a b → QRel q q' → QRel (a :: q) (b :: q')

theorem QRel.length_eq {q q' : List Item} (h : QRel q q') : q.length = q'.length := by
  induction h with
  | nil => rfl
  | cons _ _ ih => simp [ih]

theorem QRel.append {a a' b b' : List Item} (h1 : QRel a a') (h2 : QRel b b') : QRel (a ++ b) (a' ++ b') := by
  induction h1 with
  | nil => exact h2
  | cons h _ ih => exact QRel.cons h ih

/-- strictly ascending syllables + the same syllables + a pointwise link through membership ⇒ item by item -/
theorem qrel_of_ascending :
    ∀ (A B : List Item), A.Pairwise (fun a b => a.syl < b.syl) → B.Pairwise (fun a b => a.syl < b.syl) →
      (∀ s, (∃ a ∈ A, a.syl = s) ↔ (∃ b ∈ B, b.syl = s)) →
      (∀ a ∈ A, ∀ b ∈ B, a.syl = b.syl → ItemEq a b) → QRel A B := by
  intro A
  induction A with
  | nil =>
    intro B _ _ hs _
    cases B with
    | nil => exact QRel.nil
    | cons b B =>
      obtain ⟨a, ha, _⟩ := (hs b.syl).mpr ⟨b, List.mem_cons_self, rfl⟩
      cases ha
  | cons a A ih =>
    intro B hA hB hs hrel
    cases B with
    | nil =>
      obtain ⟨b, hb, _⟩ := (hs a.syl).mp ⟨a, List.mem_cons_self, rfl⟩
      cases hb
    | cons b B =>
      rw [List.pairwise_cons] at hA hB
      have hab : a.syl = b.syl := by
        obtain ⟨b', hb', e1⟩ := (hs a.syl).mp ⟨a, List.mem_cons_self, rfl⟩
        obtain ⟨a', ha', e2⟩ := (hs b.syl).mpr ⟨b, List.mem_cons_self, rfl⟩
        rcases List.mem_cons.mp hb' with e | hbB
        · rw [← e1, e]
        · rcases List.mem_cons.mp ha' with e' | haA
          · rw [← e2, e']
          · have h1 := hB.1 b' hbB
            have h2 := hA.1 a' haA
            omega
      refine QRel.cons (hrel a List.mem_cons_self b List.mem_cons_self hab) ?_
      refine ih B hA.2 hB.2 ?_ ?_
      · intro s
        constructor
        · rintro ⟨x, hx, e⟩
          obtain ⟨y, hy, e'⟩ := (hs s).mp ⟨x, List.mem_cons_of_mem _ hx, e⟩
          rcases List.mem_cons.mp hy with e2 | hyB
          · have := hA.1 x hx
            rw [e2] at e'
            omega
          · exact ⟨y, hyB, e'⟩
        · rintro ⟨y, hy, e⟩
          obtain ⟨x, hx, e'⟩ := (hs s).mpr ⟨y, List.mem_cons_of_mem _ hy, e⟩
          rcases List.mem_cons.mp hx with e2 | hxA
          · have := hB.1 y hy
            rw [e2] at e'
            omega
          · exact ⟨x, hxA, e'⟩
      · exact fun x hx y hy => hrel x (List.mem_cons_of_mem _ hx) y (List.mem_cons_of_mem _ hy)

/-- the children sorted by syllable are strictly ascending (for every `Good` forest) -/
theorem sorted_kids_ascending' {f : Forest} (hf : f.Good) :
    (sortBy sylLt f.toItems).Pairwise (fun a b => a.syl < b.syl) := by
  have hs : (sortBy sylLt f.toItems).Pairwise (fun a b => sylLt b a = false) :=
    sortBy_sorted sylLt f.toItems
      (fun a _ b _ c _ h1 h2 => by simp only [sylLt, decide_eq_false_iff_not] at *; omega)
      (fun a _ b _ h => by simp only [sylLt, decide_eq_false_iff_not, decide_eq_true_eq] at *; omega)
  have hn : (sortBy sylLt f.toItems).Pairwise (fun a b => a.syl ≠ b.syl) := by
    have : ((sortBy sylLt f.toItems).map Item.syl).Nodup :=
      ((sortBy_perm sylLt f.toItems).map Item.syl).nodup_iff.mpr (toItems_syl_nodup' hf)
    exact List.pairwise_map.mp this
  refine (hs.and hn).imp ?_
  intro a b h
  have h1 := h.1
  simp only [sylLt, decide_eq_false_iff_not] at h1
  have h2 := h.2
  omega

/-- **extensionality, one level**: two `Good` forests below which the same keys lead to the same phrase vectors
    have — after the sort by syllable — corresponding children -/
theorem kids_rel {sub sub' : Forest} (hg : sub.Good) (hg' : sub'.Good) (x x' : Option (List Phrase))
    (h : ∀ t k, findNode (t :: k) (x, sub) = findNode (t :: k) (x', sub')) :
    QRel (sortBy sylLt sub.toItems) (sortBy sylLt sub'.toItems) := by
  have hsyl : ∀ (f : Forest), f.Good → ∀ s, (∃ a ∈ sortBy sylLt f.toItems, a.syl = s) ↔ (f.child s).isSome = true := by
    intro f hf s
    constructor
    · rintro ⟨a, ha, e⟩
      obtain ⟨s', l, g, e1, hc⟩ := (mem_toItems_child hf a).mp (mem_sortBy.mp ha)
      subst e1
      simp only [Item.syl] at e
      subst e
      rw [hc]; rfl
    · intro hc
      cases hc' : f.child s with
      | none => rw [hc'] at hc; cases hc
      | some nd =>
        exact ⟨.node s nd.1 nd.2, mem_sortBy.mpr ((mem_toItems_child hf _).mpr ⟨s, nd.1, nd.2, rfl, hc'⟩), rfl⟩
  refine qrel_of_ascending _ _ (sorted_kids_ascending' hg) (sorted_kids_ascending' hg') ?_ ?_
  · intro s
    rw [hsyl sub hg, hsyl sub' hg', child_isSome_iff hg x, child_isSome_iff hg' x']
    simp only [h]
  · intro a ha b hb hab
    obtain ⟨s, l, g, e1, hc⟩ := (mem_toItems_child hg a).mp (mem_sortBy.mp ha)
    obtain ⟨s', l', g', e2, hc'⟩ := (mem_toItems_child hg' b).mp (mem_sortBy.mp hb)
    subst e1; subst e2
    simp only [Item.syl] at hab
    subst hab
    refine ⟨rfl, (child_good hg hc).2, (child_good hg' hc').2, ?_⟩
    intro k
    have := h s k
    simpa [findNode, hc, hc'] using this

/-! ### the loop -/

/-- queues that correspond item by item give the same buffers -/
theorem writeLoop_congr (fuel : Nat) :
    ∀ (q q' : List Item) (cb : Nat) (dict : List Rec) (data : Bytes), QRel q q' →
      writeLoop fuel q cb dict data = writeLoop fuel q' cb dict data := by
  induction fuel with
  | zero =>
    intro q q' cb dict data h
    cases h with
    | nil => rfl
    | cons _ _ => rfl
  | succ fuel ih =>
    intro q q' cb dict data h
    cases h with
    | nil => rfl
    | @cons a b q q' hab hq =>
      cases a with
      | node s l sub =>
        cases b with
        | leaf ps => exact absurd hab (by simp [ItemEq])
        | node s' l' sub' =>
          obtain ⟨hs, hg, hg', hk⟩ := hab
          subst hs
          have hl : l = l' := by simpa [findNode] using hk []
          subst hl
          have hkids : QRel (kidsOf l sub) (kidsOf l sub') := by
            rw [kidsOf_eq, kidsOf_eq]
            refine QRel.append ?_ (kids_rel hg hg' l l (fun t k => hk (t :: k)))
            cases l with
            | none => exact QRel.nil
            | some ps => exact QRel.cons rfl QRel.nil
          simp only [writeLoop]
          rw [hkids.length_eq]
          split
          · rfl
          · exact ih _ _ _ _ _ (hq.append hkids)
      | leaf ps =>
        cases b with
        | node s' l' sub' => exact absurd hab (by simp [ItemEq])
        | leaf ps' =>
          have : ps = ps' := hab
          subst this
          simp only [writeLoop]
          split
          · rfl
          · exact ih _ _ _ _ _ hq

/-- fuel beyond the number of queued nodes is irrelevant -/
theorem writeLoop_fuel (fuel : Nat) :
    ∀ (q : List Item) (cb : Nat) (dict : List Rec) (data : Bytes), qsize q ≤ fuel →
      writeLoop (fuel + 1) q cb dict data = writeLoop fuel q cb dict data := by
  induction fuel with
  | zero =>
    intro q cb dict data hq
    cases q with
    | nil => rfl
    | cons it q =>
      exfalso
      have : 1 ≤ it.size := by cases it <;> simp [Item.size] <;> omega
      simp [qsize] at hq
      omega
  | succ fuel ih =>
    intro q cb dict data hq
    cases q with
    | nil => rfl
    | cons it q =>
      cases it with
      | node s l sub =>
        rw [writeLoop, writeLoop]
        split
        · rfl
        · refine ih _ _ _ _ ?_
          rw [qsize_append, qsize_kidsOf]
          simp only [qsize, List.map_cons, List.sum_cons, Item.size] at hq ⊢
          omega
      | leaf ps =>
        rw [writeLoop, writeLoop]
        split
        · rfl
        · refine ih _ _ _ _ ?_
          simp only [qsize, List.map_cons, List.sum_cons, Item.size] at hq ⊢
          omega

theorem writeLoop_fuel_add (fuel n : Nat) (q : List Item) (cb : Nat) (dict : List Rec) (data : Bytes)
    (hq : qsize q ≤ fuel) : writeLoop (fuel + n) q cb dict data = writeLoop fuel q cb dict data := by
  induction n with
  | zero => rfl
  | succ n ih => rw [← Nat.add_assoc, writeLoop_fuel _ _ _ _ _ (by omega), ih]

/-! ### builders with the same denotation write the same bytes -/

theorem buffers_ext (b b' : Builder) (hg : b.kids.Good) (hg' : b'.kids.Good)
    (h : ∀ k, b.find k = b'.find k) : b.buffers = b'.buffers := by
  unfold Builder.buffers
  have hq : ∀ (c : Builder), qsize [c.root] = c.root.size := fun c => by simp [qsize]
  have hrel : QRel [b.root] [b'.root] := QRel.cons ⟨rfl, hg, hg', h⟩ QRel.nil
  rw [← writeLoop_fuel_add b.root.size b'.root.size [b.root] 1 [] [] (by rw [hq]; omega),
    ← writeLoop_fuel_add b'.root.size b.root.size [b'.root] 1 [] [] (by rw [hq]; omega),
    Nat.add_comm b'.root.size b.root.size]
  exact writeLoop_congr _ _ _ _ _ _ hrel

/-- **the bytes are a function of the metadata and the map key ↦ phrase vector** -/
theorem write_ext (b b' : Builder) (hg : b.kids.Good) (hg' : b'.kids.Good) (hi : b.info = b'.info)
    (h : ∀ k, b.find k = b'.find k) : b.write = b'.write := by
  unfold Builder.write
  rw [buffers_ext b b' hg hg' h, hi]

theorem write_ofEntries_ext (info : Info) (es es' : List Entry)
    (h : ∀ k, refFind es k = refFind es' k) :
    (Builder.ofEntries info es).write = (Builder.ofEntries info es').write := by
  refine write_ext _ _ (Good_ofEntries info es) (Good_ofEntries info es') ?_ ?_
  · rw [info_ofEntries, info_ofEntries]
  · intro k
    rw [find_ofEntries, find_ofEntries, h k]

end Chewing.TrieCodec
