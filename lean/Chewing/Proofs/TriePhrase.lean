import Chewing.Model.TrieCodec
import Chewing.Proofs.Der
/-!
Phrase records: `decPhrase (encPhrase p ++ rest) = some (p, rest)` and the `PhrasesIter` loop
returns exactly the encoded phrases.
-/
namespace Chewing.TrieCodec
open Chewing Chewing.Der

/-- what the Rust types guarantee of a `Phrase`: `str` holds scalar values, `u32`, `Option<u64>` -/
def ValidPhrase (p : Phrase) : Prop :=
  (∀ c ∈ p.text, IsScalar c) ∧ p.freq < 2 ^ 32 ∧ ∀ t, p.lastUsed = some t → t < 2 ^ 64

instance (p : Phrase) : Decidable (ValidPhrase p) :=
  decidable_of_iff ((∀ c ∈ p.text, IsScalar c) ∧ p.freq < 2 ^ 32 ∧ p.lastUsed.all (fun t => decide (t < 2 ^ 64)) = true)
    (by unfold ValidPhrase; cases p.lastUsed <;> simp)

theorem encPhrase_cons (p : Phrase) : ∃ bs, encPhrase p = tagSequence :: bs := ⟨_, rfl⟩

theorem encPhrase_body_le (p : Phrase) :
    (encUtf8 p.text ++ encUint 4 p.freq ++ encCtx0U64 p.lastUsed).length + 2 ≤ (encPhrase p).length :=
  tlv_length_ge _ _

/-- phrase-record round trip -/
theorem decPhrase_encPhrase (p : Phrase) (r : Bytes) (hv : ValidPhrase p) (hl : (encPhrase p).length ≤ maxLen) :
    decPhrase (encPhrase p ++ r) = some (p, r) := by
  obtain ⟨ht, hf, hu⟩ := hv
  have hb := encPhrase_body_le p
  have h1 : (utf8Enc p.text).length ≤ maxLen := by
    have := tlv_length_ge tagUtf8String (utf8Enc p.text)
    simp only [List.length_append] at hb
    unfold encUtf8 at hb
    omega
  unfold decPhrase encPhrase
  refine decSeq_encSeq _ _ r p ?_ (by omega)
  rw [List.append_assoc, decUtf8_encUtf8 p.text _ ht h1]
  simp only
  rw [decUint_encUint 4 p.freq _ (by decide) (by decide) (by simpa using hf)]
  simp only
  rw [decCtx0U64_enc p.lastUsed (fun v hv => by simpa using hu v hv)]

theorem decPhrasesFuel_enc (ps : List Phrase) (f : Nat) (hf : ps.length ≤ f)
    (hv : ∀ p ∈ ps, ValidPhrase p ∧ (encPhrase p).length ≤ maxLen) :
    decPhrasesFuel f (encPhrases ps) = ps := by
  induction ps generalizing f with
  | nil => cases f <;> simp [encPhrases, decPhrasesFuel]
  | cons p ps ih =>
    cases f with
    | zero => simp at hf
    | succ f =>
      obtain ⟨bs, hbs⟩ := encPhrase_cons p
      have hd := decPhrase_encPhrase p (encPhrases ps) (hv p (by simp)).1 (hv p (by simp)).2
      simp only [encPhrases, List.flatMap_cons] at hd ⊢
      rw [hbs] at hd ⊢
      simp only [List.cons_append] at hd ⊢
      rw [decPhrasesFuel, hd]
      simp only
      have := ih f (by simpa using hf) (fun q hq => hv q (by simp [hq]))
      simp only [encPhrases] at this
      rw [this]

theorem encPhrase_length_ge (p : Phrase) : 2 ≤ (encPhrase p).length := by
  have := tlv_length_ge tagSequence (encUtf8 p.text ++ encUint 4 p.freq ++ encCtx0U64 p.lastUsed)
  unfold encPhrase encSeq
  omega

theorem encPhrases_length_ge (ps : List Phrase) : ps.length ≤ (encPhrases ps).length := by
  induction ps with
  | nil => simp [encPhrases]
  | cons p ps ih =>
    have := encPhrase_length_ge p
    simp only [encPhrases, List.flatMap_cons, List.length_append, List.length_cons] at ih ⊢
    omega

/-- the phrase slice of a leaf decodes to exactly the phrases written -/
theorem decPhrases_encPhrases (ps : List Phrase)
    (hv : ∀ p ∈ ps, ValidPhrase p ∧ (encPhrase p).length ≤ maxLen) :
    decPhrases (encPhrases ps) = ps :=
  decPhrasesFuel_enc ps _ (encPhrases_length_ge ps) hv

theorem encPhrase_le_encPhrases {p : Phrase} {ps : List Phrase} (h : p ∈ ps) :
    (encPhrase p).length ≤ (encPhrases ps).length := by
  induction ps with
  | nil => cases h
  | cons q ps ih =>
    simp only [encPhrases, List.flatMap_cons, List.length_append]
    cases h with
    | head => omega
    | tail _ h => have := ih h; simp only [encPhrases] at this; omega

end Chewing.TrieCodec
