import Chewing.Model.TrieWalk
/-!
Structural predicates over an index table.  Their negations are exactly the finding classes the
harness oracle uses (`non_tree_index`, `zero_syllable_child` in `harness/src/c12_common.rs`).
-/
namespace Chewing.TrieWalk

variable {P : Type}

/-- the record can be entered as a *node* by the traversals: the root, or a non-zero syllable -/
def NodeIsh (t : Tbl P) (i : Nat) : Prop := i = 0 ∨ (t.get i).s ≠ 0

/-- its child range passes `bail_if_oob!` (non-empty, inside the table) -/
def InRange (t : Tbl P) (i : Nat) : Prop := 0 < (t.get i).b ∧ (t.get i).a + (t.get i).b ≤ t.n

/-- children come after their parent (what the writer's breadth-first layout guarantees) -/
def Forward (t : Tbl P) : Prop :=
  ∀ i, i < t.n → NodeIsh t i → InRange t i → i < (t.get i).a

/-- the child ranges of two different node records do not overlap -/
def DisjointRanges (t : Tbl P) : Prop :=
  ∀ i j, i < t.n → j < t.n → i ≠ j → NodeIsh t i → NodeIsh t j → InRange t i → InRange t j →
    (t.get i).a + (t.get i).b ≤ (t.get j).a ∨ (t.get j).a + (t.get j).b ≤ (t.get i).a

/-- a zero syllable (= leaf record) only ever sits at the *first* position of a child range -/
def NoZeroChild (t : Tbl P) : Prop :=
  ∀ i, i < t.n → NodeIsh t i → InRange t i →
    ∀ j, (t.get i).a < j → j < (t.get i).a + (t.get i).b → (t.get j).s ≠ 0

/-- every non-zero syllable inside a child range is a value `Syllable::try_from` accepts (`validCode`; what the
    per-record syllable check of `validate_index` guarantees since the repair of C13's F47) -/
def ValidSyls (t : Tbl P) : Prop :=
  ∀ i, i < t.n → NodeIsh t i → InRange t i →
    ∀ j, (t.get i).a ≤ j → j < (t.get i).a + (t.get i).b → (t.get j).s ≠ 0 → validCode (t.get j).s = true

instance (t : Tbl P) (i : Nat) : Decidable (NodeIsh t i) := by unfold NodeIsh; exact inferInstance
instance (t : Tbl P) (i : Nat) : Decidable (InRange t i) := by unfold InRange; exact inferInstance

theorem inRange_of_oob {t : Tbl P} {i : Nat}
    (h : oob (t.get i).a ((t.get i).a + (t.get i).b) t.n = false) : InRange t i := by
  simp only [oob, Bool.or_eq_false_iff, decide_eq_false_iff_not] at h
  unfold InRange
  omega

end Chewing.TrieWalk
