import Chewing.Model.TrieCodec
/-!
The stable insertion sort of `write` (`sortBy`): a permutation; the identity when nothing compares
`Less`; sorted (pairwise "not after") when the comparator is a strict weak order on the elements.
-/
namespace Chewing.TrieCodec
open Chewing Chewing.Der

variable {α : Type}

theorem insTail_perm (lt : α → α → Bool) (x : α) (l : List α) : (insTail lt x l).Perm (x :: l) := by
  induction l with
  | nil => exact List.Perm.refl _
  | cons y ys ih =>
    simp only [insTail]
    split
    · exact (List.Perm.cons y ih).trans (List.Perm.swap x y ys)
    · exact List.Perm.refl _

theorem foldl_insTail_perm (lt : α → α → Bool) (l acc : List α) :
    (l.foldl (fun acc x => insTail lt x acc) acc).Perm (l ++ acc) := by
  induction l generalizing acc with
  | nil => exact List.Perm.refl _
  | cons x xs ih =>
    simp only [List.foldl_cons]
    refine (ih _).trans ?_
    refine (List.Perm.append_left xs (insTail_perm lt x acc)).trans ?_
    simp only [List.cons_append]
    exact List.perm_middle

theorem sortBy_perm (lt : α → α → Bool) (l : List α) : (sortBy lt l).Perm l := by
  unfold sortBy
  refine (List.reverse_perm _).trans ?_
  simpa using foldl_insTail_perm lt l []

theorem mem_sortBy {lt : α → α → Bool} {l : List α} {x : α} : x ∈ sortBy lt l ↔ x ∈ l :=
  (sortBy_perm lt l).mem_iff

theorem sortBy_length (lt : α → α → Bool) (l : List α) : (sortBy lt l).length = l.length :=
  (sortBy_perm lt l).length_eq

/-- nothing compares `Less` ⇒ the order is kept (single-character leaves) -/
theorem sortBy_id (lt : α → α → Bool) (l : List α) (h : ∀ a ∈ l, ∀ b ∈ l, lt a b = false) :
    sortBy lt l = l := by
  unfold sortBy
  have key : ∀ (xs acc : List α), (∀ a ∈ xs, a ∈ l) → (∀ b ∈ acc, b ∈ l) →
      xs.foldl (fun acc x => insTail lt x acc) acc = xs.reverse ++ acc := by
    intro xs
    induction xs with
    | nil => intro acc _ _; rfl
    | cons x xs ih =>
      intro acc hxs hacc
      simp only [List.foldl_cons]
      have hx : insTail lt x acc = x :: acc := by
        cases acc with
        | nil => rfl
        | cons y ys => simp [insTail, h x (hxs x List.mem_cons_self) y (hacc y List.mem_cons_self)]
      rw [hx, ih]
      · simp
      · exact fun a ha => hxs a (List.mem_cons_of_mem _ ha)
      · intro b hb
        simp at hb
        rcases hb with hb | hb
        · rw [hb]; exact hxs x List.mem_cons_self
        · exact hacc b hb
  rw [key l [] (fun a ha => ha) (by simp)]
  simp

/-- `le a b` := "`a` may stand before `b`" (`¬ lt b a`).  If `le` is total and transitive on the
    elements, the result is sorted. -/
theorem sortBy_sorted (lt : α → α → Bool) (l : List α)
    (htrans : ∀ a ∈ l, ∀ b ∈ l, ∀ c ∈ l, lt b a = false → lt c b = false → lt c a = false)
    (htotal : ∀ a ∈ l, ∀ b ∈ l, lt a b = true → lt b a = false) :
    (sortBy lt l).Pairwise (fun a b => lt b a = false) := by
  unfold sortBy
  rw [List.pairwise_reverse]
  -- invariant: the accumulator (reversed prefix) is sorted downwards
  have key : ∀ (xs acc : List α), (∀ a ∈ xs, a ∈ l) → (∀ a ∈ acc, a ∈ l) →
      acc.Pairwise (fun b a => lt b a = false) →
      (xs.foldl (fun acc x => insTail lt x acc) acc).Pairwise (fun b a => lt b a = false) := by
    intro xs
    induction xs with
    | nil => intro acc _ _ h; exact h
    | cons x xs ih =>
      intro acc hxs hacc hp
      simp only [List.foldl_cons]
      have hx : x ∈ l := hxs x (by simp)
      refine ih _ (fun a ha => hxs a (by simp [ha])) ?_ ?_
      · intro a ha
        rcases (insTail_perm lt x acc).mem_iff.mp ha with h
        simp at h
        rcases h with h | h
        · exact h ▸ hx
        · exact hacc a h
      · -- insertion keeps the accumulator sorted
        clear ih
        induction acc with
        | nil => simp [insTail]
        | cons y ys ihy =>
          simp only [insTail]
          have hy : y ∈ l := hacc y (by simp)
          rw [List.pairwise_cons] at hp
          split
          · rename_i hlt
            rw [List.pairwise_cons]
            refine ⟨?_, ihy (fun a ha => hacc a (by simp [ha])) hp.2⟩
            intro a ha
            rcases (insTail_perm lt x ys).mem_iff.mp ha with h
            simp at h
            rcases h with h | h
            · subst h; exact htotal a hx y hy hlt
            · exact hp.1 a h
          · rename_i hlt
            have hlt' : lt x y = false := by simpa using hlt
            rw [List.pairwise_cons]
            refine ⟨?_, List.pairwise_cons.mpr hp⟩
            intro a ha
            simp at ha
            rcases ha with ha | ha
            · subst ha; exact hlt'
            · exact htrans a (hacc a (by simp [ha])) y hy x hx (hp.1 a ha) hlt'
  exact key l [] (fun a ha => ha) (by simp) List.Pairwise.nil

/-- stability: elements among which nothing compares `Less` keep their relative order -/
theorem sortBy_filter_stable (lt : α → α → Bool) (p : α → Bool) (l : List α)
    (h : ∀ a ∈ l, ∀ b ∈ l, p a = true → p b = true → lt a b = false) :
    (sortBy lt l).filter p = l.filter p := by
  unfold sortBy
  have hins : ∀ (x : α) (acc : List α), x ∈ l → (∀ b ∈ acc, b ∈ l) →
      (insTail lt x acc).filter p = if p x then x :: acc.filter p else acc.filter p := by
    intro x acc hx
    induction acc with
    | nil => intro _; simp [insTail, List.filter_cons]
    | cons y ys ih =>
      intro hacc
      have hy : y ∈ l := hacc y List.mem_cons_self
      have ih' := ih (fun b hb => hacc b (List.mem_cons_of_mem _ hb))
      simp only [insTail]
      split
      · rename_i hlt
        simp only [List.filter_cons, ih']
        by_cases hpx : p x = true
        · have hpy : p y = false := by
            cases hp : p y with
            | false => rfl
            | true => rw [h x hx y hy hpx hp] at hlt; cases hlt
          simp [hpx, hpy]
        · simp [hpx]
      · simp only [List.filter_cons]
  have key : ∀ (xs acc : List α), (∀ a ∈ xs, a ∈ l) → (∀ b ∈ acc, b ∈ l) →
      (xs.foldl (fun acc x => insTail lt x acc) acc).filter p = (xs.filter p).reverse ++ acc.filter p := by
    intro xs
    induction xs with
    | nil => intro acc _ _; simp
    | cons x xs ih =>
      intro acc hxs hacc
      simp only [List.foldl_cons]
      have hx : x ∈ l := hxs x List.mem_cons_self
      rw [ih _ (fun a ha => hxs a (List.mem_cons_of_mem _ ha))
        (fun b hb => by
          rcases (insTail_perm lt x acc).mem_iff.mp hb with hb'
          simp only [List.mem_cons] at hb'
          rcases hb' with rfl | hb'
          · exact hx
          · exact hacc b hb'),
        hins x acc hx hacc]
      simp only [List.filter_cons]
      split <;> simp
  rw [List.filter_reverse, key l [] (fun a ha => ha) (by simp)]
  simp

end Chewing.TrieCodec
