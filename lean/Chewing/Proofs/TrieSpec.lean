import Chewing.Model.TrieCodec
import Chewing.Proofs.TrieLookup
/-!
The walk on the tree, characterised through the builder's map (`findNode`): exact lookups.
-/
namespace Chewing.TrieCodec
open Chewing Chewing.Der

theorem child_WF {f : Forest} (hf : f.WF) {s : Nat} {nd : NodeData} (h : f.child s = some nd) :
    NodeOK nd ∧ 0 < s ∧ s < 65536 ∧ validCode s = true := by
  induction f with
  | nil => cases h
  | cons t l sub next _ ih =>
    obtain ⟨h1, h2, hv, _, h4, h5, h6, h7⟩ := hf
    simp only [Forest.child] at h
    split at h
    · rename_i hts
      cases h
      exact ⟨⟨h4, h5, h6⟩, hts ▸ h1, hts ▸ h2, hts ▸ hv⟩
    · exact ih h7 h

theorem filter_toItems_syl (f : Forest) (hf : f.WF) (s' : Nat) :
    f.toItems.filter (fun k => k.syl == s') =
      match f.child s' with
      | some nd => [.node s' nd.1 nd.2]
      | none => [] := by
  induction f with
  | nil => rfl
  | cons t l sub next _ ih =>
    obtain ⟨_, _, _, h3, _, _, _, h7⟩ := hf
    have hsyl : (Item.node t l sub).syl = t := rfl
    simp only [Forest.toItems, List.filter_cons, hsyl, Forest.child]
    by_cases hts : t = s'
    · subst hts
      simp only [beq_self_eq_true, if_true]
      rw [ih h7, h3]
    · have : (t == s') = false := by simpa using hts
      simp only [this, Bool.false_eq_true, if_false, hts]
      exact ih h7

theorem filter_kidsOf_standard {l : Option (List Phrase)} {sub : Forest} {s' : Nat} (hs' : s' ≠ 0) (hw : sub.WF) :
    (kidsOf l sub).filter (fun k => matchSyl .standard k.syl s') =
      match sub.child s' with
      | some nd => [.node s' nd.1 nd.2]
      | none => [] := by
  rw [kidsOf_eq, List.filter_append]
  have h1 : (leafItem l).filter (fun (k : Item) => matchSyl .standard k.syl s') = [] := by
    cases l with
    | none => rfl
    | some ps =>
      have : (0 == s') = false := by simp; omega
      have hsyl : (Item.leaf ps).syl = 0 := rfl
      simp [leafItem, matchSyl, hsyl, this]
  rw [h1, List.nil_append]
  have hp := (sortBy_perm sylLt sub.toItems).filter (fun k => matchSyl .standard k.syl s')
  have hf : sub.toItems.filter (fun k => matchSyl .standard k.syl s') =
      match sub.child s' with
      | some nd => [.node s' nd.1 nd.2]
      | none => [] := filter_toItems_syl sub hw s'
  rw [hf] at hp
  cases hc : sub.child s' with
  | none => rw [hc] at hp; exact hp.eq_nil
  | some nd => rw [hc] at hp; exact List.perm_singleton.mp hp

/-- exact lookup on the tree = the builder's map, leaf in sorted order -/
theorem tLookup_standard (key : List Nat) (hkey : ∀ s ∈ key, s ≠ 0) :
    ∀ (s : Nat) (l : Option (List Phrase)) (sub : Forest), sub.WF →
      tLookup .standard key (.node s l sub) = ((findNode key (l, sub)).map sortLeaf).getD [] := by
  induction key with
  | nil =>
    intro s l sub _
    cases l <;> simp [tLookup, tWalk, Item.leafPhrases, findNode]
  | cons s' rest ih =>
    intro s l sub hw
    have hstep : tStep .standard s' [Item.node s l sub] =
        match sub.child s' with
        | some nd => [.node s' nd.1 nd.2]
        | none => [] := by
      simp only [tStep, List.flatMap_cons, List.flatMap_nil, List.append_nil, Item.kids]
      exact filter_kidsOf_standard (hkey s' (by simp)) hw
    simp only [tLookup, tWalk, hstep, findNode]
    cases hc : sub.child s' with
    | none => simp [tWalk_nil]
    | some nd =>
      simp only
      have := ih (fun t ht => hkey t (by simp [ht])) s' nd.1 nd.2 (child_WF hw hc).1.2.2
      simpa [tLookup] using this

end Chewing.TrieCodec
