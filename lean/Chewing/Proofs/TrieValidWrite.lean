import Chewing.Model.TrieCodec
import Chewing.Proofs.TrieLookup
import Chewing.Proofs.TrieDoc
import Chewing.Proofs.TrieValidate
/-!
`validate_write`: the index `TrieBuilder::write` produces passes `validate_index`, so the validation
`Trie::new` performs since the repair of F16 / F17 never rejects a written file (`openTrie_write_wf`).

The scan of `validate_index` runs along the very order in which the BFS of `write` emits the records,
and its `next` is the writer's `child_begin` counter (`writeLoop_scan`: both start at 1, both advance by
the number of children of each node record and skip leaf records).  The syllable fields inside a child
range are those of the node's sorted children (non-zero), the node's leaf being the first record.

Since the repair of C13's finding F47 `validate_index` also requires the syllable field of every node record
other than the root to be a value `Syllable::try_from` accepts (`TrieValidate.sylsOk`).  The syllable field of a
node record is the syllable of the forest node it was written for (`writeLoop_syls`), a `Syllable` value handed to
`insert`, hence a valid code by `Forest.WF` / `Item.WF`; leaf records and the root carry 0.
-/
namespace Chewing.TrieCodec
open Chewing Chewing.Der Chewing.TrieValidate

/-- what `write` appends: records with fields in range, whole valid phrase records -/
theorem writeLoop_shape (fuel : Nat) :
    ∀ (q : List Item) (cb : Nat) (dict : List Rec) (data : Bytes) (recs' : List Rec) (data' : Bytes),
      writeLoop fuel q cb dict data = some (recs', data') → (∀ it ∈ q, it.Pre) →
      (∃ r2, recs' = dict ++ r2 ∧ ∀ r ∈ r2, r.1 < 4294967296 ∧ r.2.1 < 65536 ∧ r.2.2 < 65536) ∧
      (∃ pl, data' = data ++ encPhrases pl ∧ ∀ p ∈ pl, ValidPhrase p) := by
  induction fuel with
  | zero =>
    intro q cb dict data recs' data' h _
    cases q with
    | nil =>
      rw [writeLoop_nil] at h; cases h
      exact ⟨⟨[], by simp, by simp⟩, ⟨[], by simp [encPhrases], by simp⟩⟩
    | cons it q => simp [writeLoop] at h
  | succ fuel ih =>
    intro q cb dict data recs' data' h hpre
    cases q with
    | nil =>
      rw [writeLoop_nil] at h; cases h
      exact ⟨⟨[], by simp, by simp⟩, ⟨[], by simp [encPhrases], by simp⟩⟩
    | cons it q =>
      cases it with
      | node s l sub =>
        simp only [writeLoop] at h
        split at h
        · cases h
        · rename_i hk
          have hnode : (Item.node s l sub).Pre := hpre _ (by simp)
          have hpre' : ∀ it ∈ q ++ kidsOf l sub, it.Pre := by
            intro it hit
            rw [List.mem_append] at hit
            rcases hit with hit | hit
            · exact hpre it (by simp [hit])
            · exact (hnode.kids it hit).pre
          obtain ⟨⟨r2, hr2, hr2r⟩, hd⟩ := ih _ _ _ _ _ _ h hpre'
          refine ⟨⟨(cb % 4294967296, (kidsOf l sub).length, s) :: r2, by simp [hr2], ?_⟩, hd⟩
          intro r hr
          simp only [List.mem_cons] at hr
          rcases hr with rfl | hr
          · exact ⟨Nat.mod_lt _ (by decide), by simp only; omega, hnode.1⟩
          · exact hr2r r hr
      | leaf ps =>
        simp only [writeLoop] at h
        split at h
        · cases h
        · rename_i hk
          have hleaf : (Item.leaf ps).Pre := hpre _ (by simp)
          obtain ⟨⟨r2, hr2, hr2r⟩, ⟨pl, hpl, hplv⟩⟩ := ih _ _ _ _ _ _ h (fun it hit => hpre it (by simp [hit]))
          refine ⟨⟨(data.length % 4294967296, (encPhrases (sortLeaf ps)).length, 0) :: r2, by simp [hr2], ?_⟩,
            ⟨sortLeaf ps ++ pl, by simp [hpl, encPhrases], ?_⟩⟩
          · intro r hr
            simp only [List.mem_cons] at hr
            rcases hr with rfl | hr
            · exact ⟨Nat.mod_lt _ (by decide), by simp only; omega, by simp⟩
            · exact hr2r r hr
          · intro p hp
            rw [List.mem_append] at hp
            rcases hp with hp | hp
            · exact sortLeaf_valid hleaf.2 p hp
            · exact hplv p hp


theorem sylAt_of_get {recs : List Rec} {j : Nat} {r : Rec} (h : recs[j]? = some r) : sylAt recs j = r.2.2 := by
  unfold sylAt
  simp [List.getD_eq_getElem?_getD, h]

/-- every queue entry of a node after the first is a child node: non-zero syllable -/
theorem kids_tail_syl_pos {l : Option (List Phrase)} {sub : Forest} (hs : sub.WF) :
    ∀ j it, 1 ≤ j → (kidsOf l sub)[j]? = some it → 0 < it.syl := by
  intro j it hj h
  rw [kidsOf_eq] at h
  have hmem : it ∈ sortBy sylLt sub.toItems := by
    cases l with
    | none =>
      simp only [leafItem, List.nil_append] at h
      exact List.mem_of_getElem? h
    | some ps =>
      obtain ⟨j', rfl⟩ : ∃ j', j = j' + 1 := ⟨j - 1, by omega⟩
      simp only [leafItem, List.cons_append, List.nil_append, List.getElem?_cons_succ] at h
      exact List.mem_of_getElem? h
  exact toItems_syl_pos hs it (mem_sortBy.mp hmem)

/-- the queue of `write`: the root alone before the first record, later only non-root items -/
def QueueOK (dict : List Rec) (q : List Item) : Prop :=
  (1 ≤ dict.length ∧ ∀ it ∈ q, it.WF) ∨
  (dict = [] ∧ ∃ l sub, q = [Item.node 0 l sub] ∧ (Item.node 0 l sub).Pre)

theorem QueueOK.pre {dict : List Rec} {q : List Item} (h : QueueOK dict q) : ∀ it ∈ q, it.Pre := by
  rcases h with ⟨_, h⟩ | ⟨_, l, sub, rfl, hp⟩
  · exact fun it hit => (h it hit).pre
  · intro it hit
    simp only [List.mem_singleton] at hit
    subst hit
    exact hp

/-- the loop invariant: the scan of `validate_index`, started at the next record to be written with
    `next` = the writer's `child_begin`, accepts the rest of the final index -/
theorem writeLoop_scan (fuel : Nat) :
    ∀ (q : List Item) (cb : Nat) (dict : List Rec) (data : Bytes) (recs' : List Rec) (data' : Bytes),
      writeLoop fuel q cb dict data = some (recs', data') →
      cb = dict.length + q.length → QueueOK dict q →
      recs'.length < 4294967296 → data'.length < 4294967296 →
      scan recs' data'.length (recs'.drop dict.length) dict.length cb = true := by
  induction fuel with
  | zero =>
    intro q cb dict data recs' data' h hcb hq hr hd
    cases q with
    | nil =>
      rw [writeLoop_nil] at h
      cases h
      simp [scan]
    | cons it q => simp [writeLoop] at h
  | succ fuel ih =>
    intro q cb dict data recs' data' h hcb hq hr hd
    cases q with
    | nil =>
      rw [writeLoop_nil] at h
      cases h
      simp [scan]
    | cons it q =>
      have hpre := hq.pre
      cases it with
      | node s l sub =>
        simp only [writeLoop] at h
        split at h
        · cases h
        · rename_i hk
          have hnode : (Item.node s l sub).Pre := hpre _ (by simp)
          have hkwf : ∀ it ∈ kidsOf l sub, it.WF := hnode.kids
          have hqwf : ∀ it ∈ q, it.WF := by
            rcases hq with ⟨_, h'⟩ | ⟨_, l', sub', hq', _⟩
            · exact fun it hit => h' it (by simp [hit])
            · intro it hit
              have := (List.cons.inj hq').2
              subst this
              cases hit
          have hwf' : ∀ it ∈ q ++ kidsOf l sub, it.WF := by
            intro it hit
            rw [List.mem_append] at hit
            rcases hit with hit | hit
            · exact hqwf it hit
            · exact hkwf it hit
          have hcb' : cb + (kidsOf l sub).length =
              (dict ++ [(cb % 4294967296, (kidsOf l sub).length, s)]).length + (q ++ kidsOf l sub).length := by
            simp at hcb ⊢; omega
          obtain ⟨⟨r2, hr2⟩, _, hlen, hlaid⟩ :=
            writeLoop_laid fuel (q ++ kidsOf l sub) (cb + (kidsOf l sub).length)
              (dict ++ [(cb % 4294967296, (kidsOf l sub).length, s)]) data recs' data' h hcb'
              (fun it hit => (hwf' it hit).pre) hr hd
          have hscan := ih (q ++ kidsOf l sub) (cb + (kidsOf l sub).length)
            (dict ++ [(cb % 4294967296, (kidsOf l sub).length, s)]) data recs' data' h hcb'
            (Or.inl ⟨by simp, hwf'⟩) hr hd
          simp only [List.length_append, List.length_cons, List.length_nil] at hlen hcb hscan
          have hcb32 : cb < 4294967296 := by omega
          rw [Nat.mod_eq_of_lt hcb32] at hr2 hlaid
          have e1 : recs'.drop dict.length = (cb, (kidsOf l sub).length, s) :: r2 := by
            rw [hr2, List.append_assoc, List.drop_left]
            rfl
          have e2 : recs'.drop (dict.length + 1) = r2 := by
            have : dict.length + 1 = (dict ++ [(cb, (kidsOf l sub).length, s)]).length := by simp
            rw [this, hr2, List.drop_left]
          rw [e2] at hscan
          rw [e1]
          refine scan_node_intro ?_ (Nat.le_refl _) (by omega) (by omega) ?_ (by simpa using hscan)
          · rcases hq with ⟨_, h'⟩ | ⟨hd0, _⟩
            · have := (h' (Item.node s l sub) (by simp)).1
              exact Or.inr (by omega)
            · exact Or.inl (by rw [hd0]; rfl)
          · apply zeroInside_of
            intro j hj1 hj2
            obtain ⟨j', rfl⟩ : ∃ j', j = cb + j' := ⟨j - cb, by omega⟩
            have hj' : j' < (kidsOf l sub).length := by omega
            have hget : (kidsOf l sub)[j']? = some (kidsOf l sub)[j'] := List.getElem?_eq_getElem hj'
            have hl := hlaid (q.length + j') (kidsOf l sub)[j']
              (by rw [List.getElem?_append_right (by omega)]; simp)
            obtain ⟨r, hrget, _, _, _, hsyl⟩ := laid_rec hl (hkwf _ (List.getElem_mem hj')).pre
            simp only [List.length_append, List.length_cons, List.length_nil] at hrget
            have epos : dict.length + 1 + (q.length + j') = cb + j' := by omega
            rw [epos] at hrget
            rw [sylAt_of_get hrget, hsyl]
            have := kids_tail_syl_pos hnode.2.2 j' _ (by omega) hget
            omega
      | leaf ps =>
        simp only [writeLoop] at h
        split at h
        · cases h
        · rename_i hk
          have hq1 : 1 ≤ dict.length ∧ ∀ it ∈ Item.leaf ps :: q, it.WF := by
            rcases hq with h' | ⟨_, l', sub', hq', _⟩
            · exact h'
            · cases (List.cons.inj hq').1
          have hwf' : ∀ it ∈ q, it.WF := fun it hit => hq1.2 it (by simp [hit])
          have hcb' : cb = (dict ++ [(data.length % 4294967296, (encPhrases (sortLeaf ps)).length, 0)]).length + q.length := by
            simp at hcb ⊢; omega
          obtain ⟨⟨r2, hr2⟩, ⟨d2, hd2⟩, _, _⟩ :=
            writeLoop_laid fuel q cb (dict ++ [(data.length % 4294967296, (encPhrases (sortLeaf ps)).length, 0)])
              (data ++ encPhrases (sortLeaf ps)) recs' data' h hcb' (fun it hit => (hwf' it hit).pre) hr hd
          have hscan := ih q cb (dict ++ [(data.length % 4294967296, (encPhrases (sortLeaf ps)).length, 0)])
            (data ++ encPhrases (sortLeaf ps)) recs' data' h hcb' (Or.inl ⟨by simp, hwf'⟩) hr hd
          simp only [List.length_append, List.length_cons, List.length_nil] at hscan
          have hdl : data'.length = data.length + (encPhrases (sortLeaf ps)).length + d2.length := by
            rw [hd2]; simp only [List.length_append]
          have hd32 : data.length < 4294967296 := by omega
          rw [Nat.mod_eq_of_lt hd32] at hr2
          have e1 : recs'.drop dict.length = (data.length, (encPhrases (sortLeaf ps)).length, 0) :: r2 := by
            rw [hr2, List.append_assoc, List.drop_left]
            rfl
          have e2 : recs'.drop (dict.length + 1) = r2 := by
            have : dict.length + 1 = (dict ++ [(data.length, (encPhrases (sortLeaf ps)).length, 0)]).length := by simp
            rw [this, hr2, List.drop_left]
          rw [e2] at hscan
          rw [e1]
          exact scan_leaf_intro (by omega) (by omega) (by simpa using hscan)

/-- what `write` appends, syllable fields: 0 (leaf records, the root) or the valid code of a forest node -/
theorem writeLoop_syls (fuel : Nat) :
    ∀ (q : List Item) (cb : Nat) (dict : List Rec) (data : Bytes) (recs' : List Rec) (data' : Bytes),
      writeLoop fuel q cb dict data = some (recs', data') →
      (∀ it ∈ q, it.Pre ∧ (it.syl ≠ 0 → validCode it.syl = true)) →
      ∃ r2, recs' = dict ++ r2 ∧ ∀ r ∈ r2, r.2.2 ≠ 0 → validCode r.2.2 = true := by
  induction fuel with
  | zero =>
    intro q cb dict data recs' data' h _
    cases q with
    | nil =>
      rw [writeLoop_nil] at h; cases h
      exact ⟨[], by simp, by simp⟩
    | cons it q => simp [writeLoop] at h
  | succ fuel ih =>
    intro q cb dict data recs' data' h hpre
    cases q with
    | nil =>
      rw [writeLoop_nil] at h; cases h
      exact ⟨[], by simp, by simp⟩
    | cons it q =>
      cases it with
      | node s l sub =>
        simp only [writeLoop] at h
        split at h
        · cases h
        · have hnode := hpre (Item.node s l sub) (by simp)
          have hpre' : ∀ it ∈ q ++ kidsOf l sub, it.Pre ∧ (it.syl ≠ 0 → validCode it.syl = true) := by
            intro it hit
            rw [List.mem_append] at hit
            rcases hit with hit | hit
            · exact hpre it (by simp [hit])
            · exact ⟨(hnode.1.kids it hit).pre, (hnode.1.kids it hit).syl_valid⟩
          obtain ⟨r2, hr2, hr2r⟩ := ih _ _ _ _ _ _ h hpre'
          refine ⟨(cb % 4294967296, (kidsOf l sub).length, s) :: r2, by simp [hr2], ?_⟩
          intro r hr
          simp only [List.mem_cons] at hr
          rcases hr with rfl | hr
          · exact hnode.2
          · exact hr2r r hr
      | leaf ps =>
        simp only [writeLoop] at h
        split at h
        · cases h
        · obtain ⟨r2, hr2, hr2r⟩ := ih _ _ _ _ _ _ h (fun it hit => hpre it (by simp [hit]))
          refine ⟨(data.length % 4294967296, (encPhrases (sortLeaf ps)).length, 0) :: r2, by simp [hr2], ?_⟩
          intro r hr
          simp only [List.mem_cons] at hr
          rcases hr with rfl | hr
          · exact fun hz => absurd rfl hz
          · exact hr2r r hr

/-- **validate_write**, buffers form: the index of `write` passes `validate_index` -/
theorem validate_buffers (b : Builder) (hb : b.WF) (recs : List Rec) (data : Bytes)
    (h : b.buffers = some (recs, data)) (hr : recs.length < 4294967296) (hd : data.length < 4294967296) :
    validate recs data.length = true := by
  have := writeLoop_scan b.root.size [b.root] 1 [] [] recs data h rfl
    (Or.inr ⟨rfl, b.leaf, b.kids, rfl, root_pre b hb⟩) hr hd
  obtain ⟨r2, hr2, hsyl⟩ := writeLoop_syls b.root.size [b.root] 1 [] [] recs data h
    (by intro it hit; simp only [List.mem_singleton] at hit; subst hit
        exact ⟨root_pre b hb, fun hz => absurd rfl hz⟩)
  refine validate_intro (by simpa using this) ?_
  intro r hr
  rw [hr2, List.nil_append] at hr
  exact hsyl r (List.mem_of_mem_drop hr)

/-- the reader's record view of a flattened index is the record list -/
theorem parseRecs_flatMap (recs : List Rec) (h : ∀ r ∈ recs, r.1 < 4294967296 ∧ r.2.1 < 65536 ∧ r.2.2 < 65536) :
    parseRecs (recs.flatMap recBytes) = recs := by
  unfold parseRecs
  rw [flatMap_recBytes_length, Nat.mul_div_cancel _ (by decide : 0 < 8)]
  apply List.ext_getElem
  · simp
  · intro i h1 h2
    simp only [List.getElem_map, List.getElem_range]
    have hm := h recs[i] (List.getElem_mem h2)
    exact viewAt_recs recs i recs[i] (List.getElem?_eq_getElem h2) hm.1 hm.2.1 hm.2.2

/-- **validate_write**: `validate_index` accepts the index bytes `write` produces -/
theorem validIndex_write (b : Builder) (hb : b.WF) (recs : List Rec) (data : Bytes)
    (h : b.buffers = some (recs, data)) (hr : recs.length < 4294967296) (hd : data.length < 4294967296) :
    validIndex (recs.flatMap recBytes) data = true := by
  obtain ⟨⟨r2, hr2, hb2⟩, _⟩ := writeLoop_shape b.root.size [b.root] 1 [] [] recs data h
    (by intro it hit; simp at hit; subst hit; exact root_pre b hb)
  simp only [List.nil_append] at hr2
  subst hr2
  unfold validIndex
  rw [parseRecs_flatMap _ hb2]
  exact validate_buffers b hb _ data h hr hd

/-- the real reader's view of a written file (`openTrie_write` with the validation discharged) -/
theorem openTrie_write_wf (b : Builder) (hb : b.WF) (hi : ValidInfo b.info) (bytes : Bytes) (hw : b.write = some bytes) :
    ∃ recs data, b.buffers = some (recs, data) ∧
      bytes = encSeq (docBody b.info (recs.flatMap recBytes) data) ∧
      openTrie bytes = some { info := b.info, index := recs.flatMap recBytes, data := data } ∧
      recs.length < 4294967296 ∧ data.length < 4294967296 :=
  openTrie_write b hi bytes hw (validIndex_write b hb)

end Chewing.TrieCodec
