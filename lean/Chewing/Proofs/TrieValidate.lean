import Chewing.Model.TrieValidate
/-!
What a successful `validate_index` scan establishes about the record list (`scan_sound`), in the
vocabulary of the scan itself.  `Proofs/WalkValid.lean` turns it into the structural predicates of
the traversal theorems, `Proofs/TrieValidWrite.lean` proves that the writer's output passes.
-/
namespace Chewing.TrieValidate

/-- record `i` is treated as a node: the root, or a non-zero syllable field -/
def IsNode (i : Nat) (r : Rec3) : Prop := i = 0 ∨ r.2.2 ≠ 0

theorem zeroInside_false {recs : List Rec3} {a b : Nat} (h : zeroInside recs a b = false) :
    ∀ j, a < j → j < a + b → sylAt recs j ≠ 0 := by
  intro j h1 h2 hz
  have : zeroInside recs a b = true := by
    unfold zeroInside
    rw [List.any_eq_true]
    have hm : j ∈ List.range' (a + 1) (b - 1) := by rw [List.mem_range'_1]; omega
    exact ⟨j, hm, by simp [hz]⟩
  rw [h] at this
  cases this

theorem zeroInside_of {recs : List Rec3} {a b : Nat} (h : ∀ j, a < j → j < a + b → sylAt recs j ≠ 0) :
    zeroInside recs a b = false := by
  rw [Bool.eq_false_iff]
  intro hc
  unfold zeroInside at hc
  rw [List.any_eq_true] at hc
  obtain ⟨j, hj, hz⟩ := hc
  rw [List.mem_range'_1] at hj
  exact h j (by omega) (by omega) (by simpa using hz)

/-- the scan, one record at a time -/
theorem scan_cons_node {recs : List Rec3} {dl : Nat} {r : Rec3} {rest : List Rec3} {i next : Nat}
    (hn : IsNode i r) (h : scan recs dl (r :: rest) i next = true) :
    next ≤ r.1 ∧ i < r.1 ∧ r.1 + r.2.1 ≤ recs.length ∧ zeroInside recs r.1 r.2.1 = false ∧
      scan recs dl rest (i + 1) (r.1 + r.2.1) = true := by
  obtain ⟨a, b, s⟩ := r
  have hc : (i == 0 || s != 0) = true := by
    rcases hn with h0 | h0
    · simp [h0]
    · simp only [ne_eq] at h0; simp [h0]
  simp only [scan, hc, if_true] at h
  split at h
  · cases h
  · rename_i h1
    split at h
    · cases h
    · rename_i h2
      simp only [Bool.or_eq_true, decide_eq_true_eq, not_or, Nat.not_lt, Nat.not_le] at h1
      exact ⟨h1.1.1, h1.1.2, h1.2, by simpa using h2, h⟩

theorem scan_cons_leaf {recs : List Rec3} {dl : Nat} {r : Rec3} {rest : List Rec3} {i next : Nat}
    (hn : ¬ IsNode i r) (h : scan recs dl (r :: rest) i next = true) :
    r.1 + r.2.1 ≤ dl ∧ scan recs dl rest (i + 1) next = true := by
  obtain ⟨a, b, s⟩ := r
  have hc : (i == 0 || s != 0) = false := by
    unfold IsNode at hn
    simp only [not_or, ne_eq, Decidable.not_not] at hn
    simp [hn.1, hn.2]
  simp only [scan, hc, Bool.false_eq_true, if_false] at h
  split at h
  · cases h
  · rename_i h1
    exact ⟨by simp only; omega, h⟩

theorem scan_node_intro {recs : List Rec3} {dl a b s : Nat} {rest : List Rec3} {i next : Nat}
    (hc : i = 0 ∨ s ≠ 0) (h1 : next ≤ a) (h2 : i < a) (h3 : a + b ≤ recs.length)
    (h4 : zeroInside recs a b = false) (h5 : scan recs dl rest (i + 1) (a + b) = true) :
    scan recs dl ((a, b, s) :: rest) i next = true := by
  have hc' : (i == 0 || s != 0) = true := by
    rcases hc with h0 | h0
    · simp [h0]
    · simp [h0]
  have hc1 : (decide (a < next) || decide (a ≤ i) || decide (recs.length < a + b)) = false := by
    simp only [Bool.or_eq_false_iff, decide_eq_false_iff_not]
    omega
  simp only [scan, hc', if_true, hc1, h4, Bool.false_eq_true, if_false, h5]

theorem scan_leaf_intro {recs : List Rec3} {dl a b : Nat} {rest : List Rec3} {i next : Nat}
    (hc : i ≠ 0) (h1 : a + b ≤ dl) (h5 : scan recs dl rest (i + 1) next = true) :
    scan recs dl ((a, b, 0) :: rest) i next = true := by
  have hc' : (i == 0 || (0 : Nat) != 0) = false := by simp [hc]
  have hc1 : ¬ dl < a + b := by omega
  simp only [scan, hc', hc1, Bool.false_eq_true, if_false, h5]

instance (i : Nat) (r : Rec3) : Decidable (IsNode i r) := by unfold IsNode; exact inferInstance

/-- `next` only grows -/
theorem scan_next_le {recs : List Rec3} {dl : Nat} :
    ∀ (rest : List Rec3) (i next : Nat), scan recs dl rest i next = true →
      ∀ k (hk : k < rest.length), IsNode (i + k) rest[k] → next ≤ rest[k].1
  | [], _, _, _, k, hk, _ => by cases hk
  | r :: rest, i, next, h, k, hk, hn => by
    cases k with
    | zero => exact (scan_cons_node (by simpa using hn) h).1
    | succ k =>
      have hkr : k < rest.length := by simpa using hk
      have hn' : IsNode (i + 1 + k) rest[k] := by
        have e : i + (k + 1) = i + 1 + k := by omega
        simpa [e] using hn
      by_cases hr : IsNode i r
      · have h' := scan_cons_node hr h
        have := scan_next_le rest (i + 1) _ h'.2.2.2.2 k (by simpa using hk) hn'
        simp only [List.getElem_cons_succ]
        omega
      · have h' := scan_cons_leaf hr h
        simpa using scan_next_le rest (i + 1) _ h'.2 k (by simpa using hk) hn'

/-- everything the scan has checked, for every node record of the scanned suffix -/
theorem scan_sound {recs : List Rec3} {dl : Nat} :
    ∀ (rest : List Rec3) (i next : Nat), scan recs dl rest i next = true →
      ∀ k (hk : k < rest.length), IsNode (i + k) rest[k] →
        i + k < rest[k].1 ∧ rest[k].1 + rest[k].2.1 ≤ recs.length ∧
        zeroInside recs rest[k].1 rest[k].2.1 = false ∧
        ∀ k' (hk' : k' < rest.length), k < k' → IsNode (i + k') rest[k'] → rest[k].1 + rest[k].2.1 ≤ rest[k'].1
  | [], _, _, _, k, hk, _ => by cases hk
  | r :: rest, i, next, h, k, hk, hn => by
    cases k with
    | zero =>
      have h' := scan_cons_node (by simpa using hn) h
      refine ⟨by simpa using h'.2.1, by simpa using h'.2.2.1, by simpa using h'.2.2.2.1, ?_⟩
      intro k' hk' hlt hn'
      cases k' with
      | zero => omega
      | succ k' =>
        have e : i + (k' + 1) = i + 1 + k' := by omega
        have := scan_next_le rest (i + 1) _ h'.2.2.2.2 k' (by simpa using hk') (by simpa [e] using hn')
        simpa using this
    | succ k =>
      have e : i + (k + 1) = i + 1 + k := by omega
      have hkr : k < rest.length := by simpa using hk
      have hn' : IsNode (i + 1 + k) rest[k] := by simpa [e] using hn
      have hrest : ∃ nx, scan recs dl rest (i + 1) nx = true := by
        by_cases hr : IsNode i r
        · exact ⟨_, (scan_cons_node hr h).2.2.2.2⟩
        · exact ⟨_, (scan_cons_leaf hr h).2⟩
      obtain ⟨nx, hnx⟩ := hrest
      obtain ⟨h1, h2, h3, h4⟩ := scan_sound rest (i + 1) nx hnx k (by simpa using hk) hn'
      refine ⟨by simpa [e] using h1, by simpa using h2, by simpa using h3, ?_⟩
      intro k' hk' hlt hn''
      cases k' with
      | zero => omega
      | succ k' =>
        have e' : i + (k' + 1) = i + 1 + k' := by omega
        have := h4 k' (by simpa using hk') (by omega) (by simpa [e'] using hn'')
        simpa using this

/-- leaf records (not the root, zero syllable field) point inside the phrase data -/
theorem scan_leaf {recs : List Rec3} {dl : Nat} :
    ∀ (rest : List Rec3) (i next : Nat), scan recs dl rest i next = true →
      ∀ k (hk : k < rest.length), ¬ IsNode (i + k) rest[k] → rest[k].1 + rest[k].2.1 ≤ dl
  | [], _, _, _, k, hk, _ => by cases hk
  | r :: rest, i, next, h, k, hk, hn => by
    cases k with
    | zero => exact (scan_cons_leaf (by simpa using hn) h).1
    | succ k =>
      have e : i + (k + 1) = i + 1 + k := by omega
      have hkr : k < rest.length := by simpa using hk
      have hn' : ¬ IsNode (i + 1 + k) rest[k] := by simpa [e] using hn
      by_cases hr : IsNode i r
      · simpa using scan_leaf rest (i + 1) _ (scan_cons_node hr h).2.2.2.2 k (by simpa using hk) hn'
      · simpa using scan_leaf rest (i + 1) _ (scan_cons_leaf hr h).2 k (by simpa using hk) hn'

/-! ### the two halves of `validate` -/

theorem validate_scan {recs : List Rec3} {dl : Nat} (h : validate recs dl = true) : scan recs dl recs 0 1 = true := by
  unfold validate at h
  rw [Bool.and_eq_true] at h
  exact h.1

/-- the syllable field of every node record other than the root is a valid syllable code -/
theorem validate_syls {recs : List Rec3} {dl : Nat} (h : validate recs dl = true) :
    ∀ j, 0 < j → j < recs.length → sylAt recs j ≠ 0 → validCode (sylAt recs j) = true := by
  unfold validate at h
  rw [Bool.and_eq_true] at h
  have hs := h.2
  unfold sylsOk at hs
  rw [List.all_eq_true] at hs
  intro j hj hl hz
  have hm : recs[j] ∈ recs.drop 1 := by
    rw [List.mem_drop_iff_getElem]
    exact ⟨j - 1, by omega, by congr 1; omega⟩
  have := hs _ hm
  have e : sylAt recs j = recs[j].2.2 := by
    unfold sylAt
    simp [List.getD_eq_getElem?_getD, List.getElem?_eq_getElem hl]
  rw [e] at hz ⊢
  simpa [hz] using this

theorem validate_intro {recs : List Rec3} {dl : Nat} (h1 : scan recs dl recs 0 1 = true)
    (h2 : ∀ r ∈ recs.drop 1, r.2.2 ≠ 0 → validCode r.2.2 = true) : validate recs dl = true := by
  unfold validate sylsOk
  rw [Bool.and_eq_true, List.all_eq_true]
  refine ⟨h1, fun r hr => ?_⟩
  by_cases hz : r.2.2 = 0
  · simp [hz]
  · simp [h2 r hr hz]

end Chewing.TrieValidate
