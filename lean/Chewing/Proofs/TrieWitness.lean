import Chewing.Proofs.WalkEntries
/-!
Witnesses of the former findings F16, F17 and of C13's F47 as it shows in a dictionary file (repaired: `validate_index` rejects
these tables, `Props/C12.lean: witnesses_rejected`): what the traversals do on an index table that has NOT passed the validation.
-/
namespace Chewing.TrieWalk

/-- F16: the root's only child is a node whose child range is itself
    (`harness/src/bin/corrupt.rs`: `witness-F16-self-loop`) -/
def loopTbl : Tbl Unit :=
  { recs := [⟨1, 1, 0⟩, ⟨1, 1, 10268⟩], dataLen := 0, leaf := fun _ _ => [] }

theorem loop_desc1 : ∀ (fuel : Nat) (st : ESt Unit), st.phase = .descend → st.node = 1 →
    run loopTbl fuel st = .outOfFuel
  | 0, st, hph, _ => by
    unfold run
    have hb : (Phase.descend == Phase.finished) = false := rfl
    simp [hph, hb]
  | fuel + 1, st, hph, hnode => by
    have hin : oob (loopTbl.get st.node).a ((loopTbl.get st.node).a + (loopTbl.get st.node).b) loopTbl.n = false := by
      rw [hnode]; rfl
    have ht := tick_descend loopTbl st hph hin
    unfold run
    have hb : (Phase.descend == Phase.finished) = false := rfl
    simp only [hph, hb, Bool.false_eq_true, if_false]
    rw [ht]
    unfold descendNF
    rw [hnode]
    have h1 : loopTbl.get 1 = ⟨1, 1, 10268⟩ := rfl
    simp only [h1]
    exact loop_desc1 fuel _ hph rfl

theorem loop_desc0 (fuel : Nat) (st : ESt Unit) (hph : st.phase = .descend) (hnode : st.node = 0) :
    run loopTbl fuel st = .outOfFuel := by
  cases fuel with
  | zero =>
    unfold run
    have hb : (Phase.descend == Phase.finished) = false := rfl
    simp [hph, hb]
  | succ fuel =>
    have hin : oob (loopTbl.get st.node).a ((loopTbl.get st.node).a + (loopTbl.get st.node).b) loopTbl.n = false := by
      rw [hnode]; rfl
    have ht := tick_descend loopTbl st hph hin
    unfold run
    have hb : (Phase.descend == Phase.finished) = false := rfl
    simp only [hph, hb, Bool.false_eq_true, if_false]
    rw [ht]
    unfold descendNF
    rw [hnode]
    have h0 : loopTbl.get 0 = ⟨1, 1, 0⟩ := rfl
    have h1 : loopTbl.get 1 = ⟨1, 1, 10268⟩ := rfl
    simp only [h0, h1]
    exact loop_desc1 fuel _ hph rfl

def loopInit : ESt Unit :=
  { phase := .callStart, node := 0, stack := [], syls := [], results := [], done := false, out := [] }

/-- `entries()` on the self-loop table does not finish with ANY amount of fuel -/
theorem loop_never_finishes (fuel : Nat) : entriesFuel loopTbl fuel = .outOfFuel := by
  unfold entriesFuel
  have hinit : entriesInit loopTbl = some loopInit := rfl
  rw [hinit]
  dsimp only
  cases fuel with
  | zero => rfl
  | succ fuel =>
    unfold run
    have h1 : (loopInit.phase == Phase.finished) = false := rfl
    have h2 : tick loopTbl loopInit = .ok { loopInit with phase := .descend } := rfl
    simp only [h1, h2, Bool.false_eq_true, if_false]
    rw [loop_desc0 fuel _ rfl rfl]

theorem loop_not_forward : ¬ Forward loopTbl := by
  intro h
  have := h 1 (by decide) (Or.inr (by decide)) (by unfold InRange; decide)
  exact absurd this (by decide)

/-- F17, descend path: a zero syllable as *second* child (`witness-F17-second-child`) -/
def zeroSecondTbl : Tbl Unit :=
  { recs := [⟨1, 1, 0⟩, ⟨2, 2, 10268⟩, ⟨0, 1, 0⟩, ⟨4, 1, 0⟩, ⟨0, 1, 0⟩], dataLen := 1, leaf := fun _ _ => [()] }

theorem zeroSecond_panics : entriesFuel zeroSecondTbl 100 = .panic "trie:invalid-syllable-unwrap" := by decide

/-- F17, ascend path: a zero syllable as a later sibling (`witness-F17-later-sibling`) -/
def zeroSiblingTbl : Tbl Unit :=
  { recs := [⟨1, 2, 0⟩, ⟨3, 1, 10268⟩, ⟨3, 1, 0⟩, ⟨0, 1, 0⟩], dataLen := 1, leaf := fun _ _ => [()] }

theorem zeroSibling_panics : entriesFuel zeroSiblingTbl 100 = .panic "trie:debug-assert-zero-syllable" := by rfl

theorem zeroSecond_not_noZeroChild : ¬ NoZeroChild zeroSecondTbl := by
  intro h
  exact h 1 (by decide) (Or.inr (by decide)) (by unfold InRange; decide) 3 (by decide) (by decide) rfl

/-- C13's F47 met in a dictionary file: a structurally perfect index (it passes the scan of `validate_index`) whose
    one node carries the syllable field `0x6a07` — not a syllable (`initial` field 53, tone field 7).  Before the repair
    `Syllable::try_from` accepted it; with the repaired `try_from` alone, `entries()` would reach
    `Syllable::try_from(0x6a07).unwrap()` (`witness-F47-invalid-syllable` of the harness) -/
def invalidSylTbl : Tbl Unit :=
  { recs := [⟨1, 1, 0⟩, ⟨2, 1, 27143⟩, ⟨0, 1, 0⟩], dataLen := 1, leaf := fun _ _ => [()] }

theorem invalidSyl_panics : entriesFuel invalidSylTbl 100 = .panic "trie:invalid-syllable-unwrap" := by decide

/-- the same with the empty-marker bit set on a non-empty pattern (`0x8208`) -/
def markerSylTbl : Tbl Unit :=
  { recs := [⟨1, 1, 0⟩, ⟨2, 1, 33288⟩, ⟨0, 1, 0⟩], dataLen := 1, leaf := fun _ _ => [()] }

theorem markerSyl_panics : entriesFuel markerSylTbl 100 = .panic "trie:invalid-syllable-unwrap" := by decide

/-- both tables are flawless but for the syllable value: the structural scan passes, `NoZeroChild` holds -/
theorem invalidSyl_scan_ok :
    TrieValidate.scan invalidSylTbl.rec3 1 invalidSylTbl.rec3 0 1 = true ∧
    TrieValidate.scan markerSylTbl.rec3 1 markerSylTbl.rec3 0 1 = true := by decide

theorem invalidSyl_noZeroChild : NoZeroChild invalidSylTbl := by
  intro i hi _ _ j h1 h2
  have hn : invalidSylTbl.n = 3 := rfl
  have h0 : invalidSylTbl.get 0 = ⟨1, 1, 0⟩ := rfl
  have h1' : invalidSylTbl.get 1 = ⟨2, 1, 27143⟩ := rfl
  have h2' : invalidSylTbl.get 2 = ⟨0, 1, 0⟩ := rfl
  have : i = 0 ∨ i = 1 ∨ i = 2 := by omega
  rcases this with rfl | rfl | rfl
  · rw [h0] at h1 h2; dsimp only at h1 h2; omega
  · rw [h1'] at h1 h2; dsimp only at h1 h2; omega
  · rw [h2'] at h1 h2; dsimp only at h1 h2; omega

theorem invalidSyl_forward : Forward invalidSylTbl := by
  intro i hi hn _
  have hn3 : invalidSylTbl.n = 3 := rfl
  have : i = 0 ∨ i = 1 ∨ i = 2 := by omega
  rcases this with rfl | rfl | rfl
  · decide
  · decide
  · rcases hn with h | h
    · cases h
    · exact absurd rfl h

theorem invalidSyl_not_validSyls : ¬ ValidSyls invalidSylTbl := by
  intro h
  have := h 0 (by decide) (Or.inl rfl) (by unfold InRange; decide) 1 (by decide) (by decide) (by decide)
  revert this
  decide

/-- a well-formed table (the index of the valid three-entry file of the probe): the hypotheses of
    the partial theorems are satisfiable and the walk yields its three leaves -/
def goodTbl : Tbl Nat :=
  { recs := [⟨1, 2, 0⟩, ⟨3, 1, 6664⟩, ⟨4, 2, 8712⟩, ⟨0, 10, 0⟩, ⟨10, 10, 0⟩, ⟨6, 1, 6664⟩, ⟨20, 13, 0⟩],
    dataLen := 33, leaf := fun db _ => [db] }

theorem good_entries : entriesFuel goodTbl 100 = .ok [([6664], [0]), ([8712, 6664], [20]), ([8712], [10])] := by rfl

end Chewing.TrieWalk
