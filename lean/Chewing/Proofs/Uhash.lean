import Chewing.Model.Uhash
import Chewing.Proofs.Returns
/-!
No-panic / termination lemmas for the legacy readers (`Model/Uhash.lean`), for ALL byte strings.
-/
namespace Chewing.Uhash

theorem idx_returns {buf : List Nat} {i : Nat} (h : i < buf.length) : Returns (idx buf i) := by
  unfold idx
  rw [List.getElem?_eq_getElem h]
  exact ⟨_, rfl⟩

theorem slice_returns {buf : List Nat} {a b : Nat} (h : a ≤ b ∧ b ≤ buf.length) : Returns (slice buf a b) := by
  unfold slice
  rw [if_pos h]
  exact ⟨_, rfl⟩

theorem i32At_returns {buf : List Nat} {o : Nat} (h : o + 4 ≤ buf.length) : Returns (i32At buf o) := by
  unfold i32At
  obtain ⟨bs, hbs⟩ := slice_returns (buf := buf) (a := o) (b := o + 4) ⟨by omega, h⟩
  rw [hbs]
  exact ⟨_, rfl⟩

theorem readSyls_returns {buf : List Nat} : ∀ (n base : Nat), base + 2 * n ≤ buf.length → Returns (readSyls buf n base)
  | 0, _, _ => ⟨_, rfl⟩
  | n + 1, base, h => by
    unfold readSyls
    obtain ⟨bs, hbs⟩ := slice_returns (buf := buf) (a := base) (b := base + 2) ⟨by omega, by omega⟩
    rw [hbs]
    dsimp only
    split
    · exact ⟨_, rfl⟩
    · obtain ⟨r, hr⟩ := readSyls_returns (buf := buf) n (base + 2) (by omega)
      rw [hr]
      cases r <;> exact ⟨_, rfl⟩

/-- the repaired record decoder never panics on a 125-byte record (F14, F15 absent) -/
theorem recBin_returns {buf : List Nat} (h : buf.length = 125) : Returns (recBin buf) := by
  unfold recBin
  refine Returns.bind (i32At_returns (by omega)) ?_
  rintro ⟨n0, userFreq⟩ _
  refine Returns.bind (i32At_returns (by omega)) ?_
  rintro ⟨n1, recentTime⟩ _
  refine Returns.bind (i32At_returns (by omega)) ?_
  rintro ⟨n2, _⟩ _
  refine Returns.bind (i32At_returns (by omega)) ?_
  rintro ⟨n3, _⟩ _
  dsimp only
  split
  · exact Returns.pure _
  refine Returns.bind (idx_returns (by omega)) ?_
  intro len _
  split
  · exact Returns.pure _
  rename_i hlen
  have hlen' : 17 + 2 * len + 1 < 125 := by
    simp only [binFieldSize] at hlen
    omega
  refine Returns.bind (idx_returns (by omega)) ?_
  intro nbytes _
  split
  · exact Returns.pure _
  refine Returns.bind (idx_returns (by omega)) ?_
  intro first _
  split
  · exact Returns.pure _
  refine Returns.bind (readSyls_returns len 17 (by omega)) ?_
  intro so _
  cases so with
  | none => exact Returns.pure _
  | some syls =>
    dsimp only
    refine Returns.bind (idx_returns (by omega)) ?_
    intro bytes _
    split
    · exact Returns.pure _
    rename_i hb
    have hb' : 17 + 2 * len + bytes + 1 ≤ 125 := by
      simp only [binFieldSize] at hb
      omega
    refine Returns.bind (slice_returns ⟨by omega, by omega⟩) ?_
    intro ph _
    split
    · exact Returns.pure _
    · exact Returns.pure _

/-- the record loop returns whenever the record decoder does and the fuel exceeds the input length -/
theorem binLoop_returns {recf : List Nat → Outcome RecRes}
    (hrec : ∀ buf, buf.length = 125 → Returns (recf buf)) :
    ∀ (fuel : Nat) (rest : List Nat), rest.length < fuel → Returns (binLoop recf fuel rest)
  | 0, _, h => by omega
  | fuel + 1, rest, h => by
    unfold binLoop
    split
    · exact ⟨_, rfl⟩
    · rename_i hlen
      simp only [binFieldSize, Nat.not_lt] at hlen
      have hrest : (rest.drop binFieldSize).length < fuel := by
        simp only [binFieldSize, List.length_drop]
        omega
      obtain ⟨r, hr⟩ := hrec (rest.take binFieldSize) (by simp only [binFieldSize, List.length_take]; omega)
      obtain ⟨q, hq⟩ := binLoop_returns hrec fuel _ hrest
      rw [hr]
      cases r with
      | skip => exact ⟨_, hq⟩
      | fail => exact ⟨_, rfl⟩
      | item r =>
        dsimp only
        rw [hq]
        cases q <;> exact ⟨_, rfl⟩

theorem loadBinWith_returns {recf : List Nat → Outcome RecRes}
    (hrec : ∀ buf, buf.length = 125 → Returns (recf buf)) (b : List Nat) : Returns (loadBinWith recf b) := by
  unfold loadBinWith
  split
  · exact ⟨_, rfl⟩
  split
  · exact ⟨_, rfl⟩
  split
  · exact ⟨_, rfl⟩
  · exact binLoop_returns hrec _ _ (by simp only [List.length_drop]; omega)

theorem loadBin_returns (b : List Nat) : Returns (loadBin b) :=
  loadBinWith_returns (fun _ h => recBin_returns h) b

theorem loadTextWith_returns (hdr : List Nat → Bool) (b : List Nat) : Returns (loadTextWith hdr b) := by
  unfold loadTextWith
  split
  · exact ⟨_, rfl⟩
  · split
    · exact ⟨_, rfl⟩
    · split <;> exact ⟨_, rfl⟩

theorem loadText_returns (b : List Nat) : Returns (loadText b) := loadTextWith_returns _ b

theorem loadUhash_returns (b : List Nat) : Returns (loadUhash b) := by
  unfold loadUhash
  obtain ⟨r, hr⟩ := loadBin_returns b
  rw [hr]
  cases r with
  | ok rs => exact ⟨_, rfl⟩
  | error e => exact loadText_returns b

end Chewing.Uhash
