import Chewing.Proofs.UhashRoundtrip
/-!
Round trip of the legacy binary store: `loadUhash (encodeBin lifetime rs) = liveRecs rs` for every
list of valid stored records (C19: "every valid record of the legacy store is present").
-/
namespace Chewing.Uhash

theorem ok_bind {α β : Type} (a : α) (f : α → Outcome β) : (Outcome.ok a >>= f) = f a := rfl

theorem leVal_le16 {s : Nat} (_h : s < 65536) : leVal (le16 s) = s := by
  simp only [le16, leVal]; omega

theorem leVal_le32 {x : Nat} (h : x < 4294967296) : leVal (le32 x) = x := by
  simp only [le32, leVal]; omega

theorem slice_mid (pre mid post : List Nat) {a b : Nat} (ha : a = pre.length) (hb : b = a + mid.length) :
    slice (pre ++ (mid ++ post)) a b = .ok mid := by
  subst ha hb
  unfold slice
  have hc : pre.length ≤ pre.length + mid.length ∧ pre.length + mid.length ≤ (pre ++ (mid ++ post)).length := by
    simp only [List.length_append]; omega
  rw [if_pos hc, List.drop_left, Nat.add_sub_cancel_left, List.take_left]

theorem idx_mid (pre : List Nat) (x : Nat) (post : List Nat) {i : Nat} (hi : i = pre.length) :
    idx (pre ++ x :: post) i = .ok x := by
  subst hi
  unfold idx
  simp

theorem i32At_mid (pre : List Nat) (x : Nat) (post : List Nat) {o : Nat} (ho : o = pre.length) (hx : x < 4294967296) :
    i32At (pre ++ (le32 x ++ post)) o = .ok (decide (x ≥ 2147483648), x) := by
  unfold i32At
  rw [slice_mid pre (le32 x) post ho (by simp [le32])]
  dsimp only
  rw [leVal_le32 hx]
  have : ((le32 x).getD 3 0 ≥ 128) ↔ x ≥ 2147483648 := by
    simp only [le32, List.getD_cons_succ, List.getD_cons_zero]
    omega
  simp only [this]

/-- the syllable loop reads back the encoded key -/
theorem readSyls_enc : ∀ (syls pre post : List Nat), (∀ s ∈ syls, validCode s = true ∧ s < 65536) →
    readSyls (pre ++ (syls.flatMap le16 ++ post)) syls.length pre.length = .ok (some syls)
  | [], _, _, _ => rfl
  | s :: ss, pre, post, h => by
    have hs := h s List.mem_cons_self
    have e1 : pre ++ ((s :: ss).flatMap le16 ++ post) = pre ++ (le16 s ++ (ss.flatMap le16 ++ post)) := by
      simp [List.flatMap_cons, List.append_assoc]
    rw [e1, List.length_cons, readSyls, slice_mid pre (le16 s) _ rfl (by simp [le16])]
    dsimp only
    rw [leVal_le16 hs.2]
    simp only [hs.1, Bool.not_true, Bool.false_eq_true, if_false]
    have e2 : pre ++ (le16 s ++ (ss.flatMap le16 ++ post)) = (pre ++ le16 s) ++ (ss.flatMap le16 ++ post) := by
      simp [List.append_assoc]
    have e3 : pre.length + 2 = (pre ++ le16 s).length := by simp [le16]
    rw [e2, e3, readSyls_enc ss (pre ++ le16 s) post (fun x hx => h x (List.mem_cons_of_mem _ hx))]

theorem length_flatMap_le16 (syls : List Nat) : (syls.flatMap le16).length = 2 * syls.length := by
  induction syls with
  | nil => rfl
  | cons s ss ih => simp only [List.flatMap_cons, List.length_append, List.length_cons, ih, le16, List.length_nil]; omega

theorem fields4 {l : List Nat} (h : l.length = 4) : ∃ a b c d, l = [a, b, c, d] := by
  match l, h with
  | [a, b, c, d], _ => exact ⟨a, b, c, d, rfl⟩

/-- the record body in normal form -/
def bodyNF (f t m o : Nat) (syls ph' pad : List Nat) (nb : Nat) : List Nat :=
  le32 f ++ (le32 t ++ (le32 m ++ (le32 o ++ (syls.length :: (syls.flatMap le16 ++ (nb :: (ph' ++ pad)))))))

theorem recBin_bodyNF (f t m o : Nat) (syls ph' pad : List Nat) (c : Nat) (rest : List Nat)
    (hf : f < 4294967296) (ht : t < 4294967296) (hm : m < 4294967296) (ho : o < 4294967296)
    (hs : ∀ s ∈ syls, validCode s = true ∧ s < 65536) (hl1 : 1 ≤ syls.length) (hl2 : syls.length ≤ 11)
    (hph : ph' = c :: rest) (hfit : 17 + 2 * syls.length + 1 + ph'.length ≤ binFieldSize)
    :
    recBin (bodyNF f t m o syls ph' pad ph'.length) =
      if f ≥ 2147483648 ∨ t ≥ 2147483648 ∨ m ≥ 2147483648 ∨ o ≥ 2147483648 then .ok .skip
      else if c = 0 then .ok .skip
      else if validUtf8 ph' then .ok (.item { syls := syls, phrase := ph', freq := f, time := t })
      else .ok .skip := by
  have h0 : i32At (bodyNF f t m o syls ph' pad ph'.length) 0 = .ok (decide (f ≥ 2147483648), f) :=
    i32At_mid [] f _ rfl hf
  have h4 : i32At (bodyNF f t m o syls ph' pad ph'.length) 4 = .ok (decide (t ≥ 2147483648), t) := by
    have := i32At_mid (le32 f) t (le32 m ++ (le32 o ++ (syls.length :: (syls.flatMap le16 ++ (ph'.length :: (ph' ++ pad))))))
      (o := 4) (by simp [le32]) ht
    simpa [bodyNF] using this
  have h8 : i32At (bodyNF f t m o syls ph' pad ph'.length) 8 = .ok (decide (m ≥ 2147483648), m) := by
    have := i32At_mid (le32 f ++ le32 t) m (le32 o ++ (syls.length :: (syls.flatMap le16 ++ (ph'.length :: (ph' ++ pad)))))
      (o := 8) (by simp [le32]) hm
    simpa [bodyNF, List.append_assoc] using this
  have h12 : i32At (bodyNF f t m o syls ph' pad ph'.length) 12 = .ok (decide (o ≥ 2147483648), o) := by
    have := i32At_mid (le32 f ++ le32 t ++ le32 m) o (syls.length :: (syls.flatMap le16 ++ (ph'.length :: (ph' ++ pad))))
      (o := 12) (by simp [le32]) ho
    simpa [bodyNF, List.append_assoc] using this
  let hdr := le32 f ++ le32 t ++ le32 m ++ le32 o
  have hhdr : hdr.length = 16 := by simp [hdr, le32]
  have e16 : bodyNF f t m o syls ph' pad ph'.length =
      hdr ++ syls.length :: (syls.flatMap le16 ++ (ph'.length :: (ph' ++ pad))) := by
    simp [bodyNF, hdr, List.append_assoc]
  have h16 : idx (bodyNF f t m o syls ph' pad ph'.length) 16 = .ok syls.length := by
    rw [e16]; exact idx_mid hdr _ _ hhdr.symm
  let pre1 := hdr ++ [syls.length] ++ syls.flatMap le16
  have hpre1 : pre1.length = 17 + 2 * syls.length := by
    simp only [pre1, List.length_append, hhdr, length_flatMap_le16, List.length_cons, List.length_nil]
  have e17 : bodyNF f t m o syls ph' pad ph'.length = pre1 ++ ph'.length :: (ph' ++ pad) := by
    simp [bodyNF, pre1, hdr, List.append_assoc]
  have hnb : idx (bodyNF f t m o syls ph' pad ph'.length) (17 + 2 * syls.length) = .ok ph'.length := by
    rw [e17]; exact idx_mid pre1 _ _ hpre1.symm
  have e18 : bodyNF f t m o syls ph' pad ph'.length = (pre1 ++ [ph'.length]) ++ c :: (rest ++ pad) := by
    rw [e17, hph]; simp [List.append_assoc]
  have hfirst : idx (bodyNF f t m o syls ph' pad ph'.length) (17 + 2 * syls.length + 1) = .ok c := by
    rw [e18]; exact idx_mid _ _ _ (by simp only [List.length_append, hpre1, List.length_cons, List.length_nil])
  have hsy : readSyls (bodyNF f t m o syls ph' pad ph'.length) syls.length 17 = .ok (some syls) := by
    have e : bodyNF f t m o syls ph' pad ph'.length =
        (hdr ++ [syls.length]) ++ (syls.flatMap le16 ++ (ph'.length :: (ph' ++ pad))) := by
      simp [bodyNF, hdr, List.append_assoc]
    have e' : 17 = (hdr ++ [syls.length]).length := by simp [hhdr]
    rw [e, e']
    exact readSyls_enc syls _ _ hs
  have hsl : slice (bodyNF f t m o syls ph' pad ph'.length) (17 + 2 * syls.length + 1) (17 + 2 * syls.length + ph'.length + 1) =
      .ok ph' := by
    have e : bodyNF f t m o syls ph' pad ph'.length = (pre1 ++ [ph'.length]) ++ (ph' ++ pad) := by
      rw [e17]; simp [List.append_assoc]
    rw [e]
    exact slice_mid _ ph' pad (by simp only [List.length_append, hpre1, List.length_cons, List.length_nil])
      (by omega)
  have hphlen : ph'.length ≠ 0 := by rw [hph]; simp
  unfold recBin
  simp only [h0, h4, h8, h12, ok_bind]
  by_cases hneg : f ≥ 2147483648 ∨ t ≥ 2147483648 ∨ m ≥ 2147483648 ∨ o ≥ 2147483648
  · rw [if_pos hneg]
    have : (decide (f ≥ 2147483648) || decide (t ≥ 2147483648) || decide (m ≥ 2147483648) || decide (o ≥ 2147483648)) = true := by
      simp only [Bool.or_eq_true, decide_eq_true_eq]
      omega
    simp only [this, if_true]
    rfl
  · rw [if_neg hneg]
    have : (decide (f ≥ 2147483648) || decide (t ≥ 2147483648) || decide (m ≥ 2147483648) || decide (o ≥ 2147483648)) = false := by
      simp only [Bool.or_eq_false_iff, decide_eq_false_iff_not]
      omega
    simp only [this, Bool.false_eq_true, if_false, h16, ok_bind]
    have hF14 : ¬ (17 + 2 * syls.length + 1 ≥ binFieldSize) := by simp only [binFieldSize]; omega
    simp only [hF14, if_false, hnb, ok_bind]
    have hF39 : (syls.length == 0 || ph'.length == 0) = false := by
      simp only [Bool.or_eq_false_iff, beq_eq_false_iff_ne]
      exact ⟨by omega, hphlen⟩
    simp only [hF39, Bool.false_eq_true, if_false, hfirst, ok_bind]
    by_cases hc : c = 0
    · subst hc
      simp only [beq_self_eq_true, if_true]
      rfl
    · rw [if_neg hc]
      have : (c == 0) = false := by simpa using hc
      simp only [this, Bool.false_eq_true, if_false, hsy, ok_bind]
      have hF15 : ¬ (17 + 2 * syls.length + ph'.length + 1 > binFieldSize) := by omega
      simp only [hF15, if_false, hsl, ok_bind]
      cases hv : validUtf8 ph' <;> simp <;> rfl

/-! ### the encoded record -/

def GRec.stored (g : GRec) : List Nat := if g.deleted then 0 :: g.phrase.tail else g.phrase

theorem stored_length (g : GRec) (h : g.phrase ≠ []) : g.stored.length = g.phrase.length := by
  unfold GRec.stored
  split
  · cases hp : g.phrase with
    | nil => exact absurd hp h
    | cons c r => simp
  · rfl

def bodyLen (g : GRec) : Nat := 16 + 1 + 2 * g.syls.length + 1 + g.phrase.length

theorem encRec_eq (g : GRec) (hv : g.Valid) (f t m o : Nat) (hfl : g.fields = [f, t, m, o]) :
    encRec g = bodyNF f t m o g.syls g.stored (List.replicate (binFieldSize - bodyLen g) 0) g.stored.length := by
  obtain ⟨_, _, _, hne, _, _, _, _, _, _⟩ := hv
  have hsl := stored_length g hne
  have hbl : (List.flatMap le32 [f, t, m, o] ++ [g.syls.length] ++ List.flatMap le16 g.syls ++ [g.phrase.length] ++
      g.stored).length = bodyLen g := by
    simp only [List.length_append, List.flatMap_cons, List.flatMap_nil, le32, List.length_cons, List.length_nil,
      length_flatMap_le16, hsl, bodyLen]
  unfold encRec
  simp only [hfl]
  show (List.flatMap le32 [f, t, m, o] ++ [g.syls.length] ++ List.flatMap le16 g.syls ++ [g.phrase.length] ++ g.stored) ++
      List.replicate (binFieldSize - (List.flatMap le32 [f, t, m, o] ++ [g.syls.length] ++ List.flatMap le16 g.syls ++
        [g.phrase.length] ++ g.stored).length) 0 = _
  rw [hbl, hsl]
  simp [bodyNF, List.append_assoc]

theorem encRec_length (g : GRec) (hv : g.Valid) : (encRec g).length = binFieldSize := by
  obtain ⟨f, t, m, o, hfl⟩ := fields4 hv.2.2.2.2.2.2.2.2.1
  rw [encRec_eq g hv f t m o hfl]
  have hfit := hv.2.2.2.2.2.2.2.1
  have hsl := stored_length g hv.2.2.2.1
  simp only [bodyNF, List.length_append, le32, List.length_cons, List.length_nil, length_flatMap_le16,
    List.length_replicate, hsl, bodyLen, binFieldSize] at *
  omega

/-- the repaired reader decodes the stored image of a valid record to exactly that record if it is
    live, and skips it if it is marked removed or has a negative field -/
theorem recBin_encRec (g : GRec) (hv : g.Valid) :
    recBin (encRec g) = if g.live then .ok (.item g.toRec) else .ok .skip := by
  obtain ⟨f, t, m, o, hfl⟩ := fields4 hv.2.2.2.2.2.2.2.2.1
  have hv' := hv
  obtain ⟨hl1, hl2, hs, hne, hhead, _, hutf, hfit, _, hfields⟩ := hv'
  have hsl := stored_length g hne
  rw [encRec_eq g hv f t m o hfl]
  have hf : f < 4294967296 := hfields f (by rw [hfl]; simp)
  have ht : t < 4294967296 := hfields t (by rw [hfl]; simp)
  have hm : m < 4294967296 := hfields m (by rw [hfl]; simp)
  have ho : o < 4294967296 := hfields o (by rw [hfl]; simp)
  have hlive : g.live = (!g.deleted && (decide (f < 2147483648) && (decide (t < 2147483648) &&
      (decide (m < 2147483648) && decide (o < 2147483648))))) := by
    simp [GRec.live, hfl]
  have htoRec : g.toRec = { syls := g.syls, phrase := g.phrase, freq := f, time := t } := by
    simp [GRec.toRec, hfl]
  cases hp : g.phrase with
  | nil => exact absurd hp hne
  | cons c0 r0 =>
    have hc0 : c0 ≠ 0 := by
      intro h; apply hhead; rw [hp, h]; rfl
    cases hd : g.deleted with
    | true =>
      have hst : g.stored = 0 :: r0 := by simp [GRec.stored, hd, hp]
      rw [recBin_bodyNF f t m o g.syls g.stored _ 0 r0 hf ht hm ho hs hl1 hl2 hst (by rw [hsl]; exact hfit)]
      rw [hlive, hd]
      simp
    | false =>
      have hst : g.stored = c0 :: r0 := by simp [GRec.stored, hd, hp]
      rw [recBin_bodyNF f t m o g.syls g.stored _ c0 r0 hf ht hm ho hs hl1 hl2 hst (by rw [hsl]; exact hfit)]
      rw [hlive, hd, htoRec]
      have hst' : g.stored = g.phrase := by rw [hst, hp]
      rw [hst', hutf]
      by_cases hneg : f ≥ 2147483648 ∨ t ≥ 2147483648 ∨ m ≥ 2147483648 ∨ o ≥ 2147483648
      · rw [if_pos hneg]
        have : (decide (f < 2147483648) && (decide (t < 2147483648) && (decide (m < 2147483648) && decide (o < 2147483648)))) = false := by
          simp only [Bool.and_eq_false_iff, decide_eq_false_iff_not]
          omega
        simp [this]
      · rw [if_neg hneg, if_neg hc0]
        have : (decide (f < 2147483648) && (decide (t < 2147483648) && (decide (m < 2147483648) && decide (o < 2147483648)))) = true := by
          simp only [Bool.and_eq_true, decide_eq_true_eq]
          omega
        simp [this]

/-! ### the record loop and the file -/

theorem liveRecs_cons (g : GRec) (rs : List GRec) :
    liveRecs (g :: rs) = if g.live then g.toRec :: liveRecs rs else liveRecs rs := by
  unfold liveRecs
  cases h : g.live <;> simp [List.filter_cons, h]

theorem binLoop_enc : ∀ (rs : List GRec) (fuel : Nat), rs.length < fuel → (∀ g ∈ rs, g.Valid) →
    binLoop recBin fuel (rs.flatMap encRec) = .ok (.ok (liveRecs rs))
  | [], fuel + 1, _, _ => by
    unfold binLoop
    simp [binFieldSize, liveRecs]
  | g :: rs, fuel + 1, hfu, hv => by
    have hg := hv g List.mem_cons_self
    have hlen := encRec_length g hg
    have ih := binLoop_enc rs fuel (by simp only [List.length_cons] at hfu; omega)
      (fun x hx => hv x (List.mem_cons_of_mem _ hx))
    unfold binLoop
    have hnot : ¬ ((g :: rs).flatMap encRec).length < binFieldSize := by
      simp only [List.flatMap_cons, List.length_append, hlen]; omega
    rw [if_neg hnot]
    have htake : ((g :: rs).flatMap encRec).take binFieldSize = encRec g := by
      rw [List.flatMap_cons, ← hlen, List.take_left]
    have hdrop : ((g :: rs).flatMap encRec).drop binFieldSize = rs.flatMap encRec := by
      rw [List.flatMap_cons, ← hlen, List.drop_left]
    rw [htake, hdrop, recBin_encRec g hg, liveRecs_cons, ih]
    cases g.live <;> simp

theorem loadBin_encodeBin (lifetime : List Nat) (hl : lifetime.length = 4) (rs : List GRec) (hv : ∀ g ∈ rs, g.Valid) :
    loadBin (encodeBin lifetime rs) = .ok (.ok (liveRecs rs)) := by
  obtain ⟨a, b, c, d, rfl⟩ := fields4 hl
  unfold loadBin loadBinWith encodeBin
  have h1 : ¬ (binSig ++ [a, b, c, d] ++ rs.flatMap encRec).length < 4 := by simp [binSig]
  have h2 : ((binSig ++ [a, b, c, d] ++ rs.flatMap encRec).take 4 != binSig) = false := by simp [binSig]
  have h3 : ¬ ((binSig ++ [a, b, c, d] ++ rs.flatMap encRec).drop 4).length < cIntSize := by simp [binSig, cIntSize]
  have h4 : (binSig ++ [a, b, c, d] ++ rs.flatMap encRec).drop (4 + cIntSize) = rs.flatMap encRec := by
    simp [binSig, cIntSize]
  rw [if_neg h1, h2]
  simp only [Bool.false_eq_true, if_false]
  rw [if_neg h3, h4]
  refine binLoop_enc rs _ ?_ hv
  have : rs.length ≤ (rs.flatMap encRec).length := by
    clear h1 h2 h3 h4
    induction rs with
    | nil => simp
    | cons g rs ih =>
      have := encRec_length g (hv g List.mem_cons_self)
      have := ih (fun x hx => hv x (List.mem_cons_of_mem _ hx))
      simp only [List.flatMap_cons, List.length_append, List.length_cons, binFieldSize] at *
      omega
  simp only [List.length_append]
  omega

/-- the binary reader reads back exactly the live records of ANY store of valid records, with any
    4-byte lifetime, removed and negative records interspersed -/
theorem loadUhash_encodeBin (lifetime : List Nat) (hl : lifetime.length = 4) (rs : List GRec) (hv : ∀ g ∈ rs, g.Valid) :
    loadUhash (encodeBin lifetime rs) = .ok (.ok (liveRecs rs)) := by
  unfold loadUhash
  rw [loadBin_encodeBin lifetime hl rs hv]

end Chewing.Uhash
