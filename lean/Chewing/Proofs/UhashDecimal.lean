import Chewing.Model.UhashTextEnc
/-!
Decimal print / parse round trip between the writer `natToDigits` / `intToDigits` (`Model/UhashTextEnc.lean`) and
the reader's `str::parse` model `parseUnsigned` / `parseI64Ok` (`Model/Uhash.lean`), and what ELSE the reader accepts
(leading zeros, a leading `+`) or rejects (blanks around the header number).  Core Lean only.
-/
namespace Chewing.Uhash

theorem digitsVal_append_single (xs : List Nat) (d : Nat) : digitsVal (xs ++ [d]) = digitsVal xs * 10 + (d - 48) := by
  simp [digitsVal, List.foldl_append]

theorem isDigit_iff {b : Nat} : isDigit b = true ↔ 48 ≤ b ∧ b ≤ 57 := by
  simp [isDigit]

/-! ### the fuel version -/

theorem natToDigitsFuel_val : ∀ (fuel n : Nat), n < fuel → digitsVal (natToDigitsFuel fuel n) = n
  | 0, _, h => by omega
  | fuel + 1, n, h => by
    unfold natToDigitsFuel
    split
    · simp [digitsVal]
    · rw [digitsVal_append_single, natToDigitsFuel_val fuel (n / 10) (by omega)]
      omega

theorem natToDigitsFuel_digits : ∀ (fuel n : Nat), ∀ d ∈ natToDigitsFuel fuel n, isDigit d = true
  | 0, _, d, h => by
    simp only [natToDigitsFuel, List.mem_singleton] at h
    subst h; rfl
  | fuel + 1, n, d, h => by
    unfold natToDigitsFuel at h
    split at h
    · simp only [List.mem_singleton] at h
      subst h
      rw [isDigit_iff]; omega
    · rcases List.mem_append.mp h with h | h
      · exact natToDigitsFuel_digits fuel _ d h
      · simp only [List.mem_singleton] at h
        subst h
        rw [isDigit_iff]; omega

theorem natToDigitsFuel_ne_nil : ∀ (fuel n : Nat), natToDigitsFuel fuel n ≠ []
  | 0, _ => by simp [natToDigitsFuel]
  | fuel + 1, n => by
    unfold natToDigitsFuel
    split <;> simp

/-- no leading zero: the first digit of a number ≥ 1 is not `0` -/
theorem natToDigitsFuel_head : ∀ (fuel n : Nat), n < fuel → 1 ≤ n → (natToDigitsFuel fuel n).head? ≠ some 48
  | 0, _, h, _ => by omega
  | fuel + 1, n, h, h1 => by
    unfold natToDigitsFuel
    split
    · simp only [List.head?_cons, ne_eq, Option.some.injEq]; omega
    · have ih := natToDigitsFuel_head fuel (n / 10) (by omega) (by omega)
      have hne := natToDigitsFuel_ne_nil fuel (n / 10)
      cases hc : natToDigitsFuel fuel (n / 10) with
      | nil => exact absurd hc hne
      | cons c r => rw [hc] at ih; simpa using ih

/-! ### `natToDigits` -/

/-- print then evaluate = identity -/
theorem digitsVal_natToDigits (n : Nat) : digitsVal (natToDigits n) = n :=
  natToDigitsFuel_val (n + 1) n (by omega)

theorem natToDigits_digits (n : Nat) : ∀ d ∈ natToDigits n, isDigit d = true :=
  natToDigitsFuel_digits (n + 1) n

theorem natToDigits_all (n : Nat) : (natToDigits n).all isDigit = true :=
  List.all_eq_true.mpr (natToDigits_digits n)

theorem natToDigits_ne_nil (n : Nat) : natToDigits n ≠ [] := natToDigitsFuel_ne_nil (n + 1) n

theorem natToDigits_isEmpty (n : Nat) : (natToDigits n).isEmpty = false := by
  have := natToDigits_ne_nil n
  cases h : natToDigits n <;> simp_all

/-- the first byte is a digit — in particular neither `+` (43) nor `-` (45) nor `C` (0x43) -/
theorem natToDigits_head (n : Nat) : ∃ c r, natToDigits n = c :: r ∧ 48 ≤ c ∧ c ≤ 57 := by
  cases h : natToDigits n with
  | nil => exact absurd h (natToDigits_ne_nil n)
  | cons c r =>
    have := natToDigits_digits n c (by rw [h]; exact List.mem_cons_self)
    exact ⟨c, r, rfl, isDigit_iff.mp this⟩

theorem natToDigits_zero : natToDigits 0 = [48] := rfl

/-- no leading zero -/
theorem natToDigits_no_leading_zero (n : Nat) (h : 1 ≤ n) : (natToDigits n).head? ≠ some 48 :=
  natToDigitsFuel_head (n + 1) n (by omega) h

theorem natToDigits_ascii (n : Nat) : ∀ d ∈ natToDigits n, d < 128 := fun d hd => by
  have := isDigit_iff.mp (natToDigits_digits n d hd); omega

theorem natToDigits_noWs (n : Nat) : ∀ d ∈ natToDigits n, isAsciiWs d = false := fun d hd => by
  have := isDigit_iff.mp (natToDigits_digits n d hd)
  simp only [isAsciiWs, Bool.or_eq_false_iff, beq_eq_false_iff_ne]
  omega

/-! ### `parseUnsigned` on digit strings -/

/-- a non-empty all-digit token is parsed as its value, subject to the range check only -/
theorem parseUnsigned_digits (max : Nat) (ds : List Nat) (hne : ds ≠ []) (hd : ∀ d ∈ ds, isDigit d = true) :
    parseUnsigned max ds = if digitsVal ds ≤ max then some (digitsVal ds) else none := by
  have hall : ds.all isDigit = true := List.all_eq_true.mpr hd
  match ds, hne, hd, hall with
  | c :: r, _, hd, hall =>
    have hc := isDigit_iff.mp (hd c List.mem_cons_self)
    have h43 : c ≠ 43 := by omega
    unfold parseUnsigned
    split
    · rename_i heq; cases heq; exact absurd rfl h43
    · simp [hall]

/-- **print/parse round trip, both directions**: the decimal image of `n` parses to `n` iff `n` fits the type -/
theorem parseUnsigned_natToDigits (max n : Nat) :
    parseUnsigned max (natToDigits n) = if n ≤ max then some n else none := by
  rw [parseUnsigned_digits max _ (natToDigits_ne_nil n) (natToDigits_digits n), digitsVal_natToDigits]

theorem parseUnsigned_natToDigits_le {max n : Nat} (h : n ≤ max) : parseUnsigned max (natToDigits n) = some n := by
  rw [parseUnsigned_natToDigits, if_pos h]

theorem parseUnsigned_natToDigits_gt {max n : Nat} (h : max < n) : parseUnsigned max (natToDigits n) = none := by
  rw [parseUnsigned_natToDigits, if_neg (by omega)]

theorem digitsVal_cons_zero (ds : List Nat) : digitsVal (48 :: ds) = digitsVal ds := by
  simp [digitsVal]

/-- the reader also accepts leading zeros (the writer never produces them) -/
theorem parseUnsigned_leading_zero (max n : Nat) :
    parseUnsigned max (48 :: natToDigits n) = if n ≤ max then some n else none := by
  rw [parseUnsigned_digits max _ (by simp) (by
    intro d hd
    rcases List.mem_cons.mp hd with rfl | hd
    · rfl
    · exact natToDigits_digits n d hd), digitsVal_cons_zero, digitsVal_natToDigits]

/-- the reader also accepts a leading `+` (the writer never produces it) -/
theorem parseUnsigned_plus (max n : Nat) :
    parseUnsigned max (43 :: natToDigits n) = if n ≤ max then some n else none := by
  unfold parseUnsigned
  simp [natToDigits_isEmpty, natToDigits_all, digitsVal_natToDigits]

/-- a `-` is never accepted in an unsigned column (a negative field of the legacy `%d` rejects the line) -/
theorem parseUnsigned_minus (max : Nat) (r : List Nat) : parseUnsigned max (45 :: r) = none := by
  unfold parseUnsigned
  simp [isDigit]

/-! ### the signed header -/

/-- all-digit tokens: `parseI64Ok` is the range check -/
theorem parseI64Ok_digits (ds : List Nat) (hne : ds ≠ []) (hd : ∀ d ∈ ds, isDigit d = true) :
    parseI64Ok ds = decide (digitsVal ds ≤ 2 ^ 63 - 1) := by
  have hall : ds.all isDigit = true := List.all_eq_true.mpr hd
  match ds, hne, hd, hall with
  | c :: r, _, hd, hall =>
    have hc := isDigit_iff.mp (hd c List.mem_cons_self)
    have h43 : c ≠ 43 := by omega
    have h45 : c ≠ 45 := by omega
    unfold parseI64Ok
    split
    · rename_i heq; cases heq; exact absurd rfl h43
    · rename_i heq; cases heq; exact absurd rfl h45
    · simp [hall]

/-- **signed print/parse, both directions**: the decimal image of `z` is accepted iff `z` is an `i64` -/
theorem parseI64Ok_intToDigits (z : Int) :
    parseI64Ok (intToDigits z) = true ↔ (-9223372036854775808 ≤ z ∧ z < 9223372036854775808) := by
  cases z with
  | ofNat n =>
    rw [intToDigits, parseI64Ok_digits _ (natToDigits_ne_nil n) (natToDigits_digits n), digitsVal_natToDigits]
    simp only [decide_eq_true_eq, Int.ofNat_eq_natCast]
    omega
  | negSucc n =>
    rw [intToDigits]
    unfold parseI64Ok
    simp only [natToDigits_isEmpty, natToDigits_all, digitsVal_natToDigits, Bool.not_false, Bool.true_and,
      decide_eq_true_eq]
    omega

/-- the first byte of a printed integer: a digit or `-` -/
theorem intToDigits_head (z : Int) : ∃ c r, intToDigits z = c :: r ∧ (c = 45 ∨ (48 ≤ c ∧ c ≤ 57)) := by
  cases z with
  | ofNat n =>
    obtain ⟨c, r, h, hc⟩ := natToDigits_head n
    exact ⟨c, r, h, Or.inr hc⟩
  | negSucc n => exact ⟨45, _, rfl, Or.inl rfl⟩

theorem intToDigits_mem (z : Int) : ∀ d ∈ intToDigits z, d = 45 ∨ (48 ≤ d ∧ d ≤ 57) := by
  cases z with
  | ofNat n => exact fun d hd => Or.inr (isDigit_iff.mp (natToDigits_digits n d hd))
  | negSucc n =>
    intro d hd
    rcases List.mem_cons.mp hd with rfl | hd
    · exact Or.inl rfl
    · exact Or.inr (isDigit_iff.mp (natToDigits_digits (n + 1) d hd))

/-! ### what the header does NOT tolerate: blanks (`str::parse` does not trim) -/

theorem parseI64Ok_leading_blank (r : List Nat) : parseI64Ok (32 :: r) = false := by
  unfold parseI64Ok
  simp [isDigit]

theorem parseI64Ok_trailing_blank (n : Nat) : parseI64Ok (natToDigits n ++ [32]) = false := by
  obtain ⟨c, r, h, hc⟩ := natToDigits_head n
  rw [h, List.cons_append]
  have h43 : c ≠ 43 := by omega
  have h45 : c ≠ 45 := by omega
  unfold parseI64Ok
  split
  · rename_i heq; cases heq; exact absurd rfl h43
  · rename_i heq; cases heq; exact absurd rfl h45
  · simp [isDigit]

theorem lifetimeOk_leading_blank (n : Nat) : lifetimeOk (32 :: natToDigits n) = false := by
  simp [lifetimeOk, parseI64Ok_leading_blank]

theorem lifetimeOk_trailing_blank (n : Nat) : lifetimeOk (natToDigits n ++ [32]) = false := by
  simp [lifetimeOk, parseI64Ok_trailing_blank]

end Chewing.Uhash
