import Chewing.Model.UhashEnc
import Chewing.Proofs.Returns
/-!
The writer side of the legacy binary `uhash.dat` (what the legacy engine stored) and the
round trip through the reader model: `loadUhash (encodeBin lifetime rs) = liveRecs rs` (C19).
-/
namespace Chewing.Uhash

/-! ### UTF-8 acceptor on ASCII -/

theorem foldl_utf8Step_ascii : ∀ (l : List Nat), (∀ b ∈ l, b < 128) → l.foldl utf8Step (some 0) = some 0
  | [], _ => rfl
  | b :: l, h => by
    have hb : b < 128 := h b List.mem_cons_self
    have : utf8Step (some 0) b = some 0 := by simp [utf8Step, hb]
    rw [List.foldl_cons, this]
    exact foldl_utf8Step_ascii l (fun x hx => h x (List.mem_cons_of_mem _ hx))

theorem validUtf8_of_ascii (l : List Nat) (h : ∀ b ∈ l, b < 128) : validUtf8 l = true := by
  unfold validUtf8
  rw [foldl_utf8Step_ascii l h]
  rfl

end Chewing.Uhash
