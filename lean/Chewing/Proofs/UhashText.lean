import Chewing.Proofs.UhashDecimal
import Chewing.Proofs.UhashBin
/-!
Round trip of the legacy TEXT store: `loadUhash (encodeText lifetime rs) = liveRecs rs` for every list of
`GRec.TextValid` records and every `i64` lifetime (C19: "every valid record of the legacy store is present"), also for
the `\r\n` / trailing-blank variations (`encodeTextWith`).  Core Lean only.

Layers: `BufRead::lines` (`lines_enc`), `split_ascii_whitespace` (`splitWs_toks`), UTF-8 of phrase ++ ASCII tail
(`validUtf8_append_ascii`), the syllable columns (`textSyls_enc`), one line (`textLine_encTextLine`), the file.
-/
namespace Chewing.Uhash

/-! ### `BufRead::lines` -/

theorem linesAux_append : ∀ (l rest cur : List Nat), (∀ b ∈ l, b ≠ 10) →
    linesAux (l ++ rest) cur = linesAux rest (l.reverse ++ cur)
  | [], _, _, _ => by simp
  | b :: l, rest, cur, h => by
    have hb : (b == 10) = false := by simpa using h b List.mem_cons_self
    simp only [List.cons_append, linesAux, hb, Bool.false_eq_true, ↓reduceIte]
    rw [linesAux_append l rest (b :: cur) (fun x hx => h x (List.mem_cons_of_mem _ hx))]
    simp

/-- a `\n` ends the line; the accumulated line is kept as it is unless it ends in `\r` -/
theorem linesAux_lf (rest cur : List Nat) (h : cur.head? ≠ some 13) :
    linesAux (10 :: rest) cur = cur.reverse :: linesAux rest [] := by
  simp only [linesAux, beq_self_eq_true, ↓reduceIte]
  split
  · exact absurd rfl h
  · rfl

/-- a `\r` before the `\n` is dropped -/
theorem linesAux_crlf (rest cur : List Nat) :
    linesAux (13 :: 10 :: rest) cur = cur.reverse :: linesAux rest [] := by
  simp [linesAux]

/-- a line `lines` gives back unchanged: no `\n` inside, and (for `\n` termination) not ending in `\r` -/
def LineOk (crlf : Bool) (l : List Nat) : Prop := (∀ b ∈ l, b ≠ 10) ∧ (crlf = false → l.getLast? ≠ some 13)

theorem linesAux_line (crlf : Bool) (l rest : List Nat) (h : LineOk crlf l) :
    linesAux (l ++ (eol crlf ++ rest)) [] = l :: linesAux rest [] := by
  rw [linesAux_append l _ [] h.1, List.append_nil]
  cases crlf with
  | true =>
    show linesAux (13 :: 10 :: rest) l.reverse = _
    rw [linesAux_crlf, List.reverse_reverse]
  | false =>
    show linesAux (10 :: rest) l.reverse = _
    rw [linesAux_lf _ _ (by rw [List.head?_reverse]; exact h.2 rfl), List.reverse_reverse]

/-- `lines` of terminated clean lines = the lines -/
theorem lines_enc (crlf : Bool) : ∀ (ls : List (List Nat)), (∀ l ∈ ls, LineOk crlf l) →
    lines (ls.flatMap (fun l => l ++ eol crlf)) = ls
  | [], _ => rfl
  | l :: ls, h => by
    have ih := lines_enc crlf ls (fun x hx => h x (List.mem_cons_of_mem _ hx))
    unfold lines at *
    rw [List.flatMap_cons, List.append_assoc, linesAux_line crlf l _ (h l List.mem_cons_self), ih]

/-! ### `split_ascii_whitespace` -/

theorem splitWsAux_append : ∀ (tok rest cur : List Nat), (∀ b ∈ tok, isAsciiWs b = false) →
    splitWsAux (tok ++ rest) cur = splitWsAux rest (tok.reverse ++ cur)
  | [], _, _, _ => by simp
  | b :: tok, rest, cur, h => by
    have hb : isAsciiWs b = false := h b List.mem_cons_self
    simp only [List.cons_append, splitWsAux, hb, Bool.false_eq_true, ↓reduceIte]
    rw [splitWsAux_append tok rest (b :: cur) (fun x hx => h x (List.mem_cons_of_mem _ hx))]
    simp

theorem splitWsAux_blank (rest cur : List Nat) :
    splitWsAux (32 :: rest) cur = (if cur.isEmpty then [] else [cur.reverse]) ++ splitWsAux rest [] := by
  have : isAsciiWs 32 = true := rfl
  simp only [splitWsAux, this, ↓reduceIte]
  cases cur <;> simp

theorem splitWsAux_pad : ∀ (pad : Nat) (cur : List Nat),
    splitWsAux (List.replicate pad 32) cur = if cur.isEmpty then [] else [cur.reverse]
  | 0, cur => by simp [splitWsAux]
  | pad + 1, cur => by
    rw [List.replicate_succ, splitWsAux_blank, splitWsAux_pad pad []]
    simp

/-- a token of a line: non-empty, no ASCII white space -/
def TokOk (t : List Nat) : Prop := t ≠ [] ∧ ∀ b ∈ t, isAsciiWs b = false

theorem splitWsAux_toks : ∀ (toks : List (List Nat)) (pad : Nat) (cur : List Nat), (∀ t ∈ toks, TokOk t) →
    splitWsAux (toks.flatMap (fun t => 32 :: t) ++ List.replicate pad 32) cur =
      (if cur.isEmpty then [] else [cur.reverse]) ++ toks
  | [], pad, cur, _ => by simp [splitWsAux_pad]
  | t :: toks, pad, cur, h => by
    have ht := h t List.mem_cons_self
    have hne : (t.reverse ++ []).isEmpty = false := by
      cases ht' : t with
      | nil => exact absurd ht' ht.1
      | cons c r => simp
    rw [List.flatMap_cons, List.append_assoc, List.cons_append, splitWsAux_blank, splitWsAux_append t _ [] ht.2,
      splitWsAux_toks toks pad _ (fun x hx => h x (List.mem_cons_of_mem _ hx)), hne]
    simp

/-- `split_ascii_whitespace` of blank-separated tokens (with trailing blanks) = the tokens -/
theorem splitWs_toks (t0 : List Nat) (toks : List (List Nat)) (pad : Nat) (h0 : TokOk t0) (h : ∀ t ∈ toks, TokOk t) :
    splitWs (t0 ++ (toks.flatMap (fun t => 32 :: t) ++ List.replicate pad 32)) = t0 :: toks := by
  have hne : (t0.reverse ++ []).isEmpty = false := by
    cases ht' : t0 with
    | nil => exact absurd ht' h0.1
    | cons c r => simp
  unfold splitWs
  rw [splitWsAux_append t0 _ [] h0.2, splitWsAux_toks toks pad _ h, hne]
  simp

/-! ### UTF-8: a valid string followed by ASCII -/

theorem validUtf8_append_ascii (p tail : List Nat) (hp : validUtf8 p = true) (ht : ∀ b ∈ tail, b < 128) :
    validUtf8 (p ++ tail) = true := by
  unfold validUtf8 at *
  have hp' : p.foldl utf8Step (some 0) = some 0 := by simpa using hp
  rw [List.foldl_append, hp', foldl_utf8Step_ascii tail ht]
  rfl

/-! ### the columns of one record -/

theorem flatMap_blank_map {α : Type} (f : α → List Nat) : ∀ (l : List α),
    l.flatMap (fun s => 32 :: f s) = (l.map f).flatMap (fun t => 32 :: t)
  | [] => rfl
  | a :: l => by simp [List.flatMap_cons, flatMap_blank_map f l]

/-- the `n_chars` syllable columns are read back -/
theorem textSyls_enc : ∀ (syls : List Nat) (rest : List (List Nat)), (∀ s ∈ syls, validCode s = true ∧ s < 65536) →
    textSyls syls.length (syls.map natToDigits ++ rest) = some (syls, rest)
  | [], _, _ => rfl
  | s :: ss, rest, h => by
    have hs := h s List.mem_cons_self
    have hp : parseUnsigned u16Max (natToDigits s) = some s :=
      parseUnsigned_natToDigits_le (by simp only [u16Max]; omega)
    simp only [List.length_cons, List.map_cons, List.cons_append, textSyls, hp, hs.1, Bool.not_true,
      Bool.false_eq_true, ↓reduceIte]
    rw [textSyls_enc ss rest (fun x hx => h x (List.mem_cons_of_mem _ hx))]

theorem tokOk_natToDigits (n : Nat) : TokOk (natToDigits n) := ⟨natToDigits_ne_nil n, natToDigits_noWs n⟩

/-- the tail of a record line (everything after the phrase) is ASCII -/
theorem tail_ascii (toks : List (List Nat)) (pad : Nat) (h : ∀ t ∈ toks, ∀ b ∈ t, b < 128) :
    ∀ b ∈ toks.flatMap (fun t => 32 :: t) ++ List.replicate pad 32, b < 128 := by
  intro b hb
  rcases List.mem_append.mp hb with hb | hb
  · obtain ⟨t, ht, hbt⟩ := List.mem_flatMap.mp hb
    rcases List.mem_cons.mp hbt with rfl | hbt
    · omega
    · exact h t ht b hbt
  · have := (List.mem_replicate.mp hb).2
    omega

/-- the normal form of a (padded) record line -/
theorem encTextLine_eq (g : GRec) (pad : Nat) :
    encTextLine g ++ List.replicate pad 32 =
      g.phrase ++ ((g.syls.map natToDigits ++ g.fields.map natToDigits).flatMap (fun t => 32 :: t) ++
        List.replicate pad 32) := by
  simp only [encTextLine, flatMap_blank_map, List.flatMap_append, List.append_assoc]

theorem charCount_pos_ne_nil {p : List Nat} (h : 1 ≤ charCount p) : p ≠ [] := by
  intro hp
  subst hp
  simp [charCount] at h

/-- **one line**: the reader decodes the (padded) line of a live text-valid record to exactly that record.
    Hypotheses actually used: ≥ 1 syllable, syllables are 16-bit codes `Syllable::try_from` accepts, phrase valid
    UTF-8 with one character per syllable and no ASCII white space, four fields below 2^31 (live). -/
theorem textLine_encTextLine_pad (g : GRec) (pad : Nat) (hv : g.TextValid) (hl : g.live = true) :
    textLine (encTextLine g ++ List.replicate pad 32) = some g.toRec := by
  obtain ⟨hl1, _, hs, _, hutf, hcc, hws, hf4, _⟩ := hv
  obtain ⟨f, t, m, o, hfl⟩ := fields4 hf4
  have hlive : f < 2147483648 ∧ t < 2147483648 ∧ m < 2147483648 ∧ o < 2147483648 := by
    have := hl
    simp only [GRec.live, hfl, List.all_cons, List.all_nil, Bool.and_true, Bool.and_eq_true, decide_eq_true_eq] at this
    exact this.2
  have htoks : ∀ x ∈ g.syls.map natToDigits ++ g.fields.map natToDigits, TokOk x ∧ ∀ b ∈ x, b < 128 := by
    intro x hx
    rcases List.mem_append.mp hx with hx | hx <;>
    · obtain ⟨n, _, rfl⟩ := List.mem_map.mp hx
      exact ⟨tokOk_natToDigits n, natToDigits_ascii n⟩
  have hp0 : TokOk g.phrase := ⟨charCount_pos_ne_nil (by omega), hws⟩
  rw [encTextLine_eq]
  unfold textLine
  rw [validUtf8_append_ascii _ _ hutf (tail_ascii _ pad (fun x hx => (htoks x hx).2)),
    splitWs_toks g.phrase _ pad hp0 (fun x hx => (htoks x hx).1)]
  simp only [Bool.not_true, Bool.false_eq_true, ↓reduceIte]
  rw [hcc, textSyls_enc g.syls _ hs, hfl]
  have hF : parseUnsigned u32Max (natToDigits f) = some f := parseUnsigned_natToDigits_le (by simp only [u32Max]; omega)
  have hT : parseUnsigned u64Max (natToDigits t) = some t := parseUnsigned_natToDigits_le (by simp only [u64Max]; omega)
  have hM : parseUnsigned u32Max (natToDigits m) = some m := parseUnsigned_natToDigits_le (by simp only [u32Max]; omega)
  have hO : parseUnsigned u32Max (natToDigits o) = some o := parseUnsigned_natToDigits_le (by simp only [u32Max]; omega)
  simp only [List.map_cons, List.map_nil, hF, hT, hM, hO]
  simp [GRec.toRec, hfl]

theorem textLine_encTextLine (g : GRec) (hv : g.TextValid) (hl : g.live = true) :
    textLine (encTextLine g) = some g.toRec := by
  have := textLine_encTextLine_pad g 0 hv hl
  simpa using this

theorem textLines_enc (pad : Nat) : ∀ (gs : List GRec), (∀ g ∈ gs, g.TextValid ∧ g.live = true) →
    textLines (gs.map (fun g => encTextLine g ++ List.replicate pad 32)) = some (gs.map GRec.toRec)
  | [], _ => rfl
  | g :: gs, h => by
    have hg := h g List.mem_cons_self
    simp only [List.map_cons, textLines, textLine_encTextLine_pad g pad hg.1 hg.2,
      textLines_enc pad gs (fun x hx => h x (List.mem_cons_of_mem _ hx))]

/-! ### the lines of the file -/

theorem natToDigits_ne10_13 (n : Nat) : ∀ b ∈ natToDigits n, b ≠ 10 ∧ b ≠ 13 := fun b hb => by
  have := isDigit_iff.mp (natToDigits_digits n b hb); omega

/-- a (padded) record line of a text-valid record contains neither `\n` nor `\r` -/
theorem encTextLine_clean (g : GRec) (pad : Nat) (hws : ∀ b ∈ g.phrase, isAsciiWs b = false) :
    ∀ b ∈ encTextLine g ++ List.replicate pad 32, b ≠ 10 ∧ b ≠ 13 := by
  intro b hb
  have hnum : ∀ (l : List Nat), b ∈ l.flatMap (fun s => 32 :: natToDigits s) → b ≠ 10 ∧ b ≠ 13 := by
    intro l hb
    obtain ⟨s, _, hbs⟩ := List.mem_flatMap.mp hb
    rcases List.mem_cons.mp hbs with rfl | hbs
    · omega
    · exact natToDigits_ne10_13 s b hbs
  rcases List.mem_append.mp hb with hb | hb
  · unfold encTextLine at hb
    rcases List.mem_append.mp hb with hb | hb
    · have := hws b hb
      simp only [isAsciiWs, Bool.or_eq_false_iff, beq_eq_false_iff_ne] at this
      omega
    · rcases List.mem_append.mp hb with hb | hb
      · exact hnum _ hb
      · exact hnum _ hb
  · have := (List.mem_replicate.mp hb).2
    omega

theorem lineOk_of_clean (crlf : Bool) (l : List Nat) (h : ∀ b ∈ l, b ≠ 10 ∧ b ≠ 13) : LineOk crlf l := by
  refine ⟨fun b hb => (h b hb).1, fun _ hlast => ?_⟩
  have := List.mem_of_getLast? hlast
  exact (h 13 this).2 rfl

theorem intToDigits_clean (z : Int) : ∀ b ∈ intToDigits z, b ≠ 10 ∧ b ≠ 13 := fun b hb => by
  have := intToDigits_mem z b hb; omega

theorem flatMap_lines (pad : Nat) (e : List Nat) : ∀ (gs : List GRec),
    gs.flatMap (fun g => encTextLine g ++ (List.replicate pad 32 ++ e)) =
      (gs.map (fun g => encTextLine g ++ List.replicate pad 32)).flatMap (fun l => l ++ e)
  | [] => rfl
  | g :: gs => by simp [List.flatMap_cons, flatMap_lines pad e gs]

/-- `lines` of the encoded file: the header, then one (padded) line per live record -/
theorem lines_encodeTextWith (crlf : Bool) (pad : Nat) (lt : Int) (rs : List GRec) (hv : ∀ g ∈ rs, g.TextValid) :
    lines (encodeTextWith crlf pad lt rs) =
      intToDigits lt :: (rs.filter GRec.live).map (fun g => encTextLine g ++ List.replicate pad 32) := by
  have e : encodeTextWith crlf pad lt rs =
      (intToDigits lt :: (rs.filter GRec.live).map (fun g => encTextLine g ++ List.replicate pad 32)).flatMap
        (fun l => l ++ eol crlf) := by
    rw [encodeTextWith, flatMap_lines, List.flatMap_cons, List.append_assoc]
  rw [e]
  refine lines_enc crlf _ ?_
  intro l hl
  rcases List.mem_cons.mp hl with rfl | hl
  · exact lineOk_of_clean crlf _ (intToDigits_clean lt)
  · obtain ⟨g, hg, rfl⟩ := List.mem_map.mp hl
    exact lineOk_of_clean crlf _ (encTextLine_clean g pad (hv g (List.mem_filter.mp hg).1).2.2.2.2.2.2.1)

/-! ### the header -/

theorem lifetimeOk_intToDigits (z : Int) (h : -9223372036854775808 ≤ z ∧ z < 9223372036854775808) :
    lifetimeOk (intToDigits z) = true := by
  unfold lifetimeOk
  rw [(parseI64Ok_intToDigits z).mpr h, validUtf8_of_ascii _ (fun b hb => by have := intToDigits_mem z b hb; omega)]
  rfl

/-- conversely a lifetime outside `i64` makes the reader reject the file's header -/
theorem lifetimeOk_intToDigits_iff (z : Int) :
    lifetimeOk (intToDigits z) = true ↔ (-9223372036854775808 ≤ z ∧ z < 9223372036854775808) := by
  refine ⟨fun h => ?_, lifetimeOk_intToDigits z⟩
  unfold lifetimeOk at h
  exact (parseI64Ok_intToDigits z).mp (by simpa using (Bool.and_eq_true _ _ ▸ h : _ ∧ _).2)

/-! ### the binary reader declines a text file (no panic path) -/

theorem loadBin_of_head (c : Nat) (r : List Nat) (hc : c ≠ 0x43) : loadBin (c :: r) = .ok (.error ()) := by
  unfold loadBin loadBinWith
  by_cases h : (c :: r).length < 4
  · rw [if_pos h]
  · rw [if_neg h]
    have : ((c :: r).take 4 != binSig) = true := by
      simp only [binSig, List.take_succ_cons, bne_iff_ne, ne_eq, List.cons.injEq, not_and]
      intro h'; exact absurd h' hc
    rw [this]
    rfl

theorem loadBin_encodeTextWith (crlf : Bool) (pad : Nat) (lt : Int) (rs : List GRec) :
    loadBin (encodeTextWith crlf pad lt rs) = .ok (.error ()) := by
  obtain ⟨c, r, h, hc⟩ := intToDigits_head lt
  rw [encodeTextWith, h, List.cons_append]
  exact loadBin_of_head c _ (by omega)

/-! ### the file -/

theorem loadText_encodeTextWith (crlf : Bool) (pad : Nat) (lt : Int)
    (hlt : -9223372036854775808 ≤ lt ∧ lt < 9223372036854775808) (rs : List GRec) (hv : ∀ g ∈ rs, g.TextValid) :
    loadText (encodeTextWith crlf pad lt rs) = .ok (.ok (liveRecs rs)) := by
  unfold loadText loadTextWith
  rw [lines_encodeTextWith crlf pad lt rs hv]
  simp only [lifetimeOk_intToDigits lt hlt, Bool.not_true, Bool.false_eq_true, ↓reduceIte]
  rw [textLines_enc pad _ (fun g hg => ⟨hv g (List.mem_filter.mp hg).1, (List.mem_filter.mp hg).2⟩)]
  rfl

/-- **the text reader is complete** (with `\r\n` line ends and trailing blanks as well): the file written for ANY
    store of text-valid records — removed and negative records interspersed (they are not written), any `i64`
    lifetime — is read back by `UserDictionaryLoader`'s legacy importer (binary attempt first, then text) as
    exactly the live records, in order -/
theorem loadUhash_encodeTextWith (crlf : Bool) (pad : Nat) (lt : Int)
    (hlt : -9223372036854775808 ≤ lt ∧ lt < 9223372036854775808) (rs : List GRec) (hv : ∀ g ∈ rs, g.TextValid) :
    loadUhash (encodeTextWith crlf pad lt rs) = .ok (.ok (liveRecs rs)) := by
  unfold loadUhash
  rw [loadBin_encodeTextWith]
  exact loadText_encodeTextWith crlf pad lt hlt rs hv

theorem encodeTextWith_plain (lt : Int) (rs : List GRec) : encodeTextWith false 0 lt rs = encodeText lt rs := by
  simp [encodeTextWith, encodeText, eol]

/-- the plain writer (`enc_text` of the harness, the grammar of `golden-uhash-text.dat`) -/
theorem loadUhash_encodeText (lt : Int) (hlt : -9223372036854775808 ≤ lt ∧ lt < 9223372036854775808)
    (rs : List GRec) (hv : ∀ g ∈ rs, g.TextValid) : loadUhash (encodeText lt rs) = .ok (.ok (liveRecs rs)) := by
  rw [← encodeTextWith_plain]
  exact loadUhash_encodeTextWith false 0 lt hlt rs hv

/-- a lifetime outside `i64` (the legacy engine's is a C `int`, so this cannot be written) rejects the whole file -/
theorem loadUhash_encodeText_lifetime (lt : Int) (hlt : ¬ (-9223372036854775808 ≤ lt ∧ lt < 9223372036854775808))
    (rs : List GRec) (hv : ∀ g ∈ rs, g.TextValid) : loadUhash (encodeText lt rs) = .ok (.error ()) := by
  rw [← encodeTextWith_plain]
  unfold loadUhash
  rw [loadBin_encodeTextWith]
  unfold loadText loadTextWith
  rw [lines_encodeTextWith false 0 lt rs hv]
  have : lifetimeOk (intToDigits lt) = false := by
    cases h : lifetimeOk (intToDigits lt)
    · rfl
    · exact absurd ((lifetimeOk_intToDigits_iff lt).mp h) hlt
  simp only [this, Bool.not_false, ↓reduceIte]

end Chewing.Uhash
