import Chewing.Model.TrieCodec
import Chewing.Model.Cli
import Chewing.Proofs.TrieOrder
/-!
# UTF-8 preserves order

`str::cmp` compares the UTF-8 bytes; C11's model does the same (`lexLt (utf8Enc a) (utf8Enc b)`), C20's
model compares code points (`Cli.textLt`).  For texts of code points below 0x110000 (in particular
Unicode scalar values, all a Rust `String` can hold) the two agree: `lexLt_utf8Enc`.
-/
namespace Chewing.Utf8Order
open Chewing Chewing.Der Chewing.TrieCodec

theorem lexLt_append_same (p x y : List Nat) : lexLt (p ++ x) (p ++ y) = lexLt x y := by
  induction p with
  | nil => rfl
  | cons a p ih => simp [lexLt, ih]

theorem lexLt_nil_right (x : List Nat) : lexLt x [] = false := by cases x <;> rfl

theorem encChar_ne_nil (c : Nat) : utf8EncChar c ≠ [] := by
  unfold utf8EncChar
  split
  · simp
  · split
    · simp
    · split <;> simp

/-- a smaller code point has a lexicographically smaller encoding, whatever follows -/
theorem encChar_lt {c d : Nat} (hd : d < 0x110000) (h : c < d) (x y : List Nat) :
    lexLt (utf8EncChar c ++ x) (utf8EncChar d ++ y) = true := by
  unfold utf8EncChar
  split <;> split <;> (try split) <;> (try split) <;> (try split) <;> (try split) <;>
    simp only [List.cons_append, List.nil_append, lexLt] <;>
    (repeat' split) <;> first | rfl | (exfalso; omega)

theorem textLt_cons (a b : Nat) (as bs : List Nat) :
    Cli.textLt (a :: as) (b :: bs) = (decide (a < b) || (a == b && Cli.textLt as bs)) := rfl

/-- **bytewise order of the UTF-8 encodings = lexicographic order of the code points** -/
theorem lexLt_utf8Enc : ∀ (a b : Text), (∀ c ∈ a, c < 0x110000) → (∀ c ∈ b, c < 0x110000) →
    lexLt (utf8Enc a) (utf8Enc b) = Cli.textLt a b := by
  intro a
  induction a with
  | nil =>
    intro b _ _
    cases b with
    | nil => rfl
    | cons d bs =>
      show lexLt [] (utf8EncChar d ++ utf8Enc bs) = true
      cases h : utf8EncChar d with
      | nil => exact absurd h (encChar_ne_nil d)
      | cons z zs => rfl
  | cons c as ih =>
    intro b ha hb
    cases b with
    | nil => exact lexLt_nil_right _
    | cons d bs =>
      have hc := ha c List.mem_cons_self
      have hd := hb d List.mem_cons_self
      show lexLt (utf8EncChar c ++ utf8Enc as) (utf8EncChar d ++ utf8Enc bs) = _
      rw [textLt_cons]
      by_cases h1 : c < d
      · rw [encChar_lt hd h1]; simp [h1]
      · by_cases h2 : d < c
        · have := lexLt_asymm _ _ (encChar_lt hc h2 (utf8Enc bs) (utf8Enc as))
          rw [this]
          have hne : (c == d) = false := by simp; omega
          simp [h1, hne]
        · have e : c = d := by omega
          subst e
          rw [lexLt_append_same, ih bs (fun x hx => ha x (List.mem_cons_of_mem _ hx))
            (fun x hx => hb x (List.mem_cons_of_mem _ hx))]
          simp

theorem scalar_lt {c : Nat} (h : IsScalar c) : c < 0x110000 := by unfold IsScalar at h; omega

end Chewing.Utf8Order
