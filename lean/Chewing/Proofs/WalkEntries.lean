import Chewing.Model.TrieWalk
import Chewing.Proofs.Returns
import Chewing.Proofs.TrieShape
import Chewing.Proofs.WalkLookup
import Chewing.Proofs.SyllableValid
/-!
`Trie::entries()` over an arbitrary index table (`Model/TrieWalk.lean`, the tick machine):

* `tick_inv`      under `NoZeroChild` and `ValidSyls` every loop iteration returns (no panic) and keeps the invariant;
* `tick_phi`      for every weight function `W : Weights t` every iteration decreases a potential, so the
                  walk finishes within `phi init = 8·W.w 0 + 2` iterations.

Potential: a node record `i` weighs `W.w i ≥ 2`; a pending child iterator `cur..end_` weighs the sum of
its members.  `Weights` asks that the children of a node record weigh at most `W.w i - 2` together:
descending strictly reduces the total weight; the bookkeeping iterations are ordered by a phase rank.
`Proofs/WalkLinear.lean` builds such weights (twice the subtree size, `W.w 0 ≤ 2·n`) for every table
that passed `validate_index`.
-/
namespace Chewing.TrieWalk

set_option linter.unusedSimpArgs false

variable {P : Type}

/-- `omega`, after unfolding structure projections if necessary -/
local macro "somega" : tactic => `(tactic| first | omega | (dsimp only at * <;> omega))

/-! ### normal forms of `tick` -/

/-- what one iteration of the descend loop does when the node's child range is in bounds -/
def descendNF (t : Tbl P) (st : ESt P) : Outcome (ESt P) :=
  let nd := t.get st.node
  let lf := t.get nd.a
  if lf.s == 0 then
    if oob lf.a (lf.a + lf.b) t.dataLen then .ok st.finish
    else if st.syls.any (fun s => !validCode s) then .panic "trie:invalid-syllable-unwrap"
    else if nd.a + 1 < nd.a + nd.b then
      .ok { st with results := (st.syls.reverse, t.leaf lf.a (lf.a + lf.b)) :: st.results,
                    node := nd.a + 1, syls := (t.get (nd.a + 1)).s :: st.syls,
                    stack := { cur := nd.a + 1 + 1, end_ := nd.a + nd.b } :: st.stack }
    else
      .ok { st with results := (st.syls.reverse, t.leaf lf.a (lf.a + lf.b)) :: st.results, phase := .ascend }
  else
    .ok { st with node := nd.a, syls := lf.s :: st.syls, stack := { cur := nd.a + 1, end_ := nd.a + nd.b } :: st.stack }

theorem tick_descend (t : Tbl P) (st : ESt P) (h : st.phase = .descend)
    (hin : oob (t.get st.node).a ((t.get st.node).a + (t.get st.node).b) t.n = false) :
    tick t st = descendNF t st := by
  have hr := oob_false hin
  have hlt : (t.get st.node).a < t.n := by omega
  unfold tick descendNF
  simp only [h, hin]
  rw [sliceRecs_eq t ⟨by omega, hr.2⟩]
  simp only [Frame.next, hr.1, if_true, Bool.false_eq_true, if_false]
  split
  · have hleaf : leafAt t (t.get st.node).a = .ok (some (t.get (t.get st.node).a)) := by
      unfold leafAt
      rw [if_neg (by omega), if_neg (by omega)]
    rw [hleaf]
    dsimp only
    split
    · rfl
    · rename_i h2
      have h2' := oob_false (Bool.eq_false_iff.mpr h2)
      split
      · rfl
      · rw [sliceData_eq t ⟨by omega, h2'.2⟩]
        dsimp only
        by_cases hc : (t.get st.node).a + 1 < (t.get st.node).a + (t.get st.node).b
        · simp only [hc, if_true]
        · simp only [hc, if_false]
  · rfl

theorem tick_descend_oob (t : Tbl P) (st : ESt P) (h : st.phase = .descend)
    (hin : oob (t.get st.node).a ((t.get st.node).a + (t.get st.node).b) t.n = true) :
    tick t st = .ok st.finish := by
  unfold tick
  simp only [h, hin, if_true]

/-! ### the invariant that excludes the two panic sites of `entries()` -/

/-- every syllable on the syllable stack, and every syllable a pending child iterator will still yield, is a value
    `Syllable::try_from` accepts (`validCode`, in particular not zero) -/
structure EInv (t : Tbl P) (st : ESt P) : Prop where
  syls : ∀ s ∈ st.syls, validCode s = true
  frames : ∀ f ∈ st.stack, f.cur ≤ f.end_ ∧ f.end_ ≤ t.n ∧ ∀ j, f.cur ≤ j → j < f.end_ → validCode (t.get j).s = true
  node : st.node < t.n ∧ NodeIsh t st.node

theorem any_invalid_false {l : List Nat} (h : ∀ s ∈ l, validCode s = true) : (l.any (fun s => !validCode s)) = false := by
  rw [Bool.eq_false_iff]
  intro hc
  obtain ⟨s, hs, hz⟩ := List.any_eq_true.mp hc
  rw [h s hs] at hz
  cases hz

/-- under `NoZeroChild` and `ValidSyls`, one loop iteration returns and keeps the invariant -/
theorem tick_inv {t : Tbl P} (hz : NoZeroChild t) (hvs : ValidSyls t) {st : ESt P} (hi : EInv t st) :
    ∃ st', tick t st = .ok st' ∧ EInv t st' := by
  cases hph : st.phase with
  | finished =>
    refine ⟨st, ?_, hi⟩
    unfold tick
    simp only [hph]
  | callStart =>
    unfold tick
    simp only [hph]
    split
    · exact ⟨_, rfl, ⟨hi.syls, hi.frames, hi.node⟩⟩
    · split
      · exact ⟨_, rfl, ⟨hi.syls, hi.frames, hi.node⟩⟩
      · exact ⟨_, rfl, ⟨hi.syls, hi.frames, hi.node⟩⟩
  | callEnd =>
    unfold tick
    simp only [hph]
    split
    · exact ⟨_, rfl, ⟨hi.syls, hi.frames, hi.node⟩⟩
    · exact ⟨_, rfl, ⟨hi.syls, hi.frames, hi.node⟩⟩
  | ascend =>
    unfold tick
    simp only [hph]
    split
    · rename_i hs
      exact ⟨_, rfl, ⟨hi.syls, (by intro f hf; rw [hs] at hf; cases hf), hi.node⟩⟩
    · rename_i f rest hs
      have hf := hi.frames f (by rw [hs]; exact List.mem_cons_self)
      have hrest : ∀ g ∈ rest, g.cur ≤ g.end_ ∧ g.end_ ≤ t.n ∧ ∀ j, g.cur ≤ j → j < g.end_ → validCode (t.get j).s = true :=
        fun g hg => hi.frames g (by rw [hs]; exact List.mem_cons_of_mem _ hg)
      have htail : ∀ s ∈ st.syls.tail, validCode s = true := fun s hs' => hi.syls s (List.mem_of_mem_tail hs')
      by_cases hlt : f.cur < f.end_
      · have hvc : validCode (t.get f.cur).s = true := hf.2.2 f.cur (Nat.le_refl _) hlt
        have hnz : (t.get f.cur).s ≠ 0 := validCode_ne_zero hvc
        have hnz' : ((t.get f.cur).s == 0) = false := by simpa using hnz
        simp only [Frame.next, hlt, if_true, hnz', Bool.false_eq_true, if_false]
        refine ⟨_, rfl, ⟨?_, ?_, ?_⟩⟩
        · intro s hs'
          rcases List.mem_cons.mp hs' with rfl | h'
          · exact hvc
          · exact htail s h'
        · intro g hg
          rcases List.mem_cons.mp hg with rfl | h'
          · exact ⟨by somega, hf.2.1, fun j h1 h2 => hf.2.2 j (by somega) h2⟩
          · exact hrest g h'
        · exact ⟨by somega, Or.inr hnz⟩
      · simp only [Frame.next, hlt, if_false]
        exact ⟨_, rfl, ⟨htail, hrest, hi.node⟩⟩
  | descend =>
    cases hin : oob (t.get st.node).a ((t.get st.node).a + (t.get st.node).b) t.n with
    | true =>
      rw [tick_descend_oob t st hph hin]
      exact ⟨_, rfl, ⟨hi.syls, hi.frames, hi.node⟩⟩
    | false =>
      rw [tick_descend t st hph hin]
      have hr := oob_false hin
      have hir : InRange t st.node := inRange_of_oob hin
      have hkids := hz st.node hi.node.1 hi.node.2 hir
      have hval := hvs st.node hi.node.1 hi.node.2 hir
      have hkv : ∀ j, (t.get st.node).a < j → j < (t.get st.node).a + (t.get st.node).b → validCode (t.get j).s = true :=
        fun j h1 h2 => hval j (by omega) h2 (hkids j h1 h2)
      unfold descendNF
      dsimp only
      split
      · split
        · exact ⟨_, rfl, ⟨hi.syls, hi.frames, hi.node⟩⟩
        · rw [any_invalid_false hi.syls]
          simp only [Bool.false_eq_true, if_false]
          split
          · rename_i hsec
            have hnz : (t.get ((t.get st.node).a + 1)).s ≠ 0 := hkids _ (by omega) (by omega)
            refine ⟨_, rfl, ⟨?_, ?_, ?_⟩⟩
            · intro s hs'
              rcases List.mem_cons.mp hs' with rfl | h'
              · exact hkv _ (by omega) (by omega)
              · exact hi.syls s h'
            · intro g hg
              rcases List.mem_cons.mp hg with rfl | h'
              · exact ⟨by somega, hr.2, fun j h1 h2 => hkv j (by somega) h2⟩
              · exact hi.frames g h'
            · exact ⟨by somega, Or.inr hnz⟩
          · exact ⟨_, rfl, ⟨hi.syls, hi.frames, hi.node⟩⟩
      · rename_i hnl
        have hnz : (t.get (t.get st.node).a).s ≠ 0 := by simpa using hnl
        refine ⟨_, rfl, ⟨?_, ?_, ?_⟩⟩
        · intro s hs'
          rcases List.mem_cons.mp hs' with rfl | h'
          · exact hval _ (Nat.le_refl _) (by omega) hnz
          · exact hi.syls s h'
        · intro g hg
          rcases List.mem_cons.mp hg with rfl | h'
          · exact ⟨by somega, hr.2, fun j h1 h2 => hkv j (by somega) h2⟩
          · exact hi.frames g h'
        · exact ⟨by somega, Or.inr hnz⟩

/-- the run never panics under `NoZeroChild` and `ValidSyls`: it returns or runs out of the given fuel -/
theorem run_no_panic {t : Tbl P} (hz : NoZeroChild t) (hvs : ValidSyls t) :
    ∀ (fuel : Nat) (st : ESt P), EInv t st → (∃ st', run t fuel st = .ok st') ∨ run t fuel st = .outOfFuel
  | 0, st, _ => by
    unfold run
    split
    · exact Or.inl ⟨_, rfl⟩
    · exact Or.inr rfl
  | fuel + 1, st, hi => by
    unfold run
    split
    · exact Or.inl ⟨_, rfl⟩
    · obtain ⟨st', h', hi'⟩ := tick_inv hz hvs hi
      rw [h']
      exact run_no_panic hz hvs fuel st' hi'

theorem entriesInit_inv {t : Tbl P} {st : ESt P} (h : entriesInit t = some st) : EInv t st := by
  unfold entriesInit at h
  split at h
  · cases h
  · dsimp only at h
    split at h
    · cases h
    · rename_i hn _
      simp only [Option.some.injEq] at h
      subst h
      exact ⟨(by intro s hs; cases hs), (by intro f hf; cases hf), ⟨(by dsimp only; omega), Or.inl rfl⟩⟩

/-! ### termination under `Forward`: the potential -/

/-- sum of `w` over the records `c .. e` -/
def sumW (w : Nat → Nat) (c e : Nat) : Nat := ((List.range' c (e - c)).map w).sum

/-- a weight per record such that a node outweighs its child range by at least 2 -/
structure Weights (t : Tbl P) where
  w : Nat → Nat
  two_le : ∀ i, i < t.n → 2 ≤ w i
  children : ∀ i, i < t.n → NodeIsh t i → InRange t i →
    sumW w (t.get i).a ((t.get i).a + (t.get i).b) + 2 ≤ w i

/-- weight of a pending child iterator = sum of the weights of its members -/
def fw {t : Tbl P} (W : Weights t) (f : Frame) : Nat := sumW W.w f.cur f.end_
def stackW {t : Tbl P} (W : Weights t) (fs : List Frame) : Nat := (fs.map (fw W)).sum

def nodeW {t : Tbl P} (W : Weights t) (st : ESt P) : Nat :=
  match st.phase with
  | .ascend => 0
  | .finished => 0
  | .descend => W.w st.node
  | _ => if st.done then 0 else W.w st.node

def rank : Phase → Nat
  | .finished => 0
  | .descend => 1
  | .callStart => 2
  | .callEnd => 3
  | .ascend => 4

def phi {t : Tbl P} (W : Weights t) (st : ESt P) : Nat :=
  if st.phase = .finished then 0
  else 8 * (nodeW W st + stackW W st.stack) + st.stack.length + st.results.length + rank st.phase

theorem sumW_next (w : Nat → Nat) {c e : Nat} (h : c < e) : sumW w c e = w c + sumW w (c + 1) e := by
  unfold sumW
  have e1 : e - c = (e - (c + 1)) + 1 := by omega
  rw [e1, List.range'_succ]
  simp

theorem fw_next {t : Tbl P} (W : Weights t) {c e : Nat} (h1 : c < e) :
    fw W { cur := c, end_ := e } = W.w c + fw W { cur := c + 1, end_ := e } := sumW_next W.w h1

/-- for every weight function (and under `NoZeroChild`) every loop iteration of an unfinished walk decreases `phi` -/
theorem tick_phi {t : Tbl P} (W : Weights t) (_hz : NoZeroChild t) {st st' : ESt P} (hi : EInv t st)
    (hnf : st.phase ≠ .finished) (ht : tick t st = .ok st') : phi W st' < phi W st := by
  cases hph : st.phase with
  | finished => exact absurd hph hnf
  | callStart =>
    unfold tick at ht
    simp only [hph] at ht
    split at ht
    · rename_i r rs hrs
      simp only [Outcome.ok.injEq] at ht
      subst ht
      simp only [phi, nodeW, hph, hrs, List.length_cons, reduceCtorEq, if_false]
      omega
    · rename_i hrs
      split at ht
      · simp only [Outcome.ok.injEq] at ht
        subst ht
        simp only [phi, ESt.finish, hph, reduceCtorEq, if_true, if_false, rank]
        omega
      · rename_i hdone
        simp only [Outcome.ok.injEq] at ht
        subst ht
        simp only [phi, nodeW, hph, hdone, reduceCtorEq, if_false, rank]
        omega
  | callEnd =>
    unfold tick at ht
    simp only [hph] at ht
    split at ht
    · rename_i r rs hrs
      simp only [Outcome.ok.injEq] at ht
      subst ht
      simp only [phi, nodeW, hph, hrs, List.length_cons, reduceCtorEq, if_false, rank]
      omega
    · simp only [Outcome.ok.injEq] at ht
      subst ht
      simp only [phi, ESt.finish, hph, reduceCtorEq, if_true, if_false, rank]
      omega
  | ascend =>
    unfold tick at ht
    simp only [hph] at ht
    split at ht
    · rename_i hs
      simp only [Outcome.ok.injEq] at ht
      subst ht
      simp only [phi, nodeW, hph, hs, reduceCtorEq, if_true, if_false, rank, stackW, List.map_nil, List.sum_nil,
        List.length_nil]
      omega
    · rename_i f rest hs
      have hf := hi.frames f (by rw [hs]; exact List.mem_cons_self)
      by_cases hlt : f.cur < f.end_
      · have hnz : (t.get f.cur).s ≠ 0 := validCode_ne_zero (hf.2.2 f.cur (Nat.le_refl _) hlt)
        have hnz' : ((t.get f.cur).s == 0) = false := by simpa using hnz
        simp only [Frame.next, hlt, if_true, hnz', Bool.false_eq_true, if_false, Outcome.ok.injEq] at ht
        subst ht
        have hnext : fw W f = W.w f.cur + fw W { cur := f.cur + 1, end_ := f.end_ } := fw_next W hlt
        by_cases hd : st.done
        · simp only [phi, nodeW, hph, hs, hd, reduceCtorEq, if_true, if_false, rank, stackW, List.map_cons,
            List.sum_cons, List.length_cons]
          omega
        · simp only [phi, nodeW, hph, hs, hd, reduceCtorEq, if_false, rank, stackW, List.map_cons,
            List.sum_cons, List.length_cons, Bool.false_eq_true]
          omega
      · simp only [Frame.next, hlt, if_false, Outcome.ok.injEq] at ht
        subst ht
        simp only [phi, nodeW, hph, hs, reduceCtorEq, if_false, rank, stackW, List.map_cons,
          List.sum_cons, List.length_cons]
        omega
  | descend =>
    cases hin : oob (t.get st.node).a ((t.get st.node).a + (t.get st.node).b) t.n with
    | true =>
      rw [tick_descend_oob t st hph hin] at ht
      simp only [Outcome.ok.injEq] at ht
      subst ht
      simp only [phi, ESt.finish, hph, reduceCtorEq, if_true, if_false, rank]
      omega
    | false =>
      rw [tick_descend t st hph hin] at ht
      have hr := oob_false hin
      have hir : InRange t st.node := inRange_of_oob hin
      have hkids : fw W { cur := (t.get st.node).a, end_ := (t.get st.node).a + (t.get st.node).b } + 2 ≤ W.w st.node :=
        W.children st.node hi.node.1 hi.node.2 hir
      have hnext := fw_next W (c := (t.get st.node).a) (e := (t.get st.node).a + (t.get st.node).b) hr.1
      have hw2 := W.two_le st.node hi.node.1
      unfold descendNF at ht
      dsimp only at ht
      split at ht
      · split at ht
        · simp only [Outcome.ok.injEq] at ht
          subst ht
          simp only [phi, ESt.finish, hph, reduceCtorEq, if_true, if_false, rank]
          omega
        · rw [any_invalid_false hi.syls] at ht
          simp only [Bool.false_eq_true, if_false] at ht
          split at ht
          · rename_i hsec
            have hnext2 := fw_next W (c := (t.get st.node).a + 1) (e := (t.get st.node).a + (t.get st.node).b) hsec
            simp only [Outcome.ok.injEq] at ht
            subst ht
            by_cases hd : st.done
            · simp only [phi, nodeW, hph, hd, reduceCtorEq, if_true, if_false, rank, stackW, List.map_cons,
                List.sum_cons, List.length_cons]
              omega
            · simp only [phi, nodeW, hph, hd, reduceCtorEq, if_false, rank, stackW, List.map_cons,
                List.sum_cons, List.length_cons, Bool.false_eq_true]
              omega
          · simp only [Outcome.ok.injEq] at ht
            subst ht
            by_cases hd : st.done
            · simp only [phi, nodeW, hph, hd, reduceCtorEq, if_true, if_false, rank, List.length_cons]
              omega
            · simp only [phi, nodeW, hph, hd, reduceCtorEq, if_false, rank, List.length_cons, Bool.false_eq_true]
              omega
      · simp only [Outcome.ok.injEq] at ht
        subst ht
        by_cases hd : st.done
        · simp only [phi, nodeW, hph, hd, reduceCtorEq, if_true, if_false, rank, stackW, List.map_cons,
            List.sum_cons, List.length_cons]
          omega
        · simp only [phi, nodeW, hph, hd, reduceCtorEq, if_false, rank, stackW, List.map_cons,
            List.sum_cons, List.length_cons, Bool.false_eq_true]
          omega

theorem phase_ne_of_beq {p : Phase} (h : ¬ (p == Phase.finished) = true) : p ≠ .finished := by
  intro hp
  subst hp
  exact h rfl

theorem phi_pos {t : Tbl P} (W : Weights t) {st : ESt P} (h : st.phase ≠ .finished) : 0 < phi W st := by
  unfold phi
  rw [if_neg h]
  cases hph : st.phase with
  | finished => exact absurd hph h
  | _ => simp only [rank]; omega

/-- with `phi` iterations of fuel the walk finishes -/
theorem run_terminates {t : Tbl P} (W : Weights t) (hz : NoZeroChild t) (hvs : ValidSyls t) :
    ∀ (fuel : Nat) (st : ESt P), EInv t st → phi W st ≤ fuel → ∃ st', run t fuel st = .ok st'
  | 0, st, _, hle => by
    unfold run
    split
    · exact ⟨_, rfl⟩
    · rename_i hne
      have : st.phase ≠ .finished := phase_ne_of_beq hne
      have := phi_pos W this
      omega
  | fuel + 1, st, hi, hle => by
    unfold run
    split
    · exact ⟨_, rfl⟩
    · rename_i hne
      have hnf : st.phase ≠ .finished := phase_ne_of_beq hne
      obtain ⟨st', h', hi'⟩ := tick_inv hz hvs hi
      have hlt := tick_phi W hz hi hnf h'
      rw [h']
      exact run_terminates W hz hvs fuel st' hi' (by omega)

theorem phi_init {t : Tbl P} (W : Weights t) {st : ESt P} (h : entriesInit t = some st) : phi W st = 8 * W.w 0 + 2 := by
  unfold entriesInit at h
  split at h
  · cases h
  · dsimp only at h
    split at h
    · cases h
    · simp only [Option.some.injEq] at h
      subst h
      simp [phi, nodeW, stackW, rank]

/-- `entries()` over a table with weights `W`, `NoZeroChild` and `ValidSyls` returns within `8·W.w 0 + 2` loop
    iterations -/
theorem entriesFuel_returns {t : Tbl P} (W : Weights t) (hz : NoZeroChild t) (hvs : ValidSyls t) (fuel : Nat)
    (hfuel : 8 * W.w 0 + 2 ≤ fuel) : Returns (entriesFuel t fuel) := by
  unfold entriesFuel
  cases hinit : entriesInit t with
  | none => exact ⟨_, rfl⟩
  | some st =>
    dsimp only
    obtain ⟨st', h'⟩ := run_terminates W hz hvs fuel st (entriesInit_inv hinit) (by rw [phi_init W hinit]; exact hfuel)
    rw [h']
    exact ⟨_, rfl⟩

/-- `entries()` over a table with `NoZeroChild` and `ValidSyls` never panics, whatever the fuel -/
theorem entriesFuel_no_panic {t : Tbl P} (hz : NoZeroChild t) (hvs : ValidSyls t) (fuel : Nat) (s : String) :
    entriesFuel t fuel ≠ .panic s := by
  unfold entriesFuel
  cases hinit : entriesInit t with
  | none => intro h; cases h
  | some st =>
    dsimp only
    rcases run_no_panic hz hvs fuel st (entriesInit_inv hinit) with ⟨st', h'⟩ | h'
    · rw [h']; intro h; cases h
    · rw [h']; intro h; cases h

end Chewing.TrieWalk
