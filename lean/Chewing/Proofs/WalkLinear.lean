import Chewing.Proofs.WalkEntries
import Chewing.Proofs.WalkValid
/-!
Linear step bound for `Trie::entries()` on a table that passed `validate_index`.

`sz t i` is the size of the subtree below record `i` (children have larger indices, so the
recursion is indexed by fuel `n`).  Twice the subtree size is a weight function in the sense of
`Proofs/WalkEntries.lean` for every `Forward` table (`subtreeWeights`); for a validated table the
subtree of the root has at most `n` records (`sz_root_le`): the scan of `validate_index` visits the
records in breadth-first order and the records `i .. next` are at every moment the roots of disjoint
subtrees inside `i .. n` (`scan_frontier`).  Hence `entries()` needs at most `16·n + 2` loop iterations.
-/
namespace Chewing.TrieWalk
open Chewing.TrieValidate

variable {P : Type}

/-- the guard of the recursion: a node record whose children come after it -/
def Desc (t : Tbl P) (i : Nat) : Prop := i < t.n ∧ NodeIsh t i ∧ i < (t.get i).a

instance (t : Tbl P) (i : Nat) : Decidable (Desc t i) := by unfold Desc; exact inferInstance

def szF (t : Tbl P) : Nat → Nat → Nat
  | 0, _ => 1
  | f + 1, i =>
    if Desc t i then 1 + ((List.range' (t.get i).a (t.get i).b).map (szF t f)).sum else 1

/-- number of records in the subtree of record `i` -/
def sz (t : Tbl P) (i : Nat) : Nat := szF t t.n i

theorem szF_pos (t : Tbl P) (f i : Nat) : 1 ≤ szF t f i := by
  cases f with
  | zero => simp [szF]
  | succ f => unfold szF; split <;> omega

theorem szF_stable (t : Tbl P) : ∀ (f g i : Nat), t.n - i ≤ f → t.n - i ≤ g → szF t f i = szF t g i
  | 0, g, i, hf, _ => by
    have hd : ¬ Desc t i := fun h => by have := h.1; omega
    cases g with
    | zero => rfl
    | succ g => simp [szF, hd]
  | f + 1, 0, i, _, hg => by
    have hd : ¬ Desc t i := fun h => by have := h.1; omega
    simp [szF, hd]
  | f + 1, g + 1, i, hf, hg => by
    unfold szF
    by_cases hd : Desc t i
    · simp only [hd, if_true]
      congr 2
      apply List.map_congr_left
      intro j hj
      rw [List.mem_range'_1] at hj
      have := hd.1
      have := hd.2.2
      exact szF_stable t f g j (by omega) (by omega)
    · simp only [hd, if_false]

theorem sz_desc {t : Tbl P} {i : Nat} (h : Desc t i) :
    sz t i = 1 + sumW (sz t) (t.get i).a ((t.get i).a + (t.get i).b) := by
  have hn : t.n = (t.n - 1) + 1 := by have := h.1; omega
  unfold sz sumW
  rw [hn, szF, if_pos h, ← hn]
  congr 2
  have e : (t.get i).a + (t.get i).b - (t.get i).a = (t.get i).b := by omega
  rw [e]
  apply List.map_congr_left
  intro j hj
  rw [List.mem_range'_1] at hj
  have := h.2.2
  have := h.1
  exact szF_stable t _ _ j (by omega) (by omega)

theorem sz_not_desc {t : Tbl P} {i : Nat} (h : ¬ Desc t i) : sz t i = 1 := by
  unfold sz
  cases hn : t.n with
  | zero => rfl
  | succ n => rw [szF, if_neg h]

theorem sumW_empty (w : Nat → Nat) {c e : Nat} (h : e ≤ c) : sumW w c e = 0 := by
  unfold sumW
  have : e - c = 0 := by omega
  rw [this]
  rfl

theorem sumW_split (w : Nat → Nat) : ∀ (k c m e : Nat), m - c = k → c ≤ m → m ≤ e →
    sumW w c e = sumW w c m + sumW w m e
  | 0, c, m, e, hk, h1, _ => by
    have : m = c := by omega
    subst this
    rw [sumW_empty w (Nat.le_refl _)]
    omega
  | k + 1, c, m, e, hk, h1, h2 => by
    rw [sumW_next w (show c < e by omega), sumW_next w (show c < m by omega),
      sumW_split w k (c + 1) m e (by omega) (by omega) h2]
    omega

theorem sumW_double (w : Nat → Nat) (c e : Nat) : sumW (fun j => 2 * w j) c e = 2 * sumW w c e := by
  unfold sumW
  induction List.range' c (e - c) with
  | nil => rfl
  | cons x xs ih => simp only [List.map_cons, List.sum_cons, ih]; omega

/-- twice the subtree size: a weight function for every table whose children come after their parent -/
def subtreeWeights {t : Tbl P} (hfw : Forward t) : Weights t where
  w := fun i => 2 * sz t i
  two_le := fun i _ => by have := szF_pos t t.n i; unfold sz; omega
  children := fun i hi hn hr => by
    have hd : Desc t i := ⟨hi, hn, hfw i hi hn hr⟩
    rw [sumW_double, sz_desc hd]
    omega

/-- the frontier invariant of the scan: the records `i .. next` are roots of disjoint subtrees inside `i .. n` -/
theorem scan_frontier (t : Tbl P) :
    ∀ (rest : List Rec3) (i next : Nat), scan t.rec3 t.dataLen rest i next = true →
      rest = t.rec3.drop i → next ≤ t.n → sumW (sz t) i next ≤ t.n - i
  | [], i, next, _, hd, hnx => by
    have : t.n ≤ i := by
      have := congrArg List.length hd
      simp only [List.length_nil, List.length_drop, rec3_length] at this
      omega
    rw [sumW_empty _ (by omega)]
    omega
  | r :: rest, i, next, h, hd, hnx => by
    have hlen := congrArg List.length hd
    simp only [List.length_cons, List.length_drop, rec3_length] at hlen
    have hi : i < t.n := by omega
    have hl : i < t.rec3.length := by rw [rec3_length]; exact hi
    have hdrop : t.rec3.drop i = t.rec3[i] :: t.rec3.drop (i + 1) := List.drop_eq_getElem_cons hl
    rw [hdrop] at hd
    have hr : r = ((t.get i).a, (t.get i).b, (t.get i).s) := by
      rw [← rec3_get t hi hl]; exact (List.cons.inj hd).1
    have hrest : rest = t.rec3.drop (i + 1) := (List.cons.inj hd).2
    by_cases hn : NodeIsh t i
    · have hnode : IsNode i r := by rw [hr]; simpa [IsNode, NodeIsh] using hn
      obtain ⟨h1, h2, h3, _, h5⟩ := scan_cons_node hnode h
      rw [hr] at h1 h2 h3 h5
      simp only [rec3_length] at h3
      have ih := scan_frontier t rest (i + 1) _ h5 hrest h3
      rcases Nat.lt_or_ge i next with hlt | hge
      · have hdsc : Desc t i := ⟨hi, hn, h2⟩
        rw [sumW_next _ hlt, sz_desc hdsc]
        rw [sumW_split (sz t) _ (i + 1) next ((t.get i).a + (t.get i).b) rfl (by omega) (by omega),
          sumW_split (sz t) _ next (t.get i).a ((t.get i).a + (t.get i).b) rfl (by omega) (by omega)] at ih
        omega
      · rw [sumW_empty _ hge]; omega
    · have hnode : ¬ IsNode i r := by rw [hr]; simpa [IsNode, NodeIsh] using hn
      obtain ⟨_, h2⟩ := scan_cons_leaf hnode h
      have ih := scan_frontier t rest (i + 1) next h2 hrest hnx
      rcases Nat.lt_or_ge i next with hlt | hge
      · rw [sumW_next _ hlt, sz_not_desc (fun hd => hn hd.2.1)]
        omega
      · rw [sumW_empty _ hge]; omega

/-- the subtree of the root of a validated table has at most `n` records -/
theorem sz_root_le {t : Tbl P} (hv : validate t = true) (hn : 1 ≤ t.n) : sz t 0 ≤ t.n := by
  have := scan_frontier t t.rec3 0 1 (TrieValidate.validate_scan hv) rfl hn
  rw [sumW_next _ (by omega), sumW_empty _ (Nat.le_refl _)] at this
  omega

/-- `entries()` over a validated table returns within `16·n + 2` loop iterations -/
theorem entriesFuel_returns_linear {t : Tbl P} (hv : validate t = true) (fuel : Nat)
    (hfuel : 16 * t.n + 2 ≤ fuel) : Returns (entriesFuel t fuel) := by
  rcases Nat.lt_or_ge t.n 1 with h0 | h1
  · unfold entriesFuel entriesInit
    rw [if_pos h0]
    exact ⟨_, rfl⟩
  · refine entriesFuel_returns (subtreeWeights (valid_forward hv)) (valid_noZeroChild hv) (valid_validSyls hv) fuel ?_
    have := sz_root_le hv h1
    show 8 * (2 * sz t 0) + 2 ≤ fuel
    omega

end Chewing.TrieWalk
