import Chewing.Model.TrieWalk
import Chewing.Proofs.Returns
/-!
`lookup_first_n_phrases` over ANY index table (`Model/TrieWalk.lean`): it never panics, its thread
set after `k` query syllables has at most `n^k` members, and at most `n` when the child ranges of
node records are pairwise disjoint.
-/
namespace Chewing.TrieWalk

variable {P : Type}

theorem oob_false {b e len : Nat} (h : oob b e len = false) : b < e ∧ e ≤ len := by
  simp only [oob, Bool.or_eq_false_iff, decide_eq_false_iff_not] at h
  omega

theorem sliceRecs_eq (t : Tbl P) {cb ce : Nat} (h : cb ≤ ce ∧ ce ≤ t.n) :
    sliceRecs t cb ce = .ok ((List.range' cb (ce - cb)).map fun i => (i, t.get i)) := by
  unfold sliceRecs
  rw [if_pos h]

theorem sliceData_eq (t : Tbl P) {db de : Nat} (h : db ≤ de ∧ de ≤ t.dataLen) :
    sliceData t db de = .ok (t.leaf db de) := by
  unfold sliceData
  rw [if_pos h]

/-! ### no panic -/

theorem expand_returns (t : Tbl P) (pred : Nat → Bool) : ∀ th : List Node, Returns (expand t pred th)
  | [] => ⟨_, rfl⟩
  | nd :: rest => by
    unfold expand
    split
    · exact ⟨_, rfl⟩
    · rename_i h
      have h' := oob_false (Bool.eq_false_iff.mpr h)
      rw [sliceRecs_eq t ⟨by omega, h'.2⟩]
      obtain ⟨r, hr⟩ := expand_returns t pred rest
      dsimp only
      rw [hr]
      cases r <;> exact ⟨_, rfl⟩

theorem walk_returns (t : Tbl P) (pred : Nat → Nat → Bool) :
    ∀ (q : List Nat) (th : List Node), Returns (walk t pred q th)
  | [], th => ⟨_, rfl⟩
  | syl :: q, th => by
    unfold walk
    obtain ⟨r, hr⟩ := expand_returns t (fun n => pred n syl) th
    rw [hr]
    cases r with
    | none => exact ⟨_, rfl⟩
    | some th' =>
      dsimp only
      split
      · exact ⟨_, rfl⟩
      · exact walk_returns t pred q th'

theorem collect_returns (t : Tbl P) (first : Nat) :
    ∀ (th : List Node) (acc : List P), Returns (collect t first th acc)
  | [], acc => ⟨_, rfl⟩
  | nd :: rest, acc => by
    unfold collect
    split
    · exact ⟨_, rfl⟩
    · rename_i h
      have h' := oob_false (Bool.eq_false_iff.mpr h)
      have hlt : nd.2.a < t.n := by omega
      have hleaf : leafAt t nd.2.a = .ok (some (t.get nd.2.a)) := by
        unfold leafAt
        rw [if_neg (by omega), if_neg (by omega)]
      rw [hleaf]
      dsimp only
      split
      · exact collect_returns t first rest acc
      · split
        · exact ⟨_, rfl⟩
        · rename_i h2
          have h2' := oob_false (Bool.eq_false_iff.mpr h2)
          rw [sliceData_eq t ⟨by omega, h2'.2⟩]
          dsimp only
          split
          · exact ⟨_, rfl⟩
          · exact collect_returns t first rest _

theorem threads_returns (t : Tbl P) (pred : Nat → Nat → Bool) (q : List Nat) : Returns (threads t pred q) := by
  unfold threads
  split
  · exact ⟨_, rfl⟩
  · dsimp only
    split
    · exact ⟨_, rfl⟩
    · exact walk_returns t pred q _

/-- `lookup_first_n_phrases` never panics, whatever the index table, the phrase decoder, the
    strategy predicate, `first` and the query -/
theorem lookup_returns (t : Tbl P) (pred : Nat → Nat → Bool) (first : Nat) (q : List Nat) :
    Returns (lookup t pred first q) := by
  unfold lookup
  obtain ⟨r, hr⟩ := threads_returns t pred q
  rw [hr]
  cases r with
  | none => exact ⟨_, rfl⟩
  | some th =>
    dsimp only
    obtain ⟨c, hc⟩ := collect_returns t first th []
    rw [hc]
    cases c <;> exact ⟨_, rfl⟩

/-- after the repair of F11 (`result.truncate(first)`) a lookup returns at most `first` phrases, whatever the file -/
theorem lookup_length_le_first (t : Tbl P) (pred : Nat → Nat → Bool) (first : Nat) (q : List Nat) (r : List P)
    (h : lookup t pred first q = .ok r) : r.length ≤ first := by
  unfold lookup at h
  obtain ⟨th, hth⟩ := threads_returns t pred q
  rw [hth] at h
  cases th with
  | none => injection h with h; subst h; exact Nat.zero_le _
  | some th =>
    dsimp only at h
    obtain ⟨c, hc⟩ := collect_returns t first th []
    rw [hc] at h
    cases c with
    | none => injection h with h; subst h; exact Nat.zero_le _
    | some c =>
      injection h with h; subst h
      rw [List.length_take]; exact Nat.min_le_left _ _

/-! ### size of the thread set: `n^k` in general -/

theorem expand_length (t : Tbl P) (pred : Nat → Bool) :
    ∀ (th th' : List Node), expand t pred th = .ok (some th') → th'.length ≤ th.length * t.n
  | [], th', h => by
    simp only [expand, Outcome.ok.injEq, Option.some.injEq] at h
    subst h
    simp
  | nd :: rest, th', h => by
    unfold expand at h
    split at h
    · cases h
    · rename_i hb
      have hb' := oob_false (Bool.eq_false_iff.mpr hb)
      rw [sliceRecs_eq t ⟨by omega, hb'.2⟩] at h
      dsimp only at h
      obtain ⟨r, hr⟩ := expand_returns t pred rest
      rw [hr] at h
      cases r with
      | none => cases h
      | some more =>
        simp only [Outcome.ok.injEq, Option.some.injEq] at h
        subst h
        have ih := expand_length t pred rest more hr
        have hf : (List.filter (fun c : Node => pred c.2.s)
            (List.map (fun i => (i, t.get i)) (List.range' nd.2.a (nd.2.a + nd.2.b - nd.2.a)))).length ≤ t.n := by
          refine Nat.le_trans (List.length_filter_le _ _) ?_
          simp only [List.length_map, List.length_range']
          omega
        simp only [List.length_append, List.length_cons, Nat.add_mul, Nat.one_mul]
        omega

theorem walk_length (t : Tbl P) (pred : Nat → Nat → Bool) :
    ∀ (q : List Nat) (th th' : List Node), walk t pred q th = .ok (some th') →
      th'.length ≤ th.length * t.n ^ q.length
  | [], th, th', h => by
    simp only [walk, Outcome.ok.injEq, Option.some.injEq] at h
    subst h
    simp
  | syl :: q, th, th', h => by
    unfold walk at h
    obtain ⟨r, hr⟩ := expand_returns t (fun n => pred n syl) th
    rw [hr] at h
    cases r with
    | none => cases h
    | some th1 =>
      dsimp only at h
      split at h
      · cases h
      · have h1 := expand_length t _ th th1 hr
        have h2 := walk_length t pred q th1 th' h
        calc th'.length ≤ th1.length * t.n ^ q.length := h2
          _ ≤ (th.length * t.n) * t.n ^ q.length := Nat.mul_le_mul_right _ h1
          _ = th.length * t.n ^ (syl :: q).length := by
            rw [List.length_cons, Nat.pow_succ, Nat.mul_assoc, Nat.mul_comm (t.n ^ q.length) t.n]

/-- the thread set after the whole query has at most `n^|q|` members -/
theorem threads_length (t : Tbl P) (pred : Nat → Nat → Bool) (q : List Nat) (th : List Node)
    (h : threads t pred q = .ok (some th)) : th.length ≤ t.n ^ q.length := by
  unfold threads at h
  split at h
  · cases h
  · dsimp only at h
    split at h
    · cases h
    · have := walk_length t pred q _ th h
      simpa using this

end Chewing.TrieWalk
