import Chewing.Model.TrieCodec
import Chewing.Model.TrieWalk
/-!
`open_total`: the byte-level model of `Trie::new` (`TrieCodec.openTrie`: the DER shapes of the `der` crate, then
`validate_index`) is a total function on ALL byte strings — it returns `none` (= `Err`) or a `Trie` whose index
passed the validation — and the index table the traversal model (`Model/TrieWalk.lean`) works on is that very
record list: `tblOf_validate`.  Together with `Props/C12.lean` this closes the staging gap "the `der` crate is a
parameter": for every byte string, opening returns, and if it returns a `Trie`, every traversal of it returns.
(That the model agrees with the real `Trie::new` is the correspondence `walk open` on every corrupted file.)
-/
namespace Chewing.TrieWalk
open Chewing.Der Chewing.TrieCodec

/-- `Trie::new` returns `Err`, or a `Trie` whose index passed `validate_index` -/
theorem open_total (bytes : Bytes) :
    openTrie bytes = none ∨ ∃ t, openTrie bytes = some t ∧ validIndex t.index t.data = true := by
  unfold openTrie
  split
  · exact Or.inl rfl
  · split
    · rename_i t _
      by_cases hv : validIndex t.index t.data = true
      · exact Or.inr ⟨t, by rw [if_pos hv], hv⟩
      · exact Or.inl (by rw [if_neg hv])
    · exact Or.inl rfl

theorem parseRecs_cons8 (b0 b1 b2 b3 b4 b5 b6 b7 : Nat) (rest : Bytes) :
    parseRecs (b0 :: b1 :: b2 :: b3 :: b4 :: b5 :: b6 :: b7 :: rest) =
      (fromBE [b0, b1, b2, b3], fromBE [b4, b5], fromBE [b6, b7]) :: parseRecs rest := by
  unfold parseRecs
  have hl : (b0 :: b1 :: b2 :: b3 :: b4 :: b5 :: b6 :: b7 :: rest).length / 8 = rest.length / 8 + 1 := by
    simp only [List.length_cons]; omega
  rw [hl, List.range_succ_eq_map, List.map_cons, List.map_map]
  congr 1
  apply List.map_congr_left
  intro i _
  simp only [Function.comp, viewAt]
  have : (i + 1) * 8 = i * 8 + 8 := by omega
  rw [this]
  rfl

theorem parseRecs_short (bs : Bytes) (h : bs.length < 8) : parseRecs bs = [] := by
  unfold parseRecs
  have : bs.length / 8 = 0 := by omega
  rw [this]
  rfl

theorem be_eq_fromBE (l : List Nat) : be l = fromBE l := rfl

/-- the record list of the traversal model is the record list `validate_index` reads -/
theorem parseIndex_rec3 : ∀ (n : Nat) (ib : Bytes), ib.length ≤ n →
    (parseIndex ib).map (fun r => (r.a, r.b, r.s)) = parseRecs ib
  | 0, ib, h => by
    have : ib = [] := List.length_eq_zero_iff.mp (by omega)
    subst this
    rfl
  | n + 1, ib, h => by
    match ib with
    | b0 :: b1 :: b2 :: b3 :: b4 :: b5 :: b6 :: b7 :: rest =>
      rw [parseRecs_cons8]
      simp only [parseIndex, List.map_cons, be_eq_fromBE]
      rw [parseIndex_rec3 n rest (by simp only [List.length_cons] at h; omega)]
    | [] => rfl
    | [_] => rw [parseRecs_short _ (by simp)]; simp [parseIndex]
    | [_, _] => rw [parseRecs_short _ (by simp)]; simp [parseIndex]
    | [_, _, _] => rw [parseRecs_short _ (by simp)]; simp [parseIndex]
    | [_, _, _, _] => rw [parseRecs_short _ (by simp)]; simp [parseIndex]
    | [_, _, _, _, _] => rw [parseRecs_short _ (by simp)]; simp [parseIndex]
    | [_, _, _, _, _, _] => rw [parseRecs_short _ (by simp)]; simp [parseIndex]
    | [_, _, _, _, _, _, _] => rw [parseRecs_short _ (by simp)]; simp [parseIndex]

/-- the table the traversals of an opened `Trie` run on: its index records, the length of its phrase bytes, and
    `PhrasesIter` over a slice of them -/
def tblOf (t : Trie) : Tbl Phrase :=
  { recs := parseIndex t.index, dataLen := t.data.length,
    leaf := fun db de => decPhrases ((t.data.drop db).take (de - db)) }

/-- … has passed `validate` exactly when `Trie::new` accepted the file -/
theorem tblOf_validate (t : Trie) : validate (tblOf t) = validIndex t.index t.data := by
  unfold validate validIndex Tbl.rec3 tblOf
  simp only
  rw [parseIndex_rec3 _ t.index (Nat.le_refl _)]

/-- **open_total**, traversal form: for every byte string `Trie::new` returns `Err` or a `Trie` whose table is
    validated — the hypothesis of every traversal theorem of C12 -/
theorem open_then_valid (bytes : Bytes) :
    openTrie bytes = none ∨ ∃ t, openTrie bytes = some t ∧ validate (tblOf t) = true := by
  rcases open_total bytes with h | ⟨t, h1, h2⟩
  · exact Or.inl h
  · exact Or.inr ⟨t, h1, by rw [tblOf_validate]; exact h2⟩

end Chewing.TrieWalk
