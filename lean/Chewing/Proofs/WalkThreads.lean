import Chewing.Proofs.WalkLookup
import Chewing.Proofs.WalkValid
/-!
The thread set of `lookup_first_n_phrases` on a table that passed `validate_index` never has more
than `n` members: the threads are distinct records, in ascending index order (`ThInv`), because the
child ranges of node records ascend with the record index (`Mono`).
-/
namespace Chewing.TrieWalk

variable {P : Type}

/-- thread list invariant: views of distinct node records in ascending index order -/
structure ThInv (t : Tbl P) (th : List Node) : Prop where
  sorted : th.Pairwise fun x y => x.1 < y.1
  mem : ∀ x ∈ th, x.1 < t.n ∧ x.2 = t.get x.1 ∧ NodeIsh t x.1

theorem sorted_length_le : ∀ (l : List Nat) (k n : Nat), l.Pairwise (· < ·) → (∀ x ∈ l, k ≤ x ∧ x < n) →
    l.length ≤ n - k
  | [], _, _, _, _ => Nat.zero_le _
  | x :: xs, k, n, hp, hb => by
    rw [List.pairwise_cons] at hp
    have hx := hb x List.mem_cons_self
    have := sorted_length_le xs (k + 1) n hp.2 (fun y hy => by
      have := hp.1 y hy
      have := hb y (List.mem_cons_of_mem _ hy)
      omega)
    simp only [List.length_cons]
    omega

theorem ThInv.length_le {t : Tbl P} {th : List Node} (h : ThInv t th) : th.length ≤ t.n := by
  have := sorted_length_le (th.map (·.1)) 0 t.n
    (by rw [List.pairwise_map]; exact h.sorted)
    (by
      intro x hx
      rw [List.mem_map] at hx
      obtain ⟨y, hy, rfl⟩ := hx
      exact ⟨Nat.zero_le _, (h.mem y hy).1⟩)
  simpa using this

/-- one round of the thread loop keeps the invariant; every new thread lies in the child range of an old one -/
theorem expand_inv {t : Tbl P} (hm : Mono t) {pred : Nat → Bool} (hp : pred 0 = false) :
    ∀ (th th' : List Node), ThInv t th → expand t pred th = .ok (some th') →
      ThInv t th' ∧ ∀ y ∈ th', ∃ x ∈ th, x.2.a ≤ y.1 ∧ y.1 < x.2.a + x.2.b
  | [], th', _, h => by
    simp only [expand, Outcome.ok.injEq, Option.some.injEq] at h
    subst h
    exact ⟨⟨List.Pairwise.nil, fun x hx => by cases hx⟩, fun y hy => by cases hy⟩
  | nd :: rest, th', hinv, h => by
    unfold expand at h
    split at h
    · cases h
    · rename_i hb
      have hb' := oob_false (Bool.eq_false_iff.mpr hb)
      rw [sliceRecs_eq t ⟨by omega, hb'.2⟩] at h
      dsimp only at h
      obtain ⟨r, hr⟩ := expand_returns t pred rest
      rw [hr] at h
      cases r with
      | none => cases h
      | some more =>
        simp only [Outcome.ok.injEq, Option.some.injEq] at h
        subst h
        have hrest : ThInv t rest :=
          ⟨(List.pairwise_cons.mp hinv.sorted).2, fun x hx => hinv.mem x (List.mem_cons_of_mem _ hx)⟩
        obtain ⟨ihinv, ihmem⟩ := expand_inv hm hp rest more hrest hr
        have hnd := hinv.mem nd List.mem_cons_self
        have e : nd.2.a + nd.2.b - nd.2.a = nd.2.b := by omega
        -- members of the filtered child range
        have hkids : ∀ c ∈ List.filter (fun c : Node => pred c.2.s)
            (List.map (fun i => (i, t.get i)) (List.range' nd.2.a (nd.2.a + nd.2.b - nd.2.a))),
            nd.2.a ≤ c.1 ∧ c.1 < nd.2.a + nd.2.b ∧ c.2 = t.get c.1 ∧ c.2.s ≠ 0 := by
          intro c hc
          rw [List.mem_filter, List.mem_map] at hc
          obtain ⟨⟨i, hi, rfl⟩, hpc⟩ := hc
          rw [List.mem_range'_1] at hi
          refine ⟨hi.1, by omega, rfl, ?_⟩
          intro hz
          simp only at hpc hz
          rw [hz, hp] at hpc
          cases hpc
        refine ⟨⟨?_, ?_⟩, ?_⟩
        · rw [List.pairwise_append]
          refine ⟨?_, ihinv.sorted, ?_⟩
          · apply List.Pairwise.filter
            rw [List.pairwise_map]
            exact List.Pairwise.imp (fun h => h) (List.pairwise_lt_range')
          · intro c hc y hy
            obtain ⟨x, hx, hx1, _⟩ := ihmem y hy
            have hlt : nd.1 < x.1 := (List.pairwise_cons.mp hinv.sorted).1 x hx
            have hxm := hrest.mem x hx
            have := hm nd.1 x.1 hlt hxm.1 hnd.2.2 hxm.2.2
            rw [← hnd.2.1, ← hxm.2.1] at this
            have := (hkids c hc).2.1
            omega
        · intro c hc
          rw [List.mem_append] at hc
          rcases hc with hc | hc
          · obtain ⟨_, h2, h3, h4⟩ := hkids c hc
            exact ⟨by omega, h3, Or.inr (by rw [← h3]; exact h4)⟩
          · exact ihinv.mem c hc
        · intro y hy
          rw [List.mem_append] at hy
          rcases hy with hy | hy
          · obtain ⟨h1, h2, _, _⟩ := hkids y hy
            exact ⟨nd, List.mem_cons_self, h1, h2⟩
          · obtain ⟨x, hx, hx'⟩ := ihmem y hy
            exact ⟨x, List.mem_cons_of_mem _ hx, hx'⟩

theorem walk_inv {t : Tbl P} (hm : Mono t) {pred : Nat → Nat → Bool} :
    ∀ (q : List Nat) (th th' : List Node), (∀ syl ∈ q, pred 0 syl = false) → ThInv t th →
      walk t pred q th = .ok (some th') → ThInv t th'
  | [], th, th', _, hinv, h => by
    simp only [walk, Outcome.ok.injEq, Option.some.injEq] at h
    subst h
    exact hinv
  | syl :: q, th, th', hp, hinv, h => by
    unfold walk at h
    obtain ⟨r, hr⟩ := expand_returns t (fun n => pred n syl) th
    rw [hr] at h
    cases r with
    | none => cases h
    | some th1 =>
      dsimp only at h
      split at h
      · cases h
      · have h1 := (expand_inv hm (pred := fun n => pred n syl) (hp syl List.mem_cons_self) th th1 hinv hr).1
        exact walk_inv hm q th1 th' (fun s hs => hp s (List.mem_cons_of_mem _ hs)) h1 h

/-- on a validated table the thread set after the whole query has at most `n` members -/
theorem threads_length_linear {t : Tbl P} (hv : validate t = true) (pred : Nat → Nat → Bool) (q : List Nat)
    (th : List Node) (hp : ∀ syl ∈ q, pred 0 syl = false) (h : threads t pred q = .ok (some th)) :
    th.length ≤ t.n := by
  unfold threads at h
  split at h
  · cases h
  · rename_i hb
    have hb' := oob_false (Bool.eq_false_iff.mpr hb)
    dsimp only at h
    split at h
    · cases h
    · have hinit : ThInv t [(0, t.get 0)] :=
        ⟨List.pairwise_singleton _ _, fun x hx => by
          simp only [List.mem_singleton] at hx
          subst hx
          exact ⟨by omega, rfl, Or.inl rfl⟩⟩
      exact (walk_inv (valid_mono hv) q _ th hp hinit h).length_le

end Chewing.TrieWalk
