import Chewing.Model.TrieWalk
import Chewing.Proofs.TrieValidate
import Chewing.Proofs.TrieShape
/-!
A table that passed `validate_index` (`validate t = true`) is a forest laid out in index order:
children after their parent (`Forward`), no leaf record inside a child range (`NoZeroChild`), the child
ranges of node records ascending with the record index (`Mono`), hence pairwise disjoint
(`DisjointRanges`), every child range inside the table, every node syllable a valid code (`ValidSyls`).
-/
namespace Chewing.TrieWalk
open Chewing.TrieValidate

variable {P : Type}

theorem rec3_length (t : Tbl P) : t.rec3.length = t.n := by simp [Tbl.rec3, Tbl.n]

theorem rec3_get (t : Tbl P) {i : Nat} (hi : i < t.n) (h' : i < t.rec3.length := by simp [Tbl.rec3, Tbl.n] at *; omega) :
    t.rec3[i] = ((t.get i).a, (t.get i).b, (t.get i).s) := by
  unfold Tbl.n at hi
  simp [Tbl.rec3, Tbl.get, List.getD_eq_getElem?_getD, List.getElem?_eq_getElem hi]

theorem sylAt_rec3 (t : Tbl P) (j : Nat) : sylAt t.rec3 j = (t.get j).s := by
  unfold sylAt Tbl.rec3 Tbl.get
  rcases Nat.lt_or_ge j t.recs.length with h | h
  · simp [List.getD_eq_getElem?_getD, List.getElem?_eq_getElem h]
  · simp [List.getD_eq_getElem?_getD, List.getElem?_eq_none h]
    rfl

/-- the child ranges of node records ascend with the record index -/
def Mono (t : Tbl P) : Prop :=
  ∀ i j, i < j → j < t.n → NodeIsh t i → NodeIsh t j → (t.get i).a + (t.get i).b ≤ (t.get j).a

/-- every node record's child range (empty or not) lies after the record, inside the table -/
def AllInside (t : Tbl P) : Prop :=
  ∀ i, i < t.n → NodeIsh t i → i < (t.get i).a ∧ (t.get i).a + (t.get i).b ≤ t.n

theorem isNode_iff (t : Tbl P) {i : Nat} (hi : i < t.n) (h' : i < t.rec3.length) :
    IsNode (0 + i) t.rec3[i] ↔ NodeIsh t i := by
  rw [rec3_get t hi h']
  simp [IsNode, NodeIsh]

/-- everything `validate_index` has checked about node record `i` -/
theorem valid_node {t : Tbl P} (hv : validate t = true) {i : Nat} (hi : i < t.n) (hn : NodeIsh t i) :
    i < (t.get i).a ∧ (t.get i).a + (t.get i).b ≤ t.n ∧
    (∀ j, (t.get i).a < j → j < (t.get i).a + (t.get i).b → (t.get j).s ≠ 0) ∧
    ∀ i', i < i' → i' < t.n → NodeIsh t i' → (t.get i).a + (t.get i).b ≤ (t.get i').a := by
  have hl : i < t.rec3.length := by rw [rec3_length]; exact hi
  obtain ⟨h1, h2, h3, h4⟩ := scan_sound t.rec3 0 1 (validate_scan hv) i hl ((isNode_iff t hi hl).mpr hn)
  rw [rec3_get t hi hl] at h1 h2 h3 h4
  simp only [Nat.zero_add, rec3_length] at h1 h2
  refine ⟨h1, h2, ?_, ?_⟩
  · intro j hj1 hj2
    have := zeroInside_false h3 j hj1 hj2
    rwa [sylAt_rec3] at this
  · intro i' hlt hi' hn'
    have hl' : i' < t.rec3.length := by rw [rec3_length]; exact hi'
    have := h4 i' hl' hlt ((isNode_iff t hi' hl').mpr hn')
    rw [rec3_get t hi' hl'] at this
    exact this

/-- the syllable check of `validate_index` (since the repair of C13's F47): the syllable field of every node
    record other than the root is a value `Syllable::try_from` accepts -/
theorem valid_syl {t : Tbl P} (hv : validate t = true) {i : Nat} (h0 : 0 < i) (hi : i < t.n)
    (hs : (t.get i).s ≠ 0) : validCode (t.get i).s = true := by
  have := validate_syls hv i h0 (by rw [rec3_length]; exact hi) (by rw [sylAt_rec3]; exact hs)
  rwa [sylAt_rec3] at this

theorem valid_validSyls {t : Tbl P} (hv : validate t = true) : ValidSyls t := by
  intro i hi hn _ j h1 h2 hs
  obtain ⟨ha, hb, _, _⟩ := valid_node hv hi hn
  exact valid_syl hv (by omega) (by omega) hs

theorem valid_allInside {t : Tbl P} (hv : validate t = true) : AllInside t :=
  fun _ hi hn => ⟨(valid_node hv hi hn).1, (valid_node hv hi hn).2.1⟩

theorem valid_forward {t : Tbl P} (hv : validate t = true) : Forward t :=
  fun _ hi hn _ => (valid_node hv hi hn).1

theorem valid_noZeroChild {t : Tbl P} (hv : validate t = true) : NoZeroChild t :=
  fun _ hi hn _ j h1 h2 => (valid_node hv hi hn).2.2.1 j h1 h2

theorem valid_mono {t : Tbl P} (hv : validate t = true) : Mono t :=
  fun _ _ hlt hj hn hn' => (valid_node hv (Nat.lt_trans hlt hj) hn).2.2.2 _ hlt hj hn'

theorem Mono.disjoint {t : Tbl P} (hm : Mono t) : DisjointRanges t := by
  intro i j hi hj hne hn hn' _ _
  rcases Nat.lt_or_ge i j with h | h
  · exact Or.inl (hm i j h hj hn hn')
  · exact Or.inr (hm j i (by omega) hi hn' hn)

theorem valid_disjoint {t : Tbl P} (hv : validate t = true) : DisjointRanges t := (valid_mono hv).disjoint

/-- leaf records of a validated table point inside the phrase data -/
theorem valid_leaf {t : Tbl P} (hv : validate t = true) {i : Nat} (hi : i < t.n) (hn : ¬ NodeIsh t i) :
    (t.get i).a + (t.get i).b ≤ t.dataLen := by
  have hl : i < t.rec3.length := by rw [rec3_length]; exact hi
  have := scan_leaf t.rec3 0 1 (validate_scan hv) i hl (fun h => hn ((isNode_iff t hi hl).mp h))
  rw [rec3_get t hi hl] at this
  exact this

end Chewing.TrieWalk
