import Chewing.Model.Editor
/-!
# C01 — no call sequence, key or configuration can crash or hang the engine (work in progress)
-/
namespace Chewing.C01
end Chewing.C01
