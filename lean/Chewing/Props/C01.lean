import Chewing.Proofs.C01Apply
import Chewing.Proofs.C01Conv
/-!
# C01 — no call sequence, key or configuration can crash or hang the engine

Over the executable editor model (`Model/Editor.lean`: every `unwrap` / `expect` / index / slice / `assert!`
/ checked-arithmetic site of `src/editor/mod.rs`, `selection/{phrase,symbol}.rs`, `composition_editor.rs`
and `conversion/mod.rs` is a value `Outcome.panic site`, every loop takes fuel and reports
`Outcome.outOfFuel`) "crash" = `.panic _`, "hang" = `.outOfFuel`.

## What is proved (for EVERY environment `env` satisfying the explicit hypotheses `EnvOK env G`)

* `EditorInv` — the reachable-state invariant: composition invariant of C04 (`CompInv`, one character
  per selected symbol, selections over syllables only), `cursor ≤ len` (C05), **every buffered syllable
  has a word under every active lookup strategy** (the engine's, the editor's, an open selector's — the
  mechanism the property's anchors name), prefix lookup only together with the prefix-matching engine,
  `candidates_per_page > 0`, and for an open candidate list: the phrase selector's range is a non-empty run
  of syllables inside the buffer and its composition is the editor's; a replacing symbol list sits on a
  non-syllable symbol.
* `C01_partial` — one operation: from a state satisfying `EditorInv`, EVERY public operation that is not in
  the known class (`Known`: F02 / F03, state based) returns a value (no panic, fuel not exhausted) and
  `EditorInv` holds again (`C01_target_holds`: the former coverage restriction `Covered` is gone).  `C01_partial_run` lifts it to every operation list.
  `no_panic`, `no_hang` restate the conclusion in the words of the property.
* `C01_full` — the statement without the `Known` exclusion — is **refuted** (`C01_full_refuted`) by the
  F02 history (type a partial syllable under the fuzzy engine, switch to the standard engine, Enter) and
  the F03 history (`f03_history_panics`: type a syllable, remove its only word, Enter) in a small
  environment satisfying `EnvOK`.
* `C01_plain_histories` — histories made of key events (any code / modifiers), `select(n)`, start / cancel
  selecting, the four `jump_to_*_selection_point` calls, `commit`, `clear`, `ack`, layout switches and
  `learn_phrase` need NO exclusion: they never panic or hang.
* `selector_loops_terminate`, `init_terminates`, `jump_never_panics` — fuel sufficiency of every selector loop,
  with the reason each makes progress.
* `f41_history_repaired` — finding F41 (found by the first proof attempt in the corner `Covered` used to exclude,
  confirmed as an abort on the real C API, repaired by a `fix:` commit): with the simple engine,
  `jump_to_first_selection_point` made the single-word list swallow the following non-syllable symbol; choosing a
  candidate recorded an invalid selection and the next `ChewingEngine` conversion aborted.
* `initial_inv` — a fresh editor satisfies `EditorInv`.

## Coverage

Covered: every key event (all key codes / modifiers / options) in ALL four states — `Entering`,
`EnteringSyllable`, `Highlighting`, and `Selecting` with a phrase list, a special-symbol list or a symbol
table (`Selecting::next`: paging, Down/Space with `PhraseSelector::next` — terminates, wraps at most
once —, j/k with `retarget`, digits with `Selecting::select`: the chosen phrase is a valid selection, so the
composition invariant survives; `SymbolSelector::{menu,select}` index only existing tables) — including the
keys that open a candidate list (`PhraseSelector::init` terminates), auto-commit and the dictionary flush;
and every other entry point in every state: `select(n)`, `start_selecting`, `cancel_selecting`, `commit`,
`clear`, `ack`, `clear_syllable_editor`, `set_editor_options`, `set_syllable_editor`,
`set_conversion_engine`, `learn_phrase`, `unlearn_phrase` (the last four end with `revalidate_selecting`, the
F32 repair of C07: `total_page()` answers under the invariant), and
`jump_to_{first,last,next,prev}_selection_point` in every state — also while a *phrase* candidate list is open
(`chewing_cand_list_{first,last,next,prev}`; `Proofs/C01Jump.lean`): the invariant of an open phrase selector
carries the `Anchor` of its range (the position `orig` the list was opened at: the range starts there when
choosing forward, ends right after it when choosing rearward — what finding F41 violated), so re-`init` from
`orig` and the searches of `prev_selection_point` up to the break points around `orig` stay on the run of
syllables.  Outside the theorems: the C glue `capi/src/io.rs` (correspondence of the Rust API per step and the
C-API crash campaign).
The symbol tables enter through the hypothesis `SymWF` (well-formed `symbols.dat` as loaded: leaf
categories have a name, table categories point to an existing table), part of `EditorInv`.

The conversion engines enter through `EnvOK.convert_ok`, which is C03's `nonempty_result` + `alt_chain` +
`one_char_per_symbol` + `fuel_suffices` (proved there for the engine model under `CompValid`, a word per
syllable and `ScoreBound`); `compValid_of_cinv` proves that `EditorInv` implies C03's `CompValid`, and
`engines_satisfy_convert_ok` that C03's engine model satisfies `convert_ok` (buffers ≤ 128 symbols).
-/
namespace Chewing.C01
open Chewing Chewing.C04 Chewing.C05 Chewing.C06

variable {D L : Type} {env : Env D L} {G : D → Prop}

/-- **C01, one operation (partial: the known class F02/F03 is excluded, nothing else).**  `hv`: arguments
    the C layer validates; `hk`: not the known class F02/F03.  Every public operation of the editor is
    covered, also `jump_to_*_selection_point` on an open phrase list (the former `Covered` restriction is gone). -/
theorem C01_partial (hE : EnvOK env G) (e : Editor D L) (op : Op L) (hi : EditorInv env G e) (hv : OpValid op)
    (hk : ¬ Known env e op) :
    ∃ e', e.apply env op = .ok e' ∧ EditorInv env G e' :=
  apply_ok hE hi op hv hk

/-- … in the words of the property: the call does not panic … -/
theorem no_panic (hE : EnvOK env G) (e : Editor D L) (op : Op L) (hi : EditorInv env G e) (hv : OpValid op)
    (hk : ¬ Known env e op) (site : String) : e.apply env op ≠ .panic site :=
  (apply_ok hE hi op hv hk).not_panic.1 site

/-- … and every loop finishes within the fuel the model supplies (linear in the buffer length) -/
theorem no_hang (hE : EnvOK env G) (e : Editor D L) (op : Op L) (hi : EditorInv env G e) (hv : OpValid op)
    (hk : ¬ Known env e op) : e.apply env op ≠ .outOfFuel :=
  (apply_ok hE hi op hv hk).not_panic.2

/-- a history all of whose steps are valid and outside the known class (evaluated along the run) -/
def Allowed (env : Env D L) : Editor D L → List (Op L) → Prop
  | _, [] => True
  | e, op :: ops => OpValid op ∧ ¬ Known env e op ∧ ∀ e', e.apply env op = .ok e' → Allowed env e' ops

/-- **C01, every history (partial).** -/
theorem C01_partial_run (hE : EnvOK env G) (ops : List (Op L)) :
    ∀ e : Editor D L, EditorInv env G e → Allowed env e ops → ∃ e', e.run env ops = .ok e' ∧ EditorInv env G e' := by
  induction ops with
  | nil => intro e hi _; exact ⟨e, rfl, hi⟩
  | cons op ops ih =>
    intro e hi ha
    obtain ⟨hv, hk, hrest⟩ := ha
    obtain ⟨e1, h1, hi1⟩ := apply_ok hE hi op hv hk
    obtain ⟨e2, h2, hi2⟩ := ih e1 hi1 (hrest e1 h1)
    exact ⟨e2, by simp only [Editor.run]; rw [h1]; exact h2, hi2⟩

/-- operations that can never be in the known class: key events (any code, any modifiers), `select(n)`,
    `start_selecting`, `cancel_selecting`, `commit`, `clear` (reset), `ack`, `clear_syllable_editor`,
    `set_syllable_editor` (keyboard-layout switch at any moment), `learn_phrase`, and the four
    `jump_to_*_selection_point` calls -/
def Plain : Op L → Prop
  | .key _ | .select _ | .startSelecting | .cancelSelecting | .commit | .clear | .ack | .clearSyl
  | .setLayout _ | .learn _ _ | .jump _ => True
  | _ => False

theorem allowed_of_plain (ops : List (Op L)) : ∀ e : Editor D L, (∀ op ∈ ops, Plain op) → Allowed env e ops := by
  induction ops with
  | nil => intro _ _; trivial
  | cons op ops ih =>
    intro e h
    have hp := h op (List.mem_cons_self ..)
    have hrest := fun e' (_ : e.apply env op = .ok e') => ih e' (fun o ho => h o (List.mem_cons_of_mem _ ho))
    cases op <;> first | exact ⟨trivial, fun hk => hk, hrest⟩ | exact absurd hp (fun hh => hh)

/-- **C01 for histories of keys, candidate choices, jumps, commits, resets, layout switches and learn calls**:
    from every state satisfying the invariant NO such history panics or hangs — no exclusion at all -/
theorem C01_plain_histories (hE : EnvOK env G) (e : Editor D L) (hi : EditorInv env G e) (ops : List (Op L))
    (hp : ∀ op ∈ ops, Plain op) : ∃ e', e.run env ops = .ok e' ∧ EditorInv env G e' :=
  C01_partial_run hE ops e hi (allowed_of_plain ops e hp)

/-- running a concatenation = running the parts one after the other -/
theorem run_append (env : Env D L) (ops1 : List (Op L)) : ∀ (ops2 : List (Op L)) (a b : Editor D L),
    a.run env ops1 = .ok b → a.run env (ops1 ++ ops2) = b.run env ops2 := by
  induction ops1 with
  | nil => intro ops2 a b h; simp only [Editor.run] at h; cases h; rfl
  | cons op ops ih =>
    intro ops2 a b h
    simp only [Editor.run, List.cons_append] at h ⊢
    cases ha : a.apply env op with
    | ok a1 => rw [ha] at h; exact ih ops2 a1 b h
    | panic p => rw [ha] at h; cases h
    | outOfFuel => rw [ha] at h; cases h

/-- a fresh editor (empty buffer, any dictionary that is well formed, any layout, coupled options) satisfies the invariant -/
theorem initial_inv (sh : Shared D L) (hg : G sh.dict) (hcom : sh.com = {})
    (hcp : sh.options.lookupStrategy = .fuzzyPartialPrefix → engStrategy sh.engine = .fuzzyPartialPrefix)
    (hpp : 0 < sh.options.candidatesPerPage) (hsym : SymWF sh.symSel) :
    EditorInv env G { shared := sh, state := .entering } := by
  refine ⟨⟨hg, hcom ▸ cedInv_new, ?_, hcp, hpp, hsym⟩, trivial⟩
  intro c hc
  rw [hcom] at hc
  cases hc

/-- **link to C03**: the engine model of C03 (all three engines, any in-range pick oracle) satisfies the
    hypothesis `EnvOK.convert_ok` the theorems above make about `env.convert`, on buffers of at most 128
    symbols over dictionaries with frequencies ≤ 2^23 (`ScoreBound`) -/
theorem engines_satisfy_convert_ok {pick : Nat → List Conv.Path → Nat} (hp : Conv.PickInRange pick) {d : Dict}
    (hd : Conv.NoEmptyKey d) (hw : Conv.WellFormed d) (hf : ∀ strat key, ∀ p ∈ d.lookup key strat, p.freq ≤ 8388608)
    (k : EngineKind) {c : Composition} (hi : CInv c) (hlen : c.symbols.length ≤ 128)
    (hword : ∀ x, Sym.syl x ∈ c.symbols → (d.lookup [x] (engStrategy k)).head?.isSome = true) :
    OkAnd (fun paths => paths ≠ [] ∧ ∀ p ∈ paths, PathOK c p) (Conv.convert pick (toEngine k) d c) :=
  convert_ok_of_C03 hp hd hw hf k (compValid_of_cinv hi) hlen hword

/-- the statement the package aimed at while `jump_to_*_selection_point` on an open phrase list was outside
    the theorems (predicate `Covered`, now deleted): one operation, no restriction but the known class -/
def C01_target : Prop :=
  ∀ (D L : Type) (env : Env D L) (G : D → Prop), EnvOK env G → ∀ (e : Editor D L) (op : Op L),
    EditorInv env G e → OpValid op → ¬ Known env e op → ∃ e', e.apply env op = .ok e' ∧ EditorInv env G e'

/-- **… reached**: every public operation of the editor, in every state satisfying the invariant -/
theorem C01_target_holds : C01_target :=
  fun _ _ _ _ hE e op hi hv hk => apply_ok hE hi op hv hk

/-- **`jump_to_{first,last,next,prev}_selection_point`** (`chewing_cand_list_*`) never panic or hang and keep
    the invariant, in every state — also on an open phrase list (`Proofs/C01Jump.lean`: the searches stay on
    the run of syllables around the position the list was opened at; fuel sufficiency: every round of
    `next_selection_point` shortens the range, every round of `prev_selection_point` moves one symbol
    towards an end of the buffer, `jump_to_last` shortens the range in every round) -/
theorem jump_never_panics (e : Editor D L) (hi : EditorInv env G e) (w : Nat) :
    ∃ e' okk, e.jump env w = .ok (e', okk) ∧ EditorInv env G e' := by
  obtain ⟨⟨e', b⟩, hq, h1⟩ := jump_api_ok hi w
  exact ⟨e', b, hq, h1⟩

/-- **the selector loops terminate — fuel sufficiency, with the reason each loop makes progress.**  For a
    selector whose range is a non-empty run of syllables inside its buffer (`RangeOK`) over a dictionary with a
    word for every buffered syllable under the selector's strategy (what `Known`, F02/F03, excludes):
    * `PhraseSelector::next` (Down / Space on the last page) returns within `2·len + 4` rounds: every round
      shortens the range by one symbol until the one-syllable range at the anchored end, which has a word;
      it wraps around to the break point at most once (`next_ok`);
    * `next_selection_point` returns within `len + 2` rounds: every round shortens the range, a one-symbol
      range ends the search;  `prev_selection_point` likewise: every round moves the free end one symbol
      towards the end / beginning of the buffer, where the search ends;
    * `jump_to_last_selection_point` returns within `len + 2` rounds: every round strictly shortens the range.
    None of the four needs the dictionary hypothesis except `next` (without it `next` may spin forever: the hang
    of finding F03). -/
theorem selector_loops_terminate (d : D) (s : PhraseSel) (hr : RangeOK s) :
    ((∀ c, Sym.syl c ∈ s.com.symbols → env.hasPhrase d [c] s.strategy = true) → ∃ s', PhraseSel.next env s d = .ok s' ∧ RangeOK s') ∧
    (∃ r, PhraseSel.nextSelectionPoint env s d = .ok r) ∧ (∃ r, PhraseSel.prevSelectionPoint env s d = .ok r) ∧
    (∃ s', PhraseSel.jumpToLast env s d = .ok s' ∧ RangeOK s') := by
  refine ⟨fun hw => ?_, ?_, ?_, ?_⟩
  · obtain ⟨s', hq, hp⟩ := next_ok (env := env) d s hr hw; exact ⟨s', hq, hp.range⟩
  · obtain ⟨r, hq, _⟩ := nextSelectionPoint_ok (env := env) d s hr; exact ⟨r, hq⟩
  · obtain ⟨r, hq, _⟩ := prevSelectionPoint_ok (env := env) d s hr; exact ⟨r, hq⟩
  · obtain ⟨s', hq, hp⟩ := jumpToLast_ok (env := env) d s hr; exact ⟨s', hq, hp.range⟩

/-- **`PhraseSelector::init` terminates** (opening a list, `j` / `k`, `chewing_cand_list_first`) at a syllable
    inside the buffer, over a dictionary with a word for every buffered syllable: the shrinking loop makes
    progress by one symbol per round and stops at the latest at the single syllable under the cursor, which has
    a word; the fuel `len + 2` suffices.  The range returned is a non-empty run of syllables around the cursor. -/
theorem init_terminates (forward : Bool) (strategy : Strategy) (com : Composition) (cursor : Nat) (d : D)
    (hlt : cursor < com.symbols.length) (hsyl : ∃ k, com.symbols[cursor]? = some (Sym.syl k))
    (hw : ∀ c, Sym.syl c ∈ com.symbols → env.hasPhrase d [c] strategy = true) :
    ∃ p, PhraseSel.init env forward strategy com cursor d = .ok p ∧ p.com = com ∧ RangeOK p ∧ p.orig = cursor ∧
      p.begin_ ≤ cursor ∧ cursor < p.end_ := by
  obtain ⟨p, hq, p1, _, p3, p4, p5, p6, p7, p8⟩ := init_ok (env := env) forward strategy com cursor d hlt hsyl hw
  refine ⟨p, hq, p1, ⟨p3, by rw [p1]; exact p4, by rw [p1]; exact p5⟩, p8, ?_, ?_⟩
  · cases hf : p.forward with
    | true => have := p6.fw hf; omega
    | false => have := p6.rw hf; omega
  · cases hf : p.forward with
    | true => have := p6.fw hf; omega
    | false => have := p6.rw hf; omega

/-- the property as worded, over histories: from a fresh state NO sequence of (valid) public operations
    panics or hangs -/
def C01_full : Prop :=
  ∀ (D L : Type) (env : Env D L) (G : D → Prop), EnvOK env G → ∀ (e : Editor D L), EditorInv env G e →
    ∀ ops : List (Op L), (∀ op ∈ ops, OpValid op) → ∃ e', e.run env ops = .ok e'

/-! ## Refutation of the full statement (F02, F03) in a small environment that satisfies `EnvOK` -/

/-- one interval per symbol -/
def singles : List Sym → Nat → List Interval
  | [], _ => []
  | s :: r, i =>
    { start := i, stop := i + 1, isPhrase := s.isSyl, text := [match s with | .syl x => x | .chr x => x] } :: singles r (i + 1)

theorem singles_chain (l : List Sym) : ∀ i, Conv.IvChain i (i + l.length) (singles l i) := by
  induction l with
  | nil => intro i; simp [singles, Conv.IvChain]
  | cons s r ih =>
    intro i
    refine ⟨rfl, by show i < i + 1; omega, ?_⟩
    have := ih (i + 1)
    simp only [List.length_cons]
    rw [show i + (r.length + 1) = i + 1 + r.length by omega]
    exact this

theorem singles_text (l : List Sym) : ∀ i, ∀ iv ∈ singles l i, iv.text.length = iv.stop - iv.start := by
  induction l with
  | nil => intro i iv h; cases h
  | cons s r ih =>
    intro i iv h
    simp only [singles, List.mem_cons] at h
    rcases h with rfl | h
    · show 1 = i + 1 - i; omega
    · exact ih (i + 1) iv h

/-- dictionary = the syllables that have a word; syllable `0` is a *partial* syllable: it has a word by
    prefix matching only -/
def toyLookup (d : List Nat) (k : List Nat) (s : Strategy) : List Phrase :=
  match k with
  | [c] => if d.contains c || (s == .fuzzyPartialPrefix && c == 0) then [{ text := [c], freq := 1 }] else []
  | _ => []

def toyHas (d : List Nat) (k : EngineKind) : Sym → Bool
  | .syl x => (toyLookup d [x] (engStrategy k)).head?.isSome
  | .chr _ => true

/-- layout: key 32 types the partial syllable `0`, key 33 the syllable `3` (two key presses each) -/
def toyEnv : Env (List Nat) Nat where
  lookupAll := toyLookup
  userLookupAll := toyLookup
  addPhrase d _ _ := some d
  updatePhrase d _ _ _ _ := d
  removePhrase d k _ := match k with
    | [c] => d.erase c
    | _ => d
  reopenFlush d := d
  convert k d c := if c.symbols.all (toyHas d k) then .ok [singles c.symbols 0] else .panic "shortest-path-unwrap"
  estimate _ f _ := .ok f
  keyPress l ev := if l == 0 then (if ev.code == 32 then (.absorb, 1) else if ev.code == 33 then (.absorb, 4) else (.keyError, 0))
                   else (.commit, l)
  fuzzyKeyPress l ev := if l == 0 then (if ev.code == 32 then (.absorb, 1) else if ev.code == 33 then (.absorb, 4) else (.keyError, 0))
                        else (.commit, l)
  removeLast _ := 0
  clearSyl _ := 0
  sylIsEmpty l := l == 0
  read l := l - 1
  altSyllables _ _ := []

theorem toyLookup_mem {d : List Nat} {k : List Nat} {s : Strategy} {p : Phrase} (h : p ∈ toyLookup d k s) :
    p.text.length = k.length := by
  unfold toyLookup at h
  split at h
  · split at h
    · simp only [List.mem_cons, List.not_mem_nil, or_false] at h; subst h; rfl
    · cases h
  · cases h

theorem toyEnv_ok : EnvOK toyEnv (fun _ => True) where
  wf := fun d _ k s p hp => toyLookup_mem hp
  std_fuzzy := by
    intro d c _ h
    have hf : (Strategy.standard == Strategy.fuzzyPartialPrefix) = false := rfl
    simp only [Env.hasPhrase, toyEnv, toyLookup] at h ⊢
    by_cases hc : c ∈ d
    · simp [hc]
    · simp [hc, hf] at h
  add_good := fun _ _ _ _ _ _ _ => trivial
  add_mono := by intro d k p d' h c s hh; simp only [toyEnv] at h; cases h; exact hh
  update_good := fun _ _ _ _ _ _ _ => trivial
  update_mono := fun _ _ _ _ _ _ _ hh => hh
  flush_good := fun _ _ => trivial
  flush_mono := fun _ _ _ hh => hh
  remove_good := fun _ _ _ _ => trivial
  convert_ok := by
    intro k d c _ _ hw
    have hall : c.symbols.all (toyHas d k) = true := by
      rw [List.all_eq_true]
      intro x hx
      cases x with
      | syl y => exact hw y hx
      | chr y => rfl
    simp only [toyEnv, hall, if_true]
    refine .ok ⟨by simp, ?_⟩
    intro p hp
    simp only [List.mem_cons, List.not_mem_nil, or_false] at hp
    subst hp
    refine ⟨?_, singles_text _ 0⟩
    have := singles_chain c.symbols 0
    simpa using this
  estimate_ok := fun _ f _ => ⟨f, rfl⟩

theorem symWF_empty : SymWF {} :=
  ⟨fun c h => (by cases h), fun n h => (by cases h), fun n i h => (by cases h)⟩

/-- a fresh editor over the dictionary `d` with the fuzzy engine and prefix lookup (what
    `chewing.conversion_engine = 2` configures) -/
def fuzzyEditor (d : List Nat) : Editor (List Nat) Nat :=
  { shared := { syl := 0, dict := d, engine := .fuzzy,
                options := { lookupStrategy := .fuzzyPartialPrefix, conversionEngine := .fuzzy } } }

/-- a fresh editor with the default (standard) engine -/
def stdEditor (d : List Nat) : Editor (List Nat) Nat := { shared := { syl := 0, dict := d } }

theorem fuzzyEditor_inv (d : List Nat) : EditorInv toyEnv (fun _ => True) (fuzzyEditor d) :=
  initial_inv _ trivial rfl (fun _ => rfl) (by show (0 : Nat) < 10; omega) symWF_empty

theorem stdEditor_inv (d : List Nat) : EditorInv toyEnv (fun _ => True) (stdEditor d) :=
  initial_inv _ trivial rfl (fun h => by cases h) (by show (0 : Nat) < 10; omega) symWF_empty

def keyH : KeyEvent := { index := 32, code := 32, unicode := 104 }
def keyJ : KeyEvent := { index := 33, code := 33, unicode := 106 }
def keyEnter : KeyEvent := { index := 50, code := KC.enter, unicode := 65533 }

/-- **F02**: fuzzy engine, type the partial syllable, switch to the standard engine, Enter ⇒ the
    conversion has no path (`shortest_path(..).unwrap()`) -/
theorem f02_history_panics :
    (fuzzyEditor []).run toyEnv [.key keyH, .key keyH, .setEngine .chewing, .key keyEnter] =
      .panic "shortest-path-unwrap" := rfl

/-- **F03**: type a syllable, remove its only word, Enter ⇒ same site -/
theorem f03_history_panics :
    (stdEditor [3]).run toyEnv [.key keyJ, .key keyJ, .unlearn [3] [3], .key keyEnter] =
      .panic "shortest-path-unwrap" := rfl

/-- **the full statement is false** (finding F02; F03 likewise) -/
theorem C01_full_refuted : ¬ C01_full := by
  intro h
  obtain ⟨e', he⟩ := h _ _ toyEnv _ toyEnv_ok (fuzzyEditor []) (fuzzyEditor_inv [])
    [.key keyH, .key keyH, .setEngine .chewing, .key keyEnter] (by intro op _; cases op <;> trivial)
  rw [f02_history_panics] at he
  cases he

theorem ok_unique {α : Type} {r : Outcome α} {a b : α} (h1 : r = .ok a) (h2 : r = .ok b) : a = b :=
  Outcome.ok.inj (h1.symm.trans h2)

theorem allowed_cons {e : Editor D L} {op : Op L} {ops : List (Op L)} (h1 : OpValid op) (h2 : ¬ Known env e op)
    (h4 : ∀ e', e.apply env op = .ok e' → Allowed env e' ops) : Allowed env e (op :: ops) :=
  ⟨h1, h2, h4⟩

theorem allowed_two_keys {e : Editor D L} {k1 k2 : KeyEvent} {rest : List (Op L)}
    (hr : ∀ e1 e2, e.apply env (.key k1) = .ok e1 → e1.apply env (.key k2) = .ok e2 → Allowed env e2 rest) :
    Allowed env e (.key k1 :: .key k2 :: rest) :=
  allowed_cons trivial (fun h => h) fun e1 he1 =>
    allowed_cons trivial (fun h => h) fun e2 he2 => hr e1 e2 he1 he2

/-- the engine switch of the F02 history is in the known class: the state right before it satisfies
    the invariant, and `Known` holds of the switch -/
theorem f02_is_known :
    ∃ e, (fuzzyEditor []).run toyEnv [.key keyH, .key keyH] = .ok e ∧ EditorInv toyEnv (fun _ => True) e ∧
      Known toyEnv e (.setEngine .chewing) := by
  obtain ⟨e, he, hi⟩ := C01_partial_run toyEnv_ok [.key keyH, .key keyH] (fuzzyEditor []) (fuzzyEditor_inv [])
    (allowed_two_keys (fun _ _ _ _ => trivial))
  refine ⟨e, he, hi, ?_⟩
  obtain ⟨e0, he0, hs0, hd0⟩ : ∃ e0, (fuzzyEditor []).run toyEnv [.key keyH, .key keyH] = .ok e0 ∧
      e0.shared.com.inner.symbols = [.syl 0] ∧ e0.shared.dict = [] := ⟨_, rfl, rfl, rfl⟩
  have := ok_unique he0 he
  subst this
  intro hk
  have h0 := hk.1 0 (by rw [hs0]; exact List.mem_cons_self ..)
  rw [hd0] at h0
  exact absurd h0 (by decide)

/-! ## Finding F41 (found by the proof attempt, confirmed on the real C API, repaired)

`jump_to_first_selection_point` re-runs `PhraseSelector::init` from the position `orig` the list was opened
at.  With the SIMPLE engine a typed syllable opens a single-word list; before the repair its `orig` was the
cursor *after* the syllable, so re-initialising there (backwards: `end = orig + 1`) made the range swallow
the symbol that follows the syllable — also a non-syllable.  The prefix look-up still found the syllable's
words, so choosing a candidate recorded a selection of ONE character over TWO symbols, one of them a
character: the composition left `CompValid` (C03's precondition; the F31 class), and the next conversion
with `ChewingEngine` aborted at `shortest_path(..).unwrap()` (`chewing_cand_list_first`,
`chewing_cand_choose_by_index(0)`, `chewing.conversion_engine = 1`, read the buffer).  The fix: commit makes
`init_single_word` record the position of the word, as `init` does; the model follows.  The former witness
history now keeps the selector on the syllable and the choice is a valid selection: -/

def keyA : KeyEvent := { index := 20, code := 20, unicode := 97 }
def keyHome : KeyEvent := { index := 58, code := KC.home, unicode := 65533 }
def keyDel : KeyEvent := { index := 51, code := KC.del, unicode := 65533 }

/-- buffer `[a]`, cursor 0, simple engine, type a syllable (single-word list opens),
    `jump_to_first_selection_point`, choose the first candidate: the range stays `[0, 1)` and the recorded
    selection is `0..1` with one character (before the repair: `[0, 2)` and a 1-character selection over 2 symbols) -/
theorem f41_history_repaired :
    ∃ e e' e'' s p, (stdEditor [3]).run toyEnv [.key keyJ, .key keyJ, .key keyA, .key keyHome, .key keyDel,
        .setOptions { conversionEngine := .simple }, .key keyJ, .key keyJ] = .ok e ∧
      e.shared.com.inner.symbols = [.syl 3, .chr 97] ∧
      e.apply toyEnv (.jump 0) = .ok e' ∧ e'.state = .selecting s ∧ s.sel = .phrase p ∧ p.begin_ = 0 ∧ p.end_ = 1 ∧
      e'.apply toyEnv (.select 0) = .ok e'' ∧
      e''.shared.com.inner.selections = [{ start := 0, stop := 1, isPhrase := true, text := [3] }] :=
  ⟨_, _, _, _, _, rfl, rfl, rfl, rfl, rfl, rfl, rfl, rfl, rfl⟩

/-! ## Non-vacuity: the hypotheses are satisfiable and the covered histories are not trivial -/

/-- a covered history that types a syllable with a word, opens its candidate list through the API,
    closes it again and commits: allowed, so by `C01_partial_run` it returns and keeps the invariant -/
example : ∃ e', (stdEditor [3]).run toyEnv [.key keyJ, .key keyJ, .startSelecting, .cancelSelecting, .commit] = .ok e' ∧
    EditorInv toyEnv (fun _ => True) e' ∧ e'.shared.commitBuf = [3] := by
  obtain ⟨e', he, hi⟩ := C01_partial_run toyEnv_ok [.key keyJ, .key keyJ, .startSelecting, .cancelSelecting, .commit]
    (stdEditor [3]) (stdEditor_inv [3])
    (allowed_two_keys (fun _ e2 _ _ =>
      allowed_cons trivial (fun h => h) (fun e3 _ =>
        allowed_cons trivial (fun h => h) (fun e4 _ =>
          allowed_cons trivial (fun h => h) (fun _ _ => trivial)))))
  obtain ⟨e0, he0, hc0⟩ : ∃ e0, (stdEditor [3]).run toyEnv [.key keyJ, .key keyJ, .startSelecting, .cancelSelecting, .commit] = .ok e0 ∧
      e0.shared.commitBuf = [3] := ⟨_, rfl, rfl⟩
  have := ok_unique he0 he
  subst this
  exact ⟨_, he, hi, hc0⟩

def keyDown : KeyEvent := { index := 57, code := KC.down, unicode := 65533 }
def key1 : KeyEvent := { index := 1, code := KC.n1, unicode := 49 }

/-- keys only: type a syllable, Down (opens the phrase list), Down again (`PhraseSelector::next`), `1`
    (chooses the first candidate: a selection is pushed), Enter: by `C01_plain_histories` -/
example : ∃ e', (stdEditor [3]).run toyEnv [.key keyJ, .key keyJ, .key keyDown, .key keyDown, .key key1, .key keyEnter] = .ok e' ∧
    EditorInv toyEnv (fun _ => True) e' :=
  C01_plain_histories toyEnv_ok _ (stdEditor_inv [3]) _ (by intro op hop; simp only [List.mem_cons, List.not_mem_nil, or_false] at hop; rcases hop with rfl | rfl | rfl | rfl | rfl | rfl <;> trivial)

/-- … and that history does what it says: the list opens, the choice is recorded, Enter commits it -/
example : ∃ e1 s e2 e3, (stdEditor [3]).run toyEnv [.key keyJ, .key keyJ, .key keyDown] = .ok e1 ∧ e1.state = .selecting s ∧
    e1.run toyEnv [.key keyDown, .key key1] = .ok e2 ∧ e2.shared.com.inner.selections.length = 1 ∧
    e2.run toyEnv [.key keyEnter] = .ok e3 ∧ e3.shared.commitBuf = [3] :=
  ⟨_, _, _, _, rfl, rfl, rfl, rfl, rfl, rfl⟩

/-- the four jumps on an open phrase list (two syllables, cursor at the beginning: `init` shrinks 0..2 to 0..1,
    `prev_selection_point` searches up to the break point, `next_selection_point` / `jump_to_last` stop at the
    one-syllable range) are plain operations: by `C01_plain_histories` they return and keep the invariant; the
    list stays open on the syllable -/
example : ∃ e' s p, (stdEditor [3]).run toyEnv [.key keyJ, .key keyJ, .key keyJ, .key keyJ, .key keyHome, .startSelecting,
      .jump 3, .jump 2, .jump 1, .jump 0] = .ok e' ∧ EditorInv toyEnv (fun _ => True) e' ∧
    e'.state = .selecting s ∧ s.sel = .phrase p ∧ (p.begin_, p.end_, p.orig) = (0, 1, 0) := by
  obtain ⟨e', he, hi⟩ := C01_plain_histories toyEnv_ok _ (stdEditor_inv [3])
    [.key keyJ, .key keyJ, .key keyJ, .key keyJ, .key keyHome, .startSelecting, .jump 3, .jump 2, .jump 1, .jump 0]
    (by intro op hop; simp only [List.mem_cons, List.not_mem_nil, or_false] at hop
        rcases hop with rfl | rfl | rfl | rfl | rfl | rfl | rfl | rfl | rfl | rfl <;> trivial)
  obtain ⟨e0, s, p, he0, h1, h2, h3⟩ : ∃ e0 s p, (stdEditor [3]).run toyEnv [.key keyJ, .key keyJ, .key keyJ, .key keyJ,
      .key keyHome, .startSelecting, .jump 3, .jump 2, .jump 1, .jump 0] = .ok e0 ∧ e0.state = .selecting s ∧
      s.sel = .phrase p ∧ (p.begin_, p.end_, p.orig) = (0, 1, 0) := ⟨_, _, _, rfl, rfl, rfl, rfl⟩
  have := ok_unique he0 he
  subst this
  exact ⟨_, s, p, he, hi, h1, h2, h3⟩

/-- the candidate list of that history really opens (so `PhraseSelector::init` is exercised) -/
example : ∃ e' s, (stdEditor [3]).run toyEnv [.key keyJ, .key keyJ, .startSelecting] = .ok e' ∧ e'.state = .selecting s :=
  ⟨_, _, rfl, rfl⟩

end Chewing.C01
