import Chewing.Proofs.C01Apply
import Chewing.Proofs.C01Conv
/-!
# C01 — no call sequence, key or configuration can crash or hang the engine

Over the executable editor model (`Model/Editor.lean`: every `unwrap` / `expect` / index / slice / `assert!`
/ checked-arithmetic site of `src/editor/mod.rs`, `selection/{phrase,symbol}.rs`, `composition_editor.rs`
and `conversion/mod.rs` is a value `Outcome.panic site`, every loop takes fuel and reports
`Outcome.outOfFuel`) "crash" = `.panic _`, "hang" = `.outOfFuel`.

## What is proved (for EVERY environment `env` satisfying the explicit hypotheses `EnvOK env G`)

* **`theorem C01 : C01_full`** — the property as worded, no exclusion: from every state satisfying the safety
  invariant (`SafeInv`; `initial_safe`: a fresh editor does) EVERY history of valid public operations returns — no
  panic, no exhausted fuel.  `C01_step` is the one-operation form (from every such state EVERY operation
  returns and the invariant holds again), `no_panic` / `no_hang` restate it in the words of the property,
  `C01_reachable`: from every state reachable from a fresh editor every operation returns.
  Until the `fix:` commits 43e8036 / 0f255ea / ce48759 this was refuted by the findings F02 and F03 (a buffered
  syllable without a word: `shortest_path(..).unwrap()`, the `debug_assert!` of `PhraseSelector::init`, the endless
  loop of `PhraseSelector::next`); the former witnesses are kept as `f02_history_repaired`,
  `f03_history_repaired`, `f03_hang_repaired`: the syllable is now shown as its spelling, a list without
  candidates is not opened.
* `EditorInv env G w` — the reachable-state invariant in two strengths.  `w = False` (`SafeInv`): composition
  invariant of C04 (`CompInv`, one character per selected symbol, selections over syllables only), `cursor ≤ len`
  (C05), `candidates_per_page > 0`, well-formed symbol tables, and for an open candidate list: the phrase
  selector's range is a non-empty run of syllables inside the buffer, anchored at the position the list was
  opened at, and its composition is the editor's; a replacing symbol list sits on a non-syllable symbol.
  `w = True` adds: every buffered syllable has a word under every active lookup strategy (the engine's, the
  editor's, an open selector's) and prefix lookup only together with the prefix engine — no longer needed for
  safety; it is what the one-character-per-symbol statements of C02 / C05 / C18 rest on.
* `word_clause_kept` / `C01_partial_run` — the strength-`True` invariant is kept by every operation outside the
  class `Known` (the word-losing operations: `unlearn_phrase` / `set_editor_options` / `set_conversion_engine` after
  which some buffered syllable has no word under an active strategy); `f02_switch_loses_word`: the class is not
  empty.  `C01_plain_histories`: keys, `select(n)`, start / cancel selecting, jumps, `commit`, `clear`, `ack`,
  layout switches and `learn_phrase` are never in it.
* `selector_loops_terminate`, `init_terminates`, `jump_never_panics` — fuel sufficiency of every selector loop,
  with the reason each makes progress; none needs a dictionary hypothesis any more.
* `f41_history_repaired` — finding F41 (found by the first proof attempt, confirmed as an abort on the real C API,
  repaired by a `fix:` commit).

## Coverage

Every key event (all key codes / modifiers / options) in ALL four states — `Entering`, `EnteringSyllable`,
`Highlighting`, and `Selecting` with a phrase list, a special-symbol list or a symbol table (`Selecting::next`:
paging, Down/Space with `PhraseSelector::next` — a bounded loop that stays on its range when no range has a
phrase —, j/k with `retarget` + closing a list without candidates, digits with `Selecting::select`: the chosen
phrase is a valid selection; `SymbolSelector::{menu,select}` index only existing tables) — including the keys
that open a candidate list (`open_phrase`: `PhraseSelector::init` terminates, a list without candidates is not
opened), auto-commit and the dictionary flush; and every other entry point in every state: `select(n)`,
`start_selecting`, `cancel_selecting`, `commit`, `clear`, `ack`, `clear_syllable_editor`, `set_editor_options`,
`set_syllable_editor`, `set_conversion_engine`, `learn_phrase`, `unlearn_phrase` (the last four end with
`revalidate_selecting`), and `jump_to_{first,last,next,prev}_selection_point` in every state.  Outside the
theorems: the C glue `capi/src/io.rs` (correspondence of the Rust API per step and the C-API crash campaign).
The symbol tables enter through the hypothesis `SymWF`, part of `EditorInv`.

The conversion engines enter through `EnvOK.convert_ok` (on EVERY valid composition every engine returns at least
one alternative, each a chain over `0..len` with at least one character per symbol) and `EnvOK.convert_len`
(exactly one character per symbol when every syllable has a word): C03's `nonempty_result` + `alt_chain` +
`text_at_least_one_per_symbol` + `one_char_per_symbol`; `compValid_of_cinv` proves that `EditorInv` implies
C03's `CompValid`, and `engines_satisfy_convert_ok` that C03's engine model satisfies both (buffers ≤ 128 symbols).
-/
namespace Chewing.C01
open Chewing Chewing.C04 Chewing.C05 Chewing.C06

variable {D L : Type} {env : Env D L} {G : D → Prop} {w : Prop}

/-- the safety invariant: the reachable-state invariant without the clause "every buffered syllable has a word" -/
abbrev SafeInv (env : Env D L) (G : D → Prop) (e : Editor D L) : Prop := EditorInv env G False e

/-- the safety invariant is the word-free part of the full one -/
theorem EditorInv.safe {e : Editor D L} (h : EditorInv env G w e) : SafeInv env G e := by
  refine ⟨h.sh.safe, ?_⟩
  have hst := h.st
  cases hs : e.state with
  | selecting s =>
    rw [hs] at hst
    obtain ⟨h1, h2⟩ := hst
    refine ⟨?_, h2⟩
    split
    · next p hp => rw [hp] at h1; exact ⟨h1.com, h1.lt, h1.le, h1.syl, fun hw => hw.elim, h1.anchor⟩
    · next y hp => rw [hp] at h1; exact h1
    · next sym hp => rw [hp] at h1; exact h1
  | entering => trivial
  | enteringSyllable => trivial
  | highlighting m => trivial

/-- **C01, one operation — no exclusion.**  From every state satisfying the safety invariant EVERY public
    operation of the editor (`hv`: arguments the C layer validates) returns a value — no panic, fuel not
    exhausted — and the invariant holds again. -/
theorem C01_step (hE : EnvOK env G) (e : Editor D L) (op : Op L) (hi : SafeInv env G e) (hv : OpValid op) :
    ∃ e', e.apply env op = .ok e' ∧ SafeInv env G e' :=
  apply_ok hE hi op hv (fun hw => hw.elim)

/-- … in the words of the property: the call does not panic … -/
theorem no_panic (hE : EnvOK env G) (e : Editor D L) (op : Op L) (hi : SafeInv env G e) (hv : OpValid op)
    (site : String) : e.apply env op ≠ .panic site :=
  (apply_ok hE hi op hv (fun hw => hw.elim)).not_panic.1 site

/-- … and every loop finishes within the fuel the model supplies (linear in the buffer length) -/
theorem no_hang (hE : EnvOK env G) (e : Editor D L) (op : Op L) (hi : SafeInv env G e) (hv : OpValid op) :
    e.apply env op ≠ .outOfFuel :=
  (apply_ok hE hi op hv (fun hw => hw.elim)).not_panic.2

/-- **C01, every history — no exclusion** (induction over the history) -/
theorem C01_run (hE : EnvOK env G) (ops : List (Op L)) :
    ∀ e : Editor D L, SafeInv env G e → (∀ op ∈ ops, OpValid op) → ∃ e', e.run env ops = .ok e' ∧ SafeInv env G e' := by
  induction ops with
  | nil => intro e hi _; exact ⟨e, rfl, hi⟩
  | cons op ops ih =>
    intro e hi hv
    obtain ⟨e1, h1, hi1⟩ := C01_step hE e op hi (hv op (List.mem_cons_self ..))
    obtain ⟨e2, h2, hi2⟩ := ih e1 hi1 (fun o ho => hv o (List.mem_cons_of_mem _ ho))
    exact ⟨e2, by simp only [Editor.run]; rw [h1]; exact h2, hi2⟩

/-- the property as worded, over histories: from a state satisfying the safety invariant (a fresh editor does)
    NO sequence of (valid) public operations panics or hangs -/
def C01_full : Prop :=
  ∀ (D L : Type) (env : Env D L) (G : D → Prop), EnvOK env G → ∀ (e : Editor D L), SafeInv env G e →
    ∀ ops : List (Op L), (∀ op ∈ ops, OpValid op) → ∃ e', e.run env ops = .ok e'

/-- **C01** (full strength; refuted by F02 / F03 until the repair) -/
theorem C01 : C01_full := fun _ _ _ _ hE e hi ops hv => by
  obtain ⟨e', h, _⟩ := C01_run hE ops e hi hv
  exact ⟨e', h⟩

theorem ok_unique {α : Type} {r : Outcome α} {a b : α} (h1 : r = .ok a) (h2 : r = .ok b) : a = b :=
  Outcome.ok.inj (h1.symm.trans h2)

/-- states reachable from `e0` by valid public operations that returned -/
inductive Reachable (env : Env D L) (e0 : Editor D L) : Editor D L → Prop
  | init : Reachable env e0 e0
  | step {e e' : Editor D L} {op : Op L} : Reachable env e0 e → OpValid op → e.apply env op = .ok e' → Reachable env e0 e'

/-- **no panic and no hang for EVERY operation from EVERY reachable state, all histories** -/
theorem C01_reachable (hE : EnvOK env G) {e0 e : Editor D L} (h0 : SafeInv env G e0) (hr : Reachable env e0 e)
    (op : Op L) (hv : OpValid op) :
    SafeInv env G e ∧ (∃ e', e.apply env op = .ok e') ∧ (∀ site, e.apply env op ≠ .panic site) ∧ e.apply env op ≠ .outOfFuel := by
  have hi : SafeInv env G e := by
    induction hr with
    | init => exact h0
    | step _ hv' ha ih =>
      obtain ⟨e2, h2, hi2⟩ := C01_step hE _ _ ih hv'
      cases ok_unique h2 ha
      exact hi2
  obtain ⟨e', h, _⟩ := C01_step hE e op hi hv
  exact ⟨hi, ⟨e', h⟩, no_panic hE e op hi hv, no_hang hE e op hi hv⟩

/-! ## The stronger invariant (every buffered syllable has a word) and the operations that can lose it -/

/-- **the word clause is kept outside `Known`** (the former `C01_partial`): from a state satisfying the
    strength-`True` invariant an operation that is not word-losing re-establishes it.  `hk`: not in the class
    `Known` (F02 / F03 — no longer a crash class). -/
theorem word_clause_kept (hE : EnvOK env G) (e : Editor D L) (op : Op L) (hi : EditorInv env G True e) (hv : OpValid op)
    (hk : ¬ Known env e op) :
    ∃ e', e.apply env op = .ok e' ∧ EditorInv env G True e' :=
  apply_ok hE hi op hv (fun _ => hk)

/-- a history all of whose steps are valid and outside the word-losing class (evaluated along the run) -/
def Allowed (env : Env D L) : Editor D L → List (Op L) → Prop
  | _, [] => True
  | e, op :: ops => OpValid op ∧ ¬ Known env e op ∧ ∀ e', e.apply env op = .ok e' → Allowed env e' ops

/-- … over histories -/
theorem C01_partial_run (hE : EnvOK env G) (ops : List (Op L)) :
    ∀ e : Editor D L, EditorInv env G True e → Allowed env e ops → ∃ e', e.run env ops = .ok e' ∧ EditorInv env G True e' := by
  induction ops with
  | nil => intro e hi _; exact ⟨e, rfl, hi⟩
  | cons op ops ih =>
    intro e hi ha
    obtain ⟨hv, hk, hrest⟩ := ha
    obtain ⟨e1, h1, hi1⟩ := word_clause_kept hE e op hi hv hk
    obtain ⟨e2, h2, hi2⟩ := ih e1 hi1 (hrest e1 h1)
    exact ⟨e2, by simp only [Editor.run]; rw [h1]; exact h2, hi2⟩

/-- operations that can never be word-losing: key events (any code, any modifiers), `select(n)`,
    `start_selecting`, `cancel_selecting`, `commit`, `clear` (reset), `ack`, `clear_syllable_editor`,
    `set_syllable_editor` (keyboard-layout switch at any moment), `learn_phrase`, and the four
    `jump_to_*_selection_point` calls -/
def Plain : Op L → Prop
  | .key _ | .select _ | .startSelecting | .cancelSelecting | .commit | .clear | .ack | .clearSyl
  | .setLayout _ | .learn _ _ | .jump _ => True
  | _ => False

theorem allowed_of_plain (ops : List (Op L)) : ∀ e : Editor D L, (∀ op ∈ ops, Plain op) → Allowed env e ops := by
  induction ops with
  | nil => intro _ _; trivial
  | cons op ops ih =>
    intro e h
    have hp := h op (List.mem_cons_self ..)
    have hrest := fun e' (_ : e.apply env op = .ok e') => ih e' (fun o ho => h o (List.mem_cons_of_mem _ ho))
    cases op <;> first | exact ⟨trivial, fun hk => hk, hrest⟩ | exact absurd hp (fun hh => hh)

/-- histories of keys, candidate choices, jumps, commits, resets, layout switches and learn calls keep the
    word clause -/
theorem C01_plain_histories (hE : EnvOK env G) (e : Editor D L) (hi : EditorInv env G True e) (ops : List (Op L))
    (hp : ∀ op ∈ ops, Plain op) : ∃ e', e.run env ops = .ok e' ∧ EditorInv env G True e' :=
  C01_partial_run hE ops e hi (allowed_of_plain ops e hp)

/-- running a concatenation = running the parts one after the other -/
theorem run_append (env : Env D L) (ops1 : List (Op L)) : ∀ (ops2 : List (Op L)) (a b : Editor D L),
    a.run env ops1 = .ok b → a.run env (ops1 ++ ops2) = b.run env ops2 := by
  induction ops1 with
  | nil => intro ops2 a b h; simp only [Editor.run] at h; cases h; rfl
  | cons op ops ih =>
    intro ops2 a b h
    simp only [Editor.run, List.cons_append] at h ⊢
    cases ha : a.apply env op with
    | ok a1 => rw [ha] at h; exact ih ops2 a1 b h
    | panic p => rw [ha] at h; cases h
    | outOfFuel => rw [ha] at h; cases h

/-- a fresh editor (empty buffer, any dictionary that is well formed, any layout; coupled options for the
    strength that carries the word clause) satisfies the invariant -/
theorem initial_inv (sh : Shared D L) (hg : G sh.dict) (hcom : sh.com = {})
    (hcp : w → sh.options.lookupStrategy = .fuzzyPartialPrefix → engStrategy sh.engine = .fuzzyPartialPrefix)
    (hpp : 0 < sh.options.candidatesPerPage) (hsym : SymWF sh.symSel) :
    EditorInv env G w { shared := sh, state := .entering } := by
  refine ⟨⟨hg, hcom ▸ cedInv_new, ?_, hcp, hpp, hsym⟩, trivial⟩
  intro _ c hc
  rw [hcom] at hc
  cases hc

/-- … in particular the safety invariant, whatever the options -/
theorem initial_safe (sh : Shared D L) (hg : G sh.dict) (hcom : sh.com = {})
    (hpp : 0 < sh.options.candidatesPerPage) (hsym : SymWF sh.symSel) :
    SafeInv env G { shared := sh, state := .entering } :=
  initial_inv sh hg hcom (fun hw => hw.elim) hpp hsym

/-- **link to C03**: the engine model of C03 (all three engines, any in-range pick oracle) satisfies the
    hypotheses `EnvOK.convert_ok` / `EnvOK.convert_len` the theorems above make about `env.convert`, on buffers of
    at most 128 symbols over dictionaries with frequencies ≤ 2^23 (`ScoreBound`): a result on EVERY valid
    composition none of whose syllables has the empty spelling (`SpellNonempty`: every syllable but the code 0) … -/
theorem engines_satisfy_convert_ok {pick : Nat → List Conv.Path → Nat} (hp : Conv.PickInRange pick) {d : Dict}
    (hw : Conv.WellFormed d) (hf : ∀ strat key, ∀ p ∈ d.lookup key strat, p.freq ≤ 8388608)
    (k : EngineKind) {c : Composition} (hi : CInv c) (hlen : c.symbols.length ≤ 128) (hn : Conv.SpellNonempty c) :
    OkAnd (fun paths => paths ≠ [] ∧ ∀ p ∈ paths, PathW c p) (Conv.convert pick (toEngine k) d c) :=
  convert_ok_of_C03 hp hw hf k (compValid_of_cinv hi) hlen hn

/-- … with one character per symbol when every syllable has a word under the engine's strategy -/
theorem engines_satisfy_convert_len {pick : Nat → List Conv.Path → Nat} {d : Dict} (hw : Conv.WellFormed d)
    (k : EngineKind) {c : Composition} (hi : CInv c)
    (hword : ∀ x, Sym.syl x ∈ c.symbols → (d.lookup [x] (engStrategy k)).head?.isSome = true)
    {paths : List (List Interval)} (hq : Conv.convert pick (toEngine k) d c = .ok paths) :
    ∀ p ∈ paths, ∀ iv ∈ p, iv.text.length = iv.stop - iv.start :=
  convert_len_of_C03 hw k (compValid_of_cinv hi) hword hq

/-- **`jump_to_{first,last,next,prev}_selection_point`** (`chewing_cand_list_*`) never panic or hang and keep
    the invariant, in every state — also on an open phrase list (`Proofs/C01Jump.lean`: the searches stay on
    the run of syllables around the position the list was opened at; fuel sufficiency: every round of
    `next_selection_point` shortens the range, every round of `prev_selection_point` moves one symbol
    towards an end of the buffer, `jump_to_last` shortens the range in every round) -/
theorem jump_never_panics (e : Editor D L) (hi : EditorInv env G w e) (which : Nat) :
    ∃ e' okk, e.jump env which = .ok (e', okk) ∧ EditorInv env G w e' := by
  obtain ⟨⟨e', b⟩, hq, h1⟩ := jump_api_ok hi which
  exact ⟨e', b, hq, h1⟩

/-- **the selector loops terminate — fuel sufficiency, with the reason each loop makes progress.**  For a
    selector whose range is a non-empty run of syllables inside its buffer (`RangeOK`), over ANY dictionary:
    * `PhraseSelector::next` (Down / Space on the last page) is a bounded loop (`len` rounds): every round moves to
      a range that is again a non-empty run of syllables (one symbol shorter, or — wrapping around — up to the
      break point); it ends at the first range with a phrase, or stays on the range it started from (`next_ok`;
      before the F03 repair the loop was unbounded and span forever when no range had a phrase);
    * `next_selection_point` returns within `len + 2` rounds: every round shortens the range, a one-symbol
      range ends the search;  `prev_selection_point` likewise: every round moves the free end one symbol
      towards the end / beginning of the buffer, where the search ends;
    * `jump_to_last_selection_point` returns within `len + 2` rounds: every round strictly shortens the range. -/
theorem selector_loops_terminate (d : D) (s : PhraseSel) (hr : RangeOK s) :
    (∃ s', PhraseSel.next env s d = .ok s' ∧ RangeOK s') ∧
    (∃ r, PhraseSel.nextSelectionPoint env s d = .ok r) ∧ (∃ r, PhraseSel.prevSelectionPoint env s d = .ok r) ∧
    (∃ s', PhraseSel.jumpToLast env s d = .ok s' ∧ RangeOK s') := by
  refine ⟨?_, ?_, ?_, ?_⟩
  · obtain ⟨s', hq, hp⟩ := next_ok (env := env) d s hr; exact ⟨s', hq, hp.range⟩
  · obtain ⟨r, hq, _⟩ := nextSelectionPoint_ok (env := env) d s hr; exact ⟨r, hq⟩
  · obtain ⟨r, hq, _⟩ := prevSelectionPoint_ok (env := env) d s hr; exact ⟨r, hq⟩
  · obtain ⟨s', hq, hp⟩ := jumpToLast_ok (env := env) d s hr; exact ⟨s', hq, hp.range⟩

/-- **`PhraseSelector::init` terminates** (opening a list, `j` / `k`, `chewing_cand_list_first`) at a syllable
    inside the buffer, over ANY dictionary: the shrinking loop makes progress by one symbol per round and stops
    at the latest at the single syllable under the cursor — with or without a word for it (F02 / F03 repair: it
    used to run into `debug_assert!(!syllables.is_empty())`); the fuel `len + 2` suffices.  The range returned is
    a non-empty run of syllables around the cursor. -/
theorem init_terminates (forward : Bool) (strategy : Strategy) (com : Composition) (cursor : Nat) (d : D)
    (hlt : cursor < com.symbols.length) (hsyl : ∃ k, com.symbols[cursor]? = some (Sym.syl k)) :
    ∃ p, PhraseSel.init env forward strategy com cursor d = .ok p ∧ p.com = com ∧ RangeOK p ∧ p.orig = cursor ∧
      p.begin_ ≤ cursor ∧ cursor < p.end_ := by
  obtain ⟨p, hq, p1, _, p3, p4, p5, p6, p7, p8⟩ := init_ok (env := env) forward strategy com cursor d hlt hsyl
  refine ⟨p, hq, p1, ⟨p3, by rw [p1]; exact p4, by rw [p1]; exact p5⟩, p8, ?_, ?_⟩
  · cases hf : p.forward with
    | true => have := p6.fw hf; omega
    | false => have := p6.rw hf; omega
  · cases hf : p.forward with
    | true => have := p6.fw hf; omega
    | false => have := p6.rw hf; omega

/-! ## The former refutation (F02, F03) in a small environment that satisfies `EnvOK`: repaired -/

/-- one interval per symbol; a syllable without a word (`has = false`) is shown as a two-character "spelling" -/
def singles (has : Sym → Bool) : List Sym → Nat → List Interval
  | [], _ => []
  | s :: r, i =>
    { start := i, stop := i + 1, isPhrase := s.isSyl,
      text := (match s with | .syl x => if has s then [x] else [x, x] | .chr x => [x]) } :: singles has r (i + 1)

theorem singles_chain (has : Sym → Bool) (l : List Sym) : ∀ i, Conv.IvChain i (i + l.length) (singles has l i) := by
  induction l with
  | nil => intro i; simp [singles, Conv.IvChain]
  | cons s r ih =>
    intro i
    refine ⟨rfl, by show i < i + 1; omega, ?_⟩
    have := ih (i + 1)
    simp only [List.length_cons]
    rw [show i + (r.length + 1) = i + 1 + r.length by omega]
    exact this

theorem singles_ge (has : Sym → Bool) (l : List Sym) : ∀ i, ∀ iv ∈ singles has l i, iv.stop - iv.start ≤ iv.text.length := by
  induction l with
  | nil => intro i iv h; cases h
  | cons s r ih =>
    intro i iv h
    simp only [singles, List.mem_cons] at h
    rcases h with rfl | h
    · show i + 1 - i ≤ _
      cases s with
      | syl x => dsimp only; split <;> simp
      | chr x => simp
    · exact ih (i + 1) iv h

theorem singles_text (has : Sym → Bool) (l : List Sym) (hall : ∀ s ∈ l, has s = true) :
    ∀ i, ∀ iv ∈ singles has l i, iv.text.length = iv.stop - iv.start := by
  induction l with
  | nil => intro i iv h; cases h
  | cons s r ih =>
    intro i iv h
    simp only [singles, List.mem_cons] at h
    rcases h with rfl | h
    · show _ = i + 1 - i
      cases s with
      | syl x => dsimp only; rw [if_pos (hall _ (List.mem_cons_self ..))]; simp
      | chr x => simp
    · exact ih (fun s hs => hall s (List.mem_cons_of_mem _ hs)) (i + 1) iv h

/-- dictionary = the syllables that have a word; syllable `0` is a *partial* syllable: it has a word by
    prefix matching only -/
def toyLookup (d : List Nat) (k : List Nat) (s : Strategy) : List Phrase :=
  match k with
  | [c] => if d.contains c || (s == .fuzzyPartialPrefix && c == 0) then [{ text := [c], freq := 1 }] else []
  | _ => []

def toyHas (d : List Nat) (k : EngineKind) : Sym → Bool
  | .syl x => (toyLookup d [x] (engStrategy k)).head?.isSome
  | .chr _ => true

/-- layout: key 32 types the partial syllable `0`, key 33 the syllable `3` (two key presses each) -/
def toyEnv : Env (List Nat) Nat where
  lookupAll := toyLookup
  userLookupAll := toyLookup
  addPhrase d _ _ := some d
  updatePhrase d _ _ _ _ := d
  removePhrase d k _ := match k with
    | [c] => d.erase c
    | _ => d
  reopenFlush d := d
  convert k d c := .ok [singles (toyHas d k) c.symbols 0]
  estimate _ f _ := .ok f
  keyPress l ev := if l == 0 then (if ev.code == 32 then (.absorb, 1) else if ev.code == 33 then (.absorb, 4) else (.keyError, 0))
                   else (.commit, l)
  fuzzyKeyPress l ev := if l == 0 then (if ev.code == 32 then (.absorb, 1) else if ev.code == 33 then (.absorb, 4) else (.keyError, 0))
                        else (.commit, l)
  removeLast _ := 0
  clearSyl _ := 0
  sylIsEmpty l := l == 0
  read l := l - 1
  altSyllables _ _ := []

theorem toyLookup_mem {d : List Nat} {k : List Nat} {s : Strategy} {p : Phrase} (h : p ∈ toyLookup d k s) :
    p.text.length = k.length := by
  unfold toyLookup at h
  split at h
  · split at h
    · simp only [List.mem_cons, List.not_mem_nil, or_false] at h; subst h; rfl
    · cases h
  · cases h

theorem toyEnv_ok : EnvOK toyEnv (fun _ => True) where
  wf := fun d _ k s p hp => toyLookup_mem hp
  std_fuzzy := by
    intro d c _ h
    have hf : (Strategy.standard == Strategy.fuzzyPartialPrefix) = false := rfl
    simp only [Env.hasPhrase, toyEnv, toyLookup] at h ⊢
    by_cases hc : c ∈ d
    · simp [hc]
    · simp [hc, hf] at h
  add_good := fun _ _ _ _ _ _ _ => trivial
  add_mono := by intro d k p d' h c s hh; simp only [toyEnv] at h; cases h; exact hh
  update_good := fun _ _ _ _ _ _ _ => trivial
  update_mono := fun _ _ _ _ _ _ _ hh => hh
  flush_good := fun _ _ => trivial
  flush_mono := fun _ _ _ hh => hh
  remove_good := fun _ _ _ _ => trivial
  convert_ok := by
    intro k d c _ _
    refine .ok ⟨by simp, ?_⟩
    intro p hp
    simp only [List.mem_cons, List.not_mem_nil, or_false] at hp
    subst hp
    refine ⟨?_, singles_ge _ _ 0⟩
    have := singles_chain (toyHas d k) c.symbols 0
    simpa using this
  convert_len := by
    intro k d c paths _ _ hw hq p hp
    simp only [toyEnv] at hq
    cases Outcome.ok.inj hq
    simp only [List.mem_cons, List.not_mem_nil, or_false] at hp
    subst hp
    refine singles_text _ _ ?_ 0
    intro x hx
    cases x with
    | syl y => exact hw y hx
    | chr y => rfl
  estimate_ok := fun _ f _ => ⟨f, rfl⟩

theorem symWF_empty : SymWF {} :=
  ⟨fun c h => (by cases h), fun n h => (by cases h), fun n i h => (by cases h)⟩

/-- a fresh editor over the dictionary `d` with the fuzzy engine and prefix lookup (what
    `chewing.conversion_engine = 2` configures) -/
def fuzzyEditor (d : List Nat) : Editor (List Nat) Nat :=
  { shared := { syl := 0, dict := d, engine := .fuzzy,
                options := { lookupStrategy := .fuzzyPartialPrefix, conversionEngine := .fuzzy } } }

/-- a fresh editor with the default (standard) engine -/
def stdEditor (d : List Nat) : Editor (List Nat) Nat := { shared := { syl := 0, dict := d } }

theorem fuzzyEditor_inv (d : List Nat) : EditorInv toyEnv (fun _ => True) w (fuzzyEditor d) :=
  initial_inv _ trivial rfl (fun _ _ => rfl) (by show (0 : Nat) < 10; omega) symWF_empty

theorem stdEditor_inv (d : List Nat) : EditorInv toyEnv (fun _ => True) w (stdEditor d) :=
  initial_inv _ trivial rfl (fun _ h => by cases h) (by show (0 : Nat) < 10; omega) symWF_empty

def keyH : KeyEvent := { index := 32, code := 32, unicode := 104 }
def keyJ : KeyEvent := { index := 33, code := 33, unicode := 106 }
def keyEnter : KeyEvent := { index := 50, code := KC.enter, unicode := 65533 }

def keyDown : KeyEvent := { index := 57, code := KC.down, unicode := 65533 }
def key1 : KeyEvent := { index := 1, code := KC.n1, unicode := 49 }

/-- **F02 repaired**: fuzzy engine, type the partial syllable `0`, switch to the standard engine, Enter.  Before
    the fix the conversion had no path (`shortest_path(..).unwrap()`, the process aborted); now the syllable
    without a word is shown — and committed — as its spelling (here the two-character text `[0, 0]`) -/
theorem f02_history_repaired :
    ∃ e, (fuzzyEditor []).run toyEnv [.key keyH, .key keyH, .setEngine .chewing, .key keyEnter] = .ok e ∧
      e.shared.commitBuf = [0, 0] ∧ e.shared.com.inner.symbols = [] ∧ e.state = .entering :=
  ⟨_, rfl, rfl, rfl, rfl⟩

/-- **F03 repaired**: type a syllable, remove its only word, Enter ⇒ committed as its spelling (formerly the same
    abort) -/
theorem f03_history_repaired :
    ∃ e, (stdEditor [3]).run toyEnv [.key keyJ, .key keyJ, .unlearn [3] [3], .key keyEnter] = .ok e ∧
      e.shared.commitBuf = [3, 3] ∧ e.shared.com.inner.symbols = [] :=
  ⟨_, rfl, rfl, rfl⟩

/-- **F03, the former hang and `debug_assert!`, repaired**: type a syllable, remove its only word, then Down
    (`PhraseSelector::init` at the word-less syllable: stays on it; the list has no candidates, so it is not
    opened: the key is ignored and nothing changes), `start_selecting` (refused the same way), and with the
    simple engine a list that is open when the word disappears is closed by `revalidate_selecting` -/
theorem f03_hang_repaired :
    (∃ e e', (stdEditor [3]).run toyEnv [.key keyJ, .key keyJ, .unlearn [3] [3]] = .ok e ∧
      e.processKey toyEnv keyDown = .ok (e', .ignore) ∧ e'.state = .entering ∧ e'.shared.com = e.shared.com ∧
      (e.startSelecting toyEnv).map (·.2) = .ok false) ∧
    (∃ e s e', (stdEditor [3]).run toyEnv [.setOptions { conversionEngine := .simple }, .key keyJ, .key keyJ] = .ok e ∧
      e.state = .selecting s ∧ e.run toyEnv [.unlearn [3] [3], .key keyDown, .key keyDown] = .ok e' ∧
      e'.state = .entering ∧ e'.shared.com.inner.symbols = [.syl 3]) :=
  ⟨⟨_, _, rfl, rfl, rfl, rfl, rfl⟩, ⟨_, _, _, rfl, rfl, rfl, rfl, rfl⟩⟩

/-- the selector itself on a buffer none of whose syllables has a word: `init` returns the one-syllable range at
    the cursor, `next` (formerly an endless loop) returns to the range it started from -/
theorem selector_on_wordless :
    ∃ p p', PhraseSel.init toyEnv true .standard { symbols := [.syl 3, .syl 3], gaps := [.begin, .normal] } 0 ([] : List Nat) = .ok p ∧
      (p.begin_, p.end_) = (0, 1) ∧ PhraseSel.next toyEnv { p with end_ := 2 } ([] : List Nat) = .ok p' ∧
      (p'.begin_, p'.end_) = (0, 2) :=
  ⟨_, _, rfl, rfl, rfl, rfl⟩

/-- the statement of C01 applied to the two former counter-examples: they are ordinary histories now -/
example : ∃ e', (fuzzyEditor []).run toyEnv [.key keyH, .key keyH, .setEngine .chewing, .key keyEnter] = .ok e' :=
  C01 _ _ toyEnv _ toyEnv_ok (fuzzyEditor []) (fuzzyEditor_inv []) _ (by intro op _; cases op <;> trivial)

theorem allowed_cons {e : Editor D L} {op : Op L} {ops : List (Op L)} (h1 : OpValid op) (h2 : ¬ Known env e op)
    (h4 : ∀ e', e.apply env op = .ok e' → Allowed env e' ops) : Allowed env e (op :: ops) :=
  ⟨h1, h2, h4⟩

theorem allowed_two_keys {e : Editor D L} {k1 k2 : KeyEvent} {rest : List (Op L)}
    (hr : ∀ e1 e2, e.apply env (.key k1) = .ok e1 → e1.apply env (.key k2) = .ok e2 → Allowed env e2 rest) :
    Allowed env e (.key k1 :: .key k2 :: rest) :=
  allowed_cons trivial (fun h => h) fun e1 he1 =>
    allowed_cons trivial (fun h => h) fun e2 he2 => hr e1 e2 he1 he2

/-- the engine switch of the F02 history is word-losing: the state right before it satisfies the invariant at
    strength `True`, and `Known` holds of the switch (so the class is not empty; the switch is nevertheless safe) -/
theorem f02_switch_loses_word :
    ∃ e, (fuzzyEditor []).run toyEnv [.key keyH, .key keyH] = .ok e ∧ EditorInv toyEnv (fun _ => True) True e ∧
      Known toyEnv e (.setEngine .chewing) := by
  obtain ⟨e, he, hi⟩ := C01_partial_run toyEnv_ok [.key keyH, .key keyH] (fuzzyEditor []) (fuzzyEditor_inv [])
    (allowed_two_keys (fun _ _ _ _ => trivial))
  refine ⟨e, he, hi, ?_⟩
  obtain ⟨e0, he0, hs0, hd0⟩ : ∃ e0, (fuzzyEditor []).run toyEnv [.key keyH, .key keyH] = .ok e0 ∧
      e0.shared.com.inner.symbols = [.syl 0] ∧ e0.shared.dict = [] := ⟨_, rfl, rfl, rfl⟩
  have := ok_unique he0 he
  subst this
  intro hk
  have h0 := hk.1 0 (by rw [hs0]; exact List.mem_cons_self ..)
  rw [hd0] at h0
  exact absurd h0 (by decide)

/-! ## Finding F41 (found by the proof attempt, confirmed on the real C API, repaired)

`jump_to_first_selection_point` re-runs `PhraseSelector::init` from the position `orig` the list was opened
at.  With the SIMPLE engine a typed syllable opens a single-word list; before the repair its `orig` was the
cursor *after* the syllable, so re-initialising there (backwards: `end = orig + 1`) made the range swallow
the symbol that follows the syllable — also a non-syllable.  The prefix look-up still found the syllable's
words, so choosing a candidate recorded a selection of ONE character over TWO symbols, one of them a
character: the composition left `CompValid` (C03's precondition; the F31 class), and the next conversion
with `ChewingEngine` aborted at `shortest_path(..).unwrap()` (`chewing_cand_list_first`,
`chewing_cand_choose_by_index(0)`, `chewing.conversion_engine = 1`, read the buffer).  The fix: commit makes
`init_single_word` record the position of the word, as `init` does; the model follows.  The former witness
history now keeps the selector on the syllable and the choice is a valid selection: -/

def keyA : KeyEvent := { index := 20, code := 20, unicode := 97 }
def keyHome : KeyEvent := { index := 58, code := KC.home, unicode := 65533 }
def keyDel : KeyEvent := { index := 51, code := KC.del, unicode := 65533 }

/-- buffer `[a]`, cursor 0, simple engine, type a syllable (single-word list opens),
    `jump_to_first_selection_point`, choose the first candidate: the range stays `[0, 1)` and the recorded
    selection is `0..1` with one character (before the repair: `[0, 2)` and a 1-character selection over 2 symbols) -/
theorem f41_history_repaired :
    ∃ e e' e'' s p, (stdEditor [3]).run toyEnv [.key keyJ, .key keyJ, .key keyA, .key keyHome, .key keyDel,
        .setOptions { conversionEngine := .simple }, .key keyJ, .key keyJ] = .ok e ∧
      e.shared.com.inner.symbols = [.syl 3, .chr 97] ∧
      e.apply toyEnv (.jump 0) = .ok e' ∧ e'.state = .selecting s ∧ s.sel = .phrase p ∧ p.begin_ = 0 ∧ p.end_ = 1 ∧
      e'.apply toyEnv (.select 0) = .ok e'' ∧
      e''.shared.com.inner.selections = [{ start := 0, stop := 1, isPhrase := true, text := [3] }] :=
  ⟨_, _, _, _, _, rfl, rfl, rfl, rfl, rfl, rfl, rfl, rfl, rfl⟩

/-! ## Non-vacuity: the hypotheses are satisfiable and the covered histories are not trivial -/

/-- a covered history that types a syllable with a word, opens its candidate list through the API,
    closes it again and commits: allowed, so by `C01_partial_run` it returns and keeps the invariant -/
example : ∃ e', (stdEditor [3]).run toyEnv [.key keyJ, .key keyJ, .startSelecting, .cancelSelecting, .commit] = .ok e' ∧
    EditorInv toyEnv (fun _ => True) True e' ∧ e'.shared.commitBuf = [3] := by
  obtain ⟨e', he, hi⟩ := C01_partial_run toyEnv_ok [.key keyJ, .key keyJ, .startSelecting, .cancelSelecting, .commit]
    (stdEditor [3]) (stdEditor_inv [3])
    (allowed_two_keys (fun _ e2 _ _ =>
      allowed_cons trivial (fun h => h) (fun e3 _ =>
        allowed_cons trivial (fun h => h) (fun e4 _ =>
          allowed_cons trivial (fun h => h) (fun _ _ => trivial)))))
  obtain ⟨e0, he0, hc0⟩ : ∃ e0, (stdEditor [3]).run toyEnv [.key keyJ, .key keyJ, .startSelecting, .cancelSelecting, .commit] = .ok e0 ∧
      e0.shared.commitBuf = [3] := ⟨_, rfl, rfl⟩
  have := ok_unique he0 he
  subst this
  exact ⟨_, he, hi, hc0⟩

/-- keys only: type a syllable, Down (opens the phrase list), Down again (`PhraseSelector::next`), `1`
    (chooses the first candidate: a selection is pushed), Enter: by `C01_plain_histories` -/
example : ∃ e', (stdEditor [3]).run toyEnv [.key keyJ, .key keyJ, .key keyDown, .key keyDown, .key key1, .key keyEnter] = .ok e' ∧
    EditorInv toyEnv (fun _ => True) True e' :=
  C01_plain_histories toyEnv_ok _ (stdEditor_inv [3]) _ (by intro op hop; simp only [List.mem_cons, List.not_mem_nil, or_false] at hop; rcases hop with rfl | rfl | rfl | rfl | rfl | rfl <;> trivial)

/-- … and that history does what it says: the list opens, the choice is recorded, Enter commits it -/
example : ∃ e1 s e2 e3, (stdEditor [3]).run toyEnv [.key keyJ, .key keyJ, .key keyDown] = .ok e1 ∧ e1.state = .selecting s ∧
    e1.run toyEnv [.key keyDown, .key key1] = .ok e2 ∧ e2.shared.com.inner.selections.length = 1 ∧
    e2.run toyEnv [.key keyEnter] = .ok e3 ∧ e3.shared.commitBuf = [3] :=
  ⟨_, _, _, _, rfl, rfl, rfl, rfl, rfl, rfl⟩

/-- the four jumps on an open phrase list (two syllables, cursor at the beginning: `init` shrinks 0..2 to 0..1,
    `prev_selection_point` searches up to the break point, `next_selection_point` / `jump_to_last` stop at the
    one-syllable range) are plain operations: by `C01_plain_histories` they return and keep the invariant; the
    list stays open on the syllable -/
example : ∃ e' s p, (stdEditor [3]).run toyEnv [.key keyJ, .key keyJ, .key keyJ, .key keyJ, .key keyHome, .startSelecting,
      .jump 3, .jump 2, .jump 1, .jump 0] = .ok e' ∧ EditorInv toyEnv (fun _ => True) True e' ∧
    e'.state = .selecting s ∧ s.sel = .phrase p ∧ (p.begin_, p.end_, p.orig) = (0, 1, 0) := by
  obtain ⟨e', he, hi⟩ := C01_plain_histories toyEnv_ok _ (stdEditor_inv [3])
    [.key keyJ, .key keyJ, .key keyJ, .key keyJ, .key keyHome, .startSelecting, .jump 3, .jump 2, .jump 1, .jump 0]
    (by intro op hop; simp only [List.mem_cons, List.not_mem_nil, or_false] at hop
        rcases hop with rfl | rfl | rfl | rfl | rfl | rfl | rfl | rfl | rfl | rfl <;> trivial)
  obtain ⟨e0, s, p, he0, h1, h2, h3⟩ : ∃ e0 s p, (stdEditor [3]).run toyEnv [.key keyJ, .key keyJ, .key keyJ, .key keyJ,
      .key keyHome, .startSelecting, .jump 3, .jump 2, .jump 1, .jump 0] = .ok e0 ∧ e0.state = .selecting s ∧
      s.sel = .phrase p ∧ (p.begin_, p.end_, p.orig) = (0, 1, 0) := ⟨_, _, _, rfl, rfl, rfl, rfl⟩
  have := ok_unique he0 he
  subst this
  exact ⟨_, s, p, he, hi, h1, h2, h3⟩

/-- the candidate list of that history really opens (so `PhraseSelector::init` is exercised) -/
example : ∃ e' s, (stdEditor [3]).run toyEnv [.key keyJ, .key keyJ, .startSelecting] = .ok e' ∧ e'.state = .selecting s :=
  ⟨_, _, rfl, rfl⟩

end Chewing.C01
