import Chewing.Proofs.EditorCommitHistory
import Chewing.Props.C06
import Chewing.Props.C03
import Chewing.Proofs.EditorLink
/-!
# C02 — What is committed is exactly what was displayed; no text is lost or invented

Model: `Chewing.Model.Editor` (validated per step against the real editor, harness `editor`).  All
theorems hold for EVERY environment `env` (dictionary, phonetic layout, conversion engine,
estimator).  Where characters have to be counted the hypothesis on the engine is explicit:
`ConvTiles env` (every alternative `env.convert` returns tiles the buffer with one character per
symbol — C03's theorem about the real engines), or the weaker `ConvHeadText env`.

Reading.

* *The pre-edit string shown immediately before* is `Shared.display env e.shared` of the editor state
  the key / call arrives in: the concatenated texts of alternative `nth` of the conversion of the
  composition, computed with the dictionary AS IT IS BEFORE the step (auto-learning runs between the
  conversion and the moment the commit buffer is filled; it changes the dictionary and nothing else —
  `learning_touches_dictionary_only`; the conversion is not recomputed afterwards).
* Rust panics and exhausted fuel of `env.convert` and of the dictionary propagate: every statement is
  conditional on the step returning `.ok`.
* *Leading part of the conversion of the full buffer*: the conversion at the moment the overflow is
  detected, i.e. of the buffer INCLUDING what the key just inserted, same `nth`, same dictionary.
  The buffer that remains is converted afresh afterwards and may be segmented differently; the
  property (and the theorems) speak about symbols and committed text, not about the new display.
* *Exactly when the key result says commit*: `commit_string_iff_result` is about key events
  (`process_keyevent` resets the commit buffer first).  The API calls do not reset it; what each of them
  does to the buffer is stated separately (`api_*`).
* *No text is lost or invented* over whole histories (section 5): every public operation is split into
  its editing part and its commit path (`editPart`, `emitted`, `accepted`); `step_accounts` says there are
  exactly three shapes of a step, `emitted_was_displayed` that emitted text is a leading part of the
  display of the edited buffer (or one directly committed key), `history_ledger` that over any operation
  list the characters of all commit strings plus the final pre-edit account for every accepted character.
* The tiling hypothesis is needed only AT the states where a commit path runs (`TilesAt`);
  `tilesAt_of_C03` derives it from C03's theorems with exactly C03's hypotheses (`CompValid`, `NoEmptyKey`,
  `WellFormed`, `HasWord` for the simple engine).  That editor histories reach only `CompValid`
  compositions with a word for every buffered syllable is C01's invariant `EditorInv`; the section
  "linked" at the end connects the two: `history_ledger_linked` has no tiling premise.
-/
namespace Chewing.C02
open Chewing Chewing.C06

variable {D L : Type} (env : Env D L)

/-! ## 0. learning is a frame for display -/

/-- **frame**: auto-learning changes the dictionary (and its dirty counter) only — never the
    composition, the chosen alternative, the engine, the options or the per-key buffers -/
theorem learning_touches_dictionary_only {sh sh' : Shared D L} {ivs : List Interval}
    (h : Shared.autoLearn env sh ivs = .ok sh') :
    sh'.com = sh.com ∧ sh'.nth = sh.nth ∧ sh'.engine = sh.engine ∧ sh'.options = sh.options ∧
    sh'.syl = sh.syl ∧ sh'.commitBuf = sh.commitBuf ∧ sh'.noticeBuf = sh.noticeBuf ∧ sh'.last = sh.last ∧
    sh'.time = sh.time ∧ sh'.abbr = sh.abbr ∧ sh'.symSel = sh.symSel :=
  ((autoLearn_frame env sh ivs).elim h).fields

/-- the same for one `learn_phrase` call (also the API `Editor::learn_phrase`) -/
theorem learnPhrase_touches_dictionary_only {sh sh' : Shared D L} {k : List Nat} {p : Text} {r : Bool}
    (h : Shared.learnPhrase env sh k p = .ok (sh', r)) :
    sh'.com = sh.com ∧ sh'.nth = sh.nth ∧ sh'.engine = sh.engine ∧ sh'.options = sh.options ∧
    sh'.syl = sh.syl ∧ sh'.commitBuf = sh.commitBuf ∧ sh'.noticeBuf = sh.noticeBuf ∧ sh'.last = sh.last ∧
    sh'.time = sh.time ∧ sh'.abbr = sh.abbr ∧ sh'.symSel = sh.symSel :=
  (LearnFrame.fields ((learnPhrase_frame env sh k p).elim h))

/-! ## 1. committing the whole pre-edit: commit string = display, buffer empty -/

/-- `SharedState::commit` (the Enter arm and the API both call it): the commit buffer is the display
    of the state it was called with; the pre-edit becomes empty (no symbols, no gaps, no selections,
    cursor 0), the alternative counter is reset, the result is *commit*; engine, options, phonetic
    buffer are untouched -/
theorem shared_commit_equals_display {sh sh' : Shared D L} (h : Shared.commit env sh = .ok sh') :
    Shared.display env sh = .ok sh'.commitBuf ∧
    sh'.com.symbols = [] ∧ sh'.com.inner = {} ∧ sh'.com.cursor = 0 ∧ sh'.com.isEmpty = true ∧
    sh'.nth = 0 ∧ sh'.last = .commit ∧
    sh'.engine = sh.engine ∧ sh'.options = sh.options ∧ sh'.syl = sh.syl ∧ sh'.noticeBuf = sh.noticeBuf := by
  obtain ⟨ivs, sh1, hc, hf, rfl⟩ := commit_spec env h
  obtain ⟨_, _, f3, f4, f5, _, f7, _⟩ := hf.fields
  refine ⟨?_, rfl, rfl, rfl, rfl, rfl, rfl, f3, f4, f5, f7⟩
  unfold Shared.display
  rw [hc]; rfl

/-- **which events reach the Enter arm**: in state `Entering`, every event whose key code is Enter — with
    any modifiers, any key index, any character — is ignored when the pre-edit is empty and runs
    `shared.commit()` otherwise -/
theorem enter_arm (sh : Shared D L) {ev : KeyEvent} (hk : ev.code = KC.enter) :
    enteringNext env sh ev = if sh.com.isEmpty then .ok (sh, .spin .ignore) else enteringEnter env sh :=
  enter_arm_aux env sh hk

/-- … and no other key commits a non-empty pre-edit as a whole: if a key reports *commit* from the
    state machine itself (not through the overflow path) while the pre-edit is non-empty, it is Enter
    and the step is `shared.commit()` -/
theorem whole_commit_only_by_enter {sh sh' : Shared D L} {ev : KeyEvent}
    (h : enteringNext env sh ev = .ok (sh', .spin .commit)) (hne : sh.com.isEmpty = false) :
    ev.code = KC.enter ∧ Shared.commit env sh = .ok sh' := by
  rcases cshape_enteringNext env sh ev sh' _ h with ⟨hn, _⟩ | ⟨_, ⟨he, _⟩ | hw⟩
  · exact absurd rfl hn
  · rw [hne] at he; cases he
  · exact hw

/-- **C02, whole-buffer commit by key.**  State `Entering`, non-empty pre-edit, key Enter (any
    modifiers): if the step returns at all it reports *commit*, the commit string is exactly the
    pre-edit string displayed immediately before (`display` of the state the key arrived in: same
    composition, same `nth`, dictionary before learning), and the pre-edit is empty afterwards. -/
theorem commit_equals_display {e e' : Editor D L} {ev : KeyEvent} {b : KB}
    (hs : e.state = .entering) (hne : e.shared.com.isEmpty = false) (hk : ev.code = KC.enter)
    (h : e.processKey env ev = .ok (e', b)) :
    b = .commit ∧ Shared.display env e.shared = .ok e'.shared.commitBuf ∧
    e'.shared.com.symbols = [] ∧ e'.shared.com.cursor = 0 ∧ e'.shared.com.inner = {} ∧
    e'.state = .entering ∧ e'.shared.nth = 0 := by
  rw [processKey_eq, dispatch_entering env ev hs, enter_arm env _ hk] at h
  have hne' : (preamble e.shared).com.isEmpty = false := hne
  rw [hne'] at h
  simp only [Bool.false_eq_true, if_false] at h
  unfold enteringEnter at h
  cases hc : Shared.commit env (preamble e.shared) with
  | ok sh1 =>
    rw [hc] at h
    simp only [Outcome.map, applyTrans] at h
    obtain ⟨hd, hsym, hin, hcur, _, hnth, hlast, _⟩ := shared_commit_equals_display env hc
    obtain ⟨hst, hcase⟩ := tail_spec env h
    rcases hcase with ⟨hsh, hb, _⟩ | ⟨_, habs, _⟩
    · obtain ⟨f1, f2, _, f4, _⟩ := flush_fields env { sh1 with last := KB.commit }
      rw [display_preamble] at hd
      refine ⟨hb, ?_, ?_, ?_, ?_, hst, ?_⟩
      · rw [hsh, f1]; exact hd
      · rw [hsh, f2]; exact hsym
      · rw [hsh, f2]; exact hcur
      · rw [hsh, f2]; exact hin
      · rw [hsh, f4]; exact hnth
    · cases habs
  | panic p => rw [hc] at h; simp [Outcome.map] at h
  | outOfFuel => rw [hc] at h; simp [Outcome.map] at h

/-- **C02, whole-buffer commit by call** (`Editor::commit` = `chewing_commit_preedit_buf`): the call
    succeeds exactly in state `Entering` with a non-empty pre-edit; then the commit string is the
    pre-edit string displayed immediately before and the pre-edit is empty; when it fails nothing
    changes -/
theorem commit_equals_display_api {e e' : Editor D L} {r : Bool} (h : e.commit env = .ok (e', r)) :
    (r = true ↔ (e.state = .entering ∧ e.shared.com.isEmpty = false)) ∧
    (r = false → e' = e) ∧
    (r = true → Shared.display env e.shared = .ok e'.shared.commitBuf ∧
      e'.shared.com.symbols = [] ∧ e'.shared.com.cursor = 0 ∧ e'.shared.com.inner = {} ∧
      e'.state = .entering ∧ e'.shared.nth = 0 ∧ e'.shared.last = .commit) := by
  unfold Editor.commit at h
  split at h
  · rename_i hc
    injection h with h; injection h with h1 h2; subst h1 h2
    refine ⟨⟨(fun c => by cases c), fun ⟨c1, c2⟩ => ?_⟩, fun _ => rfl, (fun c => by cases c)⟩
    rw [c1, c2] at hc; simp at hc
  · rename_i hc
    have hst : e.state = .entering := by
      cases hs : e.state <;> simp [hs] at hc ⊢
    have hne : e.shared.com.isEmpty = false := by
      cases he : e.shared.com.isEmpty <;> simp [he] at hc ⊢
    split at h
    · rename_i sh hq
      injection h with h; injection h with h1 h2; subst h1 h2
      obtain ⟨hd, hsym, hin, hcur, _, hnth, hlast, _⟩ := shared_commit_equals_display env hq
      exact ⟨⟨fun _ => ⟨hst, hne⟩, fun _ => rfl⟩, (fun c => by cases c),
        fun _ => ⟨hd, hsym, hcur, hin, hst, hnth, hlast⟩⟩
    · cases h
    · cases h

/-! ## 2. overflow: the auto-commit pushes out a least leading part of the conversion -/

/-- **the loop of `try_auto_commit`, characterised by induction over the interval list**: it returns
    the concatenated texts and the summed lengths of the first `k` intervals, `k` being the least
    number of leading intervals whose removal brings the length to `≤ threshold`, or all of them -/
theorem auto_commit_take (len thr : Nat) (ivs : List Interval) (buf' : Text) (remove' : Nat) (hpre : thr < len)
    (h : Shared.autoCommitTake len thr ivs [] 0 = .ok (buf', remove')) :
    ∃ k, k ≤ ivs.length ∧ (ivs = [] ∨ 0 < k) ∧
      buf' = textOf (ivs.take k) ∧ remove' = sumLen (ivs.take k) ∧ remove' ≤ len ∧
      (∀ j, j < k → thr < len - sumLen (ivs.take j)) ∧
      (k = ivs.length ∨ len - remove' ≤ thr) := by
  obtain ⟨k, h1, h2, h3, h4, h5, h6, h7, _⟩ := autoCommitTake_spec len thr ivs [] 0 buf' remove' (by omega) h
  simp only [List.nil_append, Nat.zero_add] at h3 h4 h6
  exact ⟨k, h1, h2, h3, h4, h5, h6, h7⟩

/-- **C02, overflow.**  When the buffer exceeds the threshold, `try_auto_commit` commits the texts of the
    first `k` intervals of the conversion of the FULL buffer (in order), `k` least such that the rest
    fits (or all intervals); exactly the symbols those intervals cover are removed from the front,
    the rest keeps its order; the result is *commit*; dictionary, engine, `nth`, options are untouched -/
theorem auto_commit_prefix {sh sh' : Shared D L} (h : Shared.tryAutoCommit env sh = .ok sh')
    (hlen : sh.options.autoCommitThreshold < sh.com.len) :
    ∃ ivs k, Shared.conversion env sh = .ok ivs ∧ k ≤ ivs.length ∧ (ivs = [] ∨ 0 < k) ∧
      sh'.commitBuf = textOf (ivs.take k) ∧
      sumLen (ivs.take k) ≤ sh.com.len ∧
      sh'.com.symbols = sh.com.symbols.drop (sumLen (ivs.take k)) ∧
      sh'.com.cursor = sh.com.cursor - sumLen (ivs.take k) ∧
      (∀ j, j < k → sh.options.autoCommitThreshold < sh.com.len - sumLen (ivs.take j)) ∧
      (k = ivs.length ∨ sh.com.len - sumLen (ivs.take k) ≤ sh.options.autoCommitThreshold) ∧
      sh'.last = .commit ∧ sh'.nth = sh.nth ∧ sh'.dict = sh.dict ∧ sh'.engine = sh.engine ∧
      sh'.options = sh.options := by
  obtain ⟨ivs, k, com, hc, hk, hpos, hrf, rfl, hle, hmin, hfin⟩ := tryAutoCommit_spec env h hlen
  obtain ⟨_, hsym, hcur, _⟩ := C05.remove_front_frame sh.com _ com hrf
  exact ⟨ivs, k, hc, hk, hpos, rfl, hle, hsym, hcur, hmin, hfin, rfl, rfl, rfl, rfl, rfl⟩

/-- the committed text is a leading part of what `display` would have shown for the full buffer -/
theorem auto_commit_prefix_of_display {sh sh' : Shared D L} (h : Shared.tryAutoCommit env sh = .ok sh')
    (hlen : sh.options.autoCommitThreshold < sh.com.len) :
    ∃ rest, Shared.display env sh = .ok (sh'.commitBuf ++ rest) := by
  obtain ⟨ivs, k, hc, _, _, hb, _⟩ := auto_commit_prefix env h hlen
  refine ⟨textOf (ivs.drop k), ?_⟩
  unfold Shared.display
  rw [hc, hb]
  simp only [Outcome.map, textOf, ← List.flatMap_append, List.take_append_drop]

/-- under the tiling hypothesis AT THE OVERFLOWING STATE (what C03 proves for a valid composition and a
    well-formed dictionary, `tilesAt_of_C03`): **characters committed + characters remaining = characters
    before** (the buffer including what was just typed), the committed text is non-empty, and the
    remaining buffer fits the threshold -/
theorem auto_commit_conserves_at {sh sh' : Shared D L} (hT : TilesAt env sh)
    (h : Shared.tryAutoCommit env sh = .ok sh') (hlen : sh.options.autoCommitThreshold < sh.com.len) :
    sh'.commitBuf.length + sh'.com.len = sh.com.len ∧ sh'.commitBuf ≠ [] ∧
    sh'.com.len ≤ sh.options.autoCommitThreshold := by
  obtain ⟨ivs, k, hc, hk, hpos, hb, hle, hsym, _, _, hfin, _⟩ := auto_commit_prefix env h hlen
  have ht : Tiles 0 sh.com.len ivs := hT.conversion env hc
  obtain ⟨t1, t2⟩ := ht.take k
  have hrem : sh'.com.len = sh.com.len - sumLen (ivs.take k) := by
    rw [len_eq, show sh'.com.inner.symbols = sh'.com.symbols from rfl, hsym, List.length_drop]; rfl
  have hkpos : 0 < k := by
    rcases hpos with rfl | hpos
    · simp [Tiles] at ht; omega
    · exact hpos
  refine ⟨by rw [hb, t1, hrem]; omega, by rw [hb]; exact ht.take_text_ne (by omega) hkpos, ?_⟩
  rw [hrem]
  rcases hfin with rfl | hfin
  · rw [List.take_length]
    have := ht.total.1
    omega
  · exact hfin

/-- the same for an engine that tiles every composition -/
theorem auto_commit_conserves (hT : ConvTiles env) {sh sh' : Shared D L}
    (h : Shared.tryAutoCommit env sh = .ok sh') (hlen : sh.options.autoCommitThreshold < sh.com.len) :
    sh'.commitBuf.length + sh'.com.len = sh.com.len ∧ sh'.commitBuf ≠ [] ∧
    sh'.com.len ≤ sh.options.autoCommitThreshold :=
  auto_commit_conserves_at env (hT.tilesAt env sh) h hlen

/-- **bounded_after_autocommit**: whatever the length was, after `try_auto_commit` the buffer fits the
    threshold (with a tiling engine) -/
theorem bounded_after_autocommit (hT : ConvTiles env) {sh sh' : Shared D L}
    (h : Shared.tryAutoCommit env sh = .ok sh') : sh'.com.len ≤ sh.options.autoCommitThreshold := by
  by_cases hlen : sh.com.len ≤ sh.options.autoCommitThreshold
  · rw [tryAutoCommit_noop env hlen] at h
    cases h; exact hlen
  · exact (auto_commit_conserves env hT h (by omega)).2.2

/-! ## 3. a commit string is available exactly when the key result says *commit* -/

/-- weakest hypothesis on the engine for "a commit carries text": the first interval of every
    alternative for a non-empty composition has non-empty text -/
def ConvHeadText (env : Env D L) : Prop :=
  ∀ (k : EngineKind) (d : D) (c : Composition) (paths : List (List Interval)),
    env.convert k d c = .ok paths → c.symbols ≠ [] → ∀ p ∈ paths, ∃ iv rest, p = iv :: rest ∧ iv.text ≠ []

theorem ConvTiles.headText (hT : ConvTiles env) : ConvHeadText env := by
  intro k d c paths hp hne p hmem
  have ht := hT k d c paths hp p hmem
  cases p with
  | nil =>
    simp only [Tiles] at ht
    exact absurd (List.length_eq_zero_iff.mp ht.symm) hne
  | cons iv rest =>
    refine ⟨iv, rest, rfl, ?_⟩
    obtain ⟨h1, h2, h3, _⟩ := ht
    intro hc; rw [hc] at h3; simp at h3; omega

/-- the state machine part of a key, by the way it leaves the commit buffer:
    nothing committed and the buffer empty; or (state `Entering` only) one character committed with an
    empty pre-edit; or (state `Entering`, key Enter) `shared.commit()` -/
theorem dispatch_shape {e : Editor D L} {ev : KeyEvent} {sh : Shared D L} {st : St}
    (h : dispatch env e ev = .ok (sh, st)) :
    (sh.last ≠ .commit ∧ sh.commitBuf = []) ∨
    (sh.last = .commit ∧ e.state = .entering ∧ st = .entering ∧
      ((e.shared.com.isEmpty = true ∧ sh.com = e.shared.com ∧ ∃ ch, DirectChar ev ch ∧ sh.commitBuf = [ch]) ∨
       (ev.code = KC.enter ∧ e.shared.com.isEmpty = false ∧ Shared.commit env (preamble e.shared) = .ok sh))) :=
  dispatch_shape_aux env h

/-- **every key step, classified by how it commits.**  (N) not *commit*, commit buffer empty;
    (S) *commit* of one character — the key's own, its full-width form, or a space (`DirectChar`) — pre-edit
    empty before and after (English / full-width direct commit, symbols in Chinese mode); (W) *commit* of the whole pre-edit by
    Enter; (A) *commit* by overflow after the key itself was absorbed. -/
theorem key_step_cases {e e' : Editor D L} {ev : KeyEvent} {b : KB} (h : e.processKey env ev = .ok (e', b)) :
    ∃ sh st, dispatch env e ev = .ok (sh, st) ∧ e'.state = st ∧
      ((b ≠ .commit ∧ sh.last = b ∧ sh.commitBuf = [] ∧ e'.shared = flush env sh) ∨
       (b = .commit ∧ e.state = .entering ∧ e.shared.com.isEmpty = true ∧ e'.shared.com = e.shared.com ∧
          ∃ ch, DirectChar ev ch ∧ e'.shared.commitBuf = [ch]) ∨
       (b = .commit ∧ e.state = .entering ∧ ev.code = KC.enter ∧ e.shared.com.isEmpty = false ∧
          Shared.commit env (preamble e.shared) = .ok sh ∧ e'.shared = flush env sh) ∨
       (b = .commit ∧ (st = .entering ∨ st = .enteringSyllable) ∧ sh.last = .absorb ∧ sh.commitBuf = [] ∧
          sh.options.autoCommitThreshold < sh.com.len ∧
          ∃ sh2, Shared.tryAutoCommit env sh = .ok sh2 ∧ e'.shared = flush env sh2)) := by
  rw [processKey_eq] at h
  cases hd : dispatch env e ev with
  | ok x =>
    obtain ⟨sh, st⟩ := x
    rw [hd] at h; simp only at h
    refine ⟨sh, st, rfl, ?_⟩
    obtain ⟨hst, hcase⟩ := tail_spec env h
    refine ⟨hst, ?_⟩
    rcases dispatch_shape env hd with ⟨hnc, hbuf⟩ | ⟨hc, hs, hst', hcase2⟩
    · rcases hcase with ⟨hsh, hb, _⟩ | ⟨h1, h2, h3, h4, sh2, h5, h6⟩
      · exact Or.inl ⟨by rw [hb]; exact hnc, hb.symm, hbuf, hsh⟩
      · exact Or.inr (Or.inr (Or.inr ⟨h4, h1, h2, hbuf, h3, sh2, h5, h6⟩))
    · rcases hcase with ⟨hsh, hb, _⟩ | ⟨_, h2, _⟩
      · rw [hc] at hb
        obtain ⟨f1, f2, _⟩ := flush_fields env sh
        rcases hcase2 with ⟨he, hcom, ch, hq, hch⟩ | ⟨hk, hne, hcm⟩
        · exact Or.inr (Or.inl ⟨hb, hs, he, by rw [hsh, f2]; exact hcom, ch, hq, by rw [hsh, f1]; exact hch⟩)
        · exact Or.inr (Or.inr (Or.inl ⟨hb, hs, hk, hne, hcm, hsh⟩))
      · rw [hc] at h2; cases h2
  | panic p => rw [hd] at h; cases h
  | outOfFuel => rw [hd] at h; cases h

/-- **no_phantom_commit**: for every state and key, a result other than *commit* leaves the commit
    buffer empty (the buffer is written only on paths that report *commit*) — for every environment -/
theorem no_phantom_commit {e e' : Editor D L} {ev : KeyEvent} {b : KB}
    (h : e.processKey env ev = .ok (e', b)) (hb : b ≠ .commit) : e'.shared.commitBuf = [] := by
  obtain ⟨sh, st, _, _, hcase⟩ := key_step_cases env h
  rcases hcase with ⟨_, _, hbuf, hsh⟩ | ⟨c, _⟩ | ⟨c, _⟩ | ⟨c, _⟩
  · rw [hsh, (flush_fields env sh).1]; exact hbuf
  all_goals exact absurd c hb

/-- **commit_has_text**: *commit* ⇒ the commit string is non-empty.  The single-character arms
    (`commitOrInsert`, Space with an empty pre-edit) need no hypothesis; the Enter arm and the overflow
    path need `ConvHeadText env` (implied by `ConvTiles env`): an engine answering with empty texts would
    make Enter report *commit* with an empty string. -/
theorem commit_has_text (hH : ConvHeadText env) {e e' : Editor D L} {ev : KeyEvent}
    (h : e.processKey env ev = .ok (e', .commit)) : e'.shared.commitBuf ≠ [] := by
  obtain ⟨sh, st, _, _, hcase⟩ := key_step_cases env h
  rcases hcase with ⟨c, _⟩ | ⟨_, _, _, _, ch, _, hch⟩ | ⟨_, _, _, hne, hcm, hsh⟩ | ⟨_, _, _, _, hlt, sh2, hac, hsh⟩
  · exact absurd rfl c
  · rw [hch]; simp
  · rw [hsh, (flush_fields env sh).1]
    obtain ⟨ivs, s1, hc, _, rfl⟩ := commit_spec env hcm
    obtain ⟨paths, hp, hmem⟩ := conversion_mem env hc
    have hsy : (preamble e.shared).com.inner.symbols ≠ [] := by
      intro c
      have : e.shared.com.isEmpty = true := by
        show (e.shared.com.inner.symbols.length == 0) = true
        rw [show e.shared.com.inner.symbols = [] from c]; rfl
      rw [this] at hne; cases hne
    obtain ⟨iv, rest, rfl, htx⟩ := hH _ _ _ _ hp hsy _ hmem
    simp only [List.flatMap_cons]
    intro c; exact htx (List.append_eq_nil_iff.mp c).1
  · rw [hsh, (flush_fields env sh2).1]
    obtain ⟨ivs, k, hc, _, hpos, hb, _⟩ := auto_commit_prefix env hac hlt
    obtain ⟨paths, hp, hmem⟩ := conversion_mem env hc
    have hsy : sh.com.inner.symbols ≠ [] := by
      intro c
      have : sh.com.len = 0 := by rw [len_eq, c]; rfl
      omega
    obtain ⟨iv, rest, rfl, htx⟩ := hH _ _ _ _ hp hsy _ hmem
    rcases hpos with c | hpos
    · cases c
    · rw [hb]
      cases k with
      | zero => omega
      | succ k =>
        simp only [List.take_succ_cons, textOf, List.flatMap_cons]
        intro c; exact htx (List.append_eq_nil_iff.mp c).1

/-- **C02, third sentence.**  After a key event a non-empty commit string is available exactly when the
    key result says *commit* -/
theorem commit_string_iff_result (hH : ConvHeadText env) {e e' : Editor D L} {ev : KeyEvent} {b : KB}
    (h : e.processKey env ev = .ok (e', b)) : e'.shared.commitBuf ≠ [] ↔ b = .commit := by
  constructor
  · intro hne
    cases hb : b with
    | commit => rfl
    | ignore => exact absurd (no_phantom_commit env h (by rw [hb]; decide)) hne
    | bell => exact absurd (no_phantom_commit env h (by rw [hb]; decide)) hne
    | absorb => exact absurd (no_phantom_commit env h (by rw [hb]; decide)) hne
  · intro hb; subst hb; exact commit_has_text env hH h

/-- **C02 for a key that overflows the buffer**, in one statement: the key itself was absorbed by the
    state machine leaving a buffer `sh` longer than the threshold; the commit string is a leading part
    of the display of that full buffer, the symbols it covers are removed from the front; with a
    tiling engine, characters committed + characters remaining = characters of the full buffer and
    the rest fits the threshold -/
theorem key_auto_commit (hT : ConvTiles env) {e e' : Editor D L} {ev : KeyEvent}
    (h : e.processKey env ev = .ok (e', .commit))
    (hnw : ¬ (e.state = .entering ∧ ev.code = KC.enter)) (hne : e.shared.com.isEmpty = false) :
    ∃ sh st, dispatch env e ev = .ok (sh, st) ∧ (st = .entering ∨ st = .enteringSyllable) ∧ sh.last = .absorb ∧
      sh.options.autoCommitThreshold < sh.com.len ∧
      (∃ rest, Shared.display env sh = .ok (e'.shared.commitBuf ++ rest)) ∧
      (∃ n, n ≤ sh.com.len ∧ e'.shared.com.symbols = sh.com.symbols.drop n ∧
        e'.shared.commitBuf.length = n) ∧
      e'.shared.commitBuf.length + e'.shared.com.len = sh.com.len ∧
      e'.shared.com.len ≤ sh.options.autoCommitThreshold := by
  obtain ⟨sh, st, hd, _, hcase⟩ := key_step_cases env h
  rcases hcase with ⟨c, _⟩ | ⟨_, _, he, _⟩ | ⟨_, hs, hk, _⟩ | ⟨_, hst, hl, _, hlt, sh2, hac, hsh⟩
  · exact absurd rfl c
  · rw [he] at hne; cases hne
  · exact absurd ⟨hs, hk⟩ hnw
  · obtain ⟨f1, f2, _⟩ := flush_fields env sh2
    obtain ⟨c1, c2, c3⟩ := auto_commit_conserves env hT hac hlt
    obtain ⟨rest, hr⟩ := auto_commit_prefix_of_display env hac hlt
    obtain ⟨ivs, k, hc, _, _, hb, hle, hsym, _⟩ := auto_commit_prefix env hac hlt
    obtain ⟨paths, hp, hmem⟩ := conversion_mem env hc
    have ht : Tiles 0 sh.com.len ivs := hT _ _ _ _ hp _ hmem
    refine ⟨sh, st, hd, hst, hl, hlt, ⟨rest, by rw [hsh, f1]; exact hr⟩, ⟨sumLen (ivs.take k), hle, ?_, ?_⟩, ?_, ?_⟩
    · rw [hsh, f2]; exact hsym
    · rw [hsh, f1, hb]; exact (ht.take k).1
    · rw [hsh, f1, f2]; exact c1
    · rw [hsh, f2]; exact c3

/-! ### what the API calls do to the commit buffer (they do not reset it first) -/

/-- `Editor::select(n)`: the choice itself never writes the commit buffer; if the buffer is then longer
    than the threshold the overflow path runs (result *commit*, buffer = the pushed-out prefix),
    otherwise the commit buffer is what it was -/
theorem api_select {e e' : Editor D L} {n : Nat} {r : Bool} (h : e.select env n = .ok (e', r)) :
    (e'.shared.commitBuf = e.shared.commitBuf ∧ (e' = e ∨ e'.shared.last ≠ .commit)) ∨
    (∃ sh, sh.commitBuf = e.shared.commitBuf ∧ sh.last = .absorb ∧
       sh.options.autoCommitThreshold < sh.com.len ∧
       Shared.tryAutoCommit env sh = .ok e'.shared ∧ e'.shared.last = .commit) := by
  unfold Editor.select at h
  split at h
  · rename_i s hs
    split at h
    · rename_i s' sh t hq
      obtain ⟨hn, hb⟩ := (select_nocommit env s e.shared n).elim hq
      simp only at hn hb
      have hap : (applyTrans sh (.selecting s') t).1.commitBuf = e.shared.commitBuf ∧
          (applyTrans sh (.selecting s') t).1.last ≠ .commit := by
        cases t with
        | toState s2 => exact ⟨hb, by simp [applyTrans]⟩
        | spin b => exact ⟨hb, fun c => hn (by simp only [applyTrans] at c; rw [c])⟩
      generalize applyTrans sh (.selecting s') t = p at h hap
      obtain ⟨sh1, st⟩ := p
      simp only at h hap
      -- the overflow path runs only once the list has closed (`self.state.is_entering() &&`, C01's fix)
      by_cases hl0 : ((st == St.entering || st == St.enteringSyllable) && sh1.last == KB.absorb) = true
      · have hl : sh1.last = .absorb := by
          have := (Bool.and_eq_true _ _).mp hl0
          exact eq_of_beq this.2
        simp only [hl0, if_true] at h
        by_cases hlen : sh1.com.len ≤ sh1.options.autoCommitThreshold
        · rw [tryAutoCommit_noop env hlen] at h
          simp only at h
          injection h with h; injection h with h1 h2; subst h1
          exact Or.inl ⟨hap.1, Or.inr hap.2⟩
        · split at h
          · rename_i sh2 hac
            injection h with h; injection h with h1 h2; subst h1
            obtain ⟨_, _, _, _, _, _, _, _, _, _, _, hlast, _⟩ := auto_commit_prefix env hac (by omega)
            exact Or.inr ⟨sh1, hap.1, hl, by omega, hac, hlast⟩
          · cases h
          · cases h
      · simp only [hl0, if_false] at h
        injection h with h; injection h with h1 h2; subst h1
        exact Or.inl ⟨hap.1, Or.inr hap.2⟩
    · cases h
    · cases h
  · injection h with h; injection h with h1 h2; subst h1
    exact Or.inl ⟨rfl, Or.inl rfl⟩

/-- `Editor::start_selecting` never touches the commit buffer -/
theorem api_startSelecting {e e' : Editor D L} {r : Bool} (h : e.startSelecting env = .ok (e', r)) :
    e'.shared.commitBuf = e.shared.commitBuf := by
  unfold Editor.startSelecting at h
  have key : ∀ (rr : StepRes D L), NoCommit e.shared.commitBuf rr →
      (match rr with
        | .ok (sh, t) =>
          let (sh, st) := applyTrans sh e.state t
          let e' := Editor.leaveIfEmpty env { shared := sh, state := st }
          let isSel := match e'.state with
            | .selecting _ => true
            | _ => false
          .ok (e', isSel)
        | .panic p => .panic p
        | .outOfFuel => .outOfFuel) = Outcome.ok (e', r) → e'.shared.commitBuf = e.shared.commitBuf := by
    intro rr hnc hh
    split at hh
    · rename_i sh t
      obtain ⟨_, hb⟩ := hnc sh t rfl
      injection hh with hh; injection hh with h1 h2
      rw [← h1]
      unfold Editor.leaveIfEmpty
      cases t <;> (dsimp only; split <;> exact hb)
    · cases hh
    · cases hh
  cases hs : e.state with
  | entering => rw [hs] at h; exact key _ (nocommit_startSelecting env _) (by rw [hs]; exact h)
  | enteringSyllable =>
    rw [hs] at h
    exact key _ (nocommit_startSelecting env { e.shared with syl := env.clearSyl e.shared.syl }) (by rw [hs]; exact h)
  | selecting s =>
    rw [hs] at h
    exact key (.ok (e.shared, .spin .bell)) (by nocommit_leaf) (by rw [hs]; exact h)
  | highlighting m =>
    rw [hs] at h
    exact key (.ok (e.shared, .spin .bell)) (by nocommit_leaf) (by rw [hs]; exact h)

/-- `Editor::cancel_selecting` never touches the commit buffer -/
theorem api_cancelSelecting (e : Editor D L) : e.cancelSelecting.1.shared.commitBuf = e.shared.commitBuf := by
  unfold Editor.cancelSelecting
  split <;> rfl

/-- `Editor::jump_to_*_selection_point` never touch the shared state at all -/
theorem api_jump {e e' : Editor D L} {w : Nat} {r : Bool} (h : e.jump env w = .ok (e', r)) :
    e'.shared = e.shared := by
  unfold Editor.jump at h
  repeat' (first | split at h | (dsimp only at h; split at h))
  all_goals first
    | (cases h; done)
    | (injection h with h; injection h with h1 h2; rw [← h1])

/-- `Editor::ack` and `Editor::clear` empty the commit buffer -/
theorem api_ack_clear (e : Editor D L) : e.ack.shared.commitBuf = [] ∧ (e.clear env).shared.commitBuf = [] :=
  ⟨rfl, rfl⟩

/-! ## 5. every operation and whole histories: nothing lost, nothing invented

`editPart env e op` is the shared state after the *editing part* of an operation (state machine / API
call) and before its commit path; `emitted e op e'` is the text the application receives from the
operation; `accepted e op m` the net number of characters the editing part took in.  Definitions in
`Proofs/EditorCommitHistory.lean`. -/

/-- **every operation** (key, `select(n)`, `commit()`, every other public call), for every environment:
    its editing part returns, and the operation has one of three shapes — (K) nothing emitted, the
    pre-edit is what the editing part left; (S) one character passed straight through an empty
    pre-edit; (C) a commit path ran: the emitted text is the text of the first `k ≥ 1` intervals of the
    conversion of the edited buffer — all of them and the pre-edit is empty afterwards (Enter,
    `commit()`), or the buffer exceeded the threshold and exactly the symbols under the least
    sufficient leading part were removed from the front (overflow after a key or after `select(n)`).
    There is no fourth way: no operation removes symbols through a commit path without emitting them,
    and none emits text that is not a leading part of what was displayed. -/
theorem step_accounts {e e' : Editor D L} {op : Op L} (ha : e.apply env op = .ok e') :
    ∃ m, editPart env e op = .ok m ∧ StepShape env e op m e' := by
  obtain ⟨m, hm⟩ := editPart_ok env ha
  exact ⟨m, hm, step_shape env ha hm⟩

/-- **nothing invented**: what an operation emits is empty, or one directly committed character (empty
    pre-edit), or a leading part of the pre-edit string `display` shows for the edited buffer -/
theorem emitted_was_displayed {e e' : Editor D L} {op : Op L} {m : Shared D L}
    (ha : e.apply env op = .ok e') (hm : editPart env e op = .ok m) :
    emitted e op e' = [] ∨ (direct e op m = true ∧ ∃ ch, emitted e op e' = [ch]) ∨
    ∃ rest, Shared.display env m = .ok (emitted e op e' ++ rest) := by
  rcases step_shape env ha hm with ⟨_, h, _⟩ | ⟨hd, _, ch, h, _⟩ | ⟨_, ivs, k, hc, _, _, hem, _⟩
  · exact Or.inl h
  · exact Or.inr (Or.inl ⟨hd, ch, h⟩)
  · refine Or.inr (Or.inr ⟨textOf (ivs.drop k), ?_⟩)
    unfold Shared.display
    rw [hc, hem]
    simp only [Outcome.map, textOf, ← List.flatMap_append, List.take_append_drop]

/-- **nothing lost, nothing duplicated** (one operation): with a tiling engine at the edited state,
    characters emitted + symbols remaining = symbols before + characters accepted by the editing part -/
theorem step_ledger {e e' : Editor D L} {op : Op L} {m : Shared D L}
    (ha : e.apply env op = .ok e') (hm : editPart env e op = .ok m) (hT : TilesAt env m) :
    ((emitted e op e').length : Int) + e'.shared.com.len = e.shared.com.len + accepted e op m :=
  shape_ledger env hT (step_shape env ha hm)

/-- … and after a commit path the remaining symbols are exactly those behind the emitted characters -/
theorem step_remaining {e e' : Editor D L} {op : Op L} {m : Shared D L}
    (ha : e.apply env op = .ok e') (hm : editPart env e op = .ok m) (hT : TilesAt env m)
    (hne : emitted e op e' ≠ []) (hd : direct e op m = false) :
    e'.shared.com.symbols = m.com.symbols.drop (emitted e op e').length := by
  rcases step_shape env ha hm with ⟨_, h, _⟩ | ⟨hd', _⟩ | ⟨_, ivs, k, hc, _, _, hem, hcase⟩
  · exact absurd h hne
  · rw [hd] at hd'; cases hd'
  · have ht := hT.conversion env hc
    rw [hem]
    rcases hcase with ⟨hk, hsym, _⟩ | ⟨_, _, hsym, _⟩
    · obtain ⟨t1, t2⟩ := ht.total
      rw [hk, List.take_length, t2, hsym, List.drop_eq_nil_of_le]
      rw [show m.com.symbols.length = m.com.len from rfl]; omega
    · rw [(ht.take k).1]; exact hsym

/-- the log of a history is a log of `run`: same final state, one entry per operation … -/
theorem runLog_run {e e' : Editor D L} {ops : List (Op L)} {outs : List Text} {acc : Int}
    (h : e.runLog env ops = .ok (e', outs, acc)) : e.run env ops = .ok e' ∧ outs.length = ops.length := by
  induction ops generalizing e outs acc with
  | nil => injection h with h; injection h with h1 h2; injection h2 with h2 h3; subst h1 h2; exact ⟨rfl, rfl⟩
  | cons op ops ih =>
    unfold Editor.runLog at h
    split at h
    · rename_i e1 m ha hm
      split at h
      · rename_i e2 outs2 acc2 hr
        injection h with h; injection h with h1 h2; injection h2 with h2 h3; subst h1 h2
        obtain ⟨i1, i2⟩ := ih hr
        exact ⟨by unfold Editor.run; rw [ha]; exact i1, by simp [i2]⟩
      · cases h
      · cases h
    all_goals cases h

/-- … and every history that runs has a log -/
theorem run_runLog {e e' : Editor D L} {ops : List (Op L)} (h : e.run env ops = .ok e') :
    ∃ outs acc, e.runLog env ops = .ok (e', outs, acc) := by
  induction ops generalizing e with
  | nil => injection h with h; subst h; exact ⟨[], 0, rfl⟩
  | cons op ops ih =>
    unfold Editor.run at h
    split at h
    · rename_i e1 ha
      obtain ⟨m, hm⟩ := editPart_ok env ha
      obtain ⟨outs, acc, hr⟩ := ih h
      exact ⟨emitted e op e1 :: outs, accepted e op m + acc, by unfold Editor.runLog; rw [ha, hm]; simp only [hr]⟩
    · cases h
    · cases h

/-- **every step of every history** has one of the three shapes of `step_accounts` -/
theorem history_shapes (e : Editor D L) (ops : List (Op L)) : AllSteps env (StepShape env) e ops := by
  induction ops generalizing e with
  | nil => trivial
  | cons op ops ih => exact fun e' m ha hm => ⟨step_shape env ha hm, ih e'⟩

/-- **C02 over histories: no text is lost or invented.**  For every history of public operations whose
    edited states are tiled by the engine (`TilesAlong`): the characters of all commit strings the
    application received, plus the symbols still in the pre-edit, equal the symbols there were at the
    start plus the characters accepted by the editing parts (typed minus deleted) — the commit paths
    (Enter, `commit()`, overflow after a key, overflow after `select(n)`, direct commit of a key in
    English / full-width mode) never drop, duplicate or add a character. -/
theorem history_ledger {e e' : Editor D L} {ops : List (Op L)} {outs : List Text} {acc : Int}
    (hT : TilesAlong env e ops) (h : e.runLog env ops = .ok (e', outs, acc)) :
    ((outs.flatten).length : Int) + e'.shared.com.len = e.shared.com.len + acc := by
  induction ops generalizing e outs acc with
  | nil =>
    injection h with h; injection h with h1 h2; injection h2 with h2 h3; subst h1 h2 h3
    simp
  | cons op ops ih =>
    unfold Editor.runLog at h
    split at h
    · rename_i e1 m ha hm
      split at h
      · rename_i e2 outs2 acc2 hr
        injection h with h; injection h with h1 h2; injection h2 with h2 h3; subst h1 h2 h3
        have i1 := ih (hT.2 e1 ha) hr
        have i2 := step_ledger env ha hm (hT.1 m hm)
        simp only [List.flatten_cons, List.length_append, Int.natCast_add]
        omega
      · cases h
      · cases h
    all_goals cases h

/-- the same for an engine that tiles every composition -/
theorem history_ledger_convTiles (hT : ConvTiles env) {e e' : Editor D L} {ops : List (Op L)}
    {outs : List Text} {acc : Int} (h : e.runLog env ops = .ok (e', outs, acc)) :
    ((outs.flatten).length : Int) + e'.shared.com.len = e.shared.com.len + acc :=
  history_ledger env (hT.tilesAlong env e ops) h

/-! ### the tiling hypothesis is C03's theorem -/

/-- the editor's engine kinds as C03's engines -/
def engOf : EngineKind → Conv.Engine
  | .simple => .simple
  | .chewing => .chewing
  | .fuzzy => .fuzzy

/-- **C03 discharges `TilesAt`**, with exactly C03's hypotheses: at a state where the environment's
    engine answers as C03's model of the three real engines (for any tie-breaking oracle `pick` and any
    reading `view` of the dictionary state as a lookup function), the composition is valid
    (`CompValid`: F31 excluded), phrases have one character per syllable (`WellFormed`) and every syllable
    has a word under the engine's strategy (`HasWord`; otherwise every engine shows the syllable's Bopomofo
    spelling, F30 — since the F02 / F03 repair also the Chewing engines, which used to abort), every alternative
    tiles the buffer with one character per symbol. -/
theorem tilesAt_of_C03 {sh : Shared D L} {pick : Nat → List Conv.Path → Nat} {view : D → Dict}
    (henv : env.convert sh.engine sh.dict sh.com.inner =
      Conv.convert pick (engOf sh.engine) (view sh.dict) sh.com.inner)
    (hc : Conv.CompValid sh.com.inner) (hw : Conv.WellFormed (view sh.dict))
    (hh : Conv.HasWord (view sh.dict) (engOf sh.engine).strategy sh.com.inner) :
    TilesAt env sh := by
  intro paths hp p hm
  rw [henv] at hp
  exact tiles_of_chain (C03.alt_chain hc hp p hm) (C03.one_char_per_symbol hc hw hh hp p hm)

/-! ## 4. non-vacuity: a concrete environment with a real (two-entry) dictionary and a trivial engine -/

abbrev ToyDict := List Entry

/-- the first word the dictionary has for a syllable (`?` if none); direct characters as they are -/
def firstWord (d : ToyDict) : Sym → Nat
  | .syl c => ((((d.filter (fun e => e.1 == [c])).map (·.2)).head?).bind (·.text.head?)).getD 63
  | .chr cp => cp

/-- dictionary = entry list (`ㄏ`=100 ↦ "A", `ㄐ`=200 ↦ "B" in `toyDict`); layout: key `h` (code 32) starts
    syllable 100, key `j` (code 33) starts syllable 200, Space completes it; engine: two alternatives,
    each one interval per symbol — the first word of the dictionary, or `*` -/
def richEnv : Env ToyDict Nat where
  lookupAll d key _ := (d.filter (fun e => e.1 == key)).map (·.2)
  userLookupAll _ _ _ := []
  addPhrase d key p := some (d ++ [(key, p)])
  updatePhrase d _ _ _ _ := d
  removePhrase d key t := d.filter (fun e => !(e.1 == key && e.2.text == t))
  reopenFlush d := d
  convert _ d c := .ok [perSym (firstWord d) 0 c.symbols, perSym (fun _ => 42) 0 c.symbols]
  estimate _ f _ := .ok f
  keyPress l ev :=
    if ev.code = 32 then (.absorb, 100) else if ev.code = 33 then (.absorb, 200)
    else if ev.code = KC.space ∧ l ≠ 0 then (.commit, l) else (.keyError, l)
  fuzzyKeyPress l _ := (.keyError, l)
  removeLast _ := 0
  clearSyl _ := 0
  sylIsEmpty l := l == 0
  read l := l
  altSyllables _ _ := []

def toyDict : ToyDict := [([100], { text := [65], freq := 1 }), ([200], { text := [66], freq := 1 })]

/-- the toy engine satisfies the tiling hypothesis (for the real engines this is C03) -/
theorem richEnv_tiles : ConvTiles richEnv := by
  intro k d c paths hp p hmem
  injection hp with hp; subst hp
  simp only [List.mem_cons, List.not_mem_nil, or_false] at hmem
  rcases hmem with rfl | rfl
  · simpa using perSym_tiles (firstWord d) c.symbols 0
  · simpa using perSym_tiles (fun _ => 42) c.symbols 0

example : ConvTiles richEnv ∧ ConvHeadText richEnv := ⟨richEnv_tiles, ConvTiles.headText richEnv richEnv_tiles⟩

def kH : KeyEvent := { index := 32, code := 32, unicode := 104 }
def kJ : KeyEvent := { index := 33, code := 33, unicode := 106 }
def kSpace : KeyEvent := { index := 48, code := KC.space, unicode := 32 }
def kTab : KeyEvent := { index := 53, code := KC.tab, unicode := 65533 }
def kEnter : KeyEvent := { index := 50, code := KC.enter, unicode := 65533 }
/-- Enter with Shift and CapsLock held still reaches the Enter arm -/
def kEnterMods : KeyEvent := { kEnter with mods := { shift := true, capslock := true } }

def rich0 (thr : Nat) : Editor ToyDict Nat :=
  { shared := { syl := 0, dict := toyDict, options := { autoCommitThreshold := thr } } }

/-- type `h␣ j␣`: the pre-edit shows "AB"; Enter commits exactly "AB" and empties the buffer -/
example : ∃ e e', (rich0 39).run richEnv [.key kH, .key kSpace, .key kJ, .key kSpace] = .ok e ∧
    e.state = .entering ∧ e.shared.com.isEmpty = false ∧
    Shared.display richEnv e.shared = .ok [65, 66] ∧
    e.processKey richEnv kEnterMods = .ok (e', .commit) ∧ e'.shared.commitBuf = [65, 66] ∧
    e'.shared.com.symbols = [] := by
  refine ⟨_, _, rfl, ?_, ?_, ?_, rfl, ?_, ?_⟩ <;> decide

/-- … with the second alternative chosen by Tab, display and commit are both "**" (and auto-learning has
    added the phrase to the dictionary in between: the dictionary after the step differs) -/
example : ∃ e e', (rich0 39).run richEnv [.key kH, .key kSpace, .key kJ, .key kSpace, .key kTab] = .ok e ∧
    e.shared.nth = 1 ∧ Shared.display richEnv e.shared = .ok [42, 42] ∧
    e.processKey richEnv kEnter = .ok (e', .commit) ∧ e'.shared.commitBuf = [42, 42] ∧
    e'.shared.dict ≠ e.shared.dict := by
  refine ⟨_, _, rfl, ?_, ?_, rfl, ?_, ?_⟩ <;> decide

/-- the editor after typing `h␣ j␣` -/
def eAB : Editor ToyDict Nat :=
  match (rich0 39).run richEnv [.key kH, .key kSpace, .key kJ, .key kSpace] with
  | .ok e => e
  | _ => rich0 39

/-- the hypotheses of `commit_equals_display` are satisfiable (and its conclusion is what was computed) -/
example : ∃ (e' : Editor ToyDict Nat) (b : KB),
    eAB.state = .entering ∧ eAB.shared.com.isEmpty = false ∧ kEnterMods.code = KC.enter ∧
    eAB.processKey richEnv kEnterMods = .ok (e', b) ∧
    b = .commit ∧ Shared.display richEnv eAB.shared = .ok e'.shared.commitBuf := by
  refine ⟨_, _, by decide, by decide, rfl, rfl, ?_⟩
  have := commit_equals_display richEnv (e := eAB) (ev := kEnterMods) (by decide) (by decide) rfl rfl
  exact ⟨this.1, this.2.1⟩

/-- the API call does the same -/
example : ∃ e e', (rich0 39).run richEnv [.key kH, .key kSpace, .key kJ, .key kSpace] = .ok e ∧
    e.commit richEnv = .ok (e', true) ∧ e'.shared.commitBuf = [65, 66] ∧ e'.shared.com.symbols = [] := by
  refine ⟨_, _, rfl, rfl, ?_, ?_⟩ <;> decide

/-- overflow: threshold 1, the second syllable pushes out "A"; "B"'s syllable remains; result *commit* -/
example : ∃ e e', (rich0 1).run richEnv [.key kH, .key kSpace, .key kJ] = .ok e ∧
    e.processKey richEnv kSpace = .ok (e', .commit) ∧ e'.shared.commitBuf = [65] ∧
    e'.shared.com.symbols = [.syl 200] ∧ e'.shared.com.len ≤ 1 := by
  refine ⟨_, _, rfl, rfl, ?_, ?_, ?_⟩ <;> decide

/-- the hypotheses of `key_auto_commit` are satisfiable -/
example : ∃ (e e' : Editor ToyDict Nat), (rich0 1).run richEnv [.key kH, .key kSpace, .key kJ] = .ok e ∧
    e.processKey richEnv kSpace = .ok (e', .commit) ∧
    ¬ (e.state = .entering ∧ kSpace.code = KC.enter) ∧ e.shared.com.isEmpty = false :=
  ⟨_, _, rfl, rfl, by decide, by decide⟩

/-- the hypothesis of `auto_commit_prefix` is satisfiable: threshold 0 empties a one-symbol buffer … -/
example : ∃ sh sh', Shared.tryAutoCommit richEnv sh = .ok sh' ∧ sh.options.autoCommitThreshold < sh.com.len ∧
    sh'.commitBuf = [65] ∧ sh'.com.symbols = [] := by
  refine ⟨{ syl := 0, dict := toyDict, options := { autoCommitThreshold := 0 },
            com := { cursor := 1, inner := { symbols := [.syl 100], gaps := [.begin] } } }, _, rfl, ?_, ?_, ?_⟩ <;> decide

/-- … and an absorbed key commits nothing (`no_phantom_commit` is not vacuous) -/
example : ∃ e', (rich0 39).processKey richEnv kH = .ok (e', .absorb) ∧ e'.shared.commitBuf = [] :=
  ⟨_, rfl, by decide⟩

/-! ### non-vacuity of section 5 -/

/-- a history through three commit routes — overflow after a key (threshold 1), direct commit is not
    possible in this toy layout, Enter — with its log and ledger: `h␣ j␣` pushes out "A", Enter commits "B";
    2 characters accepted, 2 emitted, none left -/
example : ∃ e', (rich0 1).runLog richEnv [.key kH, .key kSpace, .key kJ, .key kSpace, .key kEnter] =
      .ok (e', [[], [], [], [65], [66]], 0 + (1 + (0 + (1 + (0 + 0))))) ∧ e'.shared.com.symbols = [] :=
  ⟨_, rfl, by decide⟩

/-- … `commit()` and overflow after `select(n)` are routes too: lower the threshold while a candidate list
    is open, choose: the overflow runs after the choice -/
example : ∃ e' outs acc, (rich0 39).runLog richEnv
      [.key kH, .key kSpace, .key kJ, .key kSpace, .startSelecting,
       .setOptions { autoCommitThreshold := 1 }, .select 0, .commit] = .ok (e', outs, acc) ∧
      outs = [[], [], [], [], [], [], [65], [66]] ∧ acc = 2 ∧ e'.shared.com.symbols = [] := by
  refine ⟨_, _, _, rfl, ?_, ?_, ?_⟩ <;> decide

/-- direct commit (shape S): English mode, empty pre-edit, key `x` commits exactly "x"; in full-width form
    exactly its full-width form "ｘ" — in both cases a `DirectChar` of the key; ledger: 1 accepted, 1 emitted -/
def kX : KeyEvent := { index := 40, code := 40, unicode := 120 }

def engEditor (form : CharForm) : Editor ToyDict Nat :=
  { shared := { syl := 0, dict := toyDict, options := { languageMode := .english, characterForm := form } } }

example : ∃ e', (engEditor .half).processKey richEnv kX = .ok (e', .commit) ∧
    e'.shared.commitBuf = [120] ∧ DirectChar kX 120 :=
  ⟨_, rfl, by decide, Or.inl rfl⟩

example : ∃ e', (engEditor .full).processKey richEnv kX = .ok (e', .commit) ∧
    e'.shared.commitBuf = [65368] ∧ DirectChar kX 65368 :=
  ⟨_, rfl, by decide, Or.inr (Or.inl (by decide))⟩

example : ∃ e', (engEditor .half).runLog richEnv [.key kX, .key kX] = .ok (e', [[120], [120]], 1 + (1 + 0)) :=
  ⟨_, rfl⟩

/-- the hypothesis of `history_ledger` is satisfiable for every history of the toy environment -/
example (e : Editor ToyDict Nat) (ops : List (Op Nat)) : TilesAlong richEnv e ops :=
  richEnv_tiles.tilesAlong richEnv e ops

/-- an environment whose engine IS C03's model of the real engines (tie-breaking oracle `pickFirstMin`),
    over C03's dictionary type; keys `h` / `j` type `ㄘㄜˋ` / `ㄕˋ` -/
def convEnv : Env Dict Nat where
  lookupAll d key s := d.lookup key s
  userLookupAll _ _ _ := []
  addPhrase d _ _ := some d
  updatePhrase d _ _ _ _ := d
  removePhrase d _ _ := d
  reopenFlush d := d
  convert k d c := Conv.convert Conv.pickFirstMin (engOf k) d c
  estimate _ f _ := .ok f
  keyPress l ev :=
    if ev.code = 32 then (.absorb, 10268) else if ev.code = 33 then (.absorb, 1100)
    else if ev.code = KC.space ∧ l ≠ 0 then (.commit, l) else (.keyError, l)
  fuzzyKeyPress l _ := (.keyError, l)
  removeLast _ := 0
  clearSyl _ := 0
  sylIsEmpty l := l == 0
  read l := l
  altSyllables _ _ := []

/-- C03's example composition (a selection, a break, a glue mark, a character) in an editor state: all of
    C03's hypotheses hold, hence `TilesAt` -/
example : TilesAt convEnv
    { syl := 0, dict := C03.dEx, engine := .chewing, com := { cursor := 6, inner := C03.cEx } } :=
  tilesAt_of_C03 convEnv (pick := Conv.pickFirstMin) (view := id) rfl (by decide) C03.dEx_ok.2
    (by decide)

/-- the editor state after typing `ㄘㄜˋ ㄕˋ` over C03's example dictionary -/
def shTS : Shared Dict Nat :=
  { syl := 0, dict := C03.dEx,
    com := { cursor := 2, inner := { symbols := [.syl 10268, .syl 1100], gaps := [.begin, .normal] } } }

/-- … it is what the keys `h␣ j␣` produce in the editor over the real engine model -/
example : (({ shared := { syl := 0, dict := C03.dEx } } : Editor Dict Nat).run convEnv
      [.key kH, .key kSpace, .key kJ, .key kSpace]).map (fun e => (e.shared.com, e.shared.nth, e.state)) =
    .ok (shTS.com, 0, .entering) := by decide +kernel

/-- … it satisfies C03's hypotheses, hence `TilesAt` by `tilesAt_of_C03` -/
example : TilesAt convEnv shTS :=
  tilesAt_of_C03 convEnv (pick := Conv.pickFirstMin) (view := id) rfl (by decide) C03.dEx_ok.2
    (by decide)

/-- … the pre-edit shows the phrase 測試, and `commit()` emits exactly 測試 and empties the pre-edit -/
example : Shared.display convEnv shTS = .ok [28204, 35430] ∧
    (({ shared := shTS } : Editor Dict Nat).apply convEnv .commit).map
      (fun e' => (emitted { shared := shTS } .commit e', e'.shared.com.symbols)) = .ok ([28204, 35430], []) := by
  constructor <;> decide +kernel

/-- without a hypothesis on the engine `commit_has_text` fails: `C06.toyEnv` converts everything to
    nothing, Enter on a one-character buffer reports *commit* with an empty commit string -/
example : ∃ e', ({ shared := { syl := 0, dict := (), com := { cursor := 1, inner := { symbols := [.chr 65], gaps := [.begin] } } } } :
      Editor Unit Nat).processKey toyEnv kEnter = .ok (e', .commit) ∧ e'.shared.commitBuf = [] :=
  ⟨_, rfl, by decide⟩


/-! ## linked (round 2): the ledger over histories WITHOUT the tiling premise

`history_ledger` assumes `TilesAlong` (the engine's answer tiles the buffer at every edited state of the
history, ONE CHARACTER PER SYMBOL).  That is a statement about states in which every buffered syllable has a
word: since the F02 / F03 repair a syllable without a word no longer aborts the engine, it is shown — and
committed — as its Bopomofo spelling (1–4 characters for one symbol, C03 `text_shape`), so on such states the
character ledger does NOT hold as an equation (the harness oracle counts a spelled syllable as one symbol).
C01 proves that editor histories outside the word-losing class `Known` (the former F02 / F03 class) reach only
states satisfying `EditorInv … True` — composition valid (C04 / `CompValid`), cursor in range (C05), a word for
every buffered syllable — for every environment satisfying `EnvOK`; `EnvOK.convert_ok` / `convert_len` are
C03's theorems about the engines.
`Proofs/EditorLink.lean` shows that the states INSIDE a step (`editPart`) satisfy the shared-state invariant
too and derives `TilesAlong` (`Link.tilesAlong_of_allowed`).  Clauses of `EnvOK` used: ALL of them —
`convert_ok` gives the tiling itself and totality of the commit paths; `wf`, `std_fuzzy`, `add_*`, `update_*`,
`flush_*`, `remove_good` keep "every buffered syllable has a word" and the well-formedness of the dictionary
along learning keys and API calls (the invariant the tiling needs); `estimate_ok` makes learning total. -/

section Linked
open Chewing.C01
variable {env} {G : D → Prop}

/-- **C02 over histories, linked**: for every environment satisfying C01's `EnvOK`, from every state
    satisfying C01's reachable-state invariant, along every history that avoids C01's word-losing class `Known`
    (`Allowed`: valid arguments, no operation after which a buffered syllable is left without a word; the `jump_*` calls on an open phrase list are included since C01
    covers them) the ledger equation holds:
    characters of all commit strings + symbols left = symbols at the start + characters accepted.
    No `TilesAlong` premise. -/
theorem history_ledger_linked (hE : EnvOK env G) {e e' : Editor D L} (hi : EditorInv env G True e) {ops : List (Op L)}
    (ha : Allowed env e ops) {outs : List Text} {acc : Int} (h : e.runLog env ops = .ok (e', outs, acc)) :
    ((outs.flatten).length : Int) + e'.shared.com.len = e.shared.com.len + acc :=
  history_ledger env (Link.tilesAlong_of_allowed hE ops e hi ha) h

/-- … and such a history always HAS a log: it runs to the end (C01), ends in a state satisfying the
    invariant, and the ledger holds -/
theorem history_ledger_total (hE : EnvOK env G) {e : Editor D L} (hi : EditorInv env G True e) {ops : List (Op L)}
    (ha : Allowed env e ops) :
    ∃ e' outs acc, e.runLog env ops = .ok (e', outs, acc) ∧ EditorInv env G True e' ∧
      ((outs.flatten).length : Int) + e'.shared.com.len = e.shared.com.len + acc := by
  obtain ⟨e', hr, hi'⟩ := C01_partial_run hE ops e hi ha
  obtain ⟨outs, acc, hl⟩ := run_runLog env hr
  exact ⟨e', outs, acc, hl, hi', history_ledger_linked hE hi ha hl⟩

/-- **from the fresh editor** (empty pre-edit, well-formed dictionary and symbol tables, options as the C API
    couples them): every allowed history runs, and everything the application received plus what is still
    in the pre-edit is exactly what the editing parts accepted -/
theorem history_ledger_fresh (hE : EnvOK env G) (sh : Shared D L) (hg : G sh.dict) (hcom : sh.com = {})
    (hcp : sh.options.lookupStrategy = .fuzzyPartialPrefix → engStrategy sh.engine = .fuzzyPartialPrefix)
    (hpp : 0 < sh.options.candidatesPerPage) (hsym : SymWF sh.symSel) {ops : List (Op L)}
    (ha : Allowed env { shared := sh, state := .entering } ops) :
    ∃ e' outs acc, ({ shared := sh, state := .entering } : Editor D L).runLog env ops = .ok (e', outs, acc) ∧
      ((outs.flatten).length : Int) + e'.shared.com.len = acc := by
  obtain ⟨e', outs, acc, hl, _, hled⟩ := history_ledger_total hE (initial_inv sh hg hcom (fun _ => hcp) hpp hsym) ha
  refine ⟨e', outs, acc, hl, ?_⟩
  have h0 : ({ shared := sh, state := .entering } : Editor D L).shared.com.len = 0 := by
    show sh.com.len = 0
    rw [hcom]; rfl
  rw [h0] at hled
  omega

/-- **for the environment whose engine is C03's model** (`Link.EngineIsC03`: `env.convert` is `Conv.convert`
    on buffers of at most 128 symbols, over dictionaries satisfying C03's hypotheses) and whose dictionary
    satisfies the dictionary clauses of `EnvOK` (`Link.DictOK`): the same, with C03's theorems in place of
    the hypothesis on the engine -/
theorem history_ledger_C03 {pick : Nat → List Conv.Path → Nat} {view : D → Dict} (hd : Link.DictOK env G)
    (he : Link.EngineIsC03 env G pick view) (sh : Shared D L) (hg : G sh.dict) (hcom : sh.com = {})
    (hcp : sh.options.lookupStrategy = .fuzzyPartialPrefix → engStrategy sh.engine = .fuzzyPartialPrefix)
    (hpp : 0 < sh.options.candidatesPerPage) (hsym : SymWF sh.symSel) {ops : List (Op L)}
    (ha : Allowed env { shared := sh, state := .entering } ops) :
    ∃ e' outs acc, ({ shared := sh, state := .entering } : Editor D L).runLog env ops = .ok (e', outs, acc) ∧
      ((outs.flatten).length : Int) + e'.shared.com.len = acc :=
  history_ledger_fresh (Link.envOK_of_C03 hd he) sh hg hcom hcp hpp hsym ha

/-! ### non-vacuity: a concrete environment over C03's engine model and example dictionary -/

/-- Boolean form of `Conv.SpellNonempty` -/
def spellOKb (c : Composition) : Bool :=
  c.symbols.all fun s => match s with
    | .syl k => !(spell k).isEmpty
    | .chr _ => true

theorem spellOKb_iff (c : Composition) : spellOKb c = true ↔ Conv.SpellNonempty c := by
  unfold spellOKb Conv.SpellNonempty
  rw [List.all_eq_true]
  constructor
  · intro h k hk
    have := h _ hk
    simp only [Bool.not_eq_true', List.isEmpty_eq_false_iff] at this
    exact this
  · intro h x hx
    cases x with
    | syl k => simp only [Bool.not_eq_true', List.isEmpty_eq_false_iff]; exact h k hx
    | chr _ => rfl

/-- `convEnv` with the engine model on the buffers C03's theorems cover (≤ 128 symbols, no syllable with the
    empty spelling) -/
def linkEnv : Env Dict Nat :=
  { convEnv with
    convert := fun k d c =>
      if c.symbols.length ≤ 128 ∧ spellOKb c = true then Conv.convert Conv.pickFirstMin (toEngine k) d c
      else .ok [singles (fun _ => true) c.symbols 0] }

theorem linkEnv_dictOK : Link.DictOK linkEnv (fun d => d = C03.dEx) where
  wf := by intro d hd k s p hp; subst hd; exact C03.dEx_ok.2 k s p hp
  std_fuzzy := by intro d c hd h; subst hd; exact h
  add_good := by intro d k p d' hd h _; cases h; exact hd
  add_mono := by intro d k p d' h c s hh; cases h; exact hh
  update_good := fun _ _ _ _ _ hd _ => hd
  update_mono := fun _ _ _ _ _ _ _ hh => hh
  flush_good := fun _ hd => hd
  flush_mono := fun _ _ _ hh => hh
  remove_good := fun _ _ _ hd => hd
  estimate_ok := fun _ f _ => ⟨f, rfl⟩

theorem linkEnv_engine : Link.EngineIsC03 linkEnv (fun d => d = C03.dEx) Conv.pickFirstMin id where
  pick_ok := C03.pickFirstMin_inRange
  engine := by
    intro k d c h hn
    have : c.symbols.length ≤ 128 ∧ spellOKb c = true := ⟨h, (spellOKb_iff c).mpr hn⟩
    simp only [linkEnv, this, if_true, id, and_self]
  lookup := fun _ _ _ h => h
  wellFormed := by intro d hd; subst hd; exact C03.dEx_ok.2
  freq := by
    intro d hd strat key p hp
    subst hd
    simp only [id, C03.dEx, Dict.ofEntries, List.mem_map, List.mem_filter] at hp
    obtain ⟨x, ⟨hx, _⟩, rfl⟩ := hp
    simp only [List.mem_cons, List.not_mem_nil, or_false] at hx
    rcases hx with rfl | rfl | rfl | rfl <;> decide
  beyond := by
    intro k d c _ _ hlen
    have : ¬ (c.symbols.length ≤ 128 ∧ spellOKb c = true) := by
      rintro ⟨h1, h2⟩
      rcases hlen with h | h
      · omega
      · exact h ((spellOKb_iff c).mp h2)
    simp only [linkEnv, this, if_false]
    refine .ok ⟨by simp, ?_⟩
    intro p hp
    simp only [List.mem_cons, List.not_mem_nil, or_false] at hp
    subst hp
    refine ⟨?_, singles_ge _ _ 0⟩
    have := singles_chain (fun _ => true) c.symbols 0
    simpa using this
  beyond_len := by
    intro k d c paths _ _ hlen _ hq
    have : ¬ (c.symbols.length ≤ 128 ∧ spellOKb c = true) := by
      rintro ⟨h1, h2⟩
      rcases hlen with h | h
      · omega
      · exact h ((spellOKb_iff c).mp h2)
    simp only [linkEnv, this, if_false] at hq
    cases Outcome.ok.inj hq
    intro p hp
    simp only [List.mem_cons, List.not_mem_nil, or_false] at hp
    subst hp
    exact singles_text _ _ (fun _ _ => rfl) 0

/-- **every key history** on the fresh editor over C03's engine model and example dictionary runs to the
    end and satisfies the ledger — no premise left -/
theorem linkEnv_key_histories (keys : List KeyEvent) :
    ∃ e' outs acc, ({ shared := { syl := 0, dict := C03.dEx } } : Editor Dict Nat).runLog linkEnv (keys.map .key) =
        .ok (e', outs, acc) ∧ ((outs.flatten).length : Int) + e'.shared.com.len = acc :=
  history_ledger_C03 linkEnv_dictOK linkEnv_engine { syl := 0, dict := C03.dEx } rfl rfl (fun h => by cases h)
    (by show (0 : Nat) < 10; omega) symWF_empty
    (allowed_of_plain _ _ (by
      intro op hop
      obtain ⟨k, _, rfl⟩ := List.mem_map.mp hop
      trivial))

/-- … and the history `h␣ j␣ Enter` really commits the two characters it accepted -/
example : (({ shared := { syl := 0, dict := C03.dEx } } : Editor Dict Nat).runLog linkEnv
      [.key kH, .key kSpace, .key kJ, .key kSpace, .key kEnter]).map (fun r => (r.2.1, r.2.2)) =
    .ok ([[], [], [], [], [28204, 35430]], 2) := by decide +kernel

end Linked

end Chewing.C02
