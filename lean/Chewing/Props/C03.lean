import Chewing.Proofs.ConvChewing
import Chewing.Proofs.ConvSimpleInv
import Chewing.Proofs.ConvLive
import Chewing.Proofs.ConvFuel
import Chewing.Proofs.ConvSpec
/-!
# C03 — Conversion always tiles the whole buffer, one output character per symbol

Model: `Chewing.Model.Conversion` (`ChewingEngine`: `find_best_phrase`, `find_intervals`,
`shortest_path`, `find_k_paths`, `trim_paths`, scoring, stable sort, `glue_fn`; the fuzzy engine is the
same code with `LookupStrategy::FuzzyPartialPrefix`) and `Chewing.Model.ConversionSimple`
(`SimpleEngine`), over an *abstract* dictionary (`Dict` = the lookup function).  `convert pick eng d c`
is everything `ConversionEngine::convert(dict, comp)` yields, in order; `pick` is the oracle for the
one unspecified step (`sort_unstable_by_key` ties in `find_k_paths`): **every theorem holds for every
oracle**, dictionary, strategy and composition — induction over the code, no enumeration.

Preconditions (all explicit, `Chewing.Model.ConversionSpec`):
* `CompValid c` — `|symbols| = |gaps|` (invariant of the Rust type) and the selections are valid
  (non-empty, in range, text length = range length, over syllables only, no `Break` inside) and pairwise
  non-intersecting.  The public `Composition` API admits selections violating this (`push_selection`
  checks only `end ≤ len`; `replace` keeps a selection over the replaced symbol): known finding **F31**,
  class `F31-invalid-selection`; `C03_full_refuted` proves the statement without `CompValid` false.
* `WellFormed d` — a phrase has as many characters as its key has syllables (needed wherever character
  counts matter).
* `HasWord d strat c` — every syllable has a one-syllable word; the quantifier of the property's
  *one-character clause only* ("a dictionary that has at least one word per syllable").  It is **not** a
  premise of tiling or liveness any more: since the `fix:` of F02 / F03 `find_best_phrase` falls back to the
  syllable's own Bopomofo spelling, so all three engines show a word-less unselected syllable as its spelling
  (F30: `no_word_chewing_spelling`, `no_word_simple_spelling`; `spelling_glued`) and never panic.
* `NoEmptyKey d` is no premise of any theorem any more: `find_best_phrase` answers `None` for an empty range
  whatever is stored under the empty key (F39 repaired at the engine, `empty_key_harmless`).  The predicate
  stays in the vocabulary for its other users.
* `ScoreBound` (liveness only): ≤ 128 symbols, frequencies ≤ `2^23` (the `i32` score arithmetic).

Theorems (all for every engine, every alternative, every pick oracle):
* for **every dictionary**: `alt_chain`, `tiles`, `char_symbols_verbatim`, `break_not_spanned`,
  `selection_not_split`, `provenance_general` (`ProvS` = `Prov` + the spelling), and with `WellFormed`: the
  exact one-character clause `text_shape` (`SpelledText`: one piece per symbol, each one character or the
  spelling of a word-less unselected syllable), `one_char_or_spelling` (an unglued interval has one character
  per symbol or is exactly the fallback interval `Spelled`), `text_at_least_one_per_symbol`;
* liveness for **every dictionary**: `shortest_path_terminates`, `fuel_suffices`, `find_intervals_valid`
  (no premise at all), `shortest_path_complete`, `fallback_edge`, `no_path_panic`, `nonempty_result`;
* under `HasWord`: `one_char_per_symbol`, `display_is_concat` (+ `char_symbols_displayed`), `provenance`,
  `selection_shown` (C04);
* the full statement `C03_full` (`Holds` = `live` + `tiling` for every dictionary + `chars` under `HasWord`),
  `C03_full_refuted` (F31 witness), `C03_partial` (only `CompValid` added); witnesses for every class
  (`invalid_selection_panics`, `invalid_selection_not_shown`, `no_word_chewing_spelling`,
  `no_word_simple_spelling`, `spelling_glued`, `empty_key_harmless`) and non-vacuity examples with and
  without `HasWord`.

Not covered by a theorem here: that editor histories only reach `CompValid` compositions (C04's
`CompInv`/`TextInv`/`SylInv`, to be bridged), and that the concrete dictionaries satisfy `WellFormed`
(a fact about data: C09/C11/C20).
-/
namespace Chewing.C03
open Chewing Chewing.Conv

variable {pick : Nat → List Path → Nat} {eng : Engine} {d : Dict} {c : Composition}
  {alts : List (List Interval)}

/-! ## The engines, uniformly: chain form and per-interval facts -/

/-- every alternative of every engine is a chain of non-empty intervals from `0` to `len` — for every
    dictionary -/
theorem alt_chain (hc : CompValid c) (h : convert pick eng d c = .ok alts) :
    ∀ alt ∈ alts, IvChain 0 c.symbols.length alt := by
  intro alt halt
  cases eng with
  | chewing => exact (convertChewing_inv1 hc h alt halt).1
  | fuzzy => exact (convertChewing_inv1 hc h alt halt).1
  | simple =>
    cases Outcome.ok.inj h
    rw [convertSimple_eq, List.mem_singleton] at halt
    exact halt ▸ convertSimple_chain hc

/-- **tiles**: every alternative of every engine tiles `0..len`: starts at `0`, contiguous and
    non-overlapping, every interval non-empty, ends at the buffer length — for every dictionary -/
theorem tiles (hc : CompValid c) (h : convert pick eng d c = .ok alts) :
    ∀ alt ∈ alts, Tiling alt c.symbols.length :=
  fun alt halt => (alt_chain hc h alt halt).tiling

/-- the per-interval text invariant of every engine, without `HasWord` -/
theorem text_inv (hc : CompValid c) (hw : WellFormed d) (h : convert pick eng d c = .ok alts) :
    ∀ alt ∈ alts, ∀ iv ∈ alt, IvInv3 d eng.strategy c iv := by
  intro alt halt iv hiv
  cases eng with
  | chewing => exact convertChewing_inv3 hc hw h alt halt iv hiv
  | fuzzy => exact convertChewing_inv3 hc hw h alt halt iv hiv
  | simple =>
    cases Outcome.ok.inj h
    exact simple_inv3 hc hw (mem_convertSimple halt hiv)

/-- **text_shape** (the one-character clause, exact, for every dictionary): every interval's text is the
    concatenation of one piece per covered symbol, each piece a single character — except that a syllable
    without a word under the engine's strategy that no selection covers may appear as its Bopomofo
    spelling (the fallback interval of F30, possibly glued to its neighbours by `glue_fn`) -/
theorem text_shape (hc : CompValid c) (hw : WellFormed d) (h : convert pick eng d c = .ok alts) :
    ∀ alt ∈ alts, ∀ iv ∈ alt, SpelledText d eng.strategy c iv.start iv.stop iv.text :=
  fun alt halt iv hiv => (text_inv hc hw h alt halt iv hiv).shape

/-- **one_char_or_spelling**: an interval that is not a product of `glue_fn` (no `Glue` gap strictly
    inside it) has exactly one character per symbol, or it is *the* fallback interval: one word-less,
    unselected syllable shown as exactly its spelling -/
theorem one_char_or_spelling (hc : CompValid c) (hw : WellFormed d) (h : convert pick eng d c = .ok alts) :
    ∀ alt ∈ alts, ∀ iv ∈ alt, NoGlueInside c iv.start iv.stop →
      iv.text.length = iv.stop - iv.start ∨ Spelled d eng.strategy c iv :=
  fun alt halt iv hiv => (text_inv hc hw h alt halt iv hiv).single

/-- **one_char_per_symbol**: with a word for every syllable each interval's text has exactly as many
    characters as symbols it covers -/
theorem one_char_per_symbol (hc : CompValid c) (hw : WellFormed d) (hh : HasWord d eng.strategy c)
    (h : convert pick eng d c = .ok alts) :
    ∀ alt ∈ alts, ∀ iv ∈ alt, iv.text.length = iv.stop - iv.start :=
  fun alt halt iv hiv => (text_shape hc hw h alt halt iv hiv).length_hasWord hh

/-- **text_at_least_one_per_symbol**: without `HasWord`, no interval is shorter than its range (as long
    as no buffered syllable has an empty spelling; `spell 0 = []`) -/
theorem text_at_least_one_per_symbol (hc : CompValid c) (hw : WellFormed d) (hn : SpellNonempty c)
    (h : convert pick eng d c = .ok alts) :
    ∀ alt ∈ alts, ∀ iv ∈ alt, iv.stop - iv.start ≤ iv.text.length :=
  fun alt halt iv hiv => (text_shape hc hw h alt halt iv hiv).length_ge hn

/-- **char_symbols_verbatim**: a non-syllable symbol appears unchanged as an interval of its own at its
    own position, in every alternative — for every dictionary -/
theorem char_symbols_verbatim (hc : CompValid c) (h : convert pick eng d c = .ok alts)
    {i cp : Nat} (hi : c.symbols[i]? = some (Sym.chr cp)) :
    ∀ alt ∈ alts, ({ start := i, stop := i + 1, isPhrase := false, text := [cp] } : Interval) ∈ alt := by
  intro alt halt
  have hlen : i < c.symbols.length := (List.getElem?_eq_some_iff.mp hi).1
  have key : ∀ (strat : Strategy), (∀ iv ∈ alt, IvInv1 d strat c iv) → IvChain 0 c.symbols.length alt →
      ({ start := i, stop := i + 1, isPhrase := false, text := [cp] } : Interval) ∈ alt := by
    intro strat hinv hchain
    obtain ⟨iv, hm, h1, h2⟩ := hchain.covers (Nat.zero_le i) hlen
    have inv := hinv iv hm
    cases hp : iv.isPhrase with
    | true =>
      obtain ⟨k, hk⟩ := inv.phraseSyl hp i h1 h2
      rw [hi] at hk
      cases hk
    | false =>
      obtain ⟨j, cp', hj, rfl⟩ := inv.nonPhrase hp
      simp only at h1 h2
      have : j = i := by omega
      subst this
      rw [hi] at hj
      cases hj
      exact hm
  cases eng with
  | chewing => exact key _ (convertChewing_inv1 hc h alt halt).2 (convertChewing_inv1 hc h alt halt).1
  | fuzzy => exact key _ (convertChewing_inv1 hc h alt halt).2 (convertChewing_inv1 hc h alt halt).1
  | simple =>
    cases Outcome.ok.inj h
    rw [convertSimple_eq, List.mem_singleton] at halt
    subst halt
    exact (sortByStart_perm _).mem_iff.mpr (simple_char hc hi)

/-- **display_is_concat**: in the pre-edit string (`Editor::display` = concatenation of the interval
    texts) every interval's text sits exactly over the symbols it covers; the string has `len` characters -/
theorem display_is_concat (hc : CompValid c) (hw : WellFormed d) (hh : HasWord d eng.strategy c)
    (h : convert pick eng d c = .ok alts) :
    ∀ alt ∈ alts, (display alt).length = c.symbols.length ∧ ∀ iv ∈ alt, textAt alt iv.start iv.stop = iv.text := by
  intro alt halt
  have hchain := alt_chain hc h alt halt
  have hlen := one_char_per_symbol hc hw hh h alt halt
  exact ⟨by rw [display_length hchain hlen, Nat.sub_zero], fun iv hiv => textAt_interval hchain hlen hiv⟩

/-- … in particular a non-syllable symbol is displayed unchanged at its own position -/
theorem char_symbols_displayed (hc : CompValid c) (hw : WellFormed d) (hh : HasWord d eng.strategy c)
    (h : convert pick eng d c = .ok alts) {i cp : Nat} (hi : c.symbols[i]? = some (Sym.chr cp)) :
    ∀ alt ∈ alts, textAt alt i (i + 1) = [cp] := by
  intro alt halt
  exact (display_is_concat hc hw hh h alt halt).2 _ (char_symbols_verbatim hc h hi alt halt)

/-- **provenance_general** (every dictionary): every text is a non-syllable symbol itself, a phrase the
    dictionary returns (under the engine's strategy) for exactly the covered syllables, the text of an
    explicit selection over exactly its range, the spelling of a word-less unselected syllable, or such
    texts joined across `Glue` gaps -/
theorem provenance_general (hc : CompValid c) (h : convert pick eng d c = .ok alts) :
    ∀ alt ∈ alts, ∀ iv ∈ alt, ProvS d eng.strategy c iv := by
  intro alt halt iv hiv
  cases eng with
  | chewing => exact ((convertChewing_inv1 hc h alt halt).2 iv hiv).prov
  | fuzzy => exact ((convertChewing_inv1 hc h alt halt).2 iv hiv).prov
  | simple =>
    cases Outcome.ok.inj h
    exact simple_provS (mem_convertSimple halt hiv)

/-- **provenance**: with a word for every syllable the spelling never occurs -/
theorem provenance (hc : CompValid c) (hh : HasWord d eng.strategy c) (h : convert pick eng d c = .ok alts) :
    ∀ alt ∈ alts, ∀ iv ∈ alt, Prov d eng.strategy c iv :=
  fun alt halt iv hiv => provS_hasWord hh (provenance_general hc h alt halt iv hiv)

/-- the simple engine, unglued form: `Prov` or the spelling of a word-less syllable (F30) -/
theorem provenance_simple (h : convert pick .simple d c = .ok alts) :
    ∀ alt ∈ alts, ∀ iv ∈ alt, Prov d .standard c iv ∨ spellingShown d c iv := by
  intro alt halt iv hiv
  cases Outcome.ok.inj h
  exact simple_prov (mem_convertSimple halt hiv)

/-! ## Obligations of C04 discharged here

The conversion-dependent half of C04 ("selections and break points are honoured"): C04 proves that the
editor / `Composition` operations keep `CompValid`-style invariants and selections; these two theorems
say what every engine then does with them. -/

/-- **selection_shown** (C04): a selection's text is shown over its range, in every alternative of every engine -/
theorem selection_shown (hc : CompValid c) (hw : WellFormed d) (hh : HasWord d eng.strategy c)
    (h : convert pick eng d c = .ok alts) {x : Interval} (hx : x ∈ c.selections) :
    ∀ alt ∈ alts, textAt alt x.start x.stop = x.text := by
  intro alt halt
  have hchain := alt_chain hc h alt halt
  have hlen := one_char_per_symbol hc hw hh h alt halt
  have hv := hc.sels x hx
  have key : ∀ (strat : Strategy), (∀ iv ∈ alt, IvInv1 d strat c iv) → (∀ iv ∈ alt, IvInv2 c iv) →
      textAt alt x.start x.stop = x.text := by
    intro strat h1 h2
    obtain ⟨iv, hm, i1, i2⟩ := hchain.covers (Nat.zero_le x.start) (Nat.lt_of_lt_of_le hv.nonempty hv.inRange)
    have hcont := (h1 iv hm).selCont x hx (intersectRange_eq_true.mpr (by have := hv.nonempty; omega))
    have hag := (h2 iv hm).selAgree x hx hcont.1 hcont.2
    have := textAt_sub hchain hlen hm (k := x.start - iv.start) (m := x.stop - x.start) (by have := hv.nonempty; omega)
    rw [show iv.start + (x.start - iv.start) = x.start by omega,
      show x.start + (x.stop - x.start) = x.stop by have := hv.nonempty; omega] at this
    rw [this, hag]
  cases eng with
  | chewing => exact key _ (convertChewing_inv1 hc h alt halt).2 (convertChewing_inv2 hc hw hh h alt halt)
  | fuzzy => exact key _ (convertChewing_inv1 hc h alt halt).2 (convertChewing_inv2 hc hw hh h alt halt)
  | simple =>
    cases Outcome.ok.inj h
    have hm : x ∈ alt := by
      rw [convertSimple_eq, List.mem_singleton] at halt
      subst halt
      exact (sortByStart_perm _).mem_iff.mpr (List.mem_append_right _ hx)
    exact textAt_interval hchain hlen hm

/-- a selection is an interval of its own, or inside one: in every alternative of every engine and for
    every dictionary the interval covering a selection's first symbol contains the whole selection -/
theorem selection_not_split (hc : CompValid c) (h : convert pick eng d c = .ok alts)
    {x : Interval} (hx : x ∈ c.selections) :
    ∀ alt ∈ alts, ∃ iv ∈ alt, iv.start ≤ x.start ∧ x.stop ≤ iv.stop := by
  intro alt halt
  have hchain := alt_chain hc h alt halt
  have hv := hc.sels x hx
  cases eng with
  | chewing =>
    obtain ⟨iv, hm, i1, i2⟩ := hchain.covers (Nat.zero_le x.start) (Nat.lt_of_lt_of_le hv.nonempty hv.inRange)
    exact ⟨iv, hm, ((convertChewing_inv1 hc h alt halt).2 iv hm).selCont x hx
      (intersectRange_eq_true.mpr (by have := hv.nonempty; omega))⟩
  | fuzzy =>
    obtain ⟨iv, hm, i1, i2⟩ := hchain.covers (Nat.zero_le x.start) (Nat.lt_of_lt_of_le hv.nonempty hv.inRange)
    exact ⟨iv, hm, ((convertChewing_inv1 hc h alt halt).2 iv hm).selCont x hx
      (intersectRange_eq_true.mpr (by have := hv.nonempty; omega))⟩
  | simple =>
    cases Outcome.ok.inj h
    rw [convertSimple_eq, List.mem_singleton] at halt
    subst halt
    exact ⟨x, (sortByStart_perm _).mem_iff.mpr (List.mem_append_right _ hx), Nat.le_refl _, Nat.le_refl _⟩

/-- **break_not_spanned** (C04): no output interval of any alternative spans a `Break` gap — for every
    dictionary -/
theorem break_not_spanned (hc : CompValid c) (h : convert pick eng d c = .ok alts)
    {i : Nat} (hb : gapAt c i = some Gap.brk) :
    ∀ alt ∈ alts, ∀ iv ∈ alt, ¬ (iv.start < i ∧ i < iv.stop) := by
  intro alt halt iv hiv ⟨h1, h2⟩
  cases eng with
  | chewing => exact ((convertChewing_inv1 hc h alt halt).2 iv hiv).noBreak i h1 h2 hb
  | fuzzy => exact ((convertChewing_inv1 hc h alt halt).2 iv hiv).noBreak i h1 h2 hb
  | simple =>
    cases Outcome.ok.inj h
    exact simple_noBreak hc (mem_convertSimple halt hiv) i h1 h2 hb

/-! ## Liveness: a result exists (no panic, the fuel suffices) -/

/-- **termination / fuel sufficiency** of the two `while` loops (`'bfs`, path walk-back): on a graph of
    valid edges `shortest_path` never exhausts the fuel `shortestPath` supplies (`len + 2` dequeues,
    `len + 1` walk-back steps) and never panics, for every `removed_edges` state and source -/
theorem shortest_path_terminates {es : List Edge} {len : Nat} (hv : EdgesValid len es) (removed : List Nat)
    {source : Nat} (hs : source ≤ len) : ∃ r, shortestPath es len removed source = .ok r :=
  shortestPath_total hv removed hs

/-- **fuel_suffices**: on a valid composition no engine ever exhausts the model's fuel, whatever the
    dictionary holds and whatever the oracle answers: the outcome is a result or a (modelled) panic -/
theorem fuel_suffices (hc : CompValid c) : convert pick eng d c ≠ .outOfFuel := by
  cases eng with
  | chewing => exact convertChewing_ne hc
  | fuzzy => exact convertChewing_ne hc
  | simple => simp [convert]

/-- … and the graph `find_intervals` builds is such a graph, for every composition and dictionary (an
    empty range is never an edge, F39 repaired) -/
theorem find_intervals_valid {strat : Strategy} {es : List Edge}
    (h : findIntervals d strat c = .ok es) : EdgesValid c.symbols.length es :=
  edgesValid_of_findIntervals h

/-- … and BFS is complete: it finds a path whenever the graph has one (first call: nothing removed) -/
theorem shortest_path_complete {es : List Edge} {len : Nat} (hv : EdgesValid len es) {p : Path}
    (hp : IsChain es 0 len p) : ∃ p', shortestPath es len [] 0 = .ok (some p') :=
  shortestPath_complete hv [] hp (fun _ _ _ _ h => by cases h)

/-- the interval graph of a valid composition always has an edge over a symbol no selection covers: the
    best word, or — for a syllable without an acceptable word — its spelling (F02 / F03 repaired) -/
theorem fallback_edge {strat : Strategy} (hc : CompValid c) {i : Nat} (hi : i < c.symbols.length) (hf : Free c i) :
    ∃ ph, findBestPhrase d strat c i (i + 1) = .ok (some ph) :=
  edge_of_free hc hi hf

/-- the raw k-shortest paths exist for **every dictionary**: the `unwrap()` of F02 cannot fire, no index
    is out of range, the fuel suffices — no bound on frequencies needed -/
theorem no_path_panic {strat : Strategy} (hp : PickInRange pick) (hc : CompValid c) :
    ∃ paths, rawPaths pick d strat c = .ok paths ∧ paths ≠ [] ∧ trimPaths paths ≠ [] := by
  obtain ⟨_, paths, _, h1, h2, h3⟩ := rawPaths_live (d := d) (strat := strat) hp hc
  exact ⟨paths, h1, h2, h3⟩

/-- **nonempty_result**: every engine returns at least one alternative on every valid composition,
    **whatever the dictionary holds** — no panic, no exhausted fuel (`ScoreBound` keeps the `i32` score
    arithmetic of the debug profile in range) -/
theorem nonempty_result (hp : PickInRange pick) (hc : CompValid c) (hb : ScoreBound d eng.strategy c) :
    ∃ alts, convert pick eng d c = .ok alts ∧ alts ≠ [] := by
  cases eng with
  | chewing => exact convertChewing_live hp hc hb
  | fuzzy => exact convertChewing_live hp hc hb
  | simple => exact ⟨_, rfl, by simp [convertSimple]⟩

/-- the canonical oracle (first candidate of minimal length) is in range -/
theorem pickFirstMin_inRange : PickInRange pickFirstMin := by
  intro kth cands hne
  unfold pickFirstMin
  cases hm : (cands.map (·.length)).min? with
  | none =>
    simp only
    exact List.length_pos_iff.mpr hne
  | some m =>
    simp only
    cases hf : cands.findIdx? (fun p => decide (p.length = m)) with
    | none => exact List.length_pos_iff.mpr hne
    | some i => exact (List.findIdx?_eq_some_iff_findIdx_eq.mp hf).1

/-! ## The full statement, its refutation (F31) and the partial theorem -/

/-- everything C03 (and the conversion half of C04) claims about one conversion: `live` and `tiling` for
    every dictionary, `chars` for "a dictionary that has at least one word per syllable" -/
structure Holds (pick : Nat → List Path → Nat) (eng : Engine) (d : Dict) (c : Composition) : Prop where
  /-- a result exists: no panic, no exhausted fuel, at least one alternative -/
  live : ∃ alts, convert pick eng d c = .ok alts ∧ alts ≠ []
  /-- tiling, verbatim non-syllables, breaks, selections kept whole, and the exact text shape -/
  tiling : ∀ alts, convert pick eng d c = .ok alts → ∀ alt ∈ alts,
    Tiling alt c.symbols.length ∧
    (∀ i cp, c.symbols[i]? = some (Sym.chr cp) →
      ({ start := i, stop := i + 1, isPhrase := false, text := [cp] } : Interval) ∈ alt) ∧
    (∀ i, gapAt c i = some Gap.brk → ∀ iv ∈ alt, ¬ (iv.start < i ∧ i < iv.stop)) ∧
    (∀ x ∈ c.selections, ∃ iv ∈ alt, iv.start ≤ x.start ∧ x.stop ≤ iv.stop) ∧
    (∀ iv ∈ alt, ProvS d eng.strategy c iv ∧ SpelledText d eng.strategy c iv.start iv.stop iv.text ∧
      (NoGlueInside c iv.start iv.stop → iv.text.length = iv.stop - iv.start ∨ Spelled d eng.strategy c iv))
  /-- one character per symbol when every syllable has a word -/
  chars : HasWord d eng.strategy c → ∀ alts, convert pick eng d c = .ok alts → ∀ alt ∈ alts,
    (∀ iv ∈ alt, iv.text.length = iv.stop - iv.start ∧ Prov d eng.strategy c iv ∧
      textAt alt iv.start iv.stop = iv.text) ∧
    (display alt).length = c.symbols.length ∧
    (∀ x ∈ c.selections, textAt alt x.start x.stop = x.text)

/-- the property as worded: every composition the public API can build (only the invariant of the Rust
    type is assumed), every dictionary (the one-character clause: every dictionary with a word per syllable) -/
def C03_full : Prop :=
  ∀ pick eng d c, PickInRange pick → c.symbols.length = c.gaps.length → WellFormed d →
    ScoreBound d eng.strategy c → Holds pick eng d c

/-- the partial theorem: the extra hypothesis `CompValid c` excludes exactly the class
    `F31-invalid-selection` (a selection that is empty / out of range / of the wrong text length / over
    a non-syllable / across a break / intersecting another).  No premise on the dictionary's words. -/
theorem C03_partial : ∀ pick eng d c, PickInRange pick → CompValid c → WellFormed d →
    ScoreBound d eng.strategy c → Holds pick eng d c := by
  intro pick eng d c hp hc hw hb
  refine ⟨nonempty_result hp hc hb, ?_, ?_⟩
  · intro alts h alt halt
    refine ⟨tiles hc h alt halt, ?_, ?_, ?_, ?_⟩
    · intro i cp hi
      exact char_symbols_verbatim hc h hi alt halt
    · intro i hb' iv hiv
      exact break_not_spanned hc h hb' alt halt iv hiv
    · intro x hx
      exact selection_not_split hc h hx alt halt
    · intro iv hiv
      exact ⟨provenance_general hc h alt halt iv hiv, text_shape hc hw h alt halt iv hiv,
        one_char_or_spelling hc hw h alt halt iv hiv⟩
  · intro hh alts h alt halt
    have hdisp := display_is_concat hc hw hh h alt halt
    refine ⟨?_, hdisp.1, ?_⟩
    · intro iv hiv
      exact ⟨one_char_per_symbol hc hw hh h alt halt iv hiv, provenance hc hh h alt halt iv hiv, hdisp.2 iv hiv⟩
    · intro x hx
      exact selection_shown hc hw hh h hx alt halt

/-! ### witnesses -/

/-- `ㄘㄜˋ` (10268), `ㄕˋ` (1100): 測 試 冊, 測試 -/
def dEx : Dict := Dict.ofEntries
  [([10268], ⟨[28204], 5, none⟩), ([10268], ⟨[20874], 5, none⟩), ([1100], ⟨[35430], 3, none⟩),
   ([10268, 1100], ⟨[28204, 35430], 100, none⟩)]

theorem dEx_ok : NoEmptyKey dEx ∧ WellFormed dEx :=
  ⟨noEmptyKey_ofEntries (by decide), wellFormed_ofEntries (by decide)⟩

/-- F31, wrong text length: `[ㄘㄜˋ]` + `push_selection(0..1, "冊冊冊")` -/
def cWrongLen : Composition :=
  { symbols := [.syl 10268], gaps := [.begin], selections := [⟨0, 1, true, [20874, 20874, 20874]⟩] }

/-- **C03_full_refuted** (F31): without `CompValid` the statement is false — a selection whose text has
    the wrong length is shown verbatim: 3 characters for 1 symbol (a syllable that *has* words) -/
theorem C03_full_refuted : ¬ C03_full := by
  intro h
  have hh := h pickFirstMin .simple dEx cWrongLen pickFirstMin_inRange rfl dEx_ok.2
    (scoreBound_ofEntries (by decide) (by decide))
  have hconv : convert pickFirstMin .simple dEx cWrongLen = .ok [[⟨0, 1, true, [20874, 20874, 20874]⟩]] := by decide
  have := (hh.chars (by decide) _ hconv _ (List.mem_singleton.mpr rfl)).1
    ⟨0, 1, true, [20874, 20874, 20874]⟩ (List.mem_singleton.mpr rfl)
  exact absurd this.1 (by decide)

/-- F31, a selection left over a replaced symbol (`push(ㄘㄜˋ); push(ㄕˋ); push_selection(0..2, "測試");
    replace(0, 'a')`): the Chewing engine panics on `unwrap()` (no path) -/
theorem invalid_selection_panics :
    convert pickFirstMin .chewing dEx
      { symbols := [.chr 97, .syl 1100], gaps := [.begin, .normal], selections := [⟨0, 2, true, [28204, 35430]⟩] }
      = .panic "called `Option::unwrap()` on a `None` value (no path)" := by decide

/-- F31, `push(ㄘㄜˋ); push_selection(0..1, "冊"); replace(0, 'A')`: the selection is silently not shown -/
theorem invalid_selection_not_shown :
    convert pickFirstMin .chewing dEx
      { symbols := [.chr 65], gaps := [.begin], selections := [⟨0, 1, true, [20874]⟩] }
      = .ok [[⟨0, 1, false, [65]⟩]] := by decide

/-- F02 repaired / F30: a syllable without a word no longer makes the Chewing engine panic; it shows the
    Bopomofo spelling, 3 characters (`ㄘㄜˋ`) for 1 symbol … -/
theorem no_word_chewing_spelling :
    convert pickFirstMin .chewing (Dict.ofEntries []) { symbols := [.syl 10268], gaps := [.begin] }
      = .ok [[⟨0, 1, true, [12568, 12572, 715]⟩]] := by decide

/-- … exactly as the simple engine does (F30) -/
theorem no_word_simple_spelling :
    convert pickFirstMin .simple (Dict.ofEntries []) { symbols := [.syl 10268], gaps := [.begin] }
      = .ok [[⟨0, 1, true, [12568, 12572, 715]⟩]] := by decide

/-- F39 repaired at the engine: an entry under the empty key no longer yields a `(0, 0)` edge (the index
    `start * len + end - 1` used to underflow); the conversion is what it is without that entry -/
theorem empty_key_harmless :
    convert pickFirstMin .chewing (Dict.ofEntries [([], ⟨[28204], 1, none⟩), ([10268], ⟨[28204], 1, none⟩)])
      { symbols := [.syl 10268], gaps := [.begin] }
      = .ok [[⟨0, 1, true, [28204]⟩]] := by decide

/-- the fallback interval is a phrase interval for `glue_fn`: glued to a neighbour its spelling sits inside
    a longer interval (why `one_char_or_spelling` asks for `NoGlueInside`, and `text_shape` does not):
    10268 has a word, 1100 has none under this dictionary (4 characters for 2 symbols) -/
theorem spelling_glued :
    convert pickFirstMin .chewing (Dict.ofEntries [([10268], ⟨[28204], 5, none⟩)])
      { symbols := [.syl 10268, .syl 1100], gaps := [.begin, .glue] }
      = .ok [[⟨0, 2, true, [28204, 12550, 12578, 715]⟩]] := by decide

/-- non-vacuity: a composition with a selection, a break, a glue mark and a character satisfies every
    hypothesis, and this is what the three engines return for it -/
def cEx : Composition :=
  { symbols := [.syl 10268, .syl 1100, .syl 10268, .syl 1100, .chr 97, .syl 10268],
    gaps := [.begin, .normal, .glue, .brk, .normal, .normal],
    selections := [⟨0, 1, true, [20874]⟩] }

example : CompValid cEx ∧ HasWord dEx .standard cEx ∧ HasWord dEx .fuzzyPartialPrefix cEx ∧
    ScoreBound dEx .standard cEx :=
  ⟨by decide, by decide, by decide, scoreBound_ofEntries (by decide) (by decide)⟩

example : convert pickFirstMin .chewing dEx cEx =
    .ok [[⟨0, 1, true, [20874]⟩, ⟨1, 3, true, [35430, 28204]⟩, ⟨3, 4, true, [35430]⟩, ⟨4, 5, false, [97]⟩,
          ⟨5, 6, true, [28204]⟩]] := by decide

example : convert pickFirstMin .simple dEx cEx =
    .ok [[⟨0, 1, true, [20874]⟩, ⟨1, 2, true, [35430]⟩, ⟨2, 3, true, [28204]⟩, ⟨3, 4, true, [35430]⟩,
          ⟨4, 5, false, [97]⟩, ⟨5, 6, true, [28204]⟩]] := by decide

example : Holds pickFirstMin .chewing dEx cEx :=
  C03_partial _ _ _ _ pickFirstMin_inRange (by decide) dEx_ok.2 (scoreBound_ofEntries (by decide) (by decide))

/-- non-vacuity of the word-less case: the same composition over a dictionary that has no word for 1100
    is valid, does not satisfy `HasWord`, and `Holds` all the same -/
def dNoShi : Dict := Dict.ofEntries [([10268], ⟨[28204], 5, none⟩), ([10268], ⟨[20874], 5, none⟩)]

example : CompValid cEx ∧ ¬ HasWord dNoShi .standard cEx ∧ SpellNonempty cEx := ⟨by decide, by decide, by
  intro k hk
  simp only [cEx, List.mem_cons, Sym.syl.injEq, List.not_mem_nil, or_false, reduceCtorEq] at hk
  rcases hk with rfl | rfl | rfl | rfl | hk | rfl <;> first | decide | cases hk⟩

example : Holds pickFirstMin .chewing dNoShi cEx :=
  C03_partial _ _ _ _ pickFirstMin_inRange (by decide) (wellFormed_ofEntries (by decide))
    (scoreBound_ofEntries (by decide) (by decide))

example : convert pickFirstMin .chewing dNoShi cEx =
    .ok [[⟨0, 1, true, [20874]⟩, ⟨1, 3, true, [12550, 12578, 715, 28204]⟩, ⟨3, 4, true, [12550, 12578, 715]⟩,
          ⟨4, 5, false, [97]⟩, ⟨5, 6, true, [28204]⟩]] := by decide

end Chewing.C03
