import Chewing.Proofs.ConvChewing
import Chewing.Proofs.ConvSimpleInv
/-!
# C03 — Conversion always tiles the whole buffer, one output character per symbol

Model: `Chewing.Model.Conversion` (`ChewingEngine`: `find_best_phrase`, `find_intervals`,
`shortest_path`, `find_k_paths`, `trim_paths`, scoring, stable sort, `glue_fn`; the fuzzy engine is the
same code with `LookupStrategy::FuzzyPartialPrefix`) and `Chewing.Model.ConversionSimple`
(`SimpleEngine`), over an *abstract* dictionary (`Dict` = the lookup function).  `convert pick eng d c`
is everything `ConversionEngine::convert(dict, comp)` yields, in order; `pick` is the oracle for the
one unspecified step (`sort_unstable_by_key` ties in `find_k_paths`): **every theorem holds for every
oracle**, dictionary, strategy and composition — induction over the code, no enumeration.

Preconditions (all explicit, `Chewing.Model.ConversionSpec`):
* `CompValid c` — `|symbols| = |gaps|` (invariant of the Rust type) and the selections are valid
  (non-empty, in range, text length = range length, over syllables only, no `Break` inside) and pairwise
  non-intersecting.  The public `Composition` API admits selections violating this (`push_selection`
  checks only `end ≤ len`; `replace` keeps a selection over the replaced symbol): known finding **F31**,
  class `F31-invalid-selection`; `C03_full_refuted` proves the statement without `CompValid` false.
* `NoEmptyKey d` — nothing is stored under the empty key (F39).
* `WellFormed d` — a phrase has as many characters as its key has syllables (needed wherever character
  counts matter).
* `HasWord d strat c` — every syllable has a one-syllable word; this is the quantifier of the property
  ("a dictionary that has at least one word per syllable").  Without it the Chewing engine panics (F02,
  `no_word_chewing_panics`) and the simple engine shows the Bopomofo spelling (F30, `no_word_simple_spelling`).

Section "obligations of C04 discharged here": `selection_shown`, `break_not_spanned`.
-/
namespace Chewing.C03
open Chewing Chewing.Conv

variable {pick : Nat → List Path → Nat} {eng : Engine} {d : Dict} {c : Composition}
  {alts : List (List Interval)}

/-! ## The engines, uniformly: chain form and per-interval facts -/

/-- every alternative of every engine is a chain of non-empty intervals from `0` to `len` -/
theorem alt_chain (hc : CompValid c) (hd : NoEmptyKey d) (h : convert pick eng d c = .ok alts) :
    ∀ alt ∈ alts, IvChain 0 c.symbols.length alt := by
  intro alt halt
  cases eng with
  | chewing => exact (convertChewing_inv1 hc hd h alt halt).1
  | fuzzy => exact (convertChewing_inv1 hc hd h alt halt).1
  | simple =>
    cases Outcome.ok.inj h
    rw [convertSimple_eq, List.mem_singleton] at halt
    exact halt ▸ convertSimple_chain hc

/-- **tiles**: every alternative of every engine tiles `0..len`: starts at `0`, contiguous and
    non-overlapping, every interval non-empty, ends at the buffer length -/
theorem tiles (hc : CompValid c) (hd : NoEmptyKey d) (h : convert pick eng d c = .ok alts) :
    ∀ alt ∈ alts, Tiling alt c.symbols.length :=
  fun alt halt => (alt_chain hc hd h alt halt).tiling

/-- **one_char_per_symbol**: each interval's text has exactly as many characters as symbols it covers -/
theorem one_char_per_symbol (hc : CompValid c) (hd : NoEmptyKey d) (hw : WellFormed d)
    (hs : eng = .simple → HasWord d .standard c) (h : convert pick eng d c = .ok alts) :
    ∀ alt ∈ alts, ∀ iv ∈ alt, iv.text.length = iv.stop - iv.start := by
  intro alt halt iv hiv
  cases eng with
  | chewing => exact (convertChewing_inv2 hc hd hw h alt halt iv hiv).len
  | fuzzy => exact (convertChewing_inv2 hc hd hw h alt halt iv hiv).len
  | simple =>
    cases Outcome.ok.inj h
    exact simple_len hc (hs rfl) hw (mem_convertSimple halt hiv)

/-- **char_symbols_verbatim**: a non-syllable symbol appears unchanged as an interval of its own at its
    own position, in every alternative -/
theorem char_symbols_verbatim (hc : CompValid c) (hd : NoEmptyKey d) (h : convert pick eng d c = .ok alts)
    {i cp : Nat} (hi : c.symbols[i]? = some (Sym.chr cp)) :
    ∀ alt ∈ alts, ({ start := i, stop := i + 1, isPhrase := false, text := [cp] } : Interval) ∈ alt := by
  intro alt halt
  have hlen : i < c.symbols.length := (List.getElem?_eq_some_iff.mp hi).1
  have key : ∀ (strat : Strategy), (∀ iv ∈ alt, IvInv1 d strat c iv) → IvChain 0 c.symbols.length alt →
      ({ start := i, stop := i + 1, isPhrase := false, text := [cp] } : Interval) ∈ alt := by
    intro strat hinv hchain
    obtain ⟨iv, hm, h1, h2⟩ := hchain.covers (Nat.zero_le i) hlen
    have inv := hinv iv hm
    cases hp : iv.isPhrase with
    | true =>
      obtain ⟨k, hk⟩ := inv.phraseSyl hp i h1 h2
      rw [hi] at hk
      cases hk
    | false =>
      obtain ⟨j, cp', hj, rfl⟩ := inv.nonPhrase hp
      simp only at h1 h2
      have : j = i := by omega
      subst this
      rw [hi] at hj
      cases hj
      exact hm
  cases eng with
  | chewing => exact key _ (convertChewing_inv1 hc hd h alt halt).2 (convertChewing_inv1 hc hd h alt halt).1
  | fuzzy => exact key _ (convertChewing_inv1 hc hd h alt halt).2 (convertChewing_inv1 hc hd h alt halt).1
  | simple =>
    cases Outcome.ok.inj h
    rw [convertSimple_eq, List.mem_singleton] at halt
    subst halt
    exact (sortByStart_perm _).mem_iff.mpr (simple_char hc hi)

/-- **display_is_concat**: in the pre-edit string (`Editor::display` = concatenation of the interval
    texts) every interval's text sits exactly over the symbols it covers; the string has `len` characters -/
theorem display_is_concat (hc : CompValid c) (hd : NoEmptyKey d) (hw : WellFormed d)
    (hs : eng = .simple → HasWord d .standard c) (h : convert pick eng d c = .ok alts) :
    ∀ alt ∈ alts, (display alt).length = c.symbols.length ∧ ∀ iv ∈ alt, textAt alt iv.start iv.stop = iv.text := by
  intro alt halt
  have hchain := alt_chain hc hd h alt halt
  have hlen := one_char_per_symbol hc hd hw hs h alt halt
  exact ⟨by rw [display_length hchain hlen, Nat.sub_zero], fun iv hiv => textAt_interval hchain hlen hiv⟩

/-- … in particular a non-syllable symbol is displayed unchanged at its own position -/
theorem char_symbols_displayed (hc : CompValid c) (hd : NoEmptyKey d) (hw : WellFormed d)
    (hs : eng = .simple → HasWord d .standard c) (h : convert pick eng d c = .ok alts)
    {i cp : Nat} (hi : c.symbols[i]? = some (Sym.chr cp)) :
    ∀ alt ∈ alts, textAt alt i (i + 1) = [cp] := by
  intro alt halt
  exact (display_is_concat hc hd hw hs h alt halt).2 _ (char_symbols_verbatim hc hd h hi alt halt)

/-- **provenance**: every text is a non-syllable symbol itself, a phrase the dictionary returns (under
    the engine's strategy) for exactly the covered syllables, the text of an explicit selection over
    exactly its range, or such texts joined across `Glue` gaps -/
theorem provenance (hc : CompValid c) (hd : NoEmptyKey d) (hs : eng = .simple → HasWord d .standard c)
    (h : convert pick eng d c = .ok alts) :
    ∀ alt ∈ alts, ∀ iv ∈ alt, Prov d eng.strategy c iv := by
  intro alt halt iv hiv
  cases eng with
  | chewing => exact ((convertChewing_inv1 hc hd h alt halt).2 iv hiv).prov
  | fuzzy => exact ((convertChewing_inv1 hc hd h alt halt).2 iv hiv).prov
  | simple =>
    cases Outcome.ok.inj h
    exact simple_prov_hasWord (hs rfl) (mem_convertSimple halt hiv)

/-- without `HasWord` the simple engine's only other source is the spelling of a word-less syllable (F30) -/
theorem provenance_simple (h : convert pick .simple d c = .ok alts) :
    ∀ alt ∈ alts, ∀ iv ∈ alt, Prov d .standard c iv ∨ spellingShown d c iv := by
  intro alt halt iv hiv
  cases Outcome.ok.inj h
  exact simple_prov (mem_convertSimple halt hiv)

/-! ## Obligations of C04 discharged here

The conversion-dependent half of C04 ("selections and break points are honoured"): C04 proves that the
editor / `Composition` operations keep `CompValid`-style invariants and selections; these two theorems
say what every engine then does with them. -/

/-- **selection_shown** (C04): a selection's text is shown over its range, in every alternative of every engine -/
theorem selection_shown (hc : CompValid c) (hd : NoEmptyKey d) (hw : WellFormed d)
    (hs : eng = .simple → HasWord d .standard c) (h : convert pick eng d c = .ok alts)
    {x : Interval} (hx : x ∈ c.selections) :
    ∀ alt ∈ alts, textAt alt x.start x.stop = x.text := by
  intro alt halt
  have hchain := alt_chain hc hd h alt halt
  have hlen := one_char_per_symbol hc hd hw hs h alt halt
  have hv := hc.sels x hx
  have key : ∀ (strat : Strategy), (∀ iv ∈ alt, IvInv1 d strat c iv) → (∀ iv ∈ alt, IvInv2 c iv) →
      textAt alt x.start x.stop = x.text := by
    intro strat h1 h2
    obtain ⟨iv, hm, i1, i2⟩ := hchain.covers (Nat.zero_le x.start) (Nat.lt_of_lt_of_le hv.nonempty hv.inRange)
    have hcont := (h1 iv hm).selCont x hx (intersectRange_eq_true.mpr (by have := hv.nonempty; omega))
    have hag := (h2 iv hm).selAgree x hx hcont.1 hcont.2
    have := textAt_sub hchain hlen hm (k := x.start - iv.start) (m := x.stop - x.start) (by have := hv.nonempty; omega)
    rw [show iv.start + (x.start - iv.start) = x.start by omega,
      show x.start + (x.stop - x.start) = x.stop by have := hv.nonempty; omega] at this
    rw [this, hag]
  cases eng with
  | chewing => exact key _ (convertChewing_inv1 hc hd h alt halt).2 (convertChewing_inv2 hc hd hw h alt halt)
  | fuzzy => exact key _ (convertChewing_inv1 hc hd h alt halt).2 (convertChewing_inv2 hc hd hw h alt halt)
  | simple =>
    cases Outcome.ok.inj h
    have hm : x ∈ alt := by
      rw [convertSimple_eq, List.mem_singleton] at halt
      subst halt
      exact (sortByStart_perm _).mem_iff.mpr (List.mem_append_right _ hx)
    exact textAt_interval hchain hlen hm

/-- **break_not_spanned** (C04): no output interval of any alternative spans a `Break` gap -/
theorem break_not_spanned (hc : CompValid c) (hd : NoEmptyKey d) (h : convert pick eng d c = .ok alts)
    {i : Nat} (hb : gapAt c i = some Gap.brk) :
    ∀ alt ∈ alts, ∀ iv ∈ alt, ¬ (iv.start < i ∧ i < iv.stop) := by
  intro alt halt iv hiv ⟨h1, h2⟩
  cases eng with
  | chewing => exact ((convertChewing_inv1 hc hd h alt halt).2 iv hiv).noBreak i h1 h2 hb
  | fuzzy => exact ((convertChewing_inv1 hc hd h alt halt).2 iv hiv).noBreak i h1 h2 hb
  | simple =>
    cases Outcome.ok.inj h
    exact simple_noBreak hc (mem_convertSimple halt hiv) i h1 h2 hb

end Chewing.C03
