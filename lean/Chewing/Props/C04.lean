import Chewing.Model.CompEditor
/-!
# C04 — user selections and break points are honoured until the user edits them (component level)

Stage A of DESIGN §12: everything that can be said about `Composition` (`src/conversion/mod.rs`)
alone, for *every* state and *every* operation (no bound on buffers, histories or texts).

What is proved here

* `len_assert_unreachable` — `symbols.len() == gaps.len()` in every state reachable from `new()`
  by any operation list, valid or not; the `assert_eq!` in `len()` cannot fire.
* `CompInv` (|symbols| = |gaps|, gap 0 = `Begin` and no other gap is `Begin`, every selection
  non-empty, inside `0..len`, pairwise disjoint) is preserved by every operation, with the single
  explicit precondition `ValidSelection` for `push_selection` (`inv_preserved`, `inv_run`).
  Without it the invariant breaks (`inv_preserved_refuted`; DESIGN F31: the public API accepts
  empty / reversed selections).  `TextInv` (one character per symbol of the range) likewise.
* `no_panic` — under `CompInv` and the documented index preconditions no operation panics
  (in particular the `end -= n` underflow is unreachable).
* `selections_after` — exact characterisation of the selections after each operation:
  `t ∈ c'.selections ↔ t is the pushed choice ∨ t = shift op s for an s ∈ c.selections the
  operation does not drop`.  Corollaries: `selection_survives` (a choice the operation does not
  edit inside is still present, shifted by the documented amount, same text),
  `selection_survives_run` (same over operation lists), `push_replaces_only_overlapping`,
  `dropped_only_if_edited_inside`.
* symbol frame equations for every operation (`insert_symbols`, … `symbols' = take i s ++ [x] ++
  drop i s`, …).
* gap frame: `gaps_after_*` pointwise equations, `break_survives` (a user break stays, at the
  shifted position, unless the operation touches that very gap: insert *at* it, remove the symbol
  after it, remove_front up to it, set_gap/replace on it, a new choice spanning it) and
  `break_origin` (a break after the operation is the image of a break before it, or was set by
  `set_gap(_, Break)`: no operation creates a break unasked).
* `selections_order_irrelevant` — under `CompInv` a selection is determined by its start (ranges
  are disjoint and non-empty), which is why modelling `swap_remove` by `filter` and comparing
  selections as sorted lists loses nothing.

Remaining obligations of C04 (NOT attempted here; they need the conversion engines and belong to
the C03 work package, stated over `convert` of that package):

* `selection_shown : CompInv c → (∀ s ∈ c.selections, ValidSelection c s) → s ∈ c.selections →
     ∀ p ∈ convert d c, textAt p s.start s.stop = s.text`
* `break_not_spanned : c.gaps[i]? = some .brk → ∀ p ∈ convert d c, ∀ iv ∈ p, ¬ (iv.start < i ∧ i < iv.stop)`
* the lift `choice_persists` to editor key histories (editor model; uses `selection_survives_run`,
  `break_survives` and the `CompEditor` lemmas of `Props/C05.lean`).
-/
namespace Chewing.C04
open Chewing

/-! ## Invariants -/

/-- two ranges do not overlap -/
def Disj (a b : Interval) : Prop := a.stop ≤ b.start ∨ b.stop ≤ a.start

/-- `symbols.len() == gaps.len()` -/
def LenInv (c : Composition) : Prop := c.symbols.length = c.gaps.length

/-- the composition invariant -/
structure CompInv (c : Composition) : Prop where
  len_eq : c.symbols.length = c.gaps.length
  gap_begin : ∀ j g, c.gaps[j]? = some g → (g = Gap.begin ↔ j = 0)
  sel_nonempty : ∀ s ∈ c.selections, s.start < s.stop
  sel_in : ∀ s ∈ c.selections, s.stop ≤ c.symbols.length
  sel_disj : c.selections.Pairwise Disj
  sel_no_break : ∀ s ∈ c.selections, ∀ j, s.start < j → j < s.stop → c.gaps[j]? ≠ some Gap.brk

/-- one output character per symbol of the selected range -/
def TextInv (c : Composition) : Prop := ∀ s ∈ c.selections, s.text.length = s.stop - s.start

/-- the precondition of `push_selection` (not checked by the code: DESIGN F31) -/
def ValidSelection (c : Composition) (s : Interval) : Prop := s.start < s.stop ∧ s.stop ≤ c.symbols.length

/-- the only precondition that is not an `assert!` -/
def ValidOp (c : Composition) : CompOp → Prop
  | .pushSelection iv => ValidSelection c iv
  | _ => True

/-- the documented (asserted) preconditions -/
def Asserted (c : Composition) : CompOp → Prop
  | .insert i _ => i ≤ c.symbols.length
  | .push _ => True
  | .remove i => i < c.symbols.length
  | .removeFront n => n ≤ c.symbols.length
  | .replace i _ => i < c.symbols.length
  | .setGap i g => i < c.symbols.length ∧ g ≠ .begin
  | .pushSelection iv => iv.stop ≤ c.symbols.length
  | .clear => True

/-! ## When does an operation succeed, and with what (the model, restated as equations) -/

theorem insert_ok {c : Composition} {i : Nat} {x : Sym} {c' : Composition} :
    c.insert i x = .ok c' ↔ LenInv c ∧ i ≤ c.symbols.length ∧
      c' = { symbols := insertAt c.symbols i x, gaps := Composition.insertGaps c.gaps i,
             selections := (c.selections.filter (fun s => !s.strictlyInside i)).map
               (fun s => if s.start ≥ i then s.shiftUp 1 else s) } := by
  unfold Composition.insert LenInv
  grind

theorem push_ok {c : Composition} {x : Sym} {c' : Composition} :
    c.push x = .ok c' ↔ c.insert c.symbols.length x = .ok c' := by
  simp [Composition.push, Composition.len]

theorem remove_ok {c : Composition} {i : Nat} {c' : Composition} :
    c.remove i = .ok c' ↔ LenInv c ∧ i < c.symbols.length ∧
      (∀ s ∈ c.selections, ¬ s.covers i → i < s.start → s.stop ≠ 0) ∧
      c' = { symbols := c.symbols.eraseIdx i, gaps := (c.gaps.eraseIdx i).set 0 .begin,
             selections := (c.selections.filter (fun s => !s.covers i)).map
               (fun s => if s.start ≤ i then s else s.shiftDown 1) } := by
  unfold Composition.remove LenInv
  grind

theorem removeFront_ok {c : Composition} {n : Nat} {c' : Composition} :
    c.removeFront n = .ok c' ↔ LenInv c ∧ n ≤ c.symbols.length ∧
      (∀ s ∈ c.selections, ¬ s.start < n → ¬ s.stop < n) ∧
      c' = { symbols := c.symbols.drop n, gaps := (c.gaps.drop n).set 0 .begin,
             selections := (c.selections.filter (fun s => !(decide (s.start < n)))).map
               (fun s => s.shiftDown n) } := by
  unfold Composition.removeFront LenInv
  grind

theorem setGap_ok {c : Composition} {i : Nat} {g : Gap} {c' : Composition} :
    c.setGap i g = .ok c' ↔ LenInv c ∧ i < c.symbols.length ∧ g ≠ .begin ∧
      c' = (if i = 0 then c else { c with
        selections := if g = .brk then c.selections.filter (fun s => !s.strictlyInside i) else c.selections
        gaps := c.gaps.set i g }) := by
  unfold Composition.setGap LenInv
  grind

theorem replace_ok {c : Composition} {i : Nat} {x : Sym} {c' : Composition} :
    c.replace i x = .ok c' ↔ LenInv c ∧ i < c.symbols.length ∧
      c' = { c with symbols := c.symbols.set i x, gaps := if i = 0 then c.gaps else c.gaps.set i .normal } := by
  unfold Composition.replace Composition.setGap LenInv
  grind

theorem pushSelection_ok {c : Composition} {iv : Interval} {c' : Composition} :
    c.pushSelection iv = .ok c' ↔ LenInv c ∧ iv.stop ≤ c.symbols.length ∧
      c' = { c with selections := c.selections.filter (fun s => !s.intersect iv) ++ [iv]
                    gaps := resetGaps c.gaps (iv.start + 1) iv.stop } := by
  unfold Composition.pushSelection LenInv
  grind

/-! ## `len()`'s assertion is unreachable -/

/-- whatever the operation and its arguments, a successful call leaves the two lengths equal -/
theorem len_preserved (c : Composition) (op : CompOp) (c' : Composition) (h : c.apply op = .ok c') : LenInv c' := by
  cases op with
  | insert i x =>
    obtain ⟨hl, hi, rfl⟩ := insert_ok.mp h
    simp only [LenInv, insertAt, Composition.insertGaps] at *
    grind
  | push x =>
    obtain ⟨hl, hi, rfl⟩ := insert_ok.mp (push_ok.mp h)
    simp only [LenInv, insertAt, Composition.insertGaps] at *
    grind
  | remove i =>
    obtain ⟨hl, hi, _, rfl⟩ := remove_ok.mp h
    simp only [LenInv] at *
    grind
  | removeFront n =>
    obtain ⟨hl, hi, _, rfl⟩ := removeFront_ok.mp h
    simp only [LenInv] at *
    grind
  | replace i x =>
    obtain ⟨hl, hi, rfl⟩ := replace_ok.mp h
    simp only [LenInv] at *
    grind
  | setGap i g =>
    obtain ⟨hl, hi, hg, rfl⟩ := setGap_ok.mp h
    simp only [LenInv] at *
    grind
  | pushSelection iv =>
    obtain ⟨hl, hi, rfl⟩ := pushSelection_ok.mp h
    simp only [LenInv, resetGaps] at *
    grind
  | clear =>
    simp only [Composition.apply, Composition.clear] at h
    cases h
    rfl

/-- under `LenInv` no operation panics at the `assert_eq!` of `len()` -/
theorem no_len_panic (c : Composition) (op : CompOp) (h : LenInv c) : c.apply op ≠ .panic "len" := by
  unfold LenInv at h
  cases op <;>
    simp only [Composition.apply, Composition.insert, Composition.push, Composition.len, Composition.remove,
      Composition.removeFront, Composition.replace, Composition.setGap, Composition.pushSelection] <;>
    (repeat' split) <;> simp_all

/-- the `assert_eq!(self.symbols.len(), self.gaps.len())` of `Composition::len()` holds in every state
    reachable from `new()` by any list of public calls — no precondition on indices or selections.
    (A caught panic leaves `symbols`/`gaps` untouched: every assertion and every selection loop
    precedes the first write to them.) -/
theorem len_assert_unreachable (ops : List CompOp) :
    ∀ c c', LenInv c → c.run ops = .ok c' → LenInv c' := by
  induction ops with
  | nil => intro c c' hc h; simp only [Composition.run] at h; cases h; exact hc
  | cons op ops ih =>
    intro c c' hc h
    simp only [Composition.run] at h
    split at h
    · next c1 h1 => exact ih c1 c' (len_preserved c op c1 h1) h
    · cases h
    · cases h

theorem lenInv_new : LenInv Composition.new := rfl

/-! ## Symbol frame: exactly one position changes, everything else keeps its place -/

theorem insert_symbols {c : Composition} {i : Nat} {x : Sym} {c' : Composition} (h : c.insert i x = .ok c') :
    i ≤ c.symbols.length ∧ c'.symbols = c.symbols.take i ++ [x] ++ c.symbols.drop i := by
  obtain ⟨_, hi, rfl⟩ := insert_ok.mp h
  simp [insertAt, hi]

theorem push_symbols {c : Composition} {x : Sym} {c' : Composition} (h : c.push x = .ok c') :
    c'.symbols = c.symbols ++ [x] := by
  obtain ⟨_, _, rfl⟩ := insert_ok.mp (push_ok.mp h)
  simp [insertAt]

theorem remove_symbols {c : Composition} {i : Nat} {c' : Composition} (h : c.remove i = .ok c') :
    i < c.symbols.length ∧ c'.symbols = c.symbols.take i ++ c.symbols.drop (i + 1) := by
  obtain ⟨_, hi, _, rfl⟩ := remove_ok.mp h
  simp [hi, List.eraseIdx_eq_take_drop_succ]

theorem removeFront_symbols {c : Composition} {n : Nat} {c' : Composition} (h : c.removeFront n = .ok c') :
    n ≤ c.symbols.length ∧ c'.symbols = c.symbols.drop n := by
  obtain ⟨_, hi, _, rfl⟩ := removeFront_ok.mp h
  simp [hi]

theorem replace_symbols {c : Composition} {i : Nat} {x : Sym} {c' : Composition} (h : c.replace i x = .ok c') :
    i < c.symbols.length ∧ c'.symbols = c.symbols.take i ++ [x] ++ c.symbols.drop (i + 1) := by
  obtain ⟨_, hi, rfl⟩ := replace_ok.mp h
  simp [hi, List.set_eq_take_append_cons_drop]

theorem setGap_symbols {c : Composition} {i : Nat} {g : Gap} {c' : Composition} (h : c.setGap i g = .ok c') :
    c'.symbols = c.symbols := by
  obtain ⟨_, _, _, rfl⟩ := setGap_ok.mp h
  split <;> rfl

theorem pushSelection_symbols {c : Composition} {iv : Interval} {c' : Composition} (h : c.pushSelection iv = .ok c') :
    c'.symbols = c.symbols := by
  obtain ⟨_, _, rfl⟩ := pushSelection_ok.mp h
  rfl

theorem clear_symbols (c : Composition) : c.clear.symbols = [] ∧ c.clear.gaps = [] ∧ c.clear.selections = [] := by
  simp [Composition.clear]

/-! ## Selections: exact characterisation, survival, replacement -/

/-- the operation drops the selection `s` (as coded) -/
def Drops (c : Composition) : CompOp → Interval → Prop
  | .insert i _, s => s.start < i ∧ i < s.stop
  | .push _, s => s.start < c.symbols.length ∧ c.symbols.length < s.stop
  | .remove i, s => s.start ≤ i ∧ i < s.stop
  | .removeFront n, s => s.start < n
  | .replace _ _, _ => False
  | .setGap i g, s => i ≠ 0 ∧ g = .brk ∧ s.start < i ∧ i < s.stop
  | .pushSelection t, s => s.intersect t = true
  | .clear, _ => True

/-- the operation edits inside the range of `s` (specification; differs from `Drops` only for
    `replace`, which as coded keeps a selection whose symbol it overwrites) -/
def EditsInside (c : Composition) : CompOp → Interval → Prop
  | .replace i _, s => s.start ≤ i ∧ i < s.stop
  | op, s => Drops c op s

/-- where a surviving selection is afterwards (same text, same `is_phrase`) -/
def shift (c : Composition) : CompOp → Interval → Interval
  | .insert i _, s => if s.start ≥ i then s.shiftUp 1 else s
  | .push _, s => if s.start ≥ c.symbols.length then s.shiftUp 1 else s
  | .remove i, s => if s.start ≤ i then s else s.shiftDown 1
  | .removeFront n, s => s.shiftDown n
  | _, s => s

theorem shift_text (c : Composition) (op : CompOp) (s : Interval) :
    (shift c op s).text = s.text ∧ (shift c op s).isPhrase = s.isPhrase := by
  cases op <;> simp only [shift] <;> (try split) <;> simp [Interval.shiftUp, Interval.shiftDown]

/-- under the invariant `push` never shifts or drops anything -/
theorem shift_push_of_inv {c : Composition} (hc : CompInv c) (x : Sym) (s : Interval) (hs : s ∈ c.selections) :
    shift c (.push x) s = s ∧ ¬ Drops c (.push x) s := by
  have h1 := hc.sel_nonempty s hs
  have h2 := hc.sel_in s hs
  simp only [shift, Drops]
  constructor
  · rw [if_neg (by omega)]
  · omega

/-- **Exact characterisation of the selections after an operation.** -/
theorem selections_after (c : Composition) (op : CompOp) (c' : Composition) (h : c.apply op = .ok c') (t : Interval) :
    t ∈ c'.selections ↔
      (∃ s ∈ c.selections, ¬ Drops c op s ∧ t = shift c op s) ∨ (op = .pushSelection t) := by
  cases op with
  | insert i x =>
    obtain ⟨_, _, rfl⟩ := insert_ok.mp h
    simp only [Drops, shift, List.mem_map, List.mem_filter, Interval.strictlyInside]
    grind
  | push x =>
    obtain ⟨_, _, rfl⟩ := insert_ok.mp (push_ok.mp h)
    simp only [Drops, shift, List.mem_map, List.mem_filter, Interval.strictlyInside]
    grind
  | remove i =>
    obtain ⟨_, _, _, rfl⟩ := remove_ok.mp h
    simp only [Drops, shift, List.mem_map, List.mem_filter, Interval.covers]
    grind
  | removeFront n =>
    obtain ⟨_, _, _, rfl⟩ := removeFront_ok.mp h
    simp only [Drops, shift, List.mem_map, List.mem_filter]
    grind
  | replace i x =>
    obtain ⟨_, _, rfl⟩ := replace_ok.mp h
    simp only [Drops, shift]
    grind
  | setGap i g =>
    obtain ⟨_, _, _, rfl⟩ := setGap_ok.mp h
    simp only [Drops, shift, Interval.strictlyInside]
    grind
  | pushSelection iv =>
    obtain ⟨_, _, rfl⟩ := pushSelection_ok.mp h
    simp only [Drops, shift, List.mem_append, List.mem_filter]
    grind
  | clear =>
    simp only [Composition.apply, Composition.clear] at h
    cases h
    simp [Drops]

/-- **C04, component level.**  A selection the operation does not edit inside is still present
    afterwards, shifted by the documented amount (`shift`), with the same text. -/
theorem selection_survives (c : Composition) (op : CompOp) (s : Interval) (hs : s ∈ c.selections)
    (hn : ¬ EditsInside c op s) (c' : Composition) (h : c.apply op = .ok c') :
    shift c op s ∈ c'.selections := by
  refine (selections_after c op c' h _).mpr (.inl ⟨s, hs, ?_, rfl⟩)
  cases op <;> simp_all [EditsInside, Drops]

/-- a selection disappears only if the operation edits inside it -/
theorem dropped_only_if_edited_inside (c : Composition) (op : CompOp) (s : Interval) (hs : s ∈ c.selections)
    (c' : Composition) (h : c.apply op = .ok c') (hgone : shift c op s ∉ c'.selections) : EditsInside c op s := by
  apply Classical.byContradiction
  intro hn
  exact hgone (selection_survives c op s hs hn c' h)

/-- `replace` keeps every selection (as coded, even one covering the replaced symbol) -/
theorem replace_keeps_selections {c : Composition} {i : Nat} {x : Sym} {c' : Composition}
    (h : c.replace i x = .ok c') : c'.selections = c.selections := by
  obtain ⟨_, _, rfl⟩ := replace_ok.mp h
  rfl

/-- **A new choice replaces only the choices it overlaps**: afterwards the selections are the new
    one and exactly the old ones that do not intersect it, unchanged. -/
theorem push_replaces_only_overlapping (c : Composition) (t : Interval) (c' : Composition)
    (h : c.pushSelection t = .ok c') (s : Interval) :
    s ∈ c'.selections ↔ s = t ∨ (s ∈ c.selections ∧ s.intersect t = false) := by
  obtain ⟨_, _, rfl⟩ := pushSelection_ok.mp h
  simp only [List.mem_append, List.mem_filter]
  grind

/-- list form: the survivors keep their relative order, the new choice comes last -/
theorem pushSelection_selections (c : Composition) (t : Interval) (c' : Composition)
    (h : c.pushSelection t = .ok c') :
    c'.selections = c.selections.filter (fun s => !s.intersect t) ++ [t] := by
  obtain ⟨_, _, rfl⟩ := pushSelection_ok.mp h
  rfl

/-! ## Gap frame: pointwise equations -/

theorem insertGaps_getElem? (g : List Gap) (i j : Nat) (h : i ≤ g.length) :
    (Composition.insertGaps g i)[j]? =
      if j = 0 then some Gap.begin
      else if j < i then g[j]?
      else if j = i then some Gap.normal
      else if j = i + 1 then (if i < g.length then some Gap.normal else none)
      else g[j - 1]? := by
  simp only [Composition.insertGaps, insertAt]
  grind

/-- gaps after `insert(i, _)`: gap `i` (now before the new symbol) and gap `i+1` (the old gap `i`,
    now after it) are `Normal`, gap 0 is `Begin`, everything else keeps its value and moves with its symbol -/
theorem gaps_after_insert {c : Composition} {i : Nat} {x : Sym} {c' : Composition} (h : c.insert i x = .ok c') (j : Nat) :
    c'.gaps[j]? =
      if j = 0 then some Gap.begin
      else if j < i then c.gaps[j]?
      else if j = i then some Gap.normal
      else if j = i + 1 then (if i < c.gaps.length then some Gap.normal else none)
      else c.gaps[j - 1]? := by
  obtain ⟨hl, hi, rfl⟩ := insert_ok.mp h
  exact insertGaps_getElem? c.gaps i j (by unfold LenInv at hl; omega)

/-- gaps after `remove(i)`: gap `i` goes with its symbol, later gaps move down, gap 0 is `Begin` -/
theorem gaps_after_remove {c : Composition} {i : Nat} {c' : Composition} (h : c.remove i = .ok c') (j : Nat) :
    c'.gaps[j]? =
      if j = 0 then (if 1 < c.gaps.length then some Gap.begin else none)
      else if j < i then c.gaps[j]? else c.gaps[j + 1]? := by
  obtain ⟨hl, hi, _, rfl⟩ := remove_ok.mp h
  unfold LenInv at hl
  grind

/-- gaps after `remove_front(n)` -/
theorem gaps_after_removeFront {c : Composition} {n : Nat} {c' : Composition} (h : c.removeFront n = .ok c') (j : Nat) :
    c'.gaps[j]? =
      if j = 0 then (if n < c.gaps.length then some Gap.begin else none) else c.gaps[n + j]? := by
  obtain ⟨hl, hi, _, rfl⟩ := removeFront_ok.mp h
  unfold LenInv at hl
  grind

/-- gaps after `set_gap(i, g)`: only gap `i` changes, and gap 0 never does -/
theorem gaps_after_setGap {c : Composition} {i : Nat} {g : Gap} {c' : Composition} (h : c.setGap i g = .ok c') (j : Nat) :
    c'.gaps[j]? = if j = i ∧ i ≠ 0 then some g else c.gaps[j]? := by
  obtain ⟨hl, hi, _, rfl⟩ := setGap_ok.mp h
  unfold LenInv at hl
  grind

/-- gaps after `replace(i, _)`: gap `i` becomes `Normal` (gap 0 stays `Begin`) -/
theorem gaps_after_replace {c : Composition} {i : Nat} {x : Sym} {c' : Composition} (h : c.replace i x = .ok c') (j : Nat) :
    c'.gaps[j]? = if j = i ∧ i ≠ 0 then some Gap.normal else c.gaps[j]? := by
  obtain ⟨hl, hi, rfl⟩ := replace_ok.mp h
  unfold LenInv at hl
  grind

/-- gaps after `push_selection(t)`: the gaps strictly inside the new range become `Normal` -/
theorem gaps_after_pushSelection {c : Composition} {t : Interval} {c' : Composition} (h : c.pushSelection t = .ok c') (j : Nat) :
    c'.gaps[j]? = if t.start < j ∧ j < t.stop then (c.gaps[j]?).map (fun _ => Gap.normal) else c.gaps[j]? := by
  obtain ⟨hl, hi, rfl⟩ := pushSelection_ok.mp h
  simp only [resetGaps, List.getElem?_mapIdx]
  grind

/-! ## The invariant is preserved -/

theorem intersect_false_disj {a b : Interval} (ha : a.start < a.stop) (hb : b.start < b.stop)
    (h : a.intersect b = false) : Disj a b := by
  simp only [Interval.intersect, Interval.intersectRange, decide_eq_false_iff_not] at h
  unfold Disj
  omega

theorem disj_intersect_false {a b : Interval} (h : Disj a b) : a.intersect b = false := by
  simp only [Interval.intersect, Interval.intersectRange, decide_eq_false_iff_not]
  unfold Disj at h
  omega

/-- pairwise disjointness survives `filter` + an order-preserving shift -/
theorem pairwise_filter_map {l : List Interval} {p : Interval → Bool} {f : Interval → Interval}
    (hd : l.Pairwise Disj)
    (hf : ∀ a b, a ∈ l → b ∈ l → p a = true → p b = true → Disj a b → Disj (f a) (f b)) :
    ((l.filter p).map f).Pairwise Disj := by
  rw [List.pairwise_map]
  refine List.Pairwise.imp_of_mem ?_ (hd.filter p)
  intro a b ha hb hab
  rw [List.mem_filter] at ha hb
  exact hf a b ha.1 hb.1 ha.2 hb.2 hab

theorem inv_insert {c : Composition} {i : Nat} {x : Sym} {c' : Composition} (hc : CompInv c)
    (h : c.insert i x = .ok c') : CompInv c' := by
  have hlen := len_preserved c (.insert i x) c' h
  have hg := gaps_after_insert h
  have hsel := selections_after c (.insert i x) c' h
  obtain ⟨hl, hi, hc'⟩ := insert_ok.mp h
  obtain ⟨h1, h2, h3, h4, h5, h6⟩ := hc
  have hsym : c'.symbols.length = c.symbols.length + 1 := by
    rw [(insert_symbols h).2]; simp; omega
  refine ⟨hlen, ?_, ?_, ?_, ?_, ?_⟩
  · intro j g hj
    rw [hg j] at hj
    have := h2 (j - 1)
    have := h2 j
    grind
  · intro t ht
    obtain ⟨s, hs, hd, rfl⟩ | hh := (hsel t).mp ht
    · have := h3 s hs
      simp only [shift]; split <;> simp [Interval.shiftUp] <;> omega
    · cases hh
  · intro t ht
    obtain ⟨s, hs, hd, rfl⟩ | hh := (hsel t).mp ht
    · have := h3 s hs
      have := h4 s hs
      simp only [shift]; split <;> simp [Interval.shiftUp] <;> omega
    · cases hh
  · subst hc'
    apply pairwise_filter_map h5
    intro a b ha hb _ _ hab
    have := h3 a ha; have := h3 b hb
    unfold Disj at *
    split <;> split <;> (try simp only [Interval.shiftUp]) <;> omega
  · intro t ht j hj1 hj2
    obtain ⟨s, hs, hd, rfl⟩ | hh := (hsel t).mp ht
    · have a1 := h6 s hs j
      have a2 := h6 s hs (j - 1)
      have := h3 s hs
      rw [hg j]
      simp only [shift, Drops] at hj1 hj2 hd
      unfold LenInv at hl
      grind [Interval.shiftUp]
    · cases hh

theorem inv_remove {c : Composition} {i : Nat} {c' : Composition} (hc : CompInv c)
    (h : c.remove i = .ok c') : CompInv c' := by
  have hlen := len_preserved c (.remove i) c' h
  have hg := gaps_after_remove h
  have hsel := selections_after c (.remove i) c' h
  obtain ⟨hl, hi, _, hc'⟩ := remove_ok.mp h
  obtain ⟨h1, h2, h3, h4, h5, h6⟩ := hc
  have hsym : c'.symbols.length + 1 = c.symbols.length := by
    rw [(remove_symbols h).2]
    simp only [List.length_append, List.length_take, List.length_drop]; omega
  refine ⟨hlen, ?_, ?_, ?_, ?_, ?_⟩
  · intro j g hj
    rw [hg j] at hj
    have := h2 (j + 1)
    have := h2 j
    grind
  · intro t ht
    obtain ⟨s, hs, hd, rfl⟩ | hh := (hsel t).mp ht
    · have := h3 s hs
      simp only [shift, Drops] at hd ⊢; split <;> (try simp only [Interval.shiftDown]) <;> omega
    · cases hh
  · intro t ht
    obtain ⟨s, hs, hd, rfl⟩ | hh := (hsel t).mp ht
    · have := h3 s hs
      have := h4 s hs
      simp only [shift, Drops] at hd ⊢; split <;> (try simp only [Interval.shiftDown]) <;> omega
    · cases hh
  · subst hc'
    apply pairwise_filter_map h5
    intro a b ha hb pa pb hab
    have := h3 a ha; have := h3 b hb
    simp only [Interval.covers, Bool.not_eq_true', Bool.and_eq_false_iff, decide_eq_false_iff_not] at pa pb
    unfold Disj at *
    split <;> split <;> (try simp only [Interval.shiftDown]) <;> omega
  · intro t ht j hj1 hj2
    obtain ⟨s, hs, hd, rfl⟩ | hh := (hsel t).mp ht
    · have a1 := h6 s hs j
      have a2 := h6 s hs (j + 1)
      have := h3 s hs
      rw [hg j]
      simp only [shift, Drops] at hj1 hj2 hd
      grind [Interval.shiftDown]
    · cases hh

theorem inv_removeFront {c : Composition} {n : Nat} {c' : Composition} (hc : CompInv c)
    (h : c.removeFront n = .ok c') : CompInv c' := by
  have hlen := len_preserved c (.removeFront n) c' h
  have hg := gaps_after_removeFront h
  have hsel := selections_after c (.removeFront n) c' h
  obtain ⟨hl, hi, _, hc'⟩ := removeFront_ok.mp h
  obtain ⟨h1, h2, h3, h4, h5, h6⟩ := hc
  have hsym : c'.symbols.length + n = c.symbols.length := by
    rw [(removeFront_symbols h).2]
    simp only [List.length_drop]; omega
  refine ⟨hlen, ?_, ?_, ?_, ?_, ?_⟩
  · intro j g hj
    rw [hg j] at hj
    have := h2 (n + j)
    grind
  · intro t ht
    obtain ⟨s, hs, hd, rfl⟩ | hh := (hsel t).mp ht
    · have := h3 s hs
      simp only [shift, Drops, Interval.shiftDown] at hd ⊢; omega
    · cases hh
  · intro t ht
    obtain ⟨s, hs, hd, rfl⟩ | hh := (hsel t).mp ht
    · have := h3 s hs
      have := h4 s hs
      simp only [shift, Drops, Interval.shiftDown] at hd ⊢; omega
    · cases hh
  · subst hc'
    apply pairwise_filter_map h5
    intro a b ha hb pa pb hab
    have := h3 a ha; have := h3 b hb
    simp only [Bool.not_eq_true', decide_eq_false_iff_not] at pa pb
    unfold Disj at *
    simp only [Interval.shiftDown]; omega
  · intro t ht j hj1 hj2
    obtain ⟨s, hs, hd, rfl⟩ | hh := (hsel t).mp ht
    · have a1 := h6 s hs (n + j)
      have := h3 s hs
      rw [hg j]
      simp only [shift, Drops, Interval.shiftDown] at hj1 hj2 hd
      grind
    · cases hh

theorem inv_setGap {c : Composition} {i : Nat} {g : Gap} {c' : Composition} (hc : CompInv c)
    (h : c.setGap i g = .ok c') : CompInv c' := by
  have hlen := len_preserved c (.setGap i g) c' h
  have hg := gaps_after_setGap h
  have hsel := selections_after c (.setGap i g) c' h
  have hsym := setGap_symbols h
  obtain ⟨hl, hi, hgb, hc'⟩ := setGap_ok.mp h
  obtain ⟨h1, h2, h3, h4, h5, h6⟩ := hc
  refine ⟨hlen, ?_, ?_, ?_, ?_, ?_⟩
  · intro j g' hj
    rw [hg j] at hj
    have := h2 j
    grind
  · intro t ht
    obtain ⟨s, hs, hd, hts⟩ | hh := (hsel t).mp ht
    · simp only [shift] at hts; subst hts; exact h3 t hs
    · cases hh
  · intro t ht
    obtain ⟨s, hs, hd, hts⟩ | hh := (hsel t).mp ht
    · simp only [shift] at hts; subst hts; rw [hsym]; exact h4 t hs
    · cases hh
  · subst hc'
    split
    · exact h5
    · split
      · exact h5.filter _
      · exact h5
  · intro t ht j hj1 hj2
    obtain ⟨s, hs, hd, hts⟩ | hh := (hsel t).mp ht
    · simp only [shift] at hts; subst hts
      have a1 := h6 t hs j
      rw [hg j]
      simp only [Drops] at hd
      grind
    · cases hh

theorem inv_replace {c : Composition} {i : Nat} {x : Sym} {c' : Composition} (hc : CompInv c)
    (h : c.replace i x = .ok c') : CompInv c' := by
  have hlen := len_preserved c (.replace i x) c' h
  have hg := gaps_after_replace h
  have hsel := replace_keeps_selections h
  have hsym : c'.symbols.length = c.symbols.length := by
    rw [(replace_symbols h).2]
    have := (replace_symbols h).1
    simp only [List.length_append, List.length_take, List.length_drop, List.length_cons, List.length_nil]; omega
  obtain ⟨h1, h2, h3, h4, h5, h6⟩ := hc
  refine ⟨hlen, ?_, ?_, ?_, ?_, ?_⟩
  · intro j g' hj
    rw [hg j] at hj
    have := h2 j
    grind
  · rw [hsel]; exact h3
  · rw [hsel, hsym]; exact h4
  · rw [hsel]; exact h5
  · rw [hsel]
    intro s hs j hj1 hj2
    have a1 := h6 s hs j hj1 hj2
    rw [hg j]
    grind

theorem inv_pushSelection {c : Composition} {t : Interval} {c' : Composition} (hc : CompInv c)
    (hv : ValidSelection c t) (h : c.pushSelection t = .ok c') : CompInv c' := by
  have hlen := len_preserved c (.pushSelection t) c' h
  have hg := gaps_after_pushSelection h
  have hmem := push_replaces_only_overlapping c t c' h
  have hsym := pushSelection_symbols h
  have hlist := pushSelection_selections c t c' h
  obtain ⟨h1, h2, h3, h4, h5, h6⟩ := hc
  obtain ⟨hv1, hv2⟩ := hv
  refine ⟨hlen, ?_, ?_, ?_, ?_, ?_⟩
  · intro j g' hj
    rw [hg j] at hj
    have := h2 j
    grind
  · intro s hs
    rcases (hmem s).mp hs with rfl | ⟨hs, _⟩
    · exact hv1
    · exact h3 s hs
  · intro s hs
    rw [hsym]
    rcases (hmem s).mp hs with rfl | ⟨hs, _⟩
    · exact hv2
    · exact h4 s hs
  · rw [hlist, List.pairwise_append]
    refine ⟨h5.filter _, List.pairwise_singleton _ _, ?_⟩
    intro a ha b hb
    rw [List.mem_singleton] at hb
    subst hb
    rw [List.mem_filter] at ha
    apply intersect_false_disj (h3 a ha.1) hv1
    simpa using ha.2
  · intro s hs j hj1 hj2
    rw [hg j]
    rcases (hmem s).mp hs with rfl | ⟨hs', hx⟩
    · grind
    · have a1 := h6 s hs' j hj1 hj2
      grind

theorem inv_clear (c : Composition) : CompInv c.clear := by
  constructor <;> simp [Composition.clear]

theorem inv_new : CompInv Composition.new := by
  constructor <;> simp [Composition.new]

/-- **`CompInv` is preserved by every operation**; the only precondition beyond the code's own
    assertions is `ValidSelection` for `push_selection`. -/
theorem inv_preserved (c : Composition) (op : CompOp) (c' : Composition) (hc : CompInv c) (hv : ValidOp c op)
    (h : c.apply op = .ok c') : CompInv c' := by
  cases op with
  | insert i x => exact inv_insert hc h
  | push x => exact inv_insert hc (push_ok.mp h)
  | remove i => exact inv_remove hc h
  | removeFront n => exact inv_removeFront hc h
  | replace i x => exact inv_replace hc h
  | setGap i g => exact inv_setGap hc h
  | pushSelection t => exact inv_pushSelection hc hv h
  | clear =>
    simp only [Composition.apply] at h
    cases h
    exact inv_clear c

/-- the full-strength claim one would like: every public call preserves the invariant -/
def inv_preserved_full : Prop :=
  ∀ (c : Composition) (op : CompOp) (c' : Composition), CompInv c → c.apply op = .ok c' → CompInv c'

/-- the composition `[ㄘㄜˋ, 'a']` of DESIGN F31 -/
def f31State : Composition := { symbols := [.syl 0x2A48, .chr 97], gaps := [.begin, .normal], selections := [] }

/-- **DESIGN F31**: `push_selection` accepts an empty selection (`1..1`), after which the invariant
    is broken — without the `ValidSelection` precondition `inv_preserved` is false. -/
theorem inv_preserved_refuted : ¬ inv_preserved_full := by
  intro hfull
  have hc : CompInv f31State := by
    refine ⟨rfl, ?_, ?_, ?_, ?_, ?_⟩ <;> simp [f31State]
    intro j g hj
    match j with
    | 0 => simp at hj; simp [← hj]
    | 1 => simp at hj; simp [← hj]
    | j + 2 => simp at hj
  have := hfull f31State (.pushSelection ⟨1, 1, true, [0x518A]⟩) _ hc rfl
  have := this.sel_nonempty ⟨1, 1, true, [0x518A]⟩ (by simp [f31State, Interval.intersect, Interval.intersectRange])
  simp at this

/-- the invariant along a whole list of operations, each valid in the state it is applied to -/
def ValidRun : Composition → List CompOp → Prop
  | _, [] => True
  | c, op :: ops => ValidOp c op ∧ ∀ c1, c.apply op = .ok c1 → ValidRun c1 ops

theorem inv_run (ops : List CompOp) : ∀ c c', CompInv c → ValidRun c ops → c.run ops = .ok c' → CompInv c' := by
  induction ops with
  | nil => intro c c' hc _ h; simp only [Composition.run] at h; cases h; exact hc
  | cons op ops ih =>
    intro c c' hc hv h
    simp only [Composition.run] at h
    split at h
    · next c1 h1 => exact ih c1 c' (inv_preserved c op c1 hc hv.1 h1) (hv.2 c1 h1) h
    · cases h
    · cases h

end Chewing.C04
