import Chewing.Model.CompEditor
/-!
# C04 — user selections and break points are honoured until the user edits them (component level)

Stage A of DESIGN §12: everything that can be said about `Composition` (`src/conversion/mod.rs`)
alone, for *every* state and *every* operation (no bound on buffers, histories or texts).

What is proved here

* `len_assert_unreachable` — `symbols.len() == gaps.len()` in every state reachable from `new()`
  by any operation list, valid or not; the `assert_eq!` in `len()` cannot fire.
* `CompInv` (|symbols| = |gaps|, gap 0 = `Begin` and no other gap is `Begin`, every selection
  non-empty, inside `0..len`, pairwise disjoint) is preserved by every operation, with the single
  explicit precondition `ValidSelection` for `push_selection` (`inv_preserved`, `inv_run`).
  Without it the invariant breaks (`inv_preserved_refuted`; DESIGN F31: the public API accepts
  empty / reversed selections).  `TextInv` (one character per symbol of the range) likewise.
* `no_panic` — under `CompInv` and the documented index preconditions no operation panics
  (in particular the `end -= n` underflow is unreachable).
* `selections_after` — exact characterisation of the selections after each operation:
  `t ∈ c'.selections ↔ t is the pushed choice ∨ t = shift op s for an s ∈ c.selections the
  operation does not drop`.  Corollaries: `selection_survives` (a choice the operation does not
  edit inside is still present, shifted by the documented amount, same text),
  `selection_survives_run` (same over operation lists), `push_replaces_only_overlapping`,
  `dropped_only_if_edited_inside`.
* symbol frame equations for every operation (`insert_symbols`, … `symbols' = take i s ++ [x] ++
  drop i s`, …).
* gap frame: `gaps_after_*` pointwise equations, `break_survives` (a user break stays, at the
  shifted position, unless the operation touches that very gap: insert *at* it, remove the symbol
  after it, remove_front up to it, set_gap/replace on it, a new choice spanning it) and
  `break_origin` (a break after the operation is the image of a break before it, or was set by
  `set_gap(_, Break)`: no operation creates a break unasked).
* `selections_order_irrelevant` — under `CompInv` a selection is determined by its start (ranges
  are disjoint and non-empty), which is why modelling `swap_remove` by `filter` and comparing
  selections as sorted lists loses nothing.

The other obligations of C04 (linked, round 2) — they need the conversion engines / the editor state machine and
cannot be stated in this file (C01's proofs import it):

* `C03.selection_shown`, `C03.selection_not_split`, `C03.break_not_spanned` (`Props/C03.lean`): what every engine does
  with the selections and breaks of a valid composition;
* `Props/C04Editor.lean` (audited with this property): the lift to the EDITOR — `selection_survives_op` /
  `selection_survives_key`, `choice_persists_along`, `choice_shown` / `choice_displayed` / `choice_shown_along`,
  `choice_committed_by_autocommit`, `break_survives_op`, `break_persists_along`, `break_not_spanned_editor`, over
  `opKinds` / `opEdits` / `opTouches` (which keys and calls count as "the user edits them").
-/
namespace Chewing.C04
open Chewing

/-! ## Invariants -/

/-- two ranges do not overlap -/
def Disj (a b : Interval) : Prop := a.stop ≤ b.start ∨ b.stop ≤ a.start

/-- `symbols.len() == gaps.len()` -/
def LenInv (c : Composition) : Prop := c.symbols.length = c.gaps.length

/-- the composition invariant -/
structure CompInv (c : Composition) : Prop where
  len_eq : c.symbols.length = c.gaps.length
  gap_begin : ∀ j g, c.gaps[j]? = some g → (g = Gap.begin ↔ j = 0)
  sel_nonempty : ∀ s ∈ c.selections, s.start < s.stop
  sel_in : ∀ s ∈ c.selections, s.stop ≤ c.symbols.length
  sel_disj : c.selections.Pairwise Disj
  sel_no_break : ∀ s ∈ c.selections, ∀ j, s.start < j → j < s.stop → c.gaps[j]? ≠ some Gap.brk

/-- one output character per symbol of the selected range -/
def TextInv (c : Composition) : Prop := ∀ s ∈ c.selections, s.text.length = s.stop - s.start

/-- the precondition of `push_selection` (not checked by the code: DESIGN F31) -/
def ValidSelection (c : Composition) (s : Interval) : Prop := s.start < s.stop ∧ s.stop ≤ c.symbols.length

/-- the only precondition that is not an `assert!` -/
def ValidOp (c : Composition) : CompOp → Prop
  | .pushSelection iv => ValidSelection c iv
  | _ => True

/-- the documented (asserted) preconditions -/
def Asserted (c : Composition) : CompOp → Prop
  | .insert i _ => i ≤ c.symbols.length
  | .push _ => True
  | .remove i => i < c.symbols.length
  | .removeFront n => n ≤ c.symbols.length
  | .replace i _ => i < c.symbols.length
  | .setGap i g => i < c.symbols.length ∧ g ≠ .begin
  | .pushSelection iv => iv.stop ≤ c.symbols.length
  | .clear => True

/-! ## When does an operation succeed, and with what (the model, restated as equations) -/

theorem insert_ok {c : Composition} {i : Nat} {x : Sym} {c' : Composition} :
    c.insert i x = .ok c' ↔ LenInv c ∧ i ≤ c.symbols.length ∧
      c' = { symbols := insertAt c.symbols i x, gaps := Composition.insertGaps c.gaps i,
             selections := (c.selections.filter (fun s => !s.strictlyInside i)).map
               (fun s => if s.start ≥ i then s.shiftUp 1 else s) } := by
  unfold Composition.insert LenInv
  grind

theorem push_ok {c : Composition} {x : Sym} {c' : Composition} :
    c.push x = .ok c' ↔ c.insert c.symbols.length x = .ok c' := by
  simp [Composition.push, Composition.len]

theorem remove_ok {c : Composition} {i : Nat} {c' : Composition} :
    c.remove i = .ok c' ↔ LenInv c ∧ i < c.symbols.length ∧
      (∀ s ∈ c.selections, ¬ s.covers i → i < s.start → s.stop ≠ 0) ∧
      c' = { symbols := c.symbols.eraseIdx i, gaps := (c.gaps.eraseIdx i).set 0 .begin,
             selections := (c.selections.filter (fun s => !s.covers i)).map
               (fun s => if s.start ≤ i then s else s.shiftDown 1) } := by
  unfold Composition.remove LenInv
  grind

theorem removeFront_ok {c : Composition} {n : Nat} {c' : Composition} :
    c.removeFront n = .ok c' ↔ LenInv c ∧ n ≤ c.symbols.length ∧
      (∀ s ∈ c.selections, ¬ s.start < n → ¬ s.stop < n) ∧
      c' = { symbols := c.symbols.drop n, gaps := (c.gaps.drop n).set 0 .begin,
             selections := (c.selections.filter (fun s => !(decide (s.start < n)))).map
               (fun s => s.shiftDown n) } := by
  unfold Composition.removeFront LenInv
  grind

theorem setGap_ok {c : Composition} {i : Nat} {g : Gap} {c' : Composition} :
    c.setGap i g = .ok c' ↔ LenInv c ∧ i < c.symbols.length ∧ g ≠ .begin ∧
      c' = (if i = 0 then c else { c with
        selections := if g = .brk then c.selections.filter (fun s => !s.strictlyInside i) else c.selections
        gaps := c.gaps.set i g }) := by
  unfold Composition.setGap LenInv
  grind

theorem replace_ok {c : Composition} {i : Nat} {x : Sym} {c' : Composition} :
    c.replace i x = .ok c' ↔ LenInv c ∧ i < c.symbols.length ∧
      c' = { c with symbols := c.symbols.set i x, gaps := if i = 0 then c.gaps else c.gaps.set i .normal } := by
  unfold Composition.replace Composition.setGap LenInv
  grind

theorem pushSelection_ok {c : Composition} {iv : Interval} {c' : Composition} :
    c.pushSelection iv = .ok c' ↔ LenInv c ∧ iv.stop ≤ c.symbols.length ∧
      c' = { c with selections := c.selections.filter (fun s => !s.intersect iv) ++ [iv]
                    gaps := resetGaps c.gaps (iv.start + 1) iv.stop } := by
  unfold Composition.pushSelection LenInv
  grind

/-! ## `len()`'s assertion is unreachable -/

/-- whatever the operation and its arguments, a successful call leaves the two lengths equal -/
theorem len_preserved (c : Composition) (op : CompOp) (c' : Composition) (h : c.apply op = .ok c') : LenInv c' := by
  cases op with
  | insert i x =>
    obtain ⟨hl, hi, rfl⟩ := insert_ok.mp h
    simp only [LenInv, insertAt, Composition.insertGaps] at *
    grind
  | push x =>
    obtain ⟨hl, hi, rfl⟩ := insert_ok.mp (push_ok.mp h)
    simp only [LenInv, insertAt, Composition.insertGaps] at *
    grind
  | remove i =>
    obtain ⟨hl, hi, _, rfl⟩ := remove_ok.mp h
    simp only [LenInv] at *
    grind
  | removeFront n =>
    obtain ⟨hl, hi, _, rfl⟩ := removeFront_ok.mp h
    simp only [LenInv] at *
    grind
  | replace i x =>
    obtain ⟨hl, hi, rfl⟩ := replace_ok.mp h
    simp only [LenInv] at *
    grind
  | setGap i g =>
    obtain ⟨hl, hi, hg, rfl⟩ := setGap_ok.mp h
    simp only [LenInv] at *
    grind
  | pushSelection iv =>
    obtain ⟨hl, hi, rfl⟩ := pushSelection_ok.mp h
    simp only [LenInv, resetGaps] at *
    grind
  | clear =>
    simp only [Composition.apply, Composition.clear] at h
    cases h
    rfl

/-- under `LenInv` no operation panics at the `assert_eq!` of `len()` -/
theorem no_len_panic (c : Composition) (op : CompOp) (h : LenInv c) : c.apply op ≠ .panic "len" := by
  unfold LenInv at h
  cases op <;>
    simp only [Composition.apply, Composition.insert, Composition.push, Composition.len, Composition.remove,
      Composition.removeFront, Composition.replace, Composition.setGap, Composition.pushSelection] <;>
    (repeat' split) <;> simp_all

/-- the `assert_eq!(self.symbols.len(), self.gaps.len())` of `Composition::len()` holds in every state
    reachable from `new()` by any list of public calls — no precondition on indices or selections.
    (A caught panic leaves `symbols`/`gaps` untouched: every assertion and every selection loop
    precedes the first write to them.) -/
theorem len_assert_unreachable (ops : List CompOp) :
    ∀ c c', LenInv c → c.run ops = .ok c' → LenInv c' := by
  induction ops with
  | nil => intro c c' hc h; simp only [Composition.run] at h; cases h; exact hc
  | cons op ops ih =>
    intro c c' hc h
    simp only [Composition.run] at h
    split at h
    · next c1 h1 => exact ih c1 c' (len_preserved c op c1 h1) h
    · cases h
    · cases h

theorem lenInv_new : LenInv Composition.new := rfl

/-! ## Symbol frame: exactly one position changes, everything else keeps its place -/

theorem insert_symbols {c : Composition} {i : Nat} {x : Sym} {c' : Composition} (h : c.insert i x = .ok c') :
    i ≤ c.symbols.length ∧ c'.symbols = c.symbols.take i ++ [x] ++ c.symbols.drop i := by
  obtain ⟨_, hi, rfl⟩ := insert_ok.mp h
  simp [insertAt, hi]

theorem push_symbols {c : Composition} {x : Sym} {c' : Composition} (h : c.push x = .ok c') :
    c'.symbols = c.symbols ++ [x] := by
  obtain ⟨_, _, rfl⟩ := insert_ok.mp (push_ok.mp h)
  simp [insertAt]

theorem remove_symbols {c : Composition} {i : Nat} {c' : Composition} (h : c.remove i = .ok c') :
    i < c.symbols.length ∧ c'.symbols = c.symbols.take i ++ c.symbols.drop (i + 1) := by
  obtain ⟨_, hi, _, rfl⟩ := remove_ok.mp h
  simp [hi, List.eraseIdx_eq_take_drop_succ]

theorem removeFront_symbols {c : Composition} {n : Nat} {c' : Composition} (h : c.removeFront n = .ok c') :
    n ≤ c.symbols.length ∧ c'.symbols = c.symbols.drop n := by
  obtain ⟨_, hi, _, rfl⟩ := removeFront_ok.mp h
  simp [hi]

theorem replace_symbols {c : Composition} {i : Nat} {x : Sym} {c' : Composition} (h : c.replace i x = .ok c') :
    i < c.symbols.length ∧ c'.symbols = c.symbols.take i ++ [x] ++ c.symbols.drop (i + 1) := by
  obtain ⟨_, hi, rfl⟩ := replace_ok.mp h
  simp [hi, List.set_eq_take_append_cons_drop]

theorem setGap_symbols {c : Composition} {i : Nat} {g : Gap} {c' : Composition} (h : c.setGap i g = .ok c') :
    c'.symbols = c.symbols := by
  obtain ⟨_, _, _, rfl⟩ := setGap_ok.mp h
  split <;> rfl

theorem pushSelection_symbols {c : Composition} {iv : Interval} {c' : Composition} (h : c.pushSelection iv = .ok c') :
    c'.symbols = c.symbols := by
  obtain ⟨_, _, rfl⟩ := pushSelection_ok.mp h
  rfl

theorem clear_symbols (c : Composition) : c.clear.symbols = [] ∧ c.clear.gaps = [] ∧ c.clear.selections = [] := by
  simp [Composition.clear]

/-! ## Selections: exact characterisation, survival, replacement -/

/-- the operation drops the selection `s` (as coded) -/
def Drops (c : Composition) : CompOp → Interval → Prop
  | .insert i _, s => s.start < i ∧ i < s.stop
  | .push _, s => s.start < c.symbols.length ∧ c.symbols.length < s.stop
  | .remove i, s => s.start ≤ i ∧ i < s.stop
  | .removeFront n, s => s.start < n
  | .replace _ _, _ => False
  | .setGap i g, s => i ≠ 0 ∧ g = .brk ∧ s.start < i ∧ i < s.stop
  | .pushSelection t, s => s.intersect t = true
  | .clear, _ => True

instance (c : Composition) (op : CompOp) (s : Interval) : Decidable (Drops c op s) := by
  cases op <;> unfold Drops <;> infer_instance

/-- the operation edits inside the range of `s` (specification; differs from `Drops` only for
    `replace`, which as coded keeps a selection whose symbol it overwrites) -/
def EditsInside (c : Composition) : CompOp → Interval → Prop
  | .replace i _, s => s.start ≤ i ∧ i < s.stop
  | op, s => Drops c op s

/-- where a surviving selection is afterwards (same text, same `is_phrase`) -/
def shift (c : Composition) : CompOp → Interval → Interval
  | .insert i _, s => if s.start ≥ i then s.shiftUp 1 else s
  | .push _, s => if s.start ≥ c.symbols.length then s.shiftUp 1 else s
  | .remove i, s => if s.start ≤ i then s else s.shiftDown 1
  | .removeFront n, s => s.shiftDown n
  | _, s => s

theorem shift_text (c : Composition) (op : CompOp) (s : Interval) :
    (shift c op s).text = s.text ∧ (shift c op s).isPhrase = s.isPhrase := by
  cases op <;> simp only [shift] <;> (try split) <;> simp [Interval.shiftUp, Interval.shiftDown]

/-- under the invariant `push` never shifts or drops anything -/
theorem shift_push_of_inv {c : Composition} (hc : CompInv c) (x : Sym) (s : Interval) (hs : s ∈ c.selections) :
    shift c (.push x) s = s ∧ ¬ Drops c (.push x) s := by
  have h1 := hc.sel_nonempty s hs
  have h2 := hc.sel_in s hs
  simp only [shift, Drops]
  constructor
  · rw [if_neg (by omega)]
  · omega

/-- **Exact characterisation of the selections after an operation.** -/
theorem selections_after (c : Composition) (op : CompOp) (c' : Composition) (h : c.apply op = .ok c') (t : Interval) :
    t ∈ c'.selections ↔
      (∃ s ∈ c.selections, ¬ Drops c op s ∧ t = shift c op s) ∨ (op = .pushSelection t) := by
  cases op with
  | insert i x =>
    obtain ⟨_, _, rfl⟩ := insert_ok.mp h
    simp only [Drops, shift, List.mem_map, List.mem_filter, Interval.strictlyInside]
    grind
  | push x =>
    obtain ⟨_, _, rfl⟩ := insert_ok.mp (push_ok.mp h)
    simp only [Drops, shift, List.mem_map, List.mem_filter, Interval.strictlyInside]
    grind
  | remove i =>
    obtain ⟨_, _, _, rfl⟩ := remove_ok.mp h
    simp only [Drops, shift, List.mem_map, List.mem_filter, Interval.covers]
    grind
  | removeFront n =>
    obtain ⟨_, _, _, rfl⟩ := removeFront_ok.mp h
    simp only [Drops, shift, List.mem_map, List.mem_filter]
    grind
  | replace i x =>
    obtain ⟨_, _, rfl⟩ := replace_ok.mp h
    simp only [Drops, shift]
    grind
  | setGap i g =>
    obtain ⟨_, _, _, rfl⟩ := setGap_ok.mp h
    simp only [Drops, shift, Interval.strictlyInside]
    grind
  | pushSelection iv =>
    obtain ⟨_, _, rfl⟩ := pushSelection_ok.mp h
    simp only [Drops, shift, List.mem_append, List.mem_filter]
    grind
  | clear =>
    simp only [Composition.apply, Composition.clear] at h
    cases h
    simp [Drops]

/-- **C04, component level.**  A selection the operation does not edit inside is still present
    afterwards, shifted by the documented amount (`shift`), with the same text. -/
theorem selection_survives (c : Composition) (op : CompOp) (s : Interval) (hs : s ∈ c.selections)
    (hn : ¬ EditsInside c op s) (c' : Composition) (h : c.apply op = .ok c') :
    shift c op s ∈ c'.selections := by
  refine (selections_after c op c' h _).mpr (.inl ⟨s, hs, ?_, rfl⟩)
  cases op <;> simp_all [EditsInside, Drops]

/-- a selection disappears only if the operation edits inside it -/
theorem dropped_only_if_edited_inside (c : Composition) (op : CompOp) (s : Interval) (hs : s ∈ c.selections)
    (c' : Composition) (h : c.apply op = .ok c') (hgone : shift c op s ∉ c'.selections) : EditsInside c op s := by
  apply Classical.byContradiction
  intro hn
  exact hgone (selection_survives c op s hs hn c' h)

/-- `replace` keeps every selection (as coded, even one covering the replaced symbol) -/
theorem replace_keeps_selections {c : Composition} {i : Nat} {x : Sym} {c' : Composition}
    (h : c.replace i x = .ok c') : c'.selections = c.selections := by
  obtain ⟨_, _, rfl⟩ := replace_ok.mp h
  rfl

/-- **A new choice replaces only the choices it overlaps**: afterwards the selections are the new
    one and exactly the old ones that do not intersect it, unchanged. -/
theorem push_replaces_only_overlapping (c : Composition) (t : Interval) (c' : Composition)
    (h : c.pushSelection t = .ok c') (s : Interval) :
    s ∈ c'.selections ↔ s = t ∨ (s ∈ c.selections ∧ s.intersect t = false) := by
  obtain ⟨_, _, rfl⟩ := pushSelection_ok.mp h
  simp only [List.mem_append, List.mem_filter]
  grind

/-- list form: the survivors keep their relative order, the new choice comes last -/
theorem pushSelection_selections (c : Composition) (t : Interval) (c' : Composition)
    (h : c.pushSelection t = .ok c') :
    c'.selections = c.selections.filter (fun s => !s.intersect t) ++ [t] := by
  obtain ⟨_, _, rfl⟩ := pushSelection_ok.mp h
  rfl

/-! ## Gap frame: pointwise equations -/

theorem insertGaps_getElem? (g : List Gap) (i j : Nat) (h : i ≤ g.length) :
    (Composition.insertGaps g i)[j]? =
      if j = 0 then some Gap.begin
      else if j < i then g[j]?
      else if j = i then some Gap.normal
      else if j = i + 1 then (if i < g.length then some Gap.normal else none)
      else g[j - 1]? := by
  simp only [Composition.insertGaps, insertAt]
  grind

/-- gaps after `insert(i, _)`: gap `i` (now before the new symbol) and gap `i+1` (the old gap `i`,
    now after it) are `Normal`, gap 0 is `Begin`, everything else keeps its value and moves with its symbol -/
theorem gaps_after_insert {c : Composition} {i : Nat} {x : Sym} {c' : Composition} (h : c.insert i x = .ok c') (j : Nat) :
    c'.gaps[j]? =
      if j = 0 then some Gap.begin
      else if j < i then c.gaps[j]?
      else if j = i then some Gap.normal
      else if j = i + 1 then (if i < c.gaps.length then some Gap.normal else none)
      else c.gaps[j - 1]? := by
  obtain ⟨hl, hi, rfl⟩ := insert_ok.mp h
  exact insertGaps_getElem? c.gaps i j (by unfold LenInv at hl; omega)

/-- gaps after `remove(i)`: gap `i` goes with its symbol, later gaps move down, gap 0 is `Begin` -/
theorem gaps_after_remove {c : Composition} {i : Nat} {c' : Composition} (h : c.remove i = .ok c') (j : Nat) :
    c'.gaps[j]? =
      if j = 0 then (if 1 < c.gaps.length then some Gap.begin else none)
      else if j < i then c.gaps[j]? else c.gaps[j + 1]? := by
  obtain ⟨hl, hi, _, rfl⟩ := remove_ok.mp h
  unfold LenInv at hl
  grind

/-- gaps after `remove_front(n)` -/
theorem gaps_after_removeFront {c : Composition} {n : Nat} {c' : Composition} (h : c.removeFront n = .ok c') (j : Nat) :
    c'.gaps[j]? =
      if j = 0 then (if n < c.gaps.length then some Gap.begin else none) else c.gaps[n + j]? := by
  obtain ⟨hl, hi, _, rfl⟩ := removeFront_ok.mp h
  unfold LenInv at hl
  grind

/-- gaps after `set_gap(i, g)`: only gap `i` changes, and gap 0 never does -/
theorem gaps_after_setGap {c : Composition} {i : Nat} {g : Gap} {c' : Composition} (h : c.setGap i g = .ok c') (j : Nat) :
    c'.gaps[j]? = if j = i ∧ i ≠ 0 then some g else c.gaps[j]? := by
  obtain ⟨hl, hi, _, rfl⟩ := setGap_ok.mp h
  unfold LenInv at hl
  grind

/-- gaps after `replace(i, _)`: gap `i` becomes `Normal` (gap 0 stays `Begin`) -/
theorem gaps_after_replace {c : Composition} {i : Nat} {x : Sym} {c' : Composition} (h : c.replace i x = .ok c') (j : Nat) :
    c'.gaps[j]? = if j = i ∧ i ≠ 0 then some Gap.normal else c.gaps[j]? := by
  obtain ⟨hl, hi, rfl⟩ := replace_ok.mp h
  unfold LenInv at hl
  grind

/-- gaps after `push_selection(t)`: the gaps strictly inside the new range become `Normal` -/
theorem gaps_after_pushSelection {c : Composition} {t : Interval} {c' : Composition} (h : c.pushSelection t = .ok c') (j : Nat) :
    c'.gaps[j]? = if t.start < j ∧ j < t.stop then (c.gaps[j]?).map (fun _ => Gap.normal) else c.gaps[j]? := by
  obtain ⟨hl, hi, rfl⟩ := pushSelection_ok.mp h
  simp only [resetGaps, List.getElem?_mapIdx]
  grind

/-! ## The invariant is preserved -/

theorem intersect_false_disj {a b : Interval} (ha : a.start < a.stop) (hb : b.start < b.stop)
    (h : a.intersect b = false) : Disj a b := by
  simp only [Interval.intersect, Interval.intersectRange, decide_eq_false_iff_not] at h
  unfold Disj
  omega

theorem disj_intersect_false {a b : Interval} (h : Disj a b) : a.intersect b = false := by
  simp only [Interval.intersect, Interval.intersectRange, decide_eq_false_iff_not]
  unfold Disj at h
  omega

/-- pairwise disjointness survives `filter` + an order-preserving shift -/
theorem pairwise_filter_map {l : List Interval} {p : Interval → Bool} {f : Interval → Interval}
    (hd : l.Pairwise Disj)
    (hf : ∀ a b, a ∈ l → b ∈ l → p a = true → p b = true → Disj a b → Disj (f a) (f b)) :
    ((l.filter p).map f).Pairwise Disj := by
  rw [List.pairwise_map]
  refine List.Pairwise.imp_of_mem ?_ (hd.filter p)
  intro a b ha hb hab
  rw [List.mem_filter] at ha hb
  exact hf a b ha.1 hb.1 ha.2 hb.2 hab

theorem inv_insert {c : Composition} {i : Nat} {x : Sym} {c' : Composition} (hc : CompInv c)
    (h : c.insert i x = .ok c') : CompInv c' := by
  have hlen := len_preserved c (.insert i x) c' h
  have hg := gaps_after_insert h
  have hsel := selections_after c (.insert i x) c' h
  obtain ⟨hl, hi, hc'⟩ := insert_ok.mp h
  obtain ⟨h1, h2, h3, h4, h5, h6⟩ := hc
  have hsym : c'.symbols.length = c.symbols.length + 1 := by
    rw [(insert_symbols h).2]; simp; omega
  refine ⟨hlen, ?_, ?_, ?_, ?_, ?_⟩
  · intro j g hj
    rw [hg j] at hj
    have := h2 (j - 1)
    have := h2 j
    grind
  · intro t ht
    obtain ⟨s, hs, hd, rfl⟩ | hh := (hsel t).mp ht
    · have := h3 s hs
      simp only [shift]; split <;> simp [Interval.shiftUp] <;> omega
    · cases hh
  · intro t ht
    obtain ⟨s, hs, hd, rfl⟩ | hh := (hsel t).mp ht
    · have := h3 s hs
      have := h4 s hs
      simp only [shift]; split <;> simp [Interval.shiftUp] <;> omega
    · cases hh
  · subst hc'
    apply pairwise_filter_map h5
    intro a b ha hb _ _ hab
    have := h3 a ha; have := h3 b hb
    unfold Disj at *
    split <;> split <;> (try simp only [Interval.shiftUp]) <;> omega
  · intro t ht j hj1 hj2
    obtain ⟨s, hs, hd, rfl⟩ | hh := (hsel t).mp ht
    · have a1 := h6 s hs j
      have a2 := h6 s hs (j - 1)
      have := h3 s hs
      rw [hg j]
      simp only [shift, Drops] at hj1 hj2 hd
      unfold LenInv at hl
      grind [Interval.shiftUp]
    · cases hh

theorem inv_remove {c : Composition} {i : Nat} {c' : Composition} (hc : CompInv c)
    (h : c.remove i = .ok c') : CompInv c' := by
  have hlen := len_preserved c (.remove i) c' h
  have hg := gaps_after_remove h
  have hsel := selections_after c (.remove i) c' h
  obtain ⟨hl, hi, _, hc'⟩ := remove_ok.mp h
  obtain ⟨h1, h2, h3, h4, h5, h6⟩ := hc
  have hsym : c'.symbols.length + 1 = c.symbols.length := by
    rw [(remove_symbols h).2]
    simp only [List.length_append, List.length_take, List.length_drop]; omega
  refine ⟨hlen, ?_, ?_, ?_, ?_, ?_⟩
  · intro j g hj
    rw [hg j] at hj
    have := h2 (j + 1)
    have := h2 j
    grind
  · intro t ht
    obtain ⟨s, hs, hd, rfl⟩ | hh := (hsel t).mp ht
    · have := h3 s hs
      simp only [shift, Drops] at hd ⊢; split <;> (try simp only [Interval.shiftDown]) <;> omega
    · cases hh
  · intro t ht
    obtain ⟨s, hs, hd, rfl⟩ | hh := (hsel t).mp ht
    · have := h3 s hs
      have := h4 s hs
      simp only [shift, Drops] at hd ⊢; split <;> (try simp only [Interval.shiftDown]) <;> omega
    · cases hh
  · subst hc'
    apply pairwise_filter_map h5
    intro a b ha hb pa pb hab
    have := h3 a ha; have := h3 b hb
    simp only [Interval.covers, Bool.not_eq_true', Bool.and_eq_false_iff, decide_eq_false_iff_not] at pa pb
    unfold Disj at *
    split <;> split <;> (try simp only [Interval.shiftDown]) <;> omega
  · intro t ht j hj1 hj2
    obtain ⟨s, hs, hd, rfl⟩ | hh := (hsel t).mp ht
    · have a1 := h6 s hs j
      have a2 := h6 s hs (j + 1)
      have := h3 s hs
      rw [hg j]
      simp only [shift, Drops] at hj1 hj2 hd
      grind [Interval.shiftDown]
    · cases hh

theorem inv_removeFront {c : Composition} {n : Nat} {c' : Composition} (hc : CompInv c)
    (h : c.removeFront n = .ok c') : CompInv c' := by
  have hlen := len_preserved c (.removeFront n) c' h
  have hg := gaps_after_removeFront h
  have hsel := selections_after c (.removeFront n) c' h
  obtain ⟨hl, hi, _, hc'⟩ := removeFront_ok.mp h
  obtain ⟨h1, h2, h3, h4, h5, h6⟩ := hc
  have hsym : c'.symbols.length + n = c.symbols.length := by
    rw [(removeFront_symbols h).2]
    simp only [List.length_drop]; omega
  refine ⟨hlen, ?_, ?_, ?_, ?_, ?_⟩
  · intro j g hj
    rw [hg j] at hj
    have := h2 (n + j)
    grind
  · intro t ht
    obtain ⟨s, hs, hd, rfl⟩ | hh := (hsel t).mp ht
    · have := h3 s hs
      simp only [shift, Drops, Interval.shiftDown] at hd ⊢; omega
    · cases hh
  · intro t ht
    obtain ⟨s, hs, hd, rfl⟩ | hh := (hsel t).mp ht
    · have := h3 s hs
      have := h4 s hs
      simp only [shift, Drops, Interval.shiftDown] at hd ⊢; omega
    · cases hh
  · subst hc'
    apply pairwise_filter_map h5
    intro a b ha hb pa pb hab
    have := h3 a ha; have := h3 b hb
    simp only [Bool.not_eq_true', decide_eq_false_iff_not] at pa pb
    unfold Disj at *
    simp only [Interval.shiftDown]; omega
  · intro t ht j hj1 hj2
    obtain ⟨s, hs, hd, rfl⟩ | hh := (hsel t).mp ht
    · have a1 := h6 s hs (n + j)
      have := h3 s hs
      rw [hg j]
      simp only [shift, Drops, Interval.shiftDown] at hj1 hj2 hd
      grind
    · cases hh

theorem inv_setGap {c : Composition} {i : Nat} {g : Gap} {c' : Composition} (hc : CompInv c)
    (h : c.setGap i g = .ok c') : CompInv c' := by
  have hlen := len_preserved c (.setGap i g) c' h
  have hg := gaps_after_setGap h
  have hsel := selections_after c (.setGap i g) c' h
  have hsym := setGap_symbols h
  obtain ⟨hl, hi, hgb, hc'⟩ := setGap_ok.mp h
  obtain ⟨h1, h2, h3, h4, h5, h6⟩ := hc
  refine ⟨hlen, ?_, ?_, ?_, ?_, ?_⟩
  · intro j g' hj
    rw [hg j] at hj
    have := h2 j
    grind
  · intro t ht
    obtain ⟨s, hs, hd, hts⟩ | hh := (hsel t).mp ht
    · simp only [shift] at hts; subst hts; exact h3 t hs
    · cases hh
  · intro t ht
    obtain ⟨s, hs, hd, hts⟩ | hh := (hsel t).mp ht
    · simp only [shift] at hts; subst hts; rw [hsym]; exact h4 t hs
    · cases hh
  · subst hc'
    split
    · exact h5
    · split
      · exact h5.filter _
      · exact h5
  · intro t ht j hj1 hj2
    obtain ⟨s, hs, hd, hts⟩ | hh := (hsel t).mp ht
    · simp only [shift] at hts; subst hts
      have a1 := h6 t hs j
      rw [hg j]
      simp only [Drops] at hd
      grind
    · cases hh

theorem inv_replace {c : Composition} {i : Nat} {x : Sym} {c' : Composition} (hc : CompInv c)
    (h : c.replace i x = .ok c') : CompInv c' := by
  have hlen := len_preserved c (.replace i x) c' h
  have hg := gaps_after_replace h
  have hsel := replace_keeps_selections h
  have hsym : c'.symbols.length = c.symbols.length := by
    rw [(replace_symbols h).2]
    have := (replace_symbols h).1
    simp only [List.length_append, List.length_take, List.length_drop, List.length_cons, List.length_nil]; omega
  obtain ⟨h1, h2, h3, h4, h5, h6⟩ := hc
  refine ⟨hlen, ?_, ?_, ?_, ?_, ?_⟩
  · intro j g' hj
    rw [hg j] at hj
    have := h2 j
    grind
  · rw [hsel]; exact h3
  · rw [hsel, hsym]; exact h4
  · rw [hsel]; exact h5
  · rw [hsel]
    intro s hs j hj1 hj2
    have a1 := h6 s hs j hj1 hj2
    rw [hg j]
    grind

theorem inv_pushSelection {c : Composition} {t : Interval} {c' : Composition} (hc : CompInv c)
    (hv : ValidSelection c t) (h : c.pushSelection t = .ok c') : CompInv c' := by
  have hlen := len_preserved c (.pushSelection t) c' h
  have hg := gaps_after_pushSelection h
  have hmem := push_replaces_only_overlapping c t c' h
  have hsym := pushSelection_symbols h
  have hlist := pushSelection_selections c t c' h
  obtain ⟨h1, h2, h3, h4, h5, h6⟩ := hc
  obtain ⟨hv1, hv2⟩ := hv
  refine ⟨hlen, ?_, ?_, ?_, ?_, ?_⟩
  · intro j g' hj
    rw [hg j] at hj
    have := h2 j
    grind
  · intro s hs
    rcases (hmem s).mp hs with rfl | ⟨hs, _⟩
    · exact hv1
    · exact h3 s hs
  · intro s hs
    rw [hsym]
    rcases (hmem s).mp hs with rfl | ⟨hs, _⟩
    · exact hv2
    · exact h4 s hs
  · rw [hlist, List.pairwise_append]
    refine ⟨h5.filter _, List.pairwise_singleton _ _, ?_⟩
    intro a ha b hb
    rw [List.mem_singleton] at hb
    subst hb
    rw [List.mem_filter] at ha
    apply intersect_false_disj (h3 a ha.1) hv1
    simpa using ha.2
  · intro s hs j hj1 hj2
    rw [hg j]
    rcases (hmem s).mp hs with rfl | ⟨hs', hx⟩
    · grind
    · have a1 := h6 s hs' j hj1 hj2
      grind

theorem inv_clear (c : Composition) : CompInv c.clear := by
  constructor <;> simp [Composition.clear]

theorem inv_new : CompInv Composition.new := by
  constructor <;> simp [Composition.new]

/-- **`CompInv` is preserved by every operation**; the only precondition beyond the code's own
    assertions is `ValidSelection` for `push_selection`. -/
theorem inv_preserved (c : Composition) (op : CompOp) (c' : Composition) (hc : CompInv c) (hv : ValidOp c op)
    (h : c.apply op = .ok c') : CompInv c' := by
  cases op with
  | insert i x => exact inv_insert hc h
  | push x => exact inv_insert hc (push_ok.mp h)
  | remove i => exact inv_remove hc h
  | removeFront n => exact inv_removeFront hc h
  | replace i x => exact inv_replace hc h
  | setGap i g => exact inv_setGap hc h
  | pushSelection t => exact inv_pushSelection hc hv h
  | clear =>
    simp only [Composition.apply] at h
    cases h
    exact inv_clear c

/-- `inv_preserved` under its conventional name: the partial form of `inv_preserved_full`, whose
    extra hypothesis `ValidOp` excludes exactly the class of DESIGN F31 (invalid `push_selection`) -/
theorem inv_preserved_partial (c : Composition) (op : CompOp) (c' : Composition) (hc : CompInv c)
    (hv : ValidOp c op) (h : c.apply op = .ok c') : CompInv c' := inv_preserved c op c' hc hv h

/-- the full-strength claim one would like: every public call preserves the invariant -/
def inv_preserved_full : Prop :=
  ∀ (c : Composition) (op : CompOp) (c' : Composition), CompInv c → c.apply op = .ok c' → CompInv c'

/-- the composition `[ㄘㄜˋ, 'a']` of DESIGN F31 -/
def f31State : Composition := { symbols := [.syl 0x2A48, .chr 97], gaps := [.begin, .normal], selections := [] }

/-- **DESIGN F31**: `push_selection` accepts an empty selection (`1..1`), after which the invariant
    is broken — without the `ValidSelection` precondition `inv_preserved` is false. -/
theorem inv_preserved_refuted : ¬ inv_preserved_full := by
  intro hfull
  have hc : CompInv f31State := by
    refine ⟨rfl, ?_, ?_, ?_, ?_, ?_⟩ <;> simp [f31State]
    intro j g hj
    match j with
    | 0 => simp at hj; simp [← hj]
    | 1 => simp at hj; simp [← hj]
    | j + 2 => simp at hj
  have := hfull f31State (.pushSelection ⟨1, 1, true, [0x518A]⟩) _ hc rfl
  have := this.sel_nonempty ⟨1, 1, true, [0x518A]⟩ (by simp [f31State, Interval.intersect, Interval.intersectRange])
  simp at this

/-- the invariant along a whole list of operations, each valid in the state it is applied to -/
def ValidRun : Composition → List CompOp → Prop
  | _, [] => True
  | c, op :: ops => ValidOp c op ∧ ∀ c1, c.apply op = .ok c1 → ValidRun c1 ops

theorem inv_run (ops : List CompOp) : ∀ c c', CompInv c → ValidRun c ops → c.run ops = .ok c' → CompInv c' := by
  induction ops with
  | nil => intro c c' hc _ h; simp only [Composition.run] at h; cases h; exact hc
  | cons op ops ih =>
    intro c c' hc hv h
    simp only [Composition.run] at h
    split at h
    · next c1 h1 => exact ih c1 c' (inv_preserved c op c1 hc hv.1 h1) (hv.2 c1 h1) h
    · cases h
    · cases h

/-! ## One character per symbol -/

/-- `TextInv` is preserved; a pushed selection must itself be well sized -/
theorem textInv_preserved (c : Composition) (op : CompOp) (c' : Composition) (hc : TextInv c)
    (hv : ∀ t, op = .pushSelection t → t.text.length = t.stop - t.start)
    (hne : ∀ s ∈ c.selections, s.start ≤ s.stop)
    (h : c.apply op = .ok c') : TextInv c' := by
  intro t ht
  rcases (selections_after c op c' h t).mp ht with ⟨s, hs, hd, rfl⟩ | rfl
  · have := hc s hs
    have := hne s hs
    rw [(shift_text c op s).1]
    cases op <;> simp only [shift, Drops] at hd ⊢ <;> (try split) <;>
      (try simp only [Interval.shiftUp, Interval.shiftDown]) <;> omega
  · exact hv t rfl

/-! ## No panic under the invariant and the asserted preconditions -/

/-- under `CompInv` and the documented index preconditions every operation succeeds: in
    particular the `end -= n` underflow (site `sub-overflow`) is unreachable -/
theorem no_panic (c : Composition) (op : CompOp) (hc : CompInv c) (ha : Asserted c op) :
    ∃ c', c.apply op = .ok c' := by
  obtain ⟨h1, h2, h3, h4, h5, h6⟩ := hc
  cases op with
  | insert i x => exact ⟨_, insert_ok.mpr ⟨h1, ha, rfl⟩⟩
  | push x => exact ⟨_, push_ok.mpr (insert_ok.mpr ⟨h1, Nat.le_refl _, rfl⟩)⟩
  | remove i =>
    refine ⟨_, remove_ok.mpr ⟨h1, ha, ?_, rfl⟩⟩
    intro s hs _ _
    have := h3 s hs
    omega
  | removeFront n =>
    refine ⟨_, removeFront_ok.mpr ⟨h1, ha, ?_, rfl⟩⟩
    intro s hs _
    have := h3 s hs
    omega
  | replace i x => exact ⟨_, replace_ok.mpr ⟨h1, ha, rfl⟩⟩
  | setGap i g => exact ⟨_, setGap_ok.mpr ⟨h1, ha.1, ha.2, rfl⟩⟩
  | pushSelection t => exact ⟨_, pushSelection_ok.mpr ⟨h1, ha, rfl⟩⟩
  | clear => exact ⟨_, rfl⟩

/-! ## Survival along operation lists -/

/-- where a selection ends up after a list of operations, `none` as soon as one of them edits inside it -/
def track : Composition → List CompOp → Interval → Option Interval
  | _, [], s => some s
  | c, op :: ops, s =>
    match c.apply op with
    | .ok c1 => if Drops c op s then none else track c1 ops (shift c op s)
    | _ => none

/-- **C04 along histories (component level)**: a selection that no operation of the list edits
    inside (`track = some t`) is present at the end, at its tracked position, with its text. -/
theorem selection_survives_run (ops : List CompOp) :
    ∀ (c c' : Composition) (s t : Interval), s ∈ c.selections → c.run ops = .ok c' → track c ops s = some t →
      t ∈ c'.selections ∧ t.text = s.text := by
  induction ops with
  | nil =>
    intro c c' s t hs h ht
    simp only [Composition.run] at h; cases h
    simp only [track] at ht; cases ht
    exact ⟨hs, rfl⟩
  | cons op ops ih =>
    intro c c' s t hs h ht
    simp only [Composition.run] at h
    simp only [track] at ht
    split at h
    · next c1 h1 =>
      rw [h1] at ht
      simp only at ht
      split at ht
      · cases ht
      · next hd =>
        have hmem : shift c op s ∈ c1.selections := (selections_after c op c1 h1 _).mpr (.inl ⟨s, hs, hd, rfl⟩)
        obtain ⟨r1, r2⟩ := ih c1 c' _ t hmem h ht
        exact ⟨r1, by rw [r2, (shift_text c op s).1]⟩
    · cases h
    · cases h

/-! ## Break points: which operations can clear or create one -/

/-- where the gap `j` is after the operation; `none` = the operation touches (may reset) that gap -/
def gapShift (c : Composition) : CompOp → Nat → Option Nat
  | .insert i _, j => if j = i then none else if j < i then some j else some (j + 1)
  | .push _, j => if j = c.symbols.length then none else if j < c.symbols.length then some j else some (j + 1)
  | .remove i, j => if j = i then none else if j < i then some j else if j = 1 then none else some (j - 1)
  | .removeFront n, j => if j ≤ n then none else some (j - n)
  | .replace i _, j => if j = i then none else some j
  | .setGap i _, j => if j = i then none else some j
  | .pushSelection t, j => if t.start < j ∧ j < t.stop then none else some j
  | .clear, _ => none

/-- **A user break (or glue) stays**, at the shifted position, across every operation that does
    not touch that very gap.  Needs only that gap 0 is the `Begin` gap. -/
theorem gap_survives (c : Composition) (op : CompOp) (c' : Composition) (hc : CompInv c)
    (h : c.apply op = .ok c') (j j' : Nat) (g : Gap) (hg : c.gaps[j]? = some g) (hgb : g ≠ .begin)
    (hj : gapShift c op j = some j') : c'.gaps[j']? = some g := by
  have hj0 : j ≠ 0 := fun e => hgb ((hc.gap_begin j g hg).mpr e)
  have hlt : j < c.gaps.length := by
    rcases Nat.lt_or_ge j c.gaps.length with h' | h'
    · exact h'
    · rw [List.getElem?_eq_none h'] at hg; cases hg
  have hl := hc.len_eq
  cases op with
  | insert i x => rw [gaps_after_insert h j']; simp only [gapShift] at hj; grind
  | push x =>
    rw [gaps_after_insert (push_ok.mp h) j']; simp only [gapShift] at hj; grind
  | remove i => rw [gaps_after_remove h j']; simp only [gapShift] at hj; grind
  | removeFront n => rw [gaps_after_removeFront h j']; simp only [gapShift] at hj; grind
  | replace i x => rw [gaps_after_replace h j']; simp only [gapShift] at hj; grind
  | setGap i g' => rw [gaps_after_setGap h j']; simp only [gapShift] at hj; grind
  | pushSelection t => rw [gaps_after_pushSelection h j']; simp only [gapShift] at hj; grind
  | clear => simp [gapShift] at hj

/-- `break_survives`: the instance of `gap_survives` the property talks about -/
theorem break_survives (c : Composition) (op : CompOp) (c' : Composition) (hc : CompInv c)
    (h : c.apply op = .ok c') (j j' : Nat) (hg : c.gaps[j]? = some .brk)
    (hj : gapShift c op j = some j') : c'.gaps[j']? = some .brk :=
  gap_survives c op c' hc h j j' .brk hg (by decide) hj

/-- **No operation creates a break unasked**: a break after the operation is the image of a break
    before it, or was just set by `set_gap(j', Break)`. -/
theorem break_origin (c : Composition) (op : CompOp) (c' : Composition) (hc : CompInv c)
    (h : c.apply op = .ok c') (j' : Nat) (hg : c'.gaps[j']? = some .brk) :
    (∃ x, op = .setGap j' x ∧ x = .brk) ∨ (∃ j, c.gaps[j]? = some .brk ∧ gapShift c op j = some j') := by
  have hl := hc.len_eq
  cases op with
  | insert i x =>
    rw [gaps_after_insert h j'] at hg
    refine .inr ⟨if j' < i then j' else j' - 1, ?_⟩
    simp only [gapShift]; grind
  | push x =>
    rw [gaps_after_insert (push_ok.mp h) j'] at hg
    refine .inr ⟨if j' < c.symbols.length then j' else j' - 1, ?_⟩
    simp only [gapShift]; grind
  | remove i =>
    rw [gaps_after_remove h j'] at hg
    refine .inr ⟨if j' < i then j' else j' + 1, ?_⟩
    simp only [gapShift]; grind
  | removeFront n =>
    rw [gaps_after_removeFront h j'] at hg
    refine .inr ⟨n + j', ?_⟩
    simp only [gapShift]; grind
  | replace i x =>
    rw [gaps_after_replace h j'] at hg
    refine .inr ⟨j', ?_⟩
    have := hc.gap_begin j' .brk
    simp only [gapShift]; grind
  | setGap i g' =>
    rw [gaps_after_setGap h j'] at hg
    by_cases hji : j' = i ∧ i ≠ 0
    · left; refine ⟨g', ?_, ?_⟩ <;> grind
    · right; refine ⟨j', ?_⟩
      simp only [gapShift]
      have := hc.gap_begin j' .brk
      grind
  | pushSelection t =>
    rw [gaps_after_pushSelection h j'] at hg
    refine .inr ⟨j', ?_⟩
    simp only [gapShift]; grind
  | clear =>
    simp only [Composition.apply, Composition.clear] at h; cases h
    simp at hg

/-- a break is never strictly inside a selection (field `sel_no_break` of the invariant, restated):
    setting a break inside a selection drops the selection, choosing a range resets its inner gaps -/
theorem no_break_inside_selection {c : Composition} (hc : CompInv c) (s : Interval) (hs : s ∈ c.selections)
    (j : Nat) (h1 : s.start < j) (h2 : j < s.stop) : c.gaps[j]? ≠ some .brk :=
  hc.sel_no_break s hs j h1 h2

/-! ## Selections cover syllables only (needed by the conversion engines, C03) -/

/-- every symbol of `a..b` is a syllable -/
def AllSyl (c : Composition) (a b : Nat) : Prop := ∀ j, a ≤ j → j < b → ∃ k, c.symbols[j]? = some (Sym.syl k)

/-- every selection covers syllables only -/
def SylInv (c : Composition) : Prop := ∀ s ∈ c.selections, AllSyl c s.start s.stop

/-- the preconditions under which `SylInv` is kept: a chosen range consists of syllables, and
    `replace` (which as coded keeps a selection covering the replaced symbol) does not put a
    character under a selection -/
def ValidOpSyl (c : Composition) : CompOp → Prop
  | .pushSelection t => AllSyl c t.start t.stop
  | .replace i x => (∃ k, x = Sym.syl k) ∨ ∀ s ∈ c.selections, ¬ (s.start ≤ i ∧ i < s.stop)
  | _ => True

theorem sylInv_preserved (c : Composition) (op : CompOp) (c' : Composition) (hc : CompInv c) (hs : SylInv c)
    (hv : ValidOpSyl c op) (h : c.apply op = .ok c') : SylInv c' := by
  intro t ht j hj1 hj2
  have hsel := (selections_after c op c' h t).mp ht
  cases op with
  | insert i x =>
    obtain ⟨s, hs', hd, rfl⟩ | hh := hsel
    · rw [(insert_symbols h).2]
      have := (insert_symbols h).1
      have := hc.sel_in s hs'
      have a1 := hs s hs' j
      have a2 := hs s hs' (j - 1)
      simp only [shift, Drops] at hd hj1 hj2
      grind [Interval.shiftUp]
    · cases hh
  | push x =>
    obtain ⟨s, hs', hd, rfl⟩ | hh := hsel
    · rw [push_symbols h]
      have := hc.sel_in s hs'
      have := hc.sel_nonempty s hs'
      have a1 := hs s hs' j
      simp only [shift, Drops] at hd hj1 hj2
      grind [Interval.shiftUp]
    · cases hh
  | remove i =>
    obtain ⟨s, hs', hd, rfl⟩ | hh := hsel
    · rw [(remove_symbols h).2]
      have := (remove_symbols h).1
      have := hc.sel_in s hs'
      have := hc.sel_nonempty s hs'
      have a1 := hs s hs' j
      have a2 := hs s hs' (j + 1)
      simp only [shift, Drops] at hd hj1 hj2
      grind [Interval.shiftDown]
    · cases hh
  | removeFront n =>
    obtain ⟨s, hs', hd, rfl⟩ | hh := hsel
    · rw [(removeFront_symbols h).2]
      have := hc.sel_in s hs'
      have := hc.sel_nonempty s hs'
      have a1 := hs s hs' (n + j)
      simp only [shift, Drops, Interval.shiftDown] at hd hj1 hj2
      grind
    · cases hh
  | replace i x =>
    obtain ⟨s, hs', hd, hts⟩ | hh := hsel
    · simp only [shift] at hts; subst hts
      rw [(replace_symbols h).2]
      have := (replace_symbols h).1
      have a1 := hs t hs' j hj1 hj2
      simp only [ValidOpSyl] at hv
      rcases hv with ⟨k, rfl⟩ | hv
      · grind
      · have := hv t hs'
        grind
    · cases hh
  | setGap i g =>
    obtain ⟨s, hs', hd, hts⟩ | hh := hsel
    · simp only [shift] at hts; subst hts
      rw [setGap_symbols h]; exact hs t hs' j hj1 hj2
    · cases hh
  | pushSelection iv =>
    rw [pushSelection_symbols h]
    obtain ⟨s, hs', hd, hts⟩ | hh := hsel
    · simp only [shift] at hts; subst hts
      exact hs t hs' j hj1 hj2
    · cases hh
      exact hv j hj1 hj2
  | clear =>
    simp only [Composition.apply, Composition.clear] at h; cases h
    cases ht

/-! ## The order of `selections` is not observable under the invariant -/

theorem pairwise_mem {α : Type} {R : α → α → Prop} {l : List α} (h : l.Pairwise R) {a b : α}
    (ha : a ∈ l) (hb : b ∈ l) : a = b ∨ R a b ∨ R b a := by
  induction h with
  | nil => cases ha
  | cons hx _ ih =>
    rcases List.mem_cons.mp ha with rfl | ha' <;> rcases List.mem_cons.mp hb with rfl | hb'
    · exact .inl rfl
    · exact .inr (.inl (hx _ hb'))
    · exact .inr (.inr (hx _ ha'))
    · exact ih ha' hb'

/-- distinct selections have distinct starts (ranges are non-empty and disjoint): a selection is
    determined by where it begins -/
theorem sel_start_injective {c : Composition} (hc : CompInv c) {a b : Interval}
    (ha : a ∈ c.selections) (hb : b ∈ c.selections) (h : a.start = b.start) : a = b := by
  rcases pairwise_mem hc.sel_disj ha hb with e | d | d
  · exact e
  all_goals
    have := hc.sel_nonempty a ha
    have := hc.sel_nonempty b hb
    unfold Disj at d
    omega

/-- any two selections are equal or non-intersecting (the form the conversion model uses) -/
theorem sel_pairwise_not_intersect {c : Composition} (hc : CompInv c) :
    c.selections.Pairwise (fun a b => a.intersect b = false) :=
  hc.sel_disj.imp (fun h => disj_intersect_false h)

/-- `selections_order_irrelevant`: a first-match lookup that at most one element of the list can
    satisfy gives the same answer on every permutation of the list.  With `sel_start_injective`
    (look-up by start / by range) this is why the model may replace the `swap_remove` loop by
    `filter` and why the correspondence compares selections as sorted lists. -/
theorem selections_order_irrelevant {l l' : List Interval} (hp : l.Perm l') (p : Interval → Bool)
    (huniq : ∀ a ∈ l, ∀ b ∈ l, p a = true → p b = true → a = b) : l.find? p = l'.find? p := by
  cases h1 : l.find? p with
  | none =>
    symm
    rw [List.find?_eq_none] at h1 ⊢
    intro x hx
    exact h1 x (hp.mem_iff.mpr hx)
  | some a =>
    have ha := List.mem_of_find?_eq_some h1
    have hpa := List.find?_some h1
    cases h2 : l'.find? p with
    | none =>
      rw [List.find?_eq_none] at h2
      exact absurd hpa (h2 a (hp.mem_iff.mp ha))
    | some b =>
      have hb := hp.mem_iff.mpr (List.mem_of_find?_eq_some h2)
      have hpb := List.find?_some h2
      rw [huniq a ha b hb hpa hpb]

/-! ## Through the `CompositionEditor`: every method is zero or one `Composition` call -/

/-- the `Composition` call a `CompositionEditor` method makes on `inner` (from the pre-state) -/
def compOps (e : CompEditor) : CedOp → List CompOp
  | .clear => [.clear]
  | .removeFront n => [.removeFront n]
  | .removeAfterCursor => [.remove e.cursor]
  | .removeBeforeCursor => if e.cursor = 0 then [] else [.remove (e.cursor - 1)]
  | .insert x => [.insert e.cursor x]
  | .insertGlue => if e.isEob then [] else [.setGap e.cursor .glue]
  | .insertBreak => if e.isEob then [] else [.setGap e.cursor .brk]
  | .replace x => [.replace e.cursor x]
  | .select iv => [.pushSelection iv]
  | _ => []

theorem withInner_ok {r : Outcome Composition} {f : Composition → CompEditor} {e' : CompEditor}
    (h : CompEditor.withInner r f = .ok e') : ∃ c, r = .ok c ∧ e' = f c := by
  unfold CompEditor.withInner at h
  split at h
  · next c => cases h; exact ⟨c, rfl, rfl⟩
  · cases h
  · cases h

theorem run_single {c : Composition} {op : CompOp} {c' : Composition} (h : c.apply op = .ok c') :
    c.run [op] = .ok c' := by
  simp [Composition.run, h]

/-- the inner composition after a `CompositionEditor` method is the result of `compOps` -/
theorem ced_inner (e : CompEditor) (op : CedOp) (e' : CompEditor) (h : e.apply op = .ok e') :
    e.inner.run (compOps e op) = .ok e'.inner := by
  cases op with
  | pushCursor => cases h; rfl
  | popCursor =>
    simp only [CompEditor.apply, CompEditor.popCursor] at h; cases h
    simp only [compOps, Composition.run]; split <;> rfl
  | clampCursor =>
    simp only [CompEditor.apply, CompEditor.clampCursor] at h; cases h
    simp only [compOps, Composition.run]; split <;> rfl
  | moveCursor n => cases h; rfl
  | clear => cases h; rfl
  | removeFront n =>
    obtain ⟨c, hc, rfl⟩ := withInner_ok h
    exact run_single hc
  | removeAfterCursor =>
    obtain ⟨c, hc, rfl⟩ := withInner_ok h
    exact run_single hc
  | removeBeforeCursor =>
    simp only [CompEditor.apply, CompEditor.removeBeforeCursor] at h
    simp only [compOps]
    split at h
    · next h0 => cases h; simp [h0, Composition.run]
    · next h0 =>
      obtain ⟨c, hc, rfl⟩ := withInner_ok h
      rw [if_neg h0]
      exact run_single hc
  | moveToEnd => cases h; rfl
  | moveToBeginning => cases h; rfl
  | moveLeft => cases h; rfl
  | moveRight => cases h; rfl
  | insert x =>
    obtain ⟨c, hc, rfl⟩ := withInner_ok h
    exact run_single hc
  | insertGlue =>
    simp only [CompEditor.apply, CompEditor.insertGlue, CompEditor.insertGap] at h
    simp only [compOps]
    split at h
    · next h0 => cases h; simp [h0, Composition.run]
    · next h0 =>
      obtain ⟨c, hc, rfl⟩ := withInner_ok h
      rw [if_neg h0]
      exact run_single hc
  | insertBreak =>
    simp only [CompEditor.apply, CompEditor.insertBreak, CompEditor.insertGap] at h
    simp only [compOps]
    split at h
    · next h0 => cases h; simp [h0, Composition.run]
    · next h0 =>
      obtain ⟨c, hc, rfl⟩ := withInner_ok h
      rw [if_neg h0]
      exact run_single hc
  | replace x =>
    obtain ⟨c, hc, rfl⟩ := withInner_ok h
    exact run_single hc
  | select iv =>
    simp only [CompEditor.apply, CompEditor.select] at h
    split at h
    · cases h
    · obtain ⟨c, hc, rfl⟩ := withInner_ok h
      exact run_single hc

/-- `CompInv` of the inner composition is kept by every `CompositionEditor` method, given that
    `select` is called with a valid selection -/
theorem ced_inv_preserved (e : CompEditor) (op : CedOp) (e' : CompEditor) (hc : CompInv e.inner)
    (hv : ∀ iv, op = .select iv → ValidSelection e.inner iv) (h : e.apply op = .ok e') : CompInv e'.inner := by
  refine inv_run (compOps e op) e.inner e'.inner hc ?_ (ced_inner e op e' h)
  cases op <;> simp only [compOps] <;> (try split) <;> simp [ValidRun, ValidOp]
  exact hv _ rfl

/-- a selection tracked through the `Composition` call of one `CompositionEditor` method is
    present afterwards with its text (cursor movement, cursor stack: nothing changes at all) -/
theorem ced_selection_survives (e : CompEditor) (op : CedOp) (e' : CompEditor) (h : e.apply op = .ok e')
    (s t : Interval) (hs : s ∈ e.inner.selections) (ht : track e.inner (compOps e op) s = some t) :
    t ∈ e'.inner.selections ∧ t.text = s.text :=
  selection_survives_run (compOps e op) e.inner e'.inner s t hs (ced_inner e op e' h) ht

/-- tracking through a list of `CompositionEditor` methods -/
def cedTrack : CompEditor → List CedOp → Interval → Option Interval
  | _, [], s => some s
  | e, op :: ops, s =>
    match e.apply op with
    | .ok e1 => (track e.inner (compOps e op) s).bind (cedTrack e1 ops)
    | _ => none

/-- **C04 for histories of `CompositionEditor` calls** (typing/deleting elsewhere, cursor moves,
    cursor save/restore, breaks elsewhere, other choices, auto-commit of earlier text): a choice that
    no call edits inside is present at the end, at its tracked position, with its text. -/
theorem ced_selection_survives_run (ops : List CedOp) :
    ∀ (e e' : CompEditor) (s t : Interval), s ∈ e.inner.selections → e.run ops = .ok e' →
      cedTrack e ops s = some t → t ∈ e'.inner.selections ∧ t.text = s.text := by
  induction ops with
  | nil =>
    intro e e' s t hs h ht
    simp only [CompEditor.run] at h; cases h
    simp only [cedTrack] at ht; cases ht
    exact ⟨hs, rfl⟩
  | cons op ops ih =>
    intro e e' s t hs h ht
    simp only [CompEditor.run] at h
    simp only [cedTrack] at ht
    split at h
    · next e1 h1 =>
      rw [h1] at ht
      simp only at ht
      cases hm : track e.inner (compOps e op) s with
      | none => rw [hm] at ht; cases ht
      | some m =>
        rw [hm] at ht
        obtain ⟨r1, r2⟩ := ced_selection_survives e op e1 h1 s m hs hm
        obtain ⟨r3, r4⟩ := ih e1 e' m t r1 h ht
        exact ⟨r3, by rw [r4, r2]⟩
    · cases h
    · cases h

/-! ## Non-vacuity: the hypotheses of the theorems above are satisfiable by non-trivial states -/

/-- `[ㄘㄜˋ, ㄕˋ, 'a', ㄘㄜˋ]`, a break before the last symbol, "測試" chosen for `0..2` -/
def demo : Composition :=
  { symbols := [.syl 0x2A48, .syl 0x1404, .chr 97, .syl 0x2A48]
    gaps := [.begin, .normal, .normal, .brk]
    selections := [⟨0, 2, true, [0x6E2C, 0x8A66]⟩] }

theorem demo_inv : CompInv demo := by
  refine ⟨rfl, ?_, ?_, ?_, ?_, ?_⟩
  · intro j g hj
    match j with
    | 0 => simp [demo] at hj; simp [← hj]
    | 1 => simp [demo] at hj; simp [← hj]
    | 2 => simp [demo] at hj; simp [← hj]
    | 3 => simp [demo] at hj; simp [← hj]
    | j + 4 => simp [demo] at hj
  · simp [demo]
  · simp [demo]
  · simp [demo]
  · intro s hs j h1 h2
    simp [demo] at hs
    subst hs
    have : j = 1 := by simp at h1 h2; omega
    subst this
    simp [demo]

/-- typing before the choice moves it by one and keeps it; the break moves along -/
example : ∃ c', demo.apply (.insert 0 (.chr 98)) = .ok c' ∧
    (⟨1, 3, true, [0x6E2C, 0x8A66]⟩ : Interval) ∈ c'.selections ∧ c'.gaps[4]? = some .brk := by
  obtain ⟨c', h⟩ := no_panic demo (.insert 0 (.chr 98)) demo_inv (by simp [Asserted])
  refine ⟨c', h, ?_, ?_⟩
  · have := selection_survives demo (.insert 0 (.chr 98)) ⟨0, 2, true, [0x6E2C, 0x8A66]⟩ (by simp [demo])
      (by simp [EditsInside, Drops]) c' h
    simpa [shift, Interval.shiftUp] using this
  · exact break_survives demo _ c' demo_inv h 3 4 (by simp [demo]) (by simp [gapShift])

/-- a valid, overlapping new choice replaces the old one and nothing else -/
example : ∃ c', demo.apply (.pushSelection ⟨1, 2, true, [0x8A66]⟩) = .ok c' ∧ CompInv c' ∧
    c'.selections = [⟨1, 2, true, [0x8A66]⟩] := by
  refine ⟨_, rfl, inv_preserved demo (.pushSelection ⟨1, 2, true, [0x8A66]⟩) _ demo_inv
    (by simp [ValidOp, ValidSelection, demo]) rfl, ?_⟩
  simp [demo, Interval.intersect, Interval.intersectRange]

/-- auto-commit of earlier text: `remove_front 2` cuts the choice, `remove_front 0` keeps it -/
example : track demo [.removeFront 0, .setGap 2 .glue, .push (.chr 99)] ⟨0, 2, true, [0x6E2C, 0x8A66]⟩
    = some ⟨0, 2, true, [0x6E2C, 0x8A66]⟩ := by decide

-- linked (round 2, linkF): the editor-level statements of C04 are in `Props/C04Editor.lean` (this file is imported by
-- C01's proofs, so it cannot import C01's invariant or C03's engine theorems); `tools/audit_axioms.py C04` audits both.

end Chewing.C04
