import Chewing.Proofs.EditorChoiceOps
import Chewing.Proofs.EditorChoiceCommit
import Chewing.Props.C02
/-!
# C04 — user selections and break points are honoured until the user edits them (EDITOR level)

`Props/C04.lean` proves the property for `Composition` / `CompositionEditor` operation sequences; this file
lifts it to the editor: **every key in every state and every other public operation, every environment,
every history** (linked statements; `Props/C04.lean` cannot import them: C01's proofs import it).

What "the user edits them" means — decidable predicates on (pre-state, operation)

* `opKinds e op` (`keyKinds e ev` for a key; `Proofs/EditorChoiceOps.lean`) lists the kinds of edit the step can
  make, read off the state machine arm by arm (`enteringKinds`, `syllableKinds`, `selectingKinds`, `selectKinds`):
  Backspace → `bksp`; Delete → `del`; Tab inside the buffer → `glue` / `brk`; Enter / `commit()` / `clear()` /
  Esc with `esc_clear_all_buffer` → `clear`; a character, symbol or completed syllable (Entering,
  EnteringSyllable) → `ins` at the cursor; a digit key / `select(n)` on an open phrase list → `sel begin end`, on a
  symbol list → `ins` or `repl` at the cursor; every other key and call (cursor keys, Home / End, Shift-arrows,
  Up / Down / Space opening a list, paging, `j` / `k`, cancelling, CapsLock, Shift-Space, Tab at the end = next
  alternative, Ctrl-digit learning, option / layout / engine / dictionary calls, `jump_*`) → nothing.
* `opEdits e op s` = some kind of `opKinds e op` edits inside the choice `s` (`kindEdits`: typing or a break with
  the cursor strictly inside the range, Backspace / Delete / symbol replacement of one of its symbols, a new
  choice overlapping it, clearing).  `opTouches e op j` = some kind touches the gap `j` (`kindTouches`: typing
  exactly at the gap, removing the symbol behind it, Tab at it, a new choice spanning it, clearing).
* the auto-commit that may end a step removes a prefix: it *reaches* the choice iff the image of the choice
  starts before the cut (`AutoCommitReaches`).

Theorems

* `selection_survives_op` / `selection_survives_key` — one step: a choice of the pre-state that the operation
  does not edit inside is `Carried` into the post-state (present, same text and kind, over the same symbols,
  shifted), unless the auto-commit reached it; then (`choice_committed_by_autocommit`, for the environment whose
  engine is C03's model) it was committed WHOLE and with its chosen text.
* `choice_persists_along` — every history: the choice is carried to the end, or some step of the history edited
  it (`EditedBy`) — "dropped only if edited inside", along histories.
* `choice_shown` / `choice_displayed` — at every state satisfying C01's invariant, for the environment whose
  engine is C03's model: the pre-edit text over the range of a choice is the chosen text, in the alternative the
  editor shows.  `choice_shown_along`: the two combined.
* `break_survives_op`, `break_persists_along` — the same for a break point (`BreakCarried`: still a break,
  before the same symbol); `break_not_spanned_editor`: no interval of any alternative spans a break;
  `break_respected_along`: the two combined.
* non-vacuity: concrete histories over C03's engine model and example dictionary (`C02.linkEnv`).
-/
namespace Chewing.C04
open Chewing Chewing.C01 Chewing.C06

variable {D L : Type} {env : Env D L} {G : D → Prop} {w : Prop}

/-! ## "the user edits them": decidable, on the pre-state and the operation -/

/-- **the operation can edit inside the choice `s`** -/
def opEdits (e : Editor D L) (op : Op L) (s : Interval) : Bool :=
  (opKinds e op).any fun k => kindEdits e.shared.com k s

/-- **the key can edit inside the choice `s`** -/
def keyEdits (e : Editor D L) (ev : KeyEvent) (s : Interval) : Bool := opEdits e (.key ev) s

/-- **the operation can touch the gap `j`** -/
def opTouches (e : Editor D L) (op : Op L) (j : Nat) : Bool :=
  (opKinds e op).any fun k => kindTouches e.shared.com k j

/-- the auto-commit that ended the step reached the choice: its image `t` in the edited state starts before the cut -/
def AutoCommitReaches (env : Env D L) (e : Editor D L) (op : Op L) (e' : Editor D L) (s : Interval) : Prop :=
  ∃ (mid : Shared D L) (n : Nat) (t : Interval), Did (opKinds e op) e.shared.com mid.com ∧ AutoCommit env mid e' n ∧
    t ∈ mid.com.inner.selections ∧ Carried e.shared.com.inner mid.com.inner s t ∧ t.start < n

/-- the auto-commit that ended the step removed the symbol behind the break -/
def AutoCommitReachesGap (env : Env D L) (e : Editor D L) (op : Op L) (e' : Editor D L) (j : Nat) : Prop :=
  ∃ (mid : Shared D L) (n j1 : Nat), Did (opKinds e op) e.shared.com mid.com ∧ AutoCommit env mid e' n ∧
    BreakCarried e.shared.com.inner mid.com.inner j j1 ∧ j1 ≤ n

theorem not_any_kind {ks : List Kind} {p : Kind → Bool} (h : ks.any p = false) : ∀ k ∈ ks, p k = false := by
  intro k hk
  cases hp : p k with
  | false => rfl
  | true => rw [List.any_eq_false] at h; exact absurd hp (h k hk)

/-! ## One step -/

/-- **C04, editor level, one operation.**  A choice of the pre-state that the operation does not edit inside is
    carried into the post-state — same text, same kind, over the same symbols, at its shifted position — unless
    the auto-commit ending the step reached it. -/
theorem selection_survives_op (hE : EnvOK env G) {e e' : Editor D L} (hi : EditorInv env G w e) (op : Op L)
    (hv : OpValid op) (hk : w → ¬ Known env e op) (h : e.apply env op = .ok e')
    {s : Interval} (hs : s ∈ e.shared.com.inner.selections) (hn : opEdits e op s = false) :
    (∃ t ∈ e'.shared.com.inner.selections, Carried e.shared.com.inner e'.shared.com.inner s t) ∨
      AutoCommitReaches env e op e' s := by
  obtain ⟨mid, hd, hcm, ht⟩ := apply_shape hE hi op hv hk h
  obtain ⟨t, t1, t2⟩ := did_selection hi.sh.ced.inner.comp hd hs (not_any_kind hn)
  rcases ht with heq | ⟨n, hac⟩
  · left
    rw [heq]
    exact ⟨t, t1, t2⟩
  · by_cases hlt : t.start < n
    · exact .inr ⟨mid, n, t, hd, hac, t1, t2, hlt⟩
    · left
      have hc := hac.cut
      obtain ⟨m1, m2⟩ := carried_op hcm (.removeFront n) (c' := e'.shared.com.inner) hc t1
        (by simpa [EditsInside, Drops] using hlt)
      exact ⟨_, m1, t2.trans m2⟩

/-- … for a key, in the words of `process_keyevent` -/
theorem selection_survives_key (hE : EnvOK env G) {e e' : Editor D L} (hi : EditorInv env G w e) (ev : KeyEvent)
    {b : KB} (h : e.processKey env ev = .ok (e', b))
    {s : Interval} (hs : s ∈ e.shared.com.inner.selections) (hn : keyEdits e ev s = false) :
    (∃ t ∈ e'.shared.com.inner.selections, Carried e.shared.com.inner e'.shared.com.inner s t) ∨
      AutoCommitReaches env e (.key ev) e' s :=
  selection_survives_op hE hi (.key ev) trivial (fun _ hkn => hkn) (by simp only [Editor.apply, h, Outcome.map]) hs hn

/-- **the same for a break point**: a break the operation does not touch is still a break, before the same symbol,
    unless the auto-commit ending the step removed that symbol -/
theorem break_survives_op (hE : EnvOK env G) {e e' : Editor D L} (hi : EditorInv env G w e) (op : Op L)
    (hv : OpValid op) (hk : w → ¬ Known env e op) (h : e.apply env op = .ok e')
    {j : Nat} (hg : e.shared.com.inner.gaps[j]? = some Gap.brk) (hn : opTouches e op j = false) :
    (∃ j', BreakCarried e.shared.com.inner e'.shared.com.inner j j') ∨ AutoCommitReachesGap env e op e' j := by
  obtain ⟨mid, hd, hcm, ht⟩ := apply_shape hE hi op hv hk h
  obtain ⟨j1, b1⟩ := did_break hi.sh.ced.inner.comp hd hg (not_any_kind hn)
  rcases ht with heq | ⟨n, hac⟩
  · left
    rw [heq]
    exact ⟨j1, b1⟩
  · by_cases hle : j1 ≤ n
    · exact .inr ⟨mid, n, j1, hd, hac, b1, hle⟩
    · left
      have b2 := break_carried_op hcm (.removeFront n) hac.cut b1.1 (j' := j1 - n) (by simp [gapShift, hle])
      exact ⟨_, b1.trans b2⟩

/-! ## Every history -/

/-- a history of valid operations; at strength `w = True` outside C01's class `Known` (an operation that takes
    away the last word of a buffered syllable), at strength `w = False` without any exclusion -/
def AllowedW (w : Prop) (env : Env D L) : Editor D L → List (Op L) → Prop
  | _, [] => True
  | e, op :: ops => OpValid op ∧ (w → ¬ Known env e op) ∧ ∀ e', e.apply env op = .ok e' → AllowedW w env e' ops

theorem allowedW_of_valid (ops : List (Op L)) : ∀ e : Editor D L, (∀ op ∈ ops, OpValid op) → AllowedW False env e ops := by
  induction ops with
  | nil => intro _ _; trivial
  | cons op ops ih =>
    intro e hv
    exact ⟨hv op (List.mem_cons_self ..), fun hw => hw.elim, fun e' _ => ih e' fun o ho => hv o (List.mem_cons_of_mem _ ho)⟩

theorem allowedW_of_allowed (ops : List (Op L)) : ∀ e : Editor D L, Allowed env e ops → AllowedW True env e ops := by
  induction ops with
  | nil => intro _ _; trivial
  | cons op ops ih =>
    intro e ha
    exact ⟨ha.1, fun _ => ha.2.1, fun e' he' => ih e' (ha.2.2 e' he')⟩

/-- the step `op` from `e` to `e'` edited the choice `s`: by one of its kinds of edit, or its auto-commit reached it -/
def EditedBy (env : Env D L) (e : Editor D L) (op : Op L) (e' : Editor D L) (s : Interval) : Prop :=
  opEdits e op s = true ∨ AutoCommitReaches env e op e' s

/-- the step `op` from `e` to `e'` touched the break at gap `j` -/
def TouchedBy (env : Env D L) (e : Editor D L) (op : Op L) (e' : Editor D L) (j : Nat) : Prop :=
  opTouches e op j = true ∨ AutoCommitReachesGap env e op e' j

/-- **C04, editor level, every history.**  From every state satisfying C01's invariant, along every history of
    public operations: a choice is carried to the end of the history (present, with its text, over the same
    symbols), or some step of the history edited it — a step `op` at which its image `s1` was edited inside, or
    reached by the auto-commit.  Choices disappear for no other reason. -/
theorem choice_persists_along (hE : EnvOK env G) (ops : List (Op L)) :
    ∀ (e e' : Editor D L), EditorInv env G w e → AllowedW w env e ops → e.run env ops = .ok e' →
    ∀ s ∈ e.shared.com.inner.selections,
      (∃ t ∈ e'.shared.com.inner.selections, Carried e.shared.com.inner e'.shared.com.inner s t) ∨
      (∃ (pre : List (Op L)) (op : Op L) (post : List (Op L)) (e1 e2 : Editor D L) (s1 : Interval),
        ops = pre ++ op :: post ∧ e.run env pre = .ok e1 ∧ e1.apply env op = .ok e2 ∧
        s1 ∈ e1.shared.com.inner.selections ∧ Carried e.shared.com.inner e1.shared.com.inner s s1 ∧
        EditedBy env e1 op e2 s1) := by
  induction ops with
  | nil =>
    intro e e' _ _ h s hs
    simp only [Editor.run] at h; cases h
    exact .inl ⟨s, hs, Carried.refl _ _⟩
  | cons op ops ih =>
    intro e e' hi ha h s hs
    obtain ⟨hv, hk, hrest⟩ := ha
    simp only [Editor.run] at h
    split at h
    · next e1 h1 =>
      have hi1 : EditorInv env G w e1 := by
        obtain ⟨e2, h2, hi2⟩ := apply_ok hE hi op hv hk
        rw [h1] at h2; rw [Outcome.ok.inj h2]; exact hi2
      cases hed : opEdits e op s with
      | true => exact .inr ⟨[], op, ops, e, e1, s, rfl, rfl, h1, hs, Carried.refl _ _, .inl hed⟩
      | false =>
        rcases selection_survives_op hE hi op hv hk h1 hs hed with ⟨t, t1, t2⟩ | hr
        · rcases ih e1 e' hi1 (hrest e1 h1) h t t1 with ⟨u, u1, u2⟩ | ⟨pre, op', post, ea, eb, s1, r1, r2, r3, r4, r5, r6⟩
          · exact .inl ⟨u, u1, t2.trans u2⟩
          · refine .inr ⟨op :: pre, op', post, ea, eb, s1, by rw [r1]; rfl, ?_, r3, r4, t2.trans r5, r6⟩
            simp only [Editor.run, h1]; exact r2
        · exact .inr ⟨[], op, ops, e, e1, s, rfl, rfl, h1, hs, Carried.refl _ _, .inr hr⟩
    · cases h
    · cases h

/-- **… and for break points**: a break set by the user is still a break (before the same symbol) at the end of the
    history, or some step touched that very gap / auto-committed the symbol behind it -/
theorem break_persists_along (hE : EnvOK env G) (ops : List (Op L)) :
    ∀ (e e' : Editor D L), EditorInv env G w e → AllowedW w env e ops → e.run env ops = .ok e' →
    ∀ j, e.shared.com.inner.gaps[j]? = some Gap.brk →
      (∃ j', BreakCarried e.shared.com.inner e'.shared.com.inner j j') ∨
      (∃ (pre : List (Op L)) (op : Op L) (post : List (Op L)) (e1 e2 : Editor D L) (j1 : Nat),
        ops = pre ++ op :: post ∧ e.run env pre = .ok e1 ∧ e1.apply env op = .ok e2 ∧
        BreakCarried e.shared.com.inner e1.shared.com.inner j j1 ∧ TouchedBy env e1 op e2 j1) := by
  induction ops with
  | nil =>
    intro e e' _ _ h j hg
    simp only [Editor.run] at h; cases h
    exact .inl ⟨j, hg, rfl⟩
  | cons op ops ih =>
    intro e e' hi ha h j hg
    obtain ⟨hv, hk, hrest⟩ := ha
    simp only [Editor.run] at h
    split at h
    · next e1 h1 =>
      have hi1 : EditorInv env G w e1 := by
        obtain ⟨e2, h2, hi2⟩ := apply_ok hE hi op hv hk
        rw [h1] at h2; rw [Outcome.ok.inj h2]; exact hi2
      cases hed : opTouches e op j with
      | true => exact .inr ⟨[], op, ops, e, e1, j, rfl, rfl, h1, ⟨hg, rfl⟩, .inl hed⟩
      | false =>
        rcases break_survives_op hE hi op hv hk h1 hg hed with ⟨j1, b1⟩ | hr
        · rcases ih e1 e' hi1 (hrest e1 h1) h j1 b1.1 with ⟨j2, b2⟩ | ⟨pre, op', post, ea, eb, j2, r1, r2, r3, r4, r5⟩
          · exact .inl ⟨j2, b1.trans b2⟩
          · refine .inr ⟨op :: pre, op', post, ea, eb, j2, by rw [r1]; rfl, ?_, r3, b1.trans r4, r5⟩
            simp only [Editor.run, h1]; exact r2
        · exact .inr ⟨[], op, ops, e, e1, j, rfl, rfl, h1, ⟨hg, rfl⟩, .inr hr⟩
    · cases h
    · cases h

/-! ## What the conversion then shows (C03, linked through `Proofs/EditorLink.lean`) -/

section Linked
variable {pick : Nat → List Conv.Path → Nat} {view : D → Dict}

/-- the engine call of a state satisfying the invariant is C03's model, with C03's hypotheses -/
theorem convert_is_C03 (he : Link.EngineIsC03 env G pick view) {sh : Shared D L} (hlen : sh.com.inner.symbols.length ≤ 128)
    (hsp : Conv.SpellNonempty sh.com.inner) :
    env.convert sh.engine sh.dict sh.com.inner = Conv.convert pick (toEngine sh.engine) (view sh.dict) sh.com.inner :=
  he.engine _ _ _ hlen hsp

/-- **the chosen text is shown**: at a state satisfying C01's invariant (every buffered syllable has a word), for
    the environment whose engine is C03's model, in the alternative the editor shows (`conversion`: the `nth`
    alternative) the text over the range of every choice is the chosen text -/
theorem choice_shown (he : Link.EngineIsC03 env G pick view) {sh : Shared D L} (hi : ShInv env G True sh)
    (hlen : sh.com.inner.symbols.length ≤ 128) (hsp : Conv.SpellNonempty sh.com.inner)
    {s : Interval} (hs : s ∈ sh.com.inner.selections) {ivs : List Interval} (hc : Shared.conversion env sh = .ok ivs) :
    Conv.textAt ivs s.start s.stop = s.text := by
  obtain ⟨paths, hp, hm⟩ := Chewing.conversion_mem env hc
  rw [convert_is_C03 he hlen hsp] at hp
  have hcv := compValid_of_cinv hi.ced.inner
  have hh : Conv.HasWord (view sh.dict) (toEngine sh.engine).strategy sh.com.inner := by
    intro k hk
    have h1 := he.lookup sh.dict k _ (hi.word trivial k hk).1
    rw [toEngine_strategy]
    intro hnil
    rw [hnil] at h1
    cases h1
  exact Chewing.C03.selection_shown hcv (he.wellFormed _ hi.good) hh hp hs ivs hm

/-- … in the words of `Editor::display`: the characters of the pre-edit string over the range are the chosen text -/
theorem choice_displayed (he : Link.EngineIsC03 env G pick view) {sh : Shared D L} (hi : ShInv env G True sh)
    (hlen : sh.com.inner.symbols.length ≤ 128) (hsp : Conv.SpellNonempty sh.com.inner)
    {s : Interval} (hs : s ∈ sh.com.inner.selections) {txt : Text} (hd : Shared.display env sh = .ok txt) :
    (txt.drop s.start).take (s.stop - s.start) = s.text := by
  unfold Shared.display at hd
  obtain ⟨ivs, hc, hx⟩ := C05.map_ok hd
  rw [← hx]
  exact choice_shown he hi hlen hsp hs hc

/-- **a choice the auto-commit reaches is committed whole and with its chosen text**: the cut never falls inside
    a choice, and the committed string carries the chosen text at the choice's range -/
theorem choice_committed_by_autocommit (hE : EnvOK env G) (he : Link.EngineIsC03 env G pick view)
    {mid : Shared D L} {e' : Editor D L} {n : Nat} (hi : ShInv env G True mid) (hac : AutoCommit env mid e' n)
    (hlen : mid.com.inner.symbols.length ≤ 128) (hsp : Conv.SpellNonempty mid.com.inner)
    {t : Interval} (ht : t ∈ mid.com.inner.selections) (hreach : t.start < n) :
    t.stop ≤ n ∧ (e'.shared.commitBuf.drop t.start).take (t.stop - t.start) = t.text := by
  obtain ⟨ivs, hc, htake⟩ := hac.take
  obtain ⟨paths, hp, hm⟩ := Chewing.conversion_mem env hc
  have hcv := compValid_of_cinv hi.ced.inner
  have hok := conversion_exact hE hi
  obtain ⟨ivs', hc', hpath⟩ := hok
  rw [hc] at hc'
  cases Outcome.ok.inj hc'
  have hp' := hp
  rw [convert_is_C03 he hlen hsp] at hp'
  obtain ⟨iv, hiv, hw1, hw2⟩ := Chewing.C03.selection_not_split hcv hp' ht ivs hm
  have hover : mid.options.autoCommitThreshold < mid.com.inner.symbols.length := hac.over
  exact committed_choice (len := mid.com.inner.symbols.length) hpath.1 hpath.2 hover htake
    (hi.ced.inner.comp.sel_nonempty t ht) ⟨iv, hiv, hw1, hw2⟩ (choice_shown he hi hlen hsp ht hc) hreach

/-- **no interval of any alternative spans a break point**: at every state satisfying C01's (safety) invariant, for
    the environment whose engine is C03's model, every dictionary -/
theorem break_not_spanned_editor (he : Link.EngineIsC03 env G pick view) {sh : Shared D L} (hi : ShInv env G w sh)
    (hlen : sh.com.inner.symbols.length ≤ 128) (hsp : Conv.SpellNonempty sh.com.inner)
    {j : Nat} (hg : sh.com.inner.gaps[j]? = some Gap.brk)
    {alts : List (List Interval)} (hc : env.convert sh.engine sh.dict sh.com.inner = .ok alts) :
    ∀ alt ∈ alts, ∀ iv ∈ alt, ¬ (iv.start < j ∧ j < iv.stop) := by
  rw [convert_is_C03 he hlen hsp] at hc
  have hcv := compValid_of_cinv hi.ced.inner
  have hj : j < sh.com.inner.symbols.length := by
    rw [hi.ced.inner.comp.len_eq]
    rcases Nat.lt_or_ge j sh.com.inner.gaps.length with h' | h'
    · exact h'
    · rw [List.getElem?_eq_none h'] at hg; cases hg
  exact Chewing.C03.break_not_spanned hcv hc (by unfold Conv.gapAt; rw [if_pos hj]; exact hg)

/-- **C04 as worded, along histories**: a choice made in a state satisfying C01's invariant, after any history
    outside C01's class `Known` none of whose steps edits it: it is still a choice of the final state and the
    pre-edit text the editor displays over its range is the chosen text -/
theorem choice_shown_along (hd : Link.DictOK env G) (he : Link.EngineIsC03 env G pick view) (ops : List (Op L))
    (e e' : Editor D L) (hi : EditorInv env G True e) (ha : Allowed env e ops) (h : e.run env ops = .ok e')
    (hlen : e'.shared.com.inner.symbols.length ≤ 128) (hsp : Conv.SpellNonempty e'.shared.com.inner)
    {s : Interval} (hs : s ∈ e.shared.com.inner.selections)
    (hne : ¬ ∃ (pre : List (Op L)) (op : Op L) (post : List (Op L)) (e1 e2 : Editor D L) (s1 : Interval),
        ops = pre ++ op :: post ∧ e.run env pre = .ok e1 ∧ e1.apply env op = .ok e2 ∧
        s1 ∈ e1.shared.com.inner.selections ∧ Carried e.shared.com.inner e1.shared.com.inner s s1 ∧
        EditedBy env e1 op e2 s1) :
    ∃ t ∈ e'.shared.com.inner.selections, Carried e.shared.com.inner e'.shared.com.inner s t ∧
      ∀ txt, Shared.display env e'.shared = .ok txt → (txt.drop t.start).take (t.stop - t.start) = s.text := by
  have hE := Link.envOK_of_C03 hd he
  rcases choice_persists_along hE ops e e' hi (allowedW_of_allowed ops e ha) h s hs with ⟨t, t1, t2⟩ | hr
  · obtain ⟨e2, h2, hi2⟩ := C01_partial_run hE ops e hi ha
    rw [h] at h2
    have hi' : EditorInv env G True e' := by rw [Outcome.ok.inj h2]; exact hi2
    refine ⟨t, t1, t2, fun txt hdsp => ?_⟩
    rw [← t2.text]
    exact choice_displayed he hi'.sh hlen hsp t1 hdsp
  · exact absurd hr hne

/-- **break points, as worded, along histories**: a break set in a state satisfying C01's invariant, after any
    history none of whose steps touches that gap (or auto-commits the symbol behind it): it is still a break of the
    final state, before the same symbol, and NO interval of ANY alternative the engine returns for the final buffer
    spans it -/
theorem break_respected_along (hd : Link.DictOK env G) (he : Link.EngineIsC03 env G pick view) (ops : List (Op L))
    (e e' : Editor D L) (hi : EditorInv env G w e) (ha : AllowedW w env e ops) (h : e.run env ops = .ok e')
    (hlen : e'.shared.com.inner.symbols.length ≤ 128) (hsp : Conv.SpellNonempty e'.shared.com.inner)
    {j : Nat} (hg : e.shared.com.inner.gaps[j]? = some Gap.brk)
    (hne : ¬ ∃ (pre : List (Op L)) (op : Op L) (post : List (Op L)) (e1 e2 : Editor D L) (j1 : Nat),
        ops = pre ++ op :: post ∧ e.run env pre = .ok e1 ∧ e1.apply env op = .ok e2 ∧
        BreakCarried e.shared.com.inner e1.shared.com.inner j j1 ∧ TouchedBy env e1 op e2 j1) :
    ∃ j', BreakCarried e.shared.com.inner e'.shared.com.inner j j' ∧
      ∀ alts, env.convert e'.shared.engine e'.shared.dict e'.shared.com.inner = .ok alts →
        ∀ alt ∈ alts, ∀ iv ∈ alt, ¬ (iv.start < j' ∧ j' < iv.stop) := by
  have hE := Link.envOK_of_C03 hd he
  rcases break_persists_along hE ops e e' hi ha h j hg with ⟨j', b⟩ | hr
  · have hi' : EditorInv env G w e' := by
      clear hne hg b
      induction ops generalizing e with
      | nil => simp only [Editor.run] at h; cases h; exact hi
      | cons op ops ih =>
        obtain ⟨hv, hk, hrest⟩ := ha
        simp only [Editor.run] at h
        split at h
        · next e1 h1 =>
          obtain ⟨e2, h2, hi2⟩ := apply_ok hE hi op hv hk
          rw [h1] at h2
          exact ih e1 (by rw [Outcome.ok.inj h2]; exact hi2) (hrest e1 h1) h
        · cases h
        · cases h
    exact ⟨j', b, fun alts hc => break_not_spanned_editor he hi'.sh hlen hsp b.1 hc⟩
  · exact absurd hr hne

end Linked

/-! ## Non-vacuity: concrete histories over C03's engine model and example dictionary (`C02.linkEnv`)

`ㄘㄜˋ` (key `h␣`): 測, 冊; `ㄕˋ` (key `j␣`): 試; `ㄘㄜˋ ㄕˋ`: 測試. -/

section Examples
open Chewing.C02

def kDown : KeyEvent := { index := 57, code := KC.down, unicode := 65533 }
def kLeft : KeyEvent := { index := 54, code := KC.left, unicode := 65533 }
def kBksp : KeyEvent := { index := 52, code := KC.backspace, unicode := 65533 }
def k2 : KeyEvent := { index := 2, code := 2, unicode := 50 }

/-- a fresh editor over C03's example dictionary with `auto_commit_threshold = 2` -/
def exEditor : Editor Dict Nat := { shared := { syl := 0, dict := C03.dEx, options := { autoCommitThreshold := 2 } } }

theorem exEditor_inv : EditorInv linkEnv (fun d => d = C03.dEx) True exEditor :=
  initial_inv _ rfl rfl (fun _ h => by cases h) (by show (0 : Nat) < 10; omega) symWF_empty

/-- the state after `h␣ h␣ Down 2`: `ㄘㄜˋ ㄘㄜˋ`, 冊 chosen for the second syllable, cursor at the end -/
def exChosen : Editor Dict Nat :=
  { shared := { exEditor.shared with
      com := { cursor := 2, inner := { symbols := [.syl 10268, .syl 10268], gaps := [.begin, .normal],
                                       selections := [⟨1, 2, true, [20874]⟩] } },
      time := 6 } }

/-- **the history of the task statement**: type two syllables, open the list on the second, choose 冊 (the
    default is 測), move left, type `ㄕˋ` exactly at the start of the choice (it moves right), whereupon the buffer
    exceeds the limit and the auto-commit removes the prefix 測試 — cutting exactly in front of the choice.  The
    choice is still there (shifted to `0..1`) and still shown: the display is 冊, not 測. -/
example :
    (exEditor.run linkEnv [.key kH, .key kSpace, .key kH, .key kSpace, .key kDown, .key k2, .key kLeft, .key kJ, .key kSpace]).map
        (fun e => (e.shared.com.inner.symbols, e.shared.com.inner.selections, Shared.display linkEnv e.shared, e.shared.commitBuf)) =
      .ok ([.syl 10268], [⟨0, 1, true, [20874]⟩], .ok [20874], [28204, 35430]) := by decide +kernel

/-- the intermediate state is `exChosen` (up to the clock) and shows 測冊 -/
example :
    (exEditor.run linkEnv [.key kH, .key kSpace, .key kH, .key kSpace, .key kDown, .key k2]).map
        (fun e => (e.shared.com, e.state, Shared.display linkEnv e.shared)) =
      .ok (exChosen.shared.com, .entering, .ok [28204, 20874]) := by decide +kernel

/-- which keys edit the choice `1..2` of `exChosen` (cursor 2, at its end): typing there, cursor keys, Tab, Down do
    not; Backspace (it removes the chosen symbol) and Enter (everything is committed) do -/
example : keyEdits exChosen kJ ⟨1, 2, true, [20874]⟩ = false ∧ keyEdits exChosen kLeft ⟨1, 2, true, [20874]⟩ = false ∧
    keyEdits exChosen kTab ⟨1, 2, true, [20874]⟩ = false ∧ keyEdits exChosen kDown ⟨1, 2, true, [20874]⟩ = false ∧
    keyEdits exChosen kBksp ⟨1, 2, true, [20874]⟩ = true ∧ keyEdits exChosen kEnter ⟨1, 2, true, [20874]⟩ = true := by
  decide

/-- the hypotheses of `selection_survives_key` are satisfiable, and its first alternative is what happens: `Left` -/
example : (exChosen.processKey linkEnv kLeft).map (fun r => (r.1.shared.com.inner.selections, r.1.shared.com.cursor)) =
    .ok ([⟨1, 2, true, [20874]⟩], 1) := by decide +kernel

/-- the hypotheses of `choice_shown_along` (`DictOK`, `EngineIsC03`, `EditorInv`) are satisfiable -/
example : Link.DictOK linkEnv (fun d => d = C03.dEx) ∧
    Link.EngineIsC03 linkEnv (fun d => d = C03.dEx) Conv.pickFirstMin id ∧
    EditorInv linkEnv (fun d => d = C03.dEx) True exEditor :=
  ⟨linkEnv_dictOK, linkEnv_engine, exEditor_inv⟩

/-- a break: `h␣ j␣ Left Tab` sets a break between `ㄘㄜˋ` and `ㄕˋ`; the phrase 測試 no longer spans it (測 試 as two
    intervals), and `Left` does not touch it -/
example :
    (({ shared := { syl := 0, dict := C03.dEx } } : Editor Dict Nat).run linkEnv
        [.key kH, .key kSpace, .key kJ, .key kSpace, .key kLeft, .key kTab, .key kLeft]).map
      (fun e => (e.shared.com.inner.gaps, (Shared.conversion linkEnv e.shared).map (·.map fun iv => (iv.start, iv.stop)))) =
      .ok ([.begin, .brk], .ok [(0, 1), (1, 2)]) := by decide +kernel

end Examples

end Chewing.C04
