import Chewing.Props.C04
import Chewing.Props.C06
import Chewing.Proofs.EditorCursor
import Chewing.Proofs.EditorBound
import Chewing.Proofs.EditorRevalidate
/-!
# C05 — editing keys act exactly at the cursor and the buffer stays bounded

Stage A of DESIGN §12: everything that can be said about `CompositionEditor`
(`src/editor/composition_editor.rs`) alone, for every state and every sequence of its methods.

What is proved here

* `cursor_le_len` — `cursor ≤ len` (and `symbols.len() == gaps.len()`) is an invariant of every
  sequence of `CompositionEditor` calls, by induction over operation lists, with NO precondition
  on indices or selections (`pop_cursor` clamps, `remove_front` saturates, `clamp_cursor` and
  `move_cursor*` use `min`/`saturating_sub`); `cursor_le_len_from_new` instantiates it at `Default`.
* `insert_at_cursor` — `symbols' = take c s ++ [x] ++ drop c s`, `cursor' = c + 1`; never panics.
* `backspace_frame` — at `c = 0` nothing changes; otherwise `symbols' = take (c-1) s ++ drop c s`,
  `cursor' = c - 1`.   `delete_frame` — `symbols' = take c s ++ drop (c+1) s`, cursor unchanged;
  at the end of the buffer `remove_after_cursor` hits `assert!(index < self.len())`
  (`delete_at_end_panics`: the caller must guard, the editor does).
* `move_only_cursor` — Left/Right/Home/End/`move_cursor`/`clamp_cursor`/`push_cursor`/`pop_cursor`
  leave the composition (symbols, gaps, selections) untouched; `move_cursor_values` gives the new cursor.
* cursor stack: `stack_frame` (only push/pop/clear touch it), `pop_restores`, `push_run_pop` (push, any
  calls that are not push/pop/clear, pop ⇒ the saved cursor clamped to the new length, stack as before).
* `remove_front_frame`, `replace_frame`, `gap_select_frame`, `clear_frame`.
* totality where the editor relies on it: `insert_total`, `backspace_total`, `insert_gap_total`,
  `delete_ok_iff`, `replace_ok_iff`, `remove_front_ok_iff`.

Editor level (second half of this file, for every environment): `Reach` / `cursor_le_len_editor`
(every public operation, every history), the per-key theorems `backspace_key`, `delete_key`, `move_key`,
`symbol_key_inserts_at_cursor`, `easy_symbol_expansion`, `syllable_commit_inserts_one`,
`syllable_commit_no_word`, and the bound `tryAutoCommit_bound`, `bounded_after_absorb`,
`bounded_after_key` (under `TilingEnv`, C03's theorem about the engines, as a hypothesis on `env`).
The per-key theorems are stated on `dispatch` (the state's `next`), i.e. before the auto-commit tail;
`tail_com` + `tryAutoCommit_bound` say what the tail adds (a prefix is cut off, cursor shifted).
-/
namespace Chewing.C05
open Chewing Chewing.C04

/-- the C05 invariant of `CompositionEditor` -/
def CursorInv (e : CompEditor) : Prop := LenInv e.inner ∧ e.cursor ≤ e.inner.symbols.length

theorem cursorInv_new : CursorInv CompEditor.new := ⟨rfl, Nat.le_refl _⟩

/-! ## Frames: what each method does to symbols, cursor and cursor stack -/

/-- **insert**: exactly one symbol, exactly at the cursor; the cursor advances by one -/
theorem insert_at_cursor (e : CompEditor) (x : Sym) (e' : CompEditor) (h : e.insert x = .ok e') :
    e'.symbols = e.symbols.take e.cursor ++ [x] ++ e.symbols.drop e.cursor ∧
    e'.cursor = e.cursor + 1 ∧ e'.stack = e.stack ∧ e.cursor ≤ e.symbols.length := by
  obtain ⟨c, hc, rfl⟩ := withInner_ok h
  exact ⟨(insert_symbols hc).2, rfl, rfl, (insert_symbols hc).1⟩

/-- **Backspace** (`remove_before_cursor`): removes exactly the symbol before the cursor -/
theorem backspace_frame (e : CompEditor) (e' : CompEditor) (h : e.removeBeforeCursor = .ok e') :
    (e.cursor = 0 → e' = e) ∧
    (0 < e.cursor → e'.symbols = e.symbols.take (e.cursor - 1) ++ e.symbols.drop e.cursor ∧
      e'.cursor = e.cursor - 1 ∧ e'.stack = e.stack ∧ e.cursor ≤ e.symbols.length) := by
  unfold CompEditor.removeBeforeCursor at h
  split at h
  · next h0 => cases h; exact ⟨fun _ => rfl, fun hp => by omega⟩
  · next h0 =>
    obtain ⟨c, hc, rfl⟩ := withInner_ok h
    refine ⟨fun h00 => absurd h00 h0, fun _ => ⟨?_, rfl, rfl, ?_⟩⟩
    · have := (remove_symbols hc).2
      simp only [CompEditor.symbols]
      rw [this]
      congr 2
      omega
    · have := (remove_symbols hc).1
      simp only [CompEditor.symbols]
      omega

/-- **Delete** (`remove_after_cursor`): removes exactly the symbol at the cursor -/
theorem delete_frame (e : CompEditor) (e' : CompEditor) (h : e.removeAfterCursor = .ok e') :
    e.cursor < e.symbols.length ∧
    e'.symbols = e.symbols.take e.cursor ++ e.symbols.drop (e.cursor + 1) ∧
    e'.cursor = e.cursor ∧ e'.stack = e.stack := by
  obtain ⟨c, hc, rfl⟩ := withInner_ok h
  exact ⟨(remove_symbols hc).1, (remove_symbols hc).2, rfl, rfl⟩

/-- as coded, Delete at (or beyond) the end of the buffer is an assertion failure: callers must guard -/
theorem delete_at_end_panics (e : CompEditor) (hl : LenInv e.inner) (h : e.inner.symbols.length ≤ e.cursor) :
    e.removeAfterCursor = .panic "index" := by
  unfold LenInv at hl
  simp only [CompEditor.removeAfterCursor, Composition.remove, CompEditor.withInner]
  rw [if_neg (by simpa using hl), if_pos (by omega)]

/-- the methods that may only move the cursor (or save / restore it) -/
def isMove : CedOp → Bool
  | .moveLeft | .moveRight | .moveToBeginning | .moveToEnd | .moveCursor _ | .clampCursor
  | .pushCursor | .popCursor => true
  | _ => false

/-- **Left/Right/Home/End (and `move_cursor`, `clamp_cursor`, push/pop) change only the cursor** -/
theorem move_only_cursor (e : CompEditor) (op : CedOp) (e' : CompEditor) (hm : isMove op = true)
    (h : e.apply op = .ok e') : e'.inner = e.inner := by
  cases op <;> simp only [isMove] at hm <;> try (cases hm)
  all_goals
    simp only [CompEditor.apply, CompEditor.pushCursor, CompEditor.popCursor, CompEditor.clampCursor,
      CompEditor.moveCursor, CompEditor.moveToEnd, CompEditor.moveToBeginning, CompEditor.moveLeft,
      CompEditor.moveRight] at h
    cases h
    (try split) <;> rfl

/-- the new cursor of each move -/
theorem move_cursor_values (e : CompEditor) :
    e.moveLeft.cursor = e.cursor - 1 ∧
    e.moveRight.cursor = min (e.cursor + 1) e.len ∧
    e.moveToBeginning.cursor = 0 ∧
    e.moveToEnd.cursor = e.len ∧
    (∀ n, (e.moveCursor n).cursor = min n e.len) ∧
    e.clampCursor.cursor = (if e.cursor = e.len then e.cursor - 1 else e.cursor) ∧
    e.pushCursor.cursor = e.cursor := by
  refine ⟨rfl, rfl, rfl, rfl, fun _ => rfl, ?_, rfl⟩
  unfold CompEditor.clampCursor CompEditor.len
  split <;> simp_all

/-- only `push_cursor` / `pop_cursor` / `clear` touch the cursor stack (`clear` empties it since the F25 fix) -/
theorem stack_frame (e : CompEditor) (op : CedOp) (e' : CompEditor) (h1 : op ≠ .pushCursor) (h2 : op ≠ .popCursor)
    (h3 : op ≠ .clear) (h : e.apply op = .ok e') : e'.stack = e.stack := by
  cases op with
  | pushCursor => exact absurd rfl h1
  | popCursor => exact absurd rfl h2
  | clampCursor =>
    simp only [CompEditor.apply, CompEditor.clampCursor] at h; cases h; split <;> rfl
  | moveCursor n => cases h; rfl
  | clear => exact absurd rfl h3
  | removeFront n => obtain ⟨c, _, rfl⟩ := withInner_ok h; rfl
  | removeAfterCursor => obtain ⟨c, _, rfl⟩ := withInner_ok h; rfl
  | removeBeforeCursor =>
    simp only [CompEditor.apply, CompEditor.removeBeforeCursor] at h
    split at h
    · cases h; rfl
    · obtain ⟨c, _, rfl⟩ := withInner_ok h; rfl
  | moveToEnd => cases h; rfl
  | moveToBeginning => cases h; rfl
  | moveLeft => cases h; rfl
  | moveRight => cases h; rfl
  | insert x => obtain ⟨c, _, rfl⟩ := withInner_ok h; rfl
  | insertGlue =>
    simp only [CompEditor.apply, CompEditor.insertGlue, CompEditor.insertGap] at h
    split at h
    · cases h; rfl
    · obtain ⟨c, _, rfl⟩ := withInner_ok h; rfl
  | insertBreak =>
    simp only [CompEditor.apply, CompEditor.insertBreak, CompEditor.insertGap] at h
    split at h
    · cases h; rfl
    · obtain ⟨c, _, rfl⟩ := withInner_ok h; rfl
  | replace x => obtain ⟨c, _, rfl⟩ := withInner_ok h; rfl
  | select iv =>
    simp only [CompEditor.apply, CompEditor.select] at h
    split at h
    · cases h
    · obtain ⟨c, _, rfl⟩ := withInner_ok h; rfl

/-- `pop_cursor` restores the most recently saved cursor, clamped to the current length -/
theorem pop_restores (e : CompEditor) (st : List Nat) (c0 : Nat) (h : e.stack = st ++ [c0]) :
    e.popCursor.cursor = min c0 e.len ∧ e.popCursor.stack = st ∧ e.popCursor.inner = e.inner := by
  simp [CompEditor.popCursor, h, CompEditor.len]

/-- with nothing saved `pop_cursor` only clamps -/
theorem pop_empty (e : CompEditor) (h : e.stack = []) :
    e.popCursor.cursor = min e.cursor e.len ∧ e.popCursor.stack = [] ∧ e.popCursor.inner = e.inner := by
  simp [CompEditor.popCursor, h, CompEditor.len]

/-- the stack along a list of calls none of which is push/pop/clear -/
theorem stack_frame_run (ops : List CedOp) :
    ∀ (e e' : CompEditor), (∀ op ∈ ops, op ≠ .pushCursor ∧ op ≠ .popCursor ∧ op ≠ .clear) → e.run ops = .ok e' →
      e'.stack = e.stack := by
  induction ops with
  | nil => intro e e' _ h; simp only [CompEditor.run] at h; cases h; rfl
  | cons op ops ih =>
    intro e e' hn h
    simp only [CompEditor.run] at h
    split at h
    · next e1 h1 =>
      have a := hn op (List.mem_cons_self ..)
      rw [ih e1 e' (fun o ho => hn o (List.mem_cons_of_mem _ ho)) h, stack_frame e op e1 a.1 a.2.1 a.2.2 h1]
    · cases h
    · cases h

/-- **cursor save / restore around candidate selection**: `push_cursor`, any calls other than
    push/pop/clear (edits included), `pop_cursor` ⇒ the saved cursor, clamped to the new length; the
    stack is as before -/
theorem push_run_pop (e e1 : CompEditor) (ops : List CedOp)
    (hn : ∀ op ∈ ops, op ≠ .pushCursor ∧ op ≠ .popCursor ∧ op ≠ .clear) (h : e.pushCursor.run ops = .ok e1) :
    e1.popCursor.cursor = min e.cursor e1.len ∧ e1.popCursor.stack = e.stack ∧ e1.popCursor.inner = e1.inner := by
  have hs : e1.stack = e.stack ++ [e.cursor] := stack_frame_run ops e.pushCursor e1 hn h
  exact pop_restores e1 e.stack e.cursor hs

/-- `remove_front(n)` (auto-commit of the first `n` symbols): the rest keeps its order, the cursor saturates -/
theorem remove_front_frame (e : CompEditor) (n : Nat) (e' : CompEditor) (h : e.removeFront n = .ok e') :
    n ≤ e.symbols.length ∧ e'.symbols = e.symbols.drop n ∧ e'.cursor = e.cursor - n ∧ e'.stack = e.stack := by
  obtain ⟨c, hc, rfl⟩ := withInner_ok h
  exact ⟨(removeFront_symbols hc).1, (removeFront_symbols hc).2, rfl, rfl⟩

/-- `replace` overwrites exactly the symbol at the cursor -/
theorem replace_frame (e : CompEditor) (x : Sym) (e' : CompEditor) (h : e.replace x = .ok e') :
    e.cursor < e.symbols.length ∧
    e'.symbols = e.symbols.take e.cursor ++ [x] ++ e.symbols.drop (e.cursor + 1) ∧
    e'.cursor = e.cursor ∧ e'.stack = e.stack := by
  obtain ⟨c, hc, rfl⟩ := withInner_ok h
  exact ⟨(replace_symbols hc).1, (replace_symbols hc).2, rfl, rfl⟩

/-- `insert_glue`, `insert_break` and `select` change neither symbols nor cursor nor stack -/
theorem gap_select_frame (e : CompEditor) (op : CedOp) (e' : CompEditor)
    (ho : op = .insertGlue ∨ op = .insertBreak ∨ ∃ iv, op = .select iv) (h : e.apply op = .ok e') :
    e'.symbols = e.symbols ∧ e'.cursor = e.cursor ∧ e'.stack = e.stack := by
  rcases ho with rfl | rfl | ⟨iv, rfl⟩
  · simp only [CompEditor.apply, CompEditor.insertGlue, CompEditor.insertGap] at h
    split at h
    · cases h; exact ⟨rfl, rfl, rfl⟩
    · obtain ⟨c, hc, rfl⟩ := withInner_ok h; exact ⟨setGap_symbols hc, rfl, rfl⟩
  · simp only [CompEditor.apply, CompEditor.insertBreak, CompEditor.insertGap] at h
    split at h
    · cases h; exact ⟨rfl, rfl, rfl⟩
    · obtain ⟨c, hc, rfl⟩ := withInner_ok h; exact ⟨setGap_symbols hc, rfl, rfl⟩
  · simp only [CompEditor.apply, CompEditor.select] at h
    split at h
    · cases h
    · obtain ⟨c, hc, rfl⟩ := withInner_ok h; exact ⟨pushSelection_symbols hc, rfl, rfl⟩

/-- `clear` empties the buffer, resets the cursor and drops the saved cursors (F25 fix, see Props/C17.lean) -/
theorem clear_frame (e : CompEditor) :
    e.clear.symbols = [] ∧ e.clear.cursor = 0 ∧ e.clear.stack = [] ∧ e.clear.inner.selections = [] := by
  simp [CompEditor.clear, CompEditor.symbols, Composition.clear]

/-! ## The invariant -/

/-- one step: whatever the method and its arguments, a call that returns keeps `cursor ≤ len` -/
theorem cursor_le_len_step (e : CompEditor) (op : CedOp) (e' : CompEditor) (hi : CursorInv e)
    (h : e.apply op = .ok e') : CursorInv e' := by
  obtain ⟨hl, hc⟩ := hi
  have hl' : LenInv e'.inner := len_assert_unreachable (compOps e op) e.inner e'.inner hl (ced_inner e op e' h)
  refine ⟨hl', ?_⟩
  cases op with
  | pushCursor => cases h; exact hc
  | popCursor =>
    simp only [CompEditor.apply, CompEditor.popCursor, Composition.len] at h; cases h
    split <;> exact Nat.min_le_right ..
  | clampCursor =>
    simp only [CompEditor.apply, CompEditor.clampCursor] at h; cases h
    split
    · exact Nat.le_trans (Nat.sub_le ..) hc
    · exact hc
  | moveCursor n => cases h; exact Nat.min_le_right ..
  | clear => cases h; exact Nat.zero_le _
  | removeFront n =>
    have := remove_front_frame e n e' h
    simp only [CompEditor.symbols] at this
    rw [this.2.1, this.2.2.1, List.length_drop]; omega
  | removeAfterCursor =>
    have := delete_frame e e' h
    simp only [CompEditor.symbols] at this
    rw [this.2.1, this.2.2.1]
    simp only [List.length_append, List.length_take, List.length_drop]; omega
  | removeBeforeCursor =>
    have := backspace_frame e e' h
    simp only [CompEditor.symbols] at this
    rcases Nat.eq_zero_or_pos e.cursor with h0 | h0
    · rw [this.1 h0]; exact hc
    · obtain ⟨a, b, _, _⟩ := this.2 h0
      rw [a, b]
      simp only [List.length_append, List.length_take, List.length_drop]; omega
  | moveToEnd => cases h; exact Nat.le_refl _
  | moveToBeginning => cases h; exact Nat.zero_le _
  | moveLeft => cases h; exact Nat.le_trans (Nat.sub_le ..) hc
  | moveRight => cases h; exact Nat.min_le_right ..
  | insert x =>
    have := insert_at_cursor e x e' h
    simp only [CompEditor.symbols] at this
    rw [this.1, this.2.1]
    simp only [List.length_append, List.length_take, List.length_drop, List.length_cons, List.length_nil]; omega
  | insertGlue =>
    have := gap_select_frame e .insertGlue e' (.inl rfl) h
    simp only [CompEditor.symbols] at this
    rw [this.1, this.2.1]; exact hc
  | insertBreak =>
    have := gap_select_frame e .insertBreak e' (.inr (.inl rfl)) h
    simp only [CompEditor.symbols] at this
    rw [this.1, this.2.1]; exact hc
  | replace x =>
    have := replace_frame e x e' h
    simp only [CompEditor.symbols] at this
    rw [this.2.1, this.2.2.1]
    simp only [List.length_append, List.length_take, List.length_drop, List.length_cons, List.length_nil]; omega
  | select iv =>
    have := gap_select_frame e (.select iv) e' (.inr (.inr ⟨iv, rfl⟩)) h
    simp only [CompEditor.symbols] at this
    rw [this.1, this.2.1]; exact hc

/-- **`cursor ≤ len` for every sequence of `CompositionEditor` calls** (induction over the list) -/
theorem cursor_le_len (ops : List CedOp) :
    ∀ (e e' : CompEditor), CursorInv e → e.run ops = .ok e' → CursorInv e' := by
  induction ops with
  | nil => intro e e' hi h; simp only [CompEditor.run] at h; cases h; exact hi
  | cons op ops ih =>
    intro e e' hi h
    simp only [CompEditor.run] at h
    split at h
    · next e1 h1 => exact ih e1 e' (cursor_le_len_step e op e1 hi h1) h
    · cases h
    · cases h

/-- from the initial state: the cursor always lies within `0..=len` -/
theorem cursor_le_len_from_new (ops : List CedOp) (e' : CompEditor) (h : CompEditor.new.run ops = .ok e') :
    e'.cursor ≤ e'.len :=
  (cursor_le_len ops CompEditor.new e' cursorInv_new h).2

/-! ## Totality where the editor relies on it -/

/-- `insert` never panics in a reachable state -/
theorem insert_total (e : CompEditor) (x : Sym) (hi : CursorInv e) : ∃ e', e.insert x = .ok e' := by
  have := insert_ok (c := e.inner) (i := e.cursor) (x := x).mpr ⟨hi.1, hi.2, rfl⟩
  simp only [CompEditor.insert]
  rw [this]
  exact ⟨_, rfl⟩

/-- Backspace never panics (given valid selections: no `end -= 1` underflow) -/
theorem backspace_total (e : CompEditor) (hc : CompInv e.inner) (hi : CursorInv e) :
    ∃ e', e.removeBeforeCursor = .ok e' := by
  unfold CompEditor.removeBeforeCursor
  split
  · exact ⟨e, rfl⟩
  · next h0 =>
    obtain ⟨c, h⟩ := no_panic e.inner (.remove (e.cursor - 1)) hc (by have := hi.2; simp only [Asserted]; omega)
    simp only [Composition.apply] at h
    exact ⟨_, by rw [h]; rfl⟩

/-- Delete succeeds exactly when the cursor is before the end -/
theorem delete_ok_iff (e : CompEditor) (hc : CompInv e.inner) :
    (∃ e', e.removeAfterCursor = .ok e') ↔ e.cursor < e.inner.symbols.length := by
  constructor
  · rintro ⟨e', h⟩; exact (delete_frame e e' h).1
  · intro hlt
    obtain ⟨c, h⟩ := no_panic e.inner (.remove e.cursor) hc hlt
    simp only [Composition.apply] at h
    exact ⟨_, by simp only [CompEditor.removeAfterCursor]; rw [h]; rfl⟩

/-- `replace` succeeds exactly when the cursor is before the end -/
theorem replace_ok_iff (e : CompEditor) (x : Sym) (hl : LenInv e.inner) :
    (∃ e', e.replace x = .ok e') ↔ e.cursor < e.inner.symbols.length := by
  constructor
  · rintro ⟨e', h⟩; exact (replace_frame e x e' h).1
  · intro hlt
    exact ⟨_, by simp only [CompEditor.replace]; rw [replace_ok.mpr ⟨hl, hlt, rfl⟩]; rfl⟩

/-- `remove_front(n)` succeeds exactly when `n ≤ len` -/
theorem remove_front_ok_iff (e : CompEditor) (n : Nat) (hc : CompInv e.inner) :
    (∃ e', e.removeFront n = .ok e') ↔ n ≤ e.inner.symbols.length := by
  constructor
  · rintro ⟨e', h⟩; exact (remove_front_frame e n e' h).1
  · intro hle
    obtain ⟨c, h⟩ := no_panic e.inner (.removeFront n) hc hle
    simp only [Composition.apply] at h
    exact ⟨_, by simp only [CompEditor.removeFront]; rw [h]; rfl⟩

/-- `insert_glue` / `insert_break` never panic in a reachable state (they return early at the end) -/
theorem insert_gap_total (e : CompEditor) (g : Gap) (hg : g ≠ .begin) (hi : CursorInv e) :
    ∃ e', e.insertGap g = .ok e' := by
  unfold CompEditor.insertGap
  split
  · exact ⟨e, rfl⟩
  · next h0 =>
    have hlt : e.cursor < e.inner.symbols.length := by
      have := hi.2
      simp only [CompEditor.isEob, Composition.len, beq_iff_eq] at h0
      omega
    exact ⟨_, by rw [setGap_ok.mpr ⟨hi.1, hlt, hg, rfl⟩]; rfl⟩

/-! ## Non-vacuity -/

/-- `[ㄘㄜˋ, ㄕˋ, 'a']`, cursor between the second and third symbol, one saved cursor -/
def demoEd : CompEditor :=
  { cursor := 2, stack := [3],
    inner := { symbols := [.syl 0x2A48, .syl 0x1404, .chr 97], gaps := [.begin, .normal, .normal], selections := [] } }

example : CursorInv demoEd := ⟨rfl, by decide⟩

example : ∃ e', demoEd.insert (.chr 98) = .ok e' ∧
    e'.symbols = [.syl 0x2A48, .syl 0x1404, .chr 98, .chr 97] ∧ e'.cursor = 3 := ⟨_, rfl, rfl, rfl⟩

example : ∃ e', demoEd.removeBeforeCursor = .ok e' ∧ e'.symbols = [.syl 0x2A48, .chr 97] ∧ e'.cursor = 1 :=
  ⟨_, rfl, rfl, rfl⟩

example : ∃ e', demoEd.removeAfterCursor = .ok e' ∧ e'.symbols = [.syl 0x2A48, .syl 0x1404] ∧ e'.cursor = 2 :=
  ⟨_, rfl, rfl, rfl⟩

/-- save the cursor, delete two symbols, restore: the restored cursor is clamped to the new length -/
example : ∃ e1, demoEd.moveToEnd.pushCursor.run [.removeBeforeCursor, .removeBeforeCursor] = .ok e1 ∧
    e1.popCursor.cursor = 1 ∧ e1.popCursor.stack = [3] := ⟨_, rfl, rfl, rfl⟩

/-! # Editor level

Everything below is about the editor state machine (`Model/Editor.lean`, `src/editor/mod.rs`), for
EVERY environment `env` (dictionary, phonetic layout, conversion engine, estimator).

## The invariant: `cursor ≤ len` after every public operation, in every state

The editor touches its pre-edit buffer only through `CompositionEditor` methods
(`Proofs/EditorCursor.lean`: `Reach`), and `cursor_le_len_step` needs no precondition on the method
arguments — in particular none on the interval that `Selecting::select` pushes (`ValidSelection` is
needed for the selection invariants of C04, not for the cursor) — so the invariant lifts to every
operation and every history with NO hypothesis on the environment or the selector. -/

open Chewing.C06

section EditorLevel
variable {D L : Type} (env : Env D L)

theorem map_ok {α β : Type} {f : α → β} {r : Outcome α} {b : β} (h : r.map f = .ok b) : ∃ a, r = .ok a ∧ f a = b := by
  cases r with
  | ok a => simp only [Outcome.map] at h; injection h with h; exact ⟨a, rfl, h⟩
  | panic p => simp [Outcome.map] at h
  | outOfFuel => simp [Outcome.map] at h

/-- the component invariant lifts along `Reach` -/
theorem reach_cursorInv {c c' : CompEditor} (h : Reach c c') (hi : CursorInv c) : CursorInv c' := by
  induction h with
  | refl _ => exact hi
  | step op h _ ih => exact ih (cursor_le_len_step _ op _ hi h)

/-- the state machine part of a key touches the pre-edit only through `CompositionEditor` methods -/
theorem dispatch_reach {e : Editor D L} {ev : KeyEvent} {sh : Shared D L} {st : St}
    (h : dispatch env e ev = .ok (sh, st)) : Reach e.shared.com sh.com := by
  unfold dispatch at h
  split at h
  · obtain ⟨⟨sh', t⟩, hr, hx⟩ := map_ok h
    have := rstep_enteringNext env (preamble e.shared) ev sh' t hr
    cases t <;> (simp only [applyTrans] at hx; injection hx with h1 h2; subst h1; exact this)
  · obtain ⟨⟨sh', t⟩, hr, hx⟩ := map_ok h
    have := rstep_enteringSyllableNext env (preamble e.shared) ev sh' t hr
    cases t <;> (simp only [applyTrans] at hx; injection hx with h1 h2; subst h1; exact this)
  · rename_i s _
    obtain ⟨x, hr, hx⟩ := map_ok h
    have := rsel_selectingNext env s (preamble e.shared) ev x hr
    cases ht : x.trans <;> (rw [ht] at hx; simp only [applyTrans] at hx; injection hx with h1 h2; subst h1; exact this)
  · rename_i m _
    obtain ⟨⟨sh', m', t⟩, hr, hx⟩ := map_ok h
    have := (highlighting_reach env m (preamble e.shared) ev).elim hr
    cases t <;> (simp only [applyTrans] at hx; injection hx with h1 h2; subst h1; exact this)

/-- the tail of `process_keyevent`: state kept, result = recorded behaviour, shared state = result of
    the (conditional) auto-commit with a dirty dictionary flushed -/
theorem tail_spec {sh : Shared D L} {st : St} {e' : Editor D L} {b : KB} (h : tail env sh st = .ok (e', b)) :
    e'.state = st ∧ b = e'.shared.last ∧
    ∃ sh2, (if (st == .entering || st == .enteringSyllable) && sh.last == .absorb then Shared.tryAutoCommit env sh else .ok sh) = .ok sh2 ∧
      e'.shared = (if sh2.dirty > 0 then { sh2 with dict := env.reopenFlush sh2.dict, dirty := 0 } else sh2) := by
  unfold tail at h
  split at h
  · cases h
  · cases h
  · rename_i sh2 hq
    injection h with h; injection h with h1 h2
    subst h1
    exact ⟨rfl, h2.symm, sh2, hq, rfl⟩

theorem tail_com {sh : Shared D L} {st : St} {e' : Editor D L} {b : KB} (h : tail env sh st = .ok (e', b)) :
    ∃ sh2, (if (st == .entering || st == .enteringSyllable) && sh.last == .absorb then Shared.tryAutoCommit env sh else .ok sh) = .ok sh2 ∧
      e'.shared.com = sh2.com ∧ e'.shared.options = sh2.options ∧ e'.shared.commitBuf = sh2.commitBuf ∧
      e'.shared.last = sh2.last ∧ e'.shared.syl = sh2.syl := by
  obtain ⟨_, _, sh2, h1, h2⟩ := tail_spec env h
  refine ⟨sh2, h1, ?_⟩
  rw [h2]
  split <;> exact ⟨rfl, rfl, rfl, rfl, rfl⟩

theorem tail_reach {sh : Shared D L} {st : St} {e' : Editor D L} {b : KB} (h : tail env sh st = .ok (e', b)) :
    Reach sh.com e'.shared.com := by
  obtain ⟨sh2, h1, h2, _⟩ := tail_com env h
  rw [h2]
  split at h1
  · exact (tryAutoCommit_reach env sh).elim h1
  · cases h1; exact .refl _

/-- a key event = the state's `next`, then the tail -/
theorem processKey_split {e e' : Editor D L} {ev : KeyEvent} {b : KB} (h : e.processKey env ev = .ok (e', b)) :
    ∃ sh st, dispatch env e ev = .ok (sh, st) ∧ tail env sh st = .ok (e', b) := by
  rw [processKey_eq] at h
  split at h
  · cases h
  · cases h
  · rename_i sh st hd; exact ⟨sh, st, hd, h⟩

theorem processKey_reach {e e' : Editor D L} {ev : KeyEvent} {b : KB} (h : e.processKey env ev = .ok (e', b)) :
    Reach e.shared.com e'.shared.com := by
  obtain ⟨sh, st, h1, h2⟩ := processKey_split env h
  exact (dispatch_reach env h1).trans (tail_reach env h2)

theorem select_api_reach {e e' : Editor D L} {n : Nat} {okk : Bool} (h : e.select env n = .ok (e', okk)) :
    Reach e.shared.com e'.shared.com := by
  unfold Editor.select at h
  split at h
  · rename_i s _
    split at h
    · rename_i s' sh t hq
      have hr : Reach e.shared.com sh.com := (select_reach env s e.shared n).elim hq
      dsimp only at h
      have hat : (applyTrans sh (.selecting s') t).1.com = sh.com := by cases t <;> rfl
      split at h
      · rename_i sh2 hq2
        injection h with h; injection h with h1 h2; subst h1
        refine hr.trans ?_
        rw [← hat]
        split at hq2
        · exact (tryAutoCommit_reach env _).elim hq2
        · cases hq2; exact .refl _
      · cases h
      · cases h
    · cases h
    · cases h
  · injection h with h; injection h with h1 h2; subst h1; exact .refl _

theorem leaveIfEmpty_shared (e : Editor D L) : (Editor.leaveIfEmpty env e).shared = e.shared := by
  unfold Editor.leaveIfEmpty; split <;> rfl

theorem startSelecting_api_reach {e e' : Editor D L} {okk : Bool} (h : e.startSelecting env = .ok (e', okk)) :
    Reach e.shared.com e'.shared.com := by
  unfold Editor.startSelecting at h
  dsimp only at h
  split at h
  · rename_i sh t hq
    injection h with h; injection h with h1 h2; subst h1
    rw [leaveIfEmpty_shared]
    have hat : (applyTrans sh e.state t).1.com = sh.com := by cases t <;> rfl
    show Reach e.shared.com (applyTrans sh e.state t).1.com
    rw [hat]
    split at hq
    · exact rstep_startSelecting env e.shared sh t hq
    · exact rstep_startSelecting env { e.shared with syl := env.clearSyl e.shared.syl } sh t hq
    · injection hq with hq; injection hq with h1 h2; subst h1; exact .refl _
  · cases h
  · cases h

theorem commit_api_reach {e e' : Editor D L} {okk : Bool} (h : e.commit env = .ok (e', okk)) :
    Reach e.shared.com e'.shared.com := by
  unfold Editor.commit at h
  split at h
  · injection h with h; injection h with h1 h2; subst h1; exact .refl _
  · split at h
    · rename_i sh hq
      injection h with h; injection h with h1 h2; subst h1
      show Reach e.shared.com sh.com
      rw [(commit_com env e.shared).elim hq]
      exact Reach.clear _
    · cases h
    · cases h

theorem jump_shared {e e' : Editor D L} {w : Nat} {okk : Bool} (h : e.jump env w = .ok (e', okk)) :
    e'.shared = e.shared := by
  unfold Editor.jump at h
  repeat' (first | split at h | (dsimp only at h; split at h))
  all_goals first
    | (injection h with h; injection h with h1 h2; subst h1; rfl)
    | cases h

/-- **every public operation of the editor acts on the pre-edit buffer through `CompositionEditor`
    methods only** -/
theorem apply_reach {e e' : Editor D L} (op : Op L) (h : e.apply env op = .ok e') :
    Reach e.shared.com e'.shared.com := by
  -- the final `revalidate_selecting` of the option / layout / dictionary calls at most pops the saved cursor
  have reval : ∀ (e1 : Editor D L), Reach e.shared.com e1.shared.com → e1.revalidate env = .ok e' →
      Reach e.shared.com e'.shared.com := by
    intro e1 hr hv
    rcases revalidate_shared env hv with h1 | h1
    · rw [h1]; exact hr
    · rw [h1]; exact hr.trans (Reach.popCursor _)
  cases op with
  | key ev =>
    obtain ⟨⟨e1, b⟩, hr, hx⟩ := map_ok h; subst hx; exact processKey_reach env hr
  | select n =>
    obtain ⟨⟨e1, b⟩, hr, hx⟩ := map_ok h; subst hx; exact select_api_reach env hr
  | startSelecting =>
    obtain ⟨⟨e1, b⟩, hr, hx⟩ := map_ok h; subst hx; exact startSelecting_api_reach env hr
  | cancelSelecting =>
    simp only [Editor.apply, Editor.cancelSelecting] at h
    injection h with h; subst h
    split
    · exact Reach.popCursor _
    · exact .refl _
  | commit =>
    obtain ⟨⟨e1, b⟩, hr, hx⟩ := map_ok h; subst hx; exact commit_api_reach env hr
  | clear => injection h with h; subst h; exact Reach.clear _
  | ack => injection h with h; subst h; exact .refl _
  | clearSyl =>
    injection h with h; subst h
    show Reach e.shared.com (Editor.leaveIfEmpty env _).shared.com
    rw [leaveIfEmpty_shared]; exact .refl _
  | setOptions o =>
    refine reval _ ?_ h
    show Reach e.shared.com (Editor.leaveIfEmpty env _).shared.com
    rw [leaveIfEmpty_shared]
    dsimp only
    split <;> exact .refl _
  | setLayout l =>
    refine reval _ ?_ h
    show Reach e.shared.com (Editor.leaveIfEmpty env _).shared.com
    rw [leaveIfEmpty_shared]; exact .refl _
  | setEngine k => injection h with h; subst h; exact .refl _
  | learn k p =>
    simp only [Editor.apply] at h
    split at h
    · rename_i sh b hr
      refine reval _ ?_ h
      show Reach e.shared.com sh.com
      rw [(learnPhrase_com env e.shared k p).elim hr]; exact .refl _
    · cases h
    · cases h
  | unlearn k p => exact reval { e with shared := Shared.unlearnPhrase env e.shared k p } (.refl _) h
  | jump w =>
    obtain ⟨⟨e1, b⟩, hr, hx⟩ := map_ok h; subst hx
    show Reach e.shared.com e1.shared.com
    rw [jump_shared env hr]; exact .refl _

theorem run_reach (ops : List (Op L)) : ∀ (e e' : Editor D L), e.run env ops = .ok e' →
    Reach e.shared.com e'.shared.com := by
  induction ops with
  | nil => intro e e' h; simp only [Editor.run] at h; cases h; exact .refl _
  | cons op ops ih =>
    intro e e' h
    simp only [Editor.run] at h
    split at h
    · next e1 h1 => exact (apply_reach env op h1).trans (ih e1 e' h)
    · cases h
    · cases h

/-- **C05, invariant (one operation).**  `cursor ≤ len` (and `symbols.len() == gaps.len()`) is kept by
    every public operation of the editor: every key in every state, `select`, `start_selecting`, … —
    for every environment, with no hypothesis on the selector, the dictionary or the engine
    (the `CompositionEditor` methods clamp / saturate by themselves). -/
theorem cursor_le_len_editor_step {e e' : Editor D L} (op : Op L) (hi : CursorInv e.shared.com)
    (h : e.apply env op = .ok e') : CursorInv e'.shared.com :=
  reach_cursorInv (apply_reach env op h) hi

/-- **C05, invariant (every history).** -/
theorem cursor_le_len_editor (ops : List (Op L)) (e e' : Editor D L) (hi : CursorInv e.shared.com)
    (h : e.run env ops = .ok e') : CursorInv e'.shared.com :=
  reach_cursorInv (run_reach env ops e e' h) hi

/-- from a fresh editor: the cursor lies between 0 and the buffer length after every history -/
theorem cursor_le_len_editor_fresh (ops : List (Op L)) (e e' : Editor D L) (h0 : e.shared.com = {})
    (h : e.run env ops = .ok e') : e'.shared.com.cursor ≤ e'.shared.com.len :=
  (cursor_le_len_editor env ops e e' (by rw [h0]; exact cursorInv_new) h).2

end EditorLevel

section EditorKeys
variable {D L : Type} (env : Env D L)

theorem dispatch_entering_eq {e : Editor D L} (ev : KeyEvent) (hs : e.state = .entering) :
    dispatch env e ev =
      (enteringNext env (preamble e.shared) ev).map fun (sh', t) => applyTrans sh' .entering t := by
  unfold dispatch; rw [hs]

theorem dispatch_syllable_eq {e : Editor D L} (ev : KeyEvent) (hs : e.state = .enteringSyllable) :
    dispatch env e ev =
      (enteringSyllableNext env (preamble e.shared) ev).map fun (sh', t) => applyTrans sh' .enteringSyllable t := by
  unfold dispatch; rw [hs]

theorem eraseIdx_pred {α : Type} (s : List α) (c : Nat) (h : 0 < c) :
    s.take (c - 1) ++ s.drop c = s.eraseIdx (c - 1) := by
  rw [List.eraseIdx_eq_take_drop_succ]; congr 2; omega

/-- **Backspace** in `Entering`: ignored on an empty buffer; otherwise absorbed, and exactly the
    symbol before the cursor is removed (nothing at cursor 0) -/
theorem backspace_key {e : Editor D L} {ev : KeyEvent} {sh : Shared D L} {st : St}
    (hs : e.state = .entering) (hk : ev.code = KC.backspace) (h : dispatch env e ev = .ok (sh, st)) :
    st = .entering ∧
    (e.shared.com.isEmpty = true → sh.last = .ignore ∧ sh.com = e.shared.com) ∧
    (e.shared.com.isEmpty = false → sh.last = .absorb ∧
      (e.shared.com.cursor = 0 → sh.com = e.shared.com) ∧
      (0 < e.shared.com.cursor →
        sh.com.symbols = e.shared.com.symbols.eraseIdx (e.shared.com.cursor - 1) ∧
        sh.com.cursor = e.shared.com.cursor - 1 ∧ sh.com.stack = e.shared.com.stack)) := by
  rw [dispatch_entering_eq env ev hs, enteringNext_backspace env hk] at h
  obtain ⟨⟨sh', t⟩, hr, hx⟩ := map_ok h
  unfold enteringBackspace at hr
  split at hr
  · next he =>
    injection hr with hr; injection hr with h1 h2; subst h1 h2
    simp only [applyTrans] at hx; injection hx with h1 h2; subst h1 h2
    exact ⟨rfl, fun _ => ⟨rfl, rfl⟩, fun hne => by rw [show (preamble e.shared).com = e.shared.com from rfl] at he; simp [hne] at he⟩
  · next he =>
    obtain ⟨c, hc, hk⟩ := withCom_ok hr
    injection hk with hk; injection hk with h1 h2; subst h1 h2
    simp only [applyTrans] at hx; injection hx with h1 h2; subst h1 h2
    have hf := backspace_frame _ _ hc
    refine ⟨rfl, fun he' => ?_, fun _ => ⟨rfl, fun h0 => hf.1 h0, fun hp => ?_⟩⟩
    · rw [show (preamble e.shared).com = e.shared.com from rfl] at he; exact absurd he' he
    · obtain ⟨a, b, c', _⟩ := hf.2 hp
      exact ⟨by rw [← eraseIdx_pred _ _ hp]; exact a, b, c'⟩

/-- **Delete** in `Entering`: ignored at the end of the buffer; otherwise absorbed, and exactly the
    symbol at the cursor is removed, the cursor stays -/
theorem delete_key {e : Editor D L} {ev : KeyEvent} {sh : Shared D L} {st : St}
    (hs : e.state = .entering) (hk : ev.code = KC.del) (h : dispatch env e ev = .ok (sh, st)) :
    st = .entering ∧
    (e.shared.com.isEob = true → sh.last = .ignore ∧ sh.com = e.shared.com) ∧
    (e.shared.com.isEob = false → sh.last = .absorb ∧
      sh.com.symbols = e.shared.com.symbols.eraseIdx e.shared.com.cursor ∧
      sh.com.cursor = e.shared.com.cursor ∧ sh.com.stack = e.shared.com.stack) := by
  rw [dispatch_entering_eq env ev hs, enteringNext_del env hk] at h
  obtain ⟨⟨sh', t⟩, hr, hx⟩ := map_ok h
  unfold enteringDel at hr
  split at hr
  · next he =>
    injection hr with hr; injection hr with h1 h2; subst h1 h2
    simp only [applyTrans] at hx; injection hx with h1 h2; subst h1 h2
    exact ⟨rfl, fun _ => ⟨rfl, rfl⟩, fun hne => by rw [show (preamble e.shared).com = e.shared.com from rfl] at he; simp [hne] at he⟩
  · next he =>
    obtain ⟨c, hc, hk⟩ := withCom_ok hr
    injection hk with hk; injection hk with h1 h2; subst h1 h2
    simp only [applyTrans] at hx; injection hx with h1 h2; subst h1 h2
    obtain ⟨_, a, b, c'⟩ := delete_frame _ _ hc
    refine ⟨rfl, fun he' => ?_, fun _ => ⟨rfl, ?_, b, c'⟩⟩
    · rw [show (preamble e.shared).com = e.shared.com from rfl] at he; exact absurd he' he
    · rw [List.eraseIdx_eq_take_drop_succ]; exact a

/-- the cursor keys of `Entering` -/
inductive MoveKey (ev : KeyEvent) : Prop
  | home (h : ev.code = KC.home)
  | left (h : ev.code = KC.left) (hs : ev.mods.shift = false)
  | right (h : ev.code = KC.right) (hs : ev.mods.shift = false)
  | toEnd (h : ev.code = KC.end_ ∨ ev.code = KC.pageUp ∨ ev.code = KC.pageDown)

/-- where a cursor key puts the cursor -/
def moveTarget (ev : KeyEvent) (c : CompEditor) : Nat :=
  if ev.code = KC.home then 0
  else if ev.code = KC.left then c.cursor - 1
  else if ev.code = KC.right then min (c.cursor + 1) c.len
  else c.len

/-- **Left / Right / Home / End / PageUp / PageDown** in `Entering` with a non-empty buffer: absorbed;
    symbols, gaps, selections and saved cursors are untouched; the cursor goes where specified
    (Left saturates at 0, Right at the end; PageUp and PageDown act like End, as coded) -/
theorem move_key {e : Editor D L} {ev : KeyEvent} {sh : Shared D L} {st : St}
    (hs : e.state = .entering) (hne : e.shared.com.isEmpty = false) (hk : MoveKey ev)
    (h : dispatch env e ev = .ok (sh, st)) :
    st = .entering ∧ sh.last = .absorb ∧ sh.com.inner = e.shared.com.inner ∧
    sh.com.stack = e.shared.com.stack ∧ sh.com.cursor = moveTarget ev e.shared.com := by
  rw [dispatch_entering_eq env ev hs] at h
  have hm := enteringNext_moves env (sh := preamble e.shared) (ev := ev) hne
  cases hk with
  | home hk =>
    rw [hm.1 hk] at h
    simp only [Outcome.map, applyTrans] at h; injection h with h; injection h with h1 h2; subst h1 h2
    exact ⟨rfl, rfl, rfl, rfl, by simp [moveTarget, hk]; rfl⟩
  | left hk hsh =>
    rw [hm.2.1 hk hsh] at h
    simp only [Outcome.map, applyTrans] at h; injection h with h; injection h with h1 h2; subst h1 h2
    exact ⟨rfl, rfl, rfl, rfl, by simp [moveTarget, hk, KC.left, KC.home]; rfl⟩
  | right hk hsh =>
    rw [hm.2.2.1 hk hsh] at h
    simp only [Outcome.map, applyTrans] at h; injection h with h; injection h with h1 h2; subst h1 h2
    exact ⟨rfl, rfl, rfl, rfl, by simp [moveTarget, hk, KC.left, KC.home, KC.right]; rfl⟩
  | toEnd hk =>
    rw [hm.2.2.2 hk] at h
    simp only [Outcome.map, applyTrans] at h; injection h with h; injection h with h1 h2; subst h1 h2
    refine ⟨rfl, rfl, rfl, rfl, ?_⟩
    rcases hk with hk | hk | hk <;> simp [moveTarget, hk, KC.left, KC.home, KC.right, KC.end_, KC.pageUp, KC.pageDown] <;> rfl

end EditorKeys

section EditorKeys2
variable {D L : Type} (env : Env D L)

/-- `c'` is `c` with the symbols `xs` inserted exactly at the cursor, the cursor behind them, every
    other symbol in place, the saved cursors untouched -/
def InsertedAt (c c' : CompEditor) (xs : List Sym) : Prop :=
  c'.symbols = c.symbols.take c.cursor ++ xs ++ c.symbols.drop c.cursor ∧
  c'.cursor = c.cursor + xs.length ∧ c'.stack = c.stack

theorem insertedAt_nil (c : CompEditor) : InsertedAt c c [] := by
  simp [InsertedAt]

theorem insertedAt_one {c c' : CompEditor} {x : Sym} (h : c.insert x = .ok c') : InsertedAt c c' [x] := by
  obtain ⟨a, b, d, _⟩ := insert_at_cursor c x c' h
  exact ⟨a, b, d⟩

theorem take_insert {α : Type} (s : List α) (c : Nat) (x : α) (h : c ≤ s.length) :
    (s.take c ++ [x] ++ s.drop c).take (c + 1) = s.take c ++ [x] ∧
    (s.take c ++ [x] ++ s.drop c).drop (c + 1) = s.drop c := by
  have hl : (s.take c ++ [x]).length = c + 1 := by simp [List.length_take, Nat.min_eq_left h]
  exact ⟨List.take_left' hl, List.drop_left' hl⟩

/-- `insertChars`: the characters appear, in order, exactly at the cursor; the cursor ends behind them -/
theorem insertChars_frame (cs : List Nat) : ∀ (c c' : CompEditor), insertChars c cs = .ok c' →
    InsertedAt c c' (cs.map Sym.chr) := by
  induction cs with
  | nil =>
    intro c c' h
    simp only [insertChars] at h; cases h
    exact insertedAt_nil c
  | cons x xs ih =>
    intro c c' h
    simp only [insertChars] at h
    split at h
    · next c1 h1 =>
      obtain ⟨hs, hc, hst, hle⟩ := insert_at_cursor c (.chr x) c1 h1
      obtain ⟨a1, a2, a3⟩ := ih c1 c' h
      obtain ⟨t1, t2⟩ := take_insert c.symbols c.cursor (Sym.chr x) hle
      refine ⟨?_, by rw [a2, hc]; simp; omega, by rw [a3, hst]⟩
      rw [a1, hc, hs, t1, t2]
      simp
    · cases h
    · cases h

/-- effect of an arm that may only insert at the cursor: the buffer is as before (then nothing is
    said about the transition) or `xs` was inserted at the cursor and the key is absorbed -/
def InsStep (c0 : CompEditor) (r : StepRes D L) : Prop :=
  ∀ sh' t, r = .ok (sh', t) → sh'.com = c0 ∨ (t = .spin .absorb ∧ ∃ xs : List Nat, InsertedAt c0 sh'.com (xs.map Sym.chr))

theorem ins_withCom_one (sh : Shared D L) (x : Nat) :
    InsStep sh.com (withCom sh (sh.com.insert (.chr x)) fun sh => .ok (sh, .spin .absorb)) := by
  intro sh' t h
  obtain ⟨c, hc, hk⟩ := withCom_ok h
  injection hk with hk; injection hk with h1 h2; subst h1 h2
  exact Or.inr ⟨rfl, [x], insertedAt_one hc⟩

theorem ins_commitOrInsert (sh : Shared D L) (ch : Nat) : InsStep sh.com (commitOrInsert sh ch) := by
  intro sh' t h
  rcases commitOrInsert_spec h with ⟨_, rfl, _⟩ | ⟨_, ht, hi, _⟩
  · exact Or.inl rfl
  · exact Or.inr ⟨ht, [ch], insertedAt_one hi⟩

theorem ins_inputChar (sh : Shared D L) (ev : KeyEvent) : InsStep sh.com (inputChar sh ev) := by
  unfold inputChar fullOrBell
  repeat' split
  all_goals first
    | exact ins_commitOrInsert _ _
    | (intro sh' t h; injection h with h; injection h with h1 h2; subst h1; exact Or.inl rfl)

theorem ins_chineseFallback (sh : Shared D L) (ev : KeyEvent) : InsStep sh.com (chineseFallback sh ev) := by
  unfold chineseFallback
  repeat' split
  all_goals first
    | exact ins_withCom_one _ _
    | exact ins_inputChar _ _
    | (intro sh' t h; injection h with h; injection h with h1 h2; subst h1; exact Or.inl rfl)

/-- **the catch-all arm of `Entering::next` only ever inserts at the cursor**: after it the buffer
    is unchanged, or some characters were inserted exactly at the cursor (cursor behind them) and
    the key is absorbed -/
theorem ins_enteringDefault (sh : Shared D L) (ev : KeyEvent) : InsStep sh.com (enteringDefault env sh ev) := by
  unfold enteringDefault
  repeat' split
  all_goals first
    | exact ins_withCom_one _ _
    | exact ins_inputChar _ _
    | exact ins_chineseFallback _ _
    | exact ins_chineseFallback { sh with syl := (env.keyPress sh.syl ev).2 } ev
    | (intro sh' t h; injection h with h; injection h with h1 h2; subst h1; exact Or.inl rfl)
    | (intro sh' t h; exact Or.inl (congrArg Shared.com (openSymbol_cases env h).1))
    | skip
  -- easy-symbol abbreviation
  intro sh' t h
  obtain ⟨c, hc, hk⟩ := withCom_ok h
  injection hk with hk; injection hk with h1 h2; subst h1 h2
  exact Or.inr ⟨rfl, _, insertChars_frame _ _ _ hc⟩

/-- **a symbol key** (any key that reaches the numlock arm or the catch-all arm of `Entering`, in
    either language mode and character form, ±easy-symbol input): the buffer is unchanged, or
    characters were inserted exactly at the cursor, the cursor is behind them, nothing else moved -/
theorem symbol_key_inserts_at_cursor {e : Editor D L} {ev : KeyEvent} {sh : Shared D L} {st : St}
    (hs : e.state = .entering) (hd : DefaultArm (preamble e.shared) ev) (h : dispatch env e ev = .ok (sh, st)) :
    sh.com = e.shared.com ∨
    (st = .entering ∧ sh.last = .absorb ∧ ∃ xs : List Nat, InsertedAt e.shared.com sh.com (xs.map Sym.chr)) := by
  rw [dispatch_entering_eq env ev hs, enteringNext_default env hd] at h
  obtain ⟨⟨sh', t⟩, hr, hx⟩ := map_ok h
  have : InsStep (preamble e.shared).com
      (if ev.mods.numlock = true then commitOrInsert (preamble e.shared) ev.unicode
       else enteringDefault env (preamble e.shared) ev) := by
    split
    · exact ins_commitOrInsert _ _
    · exact ins_enteringDefault env _ _
  rcases this sh' t hr with h1 | ⟨ht, xs, hi⟩
  · left
    cases t <;> (simp only [applyTrans] at hx; injection hx with h2 h3; subst h2; exact h1)
  · right
    subst ht
    simp only [applyTrans] at hx; injection hx with h2 h3; subst h2 h3
    exact ⟨rfl, rfl, xs, hi⟩

/-- **easy-symbol input**: a key with an abbreviation of `k` characters inserts exactly those `k`
    characters at the cursor, in order, and the cursor advances by `k` (one pass, one key) -/
theorem easy_symbol_expansion {e : Editor D L} {ev : KeyEvent} {sh : Shared D L} {st : St} {expanded : Text}
    (hs : e.state = .entering) (hd : DefaultArm (preamble e.shared) ev) (hn : ev.mods.numlock = false)
    (hl : e.shared.options.languageMode = .chinese) (he : e.shared.options.easySymbolInput = true)
    (hg : ¬ (ev.code = KC.grave ∧ ev.mods.isNone = true)) (hsp : ev.code ≠ KC.space)
    (ha : (e.shared.abbr.find? (fun p => p.1 == ev.unicode)).map (·.2) = some expanded)
    (h : dispatch env e ev = .ok (sh, st)) :
    st = .entering ∧ sh.last = .absorb ∧ InsertedAt e.shared.com sh.com (expanded.map Sym.chr) := by
  rw [dispatch_entering_eq env ev hs, enteringNext_default env hd] at h
  obtain ⟨⟨sh', t⟩, hr, hx⟩ := map_ok h
  rw [if_neg (by simp [hn])] at hr
  unfold enteringDefault at hr
  have e1 : (preamble e.shared).options = e.shared.options := rfl
  have e2 : (preamble e.shared).abbr = e.shared.abbr := rfl
  rw [e1, hl] at hr
  simp only at hr
  rw [if_neg (by simpa using hg), if_neg (by simpa using hsp), if_pos he, e2, ha] at hr
  simp only at hr
  obtain ⟨c, hc, hk⟩ := withCom_ok hr
  injection hk with hk; injection hk with h1 h2; subst h1 h2
  simp only [applyTrans] at hx; injection hx with h2 h3; subst h2 h3
  exact ⟨rfl, rfl, insertChars_frame _ _ _ hc⟩

end EditorKeys2

section EditorSyl
variable {D L : Type} (env : Env D L)

/-- the layout's answer to a key in `EnteringSyllable` (by lookup strategy): behaviour and new layout state -/
def layoutAnswer (sh : Shared D L) (ev : KeyEvent) : LayoutBeh × L :=
  match sh.options.lookupStrategy with
  | .fuzzyPartialPrefix => env.fuzzyKeyPress sh.syl ev
  | .standard => env.keyPress sh.syl ev

/-- a key of `EnteringSyllable` that is handed to the phonetic layout -/
def LayoutKey (ev : KeyEvent) : Prop :=
  ev.code ≠ KC.backspace ∧ ev.code ≠ KC.esc ∧ ¬ (ev.code = KC.unknown ∧ ev.mods.capslock = true)

theorem enteringSyllableNext_layout {sh : Shared D L} {ev : KeyEvent} (hk : LayoutKey ev) :
    enteringSyllableNext env sh ev =
      syllableAnswer env { sh with syl := (layoutAnswer env sh ev).2 } (layoutAnswer env sh ev).1 := by
  obtain ⟨h1, h2, h3⟩ := hk
  unfold enteringSyllableNext layoutAnswer
  rw [if_neg (by simpa using h1), if_neg (by simpa using h3), if_neg (by simpa using h2)]
  cases sh.options.lookupStrategy <;> rfl

/-- **a completed syllable is inserted exactly at the cursor** — for every phonetic layout (through
    `env`): in `EnteringSyllable`, the layout answers *Commit* and the dictionary has a word for the
    syllable ⇒ exactly one syllable symbol is inserted at the cursor, the cursor advances by one,
    every other symbol keeps its place.  With the simple engine the editor goes on to `Selecting`
    (saving the new cursor), the buffer effect is the same. -/
theorem syllable_commit_inserts_one {e : Editor D L} {ev : KeyEvent} {sh : Shared D L} {st : St}
    (hs : e.state = .enteringSyllable) (hk : LayoutKey ev)
    (hc : (layoutAnswer env e.shared ev).1 = .commit)
    (hw : env.hasPhrase e.shared.dict [env.read (layoutAnswer env e.shared ev).2] e.shared.options.lookupStrategy = true)
    (h : dispatch env e ev = .ok (sh, st)) :
    sh.com.symbols = e.shared.com.symbols.take e.shared.com.cursor ++
        [Sym.syl (env.read (layoutAnswer env e.shared ev).2)] ++ e.shared.com.symbols.drop e.shared.com.cursor ∧
    sh.com.cursor = e.shared.com.cursor + 1 ∧ sh.last = .absorb ∧
    (e.shared.options.conversionEngine ≠ .simple → st = .entering ∧ sh.com.stack = e.shared.com.stack) ∧
    (e.shared.options.conversionEngine = .simple →
      (∃ s, st = .selecting s) ∧ sh.com.stack = e.shared.com.stack ++ [e.shared.com.cursor + 1]) := by
  rw [dispatch_syllable_eq env ev hs, enteringSyllableNext_layout env hk] at h
  obtain ⟨⟨sh', t⟩, hr, hx⟩ := map_ok h
  have ela : layoutAnswer env (preamble e.shared) ev = layoutAnswer env e.shared ev := rfl
  rw [ela, hc] at hr
  unfold syllableAnswer at hr
  simp only at hr
  have hw' : env.hasPhrase (preamble e.shared).dict [env.read (layoutAnswer env e.shared ev).2]
      (preamble e.shared).options.lookupStrategy = true := hw
  rw [if_pos hw'] at hr
  obtain ⟨c, hci, hkk⟩ := withCom_ok hr
  obtain ⟨a1, a2, a3, _⟩ := insert_at_cursor _ _ _ hci
  dsimp only at hkk
  split at hkk
  · next hsim =>
    have hsim' : e.shared.options.conversionEngine = .simple := by
      have : (preamble e.shared).options.conversionEngine = .simple := by simpa using hsim
      exact this
    unfold newPhraseSimple at hkk
    simp only at hkk
    split at hkk
    · injection hkk with hkk; injection hkk with h1 h2; subst h1 h2
      simp only [applyTrans] at hx; injection hx with h2 h3; subst h2 h3
      refine ⟨a1, a2, rfl, fun hne => absurd hsim' hne, fun _ => ⟨⟨_, rfl⟩, ?_⟩⟩
      show c.stack ++ [c.cursor] = _
      rw [a3, a2]; rfl
    · cases hkk
    · cases hkk
  · next hsim =>
    have hsim' : e.shared.options.conversionEngine ≠ .simple := by
      have : (preamble e.shared).options.conversionEngine ≠ .simple := by simpa using hsim
      exact this
    injection hkk with hkk; injection hkk with h1 h2; subst h1 h2
    simp only [applyTrans] at hx; injection hx with h2 h3; subst h2 h3
    exact ⟨a1, a2, rfl, fun _ => ⟨rfl, a3⟩, fun hq => absurd hq hsim'⟩

/-- without a word for the syllable nothing is inserted (the phonetic buffer is dropped) -/
theorem syllable_commit_no_word {e : Editor D L} {ev : KeyEvent} {sh : Shared D L} {st : St}
    (hs : e.state = .enteringSyllable) (hk : LayoutKey ev)
    (hc : (layoutAnswer env e.shared ev).1 = .commit)
    (hw : env.hasPhrase e.shared.dict [env.read (layoutAnswer env e.shared ev).2] e.shared.options.lookupStrategy = false)
    (h : dispatch env e ev = .ok (sh, st)) :
    sh.com = e.shared.com ∧ st = .entering := by
  rw [dispatch_syllable_eq env ev hs, enteringSyllableNext_layout env hk] at h
  obtain ⟨⟨sh', t⟩, hr, hx⟩ := map_ok h
  have ela : layoutAnswer env (preamble e.shared) ev = layoutAnswer env e.shared ev := rfl
  rw [ela, hc] at hr
  unfold syllableAnswer at hr
  simp only at hr
  have hw' : env.hasPhrase (preamble e.shared).dict [env.read (layoutAnswer env e.shared ev).2]
      (preamble e.shared).options.lookupStrategy = false := hw
  rw [if_neg (by simp [hw'])] at hr
  injection hr with hr; injection hr with h1 h2; subst h1 h2
  simp only [applyTrans] at hx; injection hx with h2 h3; subst h2 h3
  exact ⟨rfl, rfl⟩

end EditorSyl

/-! ## The buffer stays bounded

`try_auto_commit` runs after every key whose state machine step ends in `Entering` with *absorb*.
Its loop removes whole leading intervals of the current conversion until at most
`auto_commit_threshold` symbols remain — this needs the conversion to cover the buffer
(`TilingEnv`: every alternative the engine returns is well formed and its interval lengths sum to the
buffer length; that is what C03 proves about the real engines, here it is a hypothesis on `env`). -/

section EditorBounded
variable {D L : Type} (env : Env D L)

/-- hypothesis on the conversion engine (C03): every alternative covers the buffer -/
def TilingEnv : Prop :=
  ∀ (k : EngineKind) (d : D) (c : Composition) (paths : List (List Interval)),
    env.convert k d c = .ok paths → ∀ ivs ∈ paths, TilesLen ivs c.len

/-- `try_auto_commit` re-establishes `len ≤ threshold` (and with a tiling conversion its loop neither
    underflows nor over-removes: no panic beyond a panic of the engine itself); only a prefix is removed -/
theorem tryAutoCommit_bound (ht : TilingEnv env) {sh sh2 : Shared D L} (h : Shared.tryAutoCommit env sh = .ok sh2) :
    sh2.com.len ≤ sh2.options.autoCommitThreshold ∧ sh2.options = sh.options ∧
    ∃ n, sh2.com.symbols = sh.com.symbols.drop n ∧ sh2.com.cursor = sh.com.cursor - n := by
  unfold Shared.tryAutoCommit at h
  dsimp only at h
  split at h
  · next hle => cases h; exact ⟨hle, rfl, 0, by simp, rfl⟩
  · next hgt =>
    split at h
    · cases h
    · cases h
    · rename_i ivs hc
      obtain ⟨paths, hp, hm⟩ := conversion_mem env hc
      obtain ⟨hwf, hsum⟩ := ht _ _ _ _ hp ivs hm
      obtain ⟨buf', r', h1, _, h3, h4⟩ :=
        autoCommitTake_bound sh.com.len sh.options.autoCommitThreshold ivs [] 0 hwf (by rw [Nat.zero_add]; exact hsum)
      rw [h1] at h
      dsimp only at h
      split at h
      · rename_i com hq
        cases h
        obtain ⟨_, hs, hcur, _⟩ := remove_front_frame _ _ _ hq
        refine ⟨?_, rfl, r', hs, hcur⟩
        show com.inner.symbols.length ≤ _
        have : com.inner.symbols = sh.com.inner.symbols.drop r' := hs
        rw [this, List.length_drop]
        exact h4
      · cases h
      · cases h

/-- with a tiling conversion the auto-commit never panics on its own account -/
theorem tryAutoCommit_total (ht : TilingEnv env) (sh : Shared D L) (hc : CompInv sh.com.inner)
    {ivs : List Interval} (hconv : Shared.conversion env sh = .ok ivs) :
    ∃ sh2, Shared.tryAutoCommit env sh = .ok sh2 := by
  unfold Shared.tryAutoCommit
  dsimp only
  split
  · exact ⟨_, rfl⟩
  · rw [hconv]
    dsimp only
    obtain ⟨paths, hp, hm⟩ := conversion_mem env hconv
    obtain ⟨hwf, hsum⟩ := ht _ _ _ _ hp ivs hm
    obtain ⟨buf', r', h1, _, h3, _⟩ :=
      autoCommitTake_bound sh.com.len sh.options.autoCommitThreshold ivs [] 0 hwf (by rw [Nat.zero_add]; exact hsum)
    rw [h1]
    dsimp only
    have := (remove_front_ok_iff sh.com r' hc).mpr h3
    obtain ⟨com, hq⟩ := this
    rw [hq]
    exact ⟨_, rfl⟩

/-- **every absorbed key that ends in `Entering` re-establishes `len ≤ auto_commit_threshold`** —
    from any state (typing, a chosen candidate, a cancelled list, the end of a highlight), for every
    threshold including one lowered by a configuration call just before -/
theorem bounded_after_absorb (ht : TilingEnv env) {e e' : Editor D L} {ev : KeyEvent}
    (h : e.processKey env ev = .ok (e', .absorb)) (he : e'.state = .entering) :
    e'.shared.com.len ≤ e'.shared.options.autoCommitThreshold := by
  obtain ⟨sh, st, _, h2⟩ := processKey_split env h
  obtain ⟨hst, hb, _⟩ := tail_spec env h2
  obtain ⟨sh2, h1, hcom, hopt, _, hlast, _⟩ := tail_com env h2
  rw [hcom, hopt]
  split at h1
  · exact (tryAutoCommit_bound env ht h1).1
  · next hn =>
    cases h1
    exfalso
    apply hn
    have : sh.last = .absorb := by rw [← hlast]; exact hb.symm
    rw [← hst, he, this]
    rfl

/-- **after every key handled in `Entering` that is absorbed or commits, the buffer is no longer than
    the configured maximum** (an explicit commit empties it; everything else goes through the
    auto-commit) -/
theorem bounded_after_key (ht : TilingEnv env) {e e' : Editor D L} {ev : KeyEvent} {b : KB}
    (hs : e.state = .entering) (h : e.processKey env ev = .ok (e', b)) (he : e'.state = .entering)
    (hb : b = .absorb ∨ b = .commit) :
    e'.shared.com.len ≤ e'.shared.options.autoCommitThreshold := by
  rcases hb with rfl | rfl
  · exact bounded_after_absorb env ht h he
  obtain ⟨sh, st, hd, h2⟩ := processKey_split env h
  obtain ⟨hst, hb, _⟩ := tail_spec env h2
  obtain ⟨sh2, h1, hcom, hopt, _, hlast, _⟩ := tail_com env h2
  rw [hcom, hopt]
  split at h1
  · exact (tryAutoCommit_bound env ht h1).1
  · cases h1
    have hl : sh.last = .commit := by rw [← hlast]; exact hb.symm
    rw [dispatch_entering_eq env ev hs] at hd
    obtain ⟨⟨sh', t⟩, hr, hx⟩ := map_ok hd
    have hcs := cstep_enteringNext env (preamble e.shared) ev sh' t hr
    cases t with
    | toState s =>
      simp only [applyTrans] at hx; injection hx with h3 h4; subst h3
      cases hl
    | spin b' =>
      simp only [applyTrans] at hx; injection hx with h3 h4; subst h3
      have : b' = .commit := hl
      subst this
      have hem := hcs.1 rfl
      have h0 : sh'.com.len = 0 := by
        have h1 : (sh'.com.inner.len == 0) = true := hem
        exact eq_of_beq h1
      show sh'.com.len ≤ _
      omega

/-! `EnteringSyllable` never reports *commit* itself (a commit there can only come from the auto-commit) -/

def NoCommit (r : StepRes D L) : Prop := ∀ sh' t, r = .ok (sh', t) → t ≠ .spin .commit

macro "nocommit_leaf" : tactic =>
  `(tactic| (intro sh' t h; injection h with h; injection h with h1 h2; subst h2; intro c; cases c))

theorem nocommit_withCom (sh : Shared D L) (r : Outcome CompEditor) (k : Shared D L → StepRes D L)
    (hk : ∀ c, NoCommit (k { sh with com := c })) : NoCommit (withCom sh r k) := by
  unfold withCom
  split
  · exact hk _
  · intro sh' t h; cases h
  · intro sh' t h; cases h

theorem nocommit_newPhraseSimple (sh : Shared D L) : NoCommit (newPhraseSimple sh) := by
  unfold newPhraseSimple
  dsimp only
  split
  · nocommit_leaf
  · intro sh' t h; cases h
  · intro sh' t h; cases h

theorem nocommit_syllableAnswer (sh : Shared D L) (beh : LayoutBeh) : NoCommit (syllableAnswer env sh beh) := by
  unfold syllableAnswer
  repeat' split
  all_goals first
    | nocommit_leaf
    | (refine nocommit_withCom _ _ _ fun c => ?_; nocommit_leaf)
    | skip
  all_goals
    refine nocommit_withCom _ _ _ fun c => ?_
    dsimp only
    split
    · exact nocommit_newPhraseSimple _
    · nocommit_leaf

theorem nocommit_enteringSyllableNext (sh : Shared D L) (ev : KeyEvent) :
    NoCommit (enteringSyllableNext env sh ev) := by
  unfold enteringSyllableNext
  split
  · split <;> nocommit_leaf
  · split
    · nocommit_leaf
    · split
      · split <;> nocommit_leaf
      · split
        · exact nocommit_syllableAnswer env _ _
        · exact nocommit_syllableAnswer env _ _

/-- **the same bound for keys handled while phonetic keys are pending** (`EnteringSyllable`): when the
    key ends in `Entering` with *absorb* or *commit* — in particular when it completed a syllable that was
    inserted — the buffer is within the limit -/
theorem bounded_after_key_syllable (ht : TilingEnv env) {e e' : Editor D L} {ev : KeyEvent} {b : KB}
    (hs : e.state = .enteringSyllable) (h : e.processKey env ev = .ok (e', b)) (he : e'.state = .entering)
    (hb : b = .absorb ∨ b = .commit) :
    e'.shared.com.len ≤ e'.shared.options.autoCommitThreshold := by
  rcases hb with rfl | rfl
  · exact bounded_after_absorb env ht h he
  obtain ⟨sh, st, hd, h2⟩ := processKey_split env h
  obtain ⟨hst, hb, _⟩ := tail_spec env h2
  obtain ⟨sh2, h1, hcom, hopt, _, hlast, _⟩ := tail_com env h2
  rw [hcom, hopt]
  split at h1
  · exact (tryAutoCommit_bound env ht h1).1
  · cases h1
    exfalso
    have hl : sh.last = .commit := by rw [← hlast]; exact hb.symm
    rw [dispatch_syllable_eq env ev hs] at hd
    obtain ⟨⟨sh', t⟩, hr, hx⟩ := map_ok hd
    have hnc := nocommit_enteringSyllableNext env (preamble e.shared) ev sh' t hr
    cases t with
    | toState s =>
      simp only [applyTrans] at hx; injection hx with h3 h4; subst h3
      cases hl
    | spin b' =>
      simp only [applyTrans] at hx; injection hx with h3 h4; subst h3
      have : b' = .commit := hl
      subst this
      exact hnc rfl

/-- non-vacuity of the hypothesis: an engine that answers with one interval per symbol tiles -/
example : TilesLen [{ start := 0, stop := 1, isPhrase := false, text := [97] }, { start := 1, stop := 3, isPhrase := true, text := [98, 99] }] 3 :=
  ⟨by decide, by decide⟩

end EditorBounded


/-! ## linked (round 2): the tiling hypothesis only AT the state where the auto-commit runs

`TilingEnv` quantifies over every composition and dictionary; C03 proves the tiling for VALID compositions
(`CompValid`) over well-formed dictionaries only.  The theorems above are restated here with the hypothesis at
the one shared state the auto-commit converts (`TilingAt`); `Proofs/EditorLink.lean` derives `TilingAt` from
C01's reachable-state invariant (`Link.tilingAt_of_shInv`), and `Props/C18.lean` (section "linked") states the
bound without any tiling premise (`C18.bounded_after_key_linked`, `C18.buffer_bounded_along`: this file cannot
import C01, whose proofs import it). -/

section Linked
variable {D L : Type} (env : Env D L)

/-- `TilingEnv` at ONE shared state: every alternative the engine returns for THIS composition, dictionary
    and engine covers the buffer -/
def TilingAt (sh : Shared D L) : Prop :=
  ∀ paths, env.convert sh.engine sh.dict sh.com.inner = .ok paths → ∀ ivs ∈ paths, TilesLen ivs sh.com.inner.len

theorem TilingEnv.tilingAt (ht : TilingEnv env) (sh : Shared D L) : TilingAt env sh :=
  fun paths hp ivs hm => ht _ _ _ paths hp ivs hm

/-- `tryAutoCommit_bound` with the hypothesis at the converted state only -/
theorem tryAutoCommit_bound_at {sh sh2 : Shared D L} (ht : TilingAt env sh) (h : Shared.tryAutoCommit env sh = .ok sh2) :
    sh2.com.len ≤ sh2.options.autoCommitThreshold ∧ sh2.options = sh.options ∧
    ∃ n, sh2.com.symbols = sh.com.symbols.drop n ∧ sh2.com.cursor = sh.com.cursor - n := by
  unfold Shared.tryAutoCommit at h
  dsimp only at h
  split at h
  · next hle => cases h; exact ⟨hle, rfl, 0, by simp, rfl⟩
  · next hgt =>
    split at h
    · cases h
    · cases h
    · rename_i ivs hc
      obtain ⟨paths, hp, hm⟩ := conversion_mem env hc
      obtain ⟨hwf, hsum⟩ := ht paths hp ivs hm
      obtain ⟨buf', r', h1, _, h3, h4⟩ :=
        autoCommitTake_bound sh.com.len sh.options.autoCommitThreshold ivs [] 0 hwf (by rw [Nat.zero_add]; exact hsum)
      rw [h1] at h
      dsimp only at h
      split at h
      · rename_i com hq
        cases h
        obtain ⟨_, hs, hcur, _⟩ := remove_front_frame _ _ _ hq
        refine ⟨?_, rfl, r', hs, hcur⟩
        show com.inner.symbols.length ≤ _
        have : com.inner.symbols = sh.com.inner.symbols.drop r' := hs
        rw [this, List.length_drop]
        exact h4
      · cases h
      · cases h

/-- `tryAutoCommit_total` with the hypothesis at the converted state only -/
theorem tryAutoCommit_total_at (sh : Shared D L) (ht : TilingAt env sh) (hc : CompInv sh.com.inner)
    {ivs : List Interval} (hconv : Shared.conversion env sh = .ok ivs) :
    ∃ sh2, Shared.tryAutoCommit env sh = .ok sh2 := by
  unfold Shared.tryAutoCommit
  dsimp only
  split
  · exact ⟨_, rfl⟩
  · rw [hconv]
    dsimp only
    obtain ⟨paths, hp, hm⟩ := conversion_mem env hconv
    obtain ⟨hwf, hsum⟩ := ht paths hp ivs hm
    obtain ⟨buf', r', h1, _, h3, _⟩ :=
      autoCommitTake_bound sh.com.len sh.options.autoCommitThreshold ivs [] 0 hwf (by rw [Nat.zero_add]; exact hsum)
    rw [h1]
    dsimp only
    have := (remove_front_ok_iff sh.com r' hc).mpr h3
    obtain ⟨com, hq⟩ := this
    rw [hq]
    exact ⟨_, rfl⟩

/-- **the bound after any key that ends in `Entering`** with *absorb* or *commit*, from ANY state, with the
    tiling hypothesis only at the state the key's state-machine part leaves (`dispatch`): generalises
    `bounded_after_absorb`, `bounded_after_key`, `bounded_after_key_syllable` -/
theorem bounded_after_key_at {e e' : Editor D L} {ev : KeyEvent} {b : KB}
    (ht : ∀ sh st, dispatch env e ev = .ok (sh, st) → TilingAt env sh)
    (hs : e.state = .entering ∨ e.state = .enteringSyllable ∨ b = .absorb)
    (h : e.processKey env ev = .ok (e', b)) (he : e'.state = .entering) (hb : b = .absorb ∨ b = .commit) :
    e'.shared.com.len ≤ e'.shared.options.autoCommitThreshold := by
  obtain ⟨sh, st, hd, h2⟩ := processKey_split env h
  obtain ⟨hst, hbl, _⟩ := tail_spec env h2
  obtain ⟨sh2, h1, hcom, hopt, _, hlast, _⟩ := tail_com env h2
  rw [hcom, hopt]
  split at h1
  · exact (tryAutoCommit_bound_at env (ht sh st hd) h1).1
  · next hn =>
    cases h1
    have hl : sh.last = b := by rw [← hlast]; exact hbl.symm
    rcases hb with rfl | rfl
    · exfalso
      apply hn
      rw [← hst, he, hl]
      rfl
    · rcases hs with hs | hs | hs
      · rw [dispatch_entering_eq env ev hs] at hd
        obtain ⟨⟨sh', t⟩, hr, hx⟩ := map_ok hd
        have hcs := cstep_enteringNext env (preamble e.shared) ev sh' t hr
        cases t with
        | toState s =>
          simp only [applyTrans] at hx; injection hx with h3 h4; subst h3
          cases hl
        | spin b' =>
          simp only [applyTrans] at hx; injection hx with h3 h4; subst h3
          have : b' = .commit := hl
          subst this
          have hem := hcs.1 rfl
          have h0 : sh'.com.len = 0 := by
            have h1 : (sh'.com.inner.len == 0) = true := hem
            exact eq_of_beq h1
          show sh'.com.len ≤ _
          omega
      · exfalso
        rw [dispatch_syllable_eq env ev hs] at hd
        obtain ⟨⟨sh', t⟩, hr, hx⟩ := map_ok hd
        have hnc := nocommit_enteringSyllableNext env (preamble e.shared) ev sh' t hr
        cases t with
        | toState s =>
          simp only [applyTrans] at hx; injection hx with h3 h4; subst h3
          cases hl
        | spin b' =>
          simp only [applyTrans] at hx; injection hx with h3 h4; subst h3
          have : b' = .commit := hl
          subst this
          exact hnc rfl
      · cases hs

/-- the global hypothesis is a special case -/
example (ht : TilingEnv env) {e e' : Editor D L} {ev : KeyEvent} {b : KB} (hs : e.state = .entering)
    (h : e.processKey env ev = .ok (e', b)) (he : e'.state = .entering) (hb : b = .absorb ∨ b = .commit) :
    e'.shared.com.len ≤ e'.shared.options.autoCommitThreshold :=
  bounded_after_key_at env (fun sh _ _ => ht.tilingAt env sh) (Or.inl hs) h he hb

end Linked

/-! ## linked (round 2, `linkH`): the bound in EVERY reachable state

`Props/C05Bound.lean` (namespace `Chewing.C05`, audited with this property; it needs C01's invariant, whose proofs
import this file), on the code repaired by `fix: the pre-edit length limit is enforced while a syllable is being
entered` (FX3/FX4: the auto-commit now runs after every absorbed key that ends in `Entering` OR `EnteringSyllable`):
`bounded_everywhere_full` / `buffer_bounded_all_operations` — thresholds `≤ B`, EVERY history of valid operations
returns and `len ≤ B + 1` in every state, `≤ B` while a syllable is being entered; `buffer_bounded_everywhere` — without
list-closing API calls over the simple engine's over-full one-word list `len ≤ B` in every state, `≤ B + 1` while a
candidate list is open (`bound_plus_one_attained`); `buffer_bounded_keys` (keys only, every layout and lookup strategy:
no side condition); `conversions_are_short` (inside a step at most `B + max 2 K` symbols are converted).  Before the
repair the unrestricted statement was refuted two ways, both confirmed on the real C API; the witnesses are now
`fuzzy_history_repaired` and `cancel_cycle_repaired`; `bounded_editing_full_refuted` records what is still false
(limit + 1 symbols in `Entering` between the API call `cancel_selecting` and the next key). -/

end Chewing.C05
