import Chewing.Props.C04
/-!
# C05 — editing keys act exactly at the cursor and the buffer stays bounded (component level)

Stage A of DESIGN §12: everything that can be said about `CompositionEditor`
(`src/editor/composition_editor.rs`) alone, for every state and every sequence of its methods.

What is proved here

* `cursor_le_len` — `cursor ≤ len` (and `symbols.len() == gaps.len()`) is an invariant of every
  sequence of `CompositionEditor` calls, by induction over operation lists, with NO precondition
  on indices or selections (`pop_cursor` clamps, `remove_front` saturates, `clamp_cursor` and
  `move_cursor*` use `min`/`saturating_sub`); `cursor_le_len_from_new` instantiates it at `Default`.
* `insert_at_cursor` — `symbols' = take c s ++ [x] ++ drop c s`, `cursor' = c + 1`; never panics.
* `backspace_frame` — at `c = 0` nothing changes; otherwise `symbols' = take (c-1) s ++ drop c s`,
  `cursor' = c - 1`.   `delete_frame` — `symbols' = take c s ++ drop (c+1) s`, cursor unchanged;
  at the end of the buffer `remove_after_cursor` hits `assert!(index < self.len())`
  (`delete_at_end_panics`: the caller must guard, the editor does).
* `move_only_cursor` — Left/Right/Home/End/`move_cursor`/`clamp_cursor`/`push_cursor`/`pop_cursor`
  leave the composition (symbols, gaps, selections) untouched; `move_cursor_values` gives the new cursor.
* cursor stack: `stack_frame` (only push/pop/clear touch it), `pop_restores`, `push_run_pop` (push, any
  calls that are not push/pop/clear, pop ⇒ the saved cursor clamped to the new length, stack as before).
* `remove_front_frame`, `replace_frame`, `gap_select_frame`, `clear_frame`.
* totality where the editor relies on it: `insert_total`, `backspace_total`, `insert_gap_total`,
  `delete_ok_iff`, `replace_ok_iff`, `remove_front_ok_iff`.

NOT here (needs the editor state machine `src/editor/mod.rs`, later work on top of this model):
the per-key lift (`syllable_commit_inserts_one`, which key calls which method in which state,
`easy_symbol_expansion`) and `bounded_after_key` (auto-commit re-establishes `len ≤ limit`; needs
the tiling theorem of C03).
-/
namespace Chewing.C05
open Chewing Chewing.C04

/-- the C05 invariant of `CompositionEditor` -/
def CursorInv (e : CompEditor) : Prop := LenInv e.inner ∧ e.cursor ≤ e.inner.symbols.length

theorem cursorInv_new : CursorInv CompEditor.new := ⟨rfl, Nat.le_refl _⟩

/-! ## Frames: what each method does to symbols, cursor and cursor stack -/

/-- **insert**: exactly one symbol, exactly at the cursor; the cursor advances by one -/
theorem insert_at_cursor (e : CompEditor) (x : Sym) (e' : CompEditor) (h : e.insert x = .ok e') :
    e'.symbols = e.symbols.take e.cursor ++ [x] ++ e.symbols.drop e.cursor ∧
    e'.cursor = e.cursor + 1 ∧ e'.stack = e.stack ∧ e.cursor ≤ e.symbols.length := by
  obtain ⟨c, hc, rfl⟩ := withInner_ok h
  exact ⟨(insert_symbols hc).2, rfl, rfl, (insert_symbols hc).1⟩

/-- **Backspace** (`remove_before_cursor`): removes exactly the symbol before the cursor -/
theorem backspace_frame (e : CompEditor) (e' : CompEditor) (h : e.removeBeforeCursor = .ok e') :
    (e.cursor = 0 → e' = e) ∧
    (0 < e.cursor → e'.symbols = e.symbols.take (e.cursor - 1) ++ e.symbols.drop e.cursor ∧
      e'.cursor = e.cursor - 1 ∧ e'.stack = e.stack ∧ e.cursor ≤ e.symbols.length) := by
  unfold CompEditor.removeBeforeCursor at h
  split at h
  · next h0 => cases h; exact ⟨fun _ => rfl, fun hp => by omega⟩
  · next h0 =>
    obtain ⟨c, hc, rfl⟩ := withInner_ok h
    refine ⟨fun h00 => absurd h00 h0, fun _ => ⟨?_, rfl, rfl, ?_⟩⟩
    · have := (remove_symbols hc).2
      simp only [CompEditor.symbols]
      rw [this]
      congr 2
      omega
    · have := (remove_symbols hc).1
      simp only [CompEditor.symbols]
      omega

/-- **Delete** (`remove_after_cursor`): removes exactly the symbol at the cursor -/
theorem delete_frame (e : CompEditor) (e' : CompEditor) (h : e.removeAfterCursor = .ok e') :
    e.cursor < e.symbols.length ∧
    e'.symbols = e.symbols.take e.cursor ++ e.symbols.drop (e.cursor + 1) ∧
    e'.cursor = e.cursor ∧ e'.stack = e.stack := by
  obtain ⟨c, hc, rfl⟩ := withInner_ok h
  exact ⟨(remove_symbols hc).1, (remove_symbols hc).2, rfl, rfl⟩

/-- as coded, Delete at (or beyond) the end of the buffer is an assertion failure: callers must guard -/
theorem delete_at_end_panics (e : CompEditor) (hl : LenInv e.inner) (h : e.inner.symbols.length ≤ e.cursor) :
    e.removeAfterCursor = .panic "index" := by
  unfold LenInv at hl
  simp only [CompEditor.removeAfterCursor, Composition.remove, CompEditor.withInner]
  rw [if_neg (by simpa using hl), if_pos (by omega)]

/-- the methods that may only move the cursor (or save / restore it) -/
def isMove : CedOp → Bool
  | .moveLeft | .moveRight | .moveToBeginning | .moveToEnd | .moveCursor _ | .clampCursor
  | .pushCursor | .popCursor => true
  | _ => false

/-- **Left/Right/Home/End (and `move_cursor`, `clamp_cursor`, push/pop) change only the cursor** -/
theorem move_only_cursor (e : CompEditor) (op : CedOp) (e' : CompEditor) (hm : isMove op = true)
    (h : e.apply op = .ok e') : e'.inner = e.inner := by
  cases op <;> simp only [isMove] at hm <;> try (cases hm)
  all_goals
    simp only [CompEditor.apply, CompEditor.pushCursor, CompEditor.popCursor, CompEditor.clampCursor,
      CompEditor.moveCursor, CompEditor.moveToEnd, CompEditor.moveToBeginning, CompEditor.moveLeft,
      CompEditor.moveRight] at h
    cases h
    (try split) <;> rfl

/-- the new cursor of each move -/
theorem move_cursor_values (e : CompEditor) :
    e.moveLeft.cursor = e.cursor - 1 ∧
    e.moveRight.cursor = min (e.cursor + 1) e.len ∧
    e.moveToBeginning.cursor = 0 ∧
    e.moveToEnd.cursor = e.len ∧
    (∀ n, (e.moveCursor n).cursor = min n e.len) ∧
    e.clampCursor.cursor = (if e.cursor = e.len then e.cursor - 1 else e.cursor) ∧
    e.pushCursor.cursor = e.cursor := by
  refine ⟨rfl, rfl, rfl, rfl, fun _ => rfl, ?_, rfl⟩
  unfold CompEditor.clampCursor CompEditor.len
  split <;> simp_all

/-- only `push_cursor` / `pop_cursor` / `clear` touch the cursor stack (`clear` empties it since the F25 fix) -/
theorem stack_frame (e : CompEditor) (op : CedOp) (e' : CompEditor) (h1 : op ≠ .pushCursor) (h2 : op ≠ .popCursor)
    (h3 : op ≠ .clear) (h : e.apply op = .ok e') : e'.stack = e.stack := by
  cases op with
  | pushCursor => exact absurd rfl h1
  | popCursor => exact absurd rfl h2
  | clampCursor =>
    simp only [CompEditor.apply, CompEditor.clampCursor] at h; cases h; split <;> rfl
  | moveCursor n => cases h; rfl
  | clear => exact absurd rfl h3
  | removeFront n => obtain ⟨c, _, rfl⟩ := withInner_ok h; rfl
  | removeAfterCursor => obtain ⟨c, _, rfl⟩ := withInner_ok h; rfl
  | removeBeforeCursor =>
    simp only [CompEditor.apply, CompEditor.removeBeforeCursor] at h
    split at h
    · cases h; rfl
    · obtain ⟨c, _, rfl⟩ := withInner_ok h; rfl
  | moveToEnd => cases h; rfl
  | moveToBeginning => cases h; rfl
  | moveLeft => cases h; rfl
  | moveRight => cases h; rfl
  | insert x => obtain ⟨c, _, rfl⟩ := withInner_ok h; rfl
  | insertGlue =>
    simp only [CompEditor.apply, CompEditor.insertGlue, CompEditor.insertGap] at h
    split at h
    · cases h; rfl
    · obtain ⟨c, _, rfl⟩ := withInner_ok h; rfl
  | insertBreak =>
    simp only [CompEditor.apply, CompEditor.insertBreak, CompEditor.insertGap] at h
    split at h
    · cases h; rfl
    · obtain ⟨c, _, rfl⟩ := withInner_ok h; rfl
  | replace x => obtain ⟨c, _, rfl⟩ := withInner_ok h; rfl
  | select iv =>
    simp only [CompEditor.apply, CompEditor.select] at h
    split at h
    · cases h
    · obtain ⟨c, _, rfl⟩ := withInner_ok h; rfl

/-- `pop_cursor` restores the most recently saved cursor, clamped to the current length -/
theorem pop_restores (e : CompEditor) (st : List Nat) (c0 : Nat) (h : e.stack = st ++ [c0]) :
    e.popCursor.cursor = min c0 e.len ∧ e.popCursor.stack = st ∧ e.popCursor.inner = e.inner := by
  simp [CompEditor.popCursor, h, CompEditor.len]

/-- with nothing saved `pop_cursor` only clamps -/
theorem pop_empty (e : CompEditor) (h : e.stack = []) :
    e.popCursor.cursor = min e.cursor e.len ∧ e.popCursor.stack = [] ∧ e.popCursor.inner = e.inner := by
  simp [CompEditor.popCursor, h, CompEditor.len]

/-- the stack along a list of calls none of which is push/pop/clear -/
theorem stack_frame_run (ops : List CedOp) :
    ∀ (e e' : CompEditor), (∀ op ∈ ops, op ≠ .pushCursor ∧ op ≠ .popCursor ∧ op ≠ .clear) → e.run ops = .ok e' →
      e'.stack = e.stack := by
  induction ops with
  | nil => intro e e' _ h; simp only [CompEditor.run] at h; cases h; rfl
  | cons op ops ih =>
    intro e e' hn h
    simp only [CompEditor.run] at h
    split at h
    · next e1 h1 =>
      have a := hn op (List.mem_cons_self ..)
      rw [ih e1 e' (fun o ho => hn o (List.mem_cons_of_mem _ ho)) h, stack_frame e op e1 a.1 a.2.1 a.2.2 h1]
    · cases h
    · cases h

/-- **cursor save / restore around candidate selection**: `push_cursor`, any calls other than
    push/pop/clear (edits included), `pop_cursor` ⇒ the saved cursor, clamped to the new length; the
    stack is as before -/
theorem push_run_pop (e e1 : CompEditor) (ops : List CedOp)
    (hn : ∀ op ∈ ops, op ≠ .pushCursor ∧ op ≠ .popCursor ∧ op ≠ .clear) (h : e.pushCursor.run ops = .ok e1) :
    e1.popCursor.cursor = min e.cursor e1.len ∧ e1.popCursor.stack = e.stack ∧ e1.popCursor.inner = e1.inner := by
  have hs : e1.stack = e.stack ++ [e.cursor] := stack_frame_run ops e.pushCursor e1 hn h
  exact pop_restores e1 e.stack e.cursor hs

/-- `remove_front(n)` (auto-commit of the first `n` symbols): the rest keeps its order, the cursor saturates -/
theorem remove_front_frame (e : CompEditor) (n : Nat) (e' : CompEditor) (h : e.removeFront n = .ok e') :
    n ≤ e.symbols.length ∧ e'.symbols = e.symbols.drop n ∧ e'.cursor = e.cursor - n ∧ e'.stack = e.stack := by
  obtain ⟨c, hc, rfl⟩ := withInner_ok h
  exact ⟨(removeFront_symbols hc).1, (removeFront_symbols hc).2, rfl, rfl⟩

/-- `replace` overwrites exactly the symbol at the cursor -/
theorem replace_frame (e : CompEditor) (x : Sym) (e' : CompEditor) (h : e.replace x = .ok e') :
    e.cursor < e.symbols.length ∧
    e'.symbols = e.symbols.take e.cursor ++ [x] ++ e.symbols.drop (e.cursor + 1) ∧
    e'.cursor = e.cursor ∧ e'.stack = e.stack := by
  obtain ⟨c, hc, rfl⟩ := withInner_ok h
  exact ⟨(replace_symbols hc).1, (replace_symbols hc).2, rfl, rfl⟩

/-- `insert_glue`, `insert_break` and `select` change neither symbols nor cursor nor stack -/
theorem gap_select_frame (e : CompEditor) (op : CedOp) (e' : CompEditor)
    (ho : op = .insertGlue ∨ op = .insertBreak ∨ ∃ iv, op = .select iv) (h : e.apply op = .ok e') :
    e'.symbols = e.symbols ∧ e'.cursor = e.cursor ∧ e'.stack = e.stack := by
  rcases ho with rfl | rfl | ⟨iv, rfl⟩
  · simp only [CompEditor.apply, CompEditor.insertGlue, CompEditor.insertGap] at h
    split at h
    · cases h; exact ⟨rfl, rfl, rfl⟩
    · obtain ⟨c, hc, rfl⟩ := withInner_ok h; exact ⟨setGap_symbols hc, rfl, rfl⟩
  · simp only [CompEditor.apply, CompEditor.insertBreak, CompEditor.insertGap] at h
    split at h
    · cases h; exact ⟨rfl, rfl, rfl⟩
    · obtain ⟨c, hc, rfl⟩ := withInner_ok h; exact ⟨setGap_symbols hc, rfl, rfl⟩
  · simp only [CompEditor.apply, CompEditor.select] at h
    split at h
    · cases h
    · obtain ⟨c, hc, rfl⟩ := withInner_ok h; exact ⟨pushSelection_symbols hc, rfl, rfl⟩

/-- `clear` empties the buffer, resets the cursor and drops the saved cursors (F25 fix, see Props/C17.lean) -/
theorem clear_frame (e : CompEditor) :
    e.clear.symbols = [] ∧ e.clear.cursor = 0 ∧ e.clear.stack = [] ∧ e.clear.inner.selections = [] := by
  simp [CompEditor.clear, CompEditor.symbols, Composition.clear]

/-! ## The invariant -/

/-- one step: whatever the method and its arguments, a call that returns keeps `cursor ≤ len` -/
theorem cursor_le_len_step (e : CompEditor) (op : CedOp) (e' : CompEditor) (hi : CursorInv e)
    (h : e.apply op = .ok e') : CursorInv e' := by
  obtain ⟨hl, hc⟩ := hi
  have hl' : LenInv e'.inner := len_assert_unreachable (compOps e op) e.inner e'.inner hl (ced_inner e op e' h)
  refine ⟨hl', ?_⟩
  cases op with
  | pushCursor => cases h; exact hc
  | popCursor =>
    simp only [CompEditor.apply, CompEditor.popCursor, Composition.len] at h; cases h
    split <;> exact Nat.min_le_right ..
  | clampCursor =>
    simp only [CompEditor.apply, CompEditor.clampCursor] at h; cases h
    split
    · exact Nat.le_trans (Nat.sub_le ..) hc
    · exact hc
  | moveCursor n => cases h; exact Nat.min_le_right ..
  | clear => cases h; exact Nat.zero_le _
  | removeFront n =>
    have := remove_front_frame e n e' h
    simp only [CompEditor.symbols] at this
    rw [this.2.1, this.2.2.1, List.length_drop]; omega
  | removeAfterCursor =>
    have := delete_frame e e' h
    simp only [CompEditor.symbols] at this
    rw [this.2.1, this.2.2.1]
    simp only [List.length_append, List.length_take, List.length_drop]; omega
  | removeBeforeCursor =>
    have := backspace_frame e e' h
    simp only [CompEditor.symbols] at this
    rcases Nat.eq_zero_or_pos e.cursor with h0 | h0
    · rw [this.1 h0]; exact hc
    · obtain ⟨a, b, _, _⟩ := this.2 h0
      rw [a, b]
      simp only [List.length_append, List.length_take, List.length_drop]; omega
  | moveToEnd => cases h; exact Nat.le_refl _
  | moveToBeginning => cases h; exact Nat.zero_le _
  | moveLeft => cases h; exact Nat.le_trans (Nat.sub_le ..) hc
  | moveRight => cases h; exact Nat.min_le_right ..
  | insert x =>
    have := insert_at_cursor e x e' h
    simp only [CompEditor.symbols] at this
    rw [this.1, this.2.1]
    simp only [List.length_append, List.length_take, List.length_drop, List.length_cons, List.length_nil]; omega
  | insertGlue =>
    have := gap_select_frame e .insertGlue e' (.inl rfl) h
    simp only [CompEditor.symbols] at this
    rw [this.1, this.2.1]; exact hc
  | insertBreak =>
    have := gap_select_frame e .insertBreak e' (.inr (.inl rfl)) h
    simp only [CompEditor.symbols] at this
    rw [this.1, this.2.1]; exact hc
  | replace x =>
    have := replace_frame e x e' h
    simp only [CompEditor.symbols] at this
    rw [this.2.1, this.2.2.1]
    simp only [List.length_append, List.length_take, List.length_drop, List.length_cons, List.length_nil]; omega
  | select iv =>
    have := gap_select_frame e (.select iv) e' (.inr (.inr ⟨iv, rfl⟩)) h
    simp only [CompEditor.symbols] at this
    rw [this.1, this.2.1]; exact hc

/-- **`cursor ≤ len` for every sequence of `CompositionEditor` calls** (induction over the list) -/
theorem cursor_le_len (ops : List CedOp) :
    ∀ (e e' : CompEditor), CursorInv e → e.run ops = .ok e' → CursorInv e' := by
  induction ops with
  | nil => intro e e' hi h; simp only [CompEditor.run] at h; cases h; exact hi
  | cons op ops ih =>
    intro e e' hi h
    simp only [CompEditor.run] at h
    split at h
    · next e1 h1 => exact ih e1 e' (cursor_le_len_step e op e1 hi h1) h
    · cases h
    · cases h

/-- from the initial state: the cursor always lies within `0..=len` -/
theorem cursor_le_len_from_new (ops : List CedOp) (e' : CompEditor) (h : CompEditor.new.run ops = .ok e') :
    e'.cursor ≤ e'.len :=
  (cursor_le_len ops CompEditor.new e' cursorInv_new h).2

/-! ## Totality where the editor relies on it -/

/-- `insert` never panics in a reachable state -/
theorem insert_total (e : CompEditor) (x : Sym) (hi : CursorInv e) : ∃ e', e.insert x = .ok e' := by
  have := insert_ok (c := e.inner) (i := e.cursor) (x := x).mpr ⟨hi.1, hi.2, rfl⟩
  simp only [CompEditor.insert]
  rw [this]
  exact ⟨_, rfl⟩

/-- Backspace never panics (given valid selections: no `end -= 1` underflow) -/
theorem backspace_total (e : CompEditor) (hc : CompInv e.inner) (hi : CursorInv e) :
    ∃ e', e.removeBeforeCursor = .ok e' := by
  unfold CompEditor.removeBeforeCursor
  split
  · exact ⟨e, rfl⟩
  · next h0 =>
    obtain ⟨c, h⟩ := no_panic e.inner (.remove (e.cursor - 1)) hc (by have := hi.2; simp only [Asserted]; omega)
    simp only [Composition.apply] at h
    exact ⟨_, by rw [h]; rfl⟩

/-- Delete succeeds exactly when the cursor is before the end -/
theorem delete_ok_iff (e : CompEditor) (hc : CompInv e.inner) :
    (∃ e', e.removeAfterCursor = .ok e') ↔ e.cursor < e.inner.symbols.length := by
  constructor
  · rintro ⟨e', h⟩; exact (delete_frame e e' h).1
  · intro hlt
    obtain ⟨c, h⟩ := no_panic e.inner (.remove e.cursor) hc hlt
    simp only [Composition.apply] at h
    exact ⟨_, by simp only [CompEditor.removeAfterCursor]; rw [h]; rfl⟩

/-- `replace` succeeds exactly when the cursor is before the end -/
theorem replace_ok_iff (e : CompEditor) (x : Sym) (hl : LenInv e.inner) :
    (∃ e', e.replace x = .ok e') ↔ e.cursor < e.inner.symbols.length := by
  constructor
  · rintro ⟨e', h⟩; exact (replace_frame e x e' h).1
  · intro hlt
    exact ⟨_, by simp only [CompEditor.replace]; rw [replace_ok.mpr ⟨hl, hlt, rfl⟩]; rfl⟩

/-- `remove_front(n)` succeeds exactly when `n ≤ len` -/
theorem remove_front_ok_iff (e : CompEditor) (n : Nat) (hc : CompInv e.inner) :
    (∃ e', e.removeFront n = .ok e') ↔ n ≤ e.inner.symbols.length := by
  constructor
  · rintro ⟨e', h⟩; exact (remove_front_frame e n e' h).1
  · intro hle
    obtain ⟨c, h⟩ := no_panic e.inner (.removeFront n) hc hle
    simp only [Composition.apply] at h
    exact ⟨_, by simp only [CompEditor.removeFront]; rw [h]; rfl⟩

/-- `insert_glue` / `insert_break` never panic in a reachable state (they return early at the end) -/
theorem insert_gap_total (e : CompEditor) (g : Gap) (hg : g ≠ .begin) (hi : CursorInv e) :
    ∃ e', e.insertGap g = .ok e' := by
  unfold CompEditor.insertGap
  split
  · exact ⟨e, rfl⟩
  · next h0 =>
    have hlt : e.cursor < e.inner.symbols.length := by
      have := hi.2
      simp only [CompEditor.isEob, Composition.len, beq_iff_eq] at h0
      omega
    exact ⟨_, by rw [setGap_ok.mpr ⟨hi.1, hlt, hg, rfl⟩]; rfl⟩

/-! ## Non-vacuity -/

/-- `[ㄘㄜˋ, ㄕˋ, 'a']`, cursor between the second and third symbol, one saved cursor -/
def demoEd : CompEditor :=
  { cursor := 2, stack := [3],
    inner := { symbols := [.syl 0x2A48, .syl 0x1404, .chr 97], gaps := [.begin, .normal, .normal], selections := [] } }

example : CursorInv demoEd := ⟨rfl, by decide⟩

example : ∃ e', demoEd.insert (.chr 98) = .ok e' ∧
    e'.symbols = [.syl 0x2A48, .syl 0x1404, .chr 98, .chr 97] ∧ e'.cursor = 3 := ⟨_, rfl, rfl, rfl⟩

example : ∃ e', demoEd.removeBeforeCursor = .ok e' ∧ e'.symbols = [.syl 0x2A48, .chr 97] ∧ e'.cursor = 1 :=
  ⟨_, rfl, rfl, rfl⟩

example : ∃ e', demoEd.removeAfterCursor = .ok e' ∧ e'.symbols = [.syl 0x2A48, .syl 0x1404] ∧ e'.cursor = 2 :=
  ⟨_, rfl, rfl, rfl⟩

/-- save the cursor, delete two symbols, restore: the restored cursor is clamped to the new length -/
example : ∃ e1, demoEd.moveToEnd.pushCursor.run [.removeBeforeCursor, .removeBeforeCursor] = .ok e1 ∧
    e1.popCursor.cursor = 1 ∧ e1.popCursor.stack = [3] := ⟨_, rfl, rfl, rfl⟩

end Chewing.C05
