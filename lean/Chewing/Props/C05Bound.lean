import Chewing.Proofs.EditorLinkBound3
/-!
# C05, second half: "the buffer stays bounded" — in EVERY reachable state (round 2, `linkH`)

`Props/C05.lean` / `Props/C18.lean` prove `len ≤ auto_commit_threshold` after the keys that end in `Entering`
(`bounded_after_key`, `C18.buffer_bounded_along`).  This file is about all four kinds of state and all public
operations (it cannot be a section of `Props/C05.lean`: C01's proofs import that file).

**History.**  Before the repair `fix: the pre-edit length limit is enforced while a syllable is being entered`
(FX3 / FX4, repository commit b92f99b) the natural statement was FALSE in the code, two ways, both confirmed on the
real C API (2026-09-29), because `process_keyevent` / `Editor::select` ran `try_auto_commit` only `if
self.is_entering()`:

* (FX3) keys alone, prefix lookup (`LookupStrategy::FuzzyPartialPrefix`, what the fuzzy engine configures): in
  `EnteringSyllable` the `KeyBehavior::Fuzzy` arm inserts the pending partial syllable and answers *absorb* WITHOUT
  leaving the state, so every further initial added a symbol: 200 × `h` ⇒ `chewing_buffer_Len` 199 with limit 39;
* (FX4) `cancel_selecting()` (`chewing_cand_close`; also the `revalidate_selecting` of an option / layout / dictionary
  call that empties the list) returns to `Entering` without `try_auto_commit`; with the simple engine, whose one-word
  list opens BEFORE the auto-commit, each cycle "type a syllable, close the list" added a symbol (the next key goes
  `Entering → EnteringSyllable`, *absorb*, no auto-commit): 100 cycles ⇒ 100 symbols.

Since the repair the auto-commit runs after every key (and `select`) answered *absorb* that ends in `Entering` OR
`EnteringSyllable`.  The old witness histories now stay within the bound (`fuzzy_history_repaired`,
`cancel_cycle_repaired`).

**What holds** (`buffer_bounded_everywhere`): EITHER lookup strategy and any layout (the hypothesis "`key_press`
never answers `Fuzzy`" and `Cfg.std` are gone), thresholds `≤ B` (initially and in every `set_editor_options`), the
list-closing API calls not made over the over-full one-word list (`SafeAlong`; no condition on keys, `select`,
`start_selecting`, `commit`, `clear`, …) ⇒ in every reachable state `len ≤ B`, and `≤ B + 1` while a candidate list is
open; the bound `B + 1` is attained (`bound_plus_one_attained`).  For key histories there is no side condition at
all (`buffer_bounded_keys`: C05's sentence "after every key handled in editing mode the buffer is no longer than the
configured maximum", for every layout model, engine and lookup strategy).  The limit itself may be exceeded inside
the range `≤ B` after it was lowered by an option call — that is why the bound is the largest threshold of the
history, not the current one.  Inside a step, where the conversion runs, at most `B + max 2 K` symbols (`K` = longest
easy-symbol expansion of the table the editor was created with): `conversions_are_short`.

**The unrestricted statement now holds** (`bounded_everywhere_full : BoundedEverywhereFull`, via
`buffer_bounded_all_operations`): every history of valid operations with thresholds `≤ B`, no `SafeAlong` ⇒
`len ≤ B + 1` in every reachable state, `≤ B` while a syllable is being entered.

**What remains false** (`bounded_editing_full_refuted`): `len ≤ B` in `Entering` after every OPERATION — the API call
`cancel_selecting()` (not a key) over the simple engine's over-full one-word list leaves `B + 1` symbols in
`Entering` until the next key is handled (`cancel_leaves_one_over_refuted`); that is exactly the class `SafeAlong`
excludes.
-/
namespace Chewing.C05
open Chewing Chewing.C01 Chewing.Bound

variable {D L : Type} {env : Env D L} {G : D → Prop}

/-- every `set_editor_options` of the history configures a threshold within `B` -/
def ThrLe (B : Nat) (ops : List (Op L)) : Prop := ∀ o, Op.setOptions o ∈ ops → o.autoCommitThreshold ≤ B

/-- **the property as one would word it**: from a fresh editor, whatever the (valid) operations, the buffer never
    holds more than the largest configured limit plus one symbol -/
def BoundedEverywhereFull : Prop :=
  ∀ (D L : Type) (env : Env D L) (G : D → Prop), EnvOK env G →
    ∀ (sh : Shared D L), G sh.dict → sh.com = {} → 0 < sh.options.candidatesPerPage → SymWF sh.symSel →
    ∀ B, sh.options.autoCommitThreshold ≤ B →
    ∀ ops : List (Op L), (∀ op ∈ ops, OpValid op) → ThrLe B ops →
    ∀ e', ({ shared := sh, state := .entering } : Editor D L).run env ops = .ok e' → e'.shared.com.len ≤ B + 1

/-! ## what holds -/

/-- **the buffer stays bounded, everywhere**: for every environment satisfying C01's `EnvOK` (any layout, either
    lookup strategy — no "never answers `Fuzzy`" hypothesis since the FX3 repair), from a fresh editor (empty
    buffer, well-formed dictionary and symbol tables) configured within `B` / `K`, every history of valid
    operations under the side conditions `SafeAlong` returns (no panic), and in the state it reaches — whichever
    of the four kinds — `len ≤ B`, `≤ B + 1` while a candidate list is open; thresholds and easy-symbol table are
    still as configured.  No premise on the conversion: C01's invariant gives the tiling. -/
theorem buffer_bounded_everywhere {B K : Nat} (hE : EnvOK env G) (sh : Shared D L)
    (hg : G sh.dict) (hcom : sh.com = {}) (hpp : 0 < sh.options.candidatesPerPage) (hsym : SymWF sh.symSel)
    (hc : Cfg B K sh) (ops : List (Op L)) (hv : ∀ op ∈ ops, OpValid op)
    (hs : SafeAlong env B { shared := sh, state := .entering } ops) :
    ∃ e', ({ shared := sh, state := .entering } : Editor D L).run env ops = .ok e' ∧ SafeInv env G e' ∧
      Within B K e' ∧ e'.shared.com.len ≤ lenCap B e'.state ∧ e'.shared.com.len ≤ B + 1 := by
  have hw : Within B K ({ shared := sh, state := .entering } : Editor D L) :=
    ⟨hc, by show sh.com.len ≤ B; rw [hcom]; exact Nat.zero_le _⟩
  obtain ⟨e', h, hi, hw'⟩ := within_run_linked hE ops _ (initial_safe sh hg hcom hpp hsym) hw hv hs
  exact ⟨e', h, hi, hw', hw'.len, Nat.le_trans hw'.len (lenCap_le B _)⟩

/-- … for key histories there is no side condition at all: **whatever is typed, in all four states** -/
theorem buffer_bounded_keys {B K : Nat} (hE : EnvOK env G) (sh : Shared D L)
    (hg : G sh.dict) (hcom : sh.com = {}) (hpp : 0 < sh.options.candidatesPerPage) (hsym : SymWF sh.symSel)
    (hc : Cfg B K sh) (keys : List KeyEvent) :
    ∃ e', ({ shared := sh, state := .entering } : Editor D L).run env (keys.map .key) = .ok e' ∧
      e'.shared.com.len ≤ lenCap B e'.state :=
  have ⟨e', h, _, _, hl, _⟩ := buffer_bounded_everywhere hE sh hg hcom hpp hsym hc (keys.map .key)
    (fun op hop => by obtain ⟨k, _, rfl⟩ := List.mem_map.mp hop; trivial) (safeAlong_keys env B keys _)
  ⟨e', h, hl⟩

/-- the step form, from ANY state satisfying both invariants (e.g. a state reached earlier) -/
theorem buffer_bounded_step {B K : Nat} {w : Prop} (hE : EnvOK env G) {e : Editor D L}
    (hi : EditorInv env G w e) (hw : Within B K e) (op : Op L) (hv : OpValid op) (hk : w → ¬ Known env e op)
    (hs : SafeOp B e op) : ∃ e', e.apply env op = .ok e' ∧ EditorInv env G w e' ∧ Within B K e' :=
  within_apply_linked hE hi hw op hv hk hs

/-- the C05-style form: no C01, the auto-commit's bound at the states inside the steps as a premise (it follows
    from a tiling conversion, `tryAutoCommit_bound_at`), partial correctness -/
theorem buffer_bounded_everywhere_at {B K : Nat} (ops : List (Op L)) (e e' : Editor D L)
    (hw : Within B K e) (hs : SafeAlong env B e ops) (ha : ACAlong env e ops) (h : e.run env ops = .ok e') :
    Within B K e' :=
  within_run env ops e e' hw hs ha h

theorem acBound_of_tilingAt {sh : Shared D L} (ht : TilingAt env sh) : ACBound env sh := by
  intro sh2 h2
  obtain ⟨h1, h3, _⟩ := tryAutoCommit_bound_at env ht h2
  rw [← h3]; exact h1

/-- **every conversion the editor asks for inside a step of such a history is over at most `B + max 2 K`
    symbols** (with the documented limit 39 and expansions of at most 89 characters: at most 128, the reach of
    C03's `ScoreBound`) -/
theorem conversions_are_short {B K : Nat} {e : Editor D L} (hw : Within B K e) {op : Op L}
    {sh : Shared D L} (hm : Mid env e op sh) : sh.com.inner.symbols.length ≤ B + max 2 K :=
  mid_len_linked hw hm

/-! ## non-vacuity and tightness (C01's toy environment) -/

/-- the hypotheses of `buffer_bounded_everywhere` are satisfiable: default options (limit 39), no easy symbols -/
example (keys : List KeyEvent) : ∃ e', (stdEditor [3]).run toyEnv (keys.map .key) = .ok e' ∧
    e'.shared.com.len ≤ lenCap 39 e'.state :=
  buffer_bounded_keys (K := 0) toyEnv_ok _ trivial rfl (by show (0 : Nat) < 10; omega) symWF_empty
    ⟨Nat.le_refl _, fun p hp => by cases hp⟩ keys

def simpleEditor (thr : Nat) : Editor (List Nat) Nat :=
  { shared := { syl := 0, dict := [3], options := { autoCommitThreshold := thr, conversionEngine := .simple } } }

def keyX : KeyEvent := { index := 34, code := 34, unicode := 107 }

/-- **`B + 1` is attained**: limit 0, simple engine, the two keys of one syllable ⇒ the one-word list is open over
    1 symbol -/
theorem bound_plus_one_attained : ∃ e' s, (simpleEditor 0).run toyEnv [.key keyJ, .key keyX] = .ok e' ∧
    e'.state = .selecting s ∧ e'.shared.com.len = 1 := by
  refine ⟨_, _, rfl, rfl, ?_⟩; decide

/-! ## the two repaired classes (FX3, FX4): the old witness histories, and every other history of their kind -/

/-- a layout that answers `Fuzzy(3)` to every key pressed while a syllable is pending (what the real
    `fuzzy_key_press` does when the key starts a new syllable) -/
def fuzzyToy : Env (List Nat) Nat :=
  { toyEnv with fuzzyKeyPress := fun l ev => if l == 0 then toyEnv.keyPress l ev else (.fuzzy 3, l) }

theorem fuzzyToy_ok : EnvOK fuzzyToy (fun _ => True) where
  wf := toyEnv_ok.wf
  std_fuzzy := toyEnv_ok.std_fuzzy
  add_good := toyEnv_ok.add_good
  add_mono := toyEnv_ok.add_mono
  update_good := toyEnv_ok.update_good
  update_mono := toyEnv_ok.update_mono
  flush_good := toyEnv_ok.flush_good
  flush_mono := toyEnv_ok.flush_mono
  remove_good := toyEnv_ok.remove_good
  estimate_ok := toyEnv_ok.estimate_ok
  convert_ok := toyEnv_ok.convert_ok
  convert_len := toyEnv_ok.convert_len

def fuzzyStart (thr : Nat) : Shared (List Nat) Nat :=
  { syl := 0, dict := [3], engine := .fuzzy,
    options := { autoCommitThreshold := thr, lookupStrategy := .fuzzyPartialPrefix, conversionEngine := .fuzzy } }

/-- **(FX3) repaired**: keys alone, prefix lookup, limit 0: the five keys that used to leave 4 symbols in the buffer
    (state `EnteringSyllable`, each further key adding one; real code before the repair: 200 × `h` ⇒
    `chewing_buffer_Len` 199, limit 39) now leave none — every `Fuzzy` insertion is followed by the auto-commit -/
theorem fuzzy_history_repaired : ∃ e', ({ shared := fuzzyStart 0 } : Editor (List Nat) Nat).run fuzzyToy
      [.key keyJ, .key keyJ, .key keyJ, .key keyJ, .key keyJ] = .ok e' ∧
    e'.state = .enteringSyllable ∧ e'.shared.options.autoCommitThreshold = 0 ∧ e'.shared.com.len = 0 := by
  refine ⟨_, rfl, rfl, rfl, ?_⟩; decide

/-- … and so does EVERY key history over that layout, for every limit (`buffer_bounded_keys` applies: its hypotheses
    are satisfiable under prefix lookup with a layout that answers `Fuzzy`) -/
theorem fuzzy_keys_bounded (thr : Nat) (keys : List KeyEvent) :
    ∃ e', ({ shared := fuzzyStart thr } : Editor (List Nat) Nat).run fuzzyToy (keys.map .key) = .ok e' ∧
      e'.shared.com.len ≤ lenCap thr e'.state :=
  buffer_bounded_keys (K := 0) fuzzyToy_ok (fuzzyStart thr) trivial rfl (by show (0 : Nat) < 10; omega) symWF_empty
    ⟨Nat.le_refl _, fun p hp => by cases hp⟩ keys

/-- **(FX4) repaired**: exact lookup, limit 0, simple engine: the three cycles "syllable, `cancel_selecting()`" that
    used to leave 3 symbols (each further cycle adding one; real code before the repair: 100 cycles ⇒
    `chewing_buffer_Len` 100, limit 39) now leave 1 = limit + 1: the first key of each cycle (`Entering →
    EnteringSyllable`, *absorb*) auto-commits what the closed list left over -/
theorem cancel_cycle_repaired : ∃ e', (simpleEditor 0).run toyEnv
      [.key keyJ, .key keyX, .cancelSelecting, .key keyJ, .key keyX, .cancelSelecting, .key keyJ, .key keyX, .cancelSelecting]
      = .ok e' ∧ e'.state = .entering ∧ e'.shared.options.autoCommitThreshold = 0 ∧ e'.shared.com.len = 1 := by
  refine ⟨_, rfl, rfl, rfl, ?_⟩; decide

/-- … and after the next KEY the buffer is within the limit again -/
theorem cancel_then_key_within : ∃ e', (simpleEditor 0).run toyEnv
      [.key keyJ, .key keyX, .cancelSelecting, .key keyJ] = .ok e' ∧ e'.state = .enteringSyllable ∧
      e'.shared.options.autoCommitThreshold = 0 ∧ e'.shared.com.len = 0 := by
  refine ⟨_, rfl, rfl, rfl, ?_⟩; decide

/-! ## the unrestricted statement: every operation, no side condition on the API calls -/

theorem thrOp_of_thrLe {B : Nat} {ops : List (Op L)} (h : ThrLe B ops) : ∀ op ∈ ops, ThrOp B op := by
  intro op hop
  cases op <;> first | trivial | skip
  exact h _ hop

/-- **every history of valid operations, whatever the API calls** (only: thresholds `≤ B`): the run returns and in
    the state reached `len ≤ B + 1`, and `len ≤ B` while a syllable is being entered (`cap1`); C01's invariant and
    the configuration are kept.  Proofs/EditorLinkBound3.lean: the invariant `Within1` needs no `SafeAlong` since
    the repair — whatever a closed list leaves over is auto-committed by the next absorbed key -/
theorem buffer_bounded_all_operations {B K : Nat} (hE : EnvOK env G) (sh : Shared D L)
    (hg : G sh.dict) (hcom : sh.com = {}) (hpp : 0 < sh.options.candidatesPerPage) (hsym : SymWF sh.symSel)
    (hc : Cfg B K sh) (ops : List (Op L)) (hv : ∀ op ∈ ops, OpValid op) (ht : ThrLe B ops) :
    ∃ e', ({ shared := sh, state := .entering } : Editor D L).run env ops = .ok e' ∧ SafeInv env G e' ∧
      Within1 B K e' ∧ e'.shared.com.len ≤ cap1 B e'.state ∧ e'.shared.com.len ≤ B + 1 := by
  have hw : Within1 B K ({ shared := sh, state := .entering } : Editor D L) :=
    ⟨hc, by show sh.com.len ≤ B + 1; rw [hcom]; exact Nat.zero_le _⟩
  obtain ⟨e', h, hi, hw'⟩ := within1_run_linked hE ops _ (initial_safe sh hg hcom hpp hsym) hw hv (thrOp_of_thrLe ht)
  exact ⟨e', h, hi, hw', hw'.len, Nat.le_trans hw'.len (cap1_le B _)⟩

/-- the hypotheses of `buffer_bounded_all_operations` are satisfiable (simple engine, limit 0: the configuration of the
    old FX4 witness) — EVERY history of valid operations that never raises the limit ends with at most 1 symbol -/
example (ops : List (Op Nat)) (hv : ∀ op ∈ ops, OpValid op) (ht : ThrLe 0 ops) :
    ∃ e', (simpleEditor 0).run toyEnv ops = .ok e' ∧ e'.shared.com.len ≤ 0 + 1 :=
  have ⟨e', h, _, _, _, hl⟩ := buffer_bounded_all_operations (K := 0) toyEnv_ok (simpleEditor 0).shared trivial rfl
    (by show (0 : Nat) < 10; omega) symWF_empty ⟨Nat.le_refl _, fun p hp => by cases hp⟩ ops hv ht
  ⟨e', h, hl⟩

/-- **the property as one would word it holds** (it was refuted before the repair, by keys alone:
    `bounded_everywhere_full_refuted` of round 2, now `fuzzy_history_repaired`) -/
theorem bounded_everywhere_full : BoundedEverywhereFull := by
  intro D L env G hE sh hg hcom hpp hsym B hB ops hv ht e' hr
  obtain ⟨K, hK⟩ := abbrLe_exists sh.abbr
  obtain ⟨e2, h2, _, _, _, hl⟩ := buffer_bounded_all_operations (K := K) hE sh hg hcom hpp hsym ⟨hB, hK⟩ ops hv ht
  rw [hr] at h2
  injection h2 with h2
  rw [h2]; exact hl

/-! ## what still does not hold: the limit itself, between an API call and the next key -/

/-- "after every OPERATION the buffer is within the bound of the state" (`B` in the editing states), no side
    condition on the API calls -/
def BoundedEditingFull : Prop :=
  ∀ (D L : Type) (env : Env D L) (G : D → Prop), EnvOK env G →
    ∀ (sh : Shared D L), G sh.dict → sh.com = {} → 0 < sh.options.candidatesPerPage → SymWF sh.symSel →
    ∀ B, sh.options.autoCommitThreshold ≤ B →
    ∀ ops : List (Op L), (∀ op ∈ ops, OpValid op) → ThrLe B ops →
    ∀ e', ({ shared := sh, state := .entering } : Editor D L).run env ops = .ok e' →
      e'.shared.com.len ≤ lenCap B e'.state

/-- the API call `cancel_selecting()` over the simple engine's over-full one-word list leaves limit + 1 symbols in
    state `Entering` (no key was handled: C05's sentence is about keys) -/
theorem cancel_leaves_one_over_refuted : ∃ e', (simpleEditor 0).run toyEnv [.key keyJ, .key keyX, .cancelSelecting]
      = .ok e' ∧ e'.state = .entering ∧ e'.shared.options.autoCommitThreshold = 0 ∧ e'.shared.com.len = 1 := by
  refine ⟨_, rfl, rfl, rfl, ?_⟩; decide

/-- **`BoundedEditingFull` is refuted** (by that API call; `buffer_bounded_everywhere` is the `_partial`: exactly
    the class `SafeAlong` excluded) -/
theorem bounded_editing_full_refuted : ¬ BoundedEditingFull := by
  intro h
  obtain ⟨e', hr, hst, _, hl⟩ := cancel_leaves_one_over_refuted
  have := h _ _ toyEnv (fun _ => True) toyEnv_ok (simpleEditor 0).shared trivial rfl (by show (0 : Nat) < 10; omega) symWF_empty
    0 (Nat.le_refl _) _ (fun op _ => by
      cases op <;> first | trivial | skip
      all_goals (rename_i hm; simp at hm)) (fun o ho => by simp at ho) e' hr
  rw [hst] at this
  simp only [lenCap] at this
  omega

end Chewing.C05
