import Chewing.Proofs.EditorFrame
import Chewing.Proofs.EditorBell
import Chewing.Model.Candidates
/-!
# C06 — Keys are passed through when nothing is being composed; key results are truthful

Model: `Chewing.Model.Editor` (`Editor.processKey` = `BasicEditor::process_keyevent`), validated per
step against the real editor from its own pre-state (harness `editor`, hook H1).  The theorems hold
for EVERY environment `env` (dictionary, phonetic layout, conversion engine, estimator): they are
facts about the editor's own control flow.

Reading.  *Persistent* observables: state kind and selector, composition editor (symbols, gaps,
selections, cursor, saved cursors), phonetic buffer, options, installed engine, chosen alternative
(`nth`).  Per-key outputs (notice buffer, commit buffer) are reset at the start of every key (the
commit buffer unconditionally since the F29 fix), so after an ignored key nothing is committed.
"Nothing is being composed" is formalised as: state `Entering` with an empty pre-edit.  On the
unchanged tree both buffers could also be empty in `EnteringSyllable` (after an API call or a Pinyin
key emptied the phonetic buffer) and Enter etc. were answered with *bell* (F37); repaired by a
`fix:` commit, the model follows the repaired code, and `f37_history_now_ignored` replays the former
counter-example history.  With a candidate list or a highlight open something *is* being composed.
-/
namespace Chewing.C06
open Chewing

variable {D L : Type} (env : Env D L)

/-- exactly one of the four results is reported (the result is one value of a four-valued type) -/
theorem result_exclusive (b : KB) :
    (b = .ignore ∨ b = .commit ∨ b = .bell ∨ b = .absorb) ∧
    (KB.ignore ≠ KB.commit ∧ KB.ignore ≠ KB.bell ∧ KB.ignore ≠ KB.absorb ∧
     KB.commit ≠ KB.bell ∧ KB.commit ≠ KB.absorb ∧ KB.bell ≠ KB.absorb) := by
  refine ⟨?_, by decide⟩
  cases b <;> simp

/-- what the key preamble does before the state machine runs -/
def preamble (sh : Shared D L) : Shared D L :=
  { sh with time := sh.time + 1, noticeBuf := [], commitBuf := [] }

/-- the state machine part of a key: new shared state, new state, transition -/
def dispatch (e : Editor D L) (ev : KeyEvent) : Outcome (Shared D L × St) :=
  match e.state with
  | .entering => (enteringNext env (preamble e.shared) ev).map fun (sh', t) => applyTrans sh' .entering t
  | .enteringSyllable =>
    (enteringSyllableNext env (preamble e.shared) ev).map fun (sh', t) => applyTrans sh' .enteringSyllable t
  | .selecting s =>
    (selectingNext env s (preamble e.shared) ev).map fun r => applyTrans r.shared (.selecting r.sel) r.trans
  | .highlighting m =>
    (highlightingNext env m (preamble e.shared) ev).map fun (sh', m', t) => applyTrans sh' (.highlighting m') t

/-- after the state's `next`: *ignore* ⇒ shared state and state are exactly the pre-state (after the
    preamble, `last` recorded); *bell* ⇒ the composition editor is untouched -/
theorem dispatch_frame {e : Editor D L} {ev : KeyEvent} {sh : Shared D L} {st : St}
    (h : dispatch env e ev = .ok (sh, st)) :
    (sh.last = .ignore → sh = { preamble e.shared with last := .ignore } ∧ st = e.state) ∧
    (sh.last = .bell → sh.com = e.shared.com) := by
  have hpre : (preamble e.shared).com = e.shared.com := rfl
  unfold dispatch at h
  split at h
  · -- Entering
    rename_i hs
    cases hr : enteringNext env (preamble e.shared) ev with
    | ok x =>
      obtain ⟨sh', t⟩ := x
      rw [hr] at h; simp only [Outcome.map] at h
      have hf := frame_enteringNext env (preamble e.shared) ev sh' t hr
      cases t with
      | toState s' => simp only [applyTrans] at h; cases h; simp
      | spin b =>
        simp only [applyTrans] at h; cases h
        refine ⟨fun hb => ?_, fun hb => ?_⟩
        · simp only at hb; subst hb; rw [hf.1 rfl]; exact ⟨rfl, hs.symm⟩
        · simp only at hb; subst hb; rw [← hpre]; exact hf.2 rfl
    | panic p => rw [hr] at h; simp [Outcome.map] at h
    | outOfFuel => rw [hr] at h; simp [Outcome.map] at h
  · -- EnteringSyllable
    rename_i hs
    cases hr : enteringSyllableNext env (preamble e.shared) ev with
    | ok x =>
      obtain ⟨sh', t⟩ := x
      rw [hr] at h; simp only [Outcome.map] at h
      have hf := frame_enteringSyllableNext env (preamble e.shared) ev sh' t hr
      cases t with
      | toState s' => simp only [applyTrans] at h; cases h; simp
      | spin b =>
        simp only [applyTrans] at h; cases h
        refine ⟨fun hb => ?_, fun hb => ?_⟩
        · simp only at hb; subst hb; rw [hf.1 rfl]; exact ⟨rfl, hs.symm⟩
        · simp only at hb; subst hb; rw [← hpre]; exact hf.2 rfl
    | panic p => rw [hr] at h; simp [Outcome.map] at h
    | outOfFuel => rw [hr] at h; simp [Outcome.map] at h
  · -- Selecting
    rename_i s hs
    cases hr : selectingNext env s (preamble e.shared) ev with
    | ok x =>
      rw [hr] at h; simp only [Outcome.map] at h
      have hf := frameSel_selectingNext env s (preamble e.shared) ev x hr
      cases ht : x.trans with
      | toState s' => rw [ht] at h; simp only [applyTrans] at h; cases h; simp
      | spin b =>
        rw [ht] at h; simp only [applyTrans] at h; cases h
        refine ⟨fun hb => ?_, fun hb => ?_⟩
        · simp only at hb; subst hb
          obtain ⟨h1, h2⟩ := hf.1 ht
          rw [h1, h2]; exact ⟨rfl, hs.symm⟩
        · simp only at hb; subst hb; rw [← hpre]; exact hf.2 ht
    | panic p => rw [hr] at h; simp [Outcome.map] at h
    | outOfFuel => rw [hr] at h; simp [Outcome.map] at h
  · -- Highlighting
    rename_i m hs
    cases hr : highlightingNext env m (preamble e.shared) ev with
    | ok x =>
      obtain ⟨sh', m', t⟩ := x
      rw [hr] at h; simp only [Outcome.map] at h
      have hf := (highlighting_no_ignore_bell env m (preamble e.shared) ev).elim hr
      simp only at hf
      cases t with
      | toState s' => simp only [applyTrans] at h; cases h; simp
      | spin b =>
        simp only [applyTrans] at h; cases h
        refine ⟨fun hb => ?_, fun hb => ?_⟩
        · simp only at hb; subst hb; exact absurd rfl hf.1
        · simp only at hb; subst hb; exact absurd rfl hf.2
    | panic p => rw [hr] at h; simp [Outcome.map] at h
    | outOfFuel => rw [hr] at h; simp [Outcome.map] at h

/-- the part of `process_keyevent` after the state's `next`: auto-commit, dictionary flush, result -/
def tail (sh : Shared D L) (st : St) : Outcome (Editor D L × KB) :=
  match (if (st == .entering || st == .enteringSyllable) && sh.last == .absorb then Shared.tryAutoCommit env sh else .ok sh) with
  | .panic p => .panic p
  | .outOfFuel => .outOfFuel
  | .ok sh =>
    .ok ({ shared := if sh.dirty > 0 then { sh with dict := env.reopenFlush sh.dict, dirty := 0 } else sh,
           state := st },
         (if sh.dirty > 0 then { sh with dict := env.reopenFlush sh.dict, dirty := 0 } else sh).last)

/-- `process_keyevent` = preamble, the state's `next`, then auto-commit and the dictionary flush -/
theorem processKey_eq (e : Editor D L) (ev : KeyEvent) :
    e.processKey env ev =
      match dispatch env e ev with
      | .panic p => .panic p
      | .outOfFuel => .outOfFuel
      | .ok (sh, st) => tail env sh st := by
  unfold Editor.processKey dispatch preamble tail
  cases e.state <;> rfl

/-- auto-commit either does nothing or reports *commit* -/
theorem tryAutoCommit_last {sh sh2 : Shared D L} (h : Shared.tryAutoCommit env sh = .ok sh2) :
    sh2 = sh ∨ sh2.last = .commit := by
  unfold Shared.tryAutoCommit at h
  simp only at h
  split at h
  · cases h; exact Or.inl rfl
  · repeat' split at h
    all_goals first | (cases h; exact Or.inr rfl) | cases h

/-- the flush keeps `last` -/
theorem flush_last (sh : Shared D L) :
    (if sh.dirty > 0 then { sh with dict := env.reopenFlush sh.dict, dirty := 0 } else sh).last = sh.last := by
  split <;> rfl

/-- the tail of `process_keyevent` cannot turn another result into *ignore* or *bell*, and leaves an
    ignored / belled step's state alone except for flushing a dirty dictionary -/
theorem tail_keeps {sh : Shared D L} {st : St} {e' : Editor D L} {b : KB}
    (h : tail env sh st = .ok (e', b)) (hb : b = .ignore ∨ b = .bell) :
    sh.last = b ∧ e'.state = st ∧
      e'.shared = if sh.dirty > 0 then { sh with dict := env.reopenFlush sh.dict, dirty := 0 } else sh := by
  unfold tail at h
  by_cases hc : ((st == .entering || st == .enteringSyllable) && sh.last == .absorb) = true
  · rw [if_pos hc] at h
    cases hr : Shared.tryAutoCommit env sh with
    | ok sh2 =>
      rw [hr] at h; simp only at h
      injection h with h; injection h with h1 h2
      rw [flush_last] at h2
      simp only [Bool.and_eq_true] at hc
      have habs : sh.last = .absorb := eq_of_beq hc.2
      rcases tryAutoCommit_last env hr with rfl | hcm
      · rw [habs] at h2; rcases hb with rfl | rfl <;> cases h2
      · rw [hcm] at h2; rcases hb with rfl | rfl <;> cases h2
    | panic p => rw [hr] at h; cases h
    | outOfFuel => rw [hr] at h; cases h
  · rw [if_neg hc] at h
    simp only at h
    injection h with h; injection h with h1 h2
    rw [flush_last] at h2
    exact ⟨h2, by rw [← h1], by rw [← h1]⟩

/-- **C06, ignore.**  A key reported as *ignored* changes nothing: the state, the whole composition
    editor, the phonetic buffer, every option, the engine and the chosen alternative are exactly as
    before; the per-key outputs are reset as for every key; a dirty user dictionary is flushed. -/
theorem ignore_frame {e e' : Editor D L} {ev : KeyEvent}
    (h : e.processKey env ev = .ok (e', .ignore)) :
    e'.state = e.state ∧
    e'.shared = (if (preamble e.shared).dirty > 0
      then { preamble e.shared with last := .ignore, dict := env.reopenFlush (preamble e.shared).dict, dirty := 0 }
      else { preamble e.shared with last := .ignore }) := by
  rw [processKey_eq] at h
  cases hd : dispatch env e ev with
  | ok x =>
    obtain ⟨sh, st⟩ := x
    rw [hd] at h; simp only at h
    obtain ⟨hl, hst, hsh⟩ := tail_keeps env h (Or.inl rfl)
    obtain ⟨h1, h2⟩ := (dispatch_frame env hd).1 hl
    refine ⟨by rw [hst, h2], ?_⟩
    rw [hsh, h1]
  | panic p => rw [hd] at h; cases h
  | outOfFuel => rw [hd] at h; cases h

theorem preamble_fields (sh : Shared D L) :
    (preamble sh).com = sh.com ∧ (preamble sh).syl = sh.syl ∧ (preamble sh).options = sh.options ∧
    (preamble sh).engine = sh.engine ∧ (preamble sh).nth = sh.nth ∧ (preamble sh).noticeBuf = [] ∧
    (preamble sh).dict = sh.dict ∧ (preamble sh).dirty = sh.dirty ∧ (preamble sh).commitBuf = [] :=
  ⟨rfl, rfl, rfl, rfl, rfl, rfl, rfl, rfl, rfl⟩

/-- the persistent observables are untouched by an ignored key (corollary in field form) -/
theorem ignore_persistent {e e' : Editor D L} {ev : KeyEvent}
    (h : e.processKey env ev = .ok (e', .ignore)) :
    e'.state = e.state ∧ e'.shared.com = e.shared.com ∧ e'.shared.syl = e.shared.syl ∧
    e'.shared.options = e.shared.options ∧ e'.shared.engine = e.shared.engine ∧
    e'.shared.nth = e.shared.nth ∧ e'.shared.noticeBuf = [] ∧ e'.shared.commitBuf = [] ∧
    (e'.shared.dict = e.shared.dict ∨ (0 < e.shared.dirty ∧ e'.shared.dict = env.reopenFlush e.shared.dict)) := by
  obtain ⟨hst, hsh⟩ := ignore_frame env h
  obtain ⟨p1, p2, p3, p4, p5, p6, p7, p8, p9⟩ := preamble_fields e.shared
  rw [hsh]
  by_cases hdirty : (preamble e.shared).dirty > 0
  · rw [if_pos hdirty]
    exact ⟨hst, p1, p2, p3, p4, p5, p6, p9, Or.inr ⟨by rw [← p8]; exact hdirty, by rw [p7]⟩⟩
  · rw [if_neg hdirty]
    exact ⟨hst, p1, p2, p3, p4, p5, p6, p9, Or.inl p7⟩

/-! ### an ignored key and the open candidate list

`ignore_frame` is about the WHOLE state value `e.state : St`: for an open list that is the page number, the action
(insert / replace) and the selector itself (phrase range, direction, strategy and the copy of the buffer it works
on; the symbol table's sub-menu; the symbol of a special-symbol list), and about the whole shared state apart from
the documented volatile fields (`last` = the answer, the per-key outputs `commitBuf` / `noticeBuf` reset to empty,
the clock `time`, and `dict` / `dirty` when a pending flush is carried out).  The corollaries below spell this out
for the open list and for what the candidate getters (`Model/Candidates.lean`) answer. -/

/-- an ignored key leaves an open list exactly as it was: same page, same action, same selector -/
theorem ignore_keeps_open_list {e e' : Editor D L} {ev : KeyEvent}
    (h : e.processKey env ev = .ok (e', .ignore)) (s : Selecting) (hs : e.state = .selecting s) :
    e'.state = .selecting s ∧
    (∀ s', e'.state = .selecting s' → s'.pageNo = s.pageNo ∧ s'.action = s.action ∧ s'.sel = s.sel) := by
  have h1 := (ignore_frame env h).1
  rw [hs] at h1
  refine ⟨h1, fun s' hs' => ?_⟩
  rw [h1] at hs'; injection hs' with hs'; subst hs'; exact ⟨rfl, rfl, rfl⟩

/-- … and never opens or closes one -/
theorem ignore_keeps_list_closed {e e' : Editor D L} {ev : KeyEvent}
    (h : e.processKey env ev = .ok (e', .ignore)) (hs : ∀ s, e.state ≠ .selecting s) :
    ∀ s, e'.state ≠ .selecting s := by
  intro s; rw [(ignore_frame env h).1]; exact hs s

/-- reopening + flushing the dictionary `d` does not change what lookups answer (C09 / C10 prove this of the
    real dictionaries; here it is a premise, needed only when a flush is pending) -/
def FlushNeutralAt (d : D) : Prop :=
  ∀ k st, env.lookupAll (env.reopenFlush d) k st = env.lookupAll d k st

/-- the candidates of a list depend on the dictionary only through its lookup answers -/
theorem candidates_dict_congr (s : Selecting) {sh sh' : Shared D L} (hsyl : sh'.syl = sh.syl)
    (hd : ∀ k st, env.lookupAll sh'.dict k st = env.lookupAll sh.dict k st) :
    Selecting.candidates env s sh' = Selecting.candidates env s sh := by
  unfold Selecting.candidates
  cases s.sel with
  | phrase p => simp only [PhraseSel.candidates, hd, hsyl]
  | symbol y => rfl
  | special sym => rfl

/-- the shared state after an ignored key, as far as the candidate getters read it -/
theorem ignore_getter_inputs {e e' : Editor D L} {ev : KeyEvent}
    (h : e.processKey env ev = .ok (e', .ignore))
    (hfl : 0 < e.shared.dirty → FlushNeutralAt env e.shared.dict) :
    e'.shared.syl = e.shared.syl ∧ e'.shared.options = e.shared.options ∧
    (∀ k st, env.lookupAll e'.shared.dict k st = env.lookupAll e.shared.dict k st) := by
  obtain ⟨_, _, hsyl, hopt, _, _, _, _, hdict⟩ := ignore_persistent env h
  refine ⟨hsyl, hopt, fun k st => ?_⟩
  rcases hdict with hd | ⟨hpos, hd⟩
  · rw [hd]
  · rw [hd]; exact hfl hpos k st

/-- **C06, ignore, as the getters see it.**  After an ignored key `current_page_no`, `all_candidates`,
    `paginated_candidates` and `total_page` (hence `chewing_cand_CurrentPage / TotalChoice / TotalPage /
    ChoicePerPage / Enumerate`) answer exactly what they answered before — for every environment; if a dictionary
    flush is pending (`dirty > 0`, which no key leaves behind) the flush must not change lookup answers. -/
theorem ignore_keeps_candidates {e e' : Editor D L} {ev : KeyEvent}
    (h : e.processKey env ev = .ok (e', .ignore))
    (hfl : 0 < e.shared.dirty → FlushNeutralAt env e.shared.dict) :
    e'.currentPageNo = e.currentPageNo ∧
    e'.allCandidates env = e.allCandidates env ∧
    e'.paginatedCandidates env = e.paginatedCandidates env ∧
    e'.totalPage env = e.totalPage env ∧
    CApi.currentPage e' = CApi.currentPage e ∧ CApi.choicePerPage e' = CApi.choicePerPage e ∧
    CApi.totalChoice env e' = CApi.totalChoice env e ∧ CApi.totalPage env e' = CApi.totalPage env e ∧
    CApi.enumerate env e' = CApi.enumerate env e := by
  have hst := (ignore_frame env h).1
  obtain ⟨hsyl, hopt, hd⟩ := ignore_getter_inputs env h hfl
  have hc : ∀ s, Selecting.candidates env s e'.shared = Selecting.candidates env s e.shared :=
    fun s => candidates_dict_congr env s hsyl hd
  have h1 : e'.currentPageNo = e.currentPageNo := by unfold Editor.currentPageNo; rw [hst]
  have h2 : e'.allCandidates env = e.allCandidates env := by
    unfold Editor.allCandidates; rw [hst]; cases e.state <;> simp only [hc]
  have h3 : e'.paginatedCandidates env = e.paginatedCandidates env := by
    unfold Editor.paginatedCandidates; rw [hst]; cases e.state <;> simp only [hc, hopt]
  have h4 : e'.totalPage env = e.totalPage env := by
    unfold Editor.totalPage Selecting.totalPage; rw [hst]; cases e.state <;> simp only [hc, hopt]
  refine ⟨h1, h2, h3, h4, ?_, ?_, ?_, ?_, ?_⟩
  · unfold CApi.currentPage; rw [h1]
  · unfold CApi.choicePerPage; rw [hopt]
  · unfold CApi.totalChoice; rw [h2]
  · unfold CApi.totalPage; rw [h4]
  · unfold CApi.enumerate; rw [h3]

/-- **C06, bell.**  A key answered with *bell* leaves pre-edit symbols, gaps, selections, cursor and
    saved cursors unchanged. -/
theorem bell_frame {e e' : Editor D L} {ev : KeyEvent}
    (h : e.processKey env ev = .ok (e', .bell)) : e'.shared.com = e.shared.com := by
  rw [processKey_eq] at h
  cases hd : dispatch env e ev with
  | ok x =>
    obtain ⟨sh, st⟩ := x
    rw [hd] at h; simp only at h
    obtain ⟨hl, _, hsh⟩ := tail_keeps env h (Or.inr rfl)
    rw [hsh]
    have := (dispatch_frame env hd).2 hl
    split <;> exact this
  | panic p => rw [hd] at h; cases h
  | outOfFuel => rw [hd] at h; cases h

/-! ### a bell and everything else the user can observe

`bell_frame` is about the composition editor only.  Below: the WHOLE state value and the whole shared state after a
key answered *bell*, exactly (`bell_effect`), and the user-visible corollary `bell_keeps_display`: state kind, open
list (selector, range, page, action), pre-edit, cursor and saved cursors, chosen alternative, options, engine, the
displayed text and every candidate getter answer as before — for every environment and every state of all four kinds.
The two things a bell does change are named arm by arm (`Proofs/EditorBell.lean`): the layout's own state after a key
it rejected (the arms that ask the layout first), and the notification of a failed Ctrl-digit "add phrase". -/

/-- the shared state right after the state machine answered *bell* (before the dictionary flush): the pre-state
    after the preamble, except `last`, and — only in the named arms — the phonetic buffer and the notification -/
structure BellEffect (e : Editor D L) (ev : KeyEvent) (sh : Shared D L) : Prop where
  rest : sh = { preamble e.shared with last := .bell, syl := sh.syl, noticeBuf := sh.noticeBuf }
  syl : sh.syl = e.shared.syl ∨
    (bellAsksLayout e.state e.shared ev = true ∧ rejected e.state (layoutAnswer env e.state e.shared ev).1 = true ∧
      sh.syl = (layoutAnswer env e.state e.shared ev).2)
  notice : sh.noticeBuf = [] ∨
    (bellMayNotify e.state ev = true ∧ (sh.noticeBuf = Shared.msgFail ∨ ∃ p, sh.noticeBuf = Shared.msgExists p))

/-- after the state's `next`: *bell* ⇒ the state value is the pre-state's and the shared state is as `BellEffect` says -/
theorem dispatch_bell {e : Editor D L} {ev : KeyEvent} {sh : Shared D L} {st : St}
    (h : dispatch env e ev = .ok (sh, st)) (hb : sh.last = .bell) :
    st = e.state ∧ BellEffect env e ev sh := by
  unfold dispatch at h
  split at h
  · -- Entering
    rename_i hs
    cases hr : enteringNext env (preamble e.shared) ev with
    | ok x =>
      obtain ⟨sh', t⟩ := x
      rw [hr] at h; simp only [Outcome.map] at h
      cases t with
      | toState s' => simp only [applyTrans] at h; cases h; simp at hb
      | spin b =>
        simp only [applyTrans] at h; cases h
        simp only at hb; subst hb
        obtain ⟨h1, h2, h3⟩ := bframe_enteringNext env (preamble e.shared) ev sh' _ hr rfl
        refine ⟨hs.symm, ?_, ?_, ?_⟩
        · exact congrArg (fun x : Shared D L => { x with last := KB.bell }) h1
        · rw [hs]; exact h2
        · rw [hs]; exact h3
    | panic p => rw [hr] at h; simp [Outcome.map] at h
    | outOfFuel => rw [hr] at h; simp [Outcome.map] at h
  · -- EnteringSyllable
    rename_i hs
    cases hr : enteringSyllableNext env (preamble e.shared) ev with
    | ok x =>
      obtain ⟨sh', t⟩ := x
      rw [hr] at h; simp only [Outcome.map] at h
      cases t with
      | toState s' => simp only [applyTrans] at h; cases h; simp at hb
      | spin b =>
        simp only [applyTrans] at h; cases h
        simp only at hb; subst hb
        obtain ⟨h1, h2, h3⟩ := bframe_enteringSyllableNext env (preamble e.shared) ev sh' _ hr rfl
        refine ⟨hs.symm, ?_, ?_, ?_⟩
        · exact congrArg (fun x : Shared D L => { x with last := KB.bell }) h1
        · rw [hs]; exact h2
        · rw [hs]; exact h3
    | panic p => rw [hr] at h; simp [Outcome.map] at h
    | outOfFuel => rw [hr] at h; simp [Outcome.map] at h
  · -- Selecting
    rename_i s hs
    cases hr : selectingNext env s (preamble e.shared) ev with
    | ok x =>
      rw [hr] at h; simp only [Outcome.map] at h
      cases ht : x.trans with
      | toState s' => rw [ht] at h; simp only [applyTrans] at h; cases h; simp at hb
      | spin b =>
        rw [ht] at h; simp only [applyTrans] at h; cases h
        simp only at hb; subst hb
        obtain ⟨h1, h2⟩ := bsel_selectingNext env s (preamble e.shared) ev x hr ht
        refine ⟨by rw [h2, hs], ?_, ?_, ?_⟩
        · rw [h1]
        · rw [h1]; exact Or.inl rfl
        · rw [h1]; exact Or.inl rfl
    | panic p => rw [hr] at h; simp [Outcome.map] at h
    | outOfFuel => rw [hr] at h; simp [Outcome.map] at h
  · -- Highlighting
    rename_i m hs
    cases hr : highlightingNext env m (preamble e.shared) ev with
    | ok x =>
      obtain ⟨sh', m', t⟩ := x
      rw [hr] at h; simp only [Outcome.map] at h
      have hf := (highlighting_no_ignore_bell env m (preamble e.shared) ev).elim hr
      simp only at hf
      cases t with
      | toState s' => simp only [applyTrans] at h; cases h; simp at hb
      | spin b =>
        simp only [applyTrans] at h; cases h
        simp only at hb; subst hb; exact absurd rfl hf.2
    | panic p => rw [hr] at h; simp [Outcome.map] at h
    | outOfFuel => rw [hr] at h; simp [Outcome.map] at h

/-- **C06, bell, exactly.**  A key answered with *bell* leaves the state value as it was (state kind; for an open
    list its selector, range, action and page; for a highlight its mark), and the shared state is the pre-state
    after the preamble (per-key outputs reset, clock ticked) with `last = bell`, up to the two named effects and
    the flush of a dirty dictionary. -/
theorem bell_effect {e e' : Editor D L} {ev : KeyEvent}
    (h : e.processKey env ev = .ok (e', .bell)) :
    e'.state = e.state ∧
    ∃ sh, BellEffect env e ev sh ∧
      e'.shared = if sh.dirty > 0 then { sh with dict := env.reopenFlush sh.dict, dirty := 0 } else sh := by
  rw [processKey_eq] at h
  cases hd : dispatch env e ev with
  | ok x =>
    obtain ⟨sh, st⟩ := x
    rw [hd] at h; simp only at h
    obtain ⟨hl, hst, hsh⟩ := tail_keeps env h (Or.inr rfl)
    obtain ⟨h1, h2⟩ := dispatch_bell env hd hl
    exact ⟨by rw [hst, h1], sh, h2, hsh⟩
  | panic p => rw [hd] at h; cases h
  | outOfFuel => rw [hd] at h; cases h

/-- the persistent fields after a bell (corollary in field form) -/
theorem bell_persistent {e e' : Editor D L} {ev : KeyEvent}
    (h : e.processKey env ev = .ok (e', .bell)) :
    e'.state = e.state ∧ e'.shared.com = e.shared.com ∧ e'.shared.options = e.shared.options ∧
    e'.shared.engine = e.shared.engine ∧ e'.shared.nth = e.shared.nth ∧ e'.shared.abbr = e.shared.abbr ∧
    e'.shared.symSel = e.shared.symSel ∧ e'.shared.commitBuf = [] ∧
    (e'.shared.dict = e.shared.dict ∨ (0 < e.shared.dirty ∧ e'.shared.dict = env.reopenFlush e.shared.dict)) ∧
    (e'.shared.syl = e.shared.syl ∨
      (bellAsksLayout e.state e.shared ev = true ∧ rejected e.state (layoutAnswer env e.state e.shared ev).1 = true ∧
        e'.shared.syl = (layoutAnswer env e.state e.shared ev).2)) ∧
    (e'.shared.noticeBuf = [] ∨
      (bellMayNotify e.state ev = true ∧
        (e'.shared.noticeBuf = Shared.msgFail ∨ ∃ p, e'.shared.noticeBuf = Shared.msgExists p))) := by
  obtain ⟨hst, sh, hE, hsh⟩ := bell_effect env h
  have hr := hE.rest
  have c1 : sh.com = e.shared.com := by have := congrArg Shared.com hr; exact this
  have c2 : sh.options = e.shared.options := by have := congrArg Shared.options hr; exact this
  have c3 : sh.engine = e.shared.engine := by have := congrArg Shared.engine hr; exact this
  have c4 : sh.nth = e.shared.nth := by have := congrArg Shared.nth hr; exact this
  have c5 : sh.abbr = e.shared.abbr := by have := congrArg Shared.abbr hr; exact this
  have c6 : sh.symSel = e.shared.symSel := by have := congrArg Shared.symSel hr; exact this
  have c7 : sh.commitBuf = [] := by have := congrArg Shared.commitBuf hr; exact this
  have c8 : sh.dict = e.shared.dict := by have := congrArg Shared.dict hr; exact this
  have c9 : sh.dirty = e.shared.dirty := by have := congrArg Shared.dirty hr; exact this
  rw [hsh]
  by_cases hdirty : sh.dirty > 0
  · rw [if_pos hdirty]
    exact ⟨hst, c1, c2, c3, c4, c5, c6, c7, Or.inr ⟨by rw [← c9]; exact hdirty, by simp only [c8]⟩, hE.syl, hE.notice⟩
  · rw [if_neg hdirty]
    exact ⟨hst, c1, c2, c3, c4, c5, c6, c7, Or.inl c8, hE.syl, hE.notice⟩

/-- reopening + flushing the dictionary `d` does not change what the conversion engines answer (needed only when a
    flush is pending, which no key leaves behind) -/
def ConvFlushNeutralAt (d : D) : Prop :=
  ∀ k c, env.convert k (env.reopenFlush d) c = env.convert k d c

/-- what the user can observe of the pre-edit, the cursor and an open list, before (`e`) and after (`e'`) -/
structure SameView (e e' : Editor D L) : Prop where
  /-- state kind; an open list's selector (phrase range, direction, …), action and page; a highlight's mark -/
  state : e'.state = e.state
  /-- symbols, gaps, selections, cursor and saved cursors -/
  com : e'.shared.com = e.shared.com
  /-- the chosen conversion alternative -/
  nth : e'.shared.nth = e.shared.nth
  options : e'.shared.options = e.shared.options
  engine : e'.shared.engine = e.shared.engine
  /-- the conversion and the displayed pre-edit text -/
  conversion : Shared.conversion env e'.shared = Shared.conversion env e.shared
  display : Shared.display env e'.shared = Shared.display env e.shared
  /-- the candidate getters -/
  pageNo : e'.currentPageNo = e.currentPageNo
  all : e'.allCandidates env = e.allCandidates env
  paginated : e'.paginatedCandidates env = e.paginatedCandidates env
  totalPage : e'.totalPage env = e.totalPage env

/-- **C06, bell, as the user sees it.**  For every environment, every state (all four kinds) and every key answered
    with *bell*: state kind, open list (selector, range, action, page), pre-edit, cursor, saved cursors, chosen
    alternative, options and engine are unchanged, `display()` shows the same text and `current_page_no`,
    `all_candidates`, `paginated_candidates`, `total_page` answer the same.  (If a dictionary flush is pending —
    `dirty > 0`, which no key leaves behind — the flush must not change lookup / conversion answers.) -/
theorem bell_keeps_display {e e' : Editor D L} {ev : KeyEvent}
    (h : e.processKey env ev = .ok (e', .bell))
    (hfl : 0 < e.shared.dirty → FlushNeutralAt env e.shared.dict ∧ ConvFlushNeutralAt env e.shared.dict) :
    SameView env e e' := by
  obtain ⟨hst, hcom, hopt, heng, hnth, _, _, _, hdict, hsyl, _⟩ := bell_persistent env h
  have hconv : ∀ c, env.convert e'.shared.engine e'.shared.dict c = env.convert e.shared.engine e.shared.dict c := by
    intro c
    rcases hdict with hd | ⟨hpos, hd⟩
    · rw [hd, heng]
    · rw [hd, heng]; exact (hfl hpos).2 _ c
  have hlook : ∀ k st, env.lookupAll e'.shared.dict k st = env.lookupAll e.shared.dict k st := by
    intro k st
    rcases hdict with hd | ⟨hpos, hd⟩
    · rw [hd]
    · rw [hd]; exact (hfl hpos).1 k st
  have hcv : Shared.conversion env e'.shared = Shared.conversion env e.shared := by
    unfold Shared.conversion; rw [hconv, hcom, hnth]
  -- an open list: the arms that ask the layout are not `Selecting` arms, so the phonetic buffer is the same there
  have hc : ∀ s, e.state = .selecting s →
      Selecting.candidates env s e'.shared = Selecting.candidates env s e.shared := by
    intro s hs
    refine candidates_dict_congr env s ?_ hlook
    rcases hsyl with h1 | ⟨h1, _⟩
    · exact h1
    · rw [hs] at h1; cases h1
  have h1 : e'.currentPageNo = e.currentPageNo := by unfold Editor.currentPageNo; rw [hst]
  have h2 : e'.allCandidates env = e.allCandidates env := by
    unfold Editor.allCandidates; rw [hst]
    cases hs : e.state <;> first | rfl | simp only [hc _ hs]
  have h3 : e'.paginatedCandidates env = e.paginatedCandidates env := by
    unfold Editor.paginatedCandidates; rw [hst]
    cases hs : e.state <;> first | rfl | simp only [hc _ hs, hopt]
  have h4 : e'.totalPage env = e.totalPage env := by
    unfold Editor.totalPage Selecting.totalPage; rw [hst]
    cases hs : e.state <;> first | rfl | simp only [hc _ hs, hopt]
  exact ⟨hst, hcom, hnth, hopt, heng, hcv, by unfold Shared.display; rw [hcv], h1, h2, h3, h4⟩

/-- the C-level getters after a bell (corollary) -/
theorem bell_keeps_capi_getters {e e' : Editor D L} {ev : KeyEvent}
    (h : e.processKey env ev = .ok (e', .bell))
    (hfl : 0 < e.shared.dirty → FlushNeutralAt env e.shared.dict ∧ ConvFlushNeutralAt env e.shared.dict) :
    CApi.currentPage e' = CApi.currentPage e ∧ CApi.choicePerPage e' = CApi.choicePerPage e ∧
    CApi.totalChoice env e' = CApi.totalChoice env e ∧ CApi.totalPage env e' = CApi.totalPage env e ∧
    CApi.enumerate env e' = CApi.enumerate env e := by
  have v := bell_keeps_display env h hfl
  refine ⟨?_, ?_, ?_, ?_, ?_⟩
  · unfold CApi.currentPage; rw [v.pageNo]
  · unfold CApi.choicePerPage; rw [v.options]
  · unfold CApi.totalChoice; rw [v.all]
  · unfold CApi.totalPage; rw [v.totalPage]
  · unfold CApi.enumerate; rw [v.paginated]

/-! #### the phonetic buffer after a bell

The arms that hand the key to the phonetic layout before they bell keep whatever state the layout is in after the
rejected key.  The editor's code does not undo it, so "the phonetic buffer is unchanged by a bell" is a fact about
the LAYOUT (it must not change state on a key it rejects), not about the editor: over the model's arbitrary
environment the unconditional statement is false (`bell_keeps_phonetic_anyLayout_refuted`), and it holds exactly
under `LayoutQuietAt` (`bell_keeps_phonetic`).  On the shipped layouts the harness oracle checks it on every step
answered with a bell. -/

/-- the layout, asked by the arm that went on to bell, left its state alone when it rejected this key -/
def LayoutQuietAt (e : Editor D L) (ev : KeyEvent) : Prop :=
  bellAsksLayout e.state e.shared ev = true → rejected e.state (layoutAnswer env e.state e.shared ev).1 = true →
    (layoutAnswer env e.state e.shared ev).2 = e.shared.syl

/-- full statement: a bell never changes the phonetic buffer, whatever the layout -/
def BellKeepsPhoneticAnyLayout : Prop :=
  ∀ {D L : Type} (env : Env D L) (e e' : Editor D L) (ev : KeyEvent),
    e.processKey env ev = .ok (e', .bell) → e'.shared.syl = e.shared.syl

/-- partial statement: … whenever the layout does not change state on the key it rejects -/
theorem bell_keeps_phonetic {e e' : Editor D L} {ev : KeyEvent}
    (h : e.processKey env ev = .ok (e', .bell)) (hq : LayoutQuietAt env e ev) :
    e'.shared.syl = e.shared.syl := by
  obtain ⟨_, _, _, _, _, _, _, _, _, hsyl, _⟩ := bell_persistent env h
  rcases hsyl with h1 | ⟨h1, h2, h3⟩
  · exact h1
  · rw [h3]; exact hq h1 h2

/-- … and outside the arms that ask the layout (an open list, a highlight, `Entering` in English mode or with a
    modifier) unconditionally -/
theorem bell_keeps_phonetic_of_not_asked {e e' : Editor D L} {ev : KeyEvent}
    (h : e.processKey env ev = .ok (e', .bell)) (hn : bellAsksLayout e.state e.shared ev = false) :
    e'.shared.syl = e.shared.syl :=
  bell_keeps_phonetic env h (fun h1 => by rw [hn] at h1; cases h1)

/-- the notification after a bell is empty except after Ctrl + digit in `Entering` -/
theorem bell_notice_empty {e e' : Editor D L} {ev : KeyEvent}
    (h : e.processKey env ev = .ok (e', .bell)) (hn : bellMayNotify e.state ev = false) :
    e'.shared.noticeBuf = [] := by
  obtain ⟨_, _, _, _, _, _, _, _, _, _, hno⟩ := bell_persistent env h
  rcases hno with h1 | ⟨h1, _⟩
  · exact h1
  · rw [hn] at h1; cases h1

/-- the keys the property names: Enter, Esc, Tab, Backspace, Delete, arrows, Home, End, PageUp, PageDown -/
def IdleKey (c : Nat) : Prop :=
  c = KC.enter ∨ c = KC.esc ∨ c = KC.tab ∨ c = KC.backspace ∨ c = KC.del ∨ c = KC.left ∨ c = KC.right ∨
  c = KC.up ∨ c = KC.down ∨ c = KC.home ∨ c = KC.end_ ∨ c = KC.pageUp ∨ c = KC.pageDown

theorem entering_idle {sh : Shared D L} {ev : KeyEvent} (hempty : sh.com.isEmpty = true)
    (hcur : sh.com.cursor ≤ sh.com.len) (hk : IdleKey ev.code) :
    enteringNext env sh ev = .ok (sh, .spin .ignore) := by
  have hlen : sh.com.inner.len = 0 := by
    simpa [CompEditor.isEmpty, Composition.isEmpty] using hempty
  have hc0 : sh.com.cursor = 0 := by
    simp only [CompEditor.len] at hcur; omega
  have heob : sh.com.isEob = true := by
    simp [CompEditor.isEob, hlen, hc0]
  unfold enteringNext IdleKey at *
  rcases hk with h | h | h | h | h | h | h | h | h | h | h | h | h <;>
    simp [h, KC.enter, KC.esc, KC.tab, KC.backspace, KC.del, KC.left, KC.right, KC.up, KC.down, KC.home,
      KC.end_, KC.pageUp, KC.pageDown, KC.unknown, isDigitCode, isIdleKey, hempty, heob,
      enteringBackspace, enteringDel]

/-- **C06, pass-through.**  With nothing being composed (state `Entering`, empty pre-edit) each of the
    thirteen named keys, with any modifiers, is reported as *ignored* — and by `ignore_frame` nothing
    changes and nothing is committed. -/
theorem idle_passthrough {e : Editor D L} {ev : KeyEvent} (hs : e.state = .entering)
    (hempty : e.shared.com.isEmpty = true) (hcur : e.shared.com.cursor ≤ e.shared.com.len)
    (hk : IdleKey ev.code) :
    ∃ e', e.processKey env ev = .ok (e', .ignore) := by
  have hp := preamble_fields e.shared
  have h1 : enteringNext env (preamble e.shared) ev = .ok (preamble e.shared, .spin .ignore) :=
    entering_idle env (by rw [hp.1]; exact hempty) (by rw [hp.1]; exact hcur) hk
  rw [processKey_eq]
  unfold dispatch
  rw [hs]
  simp only [h1, Outcome.map, applyTrans, tail]
  have : (KB.ignore == KB.absorb) = false := by decide
  simp only [this, Bool.and_false, Bool.false_eq_true, if_false]
  split <;> exact ⟨_, rfl⟩

/-! ### F37: both buffers empty does not imply `Entering` (known finding) -/

/-- a minimal environment: the layout absorbs key `H` (code 32) into a one-key buffer and rejects
    everything else; no dictionary, no conversion -/
def toyEnv : Env Unit Nat where
  lookupAll _ _ _ := []
  userLookupAll _ _ _ := []
  addPhrase _ _ _ := some ()
  updatePhrase _ _ _ _ _ := ()
  removePhrase _ _ _ := ()
  reopenFlush _ := ()
  convert _ _ _ := .ok [[]]
  estimate _ f _ := .ok f
  keyPress l ev := if ev.code = 32 then (.absorb, 1) else (.keyError, l)
  fuzzyKeyPress l ev := if ev.code = 32 then (.absorb, 1) else (.keyError, l)
  removeLast _ := 0
  clearSyl _ := 0
  sylIsEmpty l := l == 0
  read l := l
  altSyllables _ _ := []

def toyEditor : Editor Unit Nat := { shared := { syl := 0, dict := () } }

/-- the former counter-example (F37): type `h`, clear the phonetic buffer through the API, press Enter.
    On the repaired code the editor is back in `Entering` and Enter is ignored. -/
theorem f37_history_now_ignored :
    ∃ (e : Editor Unit Nat) (e' : Editor Unit Nat),
      toyEditor.run toyEnv [.key { index := 32, code := 32, unicode := 104 }, .clearSyl] = .ok e ∧
      e.state = .entering ∧
      e.processKey toyEnv { index := 50, code := KC.enter, unicode := 65533 } = .ok (e', .ignore) := by
  refine ⟨_, _, rfl, ?_, rfl⟩; decide

/-! ### non-vacuity -/

example : ∃ e', toyEditor.processKey toyEnv { index := 50, code := KC.enter, unicode := 65533 } = .ok (e', .ignore) :=
  idle_passthrough toyEnv rfl (by decide) (by decide) (Or.inl rfl)

/-- an editor whose symbol table has three entries, shown one per page -/
def pagedEditor : Editor Unit Nat :=
  { shared := { syl := 0, dict := (), options := { candidatesPerPage := 1 },
                symSel := { category := [([8230], none), ([8251], none), ([65292], none)] } } }

def keyGrave : KeyEvent := { index := 14, code := KC.grave, unicode := 96 }
def keyRight : KeyEvent := { index := 55, code := KC.right, unicode := 65533 }
def keyJ : KeyEvent := { index := 33, code := KC.j, unicode := 106 }
def keyK : KeyEvent := { index := 34, code := KC.k, unicode := 107 }

/-- the history behind the seeded change "ignored j / k resets the page": the symbol table opened on an EMPTY
    buffer, paged forward once; `j` (and `k`) is ignored there and the list is still on page 1 of 3 -/
theorem ignored_j_on_second_page :
    ∃ (e e' : Editor Unit Nat),
      pagedEditor.run toyEnv [.key keyGrave, .key keyRight] = .ok e ∧
      e.shared.com.isEmpty = true ∧ e.currentPageNo = some 1 ∧ e.totalPage toyEnv = .ok (some 3) ∧
      e.processKey toyEnv keyJ = .ok (e', .ignore) ∧
      e'.currentPageNo = some 1 ∧ e'.totalPage toyEnv = .ok (some 3) ∧
      e'.paginatedCandidates toyEnv = .ok (some [[8251], [65292]]) := by
  refine ⟨_, _, rfl, ?_, ?_, ?_, rfl, ?_, ?_, ?_⟩ <;> decide

example : ∃ e e', pagedEditor.run toyEnv [.key keyGrave, .key keyRight] = .ok e ∧
    e.processKey toyEnv keyK = .ok (e', .ignore) ∧ e'.currentPageNo = some 1 := by
  refine ⟨_, _, rfl, rfl, ?_⟩; decide

/-- `ignore_keeps_candidates` applies to it (its premises hold: the key is ignored, no flush is pending) -/
example (e e' : Editor Unit Nat) (_ : pagedEditor.run toyEnv [.key keyGrave, .key keyRight] = .ok e)
    (h : e.processKey toyEnv keyJ = .ok (e', .ignore)) :
    e'.currentPageNo = e.currentPageNo ∧ e'.paginatedCandidates toyEnv = e.paginatedCandidates toyEnv :=
  have hk := ignore_keeps_candidates toyEnv h (fun _ _ _ => rfl)
  ⟨hk.1, hk.2.2.1⟩

/-! ### bell: witnesses and non-vacuity -/

/-- a layout that counts the keys it rejects: `H` (code 32) is absorbed, every other key is a key error AND moves
    the layout state on -/
def countingEnv : Env Unit Nat :=
  { toyEnv with keyPress := fun l ev => if ev.code = 32 then (.absorb, 1) else (.keyError, l + 1) }

/-- a key no arm has a use for: no character, no modifiers -/
def keyNoChar : KeyEvent := { index := 0, code := KC.unknown, unicode := 65533 }

/-- the unconditional statement about the phonetic buffer is false over arbitrary layouts: the counting layout
    rejects the key (key error), the editor bells and keeps the layout's new state -/
theorem bell_keeps_phonetic_anyLayout_refuted : ¬ BellKeepsPhoneticAnyLayout := by
  intro hall
  have h : (1 : Nat) = 0 := hall countingEnv toyEditor _ keyNoChar rfl
  cases h

/-- … and that is exactly the excluded class: `LayoutQuietAt` fails there -/
example : ¬ LayoutQuietAt countingEnv toyEditor keyNoChar := by
  intro h; have := h rfl rfl; cases this

/-- `Entering`: a key without a character is answered with a bell (layout asked, key rejected) -/
example : ∃ e', toyEditor.processKey toyEnv keyNoChar = .ok (e', .bell) ∧
    bellAsksLayout toyEditor.state toyEditor.shared keyNoChar = true ∧ LayoutQuietAt toyEnv toyEditor keyNoChar :=
  ⟨_, rfl, rfl, fun _ _ => rfl⟩

/-- `EnteringSyllable`: `h` typed, then a key the layout rejects: bell, and `bell_keeps_display` /
    `bell_keeps_phonetic` apply -/
example : ∃ e e', toyEditor.run toyEnv [.key { index := 32, code := 32, unicode := 104 }] = .ok e ∧
    e.state = .enteringSyllable ∧ e.processKey toyEnv keyNoChar = .ok (e', .bell) ∧
    SameView toyEnv e e' ∧ e'.shared.syl = e.shared.syl := by
  refine ⟨_, _, rfl, by decide, rfl, ?_, ?_⟩
  · exact bell_keeps_display toyEnv (ev := keyNoChar) rfl (fun hd => absurd hd (by decide))
  · exact bell_keeps_phonetic toyEnv (ev := keyNoChar) rfl (fun _ _ => rfl)

/-- an open list on its second page: Shift + `j` is answered with a bell; same list, same page, same candidates -/
example : ∃ e e', pagedEditor.run toyEnv [.key keyGrave, .key keyRight] = .ok e ∧
    e.processKey toyEnv { keyJ with mods := { shift := true } } = .ok (e', .bell) ∧
    e'.currentPageNo = some 1 ∧ e'.paginatedCandidates toyEnv = .ok (some [[8251], [65292]]) := by
  refine ⟨_, _, rfl, rfl, ?_, ?_⟩ <;> decide

/-- … a digit without a candidate on that page (one candidate per page, page 1 of 3, key `3`) bells too -/
example : ∃ e e', pagedEditor.run toyEnv [.key keyGrave, .key keyRight] = .ok e ∧
    e.processKey toyEnv { index := 3, code := 3, unicode := 51 } = .ok (e', .bell) ∧
    SameView toyEnv e e' ∧ e'.currentPageNo = some 1 := by
  refine ⟨_, _, rfl, rfl, ?_, ?_⟩
  · exact bell_keeps_display toyEnv (ev := { index := 3, code := 3, unicode := 51 }) rfl (fun hd => absurd hd (by decide))
  · decide

/-- Ctrl + 2 on an empty buffer: "add phrase" fails, bell WITH the notification (the one arm of `bellMayNotify`) -/
example : ∃ e', toyEditor.processKey toyEnv { index := 2, code := 2, unicode := 50, mods := { ctrl := true } } =
      .ok (e', .bell) ∧ e'.shared.noticeBuf = Shared.msgFail ∧
    bellMayNotify toyEditor.state { index := 2, code := 2, unicode := 50, mods := { ctrl := true } } = true :=
  ⟨_, rfl, rfl, rfl⟩

end Chewing.C06
