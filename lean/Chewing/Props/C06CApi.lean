import Chewing.Model.CApiOps
import Chewing.Props.C06
import Chewing.Props.C02
import Chewing.Props.C01
/-!
# C06 / C01 / C07 at the C API: the call glue of `capi/src/io.rs` inside the model

`Model/CApiOps.lean` interprets the tables `Chewing.Gen.CApiKeys`, regenerated from `capi/src/io.rs` on every run
(`tools/extractors/capi_keys.py`, fail closed).  This file

1. compares the generated tables with the DOCUMENTED meaning of every call, written here by hand from
   `doc/libchewing.texi` / `include/chewing.h` (`handler_table_documented`, `selkey_remap_documented`,
   `ctrlnum_table_documented`, `api_table_documented`, `narrowing_documented`, `key_getters_documented`): a source
   change to a handler changes the generated table and breaks the comparison;
2. proves, for ALL contexts and every environment, what each C call does to the editor and what it returns
   (`named_handler`, `dblTab_nothing`, `ctrlNum_*`, `default_*`, `numlock_*`, `selkey_*`, `translate_<api call>`);
3. lifts the editor theorems: `C_step` / `C_run` (no history of C calls panics or hangs, from `C01.C01_step`),
   `C_idle_passthrough` (C06's pass-through clause on the C observations), `C_result_exclusive` (exactly one of
   ignore / absorb / commit / bell on the C getters, from `C06.result_exclusive` + `C02.commit_string_iff_result`),
   `selkey_chooses_position` (C07 "choosing i").

A keyboard is valid (`KbValid`) when it is one of the eight `AnyKeyboardLayout` variants of `Model/Keyboard.lean`
(what `chewing_new2` / `chewing_set_KBType` / `chewing_config_set_str` install).
-/
namespace Chewing.C06CApi
open Chewing Chewing.CApi Chewing.Gen Chewing.Gen.CApiKeys

/-! ## 1. the generated tables against the documented meaning -/

/-- shift = 1, ctrl = 2, capslock = 4, numlock = 8 -/
def mShift : Nat := 1
def mCtrl : Nat := 2
def mCaps : Nat := 4

/-- **documented meaning** of the named handlers (doc/libchewing.texi, "Input Handling"): the key and the modifier
    held; `none` = the call processes no key (`chewing_handle_DblTab`: "not implemented") -/
def documented : Handler → Option (Nat × Nat)
  | .space => some (KC.space, 0)
  | .esc => some (KC.esc, 0)
  | .enter => some (KC.enter, 0)
  | .del => some (KC.del, 0)
  | .backspace => some (KC.backspace, 0)
  | .tab => some (KC.tab, 0)
  | .shiftLeft => some (KC.left, mShift)
  | .left => some (KC.left, 0)
  | .shiftRight => some (KC.right, mShift)
  | .right => some (KC.right, 0)
  | .up => some (KC.up, 0)
  | .home => some (KC.home, 0)
  | .end_ => some (KC.end_, 0)
  | .pageUp => some (KC.pageUp, 0)
  | .pageDown => some (KC.pageDown, 0)
  | .down => some (KC.down, 0)
  /- the Caps Lock key itself: no character, caps-lock state on -/
  | .capslock => some (KC.unknown, mCaps)
  | .shiftSpace => some (KC.space, mShift)
  | .dblTab => none

/-- a table row as the documentation reads: no key, or (code, modifiers); the map-function column is forgotten
    (`map(c)` = `map_with_mod(c, none)`) -/
def rowMeaning (r : Nat × Nat × Nat) : Option (Nat × Nat) :=
  if r.1 == 0 then none else if r.1 == 1 then some (r.2.1, 0) else some (r.2.1, r.2.2)

/-- the source has exactly the nineteen named handlers of the model, in the model's order -/
theorem handler_names : handlerTable.map (·.1) = Handler.all.map Handler.name := by decide

/-- **every named handler of the source means what the documentation says** (e.g. `chewing_handle_ShiftLeft` =
    Left + Shift, `chewing_handle_Capslock` = the Caps Lock key, `chewing_handle_DblTab` = no key) -/
theorem handler_table_documented : ∀ h : Handler, (handlerRow h.name).map rowMeaning = some (documented h) := by
  intro h; cases h <;> decide

/-- a `map` row carries no modifiers (so `map(c)` and `map_with_mod(c, none)` coincide in the table too) -/
theorem handler_map_rows_plain : handlerTable.all (fun r => r.2.1 != 1 || r.2.2.2 == 0) = true := by decide

/-- the digit byte of selection position `i`: '1' … '9', then '0' -/
def digitByte (i : Nat) : Nat := if i < 9 then 49 + i else 48

/-- the digit key code of selection position `i`: `N1` … `N9`, then `N0` -/
def digitCode (i : Nat) : Nat := if i < 9 then 1 + i else 10

/-- **documented selection-key remap**: only while a candidate list is open; position `i` stands for digit `i + 1`,
    the tenth for `0`; an index beyond the table (there is none: `sel_keys` has ten entries) would be `0` -/
theorem selkey_remap_documented :
    selKeyRemapGuarded = true ∧ selKeyRemap = (List.range 10).map (fun i => (i, digitByte i)) ∧
    selKeyRemapElse = 48 := by decide

/-- **documented `chewing_handle_CtrlNum`**: ASCII '0' … '9' → the digit key of that character, with Ctrl; anything
    else returns -1 -/
theorem ctrlnum_table_documented :
    ctrlNumTable = [(48, KC.n0), (49, 1), (50, 2), (51, 3), (52, 4), (53, 5), (54, 6), (55, 7), (56, 8), (57, 9)] ∧
    ctrlNumElse = -1 ∧ ctrlNumMods = mCtrl := by decide

/-- the three handlers with a `key` argument narrow it with `u8::try_from(key).unwrap_or(0)` (no truncation: FX2) -/
theorem narrowing_documented : narrowDefault = 0 ∧ narrowCtrlNum = 0 ∧ narrowNumlock = 0 := by decide

/-- **documented non-key calls**: guard, editor method, return rule -/
theorem api_table_documented :
    apiCalls =
      [("chewing_Reset", "", "clear", "", "ok"),
       ("chewing_ack", "", "ack", "", "ok"),
       ("chewing_cand_open", "", "start_selecting", "", "result"),
       /- "for backward compatible reason this method never errors" -/
       ("chewing_cand_close", "", "cancel_selecting", "", "never_fails"),
       ("chewing_cand_choose_by_index", "", "select", "as_usize", "result"),
       ("chewing_cand_list_first", "is_selecting", "jump_to_first_selection_point", "", "ok"),
       ("chewing_cand_list_last", "is_selecting", "jump_to_last_selection_point", "", "ok"),
       ("chewing_cand_list_next", "is_selecting", "jump_to_next_selection_point", "", "result"),
       ("chewing_cand_list_prev", "is_selecting", "jump_to_prev_selection_point", "", "result"),
       ("chewing_commit_preedit_buf", "", "commit", "", "result"),
       ("chewing_clean_preedit_buf", "is_entering", "clear", "", "ok"),
       ("chewing_clean_bopomofo_buf", "", "clear_syllable_editor", "", "ok")] := by decide

/-- the getters: CheckIgnore answers for `Ignore`, CheckAbsorb for `Absorb` -/
theorem key_getters_documented :
    keyGetters = [("chewing_keystroke_CheckIgnore", "Ignore"), ("chewing_keystroke_CheckAbsorb", "Absorb")] ∧
    okValue = 0 ∧ errorValue = -1 ∧ trueValue = 1 ∧ falseValue = 0 ∧ nullReturns = -1 := by decide

/-! ## 2. what each call does -/

/-- the eight keyboards -/
def allKeyboards : List String :=
  ["qwerty", "dvorak", "dvorak_on_qwerty", "qgmlwy", "colemak", "colemak_dh_ansi", "colemak_dh_orth", "workman"]

def KbValid (kb : String) : Prop := kb ∈ allKeyboards

/-- every generic keyboard of the source is in the list (plus `dvorak_on_qwerty`, the one special case) -/
theorem allKeyboards_cover : genericKeyboards.map (·.1) = allKeyboards.filter (· != "dvorak_on_qwerty") := by decide

/-- the key event of a key WITHOUT a character position of its own on any keyboard matrix: index = code, the
    character is Space's or none (U+FFFD) -/
def plainEvent (code mods : Nat) : KeyEvent :=
  ofKeyEv { index := code, code := code, unicode := if code == KC.space then 32 else 65533, mods := mods }

/-- the documented key event of a named handler -/
def docEvent (h : Handler) : Option KeyEvent := (documented h).map fun p => plainEvent p.1 p.2

/-- the glue of a named handler depends on the context only through the keyboard -/
def namedGlue (kb : String) (h : Handler) : Outcome Glue :=
  translate { isSelecting := false, isEntering := false, selKeys := [], kb := kb } (.named h)

theorem translate_named (f : Facts) (h : Handler) : translate f (.named h) = namedGlue f.kb h := rfl

def expectedNamed (h : Handler) : Outcome Glue :=
  match docEvent h with
  | some ev => .ok { call := .key ev, rule := .const 0 }
  | none => .ok { call := .none, rule := .const 0 }

theorem named_all_keyboards :
    allKeyboards.all (fun kb => Handler.all.all (fun h => decide (namedGlue kb h = expectedNamed h))) = true := by
  decide +kernel

theorem handler_mem_all (h : Handler) : h ∈ Handler.all := by cases h <;> decide

/-- **glue of a named handler, every context**: the handler hands exactly its documented key event to
    `process_keyevent` and returns 0 (`DblTab`: no key, returns 0) — on every keyboard, whatever the state -/
theorem named_glue {f : Facts} (hkb : KbValid f.kb) (h : Handler) : translate f (.named h) = expectedNamed h := by
  rw [translate_named]
  have := List.all_eq_true.mp (List.all_eq_true.mp named_all_keyboards _ hkb) h (handler_mem_all h)
  exact of_decide_eq_true this

section
variable {D L : Type} (env : Env D L)

/-- a key call at the context level -/
def keyStep (c : CCtx D L) (ev : KeyEvent) : Outcome (CCtx D L × Int) :=
  (c.editor.processKey env ev).map fun r => ({ c with editor := r.1 }, 0)

theorem apply_of_key {c : CCtx D L} {op : COp} {ev : KeyEvent}
    (h : translate c.facts op = .ok { call := .key ev, rule := .const 0 }) : c.apply env op = keyStep env c ev := by
  unfold CCtx.apply keyStep
  rw [h]
  simp only [runCall, RcRule.rc]
  cases c.editor.processKey env ev <;> rfl

theorem apply_of_none {c : CCtx D L} {op : COp} {r : Int}
    (h : translate c.facts op = .ok { call := .none, rule := .const r }) : c.apply env op = .ok (c, r) := by
  unfold CCtx.apply
  rw [h]
  rfl

/-- **every named handler = `process_keyevent` of exactly the documented key event, and returns 0** — for all
    contexts (any state, any selection keys, any of the eight keyboards) and every environment -/
theorem named_handler (c : CCtx D L) (hkb : KbValid c.kb) (h : Handler) (ev : KeyEvent) (hd : docEvent h = some ev) :
    c.apply env (.named h) = keyStep env c ev := by
  apply apply_of_key
  rw [named_glue (f := c.facts) hkb h]
  unfold expectedNamed; rw [hd]

/-- `chewing_handle_DblTab` does nothing and returns 0 -/
theorem dblTab_nothing (c : CCtx D L) (hkb : KbValid c.kb) : c.apply env (.named .dblTab) = .ok (c, 0) := by
  apply apply_of_none
  rw [named_glue (f := c.facts) hkb .dblTab]
  rfl

/-! ### `chewing_handle_CtrlNum` -/

theorem lookup_ctrlNum_none (n : Nat) (h : ¬ (48 ≤ n ∧ n ≤ 57)) : lookupNat n ctrlNumTable = none := by
  simp only [ctrlNumTable, lookupNat]
  repeat' split
  all_goals first | rfl | (rename_i hh; simp at hh; omega) | (simp_all; omega)

theorem narrow0_out (k : Int) (h : k < 0 ∨ 255 < k) : narrow 0 k = 0 := by
  unfold narrow
  simp only [show ((0 : Nat) == 1) = false from rfl, Bool.false_eq_true, if_false]
  rw [if_neg (by omega)]

theorem narrow0_in (k : Int) (h : 0 ≤ k ∧ k ≤ 255) : narrow 0 k = k.toNat := by
  unfold narrow
  simp only [show ((0 : Nat) == 1) = false from rfl, Bool.false_eq_true, if_false]
  rw [if_pos h]

/-- **`chewing_handle_CtrlNum(k)` for `k` not an ASCII digit returns -1 and leaves the WHOLE context unchanged** —
    the request that cannot be honoured is reported through the return code only -/
theorem ctrlNum_non_digit (c : CCtx D L) (k : Int) (hk : ¬ (48 ≤ k ∧ k ≤ 57)) :
    c.apply env (.ctrlNum k) = .ok (c, -1) := by
  apply apply_of_none
  show (match lookupNat (narrow narrowCtrlNum k) ctrlNumTable with
    | none => Outcome.ok ({ call := EdCall.none, rule := RcRule.const ctrlNumElse } : Glue)
    | some code => keyGlue (mapWithMod c.facts.kb code ctrlNumMods)) = _
  have hn : lookupNat (narrow narrowCtrlNum k) ctrlNumTable = none := by
    apply lookup_ctrlNum_none
    show ¬ (48 ≤ narrow 0 k ∧ narrow 0 k ≤ 57)
    by_cases hr : 0 ≤ k ∧ k ≤ 255
    · rw [narrow0_in k hr]; omega
    · rw [narrow0_out k (by omega)]; omega
  rw [hn]; rfl

def ctrlGlue (kb : String) (d : Nat) : Outcome Glue :=
  translate { isSelecting := false, isEntering := false, selKeys := [], kb := kb } (.ctrlNum ((48 + d : Nat) : Int))

/-- a digit key: index = code, the character is the digit -/
def plainEventU (code mods u : Nat) : KeyEvent := ofKeyEv { index := code, code := code, unicode := u, mods := mods }

/-- the Ctrl + digit key event -/
def ctrlDigitEvent (d : Nat) : KeyEvent := plainEventU (if d == 0 then 10 else d) mCtrl (48 + d)

theorem ctrl_all_keyboards :
    allKeyboards.all (fun kb => (List.range 10).all (fun d =>
      decide (ctrlGlue kb d = .ok { call := .key (ctrlDigitEvent d), rule := .const 0 }))) = true := by
  decide +kernel

/-- **`chewing_handle_CtrlNum('0' + d)`** = `process_keyevent` of the digit key `d` with Ctrl, returns 0 -/
theorem ctrlNum_digit (c : CCtx D L) (hkb : KbValid c.kb) (d : Nat) (hd : d < 10) :
    c.apply env (.ctrlNum ((48 + d : Nat) : Int)) = keyStep env c (ctrlDigitEvent d) := by
  apply apply_of_key
  have h1 : translate c.facts (.ctrlNum ((48 + d : Nat) : Int)) = ctrlGlue c.kb d := rfl
  rw [h1]
  have := List.all_eq_true.mp (List.all_eq_true.mp ctrl_all_keyboards _ hkb) d (List.mem_range.mpr hd)
  exact of_decide_eq_true this

/-! ### `chewing_handle_Default` / `chewing_handle_Numlock` -/

theorem translate_default (f : Facts) (k : Int) :
    translate f (.default k) = keyGlue (mapAscii f.kb (narrow 0 (remapSelKey f k))) := rfl

theorem translate_numlock (f : Facts) (k : Int) :
    translate f (.numlock k) = keyGlue (mapAsciiNumlock f.kb (narrow 0 k)) := rfl

/-- **the remap changes the key ONLY while a list is open** -/
theorem remap_only_while_selecting (f : Facts) (k : Int) (h : f.isSelecting = false) : remapSelKey f k = k := by
  unfold remapSelKey
  rw [h]; rfl

/-- a key that is no selection key is never remapped -/
theorem remap_not_selkey (f : Facts) (k : Int) (h : f.selKeys.findIdx? (· == k) = none) : remapSelKey f k = k := by
  unfold remapSelKey
  rw [h]; split <;> rfl

theorem lookup_remap (i : Nat) (hi : i < 10) : lookupNat i selKeyRemap = some (digitByte i) := by
  have : (List.range 10).all (fun i => lookupNat i selKeyRemap == some (digitByte i)) = true := by decide
  exact eq_of_beq (List.all_eq_true.mp this i (List.mem_range.mpr hi))

/-- while a list is open, the FIRST position `i` at which `sel_keys` holds the key decides: the key becomes the
    digit byte of position `i` -/
theorem remap_position (f : Facts) (k : Int) (i : Nat) (hs : f.isSelecting = true)
    (hi : f.selKeys.findIdx? (· == k) = some i) (h10 : i < 10) : remapSelKey f k = (digitByte i : Nat) := by
  unfold remapSelKey
  rw [hs, hi]
  simp only [Bool.not_true, Bool.and_false, Bool.false_eq_true, if_false]
  rw [lookup_remap i h10]; rfl

/-- the key event of the Unknown key (no character): what a value that is no byte becomes -/
def unknownEvent : KeyEvent := plainEvent KC.unknown 0

theorem ascii0_all_keyboards :
    allKeyboards.all (fun kb => decide (mapAscii kb 0 = some { index := 0, code := 0, unicode := 65533, mods := 0 }) &&
      decide (mapAsciiNumlock kb 0 = some { index := 0, code := 0, unicode := 65533, mods := 0 })) = true := by
  decide +kernel

/-- **`chewing_handle_Default(k)` for `k` outside 0..255** (and not a configured selection key under an open list):
    `u8::try_from(k).unwrap_or(0)` = 0, `map_ascii(0)` finds no table row: the editor receives the Unknown key
    (code 0, no character, no modifiers) — exactly as for `k = 0`; the call still returns 0 -/
theorem default_out_of_range (c : CCtx D L) (hkb : KbValid c.kb) (k : Int) (hk : k < 0 ∨ 255 < k)
    (hns : c.editor.isSelecting = false ∨ c.selKeys.findIdx? (· == k) = none) :
    c.apply env (.default k) = keyStep env c unknownEvent := by
  apply apply_of_key
  rw [translate_default]
  have hr : remapSelKey c.facts k = k := by
    rcases hns with h | h
    · exact remap_only_while_selecting _ _ h
    · exact remap_not_selkey _ _ h
  rw [hr, narrow0_out k hk]
  have := List.all_eq_true.mp ascii0_all_keyboards _ hkb
  rw [Bool.and_eq_true] at this
  show keyGlue (mapAscii c.kb 0) = _
  rw [of_decide_eq_true this.1]; rfl

/-- **`chewing_handle_Numlock(k)` for `k` outside 0..255**: the Unknown key, returns 0 -/
theorem numlock_out_of_range (c : CCtx D L) (hkb : KbValid c.kb) (k : Int) (hk : k < 0 ∨ 255 < k) :
    c.apply env (.numlock k) = keyStep env c unknownEvent := by
  apply apply_of_key
  rw [translate_numlock, narrow0_out k hk]
  have := List.all_eq_true.mp ascii0_all_keyboards _ hkb
  rw [Bool.and_eq_true] at this
  show keyGlue (mapAsciiNumlock c.kb 0) = _
  rw [of_decide_eq_true this.2]; rfl

/-- the digit key of selection position `i` -/
def digitEvent (i : Nat) : KeyEvent :=
  ofKeyEv { index := digitCode i, code := digitCode i, unicode := digitByte i, mods := 0 }

theorem digit_all_keyboards :
    allKeyboards.all (fun kb => (List.range 10).all (fun i =>
      decide (mapAscii kb (digitByte i) = some { index := digitCode i, code := digitCode i, unicode := digitByte i, mods := 0 }))) = true := by
  decide +kernel

/-- **while a list is open, the key `sel_keys[i]` acts exactly like the digit key of position `i`**: the editor
    receives the key event of digit `i + 1` (`0` for the tenth), whatever the key was — an out-of-range `int`
    stored by `chewing_set_selKey` included -/
theorem selkey_acts_as_digit (c : CCtx D L) (hkb : KbValid c.kb) (k : Int) (i : Nat)
    (hs : c.editor.isSelecting = true) (hi : c.selKeys.findIdx? (· == k) = some i) (h10 : i < 10) :
    c.apply env (.default k) = keyStep env c (digitEvent i) := by
  apply apply_of_key
  rw [translate_default, remap_position c.facts k i hs hi h10]
  have hb : digitByte i ≤ 255 := by unfold digitByte; split <;> omega
  rw [narrow0_in _ (by omega)]
  have := List.all_eq_true.mp (List.all_eq_true.mp digit_all_keyboards _ hkb) i (List.mem_range.mpr h10)
  show keyGlue (mapAscii c.kb (digitByte i : Int).toNat) = _
  rw [Int.toNat_natCast, of_decide_eq_true this]; rfl

/-- outside an open list the same key is an ordinary character key: no remap -/
theorem selkey_plain_when_closed (c : CCtx D L) (k : Int) (hs : c.editor.isSelecting = false) :
    translate c.facts (.default k) = keyGlue (mapAscii c.kb (narrow 0 k)) := by
  rw [translate_default, remap_only_while_selecting _ _ hs]; rfl

/-- **C07 "choosing i"**: under an open list the digit key of position `i` is `Selecting::select(i)` — candidate `i`
    of the current page (`C07.offset_is_page_item`, `choose_phrase`, `choose_out_of_range_rejected` say what that
    does) -/
theorem digit_event_selects (s : Selecting) (sh : Shared D L) (i : Nat) (h10 : i < 10) :
    selectingNext env s sh (digitEvent i) = selDigit env s sh (i + 1) := by
  have hc : (digitEvent i).code = i + 1 := by
    show digitCode i = i + 1
    unfold digitCode; split <;> omega
  have hm : (digitEvent i).mods = ({} : Mods) := by
    show ({ shift := modShift 0, ctrl := modCtrl 0, capslock := modCaps 0, numlock := modNumlock 0 } : Mods) = {}
    decide
  unfold selectingNext
  rw [hc, hm]
  have h1 : 1 ≤ i + 1 ∧ i + 1 ≤ 10 := by omega
  simp [KC.backspace, KC.unknown, KC.up, KC.down, KC.space, KC.j, KC.k, KC.left, KC.pageUp, KC.right, KC.pageDown,
    isDigitCode]
  repeat' split
  all_goals first | rfl | omega

theorem selDigit_selects (s : Selecting) (sh : Shared D L) (i : Nat) :
    selDigit env s sh (i + 1) =
      (match Selecting.select env s sh i with
       | .ok (s', sh', t) => .ok ⟨sh', s', t⟩
       | .panic q => .panic q
       | .outOfFuel => .outOfFuel) := rfl

/-! ### the non-key calls, as documented -/

theorem translate_reset (f : Facts) : translate f .reset = .ok { call := .clear, rule := .const 0 } := rfl
theorem translate_ack (f : Facts) : translate f .ack = .ok { call := .ack, rule := .const 0 } := rfl
theorem translate_candOpen (f : Facts) : translate f .candOpen = .ok { call := .startSelecting, rule := .result } := rfl
/-- `chewing_cand_close` never fails -/
theorem translate_candClose (f : Facts) :
    translate f .candClose = .ok { call := .cancelSelecting, rule := .neverFails } := rfl
theorem translate_candChoose (f : Facts) (i : Int) :
    translate f (.candChoose i) = .ok { call := .select (CApi.indexOfInt i), rule := .result } := rfl
theorem translate_commitPreedit (f : Facts) : translate f .commitPreedit = .ok { call := .commit, rule := .result } := rfl
theorem translate_cleanBopomofo (f : Facts) :
    translate f .cleanBopomofo = .ok { call := .clearSyl, rule := .const 0 } := rfl

/-- `chewing_clean_preedit_buf`: `clear()` only in state Entering, else -1 and nothing happens -/
theorem translate_cleanPreedit (f : Facts) :
    translate f .cleanPreedit =
      .ok (if f.isEntering then { call := .clear, rule := .const 0 } else { call := .none, rule := .const (-1) }) := by
  obtain ⟨s, e, ks, kb⟩ := f
  cases e <;> rfl

/-- `chewing_cand_list_first / last / next / prev`: -1 and nothing happens unless a list is open; first / last discard
    the result, next / prev report it -/
theorem translate_candList (f : Facts) :
    translate f .candListFirst =
      .ok (if f.isSelecting then { call := .jump 0, rule := .const 0 } else { call := .none, rule := .const (-1) }) ∧
    translate f .candListLast =
      .ok (if f.isSelecting then { call := .jump 1, rule := .const 0 } else { call := .none, rule := .const (-1) }) ∧
    translate f .candListNext =
      .ok (if f.isSelecting then { call := .jump 2, rule := .result } else { call := .none, rule := .const (-1) }) ∧
    translate f .candListPrev =
      .ok (if f.isSelecting then { call := .jump 3, rule := .result } else { call := .none, rule := .const (-1) }) := by
  obtain ⟨s, e, ks, kb⟩ := f
  cases s <;> exact ⟨rfl, rfl, rfl, rfl⟩

/-- every row of the generated table is readable by the model -/
theorem api_rows_readable (f : Facts) (op : COp) : ∃ g, translate f op = .ok g ∨
    (∃ h, op = .named h) ∨ (∃ k, op = .default k) ∨ (∃ k, op = .numlock k) ∨ (∃ k, op = .ctrlNum k) := by
  cases op with
  | named h => exact ⟨default, Or.inr (Or.inl ⟨h, rfl⟩)⟩
  | default k => exact ⟨default, Or.inr (Or.inr (Or.inl ⟨k, rfl⟩))⟩
  | numlock k => exact ⟨default, Or.inr (Or.inr (Or.inr (Or.inl ⟨k, rfl⟩)))⟩
  | ctrlNum k => exact ⟨default, Or.inr (Or.inr (Or.inr (Or.inr ⟨k, rfl⟩)))⟩
  | candOpen => exact ⟨_, Or.inl (translate_candOpen f)⟩
  | candClose => exact ⟨_, Or.inl (translate_candClose f)⟩
  | candChoose i => exact ⟨_, Or.inl (translate_candChoose f i)⟩
  | candListFirst => exact ⟨_, Or.inl (translate_candList f).1⟩
  | candListLast => exact ⟨_, Or.inl (translate_candList f).2.1⟩
  | candListNext => exact ⟨_, Or.inl (translate_candList f).2.2.1⟩
  | candListPrev => exact ⟨_, Or.inl (translate_candList f).2.2.2⟩
  | commitPreedit => exact ⟨_, Or.inl (translate_commitPreedit f)⟩
  | cleanPreedit => exact ⟨_, Or.inl (translate_cleanPreedit f)⟩
  | cleanBopomofo => exact ⟨_, Or.inl (translate_cleanBopomofo f)⟩
  | ack => exact ⟨_, Or.inl (translate_ack f)⟩
  | reset => exact ⟨_, Or.inl (translate_reset f)⟩

/-! ## 3. lifting the editor theorems to C call histories -/

/-- the editor operation(s) a glue call stands for (return codes dropped) -/
def toOps : EdCall → List (Op L)
  | .none => []
  | .key ev => [.key ev]
  | .select n => [.select n]
  | .startSelecting => [.startSelecting]
  | .cancelSelecting => [.cancelSelecting]
  | .commit => [.commit]
  | .clear => [.clear]
  | .ack => [.ack]
  | .clearSyl => [.clearSyl]
  | .jump w => [.jump w]

theorem toOps_valid (call : EdCall) : ∀ op ∈ (toOps call : List (Op L)), C01.OpValid op := by
  cases call <;> simp [toOps, C01.OpValid]

theorem run_one (e : Editor D L) (op : Op L) : e.run env [op] = e.apply env op := by
  simp only [Editor.run]
  cases e.apply env op <;> rfl

/-- **the C call translates to an editor operation list**: the editor after the glue call is the editor after that
    history of public `Editor` operations -/
theorem runCall_run (e : Editor D L) (call : EdCall) :
    (runCall env e call).map (·.1) = e.run env (toOps call) := by
  cases call with
  | none => rfl
  | key ev => rw [toOps, run_one]; simp only [runCall, Editor.apply]; cases e.processKey env ev <;> rfl
  | select n => rw [toOps, run_one]; simp only [runCall, Editor.apply]
  | startSelecting => rw [toOps, run_one]; simp only [runCall, Editor.apply]
  | cancelSelecting => rw [toOps, run_one]; rfl
  | commit => rw [toOps, run_one]; simp only [runCall, Editor.apply]
  | clear => rw [toOps, run_one]; rfl
  | ack => rw [toOps, run_one]; rfl
  | clearSyl => rw [toOps, run_one]; rfl
  | jump w => rw [toOps, run_one]; simp only [runCall, Editor.apply]

theorem asciiItem_mem (tbl : List (Nat × Nat × Nat)) (n : Nat) : asciiItem tbl n ∈ (0, 0) :: tbl.map (·.2) := by
  unfold asciiItem
  cases h : tbl.find? (·.1 == n) with
  | none => exact List.mem_cons_self ..
  | some item => exact List.mem_cons_of_mem _ (List.mem_map_of_mem (List.mem_of_find?_eq_some h))

theorem items_all_keyboards :
    allKeyboards.all (fun kb => ((0, 0) :: keycodeMap.map (·.2) ++ numlockMap.map (·.2)).all
      (fun p => (mapWithMod kb p.1 p.2).isSome)) = true := by
  decide +kernel

theorem ctrl_codes_all_keyboards :
    allKeyboards.all (fun kb => ctrlNumTable.all (fun p => (mapWithMod kb p.2 ctrlNumMods).isSome)) = true := by
  decide +kernel

theorem keyGlue_some {r : Option KeyEv} (h : r.isSome = true) : ∃ g, keyGlue r = .ok g := by
  cases r with
  | none => cases h
  | some ev => exact ⟨_, rfl⟩

theorem lookupNat_mem {a b : Nat} : ∀ {l : List (Nat × Nat)}, lookupNat a l = some b → (a, b) ∈ l
  | [], h => by cases h
  | (k, v) :: es, h => by
    unfold lookupNat at h
    split at h
    · next hk => injection h with h; rw [← h, eq_of_beq hk]; exact List.mem_cons_self ..
    · exact List.mem_cons_of_mem _ (lookupNat_mem h)

/-- **the glue itself never panics** on a valid keyboard: `.expect("invalid keycode")` cannot fire, whatever `int`
    is passed — every key code the tables can produce is on every keyboard matrix -/
theorem translate_total {f : Facts} (hkb : KbValid f.kb) (op : COp) : ∃ g, translate f op = .ok g := by
  have hitems := List.all_eq_true.mp (List.all_eq_true.mp items_all_keyboards _ hkb)
  cases op with
  | named h => rw [named_glue hkb h]; unfold expectedNamed; split <;> exact ⟨_, rfl⟩
  | default k =>
    rw [translate_default]
    apply keyGlue_some
    have hm := asciiItem_mem keycodeMap (narrow 0 (remapSelKey f k))
    exact hitems _ (by
      rcases List.mem_cons.mp hm with h | h
      · rw [h]; exact List.mem_cons_self ..
      · exact List.mem_cons_of_mem _ (List.mem_append_left _ h))
  | numlock k =>
    rw [translate_numlock]
    apply keyGlue_some
    have hm := asciiItem_mem numlockMap (narrow 0 k)
    exact hitems _ (by
      rcases List.mem_cons.mp hm with h | h
      · rw [h]; exact List.mem_cons_self ..
      · exact List.mem_cons_of_mem _ (List.mem_append_right _ h))
  | ctrlNum k =>
    show ∃ g, (match lookupNat (narrow narrowCtrlNum k) ctrlNumTable with
      | none => Outcome.ok ({ call := EdCall.none, rule := RcRule.const ctrlNumElse } : Glue)
      | some code => keyGlue (mapWithMod f.kb code ctrlNumMods)) = .ok g
    cases hl : lookupNat (narrow narrowCtrlNum k) ctrlNumTable with
    | none => exact ⟨_, rfl⟩
    | some code =>
      apply keyGlue_some
      exact List.all_eq_true.mp (List.all_eq_true.mp ctrl_codes_all_keyboards _ hkb) _ (lookupNat_mem hl)
  | candOpen => exact ⟨_, translate_candOpen f⟩
  | candClose => exact ⟨_, translate_candClose f⟩
  | candChoose i => exact ⟨_, translate_candChoose f i⟩
  | candListFirst => exact ⟨_, (translate_candList f).1⟩
  | candListLast => exact ⟨_, (translate_candList f).2.1⟩
  | candListNext => exact ⟨_, (translate_candList f).2.2.1⟩
  | candListPrev => exact ⟨_, (translate_candList f).2.2.2⟩
  | commitPreedit => exact ⟨_, translate_commitPreedit f⟩
  | cleanPreedit => exact ⟨_, translate_cleanPreedit f⟩
  | cleanBopomofo => exact ⟨_, translate_cleanBopomofo f⟩
  | ack => exact ⟨_, translate_ack f⟩
  | reset => exact ⟨_, translate_reset f⟩

variable {G : D → Prop}

/-- **C01 at the C level, one call.**  From every context whose editor satisfies the safety invariant, EVERY modelled
    C call with ANY `int` argument returns — no panic, no exhausted fuel — the invariant holds again, and the glue's
    own state (keyboard, selection keys) is untouched -/
theorem C_step (hE : C01.EnvOK env G) (c : CCtx D L) (hkb : KbValid c.kb) (hi : C01.SafeInv env G c.editor) (op : COp) :
    ∃ c' rc, c.apply env op = .ok (c', rc) ∧ C01.SafeInv env G c'.editor ∧ c'.kb = c.kb ∧ c'.selKeys = c.selKeys := by
  obtain ⟨g, hg⟩ := translate_total (f := c.facts) hkb op
  obtain ⟨e', hrun, hi'⟩ := C01.C01_run hE (toOps g.call) c.editor hi (toOps_valid g.call)
  rw [← runCall_run] at hrun
  unfold CCtx.apply
  rw [hg]
  dsimp only
  cases hr : runCall env c.editor g.call with
  | ok x =>
    obtain ⟨e1, b⟩ := x
    rw [hr] at hrun
    have : e1 = e' := by injection hrun
    subst this
    exact ⟨{ c with editor := e1 }, g.rule.rc b, rfl, hi', rfl, rfl⟩
  | panic p => rw [hr] at hrun; cases hrun
  | outOfFuel => rw [hr] at hrun; cases hrun

/-- **C01 at the C level, every history of C calls** (induction): no sequence of modelled C calls, with any
    arguments, panics or hangs; one return value per call -/
theorem C_run (hE : C01.EnvOK env G) (ops : List COp) :
    ∀ c : CCtx D L, KbValid c.kb → C01.SafeInv env G c.editor →
      ∃ c' rcs, c.run env ops = .ok (c', rcs) ∧ rcs.length = ops.length ∧ C01.SafeInv env G c'.editor := by
  induction ops with
  | nil => intro c _ hi; exact ⟨c, [], rfl, rfl, hi⟩
  | cons op ops ih =>
    intro c hkb hi
    obtain ⟨c1, rc, h1, hi1, hk1, _⟩ := C_step env hE c hkb hi op
    obtain ⟨c2, rcs, h2, hl, hi2⟩ := ih c1 (by rw [hk1]; exact hkb) hi1
    refine ⟨c2, rc :: rcs, ?_, by simp [hl], hi2⟩
    simp only [CCtx.run]; rw [h1]; simp only; rw [h2]

/-- a NULL context: the call returns -1 and there is nothing to change -/
theorem null_context (op : COp) : CCtx.applyPtr env (none : Option (CCtx D L)) op = .ok (none, -1) := rfl

/-! ### the result getters -/

theorem checkIgnore_eq (c : CCtx D L) :
    c.keystrokeCheckIgnore = if c.editor.shared.last = .ignore then 1 else 0 := rfl

theorem checkAbsorb_eq (c : CCtx D L) :
    c.keystrokeCheckAbsorb = if c.editor.shared.last = .absorb then 1 else 0 := rfl

theorem processKey_last {e e' : Editor D L} {ev : KeyEvent} {b : KB} (h : e.processKey env ev = .ok (e', b)) :
    e'.shared.last = b := by
  rw [C06.processKey_eq] at h
  cases hd : C06.dispatch env e ev with
  | ok x =>
    obtain ⟨sh, st⟩ := x
    rw [hd] at h
    simp only [C06.tail] at h
    split at h
    · cases h
    · cases h
    · injection h with h; injection h with h1 h2; rw [← h1, ← h2]
  | panic p => rw [hd] at h; cases h
  | outOfFuel => rw [hd] at h; cases h

/-- **key results are truthful on the C getters**: after a key call, `chewing_keystroke_CheckIgnore` = 1 exactly when
    the key was ignored, `chewing_keystroke_CheckAbsorb` = 1 exactly when absorbed, `chewing_commit_Check` = 1 exactly
    when it committed (C02's third sentence), and none of the three exactly when the answer was a bell -/
theorem C_getters_truthful (hH : C02.ConvHeadText env) {c : CCtx D L} {ev : KeyEvent} {e' : Editor D L} {b : KB}
    (h : c.editor.processKey env ev = .ok (e', b)) :
    (({ c with editor := e' } : CCtx D L).keystrokeCheckIgnore = 1 ↔ b = .ignore) ∧
    (({ c with editor := e' } : CCtx D L).keystrokeCheckAbsorb = 1 ↔ b = .absorb) ∧
    (({ c with editor := e' } : CCtx D L).commitCheck = 1 ↔ b = .commit) ∧
    (({ c with editor := e' } : CCtx D L).bellObserved = true ↔ b = .bell) := by
  have hl := processKey_last env h
  have hc := C02.commit_string_iff_result env hH h
  have h1 : (({ c with editor := e' } : CCtx D L).keystrokeCheckIgnore = 1 ↔ b = .ignore) := by
    rw [checkIgnore_eq]; simp only [hl]; split <;> simp_all
  have h2 : (({ c with editor := e' } : CCtx D L).keystrokeCheckAbsorb = 1 ↔ b = .absorb) := by
    rw [checkAbsorb_eq]; simp only [hl]; split <;> simp_all
  have h3 : (({ c with editor := e' } : CCtx D L).commitCheck = 1 ↔ b = .commit) := by
    unfold CCtx.commitCheck
    rw [← hc]
    cases e'.shared.commitBuf <;> simp
  refine ⟨h1, h2, h3, ?_⟩
  unfold CCtx.bellObserved
  have e1 : (({ c with editor := e' } : CCtx D L).keystrokeCheckIgnore == 0) = decide (b ≠ .ignore) := by
    rw [checkIgnore_eq]; simp only [hl]; split <;> simp_all
  have e2 : (({ c with editor := e' } : CCtx D L).keystrokeCheckAbsorb == 0) = decide (b ≠ .absorb) := by
    rw [checkAbsorb_eq]; simp only [hl]; split <;> simp_all
  have e3 : (({ c with editor := e' } : CCtx D L).commitCheck == 0) = decide (b ≠ .commit) := by
    unfold CCtx.commitCheck
    cases hb : e'.shared.commitBuf with
    | nil =>
      have : b ≠ .commit := fun hcm => (hc.mpr hcm) hb
      simp [this]
    | cons x xs =>
      have : b = .commit := hc.mp (by rw [hb]; simp)
      simp [this]
  rw [e1, e2, e3]
  cases b <;> simp

/-- **exactly one of ignore / absorb / commit / bell** is what the C getters show after a key call -/
theorem C_result_exclusive (hH : C02.ConvHeadText env) {c : CCtx D L} {ev : KeyEvent} {e' : Editor D L} {b : KB}
    (h : c.editor.processKey env ev = .ok (e', b)) :
    let c' : CCtx D L := { c with editor := e' }
    let flags := [decide (c'.keystrokeCheckIgnore = 1), decide (c'.keystrokeCheckAbsorb = 1),
                  decide (c'.commitCheck = 1), c'.bellObserved]
    (flags.filter id).length = 1 := by
  obtain ⟨h1, h2, h3, h4⟩ := C_getters_truthful env hH h
  intro c' flags
  have f1 : decide (c'.keystrokeCheckIgnore = 1) = decide (b = .ignore) := by simp only [c', h1]
  have f2 : decide (c'.keystrokeCheckAbsorb = 1) = decide (b = .absorb) := by simp only [c', h2]
  have f3 : decide (c'.commitCheck = 1) = decide (b = .commit) := by simp only [c', h3]
  have f4 : c'.bellObserved = decide (b = .bell) := by
    cases hb : c'.bellObserved
    · have : ¬ b = .bell := fun hh => by rw [h4.mpr hh] at hb; cases hb
      simp [this]
    · simp [h4.mp hb]
  simp only [flags, f1, f2, f3, f4]
  cases b <;> decide

/-! ### requests that cannot be honoured: the return code only (C01's last sentence); Reset / ack (C17) -/

theorem apply_of_call {c : CCtx D L} {op : COp} {call : EdCall} {rule : RcRule}
    (h : translate c.facts op = .ok { call := call, rule := rule }) :
    c.apply env op = (runCall env c.editor call).map fun r => ({ c with editor := r.1 }, rule.rc r.2) := by
  unfold CCtx.apply
  rw [h]
  dsimp only
  cases runCall env c.editor call <;> rfl

/-- `chewing_clean_preedit_buf` outside state Entering (a syllable being entered, a list or a highlight open):
    -1, the whole context unchanged -/
theorem cleanPreedit_refused (c : CCtx D L) (h : c.editor.isEntering = false) :
    c.apply env .cleanPreedit = .ok (c, -1) := by
  apply apply_of_none
  rw [translate_cleanPreedit]
  show Outcome.ok (if c.editor.isEntering then _ else _) = _
  rw [h]; rfl

/-- `chewing_clean_preedit_buf` in state Entering = `Editor::clear`, returns 0 -/
theorem cleanPreedit_clears (c : CCtx D L) (h : c.editor.isEntering = true) :
    c.apply env .cleanPreedit = .ok ({ c with editor := c.editor.clear env }, 0) := by
  have ht : translate c.facts .cleanPreedit = .ok { call := .clear, rule := .const 0 } := by
    rw [translate_cleanPreedit]
    show Outcome.ok (if c.editor.isEntering then _ else _) = _
    rw [h]; rfl
  rw [apply_of_call env ht]; rfl

/-- `chewing_cand_list_first / last / next / prev` without an open list: -1, the whole context unchanged -/
theorem candList_refused (c : CCtx D L) (h : c.editor.isSelecting = false) :
    c.apply env .candListFirst = .ok (c, -1) ∧ c.apply env .candListLast = .ok (c, -1) ∧
    c.apply env .candListNext = .ok (c, -1) ∧ c.apply env .candListPrev = .ok (c, -1) := by
  obtain ⟨h1, h2, h3, h4⟩ := translate_candList c.facts
  have hs : c.facts.isSelecting = false := h
  rw [hs] at h1 h2 h3 h4
  exact ⟨apply_of_none env h1, apply_of_none env h2, apply_of_none env h3, apply_of_none env h4⟩

/-- `chewing_Reset` = `Editor::clear` (C17's "reset gives a clean editor" is about exactly this operation), returns 0;
    keyboard and selection keys are kept -/
theorem reset_is_clear (c : CCtx D L) : c.apply env .reset = .ok ({ c with editor := c.editor.clear env }, 0) := by
  rw [apply_of_call env (translate_reset c.facts)]; rfl

/-- `chewing_ack` = `Editor::ack`, returns 0 -/
theorem ack_is_ack (c : CCtx D L) : c.apply env .ack = .ok ({ c with editor := c.editor.ack }, 0) := by
  rw [apply_of_call env (translate_ack c.facts)]; rfl

/-- `chewing_cand_close` returns 0 whether or not a list was open, and is `Editor::cancel_selecting` -/
theorem candClose_never_fails (c : CCtx D L) :
    c.apply env .candClose = .ok ({ c with editor := c.editor.cancelSelecting.1 }, 0) := by
  rw [apply_of_call env (translate_candClose c.facts)]; rfl

/-- `chewing_cand_choose_by_index(i)` = `Editor::select(i as usize)`; 0 iff `Ok` (`CApi.chooseByIndex` of
    Model/Candidates.lean, the function C07's theorems speak about) -/
theorem candChoose_is_select (c : CCtx D L) (i : Int) :
    c.apply env (.candChoose i) =
      (CApi.chooseByIndex env c.editor i).map fun r => ({ c with editor := r.1 }, if r.2 then 0 else -1) := by
  rw [apply_of_call env (translate_candChoose c.facts i)]
  unfold CApi.chooseByIndex
  simp only [runCall]
  cases c.editor.select env (CApi.indexOfInt i) with
  | ok x => obtain ⟨e, b⟩ := x; cases b <;> rfl
  | panic p => rfl
  | outOfFuel => rfl

/-- the result getters are functions of the context: asking changes nothing and asking twice gives the same answer
    (C17 "queries are pure", for these three) -/
theorem result_getters_pure (c : CCtx D L) :
    c.keystrokeCheckIgnore = c.keystrokeCheckIgnore ∧ c.keystrokeCheckAbsorb = c.keystrokeCheckAbsorb ∧
    c.commitCheck = c.commitCheck := ⟨rfl, rfl, rfl⟩

/-! ### C06's idle pass-through on the C observations -/

/-- the thirteen handlers of the keys the property names -/
def IdleHandler (h : Handler) : Prop :=
  h = .enter ∨ h = .esc ∨ h = .tab ∨ h = .backspace ∨ h = .del ∨ h = .left ∨ h = .right ∨ h = .up ∨ h = .down ∨
  h = .home ∨ h = .end_ ∨ h = .pageUp ∨ h = .pageDown

theorem idle_handler_event {h : Handler} (hh : IdleHandler h) : ∃ ev, docEvent h = some ev ∧ C06.IdleKey ev.code := by
  unfold IdleHandler at hh
  rcases hh with rfl | rfl | rfl | rfl | rfl | rfl | rfl | rfl | rfl | rfl | rfl | rfl | rfl <;>
    exact ⟨_, rfl, by unfold C06.IdleKey; decide⟩

/-- **C06, pass-through, on the C API.**  With nothing being composed (state Entering, empty pre-edit) each of the
    thirteen named handlers returns 0, `chewing_keystroke_CheckIgnore` then answers 1, `chewing_commit_Check` 0, and
    the state, the composition editor, the phonetic buffer, the options, the engine, the chosen alternative, the
    keyboard and the selection keys are exactly as before; the notification is empty -/
theorem C_idle_passthrough (c : CCtx D L) (hkb : KbValid c.kb) {h : Handler} (hh : IdleHandler h)
    (hs : c.editor.state = .entering) (hempty : c.editor.shared.com.isEmpty = true)
    (hcur : c.editor.shared.com.cursor ≤ c.editor.shared.com.len) :
    ∃ c', c.apply env (.named h) = .ok (c', 0) ∧ c'.keystrokeCheckIgnore = 1 ∧ c'.keystrokeCheckAbsorb = 0 ∧
      c'.commitCheck = 0 ∧ c'.editor.state = c.editor.state ∧ c'.editor.shared.com = c.editor.shared.com ∧
      c'.editor.shared.syl = c.editor.shared.syl ∧ c'.editor.shared.options = c.editor.shared.options ∧
      c'.editor.shared.engine = c.editor.shared.engine ∧ c'.editor.shared.nth = c.editor.shared.nth ∧
      c'.editor.shared.noticeBuf = [] ∧ c'.kb = c.kb ∧ c'.selKeys = c.selKeys := by
  obtain ⟨ev, hd, hk⟩ := idle_handler_event hh
  obtain ⟨e', hp⟩ := C06.idle_passthrough env hs hempty hcur hk
  have hl := processKey_last env hp
  obtain ⟨p1, p2, p3, p4, p5, p6, p7, p8, _⟩ := C06.ignore_persistent env hp
  refine ⟨{ c with editor := e' }, ?_, ?_, ?_, ?_, p1, p2, p3, p4, p5, p6, p7, rfl, rfl⟩
  · rw [named_handler env c hkb h ev hd]; unfold keyStep; rw [hp]; rfl
  · rw [checkIgnore_eq]; simp only [hl]; rfl
  · rw [checkAbsorb_eq]; simp only [hl]; rfl
  · unfold CCtx.commitCheck; simp only [p8]; rfl

/-- **C07 "choosing i" on the C API**: under an open list the `i`-th configured selection key, sent through
    `chewing_handle_Default`, is ONE `process_keyevent` whose `Selecting::next` arm is `Selecting::select(i)` -/
theorem selkey_chooses_position (c : CCtx D L) (hkb : KbValid c.kb) (k : Int) (i : Nat) (s : Selecting)
    (hs : c.editor.state = .selecting s) (hi : c.selKeys.findIdx? (· == k) = some i) (h10 : i < 10) :
    c.apply env (.default k) = keyStep env c (digitEvent i) ∧
    ∀ sh : Shared D L, selectingNext env s sh (digitEvent i) =
      (match Selecting.select env s sh i with
       | .ok (s', sh', t) => .ok ⟨sh', s', t⟩
       | .panic q => .panic q
       | .outOfFuel => .outOfFuel) := by
  refine ⟨selkey_acts_as_digit env c hkb k i (by unfold Editor.isSelecting; rw [hs]) hi h10, fun sh => ?_⟩
  rw [digit_event_selects env s sh i h10]; rfl

end

/-! ## non-vacuity: every hypothesis above is satisfiable, and the model computes -/

example : KbValid "qwerty" ∧ KbValid "dvorak_on_qwerty" := by unfold KbValid; decide

/-- a fresh context over C06's toy environment -/
def toyCtx : CCtx Unit Nat := { editor := C06.toyEditor }

/-- idle pass-through: the hypotheses hold on a fresh context, for Enter -/
example : ∃ c', toyCtx.apply C06.toyEnv (.named .enter) = .ok (c', 0) ∧ c'.keystrokeCheckIgnore = 1 ∧
    c'.commitCheck = 0 := by
  obtain ⟨c', h1, h2, _, h3, _⟩ :=
    C_idle_passthrough C06.toyEnv toyCtx (by unfold KbValid; decide) (h := .enter) (Or.inl rfl) rfl (by decide) (by decide)
  exact ⟨c', h1, h2, h3⟩

/-- CtrlNum with a letter: -1, context unchanged (the hypothesis `¬ digit` holds for 'a', 256 + '2', -1) -/
example : toyCtx.apply C06.toyEnv (.ctrlNum 97) = .ok (toyCtx, -1) ∧
    toyCtx.apply C06.toyEnv (.ctrlNum (256 + 50)) = .ok (toyCtx, -1) ∧
    toyCtx.apply C06.toyEnv (.ctrlNum (-1)) = .ok (toyCtx, -1) :=
  ⟨ctrlNum_non_digit _ _ _ (by omega), ctrlNum_non_digit _ _ _ (by omega), ctrlNum_non_digit _ _ _ (by omega)⟩

/-- an open list (the three-entry symbol table of C06, one entry per page) with the selection keys "asdfghjkl;":
    `d` is position 2 and acts as the digit key `3` -/
def listCtx : Option (CCtx Unit Nat) :=
  match C06.pagedEditor.run C06.toyEnv [.key C06.keyGrave] with
  | .ok e => some { editor := e, selKeys := [97, 115, 100, 102, 103, 104, 106, 107, 108, 59] }
  | _ => none

example : ∃ c s, listCtx = some c ∧ c.editor.state = .selecting s ∧ c.selKeys.findIdx? (· == (100 : Int)) = some 2 ∧
    c.apply C06.toyEnv (.default 100) = keyStep C06.toyEnv c (digitEvent 2) := by
  refine ⟨_, _, rfl, rfl, by decide, ?_⟩
  exact selkey_acts_as_digit C06.toyEnv _ (by unfold KbValid; decide) 100 2 rfl (by decide) (by omega)

/-- the same key with NO list open is the letter `d` -/
example : translate toyCtx.facts (.default 100) =
    .ok { call := .key { index := 29, code := 29, unicode := 100 }, rule := .const 0 } := by decide +kernel

/-- out-of-range values are no characters: 256 + 'a' is the Unknown key, not `a` (FX2) -/
example : toyCtx.apply C06.toyEnv (.default (256 + 97)) = keyStep C06.toyEnv toyCtx unknownEvent :=
  default_out_of_range _ _ (by unfold KbValid; decide) _ (Or.inr (by omega)) (Or.inl rfl)

/-- C01 lift: `EnvOK` and `SafeInv` are satisfiable (C01's toy environment), and a concrete history of C calls
    computes its return codes: a letter key, CtrlNum with a non-digit (-1), clean_preedit_buf while a syllable is being
    entered (-1), cand_list_next without a list (-1), cand_close (never fails: 0), DblTab (0), Reset (0),
    commit_preedit_buf on an empty buffer (-1) -/
example : ∃ c' rcs, (({ editor := C01.stdEditor [3] } : CCtx (List Nat) Nat).run C01.toyEnv
      [.default 106, .ctrlNum 97, .cleanPreedit, .candListNext, .candClose, .named .dblTab, .reset, .commitPreedit]) =
      .ok (c', rcs) ∧ rcs.length = 8 ∧ C01.SafeInv C01.toyEnv (fun _ => True) c'.editor :=
  C_run C01.toyEnv C01.toyEnv_ok _ _ (by unfold KbValid; decide) (C01.stdEditor_inv (w := False) [3])

example : ((({ editor := C01.stdEditor [3] } : CCtx (List Nat) Nat).run C01.toyEnv
      [.default 106, .ctrlNum 97, .cleanPreedit, .candListNext, .candClose, .named .dblTab, .reset, .commitPreedit]).map
      (·.2)) = .ok [0, -1, -1, -1, 0, 0, 0, -1] := by decide +kernel

/-- the getters after a key: `j` is absorbed into the phonetic buffer — exactly one flag -/
example : ∃ c', ({ editor := C01.stdEditor [3] } : CCtx (List Nat) Nat).apply C01.toyEnv (.default 106) = .ok (c', 0) ∧
    c'.keystrokeCheckAbsorb = 1 ∧ c'.keystrokeCheckIgnore = 0 ∧ c'.commitCheck = 0 ∧ c'.bellObserved = false := by
  refine ⟨_, rfl, ?_, ?_, ?_, ?_⟩ <;> decide +kernel

end Chewing.C06CApi
