import Chewing.Props.EditorTie
/-!
Companion of Props/C06.lean (audited with it): the exhaustive tie of the editor model to the real `Editor` on the closed
small worlds explored by `editor --bfs` (run `editor-bfs` of this check).  Statements and header: Props/EditorTie.lean.
-/
namespace Chewing.C06
open Chewing

/-- see `EditorTie.editor_tie_lift` -/
theorem editor_tie_lift {D L : Type} (env : Env D L) (I : Editor D L → Op L → Option (Unit × Editor D L))
    (R : Editor D L → Prop) (Sig : Op L → Prop)
    (hclosed : ∀ s op o s', R s → Sig op → I s op = some (o, s') → R s')
    (hagree : ∀ s op, R s → Sig op → I s op = EditorTie.modelStep env s op) :
    ∀ (ops : List (Op L)) (s : Editor D L), R s → (∀ op ∈ ops, Sig op) →
      runM I s ops = runM (EditorTie.modelStep env) s ops :=
  EditorTie.editor_tie_lift env I R Sig hclosed hagree

/-- see `EditorTie.editor_tie_states` -/
theorem editor_tie_states {D L : Type} (I : Editor D L → Op L → Option (Unit × Editor D L))
    (R : Editor D L → Prop) (Sig : Op L → Prop)
    (hclosed : ∀ s op o s', R s → Sig op → I s op = some (o, s') → R s') :
    ∀ (ops : List (Op L)) (s : Editor D L) (tr : List (Unit × Editor D L)), R s → (∀ op ∈ ops, Sig op) →
      runM I s ops = some tr → ∀ x ∈ tr, R x.2 :=
  EditorTie.editor_tie_states I R Sig hclosed

/-- see `EditorTie.run_of_runM` -/
theorem editor_tie_run {D L : Type} (env : Env D L) (ops : List (Op L)) (s : Editor D L) (tr : List (Unit × Editor D L))
    (h : runM (EditorTie.modelStep env) s ops = some tr) :
    Editor.run env s ops = .ok ((tr.getLast?.map (·.2)).getD s) :=
  EditorTie.run_of_runM env ops s tr h

/-- see `EditorTie.closed_world_bounded` -/
theorem editor_tie_closed_world_bounded {D L : Type} (env : Env D L) (G : D → Prop) (hE : C01.EnvOK env G)
    (sh : Shared D L) (hg : G sh.dict) (hcom : sh.com = {}) (hpp : 0 < sh.options.candidatesPerPage)
    (hsym : C01.SymWF sh.symSel) (ops : List (Op L)) (hno : ∀ o, Op.setOptions o ∉ ops)
    (e' : Editor D L) (hr : ({ shared := sh, state := .entering } : Editor D L).run env ops = .ok e') :
    e'.shared.com.len ≤ sh.options.autoCommitThreshold + 1 :=
  EditorTie.closed_world_bounded env G hE sh hg hcom hpp hsym ops hno e' hr

end Chewing.C06
