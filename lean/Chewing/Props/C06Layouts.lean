import Chewing.Props.C06
import Chewing.Proofs.LayoutQuiet
/-!
# C06, bell and the phonetic buffer — over the layout MODELS

`C06.bell_keeps_phonetic` needs `LayoutQuietAt`: the layout does not change state on the key it rejects.  Here the
premise is discharged for the editor model running over any of the seven one-syllable layout models
(`layoutEnv L base`, `Proofs/LayoutEditor.lean`; C14 ties the models to the Rust layouts): in `EnteringSyllable`
always, in `Entering` when the phonetic buffer is empty (the state invariant of `Entering` along key histories; with
a non-empty buffer an end key would be answered *commit*, which `Entering` treats as "not absorbed").
-/
namespace Chewing.C06
open Chewing Gen

variable {D : Type}

theorem toLB_rejected {b : Behavior} (h : rejected .enteringSyllable (toLB b) = true) : b.isRejected = true := by
  cases b <;> first | rfl | cases h

theorem toLB_not_absorb {b : Behavior} (h : rejected .entering (toLB b) = true) : b ≠ .absorb := by
  intro e; subst e; cases h

/-- `press` of a quiet layout, lifted into the editor's environment: the answer state after a rejected key -/
theorem liftPress_quiet_syllable {press : Nat → KeyEv → PressResult} (hq : ∀ c k b c', press c k = some (b, c') →
      b.isRejected = true → c' = c) (c : Nat) (k : KeyEv)
    (hr : rejected .enteringSyllable (liftPress (press c k) c).1 = true) : (liftPress (press c k) c).2 = c := by
  unfold liftPress at hr ⊢
  cases hp : press c k with
  | none => rfl
  | some x =>
    obtain ⟨b, c'⟩ := x
    rw [hp] at hr
    exact hq c k b c' hp (toLB_rejected hr)

/-- **the layout models satisfy `LayoutQuietAt`** -/
theorem layout_models_quiet {L : Layout} (hL : QuietLayout L) (base : Env D Nat) (e : Editor D Nat) (ev : KeyEvent)
    (hst : e.state = .enteringSyllable ∨ isEmptySyl e.shared.syl = true) :
    LayoutQuietAt (layoutEnv L base) e ev := by
  intro hask hr
  cases hs : e.state with
  | enteringSyllable =>
    rw [hs] at hr
    cases hstrat : e.shared.options.lookupStrategy with
    | fuzzyPartialPrefix =>
      simp only [layoutAnswer, hstrat] at hr ⊢
      exact liftPress_quiet_syllable (fun c k b c' h1 h2 => fuzzyPress_quiet hL c k b c' h1 h2) _ _ hr
    | standard =>
      simp only [layoutAnswer, hstrat] at hr ⊢
      exact liftPress_quiet_syllable (fun c k b c' h1 h2 => (hL c k b c' h1).1 h2) _ _ hr
  | entering =>
    rw [hs] at hr
    have hem : isEmptySyl e.shared.syl = true := by
      rcases hst with h | h
      · rw [hs] at h; cases h
      · exact h
    show (liftPress (L.press e.shared.syl (toKeyEv ev)) e.shared.syl).2 = e.shared.syl
    have hr' : rejected .entering (liftPress (L.press e.shared.syl (toKeyEv ev)) e.shared.syl).1 = true := hr
    unfold liftPress at hr' ⊢
    cases hp : L.press e.shared.syl (toKeyEv ev) with
    | none => rfl
    | some x =>
      obtain ⟨b, c'⟩ := x
      rw [hp] at hr'
      exact (hL _ _ b c' hp).2 hem (toLB_not_absorb hr')
  | selecting s => (try rw [hs] at hask); cases hask
  | highlighting m => (try rw [hs] at hask); cases hask

/-- **C06, bell, phonetic buffer, over the layout models.**  Standard, ET, IBM, Gin-Yieh, Hsu, ET26, DaChen CP26:
    a key answered with *bell* leaves the phonetic buffer as it was — in `EnteringSyllable`, in `Selecting`, in
    `Highlighting`, and in `Entering` with an empty phonetic buffer. -/
theorem bell_keeps_phonetic_layout_models {L : Layout} (hL : QuietLayout L) (base : Env D Nat)
    {e e' : Editor D Nat} {ev : KeyEvent}
    (h : e.processKey (layoutEnv L base) ev = .ok (e', .bell))
    (hst : e.state ≠ .entering ∨ isEmptySyl e.shared.syl = true) :
    e'.shared.syl = e.shared.syl := by
  cases hs : e.state with
  | entering =>
    exact bell_keeps_phonetic _ h (layout_models_quiet hL base e ev (hst.elim (fun c => absurd hs c) Or.inr))
  | enteringSyllable => exact bell_keeps_phonetic _ h (layout_models_quiet hL base e ev (Or.inl hs))
  | selecting s => exact bell_keeps_phonetic_of_not_asked _ h (by rw [hs]; rfl)
  | highlighting m => exact bell_keeps_phonetic_of_not_asked _ h (by rw [hs]; rfl)

/-- by name, as the editor installs them -/
theorem bell_keeps_phonetic_by_name {n : String} {L : Layout} (hn : layoutByName n = some L) (base : Env D Nat)
    {e e' : Editor D Nat} {ev : KeyEvent}
    (h : e.processKey (layoutEnv L base) ev = .ok (e', .bell))
    (hst : e.state ≠ .entering ∨ isEmptySyl e.shared.syl = true) :
    e'.shared.syl = e.shared.syl :=
  bell_keeps_phonetic_layout_models (layoutByName_quiet hn) base h hst

/-! ### non-vacuity -/

/-- the Standard layout model under the editor model, nothing typed -/
def stdEditor : Editor Unit Nat := { shared := { syl := clearSyl, dict := () } }

/-- `Entering`, empty phonetic buffer: a key without a character is handed to the Standard layout (key error) and
    answered with a bell; the theorem's premises hold -/
example : ∃ e', stdEditor.processKey (layoutEnv standardL toyEnv) keyNoChar = .ok (e', .bell) ∧
    (stdEditor.state ≠ .entering ∨ isEmptySyl stdEditor.shared.syl = true) ∧ e'.shared.syl = stdEditor.shared.syl := by
  refine ⟨_, rfl, Or.inr (by decide), ?_⟩
  exact bell_keeps_phonetic_layout_models standardL_quiet toyEnv (ev := keyNoChar) rfl (Or.inr (by decide))

/-- `EnteringSyllable` under Hsu: `c` typed (absorbed), then a key Hsu has no symbol for (no word) → bell -/
example : ∃ e e', stdEditor.run (layoutEnv hsuL toyEnv) [.key { index := 32, code := 32, unicode := 99 }] = .ok e ∧
    e.state = .enteringSyllable ∧ e.processKey (layoutEnv hsuL toyEnv) keyNoChar = .ok (e', .bell) ∧
    e'.shared.syl = e.shared.syl := by
  refine ⟨_, _, rfl, by decide, rfl, ?_⟩
  exact bell_keeps_phonetic_layout_models hsuL_quiet toyEnv (ev := keyNoChar) rfl (Or.inl (by decide))

end Chewing.C06
