import Chewing.Proofs.EditorSelect
import Chewing.Proofs.EditorOpenList
import Chewing.Props.C04
import Chewing.Props.C01
/-!
# C07 — candidate lists are complete, consistently paged, and choosing i yields item i

Statement (properties.jsonl): while a candidate list is open its reported total equals the number of
candidates that can be enumerated, the page count is that total divided by the page size rounded up,
the current page index is below the page count, and the pages partition the list in order.  For a
phrase range the list contains every phrase the dictionaries hold for exactly the highlighted
syllables; choosing the i-th candidate puts exactly that string at the highlighted range and closes
the list, and an out-of-range index is rejected without any change.

Everything is a theorem about the executable editor model (`Model/Editor.lean`, getters and C glue in
`Model/Candidates.lean`), **for every environment** (dictionary, layout, engines as functions) and
every state; hypotheses on the environment are explicit.  The model is tied to the Rust code on every
run by the per-step correspondence of the `editor` harness (records `ed key/select/jump/startsel/…`
and `ed cands` = the four candidate getters), from the implementation's own pre-state.

Sections: 1 paging (all lists, page sizes, page indices) · 2 the current page is in range (invariant
of every operation: key / choice / jump / open step and — since the F32 repair, `revalidate_selecting` —
option / layout / dictionary calls while a list is open: `page_in_range`, every history) · 3 choosing ·
4 completeness of a phrase list; the highlighted range consists of syllables (`range_is_syllables`).
-/
namespace Chewing.C07
open Chewing Chewing.C06

variable {D L : Type} (env : Env D L)

/-! ## 1. Paging -/

/-- the reported total (`chewing_cand_TotalChoice`) is the length of the list the getters enumerate:
    `all_candidates()`, and `paginated_candidates()` on page 0 -/
theorem total_is_length {e : Editor D L} {s : Selecting} {cs : List Text}
    (hs : e.state = .selecting s) (hc : Selecting.candidates env s e.shared = .ok cs) :
    CApi.totalChoice env e = .ok cs.length ∧ e.allCandidates env = .ok (some cs) ∧
    (s.pageNo = 0 → CApi.enumerate env e = .ok cs) := by
  refine ⟨?_, ?_, ?_⟩
  · unfold CApi.totalChoice Editor.allCandidates; rw [hs]; simp only [hc, Outcome.map, Option.map, Option.getD]
  · unfold Editor.allCandidates; rw [hs]; simp only [hc, Outcome.map]
  · intro h0
    unfold CApi.enumerate Editor.paginatedCandidates; rw [hs]
    simp only [h0, Nat.zero_mul, hc, Outcome.map, Option.getD, List.drop_zero]
    rfl

/-- what `chewing_cand_Enumerate` hands out on the current page: the list from item `page * per` on;
    its first `per` strings are page `page` -/
theorem enumerate_is_page {e : Editor D L} {s : Selecting} {cs : List Text}
    (hs : e.state = .selecting s) (hc : Selecting.candidates env s e.shared = .ok cs)
    (hfit : s.pageNo * e.shared.options.candidatesPerPage < 2 ^ 64) :
    CApi.enumerate env e = .ok (cs.drop (s.pageNo * e.shared.options.candidatesPerPage)) ∧
    (cs.drop (s.pageNo * e.shared.options.candidatesPerPage)).take e.shared.options.candidatesPerPage
      = pageItems cs e.shared.options.candidatesPerPage s.pageNo := by
  refine ⟨?_, rfl⟩
  unfold CApi.enumerate Editor.paginatedCandidates; rw [hs]
  simp only [hc, Outcome.map, Option.getD]
  rw [if_neg (by omega)]

/-- **the page count is the total divided by the page size, rounded up**: whenever `total_page()`
    answers `tp` for a list of `n` candidates, `tp = ⌈n / per⌉` (least `k` with `n ≤ k·per`), in closed
    form `n / per` plus one if there is a remainder -/
theorem page_count {s : Selecting} {sh : Shared D L} {tp : Nat} (h : Selecting.totalPage env s sh = .ok tp) :
    ∃ cs, Selecting.candidates env s sh = .ok cs ∧ 0 < sh.options.candidatesPerPage ∧
      tp = pageCount cs.length sh.options.candidatesPerPage ∧
      cs.length ≤ tp * sh.options.candidatesPerPage ∧
      (∀ k, cs.length ≤ k * sh.options.candidatesPerPage → tp ≤ k) ∧
      tp = cs.length / sh.options.candidatesPerPage +
        (if cs.length % sh.options.candidatesPerPage = 0 then 0 else 1) := by
  obtain ⟨cs, hc, hper, rfl⟩ := totalPage_ok env h
  exact ⟨cs, hc, hper, rfl, pageCount_covers _ _ hper, fun k hk => pageCount_least _ _ k hper hk,
    pageCount_eq _ _ hper⟩

/-- the Rust API does not validate the page size (the C API admits 1..10 only): `per = 0` panics -/
theorem per_page_zero_panics {s : Selecting} {sh : Shared D L} {cs : List Text}
    (hc : Selecting.candidates env s sh = .ok cs) (h0 : sh.options.candidatesPerPage = 0) :
    Selecting.totalPage env s sh = .panic "div-ceil-zero" := totalPage_zero_panics env hc h0

/-- **the pages partition the list in order** (for every list, page size ≥ 1): pages
    `0 … pageCount-1` concatenated are the list; every page but the last is full; every page below
    the count is non-empty and has at most `per` items; pages at or beyond the count are empty -/
theorem pages_partition {α : Type} (cs : List α) (per : Nat) (hper : 0 < per) :
    (List.range (pageCount cs.length per)).flatMap (pageItems cs per) = cs ∧
    (∀ p, p + 1 < pageCount cs.length per → (pageItems cs per p).length = per) ∧
    (∀ p, p < pageCount cs.length per → 0 < (pageItems cs per p).length ∧ (pageItems cs per p).length ≤ per) ∧
    (∀ p, pageCount cs.length per ≤ p → pageItems cs per p = []) :=
  ⟨Chewing.pages_partition cs per hper, fun p hp => page_full cs per p hp,
   fun p hp => ⟨page_nonempty cs per p hper hp, pageItems_length_le cs per p⟩,
   fun p hp => page_beyond cs per p hper hp⟩

/-- item `i` (`i < per`) of page `p` is item `p·per + i` of the list -/
theorem page_item {α : Type} (cs : List α) (per p i : Nat) (hi : i < per) :
    (pageItems cs per p)[i]? = cs[p * per + i]? := Chewing.page_item cs per p i hi

/-! ## 2. The current page is below the page count -/

/-- **every key event** keeps "current page < page count, or nothing listed" -/
theorem page_or_empty_key (hf : FlushKeepsLookups env) {e e' : Editor D L} {ev : KeyEvent} {b : KB}
    (h : e.processKey env ev = .ok (e', b)) (hi : e.PageInv env) : e'.PageInv env :=
  processKey_pageInv env hf h hi

/-- whatever opens a list (a key in `Entering` / `EnteringSyllable`) opens it on page 0; re-targeting
    with `j` / `k` restarts at page 0 -/
theorem opens_on_page_zero {sh sh' : Shared D L} {ev : KeyEvent} {s : Selecting} :
    (enteringNext env sh ev = .ok (sh', .toState (.selecting s)) → s.pageNo = 0) ∧
    (enteringSyllableNext env sh ev = .ok (sh', .toState (.selecting s)) → s.pageNo = 0) :=
  ⟨opens0_enteringNext env sh ev sh' s, opens0_enteringSyllableNext env sh ev sh' s⟩

/-- the layout's table of alternative syllables (`SyllableEditor::alt_syllables`, a constant table per
    layout in every implementation) does not depend on the content of the phonetic buffer -/
def ClearSylKeepsAlt : Prop := ∀ l c, env.altSyllables (env.clearSyl l) c = env.altSyllables l c

/-- `Editor::revalidate_selecting` — the last step of `set_editor_options`, `set_syllable_editor`,
    `learn_phrase`, `unlearn_phrase` since the F32 repair — **establishes** the page invariant, whatever
    the page number was before: afterwards no list is open, or the page is strictly below the page count -/
theorem revalidate_in_range {e e' : Editor D L} (h : e.revalidate env = .ok e') :
    ∀ s, e'.state = .selecting s → ∃ tp, Selecting.totalPage env s e'.shared = .ok tp ∧ s.pageNo < tp := by
  unfold Editor.revalidate at h
  split at h
  · rename_i s0 hs0
    split at h
    · rename_i tp ht
      split at h
      · injection h with h; subst h; intro s hs; cases hs
      · rename_i h0
        have h0 : tp ≠ 0 := by simpa using h0
        split at h
        · injection h with h; subst h
          intro s hs; injection hs with hs; subst hs
          exact ⟨tp, ht, by show tp - 1 < tp; omega⟩
        · rename_i hlt
          injection h with h; subst h
          intro s hs; rw [hs0] at hs; injection hs with hs; subst hs
          exact ⟨tp, ht, by omega⟩
    · cases h
    · cases h
  · rename_i hns
    injection h with h; subst h
    intro s hs; exact absurd hs (hns s)

theorem revalidate_pageInv {e e' : Editor D L} (h : e.revalidate env = .ok e') : e'.PageInv env := by
  intro s hs tp ht
  obtain ⟨tp', ht', hlt⟩ := revalidate_in_range env h s hs
  rw [ht] at ht'; injection ht' with ht'; subst ht'
  exact Or.inl hlt

/-- **every operation keeps the invariant** — keys, choices, jumps, opening / closing, commit, reset, and
    (since the F32 repair) the option / layout / dictionary calls, also while a list is open -/
theorem page_or_empty_op (hf : FlushKeepsLookups env) (hca : ClearSylKeepsAlt env) {e e' : Editor D L} {op : Op L}
    (h : e.apply env op = .ok e') (hi : e.PageInv env) : e'.PageInv env := by
  have closed : ∀ x : Editor D L, (∀ s, x.state ≠ .selecting s) → x.PageInv env := by
    intro x hx s hs; exact absurd hs (hx s)
  cases op with
  | key ev =>
    simp only [Editor.apply] at h
    cases hr : e.processKey env ev with
    | ok x => rw [hr] at h; simp only [Outcome.map] at h; injection h with h; subst h
              exact processKey_pageInv env hf hr hi
    | panic p => rw [hr] at h; simp [Outcome.map] at h
    | outOfFuel => rw [hr] at h; simp [Outcome.map] at h
  | select n =>
    simp only [Editor.apply] at h
    cases hr : e.select env n with
    | ok x => rw [hr] at h; simp only [Outcome.map] at h; injection h with h; subst h
              exact select_pageInv env hr hi
    | panic p => rw [hr] at h; simp [Outcome.map] at h
    | outOfFuel => rw [hr] at h; simp [Outcome.map] at h
  | startSelecting =>
    simp only [Editor.apply] at h
    cases hr : e.startSelecting env with
    | ok x => rw [hr] at h; simp only [Outcome.map] at h; injection h with h; subst h
              exact startSelecting_pageInv env hr hi
    | panic p => rw [hr] at h; simp [Outcome.map] at h
    | outOfFuel => rw [hr] at h; simp [Outcome.map] at h
  | jump w =>
    simp only [Editor.apply] at h
    cases hr : e.jump env w with
    | ok x => rw [hr] at h; simp only [Outcome.map] at h; injection h with h; subst h
              exact jump_pageInv env hr hi
    | panic p => rw [hr] at h; simp [Outcome.map] at h
    | outOfFuel => rw [hr] at h; simp [Outcome.map] at h
  | cancelSelecting =>
    simp only [Editor.apply] at h; injection h with h; subst h
    unfold Editor.cancelSelecting
    split
    · exact closed _ (by intro s hs; cases hs)
    · exact hi
  | commit =>
    simp only [Editor.apply] at h
    unfold Editor.commit at h
    split at h
    · simp only [Outcome.map] at h; injection h with h; subst h; exact hi
    · rename_i hc
      have hent : e.state = .entering := by
        simp only [Bool.or_eq_true, not_or, bne_iff_ne, ne_eq, Decidable.not_not] at hc
        exact hc.1
      split at h
      · simp only [Outcome.map] at h; injection h with h; subst h
        exact closed _ (by intro s hs; simp only [hent] at hs; cases hs)
      · simp [Outcome.map] at h
      · simp [Outcome.map] at h
  | clear => simp only [Editor.apply] at h; injection h with h; subst h; exact closed _ (by intro s hs; cases hs)
  | ack =>
    simp only [Editor.apply] at h; injection h with h; subst h
    intro s hs
    exact pageOk_congr env (sameList_of_fields env rfl rfl rfl) (hi s hs)
  | setEngine k =>
    simp only [Editor.apply] at h; injection h with h; subst h
    intro s hs
    exact pageOk_congr env (sameList_of_fields env rfl rfl rfl) (hi s hs)
  | clearSyl =>
    -- `clear_syllable_editor` does not revalidate: what is listed does not depend on the buffer's content
    simp only [Editor.apply] at h; injection h with h; subst h
    intro s hs
    have hst : e.state = .selecting s := by
      unfold Editor.clearSyllableEditor Editor.leaveIfEmpty at hs
      split at hs
      · cases hs
      · exact hs
    have hsh : (Editor.clearSyllableEditor env e).shared = { e.shared with syl := env.clearSyl e.shared.syl } := by
      unfold Editor.clearSyllableEditor Editor.leaveIfEmpty; split <;> rfl
    rw [hsh]
    have hcand : Selecting.candidates env s { e.shared with syl := env.clearSyl e.shared.syl } =
        Selecting.candidates env s e.shared := by
      unfold Selecting.candidates
      cases s.sel with
      | phrase p =>
        have hca' : ∀ l c, env.altSyllables (env.clearSyl l) c = env.altSyllables l c := hca
        simp only; unfold PhraseSel.candidates; simp only [hca']
      | symbol y => rfl
      | special sym => rfl
    intro tp ht
    have ht' : Selecting.totalPage env s e.shared = .ok tp := by
      unfold Selecting.totalPage at ht ⊢; rw [hcand] at ht; exact ht
    rw [hcand]
    exact hi s hst tp ht'
  | setOptions o => exact revalidate_pageInv env h
  | setLayout l => exact revalidate_pageInv env h
  | learn k p =>
    simp only [Editor.apply] at h
    split at h
    · exact revalidate_pageInv env h
    · cases h
    · cases h
  | unlearn k p => exact revalidate_pageInv env h

/-- the escape-clause form for EVERY start state and environment: "current page < page count, or nothing
    listed" survives every history (no reachability hypothesis: page 0 of an empty list satisfies it) -/
def page_or_empty_anystate_full : Prop :=
  ∀ (D L : Type) (env : Env D L), FlushKeepsLookups env → ClearSylKeepsAlt env →
    ∀ (e e' : Editor D L) (ops : List (Op L)), e.PageInv env → e.run env ops = .ok e' → e'.PageInv env

/-- **current page < page count, or nothing listed, in every state reached by ANY history from ANY state**
    satisfying it, for every environment (the former `page_in_range`; the statement without the escape clause,
    from reachable states, is `page_in_range` / `open_list_on_a_page` below) -/
theorem page_or_empty_anystate : page_or_empty_anystate_full := by
  intro D L env hf hca e e' ops
  induction ops generalizing e with
  | nil => intro hi h; simp only [Editor.run] at h; injection h with h; subst h; exact hi
  | cons op ops ih =>
    intro hi h
    simp only [Editor.run] at h
    cases hr : e.apply env op with
    | ok e1 =>
      rw [hr] at h; simp only at h
      exact ih e1 (page_or_empty_op env hf hca hr hi) h
    | panic p => rw [hr] at h; cases h
    | outOfFuel => rw [hr] at h; cases h

/-- the operations that may change what is listed, or the page size -/
def Op.reconfigures {L : Type} : Op L → Bool
  | .setOptions _ | .setLayout _ | .learn _ _ | .unlearn _ _ => true
  | _ => false

/-- **after an option / layout / dictionary call** a list that is still open is not empty and its page is
    strictly below the page count (no "or nothing listed": a list that became empty was closed) -/
theorem reconfigured_list_in_range {e e' : Editor D L} {op : Op L} (hop : Op.reconfigures op = true)
    (h : e.apply env op = .ok e') :
    ∀ s, e'.state = .selecting s → ∃ tp, Selecting.totalPage env s e'.shared = .ok tp ∧ s.pageNo < tp := by
  cases op <;> simp only [Op.reconfigures] at hop <;> try cases hop
  case setOptions o => exact revalidate_in_range env h
  case setLayout l => exact revalidate_in_range env h
  case unlearn k p => exact revalidate_in_range env h
  case learn k p =>
    simp only [Editor.apply] at h
    split at h
    · exact revalidate_in_range env h
    · cases h
    · cases h

/-- a freshly created editor satisfies the invariant (no list open) -/
theorem page_inv_init (sh : Shared D L) : Editor.PageInv env { shared := sh, state := .entering } := by
  intro s hs; cases hs

/-- **a phrase list opened by Down / Space / `chewing_cand_open` is non-empty and on page 0**: its page
    index is strictly below the page count, and its range is a non-empty part of the buffer -/
theorem opened_phrase_list_in_range {sh sh' : Shared D L} {s : Selecting} {tp : Nat}
    (h : openPhrase env sh = .ok (sh', .toState (.selecting s)))
    (ht : Selecting.totalPage env s sh' = .ok tp) :
    s.pageNo < tp ∧ ∃ p, s.sel = .phrase p ∧ p.begin_ < p.end_ ∧ p.end_ ≤ p.com.len := by
  obtain ⟨cs, hc, hper, rfl⟩ := totalPage_ok env ht
  obtain ⟨h0, hne, hp⟩ := openPhrase_nonempty env h hc
  refine ⟨?_, hp⟩
  rw [h0]
  exact pageCount_pos _ _ hper (List.length_pos_iff.mpr hne)

/-- what `PhraseSelector::init` (opening, `j` / `k`, `chewing_cand_list_first`) returns: a non-empty
    range inside the buffer for which the dictionary has a phrase — or (F02 / F03 repair) the one-syllable
    range of a syllable the dictionary has no word for (`PhraseSel.WordlessSyl`: the range query answers
    "no phrase", the range is `begin .. begin + 1`, the symbol at `begin` is a syllable; `open_phrase` then
    does not open the list and `j` / `k` close it) -/
theorem init_range {fw : Bool} {st : Strategy} {com : Composition} {cur : Nat} {d : D} {p : PhraseSel}
    (h : PhraseSel.init env fw st com cur d = .ok p) :
    p.begin_ < p.end_ ∧ p.end_ ≤ p.com.len ∧ p.com = com ∧
    (PhraseSel.rangeHasPhrase env p d p.begin_ p.end_ = .ok true ∨ PhraseSel.WordlessSyl env p d) := init_ok env h

/-! ### F32 (repaired): the former witness -/

/-- two words for syllable 1, nothing else -/
def f32Env : Env Unit Nat :=
  { toyEnv with lookupAll := fun _ k _ => if k = [1] then [⟨[28204], 1, none⟩, ⟨[31574], 1, none⟩] else [] }

/-- one syllable in the buffer, one candidate per page -/
def f32Start : Editor Unit Nat :=
  { shared := { syl := 0, dict := (),
                com := { cursor := 1, inner := { symbols := [.syl 1], gaps := [.begin] } },
                options := { candidatesPerPage := 1 } } }

/-- open the list, go to the second page, then raise the page size (`chewing_set_candPerPage(10)`) -/
def f32Ops : List (Op Nat) :=
  [.startSelecting, .key { index := 55, code := KC.right, unicode := 65533 },
   .setOptions { candidatesPerPage := 10 }]

/-- **F32 repaired** (was `f32_witness` / `page_in_range_refuted`: page 1 of 1 page, nothing enumerable):
    after `chewing_set_candPerPage(10)` on page 1 of a two-candidate list the list is on its only page 0
    and both candidates are enumerated -/
theorem f32_history_repaired :
    ∃ (e' : Editor Unit Nat) (s : Selecting),
      f32Start.run f32Env f32Ops = .ok e' ∧ e'.state = .selecting s ∧ s.pageNo = 0 ∧
      Selecting.totalPage f32Env s e'.shared = .ok 1 ∧
      CApi.enumerate f32Env e' = .ok [[28204], [31574]] ∧ e'.PageInv f32Env := by
  refine ⟨_, _, rfl, rfl, rfl, rfl, rfl, ?_⟩
  exact page_or_empty_anystate Unit Nat f32Env (fun _ _ _ => rfl) (fun _ _ => rfl) f32Start _ f32Ops (page_inv_init f32Env _) rfl

/-- a dictionary that holds one two-syllable user phrase (besides a word per syllable) until it is removed -/
def f32EnvB : Env Bool Nat where
  lookupAll d k _ := if k = [1] then [⟨[28204], 1, none⟩] else if k = [2] then [⟨[35430], 1, none⟩]
    else if k = [1, 2] ∧ d then [⟨[28204, 35430], 1, none⟩] else []
  userLookupAll d k _ := if k = [1, 2] ∧ d then [⟨[28204, 35430], 1, none⟩] else []
  addPhrase _ _ _ := some true
  updatePhrase d _ _ _ _ := d
  removePhrase _ _ _ := false
  reopenFlush d := d
  convert _ _ _ := .ok [[]]
  estimate _ f _ := .ok f
  keyPress l _ := (.keyError, l)
  fuzzyKeyPress l _ := (.keyError, l)
  removeLast _ := 0
  clearSyl _ := 0
  sylIsEmpty l := l == 0
  read l := l
  altSyllables _ _ := []

/-- **the other half of F32 repaired**: `chewing_userphrase_remove` of the only phrase of the highlighted
    range (two syllables, list opened at the end of the buffer, rearward) used to leave an open list with 0
    candidates, 0 pages, page 0; now the list is closed and the saved cursor restored -/
theorem f32_empty_list_closed :
    ∃ (e1 e' : Editor Bool Nat) (s : Selecting),
      let start : Editor Bool Nat :=
        { shared := { syl := 0, dict := true, options := { phraseChoiceRearward := true },
                      com := { cursor := 2, inner := { symbols := [.syl 1, .syl 2], gaps := [.begin, .normal] } } } }
      start.run f32EnvB [.startSelecting] = .ok e1 ∧ e1.state = .selecting s ∧
      Selecting.candidates f32EnvB s e1.shared = .ok [[28204, 35430]] ∧
      e1.run f32EnvB [.unlearn [1, 2] [28204, 35430]] = .ok e' ∧ e'.state = .entering ∧
      e'.shared.com.cursor = 2 ∧ e'.shared.com.stack = [] :=
  ⟨_, _, _, rfl, rfl, rfl, rfl, rfl, rfl, rfl⟩

/-! ### FX1 (repaired; found on the C API by `capi_props`): a list over an EMPTY symbol table was opened

`chewing_new2` over a data directory without `symbols.dat` loads an empty symbol table; grave, Ctrl-0/1 and Down on a
character without special symbols (`new_symbol` / the fall-back of `new_special_symbol`) used to open the symbol list
nevertheless: an open list with 0 candidates, 0 pages, page 0.  Since `fix: a symbol list without entries is not
opened` such a request is ignored (and choosing a category whose sub-table is empty closes the list), so the escape
clause "or nothing listed" of the page invariant is no longer needed: **`page_in_range`** below is the statement
without it.  What it needs instead is where the range of a phrase list comes from (`Down` / `Space` cycling, `j` /
`k`, the four jumps only stop on a range with a phrase or on the one they started from; `jump_to_first_selection_point`
re-initialises from the anchor inside the current range): C01's reachable-state invariant in its exclusion-free
strength (`C01.SafeInv`, kept by every valid operation: `C01_step`) — proofs in `Proofs/EditorOpenList.lean`,
`Proofs/PhraseSelHas.lean`. -/

theorem leaveIfEmpty_selecting (x : Editor D L) {s : Selecting}
    (h : (Editor.leaveIfEmpty env x).state = .selecting s) : x.state = .selecting s := by
  unfold Editor.leaveIfEmpty at h
  split at h
  · cases h
  · exact h

theorem setOptions_selecting (e : Editor D L) (o : Options) {s : Selecting}
    (h : (Editor.setOptions env e o).state = .selecting s) : e.state = .selecting s := by
  unfold Editor.setOptions at h
  have h2 := leaveIfEmpty_selecting env _ h
  exact h2

theorem setLayout_selecting (e : Editor D L) (l : L) {s : Selecting}
    (h : (Editor.setLayout env e l).state = .selecting s) : e.state = .selecting s := by
  unfold Editor.setLayout at h
  have h2 := leaveIfEmpty_selecting env _ h
  exact h2

/-- `revalidate_selecting` establishes the strict invariant -/
theorem revalidate_listInv {e e' : Editor D L} (h : e.revalidate env = .ok e')
    (hw : ∀ s, e.state = .selecting s → SelWithin s) : e'.ListInv env := by
  intro s hs
  obtain ⟨tp', ht', hlt⟩ := revalidate_in_range env h s hs
  refine ⟨fun tp ht => by rw [ht] at ht'; injection ht' with ht'; subst ht'; exact hlt, ?_⟩
  unfold Editor.revalidate at h
  split at h
  · rename_i s0 hs0
    split at h
    · split at h
      · injection h with h; subst h; cases hs
      · split at h
        · injection h with h; subst h
          injection hs with hs; subst hs
          exact hw s0 hs0
        · injection h with h; subst h
          rw [hs0] at hs; injection hs with hs; subst hs
          exact hw s0 hs0
    · cases h
    · cases h
  · rename_i hns
    injection h with h; subst h
    exact absurd hs (hns s)

/-- **every operation keeps the strict invariant** (from a state satisfying C01's safety invariant) — keys in all
    four states, choices, the four jumps, opening / closing, commit, reset, and the option / layout / engine /
    dictionary calls, also while a list is open -/
theorem page_in_range_op {G : D → Prop} (hf : FlushKeepsLookups env) (hca : ClearSylKeepsAlt env) {e e' : Editor D L}
    {op : Op L} (hinv : C01.SafeInv env G e)
    (h : e.apply env op = .ok e') (hi : e.ListInv env) : e'.ListInv env := by
  have closed : ∀ x : Editor D L, (∀ s, x.state ≠ .selecting s) → x.ListInv env := by
    intro x hx s hs; exact absurd hs (hx s)
  cases op with
  | key ev =>
    simp only [Editor.apply] at h
    cases hr : e.processKey env ev with
    | ok x => rw [hr] at h; simp only [Outcome.map] at h; injection h with h; subst h
              exact processKey_listInv env hf hinv hr hi
    | panic p => rw [hr] at h; simp [Outcome.map] at h
    | outOfFuel => rw [hr] at h; simp [Outcome.map] at h
  | select n =>
    simp only [Editor.apply] at h
    cases hr : e.select env n with
    | ok x => rw [hr] at h; simp only [Outcome.map] at h; injection h with h; subst h
              exact select_listInv env hr hi
    | panic p => rw [hr] at h; simp [Outcome.map] at h
    | outOfFuel => rw [hr] at h; simp [Outcome.map] at h
  | startSelecting =>
    simp only [Editor.apply] at h
    cases hr : e.startSelecting env with
    | ok x => rw [hr] at h; simp only [Outcome.map] at h; injection h with h; subst h
              exact startSelecting_listInv env hr hi
    | panic p => rw [hr] at h; simp [Outcome.map] at h
    | outOfFuel => rw [hr] at h; simp [Outcome.map] at h
  | jump w =>
    simp only [Editor.apply] at h
    cases hr : e.jump env w with
    | ok x => rw [hr] at h; simp only [Outcome.map] at h; injection h with h; subst h
              exact jump_listInv env hinv hr hi
    | panic p => rw [hr] at h; simp [Outcome.map] at h
    | outOfFuel => rw [hr] at h; simp [Outcome.map] at h
  | cancelSelecting =>
    simp only [Editor.apply] at h; injection h with h; subst h
    unfold Editor.cancelSelecting
    split
    · exact closed _ (by intro s hs; cases hs)
    · exact hi
  | commit =>
    simp only [Editor.apply] at h
    unfold Editor.commit at h
    split at h
    · simp only [Outcome.map] at h; injection h with h; subst h; exact hi
    · rename_i hc
      have hent : e.state = .entering := by
        simp only [Bool.or_eq_true, not_or, bne_iff_ne, ne_eq, Decidable.not_not] at hc
        exact hc.1
      split at h
      · simp only [Outcome.map] at h; injection h with h; subst h
        exact closed _ (by intro s hs; simp only [hent] at hs; cases hs)
      · simp [Outcome.map] at h
      · simp [Outcome.map] at h
  | clear => simp only [Editor.apply] at h; injection h with h; subst h; exact closed _ (by intro s hs; cases hs)
  | ack =>
    simp only [Editor.apply] at h; injection h with h; subst h
    intro s hs
    exact ⟨listOk_congr env (sameList_of_fields env rfl rfl rfl) (hi s hs).1, (hi s hs).2⟩
  | setEngine k =>
    simp only [Editor.apply] at h; injection h with h; subst h
    intro s hs
    exact ⟨listOk_congr env (sameList_of_fields env rfl rfl rfl) (hi s hs).1, (hi s hs).2⟩
  | clearSyl =>
    simp only [Editor.apply] at h; injection h with h; subst h
    intro s hs
    have hst : e.state = .selecting s := by
      unfold Editor.clearSyllableEditor Editor.leaveIfEmpty at hs
      split at hs
      · cases hs
      · exact hs
    have hsh : (Editor.clearSyllableEditor env e).shared = { e.shared with syl := env.clearSyl e.shared.syl } := by
      unfold Editor.clearSyllableEditor Editor.leaveIfEmpty; split <;> rfl
    rw [hsh]
    have hcand : Selecting.candidates env s { e.shared with syl := env.clearSyl e.shared.syl } =
        Selecting.candidates env s e.shared := by
      unfold Selecting.candidates
      cases s.sel with
      | phrase p =>
        have hca' : ∀ l c, env.altSyllables (env.clearSyl l) c = env.altSyllables l c := hca
        simp only; unfold PhraseSel.candidates; simp only [hca']
      | symbol y => rfl
      | special sym => rfl
    refine ⟨?_, (hi s hst).2⟩
    intro tp ht
    have ht' : Selecting.totalPage env s e.shared = .ok tp := by
      unfold Selecting.totalPage at ht ⊢; rw [hcand] at ht; exact ht
    exact (hi s hst).1 tp ht'
  | setOptions o =>
    simp only [Editor.apply] at h
    exact revalidate_listInv env h (fun s hs => (hi s (setOptions_selecting env e o hs)).2)
  | setLayout l =>
    simp only [Editor.apply] at h
    exact revalidate_listInv env h (fun s hs => (hi s (setLayout_selecting env e l hs)).2)
  | learn k p =>
    simp only [Editor.apply] at h
    split at h
    · exact revalidate_listInv env h (fun s hs => (hi s hs).2)
    · cases h
    · cases h
  | unlearn k p =>
    simp only [Editor.apply] at h
    exact revalidate_listInv env h (fun s hs => (hi s hs).2)

/-- the full-strength claim of "the current page index is below the page count": the strict invariant survives
    every history of valid operations from a state satisfying C01's safety invariant -/
def page_in_range_full : Prop :=
  ∀ (D L : Type) (env : Env D L) (G : D → Prop), C01.EnvOK env G → FlushKeepsLookups env → ClearSylKeepsAlt env →
    ∀ (e e' : Editor D L) (ops : List (Op L)), C01.SafeInv env G e → e.ListInv env → (∀ op ∈ ops, C01.OpValid op) →
      e.run env ops = .ok e' → e'.ListInv env ∧ C01.SafeInv env G e'

/-- **current page < page count — no "or nothing listed" — in every state reached by ANY history** of keys,
    choices, jumps, opening / closing, commit, reset, option / layout / engine / dictionary calls, made while a
    list is open or not, from a state satisfying C01's safety invariant (a fresh editor does: `C01.initial_safe`,
    `list_inv_init`).  Before the FX1 repair this held only with the escape clause (`page_or_empty_anystate`). -/
theorem page_in_range : page_in_range_full := by
  intro D L env G hE hf hca e e' ops
  induction ops generalizing e with
  | nil => intro hs hi _ h; simp only [Editor.run] at h; injection h with h; subst h; exact ⟨hi, hs⟩
  | cons op ops ih =>
    intro hs hi hv h
    simp only [Editor.run] at h
    obtain ⟨e1, h1, hs1⟩ := C01.C01_step hE e op hs (hv op (List.mem_cons_self ..))
    rw [h1] at h; simp only at h
    exact ih e1 hs1 (page_in_range_op env hf hca hs h1 hi) (fun o ho => hv o (List.mem_cons_of_mem _ ho)) h

/-- a freshly created editor satisfies the strict invariant (no list open) -/
theorem list_inv_init (sh : Shared D L) : Editor.ListInv env { shared := sh, state := .entering } := by
  intro s hs; cases hs

/-- no symbol table (the default `symSel := {}`), empty buffers -/
def fx1Start : Editor Unit Nat := { shared := { syl := 0, dict := () } }
/-- the grave key -/
def fx1Ops : List (Op Nat) := [.key { index := 14, code := KC.grave, unicode := 96 }]

/-- the statement's claim: **every open list, of every kind, after every history, lists something and is on a
    page strictly below its page count** (the getters answer: no panic) -/
def open_list_on_a_page_full : Prop :=
  ∀ (D L : Type) (env : Env D L) (G : D → Prop), C01.EnvOK env G → FlushKeepsLookups env → ClearSylKeepsAlt env →
    ∀ (e e' : Editor D L) (ops : List (Op L)) (s : Selecting), C01.SafeInv env G e → e.ListInv env →
      (∀ op ∈ ops, C01.OpValid op) → e.run env ops = .ok e' → e'.state = .selecting s →
      ∃ tp cs, Selecting.totalPage env s e'.shared = .ok tp ∧ s.pageNo < tp ∧
        Selecting.candidates env s e'.shared = .ok cs ∧ cs ≠ []

/-- **FX1 repaired — the full theorem** (was `open_list_on_a_page_refuted`) -/
theorem open_list_on_a_page : open_list_on_a_page_full := by
  intro D L env G hE hf hca e e' ops s hs hi hv hrun hst
  obtain ⟨hl, hs'⟩ := page_in_range D L env G hE hf hca e e' ops hs hi hv hrun
  have hsel : C01.SelInv env False e'.shared s := by
    have := hs'.st; rw [hst] at this; exact this
  obtain ⟨tp, ht, _⟩ := C01.totalPage_ok hE hs'.sh hsel
  obtain ⟨cs, hc, hper, _⟩ := totalPage_ok env ht
  exact ⟨tp, cs, ht, (hl s hst).1 tp ht, hc, listOk_nonempty env (hl s hst).1 hc hper⟩

/-- **the former FX1 witness, evaluated**: with an empty symbol table the grave key is ignored — no list is
    opened, nothing changes but the reported behaviour -/
theorem fx1_history_repaired :
    ∃ e' : Editor Unit Nat, fx1Start.run f32Env fx1Ops = .ok e' ∧ e'.state = .entering ∧
      e'.shared.last = .ignore ∧ e'.shared.com = fx1Start.shared.com ∧ e'.ListInv f32Env :=
  ⟨_, rfl, rfl, rfl, rfl, fun s hs => by cases hs⟩

/-! ## 3. Choosing -/

/-- the index addressed by choosing `n` on the current page is `page·per + n` — for every list a
    `Vec` can hold (shorter than 2⁶⁴) the saturation of the `usize` arithmetic is unobservable -/
theorem offset_item {s : Selecting} {sh : Shared D L} {cs : List Text} (n : Nat) (hlen : cs.length < 2 ^ 64) :
    cs[Selecting.offset s sh n]? = cs[s.pageNo * sh.options.candidatesPerPage + n]? := by
  unfold Selecting.offset
  rcases Nat.le_total (s.pageNo * sh.options.candidatesPerPage + n) (2 ^ 64 - 1) with h | h
  · rw [Nat.min_eq_left h]
  · rw [Nat.min_eq_right h, List.getElem?_eq_none (by omega), List.getElem?_eq_none (by omega)]

/-- … which is item `n` of the page on display (`n < per`) -/
theorem offset_is_page_item {s : Selecting} {sh : Shared D L} {cs : List Text} (n : Nat) (hlen : cs.length < 2 ^ 64)
    (hn : n < sh.options.candidatesPerPage) :
    cs[Selecting.offset s sh n]? = (pageItems cs sh.options.candidatesPerPage s.pageNo)[n]? := by
  rw [offset_item n hlen, Chewing.page_item _ _ _ _ hn]

/-- **an out-of-range index is rejected without any change** — every kind of list: the selector,
    the page and the whole shared state come back as they were, the answer is Bell -/
theorem choose_out_of_range_rejected {s : Selecting} {sh : Shared D L} {cs : List Text} {n : Nat}
    (hc : Selecting.candidates env s sh = .ok cs) (h : cs.length ≤ Selecting.offset s sh n) :
    Selecting.select env s sh n = .ok (s, sh, .spin .bell) := by
  unfold Selecting.select
  simp only [hc]
  rw [if_pos h]

/-- … at the API (`Editor::select` = `chewing_cand_choose_by_index`): `Err`, the editor is unchanged
    except that the last key behaviour reads Bell -/
theorem editor_choose_out_of_range {e : Editor D L} {s : Selecting} {cs : List Text} {n : Nat}
    (hs : e.state = .selecting s) (hc : Selecting.candidates env s e.shared = .ok cs)
    (h : cs.length ≤ Selecting.offset s e.shared n) :
    e.select env n = .ok ({ e with shared := { e.shared with last := .bell } }, false) := by
  unfold Editor.select
  rw [hs]
  simp only [choose_out_of_range_rejected env hc h, applyTrans_spin]
  rw [← hs]
  -- `self.state.is_entering() && last == Absorb` (C01's fix of `Editor::select`): the last behaviour is Bell
  simp only [show (KB.bell == KB.absorb) = false by decide, Bool.and_false, Bool.false_eq_true, ↓reduceIte]
  rfl

/-- a choice closes the list, or is rejected with nothing changed, or (symbol table: a category with
    a sub-table) keeps the list open on page 0 with the buffer untouched — nothing else -/
theorem choose_outcomes {s s' : Selecting} {sh sh' : Shared D L} {t : Trans} {n : Nat}
    (h : Selecting.select env s sh n = .ok (s', sh', t)) :
    t = .toState .entering ∨ (t = .spin .bell ∧ sh' = sh ∧ s' = s) ∨ (t = .spin .absorb ∧ sh' = sh ∧ s'.pageNo = 0) :=
  (select_shape env s sh n).elim h

/-- **choosing index `n` of a phrase list places exactly item `page·per + n`**: the interval
    `begin..end ↦ that string` is pushed as a selection, the saved cursor is restored (then moved right
    if `auto_shift_cursor`), the list closes; nothing else of the shared state changes -/
theorem choose_phrase {s : Selecting} {sh : Shared D L} {p : PhraseSel} {cs : List Text} {n : Nat} {ph : Text}
    {com : CompEditor}
    (hsel : s.sel = .phrase p) (hc : PhraseSel.candidates env p sh.dict sh.syl = .ok cs)
    (hget : cs[Selecting.offset s sh n]? = some ph) (hcom : sh.com.select (p.interval ph) = .ok com) :
    Selecting.select env s sh n =
      .ok (s, { sh with com := if sh.options.autoShiftCursor then com.popCursor.moveRight else com.popCursor },
           .toState .entering) := by
  have hlt : ¬ cs.length ≤ Selecting.offset s sh n := by
    intro hle; rw [List.getElem?_eq_none hle] at hget; cases hget
  unfold Selecting.select
  simp only [Selecting.candidates, hsel, hc, hget, hcom]
  rw [if_neg hlt]

/-- what pushing the chosen interval does to the buffer (C04): the new choice replaces exactly the
    earlier choices it overlaps; symbols, cursor and saved cursors are untouched -/
theorem choose_places {e e' : CompEditor} {iv : Interval} (h : e.select iv = .ok e') :
    e'.inner.selections = e.inner.selections.filter (fun s => !s.intersect iv) ++ [iv] ∧
    e'.inner.symbols = e.inner.symbols ∧ e'.cursor = e.cursor ∧ e'.stack = e.stack ∧
    (∀ x, x ∈ e'.inner.selections ↔ x = iv ∨ (x ∈ e.inner.selections ∧ x.intersect iv = false)) := by
  unfold CompEditor.select at h
  split at h
  · cases h
  · obtain ⟨c, hc, rfl⟩ := C04.withInner_ok h
    exact ⟨C04.pushSelection_selections _ _ _ hc, C04.pushSelection_symbols hc, rfl, rfl,
      fun x => C04.push_replaces_only_overlapping _ _ _ hc x⟩

/-- the string placed is the chosen one, over exactly the highlighted range -/
theorem interval_is_range (p : PhraseSel) (ph : Text) :
    (p.interval ph).start = p.begin_ ∧ (p.interval ph).stop = p.end_ ∧ (p.interval ph).text = ph ∧
    (p.interval ph).isPhrase = true := ⟨rfl, rfl, rfl, rfl⟩

/-- an in-range choice on a phrase list closes the list -/
theorem choose_phrase_closes {s s' : Selecting} {sh sh' : Shared D L} {t : Trans} {p : PhraseSel} {cs : List Text} {n : Nat}
    (hsel : s.sel = .phrase p) (hc : PhraseSel.candidates env p sh.dict sh.syl = .ok cs)
    (hin : Selecting.offset s sh n < cs.length) (h : Selecting.select env s sh n = .ok (s', sh', t)) :
    t = .toState .entering := by
  have hget : cs[Selecting.offset s sh n]? = some cs[Selecting.offset s sh n] := List.getElem?_eq_getElem hin
  unfold Selecting.select at h
  simp only [Selecting.candidates, hsel, hc, hget] at h
  rw [if_neg (by omega)] at h
  split at h
  · injection h with h; injection h with _ h; injection h with _ h; exact h.symm
  · cases h
  · cases h

/-- at the API: an in-range choice on a phrase list closes the list -/
theorem editor_choose_closes {e e' : Editor D L} {s : Selecting} {p : PhraseSel} {cs : List Text} {n : Nat} {okk : Bool}
    (hs : e.state = .selecting s) (hsel : s.sel = .phrase p)
    (hc : PhraseSel.candidates env p e.shared.dict e.shared.syl = .ok cs)
    (hin : Selecting.offset s e.shared n < cs.length) (h : e.select env n = .ok (e', okk)) :
    e'.state = .entering := by
  unfold Editor.select at h
  rw [hs] at h
  simp only at h
  split at h
  · rename_i s' sh t hq
    have ht := choose_phrase_closes env hsel hc hin hq
    subst ht
    rw [applyTrans_to] at h
    simp only at h
    split at h
    · injection h with h; injection h with h1 _; subst h1; rfl
    · cases h
    · cases h
  · cases h
  · cases h

/-- **special-symbol list**: an in-range choice inserts / replaces exactly the listed character,
    restores the saved cursor and closes the list -/
theorem choose_special {s : Selecting} {sh : Shared D L} {sym0 : Sym} {cs : List Text} {n : Nat}
    (hsel : s.sel = .special sym0) (hm : specialMenu sym0 = .ok cs)
    (hin : Selecting.offset s sh n < cs.length) :
    ∃ ch, cs[Selecting.offset s sh n]? = some [ch] ∧
      Selecting.select env s sh n = placeSymbol s sh (.chr ch) := Chewing.choose_special env hsel hm hin

/-- **symbol table**, inside a category: the listed character is placed; at the top level a plain
    entry places its first character, a category with a sub-table that holds symbols opens it on page 0 with
    the buffer untouched, and (FX1 repair) a category WITHOUT symbols closes the list: nothing is inserted, the
    saved cursor is restored -/
theorem choose_symbol {s : Selecting} {sh : Shared D L} {y : SymSel} {n : Nat} (hsel : s.sel = .symbol y) :
    (∀ c row, y.cursor = some c → y.table[c]? = some row → Selecting.offset s sh n < row.length →
      Selecting.candidates env s sh = .ok (row.map fun ch => [ch]) ∧
      Selecting.select env s sh n =
        (placeSymbol s sh (.chr (row[Selecting.offset s sh n]?.getD 0))).map
          fun (_, sh', t) => ({ s with sel := .symbol { y with cursor := none } }, sh', t)) ∧
    (∀ name idx row, y.cursor = none → y.category[Selecting.offset s sh n]? = some (name, some idx) →
      y.table[idx % 256]? = some row → row ≠ [] →
      Selecting.select env s sh n =
        .ok ({ s with sel := .symbol { y with cursor := some (idx % 256) }, pageNo := 0 }, sh, .spin .absorb)) ∧
    (∀ name idx, y.cursor = none → y.category[Selecting.offset s sh n]? = some (name, some idx) →
      y.table[idx % 256]? = some [] →
      Selecting.select env s sh n =
        .ok ({ s with sel := .symbol { y with cursor := some (idx % 256) }, pageNo := 0 },
             Shared.cancelSelecting sh, .toState .entering)) ∧
    (∀ name ch, y.cursor = none → y.category[Selecting.offset s sh n]? = some (name, none) → name.head? = some ch →
      Selecting.select env s sh n =
        (placeSymbol s sh (.chr ch)).map fun (_, sh', t) => ({ s with sel := .symbol { y with cursor := none } }, sh', t)) := by
  refine ⟨?_, fun name idx row hcur hcat hrow hne => choose_symbol_descend env hsel hcur hcat hrow hne,
    fun name idx hcur hcat hrow => choose_symbol_empty_category env hsel hcur hcat hrow,
    fun name ch hcur hcat hch => choose_symbol_plain env hsel hcur hcat hch⟩
  intro c row hcur hrow hin
  have := choose_symbol_leaf env hsel hcur hrow hin
  rw [List.getElem?_eq_getElem hin]
  exact this

/-! ## 4. Completeness of a phrase list -/

/-- the symbols of the range are all syllables, with these codes -/
def RangeIs (p : PhraseSel) (key : List Nat) : Prop :=
  sliceSyms p.com.symbols p.begin_ p.end_ = .ok (key.map Sym.syl)

theorem sylPrefix_map (key : List Nat) : sylPrefix (key.map Sym.syl) = key := by
  induction key with
  | nil => rfl
  | cons k ks ih => simp only [List.map, sylPrefix, ih]

/-- **a phrase list is complete**: for a range of syllables `key`, the list is exactly the strings of
    the dictionary's answer for `key` (all layers; `env.lookupAll` = `Layered::lookup_all_phrases`), in
    order — followed, for a single syllable, by the answers for the layout's alternative syllables -/
theorem phrase_list_complete {p : PhraseSel} {d : D} {l : L} {key : List Nat} {cs : List Text}
    (hr : RangeIs p key) (hc : PhraseSel.candidates env p d l = .ok cs) :
    (p.end_ - p.begin_ ≠ 1 → cs = (env.lookupAll d key p.strategy).map (·.text)) ∧
    (p.end_ - p.begin_ = 1 → ∃ c, p.com.symbol? p.begin_ = some (.syl c) ∧
      cs = (env.lookupAll d key p.strategy).map (·.text) ++
           (env.altSyllables l c).flatMap fun a => (env.lookupAll d [a] p.strategy).map (·.text)) ∧
    (∀ ph ∈ env.lookupAll d key p.strategy, ph.text ∈ cs) := by
  unfold RangeIs at hr
  unfold PhraseSel.candidates at hc
  rw [hr] at hc
  simp only [sylPrefix_map] at hc
  split at hc
  · rename_i h1
    have h1' : p.end_ - p.begin_ = 1 := by simpa using h1
    split at hc
    · rename_i c hsym
      injection hc with hc
      refine ⟨fun hne => absurd h1' hne, fun _ => ⟨c, hsym, hc.symm⟩, ?_⟩
      intro ph hph; rw [← hc]
      exact List.mem_append_left _ (List.mem_map_of_mem hph)
    · cases hc
    · cases hc
  · rename_i h1
    have h1' : p.end_ - p.begin_ ≠ 1 := by simpa using h1
    injection hc with hc
    refine ⟨fun _ => hc.symm, fun h => absurd h h1', ?_⟩
    intro ph hph; rw [← hc]
    exact List.mem_map_of_mem hph

/-! ### the highlighted range is made of syllables (F40 repaired; an invariant of every operation) -/

/-- the hypothesis-free form of the claim (every environment, every initial shared state, no exclusion): in
    every state reached by a history that returns, the range of an open phrase list consists of syllables.
    Stronger than the property needs (it also speaks about environments whose dictionary breaks its own
    contract and about the recorded class F02/F03 of C01); neither proved nor refuted. -/
def range_is_syllables_unconditional : Prop :=
  ∀ (D L : Type) (env : Env D L) (e e' : Editor D L) (ops : List (Op L)) (s : Selecting) (p : PhraseSel),
    e.state = .entering → e.run env ops = .ok e' → e'.state = .selecting s → s.sel = .phrase p →
    ∃ key, RangeIs p key

/-- **the claim behind "exactly the highlighted syllables"**: for every environment satisfying C01's explicit
    hypotheses `EnvOK`, from every state satisfying the reachable-state invariant (`C01.initial_inv`: a fresh
    editor does), after EVERY history of valid public operations outside C01's recorded class F02/F03
    (`C01.Allowed`) — keys in all states incl. Down / Space cycling through the ranges, `select(n)`,
    start / cancel selecting, commit, reset, option / layout / engine / dictionary calls, and the four
    `jump_to_*_selection_point` calls while a phrase list is open — the range of an open phrase list is a
    non-empty run of syllables inside the selector's buffer, which is the editor's buffer -/
def range_is_syllables_full : Prop :=
  ∀ (D L : Type) (env : Env D L) (G : D → Prop), C01.EnvOK env G →
    ∀ (e e' : Editor D L), C01.EditorInv env G True e → ∀ (ops : List (Op L)), C01.Allowed env e ops →
    ∀ (s : Selecting) (p : PhraseSel), e.run env ops = .ok e' → e'.state = .selecting s → s.sel = .phrase p →
    p.begin_ < p.end_ ∧ p.end_ ≤ p.com.symbols.length ∧ C04.AllSyl p.com p.begin_ p.end_ ∧
    p.com = e'.shared.com.inner ∧ ∃ key, RangeIs p key ∧ key.length = p.end_ - p.begin_

/-- a run of syllables inside the buffer is a `RangeIs` range -/
theorem rangeIs_of_allSyl {p : PhraseSel} (hlt : p.begin_ < p.end_) (hle : p.end_ ≤ p.com.symbols.length)
    (hsyl : C04.AllSyl p.com p.begin_ p.end_) : ∃ key, RangeIs p key ∧ key.length = p.end_ - p.begin_ := by
  have hall : ∀ (l : List Sym), (∀ i, i < l.length → ∃ k, l[i]? = some (Sym.syl k)) → ∃ key : List Nat, l = key.map Sym.syl := by
    intro l
    induction l with
    | nil => intro _; exact ⟨[], rfl⟩
    | cons x xs ih =>
      intro h
      obtain ⟨k, hk⟩ := h 0 (by simp)
      obtain ⟨ks, hks⟩ := ih (fun i hi => by
        obtain ⟨k', hk'⟩ := h (i + 1) (by simp only [List.length_cons]; omega)
        exact ⟨k', by simpa using hk'⟩)
      simp only [List.getElem?_cons_zero, Option.some.injEq] at hk
      exact ⟨k :: ks, by rw [hk, hks]; rfl⟩
  obtain ⟨key, hkey⟩ := hall ((p.com.symbols.drop p.begin_).take (p.end_ - p.begin_)) (by
    intro i hi
    simp only [List.length_take, List.length_drop] at hi
    obtain ⟨k, hk⟩ := hsyl (p.begin_ + i) (by omega) (by omega)
    refine ⟨k, ?_⟩
    rw [List.getElem?_take_of_lt (by omega), List.getElem?_drop]
    exact hk)
  refine ⟨key, ?_, ?_⟩
  · unfold RangeIs sliceSyms
    rw [if_neg (by omega), if_neg (by omega), hkey]
  · have := congrArg List.length hkey
    simp only [List.length_take, List.length_drop, List.length_map] at this
    omega

/-- in a state satisfying C01's invariant the range of an open phrase list is a run of syllables -/
theorem range_of_inv {D L : Type} {env : Env D L} {G : D → Prop} {e : Editor D L} (hi : C01.EditorInv env G True e)
    {s : Selecting} {p : PhraseSel} (hs : e.state = .selecting s) (hsel : s.sel = .phrase p) :
    p.begin_ < p.end_ ∧ p.end_ ≤ p.com.symbols.length ∧ C04.AllSyl p.com p.begin_ p.end_ ∧
    p.com = e.shared.com.inner ∧ ∃ key, RangeIs p key ∧ key.length = p.end_ - p.begin_ := by
  have hst := hi.st
  rw [hs] at hst
  have hp := hst.sel
  rw [hsel] at hp
  exact ⟨hp.lt, hp.le, hp.syl, hp.com, rangeIs_of_allSyl hp.lt hp.le hp.syl⟩

/-- **the range of an open phrase list consists of syllables, in every state reached** (the full claim;
    before C01's proofs covered the jumps this was `range_is_syllables_partial`, which excluded
    `jump_to_*_selection_point` on an open phrase list — the corner where finding F40/F41 lived: repaired
    by `fix: init_single_word remembers the position of the word`, `f40_history_repaired` below evaluates
    the former witness history; the oracle reports any range with a non-syllable as `new`) -/
theorem range_is_syllables : range_is_syllables_full := by
  intro D L env G hE e e' hi ops ha s p hrun hs hsel
  obtain ⟨e'', hrun', hi'⟩ := C01.C01_partial_run hE ops e hi ha
  have : e'' = e' := C01.ok_unique hrun' hrun
  subst this
  exact range_of_inv hi' hs hsel

/-- a layout whose keys 32, Space spell syllable 1; one word for it -/
def f40Env : Env Unit Nat :=
  { toyEnv with
    lookupAll := fun _ k _ => if k = [1] then [⟨[28204], 1, none⟩] else []
    keyPress := fun l ev => if ev.code = 32 then (.absorb, 1) else if ev.code = 48 then (.commit, l) else (.keyError, l)
    read := fun _ => 1 }

/-- simple engine, buffer "？" with the cursor in front of it -/
def f40Start : Editor Unit Nat :=
  { shared := { syl := 0, dict := (),
                com := { cursor := 0, inner := { symbols := [.chr 65311], gaps := [.begin] } },
                options := { conversionEngine := .simple } } }

/-- type one syllable (the simple engine opens its single-word list), then `chewing_cand_list_first` -/
def f40Ops : List (Op Nat) :=
  [.key { index := 32, code := 32, unicode := 104 }, .key { index := 48, code := 48, unicode := 32 }, .jump 0]

/-- **F40 repaired** (was `f40_witness` / `range_is_syllables_refuted`: the range became
    `syllable + "？"`): after `jump_to_first_selection_point` on the simple engine's single-word list the
    range is still the syllable alone, and the list is that syllable's -/
theorem f40_history_repaired :
    ∃ (e' : Editor Unit Nat) (s : Selecting) (p : PhraseSel),
      f40Start.run f40Env f40Ops = .ok e' ∧ e'.state = .selecting s ∧ s.sel = .phrase p ∧
      p.begin_ = 0 ∧ p.end_ = 1 ∧ p.com.symbols = [.syl 1, .chr 65311] ∧ RangeIs p [1] ∧
      Selecting.candidates f40Env s e'.shared = .ok [[28204]] :=
  ⟨_, _, _, rfl, rfl, rfl, rfl, rfl, rfl, rfl, rfl⟩

/-- **a phrase list is complete — without the premise `RangeIs`**: in every state satisfying C01's
    reachable-state invariant (hence, by `range_is_syllables` / `C01_partial_run`, in every state reached by
    a history outside C01's recorded class) the highlighted symbols ARE syllables `key`, one per position of
    the range, and the list is exactly the dictionary's answer for `key`, in order — followed, for a single
    syllable, by the answers for the layout's alternative syllables -/
theorem open_phrase_list_complete {D L : Type} {env : Env D L} {G : D → Prop} {e : Editor D L}
    (hi : C01.EditorInv env G True e) {s : Selecting} {p : PhraseSel} {cs : List Text}
    (hs : e.state = .selecting s) (hsel : s.sel = .phrase p) (hc : Selecting.candidates env s e.shared = .ok cs) :
    ∃ key, RangeIs p key ∧ key.length = p.end_ - p.begin_ ∧
      (p.end_ - p.begin_ ≠ 1 → cs = (env.lookupAll e.shared.dict key p.strategy).map (·.text)) ∧
      (p.end_ - p.begin_ = 1 → ∃ c, p.com.symbol? p.begin_ = some (.syl c) ∧
        cs = (env.lookupAll e.shared.dict key p.strategy).map (·.text) ++
             (env.altSyllables e.shared.syl c).flatMap fun a => (env.lookupAll e.shared.dict [a] p.strategy).map (·.text)) ∧
      (∀ ph ∈ env.lookupAll e.shared.dict key p.strategy, ph.text ∈ cs) := by
  obtain ⟨_, _, _, _, key, hr, hlen⟩ := range_of_inv hi hs hsel
  have hc' : PhraseSel.candidates env p e.shared.dict e.shared.syl = .ok cs := by
    unfold Selecting.candidates at hc; rw [hsel] at hc; exact hc
  exact ⟨key, hr, hlen, phrase_list_complete env hr hc'⟩

/-- … over histories: every open phrase list reached is complete -/
theorem phrase_list_complete_reached {D L : Type} {env : Env D L} {G : D → Prop} (hE : C01.EnvOK env G)
    (e e' : Editor D L) (hi : C01.EditorInv env G True e) (ops : List (Op L)) (ha : C01.Allowed env e ops)
    {s : Selecting} {p : PhraseSel} {cs : List Text}
    (hrun : e.run env ops = .ok e') (hs : e'.state = .selecting s) (hsel : s.sel = .phrase p)
    (hc : Selecting.candidates env s e'.shared = .ok cs) :
    ∃ key, RangeIs p key ∧ key.length = p.end_ - p.begin_ ∧
      ∀ ph ∈ env.lookupAll e'.shared.dict key p.strategy, ph.text ∈ cs := by
  obtain ⟨e'', hrun', hi'⟩ := C01.C01_partial_run hE ops e hi ha
  have : e'' = e' := C01.ok_unique hrun' hrun
  subst this
  obtain ⟨key, h1, h2, _, _, h5⟩ := open_phrase_list_complete hi' hs hsel hc
  exact ⟨key, h1, h2, h5⟩

/-! ### the opened range is the longest one with a phrase; the selector loops terminate -/

/-- the range query reads the selector's buffer and strategy only -/
theorem rangeHasPhrase_range (s : PhraseSel) (d : D) (b e x y : Nat) :
    PhraseSel.rangeHasPhrase env { s with begin_ := x, end_ := y } d b e = PhraseSel.rangeHasPhrase env s d b e := rfl

/-- the shrinking loop of `PhraseSelector::init` stops at the FIRST range that has a phrase: choosing
    forward it keeps the beginning and every longer range up to the initial end has none; choosing rearward
    it keeps the end and every longer range down to the initial beginning has none
    (proof in `Proofs/EditorOpenList.lean`) -/
theorem initLoop_longest (d : D) : ∀ (fuel : Nat) (s s' : PhraseSel), PhraseSel.initLoop env s d fuel = .ok s' →
    (s.forward = true → s'.begin_ = s.begin_ ∧
      ∀ e', s'.end_ < e' → e' ≤ s.end_ → PhraseSel.rangeHasPhrase env s d s.begin_ e' = .ok false) ∧
    (s.forward = false → s'.end_ = s.end_ ∧
      ∀ b', s.begin_ ≤ b' → b' < s'.begin_ → PhraseSel.rangeHasPhrase env s d b' s.end_ = .ok false) :=
  _root_.Chewing.initLoop_longest env d

/-- **the range a phrase list is opened with** (Down / Space / `chewing_cand_open`, `j` / `k`,
    `chewing_cand_list_first`: `PhraseSelector::init`) **is the longest one at the cursor that has a
    phrase**: it has a phrase or is the one-syllable range of a syllable without a word (`init_range`), and — choosing forward — it starts at the cursor and no longer
    range up to the next break point has one; choosing rearward it ends after the cursor and no longer range
    down to the previous break point has one.  (Shorter ranges follow with Down / Space.)  For every
    environment; what the oracle's check D evaluates on the real editor. -/
theorem opened_range_longest {fw : Bool} {st : Strategy} {com : Composition} {cur : Nat} {d : D} {p : PhraseSel}
    (h : PhraseSel.init env fw st com cur d = .ok p) :
    (fw = true → p.begin_ = (if cur == com.len then cur - 1 else cur) ∧
      ∀ e', p.end_ < e' → e' ≤ p.nextBreakPoint cur → PhraseSel.rangeHasPhrase env p d p.begin_ e' = .ok false) ∧
    (fw = false → p.end_ = min (cur + 1) com.len ∧
      ∀ b', p.afterPreviousBreakPoint cur ≤ b' → b' < p.begin_ → PhraseSel.rangeHasPhrase env p d b' p.end_ = .ok false) :=
  _root_.Chewing.opened_range_longest env h

/-! ## non-vacuity -/

/-- the list the witness history opens: two candidates, one per page, two pages, in range on page 0 and 1 -/
example : ∃ (e' : Editor Unit Nat) (s : Selecting),
    f32Start.run f32Env (f32Ops.take 2) = .ok e' ∧ e'.state = .selecting s ∧ s.pageNo = 1 ∧
    Selecting.totalPage f32Env s e'.shared = .ok 2 ∧ e'.PageInv f32Env := by
  refine ⟨_, _, rfl, rfl, rfl, rfl, ?_⟩
  exact page_or_empty_anystate Unit Nat f32Env (fun _ _ _ => rfl) (fun _ _ => rfl) f32Start _ (f32Ops.take 2) (page_inv_init f32Env _) rfl

/-- `open_list_on_a_page` is not vacuous: C01's toy environment satisfies every hypothesis, the fresh editor both
    invariants, and the history "type syllable 3, Down" ends with an open list — of one candidate, on page 0 of 1 -/
example : ∃ (e' : Editor (List Nat) Nat) (s : Selecting),
    (C01.stdEditor [3]).run C01.toyEnv [.key C01.keyJ, .key C01.keyJ, .key C01.keyDown] = .ok e' ∧
    e'.state = .selecting s ∧
    ∃ tp cs, Selecting.totalPage C01.toyEnv s e'.shared = .ok tp ∧ s.pageNo < tp ∧
      Selecting.candidates C01.toyEnv s e'.shared = .ok cs ∧ cs ≠ [] := by
  refine ⟨_, _, rfl, rfl, ?_⟩
  exact open_list_on_a_page _ _ C01.toyEnv _ C01.toyEnv_ok (fun _ _ _ => rfl) (fun _ _ => rfl) (C01.stdEditor [3]) _
    [.key C01.keyJ, .key C01.keyJ, .key C01.keyDown] _ (C01.stdEditor_inv [3]) (list_inv_init C01.toyEnv _)
    (by intro op _; cases op <;> trivial) rfl rfl

/-- choosing index 0 on page 1 (per page 1) of that list places the second word -/
example : ∃ (e1 : Editor Unit Nat) (s : Selecting) (x : Selecting × Shared Unit Nat × Trans),
    f32Start.run f32Env (f32Ops.take 2) = .ok e1 ∧ e1.state = .selecting s ∧
    Selecting.select f32Env s e1.shared 0 = .ok x ∧ x.2.2 = .toState .entering ∧
    x.2.1.com.inner.selections = [⟨0, 1, true, [31574]⟩] :=
  ⟨_, _, _, rfl, rfl, rfl, rfl, rfl⟩

/-- an out-of-range index (also `usize::MAX` = `-1` of the C API) on that list is rejected -/
example : ∃ (e1 : Editor Unit Nat), f32Start.run f32Env (f32Ops.take 2) = .ok e1 ∧
    (e1.select f32Env 1).map (·.2) = .ok false ∧ (e1.select f32Env (2 ^ 64 - 1)).map (·.2) = .ok false ∧
    (e1.select f32Env 1).map (·.1.state) = .ok e1.state :=
  ⟨_, rfl, rfl, rfl, rfl⟩

/-- type a syllable twice, Home, open the list (`PhraseSelector::init` shrinks 0..2 to 0..1), the four jumps
    (`prev_selection_point` searches up to the break point, `next_selection_point` / `jump_to_last` stop at
    the one-syllable range), Down (`PhraseSelector::next` wraps around) -/
def jumpOps : List (Op Nat) :=
  [.key C01.keyJ, .key C01.keyJ, .key C01.keyJ, .key C01.keyJ, .key C01.keyHome,
   .startSelecting, .jump 3, .jump 2, .jump 1, .jump 0, .key C01.keyDown]

/-- `range_is_syllables` / `phrase_list_complete_reached` are not vacuous: C01's toy environment satisfies
    `EnvOK`, a fresh editor the invariant, and the history `jumpOps` is allowed and leaves a phrase list open -/
example : ∃ e' s p cs,
    (C01.stdEditor [3]).run C01.toyEnv jumpOps = .ok e' ∧
    e'.state = .selecting s ∧ s.sel = .phrase p ∧ Selecting.candidates C01.toyEnv s e'.shared = .ok cs ∧
    (p.begin_, p.end_) = (0, 1) ∧ p.com.symbols = [.syl 3, .syl 3] ∧ cs = [[3]] ∧
    (∃ key, RangeIs p key ∧ key.length = p.end_ - p.begin_ ∧
      ∀ ph ∈ C01.toyEnv.lookupAll e'.shared.dict key p.strategy, ph.text ∈ cs) := by
  refine ⟨_, _, _, _, rfl, rfl, rfl, rfl, rfl, rfl, rfl, ?_⟩
  exact phrase_list_complete_reached C01.toyEnv_ok (C01.stdEditor [3]) _ (C01.stdEditor_inv [3]) jumpOps
    (C01.allowed_of_plain jumpOps _ (by
      intro op hop
      simp only [jumpOps, List.mem_cons, List.not_mem_nil, or_false] at hop
      rcases hop with rfl | rfl | rfl | rfl | rfl | rfl | rfl | rfl | rfl | rfl | rfl <;> trivial))
    rfl rfl rfl rfl

/-- `opened_range_longest` is not vacuous: two equal syllables, a word for the syllable but no two-syllable
    phrase — `init` at position 0 (forward) answers 0..1, and the longer range 0..2 has no phrase -/
example : ∃ p, PhraseSel.init f32Env true .standard { symbols := [.syl 1, .syl 1], gaps := [.begin, .normal] } 0 () = .ok p ∧
    (p.begin_, p.end_) = (0, 1) ∧ p.nextBreakPoint 0 = 2 ∧ PhraseSel.rangeHasPhrase f32Env p () 0 2 = .ok false :=
  ⟨_, rfl, rfl, rfl, rfl⟩

/-- the second alternative of `init_range` is inhabited (F02 / F03 repair): a syllable the dictionary has no
    word for keeps its one-syllable range, and the range query answers "no phrase" -/
example : ∃ p, PhraseSel.init f32Env true .standard { symbols := [.syl 2], gaps := [.begin] } 0 () = .ok p ∧
    (p.begin_, p.end_) = (0, 1) ∧ PhraseSel.WordlessSyl f32Env p () :=
  ⟨_, rfl, rfl, rfl, rfl, _, rfl, rfl⟩

example : pageCount 7 3 = 3 ∧ pageItems [1, 2, 3, 4, 5, 6, 7] 3 2 = [7] ∧ pageCount 6 3 = 2 ∧ pageCount 0 3 = 0 := by decide

end Chewing.C07
