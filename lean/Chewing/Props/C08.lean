import Chewing.Proofs.LearnBound
import Chewing.Proofs.LearnLink
import Chewing.Proofs.LearnLinkEditor
import Chewing.Proofs.EditorLink
/-!
# C08 — Committed choices are learned, persist, and eventually become the default

Model: `Model/Estimate.lean` (`LaxUserFreqEstimate::estimate` with its `u32`/`u64` guards), `Model/Learn.lean`
(`learn_phrase`, `auto_learn`, `commit`'s learning effect, the layer merge of `Layered`, `find_best_phrase`
without selections, `trim_paths`), numeric constants and the break-word list regenerated from the source
(`Gen/Estimate.lean`, `Gen/BreakWords.lean`, `Gen/TopScore.lean`).

Clauses of the statement and the theorems that carry them

* "records every multi-character phrase … (and an explicitly chosen single character) under its syllables":
  `learn_records` + `multi_char_is_unit`, `break_word_is_unit`, `lone_single_is_unit`, `single_run_is_unit`.
  The strict reading (every single character under its own syllable) is false for the code by design —
  `records_strict_refuted` — the exception set is exactly: a non-break single character with a non-break
  single-character neighbour is recorded only inside the concatenated run.
* "with a frequency not lower than before": `learn_monotone`, `commit_monotone` (and no panic on that path).
* "from then on … offered as a candidate": `learned_is_candidate` (merged lookup lists it) and, on the editor
  model, `learned_is_candidate_linked` / `learned_in_open_list_linked` / `learned_is_candidate_typed_alone_linked`
  (C07's `phrase_list_complete` + C09's `layered_over_map`: the list `PhraseSelector::candidates` shows on those
  syllables contains the phrase; link hypothesis: the environment's lookup is `Layered` over a user layer denoting
  the `UserMap`); "also after close and reopen": `learned_persists` (explicit hypothesis), `learned_persists_linked`
  (discharged by C10/C09), `learned_is_candidate_after_reopen_linked` (… and still in the candidate list).
* "repeating … a bounded number of times (≤ 64) makes X the default": `becomes_top` (50 learnings suffice for
  every pair of frequencies up to 1 000 000, by a monotone-gap induction, no pair enumeration),
  `bound_within_64`, `top_is_default`, `becomes_default` (graph hypotheses), and without graph hypotheses on C03's
  engine model: `top_is_default_linked`, `top_is_default_env_linked`, `becomes_default_linked`,
  `becomes_default_layered_linked`
  (`Proofs/LearnLinkEditor.lean`).
* "with auto-learning disabled, committing never changes the user dictionary": `no_learn_when_disabled`.
* the bare public function: `estimate_no_panic` (exact precondition; F07 witnesses as examples), `estimate_editor_path` /
  `estimate_rising_le_max` (F40 repaired: no panic and a result within `MAX_USER_FREQ` for every `u32` frequency),
  `estimate_future_time` (F07's time subtraction repaired).
-/
namespace Chewing.C08
open Chewing Chewing.Learn Gen.Est Gen.Learn

/-! ## The bare function `LaxUserFreqEstimate::estimate` (F07 is recorded against it, not against C08)

After the repair of F40 and of F07's time subtraction (`fix:` commit in the repository: `saturating_add` before the
clamp, `saturating_sub` for the time difference) the only operations left that can fail are the plain `u32`
subtractions `max_freq - orig_freq` (rising bands) and `freq - orig_freq`, `freq - delta` (long-gap band). -/

/-- `estimate` returns a value — no `u32` operation overflows or underflows, so debug and release profiles
    agree — exactly under `EstimatePre`: `orig ≤ max` in a rising band, `orig ≤ freq` and `delta ≤ freq` in the
    long-gap band.  No condition on the stored time or on the size of the stored frequency any more. -/
theorem estimate_no_panic (lifetime freq : Nat) (lastUsed : Option Nat) (orig maxF : Nat) :
    (estimate lifetime freq lastUsed orig maxF).isOk = true ↔ EstimatePre lifetime freq lastUsed orig maxF :=
  estimate_isOk_iff lifetime freq lastUsed orig maxF

/-- F07, witness 1 (still open, unreachable from the editor): stored time 0 at lifetime 100 000 (long-gap band)
    with frequency 5 < 10 -/
example : estimate 100000 5 (some 0) 0 0 = .panic "estimate: freq - delta" := by decide
/-- F07, witness 2 — repaired: a stored time in the future is "just used" -/
example : estimate 100 5 (some 101) 5 5 = .ok 6 := by decide
/-- **F07 (time) repaired, for all inputs**: a stored time at or after the clock runs the short band; it panics
    only if `orig > max` -/
theorem estimate_future_time (lifetime freq t orig maxF : Nat) (h : lifetime ≤ t) :
    estimate lifetime freq (some t) orig maxF = risingBand shortDiv shortPlus shortInc freq orig maxF :=
  estimate_future_timestamp lifetime freq t orig maxF h
/-- the precondition is satisfiable in every band -/
example : (estimate 100 5 (some 90) 5 9).isOk = true ∧ (estimate 10000 5 (some 90) 5 9).isOk = true
    ∧ (estimate 100000 50 (some 90) 5 9).isOk = true := by decide

/-- the editor path (`learn_phrase`: no timestamp, `orig_freq = phrase.freq() ≤ max_freq`) only ever runs the short
    band and cannot panic — **for every stored frequency** (F40 repaired: the head-room hypothesis
    `max_freq + 10 ≤ u32::MAX` of the unrepaired code is gone); stored times never influence learning -/
theorem estimate_editor_path (lifetime f mx : Nat) (h : f ≤ mx) :
    estimate lifetime f none f mx = .ok (stepFreq f mx) :=
  estimate_editor lifetime f mx h

/-- **F40 repaired**: whatever a rising band returns — for all frequencies, `u32::MAX` included — is within
    `MAX_USER_FREQ`; in particular the editor path never stores more than `MAX_USER_FREQ` -/
theorem estimate_rising_le_max (div plus inc f o m v : Nat) (h : risingBand div plus inc f o m = .ok v) :
    v ≤ maxUserFreq :=
  risingBand_le_max div plus inc f o m v h

/-- the former F40 witness (stored frequency `u32::MAX`, any clock): clamped, not a panic -/
example : estimate 5 4294967295 none 4294967295 4294967295 = .ok 99999999 := by decide

/-- in the two rising bands even the bare function never lowers a frequency within `MAX_USER_FREQ` -/
theorem estimate_rising_monotone (div plus inc f o m v : Nat) (hf : f ≤ maxUserFreq)
    (h : risingBand div plus inc f o m = .ok v) : f ≤ v :=
  risingBand_ge div plus inc f o m v hf h

/-! ## "with a frequency not lower than before" -/

/-- one `learn_phrase` with all stored frequencies within `MAX_USER_FREQ`: it does not panic, no entry of the user
    dictionary disappears or gets a lower frequency, and the bound is kept -/
theorem learn_monotone (ctx : LearnCtx) (u : UserMap) (key : List Nat) (x : Text) (hB : FreqBounded ctx.sys u) :
    ∃ u', learnPhrase ctx u key x = .ok u' ∧ FreqBounded ctx.sys u' ∧
      ∀ k v, u.get? k = some v → ∃ v', u'.get? k = some v' ∧ v.1 ≤ v'.1 :=
  learnPhrase_bounded ctx u key x hB

/-- the learned phrase's new frequency is not below its *merged* frequency either (system layers included) -/
theorem learn_ge_merged (ctx : LearnCtx) (u : UserMap) (key : List Nat) (x : Text)
    (hlen : key.length = x.length) (hx : x ≠ []) (hB : FreqBounded ctx.sys u)
    (hne : (allEntries ctx.sys u key).isEmpty = false) :
    ∃ u' v, learnPhrase ctx u key x = .ok u' ∧ u'.get? (key, x) = some v ∧
      mergedFreq ctx.sys u key x ≤ v.1 ∧ (mergedFreq ctx.sys u key x < maxUserFreq → mergedFreq ctx.sys u key x < v.1) := by
  have hf := mergedFreq_le ctx.sys u key x hB
  have hy := othersMax_le ctx.sys u key x hB
  refine ⟨_, _, learnPhrase_update ctx u key x hlen hx hne,
    UserMap.get?_insert_self _ _ _, learnStep_ge _ _ hf, fun h => stepFreq_gt _ _ h⟩

/-- a whole commit (any number of learn units): no panic, nothing lowered, bound kept -/
theorem commit_monotone (disabled : Bool) (ctx : LearnCtx) (symbols : List Sym) (ivs : List Interval) (u : UserMap)
    (hB : FreqBounded ctx.sys u) (hr : IvsInRange symbols ivs) :
    ∃ u', commitLearn disabled ctx symbols ivs u = .ok u' ∧ FreqBounded ctx.sys u' ∧ MonoStep u u' := by
  unfold commitLearn
  cases disabled with
  | true => exact ⟨u, rfl, hB, MonoStep.refl u⟩
  | false =>
    simp only [Bool.false_eq_true, if_false]
    rw [autoLearn_eq ctx symbols ivs u hr]
    exact learnAll_bounded ctx _ u hB

/-- **F40 repaired, on the commit path**: the learning effect of a commit never panics — for ALL dictionaries,
    i.e. for every stored `u32` frequency and every stored time (a dictionary file of valid format may hold any);
    the bound `FreqBounded` of `commit_monotone` is needed for "nothing lowered" only, not for "no panic" -/
theorem commit_never_panics (disabled : Bool) (ctx : LearnCtx) (symbols : List Sym) (ivs : List Interval) (u : UserMap)
    (hr : IvsInRange symbols ivs) :
    ∃ u', commitLearn disabled ctx symbols ivs u = .ok u' := by
  unfold commitLearn
  cases disabled with
  | true => exact ⟨u, rfl⟩
  | false =>
    simp only [Bool.false_eq_true, if_false]
    rw [autoLearn_eq ctx symbols ivs u hr]
    exact learnAll_total ctx _ u

/-- the former F40 witness on the commit path: a system phrase stored with frequency `u32::MAX` is learned without
    a panic (and clamped to `MAX_USER_FREQ`) -/
example :
    learnPhrase { sys := [([1], { text := [65], freq := 4294967295 })], lifetime := 0 } [] [1] [65]
      = .ok [(([1], [65]), (99999999, 0))] := by decide

/-- the bound is needed: a system frequency above `MAX_USER_FREQ` is *lowered* to it by learning
    (outside the property's quantifier, which stops at 1 000 000) -/
example :
    learnPhrase { sys := [([1], { text := [65], freq := 100000000 })], lifetime := 0 } [] [1] [65]
      = .ok [(([1], [65]), (99999999, 0))] := by decide

/-! ## "records every multi-character phrase … (and an explicitly chosen single character)" -/

/-- strict reading: *every* dictionary-phrase interval of the committed conversion — single characters
    included — is live afterwards under exactly its own syllables -/
def RecordsStrict : Prop :=
  ∀ (ctx : LearnCtx) (symbols : List Sym) (ivs : List Interval) (u u' : UserMap),
    IvsInRange symbols ivs → autoLearn ctx symbols ivs u = .ok u' →
    ∀ iv ∈ ivs, iv.isPhrase = true → iv.text.length = iv.stop - iv.start → iv.text ≠ [] →
      Live u' (keyOf (segOf symbols iv), iv.text)

/-- the code does not satisfy the strict reading: two adjacent single characters (neither a break word) are
    recorded as one two-character phrase, not under their own syllables -/
theorem records_strict_refuted : ¬ RecordsStrict := by
  intro h
  have := h { sys := [], lifetime := 7 } [.syl 1, .syl 2]
    [{ start := 0, stop := 1, isPhrase := true, text := [65] }, { start := 1, stop := 2, isPhrase := true, text := [66] }]
    [] [(([1, 2], [65, 66]), (1, 0))]
    (by intro iv hiv _
        simp only [List.mem_cons, List.not_mem_nil, or_false] at hiv
        rcases hiv with rfl | rfl <;> simp)
    (by decide)
    { start := 0, stop := 1, isPhrase := true, text := [65] } (by simp) rfl rfl (by simp)
  obtain ⟨v, hv, _⟩ := this
  have e : UserMap.get? [(([1, 2], [65, 66]), (1, 0))] (keyOf (segOf [.syl 1, .syl 2]
      { start := 0, stop := 1, isPhrase := true, text := [65] }), [65]) = none := by decide
  rw [e] at hv
  cases hv

/-- **learn_records**: after a commit with auto-learning enabled, every learn unit of the committed conversion
    that is a well-formed phrase (as many characters as syllables, not empty) is live in the user dictionary
    under exactly its syllables, with a positive frequency; and whatever was live before still is -/
theorem learn_records (ctx : LearnCtx) (symbols : List Sym) (ivs : List Interval) (u u' : UserMap)
    (hr : IvsInRange symbols ivs) (h : commitLearn false ctx symbols ivs u = .ok u') :
    (∀ p ∈ learnUnits symbols ivs, p.1.length = p.2.length → p.2 ≠ [] → Live u' p) ∧ (∀ k, Live u k → Live u' k) := by
  unfold commitLearn at h
  simp only [Bool.false_eq_true, if_false] at h
  rw [autoLearn_eq ctx symbols ivs u hr] at h
  obtain ⟨a, b⟩ := learnAll_live ctx _ u u' h
  exact ⟨b, a⟩

/-! a concrete commit: buffer 測試 | 甲 | 乙 | 的 with 測試 known to the system dictionary (frequency 40, homophone at 100) -/
def exSys : List Entry := [([1, 2], { text := [28204, 35430], freq := 40 }), ([1, 2], { text := [20874, 35430], freq := 100 })]
def exUser : UserMap := [(([9], [30002]), (7, 3))]
def exSymbols : List Sym := [.syl 1, .syl 2, .syl 3, .syl 4, .syl 5]
def exIvs : List Interval :=
  [{ start := 0, stop := 2, isPhrase := true, text := [28204, 35430] }, { start := 2, stop := 3, isPhrase := true, text := [30002] },
   { start := 3, stop := 4, isPhrase := true, text := [20057] }, { start := 4, stop := 5, isPhrase := true, text := [30340] }]

/-- hypotheses of `learn_monotone` / `commit_monotone` / `learn_records` are satisfiable -/
example : FreqBounded exSys exUser := by
  unfold FreqBounded exSys exUser
  decide

example :
    commitLearn false { sys := exSys, lifetime := 77 } exSymbols exIvs exUser
      = .ok [(([5], [30340]), (1, 0)), (([3, 4], [30002, 20057]), (1, 0)), (([1, 2], [28204, 35430]), (53, 77)), (([9], [30002]), (7, 3))] := by
  decide

/-- every multi-character dictionary phrase of the committed conversion is a learn unit, under exactly the
    syllables it covers -/
theorem multi_char_is_unit (symbols : List Sym) (ivs : List Interval) (iv : Interval)
    (hm : iv ∈ ivs) (hph : iv.isPhrase = true) (hlen : iv.stop - iv.start ≠ 1) :
    (keyOf (segOf symbols iv), iv.text) ∈ learnUnits symbols ivs :=
  nonjoinable_phrase_unit symbols ivs iv hm hph (by simp [joinable, hph, hlen]) [] []

/-- clause "records every multi-character phrase … under its syllables", spelled out: a multi-character phrase
    interval over syllables `k` (as many characters as syllables) is live under `k` after the commit -/
theorem learn_records_multi (ctx : LearnCtx) (symbols : List Sym) (ivs : List Interval) (u u' : UserMap)
    (hr : IvsInRange symbols ivs) (h : commitLearn false ctx symbols ivs u = .ok u')
    (iv : Interval) (hm : iv ∈ ivs) (hph : iv.isPhrase = true) (hlen : iv.stop - iv.start ≠ 1)
    (k : List Nat) (hseg : segOf symbols iv = k.map Sym.syl) (htl : k.length = iv.text.length) (hne : iv.text ≠ []) :
    Live u' (k, iv.text) := by
  have hu := multi_char_is_unit symbols ivs iv hm hph hlen
  rw [hseg, keyOf_map_syl] at hu
  exact (learn_records ctx symbols ivs u u' hr h).1 _ hu htl hne

/-- a single character that is a break word is learned by itself (it only cuts the runs around it) — the
    pre-survey note "a break word is never learned" was wrong -/
theorem break_word_is_unit (symbols : List Sym) (ivs : List Interval) (iv : Interval)
    (hm : iv ∈ ivs) (hph : iv.isPhrase = true) (hb : Learn.isBreakWord iv.text = true) :
    (keyOf (segOf symbols iv), iv.text) ∈ learnUnits symbols ivs :=
  nonjoinable_phrase_unit symbols ivs iv hm hph (by simp [joinable, hb]) [] []

/-- a maximal run of non-break single characters is one learn unit: the characters concatenated, under the
    syllables concatenated.  This is the exception to the strict reading: a character inside a run of two or
    more is recorded inside the run phrase only. -/
theorem single_run_is_unit (symbols : List Sym) (pre run post : List Interval)
    (hne : JoinableNonEmpty (pre ++ run ++ post))
    (hrun : ∀ iv ∈ run, joinable iv = true) (hr : run ≠ [])
    (hpre : ∀ a ∈ pre.getLast?, joinable a = false) (hpost : ∀ a ∈ post.head?, joinable a = false) :
    (keyOf (run.flatMap (segOf symbols)), run.flatMap (·.text)) ∈ learnUnits symbols (pre ++ run ++ post) :=
  run_unit symbols pre run post hne hrun hr hpre hpost

/-- an explicitly chosen single character (not a break word) whose neighbours are not joinable single
    characters is a learn unit by itself, under its own syllable -/
theorem lone_single_is_unit (symbols : List Sym) (pre post : List Interval) (iv : Interval)
    (hne : JoinableNonEmpty (pre ++ [iv] ++ post)) (hj : joinable iv = true)
    (hpre : ∀ a ∈ pre.getLast?, joinable a = false) (hpost : ∀ a ∈ post.head?, joinable a = false) :
    (keyOf (segOf symbols iv), iv.text) ∈ learnUnits symbols (pre ++ [iv] ++ post) := by
  have := run_unit symbols pre [iv] post hne (fun a ha => by rw [List.mem_singleton.mp ha]; exact hj)
    (by simp) hpre hpost
  simpa using this

/-- hypotheses of `single_run_is_unit` are satisfiable: 甲 乙 (a run of two) between a two-character phrase and a
    break word -/
example :
    learnUnits [.syl 1, .syl 2, .syl 3, .syl 4, .syl 5]
      [{ start := 0, stop := 2, isPhrase := true, text := [28204, 35430] }, { start := 2, stop := 3, isPhrase := true, text := [30002] },
       { start := 3, stop := 4, isPhrase := true, text := [20057] }, { start := 4, stop := 5, isPhrase := true, text := [30340] }]
      = [([1, 2], [28204, 35430]), ([3, 4], [30002, 20057]), ([5], [30340])] := by decide

/-! ## "with auto-learning disabled, committing never changes the user dictionary" -/

theorem no_learn_when_disabled (ctx : LearnCtx) (symbols : List Sym) (ivs : List Interval) (u : UserMap) :
    commitLearn true ctx symbols ivs u = .ok u := rfl

/-! ## "from then on … that phrase is offered as a candidate for those syllables" -/

/-- a live user entry is listed by the merged lookup of its syllables (`Layered::lookup_all_phrases`), which is
    what the candidate window of that range enumerates (`PhraseSelector::candidates`; completeness of the window
    is C07 — composed with this clause on the editor model by `learned_is_candidate_linked` below) -/
theorem learned_is_candidate (ctx : LearnCtx) (u : UserMap) (key : List Nat) (x : Text) (h : Live u (key, x)) :
    ∃ f, (x, f) ∈ lookupAll ctx u key := by
  obtain ⟨v, hv, h1⟩ := h
  have h2 := get?_le_mergedFreq ctx.sys u key x v hv
  apply exists_of_bestOf_pos
  have : bestOf (lookupAll ctx u key) x = mergedFreq ctx.sys u key x := by
    unfold lookupAll mergedFreq allEntries; exact layeredLookup_bestOf _ _ x
  omega

/-- "also after the dictionary is closed and reopened": **under the explicit hypothesis** that close + reopen
    preserves the map (durability C10, trie round trip C11 — other work packages; exercised on the real code by
    the file-backed traces of the harness) -/
theorem learned_persists (reopen : UserMap → UserMap) (hre : ∀ m k, (reopen m).get? k = m.get? k)
    (ctx : LearnCtx) (u : UserMap) (key : List Nat) (x : Text) (h : Live u (key, x)) :
    Live (reopen u) (key, x) ∧ ∃ f, (x, f) ∈ lookupAll ctx (reopen u) key := by
  have h' : Live (reopen u) (key, x) := by
    obtain ⟨v, hv, h1⟩ := h
    exact ⟨v, by rw [hre]; exact hv, h1⟩
  exact ⟨h', learned_is_candidate ctx (reopen u) key x h'⟩

/-- one `learn_phrase` of this model is, on the map C09's specification `MapSpec` keeps, the
    `DictionaryMut` call the editor makes: nothing, `add_phrase(key, (text, 1))` (accepted: the phrase
    is not live) or `update_phrase(key, text, new_freq, now)` — so the `UserMap` after a sequence of
    learnings is the `MapSpec` map of a history of C09 operations -/
theorem learn_is_dictionary_call_linked {ctx : LearnCtx} {u u' : UserMap} {m : MapSpec.Map} {key : List Nat}
    {text : Text} (hu : LearnLink.URep u m) (h : learnPhrase ctx u key text = .ok u') :
    (u' = u) ∨ ∃ op : MapSpec.Op,
      (op = .add key text firstFreq none ∨ ∃ nf, op = .update key text nf ctx.lifetime) ∧
      LearnLink.URep u' (m.apply op) :=
  LearnLink.learn_step_linked hu h

/-- **`learned_persists` without its reopen hypothesis.**  The user dictionary is a file-backed
    `TrieBuf` (C09's concrete layers) opened on a well-formed trie file `t0`; it goes through any
    history of `add_phrase` / `update_phrase` / `remove_phrase` / `flush` / `reopen` under *every*
    schedule of the snapshot writer (C10's protocol) and the editor is dropped (`phase = closed`).
    `u` is this model's abstraction of the result (`URep`: the map `MapSpec` computes from the calls).
    Then every live phrase of `u` is on disk: the file at the path is complete, a `TrieBuf` opened on
    it lists the phrase under its syllables with exactly the learned (frequency, time), and `Layered`
    over any system layers offers it with a positive frequency.
    Discharged: "close + reopen preserves the map" = `C10.durable_lookup_linked` (durability for all
    schedules + C09's snapshot lemma + C09's answers of a settled state) and `C09.layered_over_map`.
    The file is C09's abstract `List Leaf` here; `learned_persists_bytes_linked` below has it as bytes. -/
theorem learned_persists_linked (t0 : List Leaf) (h0 : Trie.SnapOk t0) (tmp : Option DictLink.CFile)
    (htmp : DictLink.TmpOk tmp) (acts : List DictLink.CAct)
    (cw : DictLink.CWorld) (hrun : DictLink.crun (DictLink.cinit t0 tmp) acts = some cw)
    (hcl : cw.phase = .closed)
    (u : UserMap) (hu : LearnLink.URep u (MapSpec.Map.run (TrieBuf.baseGet t0) (DictLink.opsOf acts)))
    (key : List Nat) (x : Text) (hlive : Live u (key, x)) (sys : List Dict) :
    ∃ t, cw.fs .path = some (.complete t) ∧
      (∃ p ∈ TrieBuf.lookupAll (DictLink.freshSt t) key .standard,
        p.text = x ∧ u.get? (key, x) = some (MapSpec.valOf p)) ∧
      ∃ p ∈ Layered.lookupAll (sys ++ [TrieBuf.toDict (DictLink.freshSt t)]) key .standard,
        p.text = x ∧ 1 ≤ p.freq :=
  LearnLink.persists_linked t0 h0 tmp htmp acts cw hrun hcl u hu key x hlive sys

/-- **… and with the file as bytes**: nothing about files is assumed any more.  The chain is
    `C11` (the bytes `TrieBuilder::write` produces, read by `Trie::new` / `lookup_all_phrases`, are the
    entries inserted) → `C09.file_layer_is_C11` (those bytes denote C09's abstract file `Trie.build es`) →
    `Proofs/DictLinkBytes` (along every run of the protocol every complete file is such a `Trie.build es`)
    → `C10.durable_lookup_bytes_linked` → here.  Explicit hypotheses: the initial file was written from
    valid entries, the `DictionaryMut` calls have arguments of the Rust types (`CActValid`), every snapshot
    the history can take fits the limits of the trie format (`SnapshotsOk … FitsInfo` = C11's `Fits`, under
    which `write` cannot fail), the key has non-zero syllables.  Conclusion: the **bytes** of the file at
    the path exist and open, the real reader's exact lookup lists the learned phrase with exactly the
    learned (frequency, time), and `Layered` over any system layers offers it with a positive frequency. -/
theorem learned_persists_bytes_linked (info : TrieCodec.Info) (hinfo : TrieCodec.ValidInfo info)
    (es0 : List Entry) (hv0 : ∀ e ∈ es0, TrieCodec.ValidEntry e) (hfit0 : C10.FitsInfo info es0)
    (tmp : Option DictLink.CFile) (htmp : DictLink.TmpWritten (C10.FitsInfo info) tmp)
    (acts : List DictLink.CAct) (hval : ∀ a ∈ acts, DictLink.CActValid a)
    (hfit : DictLink.SnapshotsOk (C10.FitsInfo info) (DictLink.cinit (Trie.build es0) tmp) acts)
    (cw : DictLink.CWorld) (hrun : DictLink.crun (DictLink.cinit (Trie.build es0) tmp) acts = some cw)
    (hcl : cw.phase = .closed)
    (u : UserMap) (hu : LearnLink.URep u (MapSpec.Map.run (TrieBuf.baseGet (Trie.build es0)) (DictLink.opsOf acts)))
    (key : List Nat) (hkey : C11.ValidKey key) (x : Text) (hlive : Live u (key, x)) (sys : List Dict) :
    ∃ es bytes tr, cw.fs .path = some (.complete (Trie.build es)) ∧
      (TrieCodec.Builder.ofEntries info es).write = some bytes ∧ TrieCodec.openTrie bytes = some tr ∧
      (∃ p ∈ TrieCodec.lookupAll tr key .standard, p.text = x ∧ u.get? (key, x) = some (MapSpec.valOf p)) ∧
      TrieBuf.lookupAll (DictLink.freshSt (Trie.build es)) key .standard = dedup (TrieCodec.lookupAll tr key .standard) ∧
      ∃ p ∈ Layered.lookupAll (sys ++ [TrieBuf.toDict (DictLink.freshSt (Trie.build es))]) key .standard,
        p.text = x ∧ 1 ≤ p.freq :=
  LearnLink.persists_bytes_linked info hinfo es0 hv0 hfit0 tmp htmp acts hval hfit cw hrun hcl u hu key hkey x hlive sys

/-! ## "repeating … a bounded number of times makes X the default" -/

/-- "type the syllables, choose X, commit" is one `learn_phrase(syllables, X)` -/
theorem commit_chosen (ctx : LearnCtx) (key : List Nat) (x : Text) (u : UserMap) (hx : x ≠ []) :
    commitLearn false ctx (key.map Sym.syl) [{ start := 0, stop := key.length, isPhrase := true, text := x }] u
      = learnPhrase ctx u key x := by
  unfold commitLearn
  simp only [Bool.false_eq_true, if_false]
  exact autoLearn_chosen ctx key x u hx

/-- **becomes_top**: X not above the best other homophone, that one at most 1 000 000 (`freqBound`): after any
    number `≥ closeSteps + 1 = 50` of learnings (at arbitrary clock values) nothing panicked and X's merged
    frequency is strictly above every other phrase's.  Proof: the gap to the best homophone loses
    `max(gap/5 + 1, 10)` per learning, this map is monotone, and 49 applications take 1 000 000 to 0
    (`gapIter_bound`, one kernel evaluation on one number); one more learning makes the order strict and later
    ones keep it.  Constants from `Gen/Estimate.lean`. -/
theorem becomes_top (sys : List Entry) (key : List Nat) (x : Text) (lts : List Nat) (u : UserMap)
    (hlen : key.length = x.length) (hx : x ≠ [])
    (hle : mergedFreq sys u key x ≤ othersMax sys u key x) (hne : (allEntries sys u key).isEmpty = false)
    (hb : othersMax sys u key x ≤ freqBound) (hk : closeSteps + 1 ≤ lts.length) :
    ∃ u', learnRepeat sys key x lts u = .ok u' ∧
      ∀ t, t ≠ x → mergedFreq sys u' key t < mergedFreq sys u' key x := by
  have hmax : freqBound ≤ maxUserFreq := by decide
  obtain ⟨u', e1, e2, _, e4⟩ := learnRepeat_spec sys key x hlen hx lts u hne (by omega) (by omega)
  refine ⟨u', e1, fun t ht => ?_⟩
  rw [e4 t ht, e2]
  have h1 : mergedFreq sys u key t ≤ othersMax sys u key x := bestOf_le_othersOf _ _ _ ht
  have h2 := learnIter_top (othersMax sys u key x) (mergedFreq sys u key x) hb hle lts.length hk
  omega

/-- the bound of the statement: 50 ≤ 64 -/
theorem bound_within_64 : closeSteps + 1 ≤ 64 := by decide

/-- 49 learnings are not always enough (frequencies 0 and 1 000 000), so 50 is exact -/
example : learnIter 1000000 49 0 = 1000000 ∧ learnIter 1000000 50 0 = 1000001 := by decide +kernel

/-- hypotheses of `becomes_top` are satisfiable, and the conclusion computed on an instance -/
example :
    let sys : List Entry := [([1, 2], { text := [65, 66], freq := 5 }), ([1, 2], { text := [67, 68], freq := 1000000 })]
    mergedFreq sys [] [1, 2] [65, 66] ≤ othersMax sys [] [1, 2] [65, 66] ∧ othersMax sys [] [1, 2] [65, 66] ≤ freqBound
      ∧ (allEntries sys [] [1, 2]).isEmpty = false := by decide

/-- **top_is_default** (over C08's own small graph model; the hypotheses `hg`, `hedge`, `huniq`, `hrest` describe
    `find_intervals` / `find_k_paths` — `top_is_default_linked` at the end of this file proves the same conclusion on
    C03's engine model WITHOUT them; they are also compared with the real code by every `learn default` record of
    the harness).

    A phrase X whose merged frequency is strictly above every other phrase's of the whole range is what
    `find_best_phrase` attaches to the whole-range edge.  If node 0 of the interval graph has that edge
    (`hedge`; one edge per end, `huniq`), then the breadth-first `shortest_path` — the first k-path — is that
    single edge (`shortestPath_direct`, proved), and `trim_paths` discards every other k-path `rest` because the
    single interval contains it (`firstConversion_direct`, proved).  So the conversion of the bare syllables is
    exactly X, and — unlike the pre-survey assumed — no competing segmentation is ever scored against it: the
    score proviso is vacuous for this engine.  `rest` only has to consist of non-empty intervals inside the range. -/
theorem top_is_default (ctx : LearnCtx) (u : UserMap) (key : List Nat) (x : Text) (hkey : 0 < key.length)
    (hdom : ∀ t, t ≠ x → mergedFreq ctx.sys u key t < mergedFreq ctx.sys u key x)
    (graph : List (List PInterval)) (es : List PInterval) (rest : List Path)
    (hg : graph[0]? = some es)
    (hedge : ∃ b, bestPhrase (lookupAll ctx u key) = some b ∧
      ({ start := 0, stop := key.length, isPhrase := true, text := b.1, freq := b.2 } : PInterval) ∈ es)
    (huniq : ∀ e ∈ es, ∀ e' ∈ es, e.stop = key.length → e'.stop = key.length → e = e')
    (hrest : ∀ c ∈ rest, ∀ o ∈ c, 0 < o.stop ∧ o.stop ≤ key.length) :
    ∃ sp, shortestPath graph (fun _ _ => false) 0 key.length = some sp ∧
      firstConversion (sp :: rest) = some [{ start := 0, stop := key.length, isPhrase := true, text := x }] := by
  obtain ⟨b, hb, he⟩ := hedge
  rw [bestPhrase_of_dominant ctx u key x hdom] at hb
  injection hb with hb
  subst hb
  refine ⟨_, shortestPath_direct graph key.length _ es hg he rfl rfl hkey
    (fun e hm hstop => huniq e hm _ he hstop rfl), ?_⟩
  rw [firstConversion_direct _ rest (fun c hc o ho => by
    have := hrest c hc o ho
    exact ⟨this.1, Nat.zero_le _, this.2⟩)]
  rfl

/-- the DESIGN proviso, for an engine without trimming: if the single interval scores strictly above every other
    candidate path it is the head of the stable descending sort -/
theorem top_is_default_scored (d : Path) (ps : List Path) (hd : d ∈ ps)
    (hall : ∀ q ∈ ps, q = d ∨ pathScore q < pathScore d) : (sortDesc ps).head? = some d :=
  sortDesc_head d ps hd hall

/-- **becomes_default**: the chain of the statement.  Starting from any user dictionary in which X is not above
    its best homophone (≤ 1 000 000), `k ≥ 50` repetitions of "type the syllables, choose X, commit" (each commit =
    `commitLearn false … [single interval X]`, folded by `learnRepeat` via `commit_chosen`) leave a dictionary in
    which the default conversion of the bare syllables is X — under the graph hypotheses of `top_is_default`. -/
theorem becomes_default (sys : List Entry) (key : List Nat) (x : Text) (lts : List Nat) (u : UserMap)
    (hlen : key.length = x.length) (hx : x ≠ [])
    (hle : mergedFreq sys u key x ≤ othersMax sys u key x) (hne : (allEntries sys u key).isEmpty = false)
    (hb : othersMax sys u key x ≤ freqBound) (hk : closeSteps + 1 ≤ lts.length) :
    ∃ u', learnRepeat sys key x lts u = .ok u' ∧
      ∀ (lt : Nat) (graph : List (List PInterval)) (es : List PInterval) (rest : List Path),
        graph[0]? = some es →
        (∃ b, bestPhrase (lookupAll { sys := sys, lifetime := lt } u' key) = some b ∧
          ({ start := 0, stop := key.length, isPhrase := true, text := b.1, freq := b.2 } : PInterval) ∈ es) →
        (∀ e ∈ es, ∀ e' ∈ es, e.stop = key.length → e'.stop = key.length → e = e') →
        (∀ c ∈ rest, ∀ o ∈ c, 0 < o.stop ∧ o.stop ≤ key.length) →
        ∃ sp, shortestPath graph (fun _ _ => false) 0 key.length = some sp ∧
          firstConversion (sp :: rest) = some [{ start := 0, stop := key.length, isPhrase := true, text := x }] := by
  obtain ⟨u', e1, e2⟩ := becomes_top sys key x lts u hlen hx hle hne hb hk
  have hkey : 0 < key.length := by
    cases x with
    | nil => exact absurd rfl hx
    | cons _ _ => rw [hlen]; exact Nat.succ_pos _
  exact ⟨u', e1, fun lt graph es rest hg hedge huniq hrest =>
    top_is_default { sys := sys, lifetime := lt } u' key x hkey e2 graph es rest hg hedge huniq hrest⟩

/-- the hypotheses of `top_is_default` are satisfiable: 測試 (freq 9) against 冊 / 是 with huge single-character
    frequencies; the alternative k-path through the two single characters is trimmed -/
example :
    let sys : List Entry := [([1, 2], { text := [28204, 35430], freq := 9 }), ([1], { text := [20874], freq := 9999999 }),
      ([2], { text := [26159], freq := 9999999 })]
    let d : PInterval := { start := 0, stop := 2, isPhrase := true, text := [28204, 35430], freq := 9 }
    let a : PInterval := { start := 0, stop := 1, isPhrase := true, text := [20874], freq := 9999999 }
    let b : PInterval := { start := 1, stop := 2, isPhrase := true, text := [26159], freq := 9999999 }
    bestPhrase (lookupAll { sys := sys, lifetime := 0 } [] [1, 2]) = some ([28204, 35430], 9) ∧
      shortestPath [[a, d], [b]] (fun _ _ => false) 0 2 = some [d] ∧
      firstConversion [[d], [a, b]] = some [{ start := 0, stop := 2, isPhrase := true, text := [28204, 35430] }] ∧
      pathScore [d] < pathScore [a, b] := by decide

/-- `learnRepeat` is the fold of the commits of the chosen phrase -/
theorem learnRepeat_is_commits (sys : List Entry) (key : List Nat) (x : Text) (hx : x ≠ []) (lt : Nat) (rest : List Nat)
    (u : UserMap) :
    learnRepeat sys key x (lt :: rest) u =
      (commitLearn false { sys := sys, lifetime := lt } (key.map Sym.syl)
        [{ start := 0, stop := key.length, isPhrase := true, text := x }] u).bind (learnRepeat sys key x rest) := by
  rw [commit_chosen _ key x u hx]; rfl

/-! ## linked (round 2, linkF)

The two clauses that were left to other properties' models — "the candidate window shows the merged lookup
(C07)" and the graph-construction hypotheses of `top_is_default` (C03) — stated and proved on those models
(`Model/Editor.lean`, `Model/Conversion.lean`); machinery in `Proofs/LearnLinkEditor.lean`. -/

open LearnLinkEd in
/-- **`learned_is_candidate` on the editor model.**  `u` is C08's user dictionary with `x` live under `key`
    (what `learn_records` / `learn_ge_merged` establish after a commit).  Link hypotheses, explicit and minimal:
    * `hu`, `hlk` — the user layer `us` (C09's concrete `TrieBuf`) answers the exact lookup of `key` as the map
      `m` that `u` denotes (`LearnLink.URep`, the relation `learned_persists_linked` uses; `C09.lookup_exact`
      provides `hlk` in every state satisfying `TrieBuf.Inv`);
    * `henv` — for the dictionary state `d`, the environment's `lookupAll` of `key` IS `Layered::lookup_all_phrases`
      over some system layers `sys` and that user layer;
    * `hst`, `hr` — the phrase selector looks up exactly (`LookupStrategy::Standard`) and its highlighted range
      holds the syllables `key` (`C07.RangeIs`; by `C07.range_is_syllables` every open phrase list of every
      reachable editor state has such a `key`).
    Then the list `PhraseSelector::candidates` returns contains `x`.  Proof: `C07.phrase_list_complete` (the
    list is the dictionary's answer, in order) + `C09.layered_over_map` (a live user phrase is in `Layered`'s
    answer). -/
theorem learned_is_candidate_linked {D L : Type} (env : Env D L) {u : UserMap} {m : MapSpec.Map}
    (hu : LearnLink.URep u m) (sys : List Dict) (us : TrieBuf.State) {key : List Nat}
    (hlk : MapSpec.IsLookup m key (TrieBuf.lookupAll us key .standard))
    {d : D} (henv : env.lookupAll d key .standard = Layered.lookupAll (sys ++ [TrieBuf.toDict us]) key .standard)
    {p : PhraseSel} (hst : p.strategy = .standard) (hr : C07.RangeIs p key)
    {l : L} {cs : List Text} (hc : PhraseSel.candidates env p d l = .ok cs)
    {x : Text} (hlive : Live u (key, x)) : x ∈ cs :=
  candidate_of_live env hu sys us hlk henv hst hr hc hlive

open LearnLinkEd in
/-- … for the list of an editor STATE: whenever an editor shows a phrase list (`Selecting::candidates`) whose
    highlighted symbols are the syllables `key`, the learned phrase is in it -/
theorem learned_in_open_list_linked {D L : Type} (env : Env D L) {u : UserMap} {m : MapSpec.Map}
    (hu : LearnLink.URep u m) (sys : List Dict) (us : TrieBuf.State) {key : List Nat}
    (hlk : MapSpec.IsLookup m key (TrieBuf.lookupAll us key .standard))
    {e : Editor D L}
    (henv : env.lookupAll e.shared.dict key .standard = Layered.lookupAll (sys ++ [TrieBuf.toDict us]) key .standard)
    {s : Selecting} {p : PhraseSel} (hsel : s.sel = .phrase p)
    (hst : p.strategy = .standard) (hr : C07.RangeIs p key)
    {cs : List Text} (hc : Selecting.candidates env s e.shared = .ok cs)
    {x : Text} (hlive : Live u (key, x)) : x ∈ cs := by
  have hc' : PhraseSel.candidates env p e.shared.dict e.shared.syl = .ok cs := by
    unfold Selecting.candidates at hc; rw [hsel] at hc; exact hc
  exact candidate_of_live env hu sys us hlk henv hst hr hc' hlive

open LearnLinkEd in
/-- … and **"type the syllables alone, open the candidate list"**: the buffer holds exactly the syllables `key`,
    cursor at the beginning, choosing forward, exact lookup.  Then `Selecting::open_phrase` of the editor model
    DOES open a phrase list, over the whole buffer, and the learned phrase is one of its candidates.
    (No hypothesis on the selector is left: its range is computed by `PhraseSelector::init`.) -/
theorem learned_is_candidate_typed_alone_linked {D L : Type} (env : Env D L) {u : UserMap} {m : MapSpec.Map}
    (hu : LearnLink.URep u m) (sys : List Dict) (us : TrieBuf.State) {key : List Nat} (hkey : key ≠ [])
    (hlk : MapSpec.IsLookup m key (TrieBuf.lookupAll us key .standard))
    {sh : Shared D L}
    (henv : env.lookupAll sh.dict key .standard = Layered.lookupAll (sys ++ [TrieBuf.toDict us]) key .standard)
    (hsym : sh.com.inner.symbols = key.map Sym.syl) (hcur : sh.com.cursor = 0)
    (hfw : sh.options.phraseChoiceRearward = false) (hstd : sh.options.lookupStrategy = .standard)
    {x : Text} (hlive : Live u (key, x)) :
    ∃ sh' s p cs, openPhrase env sh = .ok (sh', .toState (.selecting s)) ∧ s.sel = .phrase p ∧
      p.begin_ = 0 ∧ p.end_ = key.length ∧ C07.RangeIs p key ∧
      Selecting.candidates env s sh' = .ok cs ∧ x ∈ cs := by
  obtain ⟨ph, hph, e, _⟩ := layered_lists_live hu sys us key hlk hlive
  have hin : ph ∈ env.lookupAll sh.dict key sh.options.lookupStrategy := by rw [hstd, henv]; exact hph
  obtain ⟨sh', s, p, cs, h1, h2, _, _, h5, h6, h7, h8, h9⟩ :=
    openPhrase_bare env hkey hsym hcur hfw (List.ne_nil_of_mem hin)
  exact ⟨sh', s, p, cs, h1, h2, h5, h6, h7, h8, by rw [← e]; exact h9 ph hin⟩

open LearnLinkEd in
/-- **still a candidate after the dictionary was closed and reopened**: `learned_persists_linked` (C10's
    durability under every schedule of the snapshot writer + C09) composed with C07.  Hypotheses of
    `learned_persists_linked` verbatim, plus the link of the NEW session's environment: whatever complete file
    `t` is at the path, the dictionary state `d` of the new session answers `key` as `Layered` over system
    layers and a `TrieBuf` opened on `t` (`DictLink.freshSt t`).  Then every phrase list over the syllables
    `key` contains the phrase learned in the OLD session. -/
theorem learned_is_candidate_after_reopen_linked {D L : Type} (env : Env D L)
    (t0 : List Leaf) (h0 : Trie.SnapOk t0) (tmp : Option DictLink.CFile)
    (htmp : DictLink.TmpOk tmp) (acts : List DictLink.CAct)
    (cw : DictLink.CWorld) (hrun : DictLink.crun (DictLink.cinit t0 tmp) acts = some cw)
    (hcl : cw.phase = .closed)
    (u : UserMap) (hu : LearnLink.URep u (MapSpec.Map.run (TrieBuf.baseGet t0) (DictLink.opsOf acts)))
    (key : List Nat) (x : Text) (hlive : Live u (key, x)) (sys : List Dict)
    {d : D} (henv : ∀ t, cw.fs .path = some (.complete t) →
      env.lookupAll d key .standard = Layered.lookupAll (sys ++ [TrieBuf.toDict (DictLink.freshSt t)]) key .standard)
    {p : PhraseSel} (hst : p.strategy = .standard) (hr : C07.RangeIs p key)
    {l : L} {cs : List Text} (hc : PhraseSel.candidates env p d l = .ok cs) : x ∈ cs := by
  obtain ⟨t, hpath, _, ph, hph, e, _⟩ := learned_persists_linked t0 h0 tmp htmp acts cw hrun hcl u hu key x hlive sys
  exact listed_of_lookup env hr hc ⟨ph, by rw [hst, henv t hpath]; exact hph, e⟩

/-- the link hypotheses are satisfiable, and the conclusion computed on an instance: an in-memory user layer
    that received `add_phrase([1, 2], 甲乙, 1)`, one system layer with a homophone, the environment whose
    `lookupAll` is `Layered` over them, a selector over the buffer `[1, 2]` -/
example :
    let us := TrieBuf.run TrieBuf.initMem [.add [1, 2] [30002, 20057] 1 none]
    let sysd : Dict := Dict.ofEntries [([1, 2], ⟨[28204, 35430], 40, none⟩)]
    let env : Env Unit Nat := { C07.f40Env with lookupAll := fun _ k st => Layered.lookupAll ([sysd] ++ [TrieBuf.toDict us]) k st }
    let u : UserMap := UserMap.insert [] ([1, 2], [30002, 20057]) (1, 0)
    let p : PhraseSel := { begin_ := 0, end_ := 2, forward := true, orig := 0, strategy := .standard,
                           com := { symbols := [.syl 1, .syl 2], gaps := [.begin, .normal] } }
    LearnLink.URep u (MapSpec.Map.empty.run [.add [1, 2] [30002, 20057] 1 none]) ∧
      MapSpec.IsLookup (MapSpec.Map.empty.run [.add [1, 2] [30002, 20057] 1 none]) [1, 2] (TrieBuf.lookupAll us [1, 2] .standard) ∧
      Live u ([1, 2], [30002, 20057]) ∧ C07.RangeIs p [1, 2] ∧
      PhraseSel.candidates env p () 0 = .ok [[28204, 35430], [30002, 20057]] := by
  refine ⟨?_, ?_, ⟨(1, 0), rfl, Nat.le_refl _⟩, rfl, rfl⟩
  · have h0 : LearnLink.URep [] MapSpec.Map.empty := fun _ => rfl
    exact LearnLink.urep_insert h0 ([1, 2], [30002, 20057]) (1, 0)
  · have := C09.mem_answers [.add [1, 2] [30002, 20057] 1 none]
    have h2 := this.2.1 [1, 2]
    rw [this.1] at h2
    exact h2

/-! ### `top_is_default` without its graph hypotheses -/

open LearnLinkEd in
/-- **`top_is_default` on C03's engine model — `hg`, `hedge`, `huniq`, `hrest` discharged.**
    `d` is the dictionary the engine reads; `hview`: its answer for `key` has the same (text, frequency) pairs as
    C08's merged lookup (order-free; `SamePairs`).  `c` holds exactly the syllables `key` (`Bare`: no selection,
    no `Break` gap inside; `bareComp key` is what typing them alone leaves).  `hdom` as in `top_is_default`.
    Then for every pick oracle in range `ChewingEngine::convert` (C03's `convertChewing`, any lookup strategy)
    returns exactly one alternative: the single interval showing `x`.  What was hypothesis is now proved from
    C03's model: `find_intervals` has the whole-range edge with `find_best_phrase`'s pick = the dominant phrase
    (`findBestPhrase_whole`, `whole_edge`), one edge per (start, end) (`edge_unique`), BFS returns that edge
    (`shortestPath_direct`), it stays the first k-path (`kLoop_prefix`), every other k-path consists of graph
    edges inside the range (`C03.find_intervals_valid`, `findKPaths_chain`) and is trimmed
    (`trimPaths_direct`); a single path is never scored, so no `ScoreBound`. -/
theorem top_is_default_linked {pick : Nat → List Conv.Path → Nat} (hpick : Conv.PickInRange pick)
    (ctx : LearnCtx) (u : UserMap) (key : List Nat) (x : Text) (hkey : 0 < key.length)
    (hdom : ∀ t, t ≠ x → mergedFreq ctx.sys u key t < mergedFreq ctx.sys u key x)
    {d : Dict} {strat : Strategy} (hview : SamePairs (d.lookup key strat) (lookupAll ctx u key))
    {c : Composition} (hb : Bare c key) :
    Conv.convertChewing pick d strat c =
      .ok [[{ start := 0, stop := key.length, isPhrase := true, text := x }]] :=
  convertChewing_dominant hpick hb (List.length_pos_iff.mp hkey) (dominant_of_mergedFreq hdom hview)

open LearnLinkEd in
/-- … in particular for the engine `ConversionEngine::convert` of C03 (`Conv.convert … .chewing`) -/
theorem top_is_default_engine_linked {pick : Nat → List Conv.Path → Nat} (hpick : Conv.PickInRange pick)
    (ctx : LearnCtx) (u : UserMap) (key : List Nat) (x : Text) (hkey : 0 < key.length)
    (hdom : ∀ t, t ≠ x → mergedFreq ctx.sys u key t < mergedFreq ctx.sys u key x)
    {d : Dict} (hview : SamePairs (d.lookup key .standard) (lookupAll ctx u key)) :
    Conv.convert pick .chewing d (bareComp key) =
      .ok [[{ start := 0, stop := key.length, isPhrase := true, text := x }]] :=
  top_is_default_linked hpick ctx u key x hkey hdom hview (bareComp_bare key)

open LearnLinkEd in
/-- … and when the dictionary is C09's `Layered` over any layers whose RAW answers for `key` (before the
    max-merge) have the same pairs as C08's raw entries: the max-merge of `Layered::lookup_all_phrases` keeps the
    dominance (`dominant_layered`, from `C09.layered_union`) -/
theorem top_is_default_layered_linked {pick : Nat → List Conv.Path → Nat} (hpick : Conv.PickInRange pick)
    (sys : List Entry) (u : UserMap) (key : List Nat) (x : Text) (hkey : 0 < key.length)
    (hdom : ∀ t, t ≠ x → mergedFreq sys u key t < mergedFreq sys u key x)
    {layers : List Dict} {strat : Strategy}
    (hraw : SamePairs (Layered.candidates layers key strat) (allEntries sys u key))
    {c : Composition} (hb : Bare c key) :
    Conv.convertChewing pick { lookup := Layered.lookupAll layers } strat c =
      .ok [[{ start := 0, stop := key.length, isPhrase := true, text := x }]] :=
  convertChewing_dominant hpick hb (List.length_pos_iff.mp hkey) (dominant_layered_of_mergedFreq hdom hraw)

open LearnLinkEd in
/-- **`becomes_default` without graph hypotheses**: after `k ≥ 50` repetitions of "type the syllables, choose X,
    commit" the conversion of the bare syllables by C03's engine model is exactly X — for every clock value,
    every pick oracle in range, every strategy, every dictionary whose answer for the syllables has the pairs of
    C08's merged lookup over the learned user dictionary `u'`, every buffer holding exactly those syllables -/
theorem becomes_default_linked (sys : List Entry) (key : List Nat) (x : Text) (lts : List Nat) (u : UserMap)
    (hlen : key.length = x.length) (hx : x ≠ [])
    (hle : mergedFreq sys u key x ≤ othersMax sys u key x) (hne : (allEntries sys u key).isEmpty = false)
    (hb : othersMax sys u key x ≤ freqBound) (hk : closeSteps + 1 ≤ lts.length) :
    ∃ u', learnRepeat sys key x lts u = .ok u' ∧
      ∀ (lt : Nat) (pick : Nat → List Conv.Path → Nat) (d : Dict) (strat : Strategy) (c : Composition),
        Conv.PickInRange pick → SamePairs (d.lookup key strat) (lookupAll { sys := sys, lifetime := lt } u' key) →
        Bare c key →
        Conv.convertChewing pick d strat c =
          .ok [[{ start := 0, stop := key.length, isPhrase := true, text := x }]] := by
  obtain ⟨u', e1, e2⟩ := becomes_top sys key x lts u hlen hx hle hne hb hk
  have hkey : 0 < key.length := by
    cases x with
    | nil => exact absurd rfl hx
    | cons _ _ => rw [hlen]; exact Nat.succ_pos _
  exact ⟨u', e1, fun lt pick d strat c hp hv hbare =>
    top_is_default_linked hp { sys := sys, lifetime := lt } u' key x hkey e2 hv hbare⟩

/-- the hypotheses of `top_is_default_linked` are satisfiable, and the engine evaluated on the instance of
    `top_is_default`'s example: 測試 (freq 9) against 冊 / 是 with huge single-character frequencies — the split
    out-scores 測試 and 測試 is still the only alternative -/
example :
    let sys : List Entry := [([1, 2], { text := [28204, 35430], freq := 9 }), ([1], { text := [20874], freq := 9999999 }),
      ([2], { text := [26159], freq := 9999999 })]
    let ctx : LearnCtx := { sys := sys, lifetime := 0 }
    (∀ t, t ≠ [28204, 35430] → mergedFreq ctx.sys [] [1, 2] t < mergedFreq ctx.sys [] [1, 2] [28204, 35430]) ∧
      LearnLinkEd.SamePairs ((Dict.ofEntries sys).lookup [1, 2] .standard) (lookupAll ctx [] [1, 2]) ∧
      LearnLinkEd.Bare (LearnLinkEd.bareComp [1, 2]) [1, 2] ∧ Conv.PickInRange Conv.pickFirstMin ∧
      Conv.convert Conv.pickFirstMin .chewing (Dict.ofEntries sys) (LearnLinkEd.bareComp [1, 2])
        = .ok [[{ start := 0, stop := 2, isPhrase := true, text := [28204, 35430] }]] := by
  refine ⟨?_, ⟨by decide, by decide⟩, LearnLinkEd.bareComp_bare _, C03.pickFirstMin_inRange, by decide⟩
  intro t ht
  have h1 : mergedFreq [([1, 2], { text := [28204, 35430], freq := 9 }), ([1], { text := [20874], freq := 9999999 }),
      ([2], { text := [26159], freq := 9999999 })] [] [1, 2] [28204, 35430] = 9 := by decide
  have h2 : mergedFreq [([1, 2], { text := [28204, 35430], freq := 9 }), ([1], { text := [20874], freq := 9999999 }),
      ([2], { text := [26159], freq := 9999999 })] [] [1, 2] t = 0 := by
    unfold mergedFreq
    apply bestOf_eq_zero_of_absent
    intro q hq
    have : q = ([28204, 35430], 9) := by simpa [allEntries, sysLookup, UserMap.lookup] using hq
    rw [this]; exact fun h => ht h.symm
  show mergedFreq _ [] [1, 2] t < mergedFreq _ [] [1, 2] [28204, 35430]
  rw [h1, h2]; decide

open LearnLinkEd in
/-- **the chain of the statement, end to end over C09's layers and C03's engine.**  System layers given by entry
    lists `sysL` (`Dict.ofEntries`, exact-key lookup; C08's `ctx.sys` is their concatenation), a user dictionary `u`
    without shadowed entries (`NoShadow`: true of the empty map, kept by learning — `noShadow_learnRepeat`) in which
    X is not above its best homophone (≤ 1 000 000).  After `k ≥ 50` repetitions of "type the syllables, choose X,
    commit": for EVERY user layer `us` (C09's `TrieBuf`) that answers the exact lookup of the syllables as the map
    the learned `u'` denotes (`URep` + `IsLookup`, as in `learned_persists_linked`), `ChewingEngine::convert` reading
    `Layered` over those layers converts the bare syllables to exactly X.  The pairs hypothesis of
    `top_is_default_linked` is discharged here by `samePairs_layers` + `dominant_layered` (`C09.layered_union`). -/
theorem becomes_default_layered_linked (sysL : List (List Entry)) (key : List Nat) (x : Text) (lts : List Nat) (u : UserMap)
    (hns : NoShadow u) (hlen : key.length = x.length) (hx : x ≠ [])
    (hle : mergedFreq sysL.flatten u key x ≤ othersMax sysL.flatten u key x)
    (hne : (allEntries sysL.flatten u key).isEmpty = false)
    (hb : othersMax sysL.flatten u key x ≤ freqBound) (hk : closeSteps + 1 ≤ lts.length) :
    ∃ u', learnRepeat sysL.flatten key x lts u = .ok u' ∧
      ∀ (pick : Nat → List Conv.Path → Nat) (m : MapSpec.Map) (us : TrieBuf.State) (c : Composition),
        Conv.PickInRange pick → LearnLink.URep u' m →
        MapSpec.IsLookup m key (TrieBuf.lookupAll us key .standard) → Bare c key →
        Conv.convertChewing pick { lookup := Layered.lookupAll (sysL.map Dict.ofEntries ++ [TrieBuf.toDict us]) } .standard c =
          .ok [[{ start := 0, stop := key.length, isPhrase := true, text := x }]] := by
  obtain ⟨u', e1, e2⟩ := becomes_top sysL.flatten key x lts u hlen hx hle hne hb hk
  have hkey : 0 < key.length := by
    cases x with
    | nil => exact absurd rfl hx
    | cons _ _ => rw [hlen]; exact Nat.succ_pos _
  have hns' : NoShadow u' := noShadow_learnRepeat lts hns e1
  exact ⟨u', e1, fun pick m us c hp hu hlk hbare =>
    top_is_default_layered_linked hp sysL.flatten u' key x hkey e2 (samePairs_layers sysL hu hns' us hlk) hbare⟩

/-- `NoShadow` is satisfiable (the other hypotheses: examples of `becomes_top` and `learned_is_candidate_linked`) -/
example : LearnLinkEd.NoShadow ([] : UserMap) ∧
    LearnLinkEd.NoShadow (UserMap.insert [] ([1, 2], [30002, 20057]) (1, 0)) :=
  ⟨LearnLinkEd.noShadow_nil, LearnLinkEd.noShadow_insert LearnLinkEd.noShadow_nil _ _⟩

open LearnLinkEd in
/-- … and in an editor environment whose engine component is C03's model (`Link.EngineIsC03`, the hypothesis under
    which C03 discharges C01's `EnvOK.convert_ok`; `view d` = the dictionary state read as a lookup function): the
    editor's `env.convert` of the bare syllables (at most 128, none with the empty spelling) is exactly X -/
theorem top_is_default_env_linked {D L : Type} {env : Env D L} {G : D → Prop} {pick : Nat → List Conv.Path → Nat}
    {view : D → Dict} (he : Link.EngineIsC03 env G pick view)
    (ctx : LearnCtx) (u : UserMap) (key : List Nat) (x : Text) (hkey : 0 < key.length) (h128 : key.length ≤ 128)
    (hsp : ∀ k ∈ key, spell k ≠ [])
    (hdom : ∀ t, t ≠ x → mergedFreq ctx.sys u key t < mergedFreq ctx.sys u key x)
    {d : D} (hview : SamePairs ((view d).lookup key .standard) (lookupAll ctx u key)) :
    env.convert .chewing d (bareComp key) = .ok [[{ start := 0, stop := key.length, isPhrase := true, text := x }]] := by
  have hs : Conv.SpellNonempty (bareComp key) := by
    intro k hk
    have : Sym.syl k ∈ key.map Sym.syl := hk
    obtain ⟨k', hk', e⟩ := List.mem_map.mp this
    cases e
    exact hsp k hk'
  rw [he.engine .chewing d (bareComp key) (by simpa [bareComp] using h128) hs]
  exact top_is_default_engine_linked he.pick_ok ctx u key x hkey hdom hview

end Chewing.C08
