import Chewing.Model.CApiUser
import Chewing.Props.C06CApi
import Chewing.Props.C09
import Chewing.Props.C16
import Chewing.Props.C13
/-!
# C08 / C09 / C01 / C16 / C06 at the C API: the user-phrase calls and the context-writing configuration calls

`Model/CApiUser.lean` models `chewing_userphrase_add / _remove / _lookup / _enumerate (+ has_next / get)`,
`chewing_set_KBType`, `chewing_set_selKey` and `chewing_config_set_str` as operations on the C context model `CCtx`
(through the editor model's `Shared.learnPhrase`, `Shared.unlearnPhrase`, `Editor.revalidate`, `Editor.setLayout` and the
user-layer lookup of `Env`), interpreting the constants of `Chewing.Gen.CApiUser` that `tools/extractors/capi_user.py`
regenerates from `capi/src/io.rs` on every run (fail closed).  This file

1. compares the generated reading with the documented meaning written by hand (`user_constants_documented`,
   `user_rows_documented`);
2. the bopomofo-string parser: `parse_print` (printing a list of printable syllables and reading it back gives the list —
   from C13's spelling round trip `C13.parse_spell`), `parse_stops_at_bad_token` (what it does on garbage: the syllables
   before the first token that is no syllable — the REST IS IGNORED, the prefix is used), totality by construction;
3. map behaviour at the C level, for EVERY environment whose user dictionary is a map in C09's sense (`UserSpec`;
   `c09_userSpec`: C09's `TrieBuf` model satisfies it in every state of every history): `add_success`, `add_refused`,
   `add_mismatch_refused`, `add_no_syllables_refused`, `add_too_many_refused`, `add_null_args`, `remove_success`,
   `remove_absent`, `lookup_iff_live`, `lookup_iff_enumerated`, `lookup_enumerate_pure`, `enumeration_is_entries`,
   `keys_nodup`;
4. C01 lift: `CU_step` / `CU_run` — no history of `COpU` calls (key handlers, candidate calls, user-phrase calls with any
   strings, setters with any ints / strings) panics or hangs, the editor invariant and a valid keyboard are kept
   (extends `C06CApi.C_run`);
5. the setters: `setSelKey_stores`, `setSelKey_ignored`, `selkey_chooses_position_after_set` (the remap theorems of
   `C06CApi` for the keys just set), `setStr_selKeys_stores`, `setStr_agrees_config` / `setKBType_agrees_config` /
   `setSelKey_agrees_config` (the context is written exactly as C16's `Model/Config.lean` says), `setKBType_then_key`,
   `setStr_kb_is_setKBType` (C16 `kb_tables_agree`).

What the source does that a reader may not expect (each is a theorem here, none is a violation of C08 / C09):
* an unparsable token does NOT make the call fail: the syllables before it are used (`map_while`);
* adding a phrase that is already there returns 1 (it is `learn_phrase`: the frequency is raised, the key set is unchanged);
* a phrase given as NULL to `chewing_userphrase_remove` returns -1 when the syllables have some phrase, 0 otherwise.
-/
namespace Chewing.C08CApi
open Chewing Chewing.CApi Chewing.CApiUser Chewing.Gen Chewing.Gen.CApiUser Chewing.MapSpec

/-! ## 1. the generated reading against the documented meaning -/

/-- **documented return values and limits** (include/chewing.h, doc/libchewing.texi "User Phrase Handling"; the syllable
    limit is MAX_PHRASE_LEN = 11): add — NULL context -1, unreadable bopomofo 0, more than 11 syllables 0, no syllable 0,
    unreadable phrase -1, learned 1, refused 0; remove — NULL context -1, a phrase that is not there 0, removed 1; lookup —
    0 / 1, the USER dictionary only; the enumeration starts with 0; `chewing_set_selKey` wants exactly 10 keys -/
theorem user_constants_documented :
    addNullCtx = -1 ∧ addBopoNone = 0 ∧ addMaxSyl = 11 ∧ addTooMany = 0 ∧ addEmptyRefused = true ∧ addEmptyRc = 0 ∧
    addPhraseNone = -1 ∧ addOk = 1 ∧ addErr = 0 ∧
    removeNullCtx = -1 ∧ removePreLookup = true ∧ removeAbsent = 0 ∧ removeBopoNone = -1 ∧ removePhraseNone = -1 ∧
    removeOk = 1 ∧ removeErr = 0 ∧
    lookupNullCtx = 0 ∧ lookupBopoNone = 0 ∧ lookupUserOnly = true ∧ parseStopsAtBadToken = true ∧
    enumNullCtx = -1 ∧ enumRc = 0 ∧ Gen.CApiUser.setSelKeyLen = 10 := by decide

/-- **the rows as read from the source**: which `Editor` / dictionary method each call reaches, how the arguments are
    converted, the return rule, the NULL answers -/
theorem user_rows_documented :
    userCalls =
      [("chewing_userphrase_add",
        [("null_ctx", "-1"), ("bopomofo", "split_ascii_whitespace map_while parse::<Syllable>"), ("bopomofo_none", "0"),
         ("max_syllables", "11"), ("too_many", "0"), ("no_syllables", "0"), ("phrase_none", "-1"),
         ("method", "editor.learn_phrase"), ("ok", "1"), ("err", "0")]),
       ("chewing_userphrase_remove",
        [("null_ctx", "-1"), ("first", "chewing_userphrase_lookup != TRUE"), ("absent", "0"),
         ("bopomofo", "split_ascii_whitespace map_while parse::<Syllable>"), ("bopomofo_none", "-1"), ("phrase_none", "-1"),
         ("method", "editor.unlearn_phrase"), ("ok", "1"), ("err", "0")]),
       ("chewing_userphrase_lookup",
        [("null_ctx", "0"), ("bopomofo", "split_ascii_whitespace map_while parse::<Syllable>"), ("bopomofo_none", "0"),
         ("dictionary", "editor.user_dict"), ("strategy", "Standard"), ("phrase", "lookup_all_phrases any =="),
         ("phrase_none", "lookup_first_phrase is_some")]),
       ("chewing_userphrase_enumerate",
        [("null_ctx", "-1"), ("dictionary", "editor.user_dict"), ("method", "entries collect"), ("rc", "0"),
         ("get", "phrase = entry.1, bopomofo = entry.0 to_string joined by one space")]),
       ("chewing_set_selKey", [("ignored", "NULL array or len != 10")])] := by decide

/-! ## 2. the bopomofo string -/

theorem getD_mem_cons {α : Type} (l : List α) (i : Nat) (d : α) : l.getD i d ∈ d :: l := by
  induction l generalizing i with
  | nil => simp
  | cons a l ih =>
    cases i with
    | zero => simp
    | succ i =>
      have := ih i
      simp only [List.getD_cons_succ]
      rcases List.mem_cons.mp this with h | h
      · rw [h]; exact List.mem_cons_self ..
      · exact List.mem_cons_of_mem _ (List.mem_cons_of_mem _ h)

theorem charOf_not_ws (b : Nat) : isWs (charOf b) = false := by
  have h : ∀ x ∈ (0 :: Gen.bopoChar), isWs x = false := by decide
  exact h _ (getD_mem_cons _ _ _)

theorem spell_not_ws (c : Nat) : ∀ x ∈ spell c, isWs x = false := by
  intro x hx
  unfold spell at hx
  obtain ⟨b, _, rfl⟩ := List.mem_map.mp hx
  exact charOf_not_ws b

/-- a run without white space is swallowed into the current token -/
theorem splitGo_nows (w : List Nat) (hw : ∀ x ∈ w, isWs x = false) (rest cur : List Nat) :
    splitGo (w ++ rest) cur = splitGo rest (cur ++ w) := by
  induction w generalizing cur with
  | nil => simp
  | cons a w ih =>
    have ha : isWs a = false := hw a (List.mem_cons_self ..)
    simp only [List.cons_append, splitGo, ha, Bool.false_eq_true, if_false]
    rw [ih (fun x hx => hw x (List.mem_cons_of_mem _ hx))]
    simp

/-- a syllable the C API can print and read back: its spelling is not empty and parses to it -/
def Printable (k : Nat) : Prop := spell k ≠ [] ∧ Chewing.parse (spell k) = .ok k

theorem splitGo_print (ks : List Nat) (hk : ∀ k ∈ ks, spell k ≠ []) :
    splitGo (printSyls ks) [] = ks.map spell := by
  induction ks with
  | nil => rfl
  | cons k ks ih =>
    have hne : spell k ≠ [] := hk k (List.mem_cons_self ..)
    cases ks with
    | nil =>
      show splitGo (spell k) [] = [spell k]
      have := splitGo_nows (spell k) (spell_not_ws k) [] []
      rw [List.append_nil] at this
      rw [this]
      simp only [List.nil_append, splitGo]
      cases h : spell k with
      | nil => exact absurd h hne
      | cons a l => rfl
    | cons k2 ks =>
      show splitGo (spell k ++ 32 :: printSyls (k2 :: ks)) [] = _
      rw [splitGo_nows (spell k) (spell_not_ws k)]
      simp only [List.nil_append]
      have hws : isWs 32 = true := by decide
      rw [splitGo.eq_2, hws]
      simp only [if_true]
      cases h : spell k with
      | nil => exact absurd h hne
      | cons a l =>
        simp only [List.isEmpty_cons, Bool.false_eq_true, if_false]
        rw [ih (fun k' hk' => hk k' (List.mem_cons_of_mem _ hk'))]
        simp [h]

theorem parsePrefix_spell (ks : List Nat) (hk : ∀ k ∈ ks, Chewing.parse (spell k) = .ok k) :
    parsePrefix (ks.map spell) = ks := by
  induction ks with
  | nil => rfl
  | cons k ks ih =>
    simp only [List.map_cons, parsePrefix, hk k (List.mem_cons_self ..)]
    rw [ih (fun k' hk' => hk k' (List.mem_cons_of_mem _ hk'))]

theorem parse_print (ks : List Nat) (hk : ∀ k ∈ ks, Printable k) : parseBopomofo (printSyls ks) = ks := by
  unfold parseBopomofo splitWs
  rw [show parseStopsAtBadToken = true from rfl]
  simp only [if_true]
  rw [splitGo_print ks (fun k h => (hk k h).1), parsePrefix_spell ks (fun k h => (hk k h).2)]

theorem printable_of_composable {k : Nat} (h : C13.Composable k) (hne : k ≠ emptyPattern) : Printable k := by
  have hp := C13.parse_spell h
  refine ⟨fun he => ?_, hp⟩
  rw [he] at hp
  have : Chewing.parse [] = .ok emptyPattern := rfl
  rw [this] at hp
  injection hp with hp
  exact hne hp.symm

/-- **what the parser does on garbage**: the tokens are read up to the first one that is no syllable; that token and
    everything after it are ignored, the syllables before it are the result (so the call goes on with the PREFIX) -/
theorem parse_stops_at_bad_token (good : List Nat) (bad : Text) (rest : List Text)
    (hk : ∀ k ∈ good, Chewing.parse (spell k) = .ok k) (hb : ∀ v, Chewing.parse bad ≠ .ok v) :
    parsePrefix (good.map spell ++ bad :: rest) = good := by
  induction good with
  | nil =>
    show parsePrefix (bad :: rest) = []
    unfold parsePrefix
    cases h : Chewing.parse bad with
    | ok v => exact absurd h (hb v)
    | error e => rfl
  | cons k ks ih =>
    simp only [List.map_cons, List.cons_append, parsePrefix, hk k (List.mem_cons_self ..)]
    rw [ih (fun k' hk' => hk k' (List.mem_cons_of_mem _ hk'))]

/-- never more syllables than tokens; the reading is a total function of the string (no panic, no error value) -/
theorem parse_length_le (s : Text) : (parseBopomofo s).length ≤ (splitWs s).length := by
  unfold parseBopomofo
  rw [show parseStopsAtBadToken = true from rfl]
  simp only [if_true]
  generalize splitWs s = ts
  induction ts with
  | nil => exact Nat.le_refl _
  | cons t ts ih =>
    unfold parsePrefix
    cases Chewing.parse t with
    | ok v => simpa using ih
    | error e => simp

/-! ## 3. the user dictionary through the C calls -/

/-- the five dictionary operations the user-phrase calls reach -/
structure DictOps (D : Type) where
  lookup : D → Key → List Phrase
  entries : D → List Entry
  add : D → Key → Phrase → Option D
  update : D → Key → Phrase → Nat → Nat → D
  remove : D → Key → Text → D

/-- **the user dictionary is a map** (C09's statement, as a hypothesis on the environment): on every dictionary
    satisfying `G`, with `um d` the map it denotes -/
structure UserSpec {D : Type} (ops : DictOps D) (G : D → Prop) (um : D → Map) : Prop where
  lookup : ∀ d, G d → ∀ k, IsLookup (um d) k (ops.lookup d k)
  entries : ∀ d, G d → IsEntries (um d) (ops.entries d)
  add : ∀ d k ph d', G d → ops.add d k ph = some d' →
    G d' ∧ (ph.text = [] → d' = d) ∧ (ph.text ≠ [] → ∃ v, um d' = (um d).set (k, ph.text) (some v))
  update : ∀ d k ph f t, G d →
    G (ops.update d k ph f t) ∧ (ph.text = [] → ops.update d k ph f t = d) ∧
    (ph.text ≠ [] → ∃ v, um (ops.update d k ph f t) = (um d).set (k, ph.text) (some v))
  remove : ∀ d k t, G d → G (ops.remove d k t) ∧ um (ops.remove d k t) = (um d).set (k, t) none

section
variable {D L : Type} (env : Env D L) (uenv : UEnv D L)

def opsOf : DictOps D :=
  { lookup := fun d k => env.userLookupAll d k .standard, entries := uenv.entries, add := env.addPhrase,
    update := env.updatePhrase, remove := env.removePhrase }

theorem revalidate_dict {e e' : Editor D L} (h : Editor.revalidate env e = .ok e') : e'.shared.dict = e.shared.dict := by
  unfold Editor.revalidate at h
  split at h
  · split at h
    · split at h
      · injection h with h; rw [← h]; rfl
      · split at h
        · injection h with h; rw [← h]
        · injection h with h; rw [← h]
    · cases h
    · cases h
  · injection h with h; rw [← h]

theorem learn_false {sh sh' : Shared D L} {ks : List Nat} {p : Text}
    (h : Shared.learnPhrase env sh ks p = .ok (sh', false)) : sh' = sh := by
  unfold Shared.learnPhrase at h
  split at h
  · injection h with h; injection h with h1 _; exact h1.symm
  · simp only at h
    split at h
    · split at h
      · injection h with h; injection h with _ h2; cases h2
      · injection h with h; injection h with h1 _; exact h1.symm
    · split at h
      · injection h with h; injection h with _ h2; cases h2
      · cases h
      · cases h

theorem learn_true {sh sh' : Shared D L} {ks : List Nat} {p : Text}
    (h : Shared.learnPhrase env sh ks p = .ok (sh', true)) :
    ks.length = p.length ∧
    ((∃ d', env.addPhrase sh.dict ks { text := p, freq := 1 } = some d' ∧ sh'.dict = d') ∨
     (∃ f uf t, sh'.dict = env.updatePhrase sh.dict ks { text := p, freq := f } uf t)) := by
  unfold Shared.learnPhrase at h
  split at h
  · injection h with h; injection h with _ h2; cases h2
  · next hl =>
    have hlen : ks.length = p.length := by simpa using hl
    refine ⟨hlen, ?_⟩
    simp only at h
    split at h
    · split at h
      · next d hd =>
        injection h with h; injection h with h1 _
        exact Or.inl ⟨d, hd, by rw [← h1]⟩
      · injection h with h; injection h with _ h2; cases h2
    · split at h
      · injection h with h; injection h with h1 _
        exact Or.inr ⟨_, _, _, by rw [← h1]⟩
      · cases h
      · cases h
end

section
variable {D L : Type} (env : Env D L) (uenv : UEnv D L) {G : D → Prop} {um : D → Map}

theorem withEditor_ok {c c' : CCtx D L} {r : Outcome (Editor D L)} {rc rc' : Int}
    (h : c.withEditor r rc = .ok (c', rc')) : ∃ e', r = .ok e' ∧ c' = { c with editor := e' } ∧ rc' = rc := by
  unfold CCtx.withEditor at h
  split at h
  · next e => injection h with h; injection h with h1 h2; exact ⟨e, rfl, h1.symm, h2.symm⟩
  · cases h
  · cases h

theorem userLookup_eq (c : CCtx D L) (p b : Text) :
    c.userLookup env (some p) (some b) =
      if (env.userLookupAll c.editor.shared.dict (parseBopomofo b) .standard).any (fun ph => ph.text == p) then 1 else 0 := rfl

theorem userLookup_null_phrase (c : CCtx D L) (b : Text) :
    c.userLookup env none (some b) =
      if (env.userLookupAll c.editor.shared.dict (parseBopomofo b) .standard).head?.isSome then 1 else 0 := rfl

/-- **lookup answers from the map** the user dictionary denotes: 1 exactly for a live (syllables, phrase) -/
theorem lookup_iff_live (hS : UserSpec (opsOf env uenv) G um) (c : CCtx D L) (hG : G c.editor.shared.dict) (p b : Text) :
    c.userLookup env (some p) (some b) = 1 ↔ ∃ v, um c.editor.shared.dict (parseBopomofo b, p) = some v := by
  rw [userLookup_eq]
  obtain ⟨_, h2, h3⟩ := hS.lookup _ hG (parseBopomofo b)
  constructor
  · intro h
    split at h
    · next ha =>
      obtain ⟨ph, hm, he⟩ := List.any_eq_true.mp ha
      have := h2 ph hm
      rw [eq_of_beq he] at this
      exact ⟨_, this⟩
    · cases h
  · rintro ⟨v, hv⟩
    obtain ⟨ph, hm, he⟩ := h3 p v hv
    rw [if_pos]
    exact List.any_eq_true.mpr ⟨ph, hm, by rw [he]; exact BEq.refl _⟩

theorem lookup_01 (c : CCtx D L) (p b : Text) :
    c.userLookup env (some p) (some b) = 1 ∨ c.userLookup env (some p) (some b) = 0 := by
  rw [userLookup_eq]; split <;> simp

/-- **the enumeration is exactly the live entries** of that map -/
theorem keys_iff_live (hS : UserSpec (opsOf env uenv) G um) (c : CCtx D L) (hG : G c.editor.shared.dict) (k : List Nat) (t : Text) :
    (k, t) ∈ c.userKeys uenv ↔ ∃ v, um c.editor.shared.dict (k, t) = some v := by
  obtain ⟨_, h2, h3⟩ := hS.entries _ hG
  unfold CCtx.userKeys
  constructor
  · intro h
    obtain ⟨e, hm, he⟩ := List.mem_map.mp h
    have := h2 e hm
    injection he with h1 h2'
    rw [h1, h2'] at this
    exact ⟨_, this⟩
  · rintro ⟨v, hv⟩
    obtain ⟨e, hm, h1, h2'⟩ := h3 k t v hv
    exact List.mem_map.mpr ⟨e, hm, by rw [h1, h2']⟩

/-- no entry is handed out twice -/
theorem keys_nodup (hS : UserSpec (opsOf env uenv) G um) (c : CCtx D L) (hG : G c.editor.shared.dict) :
    (c.userKeys uenv).Nodup := (hS.entries _ hG).1

theorem entries_of_keys (c : CCtx D L) : c.userEntries uenv = (c.userKeys uenv).map fun e => (e.2, printSyls e.1) := by
  unfold CCtx.userEntries CCtx.userKeys
  rw [List.map_map]; rfl

/-- **lookup and enumeration agree**: `chewing_userphrase_lookup(p, b)` = 1 exactly when the enumeration hands out
    phrase `p` under the syllables read from `b` -/
theorem lookup_iff_enumerated (hS : UserSpec (opsOf env uenv) G um) (c : CCtx D L) (hG : G c.editor.shared.dict) (p b : Text) :
    c.userLookup env (some p) (some b) = 1 ↔ (parseBopomofo b, p) ∈ c.userKeys uenv := by
  rw [lookup_iff_live env uenv hS c hG, keys_iff_live env uenv hS c hG]

theorem userAdd_inv {c c' : CCtx D L} {p b : Text} {rc : Int} (h : c.userAdd env (some p) (some b) = .ok (c', rc)) :
    (c' = c ∧ rc = 0 ∧ ((parseBopomofo b).length > 11 ∨ parseBopomofo b = [])) ∨
    (∃ sh okb e', Shared.learnPhrase env c.editor.shared (parseBopomofo b) p = .ok (sh, okb) ∧
      Editor.revalidate env { c.editor with shared := sh } = .ok e' ∧ c' = { c with editor := e' } ∧
      rc = (if okb then 1 else 0) ∧ (parseBopomofo b).length ≤ 11 ∧ parseBopomofo b ≠ []) := by
  unfold CCtx.userAdd at h
  simp only [show addMaxSyl = 11 from rfl, show addEmptyRefused = true from rfl, Bool.true_and, show addTooMany = 0 from rfl,
    show addEmptyRc = 0 from rfl, show addOk = 1 from rfl, show addErr = 0 from rfl] at h
  by_cases h1 : (parseBopomofo b).length > 11
  · rw [if_pos h1] at h
    injection h with h; injection h with ha hb
    exact Or.inl ⟨ha.symm, hb.symm, Or.inl h1⟩
  · rw [if_neg h1] at h
    cases hks : parseBopomofo b with
    | nil =>
      rw [hks] at h
      simp only [List.isEmpty_nil, if_true] at h
      injection h with h; injection h with ha hb
      exact Or.inl ⟨ha.symm, hb.symm, Or.inr rfl⟩
    | cons k ks =>
      rw [hks] at h h1
      simp only [List.isEmpty_cons, Bool.false_eq_true, if_false] at h
      cases hl : Shared.learnPhrase env c.editor.shared (k :: ks) p with
      | ok x =>
        obtain ⟨sh, okb⟩ := x
        rw [hl] at h
        simp only at h
        obtain ⟨e', hr, hc, hrc⟩ := withEditor_ok h
        exact Or.inr ⟨sh, okb, e', rfl, hr, hc, hrc, by omega, by simp⟩
      | panic q => rw [hl] at h; cases h
      | outOfFuel => rw [hl] at h; cases h
end

section
variable {D L : Type} (env : Env D L) (uenv : UEnv D L) {G : D → Prop} {um : D → Map}

/-- **after `chewing_userphrase_add(p, b)` returns 1**: one character per syllable read, 1 … 11 syllables; the phrase is
    then looked up (`chewing_userphrase_lookup(p, b)` = 1) and enumerated (under the syllables read from `b`, printed);
    every other entry of the enumeration is as before; keyboard and selection keys untouched -/
theorem add_success (hS : UserSpec (opsOf env uenv) G um) {c c' : CCtx D L} (hG : G c.editor.shared.dict) {p b : Text}
    (h : c.userAdd env (some p) (some b) = .ok (c', 1)) :
    (parseBopomofo b).length = p.length ∧ 0 < (parseBopomofo b).length ∧ (parseBopomofo b).length ≤ 11 ∧
    G c'.editor.shared.dict ∧ c'.userLookup env (some p) (some b) = 1 ∧
    (parseBopomofo b, p) ∈ c'.userKeys uenv ∧ (p, printSyls (parseBopomofo b)) ∈ c'.userEntries uenv ∧
    (∀ k t, (k, t) ≠ (parseBopomofo b, p) → ((k, t) ∈ c'.userKeys uenv ↔ (k, t) ∈ c.userKeys uenv)) ∧
    c'.kb = c.kb ∧ c'.selKeys = c.selKeys := by
  rcases userAdd_inv env h with ⟨_, h0, _⟩ | ⟨sh, okb, e', hl, hr, hc, hrc, h11, hne⟩
  · cases h0
  · cases okb with
    | false => simp at hrc
    | true =>
      obtain ⟨hlen, hd⟩ := learn_true env hl
      have hpos : 0 < (parseBopomofo b).length := List.length_pos_iff.mpr hne
      have hpne : p ≠ [] := by
        intro hp; rw [hp] at hlen; simp at hlen; exact hne hlen
      have hdict : c'.editor.shared.dict = sh.dict := by rw [hc]; exact revalidate_dict env hr
      -- the new dictionary satisfies G and denotes the old map with (ks, p) set
      have hnew : G sh.dict ∧ ∃ v, um sh.dict = (um c.editor.shared.dict).set (parseBopomofo b, p) (some v) := by
        rcases hd with ⟨d', ha, hd'⟩ | ⟨f, uf, t, hd'⟩
        · obtain ⟨g, _, hs⟩ := hS.add _ _ _ _ hG ha
          rw [hd']; exact ⟨g, hs hpne⟩
        · obtain ⟨g, _, hs⟩ := hS.update c.editor.shared.dict (parseBopomofo b) { text := p, freq := f } uf t hG
          rw [hd']; exact ⟨g, hs hpne⟩
      obtain ⟨hG', v, hum⟩ := hnew
      have hG'' : G c'.editor.shared.dict := by rw [hdict]; exact hG'
      have hlive : ∃ v, um c'.editor.shared.dict (parseBopomofo b, p) = some v := ⟨v, by rw [hdict, hum]; simp⟩
      have hkey := (keys_iff_live env uenv hS c' hG'' _ _).mpr hlive
      refine ⟨hlen, hpos, h11, hG'', (lookup_iff_live env uenv hS c' hG'' p b).mpr hlive, hkey, ?_, ?_, by rw [hc], by rw [hc]⟩
      · rw [entries_of_keys]
        exact List.mem_map.mpr ⟨_, hkey, rfl⟩
      · intro k t hne'
        rw [keys_iff_live env uenv hS c' hG'', keys_iff_live env uenv hS c hG, hdict, hum, Map.set_other _ _ hne']

/-- **a refused add changes nothing in the user dictionary**: whatever value other than 1 is returned (0: no / too
    many syllables, lengths differ, the dictionary refused; -1: no phrase), the dictionary — and so every lookup and the
    enumeration — is as before, and so are keyboard and selection keys; outside an open candidate list the WHOLE context
    is unchanged -/
theorem add_refused {c c' : CCtx D L} {p b : Option Text} {rc : Int} (h : c.userAdd env p b = .ok (c', rc)) (hrc : rc ≠ 1) :
    c'.editor.shared.dict = c.editor.shared.dict ∧ c'.kb = c.kb ∧ c'.selKeys = c.selKeys ∧
    (c.editor.isSelecting = false → c' = c) := by
  cases b with
  | none => injection h with h; injection h with h1 _; rw [← h1]; exact ⟨rfl, rfl, rfl, fun _ => rfl⟩
  | some b =>
    cases p with
    | none =>
      unfold CCtx.userAdd at h
      simp only at h
      split at h
      · injection h with h; injection h with h1 _; rw [← h1]; exact ⟨rfl, rfl, rfl, fun _ => rfl⟩
      · split at h
        · injection h with h; injection h with h1 _; rw [← h1]; exact ⟨rfl, rfl, rfl, fun _ => rfl⟩
        · injection h with h; injection h with h1 _; rw [← h1]; exact ⟨rfl, rfl, rfl, fun _ => rfl⟩
    | some p =>
      rcases userAdd_inv env h with ⟨h0, _, _⟩ | ⟨sh, okb, e', hl, hr, hc, hrc', _, _⟩
      · rw [h0]; exact ⟨rfl, rfl, rfl, fun _ => rfl⟩
      · cases okb with
        | true => simp at hrc'; exact absurd hrc' hrc
        | false =>
          have hsh := learn_false env hl
          subst hsh
          refine ⟨by rw [hc]; exact revalidate_dict env hr, by rw [hc], by rw [hc], fun hs => ?_⟩
          have : e' = c.editor := by
            unfold Editor.revalidate at hr
            unfold Editor.isSelecting at hs
            split at hr
            · next s hst => rw [hst] at hs; cases hs
            · injection hr with hr; exact hr.symm
          rw [hc, this]

/-- **lengths differ: refused with 0** — exactly: the call is `revalidate_selecting` and returns 0 -/
theorem add_mismatch_refused (c : CCtx D L) (p b : Text) (hne : parseBopomofo b ≠ []) (h11 : (parseBopomofo b).length ≤ 11)
    (hlen : (parseBopomofo b).length ≠ p.length) :
    c.userAdd env (some p) (some b) = c.withEditor (Editor.revalidate env c.editor) 0 := by
  unfold CCtx.userAdd
  simp only [show addMaxSyl = 11 from rfl, show addEmptyRefused = true from rfl, Bool.true_and, show addErr = 0 from rfl]
  rw [if_neg (by omega)]
  cases hks : parseBopomofo b with
  | nil => exact absurd hks hne
  | cons k ks =>
    rw [hks] at hlen
    simp only [List.isEmpty_cons, Bool.false_eq_true, if_false]
    have : Shared.learnPhrase env c.editor.shared (k :: ks) p = .ok (c.editor.shared, false) := by
      unfold Shared.learnPhrase
      rw [if_pos (by simpa using hlen)]
    rw [this]; rfl

/-- no syllable can be read from the string (empty, white space only, a first token that is no syllable): refused with 0,
    the context unchanged — whatever the phrase (the repaired finding: an empty phrase used to be "added") -/
theorem add_no_syllables_refused (c : CCtx D L) (p : Option Text) (b : Text) (h : parseBopomofo b = []) :
    c.userAdd env p (some b) = .ok (c, 0) := by
  unfold CCtx.userAdd
  simp only [h]
  rfl

/-- more than 11 syllables: refused with 0, the context unchanged -/
theorem add_too_many_refused (c : CCtx D L) (p : Option Text) (b : Text) (h : (parseBopomofo b).length > 11) :
    c.userAdd env p (some b) = .ok (c, 0) := by
  unfold CCtx.userAdd
  simp only [show addMaxSyl = 11 from rfl]
  rw [if_pos h]; rfl

/-- NULL / non-UTF-8 arguments: bopomofo ↦ 0, phrase ↦ -1 (when the syllables are acceptable), context unchanged -/
theorem add_null_args (c : CCtx D L) (p : Option Text) (b : Text) (hne : parseBopomofo b ≠ []) (h11 : (parseBopomofo b).length ≤ 11) :
    c.userAdd env p none = .ok (c, 0) ∧ c.userAdd env none (some b) = .ok (c, -1) := by
  refine ⟨rfl, ?_⟩
  unfold CCtx.userAdd
  simp only [show addMaxSyl = 11 from rfl, show addEmptyRefused = true from rfl, Bool.true_and]
  rw [if_neg (by omega)]
  cases hks : parseBopomofo b with
  | nil => exact absurd hks hne
  | cons k ks => rfl

/-! ### remove -/

/-- **a phrase that is not there is not removed**: 0, the whole context unchanged ("return FALSE when phrase does not
    exist is C API only behavior") -/
theorem remove_absent (c : CCtx D L) (p b : Option Text) (h : c.userLookup env p b ≠ 1) :
    c.userRemove env p b = .ok (c, 0) := by
  unfold CCtx.userRemove
  rw [if_pos]
  · rfl
  · simp only [show removePreLookup = true from rfl, Bool.true_and]
    exact bne_iff_ne.mpr h

/-- a phrase that is there: `Editor::unlearn_phrase` (then `revalidate_selecting`), returns 1 -/
theorem remove_present (c : CCtx D L) (p b : Text) (h : c.userLookup env (some p) (some b) = 1) :
    c.userRemove env (some p) (some b) =
      c.withEditor (Editor.revalidate env { c.editor with shared := Shared.unlearnPhrase env c.editor.shared (parseBopomofo b) p }) 1 := by
  unfold CCtx.userRemove
  rw [if_neg]
  · rfl
  · simp only [show removePreLookup = true from rfl, Bool.true_and, h]
    decide

/-- **after `chewing_userphrase_remove(p, b)` returns 1**: the phrase was there, is no longer looked up
    (`chewing_userphrase_lookup(p, b)` = 0) nor enumerated; every other entry is as before -/
theorem remove_success (hS : UserSpec (opsOf env uenv) G um) {c c' : CCtx D L} (hG : G c.editor.shared.dict) {p b : Text}
    (h : c.userRemove env (some p) (some b) = .ok (c', 1)) :
    c.userLookup env (some p) (some b) = 1 ∧ G c'.editor.shared.dict ∧ c'.userLookup env (some p) (some b) = 0 ∧
    (parseBopomofo b, p) ∉ c'.userKeys uenv ∧
    (∀ k t, (k, t) ≠ (parseBopomofo b, p) → ((k, t) ∈ c'.userKeys uenv ↔ (k, t) ∈ c.userKeys uenv)) ∧
    c'.kb = c.kb ∧ c'.selKeys = c.selKeys := by
  have hl : c.userLookup env (some p) (some b) = 1 := by
    by_cases hl : c.userLookup env (some p) (some b) = 1
    · exact hl
    · rw [remove_absent env c _ _ hl] at h
      injection h with h; injection h with _ h2; cases h2
  rw [remove_present env c p b hl] at h
  obtain ⟨e', hr, hc, _⟩ := withEditor_ok h
  have hdict : c'.editor.shared.dict = env.removePhrase c.editor.shared.dict (parseBopomofo b) p := by
    rw [hc]; exact revalidate_dict env hr
  obtain ⟨hG', hum⟩ : G (env.removePhrase c.editor.shared.dict (parseBopomofo b) p) ∧
      um (env.removePhrase c.editor.shared.dict (parseBopomofo b) p) = (um c.editor.shared.dict).set (parseBopomofo b, p) none :=
    hS.remove c.editor.shared.dict (parseBopomofo b) p hG
  have hG'' : G c'.editor.shared.dict := by rw [hdict]; exact hG'
  have hdead : ¬ ∃ v, um c'.editor.shared.dict (parseBopomofo b, p) = some v := by
    rw [hdict, hum]; simp
  refine ⟨hl, hG'', ?_, ?_, ?_, by rw [hc], by rw [hc]⟩
  · rcases lookup_01 env c' p b with h1 | h0
    · exact absurd ((lookup_iff_live env uenv hS c' hG'' p b).mp h1) hdead
    · exact h0
  · exact fun hk => hdead ((keys_iff_live env uenv hS c' hG'' _ _).mp hk)
  · intro k t hne'
    rw [keys_iff_live env uenv hS c' hG'', keys_iff_live env uenv hS c hG, hdict, hum, Map.set_other _ _ hne']

/-! ### lookup and enumeration are pure -/

/-- **`chewing_userphrase_lookup` and `chewing_userphrase_enumerate` change nothing**: the context after the call is
    the context before it (so asking twice gives the same answer, and the enumeration is a function of the context) -/
theorem lookup_enumerate_pure (c : CCtx D L) (p b : Option Text) :
    c.applyUser env uenv (.userLookup p b) = .ok (c, c.userLookup env p b) ∧
    c.applyUser env uenv .userEnumerate = .ok (c, 0) := ⟨rfl, rfl⟩

/-- **the enumeration is exactly the user dictionary's `entries()`**, each printed as (phrase, syllables joined by one
    space); under `UserSpec` (C09: `entries_exact`) those are exactly the live entries, each once -/
theorem enumeration_is_entries (c : CCtx D L) :
    c.userEntries uenv = (uenv.entries c.editor.shared.dict).map fun e => (e.2.text, printSyls e.1) := rfl

end

/-! ## C01 at the C level with the user-phrase and configuration calls -/

/-- every keyboard the configuration calls can install is one of the eight of `Model/Keyboard.lean` -/
theorem kbName_valid (i : Nat) : C06CApi.KbValid (kbName i) := by
  have h : ("Qwerty" :: Gen.Cfg.keyboards).all (fun v => decide (snake v ∈ C06CApi.allKeyboards)) = true := by decide
  have := List.all_eq_true.mp h _ (getD_mem_cons Gen.Cfg.keyboards i "Qwerty")
  unfold C06CApi.KbValid kbName
  exact of_decide_eq_true this

section
variable {D L : Type} (env : Env D L) (uenv : UEnv D L) {G : D → Prop}

theorem withEditor_apply (hE : C01.EnvOK env G) (c0 : CCtx D L) (e : Editor D L) (hi : C01.SafeInv env G e) (op : Op L)
    (hv : C01.OpValid op) (rc : Int) :
    ∃ e', c0.withEditor (e.apply env op) rc = .ok ({ c0 with editor := e' }, rc) ∧ C01.SafeInv env G e' := by
  obtain ⟨e', h1, h2⟩ := C01.C01_step hE e op hi hv
  exact ⟨e', by rw [h1]; rfl, h2⟩

theorem learn_branch (hE : C01.EnvOK env G) (c : CCtx D L) (hi : C01.SafeInv env G c.editor) (ks : List Nat) (p : Text)
    (r1 r0 : Int) :
    ∃ c' rc, (match Shared.learnPhrase env c.editor.shared ks p with
      | .ok (sh, okb) => c.withEditor (Editor.revalidate env { c.editor with shared := sh }) (if okb then r1 else r0)
      | .panic q => .panic q
      | .outOfFuel => .outOfFuel) = .ok (c', rc) ∧ C01.SafeInv env G c'.editor ∧ c'.kb = c.kb ∧ c'.selKeys = c.selKeys := by
  obtain ⟨e', h1, h2⟩ := C01.C01_step hE c.editor (.learn ks p) hi trivial
  simp only [Editor.apply] at h1
  cases hl : Shared.learnPhrase env c.editor.shared ks p with
  | ok x =>
    obtain ⟨sh, okb⟩ := x
    rw [hl] at h1
    simp only at h1 ⊢
    rw [h1]
    exact ⟨_, _, rfl, h2, rfl, rfl⟩
  | panic q => rw [hl] at h1; cases h1
  | outOfFuel => rw [hl] at h1; cases h1

/-- **C01, one user-phrase / configuration call, any arguments** (any strings, NULL, not UTF-8, any ints): the call
    returns — no panic, no exhausted fuel —, the editor invariant holds again and the keyboard is still a valid one -/
theorem CU_user_step (hE : C01.EnvOK env G) (c : CCtx D L) (hkb : C06CApi.KbValid c.kb) (hi : C01.SafeInv env G c.editor)
    (op : UOp) :
    ∃ c' rc, c.applyUser env uenv op = .ok (c', rc) ∧ C01.SafeInv env G c'.editor ∧ C06CApi.KbValid c'.kb := by
  have same : ∀ rc : Int, ∃ c' rc', (Outcome.ok (c, rc) : Outcome (CCtx D L × Int)) = .ok (c', rc') ∧
      C01.SafeInv env G c'.editor ∧ C06CApi.KbValid c'.kb := fun rc => ⟨c, rc, rfl, hi, hkb⟩
  have install : ∀ (pair : Nat × Nat) (rc : Int), ∃ c' rc', c.installLayout env uenv pair rc = .ok (c', rc') ∧
      C01.SafeInv env G c'.editor ∧ C06CApi.KbValid c'.kb := by
    intro pair rc
    obtain ⟨e', h1, h2⟩ := withEditor_apply env hE ({ c with kb := kbName pair.1 } : CCtx D L) c.editor hi
      (.setLayout (uenv.layoutOf pair.2)) trivial rc
    exact ⟨_, _, h1, h2, kbName_valid _⟩
  cases op with
  | userAdd p b =>
    show ∃ c' rc, c.userAdd env p b = _ ∧ _
    cases b with
    | none => exact same _
    | some b =>
      unfold CCtx.userAdd
      simp only
      split
      · exact same _
      · split
        · exact same _
        · cases p with
          | none => exact same _
          | some p =>
            obtain ⟨c', rc, h1, h2, h3, _⟩ := learn_branch env hE c hi (parseBopomofo b) p addOk addErr
            exact ⟨c', rc, h1, h2, by rw [h3]; exact hkb⟩
  | userRemove p b =>
    show ∃ c' rc, c.userRemove env p b = _ ∧ _
    by_cases hl : c.userLookup env p b = 1
    · unfold CCtx.userRemove
      rw [if_neg (by simp only [show removePreLookup = true from rfl, Bool.true_and, hl]; decide)]
      cases b with
      | none => exact same _
      | some b =>
        cases p with
        | none => exact same _
        | some p =>
          obtain ⟨e', h1, h2⟩ := withEditor_apply env hE c c.editor hi (.unlearn (parseBopomofo b) p) trivial removeOk
          exact ⟨_, _, h1, h2, hkb⟩
    · rw [remove_absent env c p b hl]; exact same _
  | userLookup p b => exact same _
  | userEnumerate => exact same _
  | setKBType n => exact install _ _
  | setStr name value =>
    show ∃ c' rc, c.setStr env uenv name value = _ ∧ _
    unfold CCtx.setStr
    split
    · exact same _
    · split
      · split
        · exact same _
        · exact install _ _
      · split
        · split
          · exact same _
          · exact ⟨_, _, rfl, hi, hkb⟩
        · exact same _
  | setSelKey keys len =>
    refine ⟨c.setSelKey keys len, 0, rfl, ?_, ?_⟩
    · unfold CCtx.setSelKey; split
      · exact hi
      · split <;> exact hi
    · unfold CCtx.setSelKey; split
      · exact hkb
      · split <;> exact hkb

/-- **C01 at the C level, one call of the extended repertoire** -/
theorem CU_step (hE : C01.EnvOK env G) (c : CCtx D L) (hkb : C06CApi.KbValid c.kb) (hi : C01.SafeInv env G c.editor)
    (op : COpU) :
    ∃ c' rc, c.applyU env uenv op = .ok (c', rc) ∧ C01.SafeInv env G c'.editor ∧ C06CApi.KbValid c'.kb := by
  cases op with
  | base op =>
    obtain ⟨c', rc, h1, h2, h3, _⟩ := C06CApi.C_step env hE c hkb hi op
    exact ⟨c', rc, h1, h2, by rw [h3]; exact hkb⟩
  | user op => exact CU_user_step env uenv hE c hkb hi op

/-- **C01 at the C level, every history** mixing key handlers, candidate calls, buffer calls, user-phrase calls with
    arbitrary strings and the keyboard / selection-key setters with arbitrary ints and strings: no panic, no hang, one
    return value per call, the invariant is kept (extends `C06CApi.C_run`) -/
theorem CU_run (hE : C01.EnvOK env G) (ops : List COpU) :
    ∀ c : CCtx D L, C06CApi.KbValid c.kb → C01.SafeInv env G c.editor →
      ∃ c' rcs, c.runU env uenv ops = .ok (c', rcs) ∧ rcs.length = ops.length ∧ C01.SafeInv env G c'.editor ∧
        C06CApi.KbValid c'.kb := by
  induction ops with
  | nil => intro c hkb hi; exact ⟨c, [], rfl, rfl, hi, hkb⟩
  | cons op ops ih =>
    intro c hkb hi
    obtain ⟨c1, rc, h1, hi1, hk1⟩ := CU_step env uenv hE c hkb hi op
    obtain ⟨c2, rcs, h2, hl, hi2, hk2⟩ := ih c1 hk1 hi1
    refine ⟨c2, rc :: rcs, ?_, by simp [hl], hi2, hk2⟩
    simp only [CCtx.runU]; rw [h1]; simp only; rw [h2]

/-- a history of the old repertoire is the same history in the new one -/
theorem runU_base (c : CCtx D L) (ops : List COp) : c.runU env uenv (ops.map .base) = c.run env ops := by
  induction ops generalizing c with
  | nil => rfl
  | cons op ops ih =>
    simp only [List.map_cons, CCtx.runU, CCtx.run, CCtx.applyU]
    cases c.apply env op with
    | ok x => obtain ⟨c1, r⟩ := x; simp only; rw [ih]; cases CCtx.run env c1 ops <;> rfl
    | panic p => rfl
    | outOfFuel => rfl

/-- a NULL context: each added call returns its documented value and nothing happens -/
theorem null_context_values :
    nullRc (.userAdd none none) = -1 ∧ nullRc (.userRemove none none) = -1 ∧ nullRc (.userLookup none none) = 0 ∧
    nullRc .userEnumerate = -1 ∧ nullRc (.setKBType 0) = -1 ∧ nullRc (.setStr "" []) = -1 := by decide
end

/-! ## the setters: what they write, and what the next key then does -/

section
variable {D L : Type} (env : Env D L) (uenv : UEnv D L)

/-- `chewing_set_selKey` with the required length 10 stores the ten ints as they are — any ints -/
theorem setSelKey_stores (c : CCtx D L) (ks : List Int) : c.setSelKey (some ks) 10 = { c with selKeys := ks } := rfl

/-- `chewing_set_selKey` with any other length, or a NULL array, is ignored: the whole context unchanged -/
theorem setSelKey_ignored (c : CCtx D L) (keys : Option (List Int)) (len : Int) (h : keys = none ∨ len ≠ 10) :
    c.setSelKey keys len = c := by
  unfold CCtx.setSelKey
  cases keys with
  | none => rfl
  | some ks =>
    rcases h with h | h
    · cases h
    · simp only [show Gen.CApiUser.setSelKeyLen = 10 from rfl]; rw [if_pos h]

/-- **`chewing_set_selKey(ks, 10)`, a candidate list open, then `chewing_handle_Default(k)` for a key of `ks`**: the
    remap theorems of `C06CApi` hold for the keys JUST SET — the history returns [0, 0-or-so] and its second call is ONE
    `process_keyevent` of the digit key of the first position `i` of `k` in `ks`, whose `Selecting::next` arm is
    `Selecting::select(i)` (C07 "choosing i") — whatever ints were stored -/
theorem selkey_chooses_position_after_set (c : CCtx D L) (hkb : C06CApi.KbValid c.kb) (ks : List Int) (k : Int) (i : Nat)
    (s : Selecting) (hs : c.editor.state = .selecting s) (hi : ks.findIdx? (· == k) = some i) (h10 : i < 10) :
    c.runU env uenv [.user (.setSelKey (some ks) 10), .base (.default k)] =
      (C06CApi.keyStep env ({ c with selKeys := ks } : CCtx D L) (C06CApi.digitEvent i)).map (fun r => (r.1, [0, r.2])) ∧
    ∀ sh : Shared D L, selectingNext env s sh (C06CApi.digitEvent i) =
      (match Selecting.select env s sh i with
       | .ok (s', sh', t) => .ok ⟨sh', s', t⟩
       | .panic q => .panic q
       | .outOfFuel => .outOfFuel) := by
  obtain ⟨h1, h2⟩ := C06CApi.selkey_chooses_position env ({ c with selKeys := ks } : CCtx D L) hkb k i s hs hi h10
  refine ⟨?_, h2⟩
  simp only [CCtx.runU, CCtx.applyU, CCtx.applyUser, setSelKey_stores]
  rw [h1]
  cases C06CApi.keyStep env ({ c with selKeys := ks } : CCtx D L) (C06CApi.digitEvent i) with
  | ok x => rfl
  | panic p => rfl
  | outOfFuel => rfl

/-- the same after `chewing_config_set_str("chewing.selection_keys", s)` with ten ASCII characters: the keys stored are
    the characters (C16: `selkeys_roundtrip`) -/
theorem setStr_selKeys_stores (c : CCtx D L) (s : Text) (h : C16.ValidSelKeys s) :
    c.setStr env uenv Config.selKeysName s = .ok ({ c with selKeys := s.map Int.ofNat }, 0) := by
  have hc := (C16.selkeys_roundtrip s Config.init h).1
  have h1 : ¬ (Config.selKeysName ∉ Gen.Cfg.setStrNames) := by decide
  have h2 : Config.selKeysName ≠ Config.kbTypeName := by decide
  unfold Config.setStr at hc
  rw [if_neg h1, if_neg h2, if_pos rfl] at hc
  unfold CCtx.setStr
  rw [if_neg h1, if_neg h2, if_pos rfl]
  split
  · next hbad => rw [if_pos hbad] at hc; injection hc with _ hc2; cases hc2
  · next hok =>
    rw [if_neg hok] at hc
    injection hc with hc1 _
    have : Config.padKeys (s.map Int.ofNat) = s.map Int.ofNat := by
      have := congrArg Config.Ctx.selKeys hc1
      exact this
    rw [this]; rfl

/-- **the configuration calls write `kb` / `selKeys` exactly as `Model/Config.lean` (C16) says**: for every
    configuration `cc` that agrees with the context on keyboard and selection keys, return value, selection keys and
    keyboard after `chewing_config_set_str` are those of `Config.setStr` — so C16's theorems (`selkeys_roundtrip`,
    `selkeys_rejects`, `str_unknown_rejected`, `kb_select_equiv`, …) speak about this context -/
theorem setStr_agrees_config (c : CCtx D L) (cc : Config.Ctx) (hk : cc.selKeys = c.selKeys) (hkb : kbName cc.keyboard = c.kb)
    (name : String) (value : Text) {c' : CCtx D L} {rc : Int} (h : c.setStr env uenv name value = .ok (c', rc)) :
    rc = (Config.setStr name value cc).2 ∧ c'.selKeys = (Config.setStr name value cc).1.selKeys ∧
    c'.kb = kbName (Config.setStr name value cc).1.keyboard := by
  unfold CCtx.setStr at h
  unfold Config.setStr
  split at h
  · next h1 => rw [if_pos h1]; injection h with h; injection h with ha hb; rw [← ha, ← hb]; exact ⟨rfl, hk.symm, hkb.symm⟩
  · next h1 =>
    rw [if_neg h1]
    split at h
    · next h2 =>
      rw [if_pos h2]
      split at h
      · next h3 => rw [h3]; injection h with h; injection h with ha hb; rw [← ha, ← hb]; exact ⟨rfl, hk.symm, hkb.symm⟩
      · next k h3 =>
        rw [h3]
        obtain ⟨e', _, hc, hrc⟩ := withEditor_ok h
        rw [hc, hrc]; exact ⟨rfl, hk.symm, rfl⟩
    · next h2 =>
      rw [if_neg h2]
      split at h
      · next h3 =>
        rw [if_pos h3]
        split at h
        · next h4 => rw [if_pos h4]; injection h with h; injection h with ha hb; rw [← ha, ← hb]; exact ⟨rfl, hk.symm, hkb.symm⟩
        · next h4 => rw [if_neg h4]; injection h with h; injection h with ha hb; rw [← ha, ← hb]; exact ⟨rfl, rfl, hkb.symm⟩
      · next h3 => rw [if_neg h3]; injection h with h; injection h with ha hb; rw [← ha, ← hb]; exact ⟨rfl, hk.symm, hkb.symm⟩

/-- … and `chewing_set_KBType` as `Config.setKBType`: return value (-1 for an unknown number, which installs the default
    layout) and keyboard -/
theorem setKBType_agrees_config (c : CCtx D L) (cc : Config.Ctx) (n : Int) {c' : CCtx D L} {rc : Int}
    (h : c.setKBType env uenv n = .ok (c', rc)) :
    rc = (Config.setKBType n cc).2 ∧ c'.kb = kbName (Config.setKBType n cc).1.keyboard ∧ c'.selKeys = c.selKeys := by
  obtain ⟨e', _, hc, hrc⟩ := withEditor_ok h
  rw [hc, hrc]; exact ⟨rfl, rfl, rfl⟩

/-- … and `chewing_set_selKey` as `Config.setSelKey` -/
theorem setSelKey_agrees_config (c : CCtx D L) (cc : Config.Ctx) (hk : cc.selKeys = c.selKeys) (ks : List Int) (len : Int) :
    (c.setSelKey (some ks) len).selKeys = (Config.setSelKey ks len cc).selKeys := by
  unfold CCtx.setSelKey Config.setSelKey
  simp only [show Gen.CApiUser.setSelKeyLen = Gen.Cfg.setSelKeyLen from rfl]
  split <;> simp [hk]

/-- **`chewing_set_KBType(k)` then a key: the event is mapped by layout `k`'s keyboard** — after the call the context's
    keyboard is the one of the generated dispatch table (`Config.pairByNum`, which C16's `kb_tables_agree` proves equal
    to the by-name table), the syllable editor is a fresh one of that layout, and with no list open
    `chewing_handle_Default(key)` hands `map_ascii` OF THAT KEYBOARD to the editor -/
theorem setKBType_then_key (c c' : CCtx D L) (n : Int) (rc : Int) (h : c.setKBType env uenv n = .ok (c', rc)) (key : Int)
    (hs : c'.editor.isSelecting = false) :
    c'.kb = kbName (Config.pairByNum (Config.kbOfNum n)).1 ∧
    translate c'.facts (.default key) = keyGlue (mapAscii (kbName (Config.pairByNum (Config.kbOfNum n)).1) (narrow 0 key)) ∧
    Editor.revalidate env (c.editor.setLayout env (uenv.layoutOf (Config.pairByNum (Config.kbOfNum n)).2)) = .ok c'.editor := by
  obtain ⟨e', hr, hc, _⟩ := withEditor_ok h
  have hkb : c'.kb = kbName (Config.pairByNum (Config.kbOfNum n)).1 := by rw [hc]
  refine ⟨hkb, ?_, by rw [hc]; exact hr⟩
  rw [C06CApi.selkey_plain_when_closed c' key hs, hkb]

/-- selecting the layout by NAME installs what selecting it by NUMBER installs (C16 `kb_tables_agree`), and returns 0 -/
theorem setStr_kb_is_setKBType (c : CCtx D L) (value : Text) (k : Nat) (h : Config.assoc value Gen.Cfg.kbFromStrText = some k)
    (hk : Config.kbOfNum (k : Int) = k) :
    c.setStr env uenv Config.kbTypeName value = c.setKBType env uenv k := by
  have h1 : ¬ (Config.kbTypeName ∉ Gen.Cfg.setStrNames) := by decide
  unfold CCtx.setStr CCtx.setKBType
  rw [if_neg h1, if_pos rfl, h]
  simp only [hk, C16.kb_tables_agree]
  have : (if k = Gen.Cfg.kbDefault ∧ (k : Int) ≠ (k : Int) then (-1 : Int) else 0) = Config.OK := by
    rw [if_neg (fun h => h.2 rfl)]; rfl
  rw [this]
end

/-! ## link to C09: the `TrieBuf` model satisfies `UserSpec` -/

/-- the user layer as `Layered` drives it (`Layered::add_phrase` / `update_phrase` refuse an empty phrase and report
    `Ok`; `TrieBuf::add_phrase` refuses a live key), over C09's model of `TrieBuf` -/
def trieBufOps : DictOps TrieBuf.State where
  lookup s k := TrieBuf.lookupAll s k .standard
  entries := TrieBuf.entries
  add s k ph :=
    if ph.text = [] then some s
    else if TrieBuf.addOk s k ph.text then some (TrieBuf.apply s (.add k ph.text ph.freq ph.lastUsed)) else none
  update s k ph f t := if ph.text = [] then s else TrieBuf.apply s (.update k ph.text f t)
  remove s k t := TrieBuf.apply s (.remove k t)

/-- **C09 discharges the hypothesis**: in every state of every history of an in-memory or file-backed `TrieBuf` (C09's
    invariant `Inv`, `C09.triebuf_refines`), lookup and enumeration answer from the denoted map (`C09.lookup_exact`,
    `C09.entries_exact`) and add / update / remove act on it as `UserSpec` requires (`C09.refines_step`) -/
theorem c09_userSpec : UserSpec trieBufOps TrieBuf.Inv TrieBuf.abs where
  lookup s hs k := C09.lookup_exact s hs k
  entries s hs := C09.entries_exact s hs
  add s k ph s' hs h := by
    simp only [trieBufOps] at h
    by_cases he : ph.text = []
    · rw [if_pos he] at h; injection h with h
      exact ⟨by rw [← h]; exact hs, fun _ => h.symm, fun hne => absurd he hne⟩
    · rw [if_neg he] at h
      split at h
      · next hok =>
        injection h with h
        obtain ⟨h1, h2, h3⟩ := C09.refines_step s hs (.add k ph.text ph.freq ph.lastUsed)
        refine ⟨by rw [← h]; exact h1, fun h0 => absurd h0 he, fun _ => ⟨(ph.freq, ph.lastUsed.getD 0), ?_⟩⟩
        rw [← h, h2]
        show (if (TrieBuf.abs s).addOk k ph.text then _ else _) = _
        rw [← h3, hok]; rfl
      · cases h
  update s k ph f t hs := by
    simp only [trieBufOps]
    by_cases he : ph.text = []
    · rw [if_pos he]; exact ⟨hs, fun _ => rfl, fun hne => absurd he hne⟩
    · rw [if_neg he]
      obtain ⟨h1, h2, _⟩ := C09.refines_step s hs (.update k ph.text f t)
      exact ⟨h1, fun h0 => absurd h0 he, fun _ => ⟨(f, t), by rw [h2]; rfl⟩⟩
  remove s k t hs := by
    obtain ⟨h1, h2, _⟩ := C09.refines_step s hs (.remove k t)
    exact ⟨h1, by show TrieBuf.abs (TrieBuf.apply s (.remove k t)) = _; rw [h2]; rfl⟩

/-- the hypothesis is satisfiable: the empty in-memory user dictionary satisfies `Inv`, and stays so along every history -/
example (ops : List MapSpec.Op) : TrieBuf.Inv (TrieBuf.run TrieBuf.initMem ops) :=
  (C09.triebuf_refines TrieBuf.initMem (Or.inl rfl) ops).1

/-- an environment over any `DictOps` (the other components are inert): `opsOf` of it is the `DictOps` again, so
    `c09_userSpec` is an instance of the hypothesis `UserSpec (opsOf env uenv) G um` of the theorems above -/
def envOfOps {D : Type} (ops : DictOps D) : Env D Nat where
  lookupAll d k _ := ops.lookup d k
  userLookupAll d k _ := ops.lookup d k
  addPhrase := ops.add
  updatePhrase := ops.update
  removePhrase := ops.remove
  reopenFlush d := d
  convert _ _ _ := .ok [[]]
  estimate _ f _ := .ok f
  keyPress l _ := (.keyError, l)
  fuzzyKeyPress l _ := (.keyError, l)
  removeLast _ := 0
  clearSyl _ := 0
  sylIsEmpty l := l == 0
  read l := l
  altSyllables _ _ := []

def uenvOfOps {D : Type} (ops : DictOps D) : UEnv D Nat := { entries := ops.entries, layoutOf := fun _ => 0 }

theorem opsOf_envOfOps {D : Type} (ops : DictOps D) : opsOf (envOfOps ops) (uenvOfOps ops) = ops := rfl

/-- **`add_success` / `remove_success` over C09's `TrieBuf`**: a context whose user dictionary is ANY reachable state of
    an in-memory `TrieBuf` — after a successful add the phrase is looked up and enumerated, after a successful remove it
    is neither -/
theorem c09_context (ops : List MapSpec.Op) (p b : Text) (c' : CCtx TrieBuf.State Nat) :
    let c : CCtx TrieBuf.State Nat := { editor := { shared := { syl := 0, dict := TrieBuf.run TrieBuf.initMem ops } } }
    (c.userAdd (envOfOps trieBufOps) (some p) (some b) = .ok (c', 1) →
      c'.userLookup (envOfOps trieBufOps) (some p) (some b) = 1 ∧
      (p, printSyls (parseBopomofo b)) ∈ c'.userEntries (uenvOfOps trieBufOps)) ∧
    (c.userRemove (envOfOps trieBufOps) (some p) (some b) = .ok (c', 1) →
      c'.userLookup (envOfOps trieBufOps) (some p) (some b) = 0 ∧
      (parseBopomofo b, p) ∉ c'.userKeys (uenvOfOps trieBufOps)) := by
  intro c
  have hG : TrieBuf.Inv c.editor.shared.dict := (C09.triebuf_refines TrieBuf.initMem (Or.inl rfl) ops).1
  have hS : UserSpec (opsOf (envOfOps trieBufOps) (uenvOfOps trieBufOps)) TrieBuf.Inv TrieBuf.abs := c09_userSpec
  constructor
  · intro h
    obtain ⟨_, _, _, _, h5, _, h7, _⟩ := add_success _ _ hS hG h
    exact ⟨h5, h7⟩
  · intro h
    obtain ⟨_, _, h3, h4, _⟩ := remove_success _ _ hS hG h
    exact ⟨h3, h4⟩

/-! ## non-vacuity: the model computes, every hypothesis is satisfiable -/

/-- 測 = U+6E2C, 試 = U+8A66; ㄘㄜˋ = [ㄘ, ㄜ, ˋ], ㄕˋ = [ㄕ, ˋ] -/
def tCe : Text := [28204]
def tShi : Text := [35430]
def bCe : Text := [12568, 12572, 715]
def bShi : Text := [12565, 715]

/-- the parser: one syllable; two syllables between every kind of ASCII white space; a bad token in the middle — the
    prefix; a first bad token, the empty string, white space only — nothing; two syllables glued together — no syllable -/
example : parseBopomofo bCe = [10268] ∧
    parseBopomofo ([32, 32] ++ bCe ++ [9] ++ bShi ++ [13, 10]) = [10268, 8708] ∧
    parseBopomofo (bCe ++ [32, 120, 121, 122, 32] ++ bShi) = [10268] ∧
    parseBopomofo ([120, 121, 122, 32] ++ bCe) = [] ∧ parseBopomofo [] = [] ∧ parseBopomofo [32, 9] = [] ∧
    parseBopomofo (bCe ++ bShi) = [] := by decide

/-- printing and reading back: `Printable` holds for ㄘㄜˋ and ㄕˋ (composable, not the empty pattern) -/
example : printSyls [10268, 8708] = bCe ++ [32] ++ bShi ∧ parseBopomofo (printSyls [10268, 8708]) = [10268, 8708] := by decide

example : Printable 10268 ∧ Printable 8708 := by
  constructor <;> exact ⟨by decide, by decide⟩

/-- add, lookup, enumerate, remove on the list-backed context -/
example : ((listCtx []).userAdd listEnv (some tCe) (some bCe)).map (fun r => (r.1.editor.shared.dict, r.2)) =
    .ok ([([10268], tCe)], 1) := by decide

example : (listCtx [([10268], tCe)]).userLookup listEnv (some tCe) (some bCe) = 1 ∧
    (listCtx [([10268], tCe)]).userLookup listEnv (some tShi) (some bCe) = 0 ∧
    (listCtx [([10268], tCe)]).userLookup listEnv none (some bCe) = 1 ∧
    (listCtx [([10268], tCe)]).userLookup listEnv none (some bShi) = 0 ∧
    (listCtx [([10268], tCe)]).userLookup listEnv (some tCe) none = 0 ∧
    (listCtx [([10268], tCe)]).userEntries listUEnv = [(tCe, bCe)] := by decide

/-- refusals: lengths differ (0), unparsable first token (0), NULL phrase (-1), NULL bopomofo (0), the empty phrase under
    no syllables (0: the repaired finding) — the dictionary is as before each time -/
example : (((listCtx []).userAdd listEnv (some (tCe ++ tShi)) (some bCe)).map fun r => (r.1.editor.shared.dict, r.2)) = .ok (([] : ListDict), 0) ∧
    (((listCtx []).userAdd listEnv (some tCe) (some [120, 121])).map fun r => (r.1.editor.shared.dict, r.2)) = .ok (([] : ListDict), 0) ∧
    (((listCtx []).userAdd listEnv none (some bCe)).map fun r => (r.1.editor.shared.dict, r.2)) = .ok (([] : ListDict), -1) ∧
    (((listCtx []).userAdd listEnv (some tCe) none).map fun r => (r.1.editor.shared.dict, r.2)) = .ok (([] : ListDict), 0) ∧
    (((listCtx []).userAdd listEnv (some []) (some [])).map fun r => (r.1.editor.shared.dict, r.2)) = .ok (([] : ListDict), 0) :=
  ⟨by decide, by decide, by decide, by decide, by decide⟩

/-- the prefix rule, concretely: `add("測", "ㄘㄜˋ xyz")` succeeds and stores 測 under ㄘㄜˋ -/
example : (((listCtx []).userAdd listEnv (some tCe) (some (bCe ++ [32, 120, 121, 122]))).map fun r => (r.1.editor.shared.dict, r.2)) =
    .ok ([([10268], tCe)], 1) := by decide

example : (((listCtx [([10268], tCe)]).userRemove listEnv (some tCe) (some bCe)).map fun r => (r.1.editor.shared.dict, r.2)) = .ok (([] : ListDict), 1) ∧
    (((listCtx [([10268], tCe)]).userRemove listEnv (some tShi) (some bCe)).map fun r => (r.1.editor.shared.dict, r.2)) =
      .ok ([([10268], tCe)], 0) := by decide

/-- ONE history mixing the kinds of call: add, lookup, set the selection keys to "asdfghjkl;", a key, select the Hsu
    layout by number and Dvorak by name, an unknown layout number (-1, default installed), a bad selection-key string (-1),
    set_selKey with a wrong length (ignored), remove, lookup -/
example : (((listCtx []).runU listEnv listUEnv
      [.user (.userAdd (some tCe) (some bCe)), .user (.userLookup (some tCe) (some bCe)),
       .user (.setSelKey (some [97, 115, 100, 102, 103, 104, 106, 107, 108, 59]) 10), .base (.default 106),
       .user (.setKBType 1), .user (.setStr "chewing.keyboard_type" [75, 66, 95, 68, 86, 79, 82, 65, 75]),
       .user (.setKBType 99), .user (.setStr "chewing.selection_keys" [49, 50, 51]),
       .user (.setSelKey (some [1, 2, 3]) 3), .user (.userRemove (some tCe) (some bCe)),
       .user (.userLookup (some tCe) (some bCe)), .user .userEnumerate]).map
      fun r => (r.1.editor.shared.dict, r.1.selKeys, r.1.kb, r.2)) =
    .ok (([] : ListDict), [97, 115, 100, 102, 103, 104, 106, 107, 108, 59], "qwerty", [1, 1, 0, 0, 0, 0, -1, -1, 0, 1, 0, 0]) := by
  decide +kernel

/-- the keyboard written by `chewing_config_set_str("chewing.keyboard_type", "KB_DVORAK")` -/
example : (((listCtx []).setStr listEnv listUEnv "chewing.keyboard_type" [75, 66, 95, 68, 86, 79, 82, 65, 75]).map
    fun r => (r.1.kb, r.2)) = .ok ("dvorak", 0) := by decide +kernel

/-- C01 lift: `EnvOK` / `SafeInv` are satisfiable (C01's toy environment) and `CU_run` applies to a history with every
    kind of call and hostile arguments -/
def toyUEnv : UEnv (List Nat) Nat := { entries := fun _ => [], layoutOf := fun _ => 0 }

example : ∃ c' rcs, (({ editor := C01.stdEditor [3] } : CCtx (List Nat) Nat).runU C01.toyEnv toyUEnv
      [.base (.default 106), .user (.userAdd (some tCe) (some bCe)), .user (.userAdd none none),
       .user (.userRemove (some []) (some [255])), .user (.setKBType (-5)), .user (.setStr "" []),
       .user (.setSelKey none 10), .base .candOpen, .user (.userAdd (some tCe) (some bCe)), .base (.default 49)]) =
      .ok (c', rcs) ∧ rcs.length = 10 ∧ C01.SafeInv C01.toyEnv (fun _ => True) c'.editor ∧ C06CApi.KbValid c'.kb :=
  CU_run C01.toyEnv toyUEnv C01.toyEnv_ok _ _ (by unfold C06CApi.KbValid; decide) (C01.stdEditor_inv (w := False) [3])

/-- the selection keys just set are the ones that choose: hypotheses of `selkey_chooses_position_after_set` on C06's open
    list with keys "asdfghjkl;" (`d` = position 2) -/
example : ∃ c s, C06CApi.listCtx = some c ∧ c.editor.state = .selecting s ∧
    c.runU C06.toyEnv ({ entries := fun _ => [], layoutOf := fun _ => 0 } : UEnv Unit Nat)
      [.user (.setSelKey (some [113, 119, 100, 114, 116, 121, 117, 105, 111, 112]) 10), .base (.default 100)] =
      (C06CApi.keyStep C06.toyEnv ({ c with selKeys := [113, 119, 100, 114, 116, 121, 117, 105, 111, 112] } : CCtx Unit Nat)
        (C06CApi.digitEvent 2)).map (fun r => (r.1, [0, r.2])) := by
  refine ⟨_, _, rfl, rfl, ?_⟩
  exact (selkey_chooses_position_after_set C06.toyEnv _ _ (by unfold C06CApi.KbValid; decide) _ 100 2 _ rfl (by decide) (by omega)).1

end Chewing.C08CApi
