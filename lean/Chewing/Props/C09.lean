import Chewing.Proofs.TrieBufSorted
import Chewing.Proofs.TrieBufSettle
import Chewing.Proofs.SqliteDict
import Chewing.Proofs.TrieLink
import Chewing.Proofs.TrieLinkOrder
/-!
# C09 — Mutable dictionaries behave as a map under any update history

Models: `Model/MapSpec.lean` (the abstract map and what a correct answer is), `Model/TrieBuf.lean`
(`Trie` read side, `TrieBuilder`, `TrieBuf` with snapshot / pending tree / graveyard and the
*sequential* snapshot writer), `Model/Layered.lean` (the shared de-duplication loop, `Layered`).
The models describe the repository **after** the four `fix:` commits of this property:
F09 (`add_phrase`/`update_phrase` lift the tombstone), F11 (`Trie::lookup_first_n_phrases` truncates),
F10 (8e6d504: a pending entry replaces the persisted entry of the same key in `entries()` and in
lookups) and MaxCodePointPhrase (2c45871: a lookup scans *all* pending phrases of the syllables).

Result in one paragraph.  *State refinement holds for every history* (`triebuf_refines`): whatever
sequence of add / update / remove / flush / reopen / close-and-open is applied to an in-memory or a
file-backed `TrieBuf`, the map it denotes is the one `MapSpec` computes, and `add_phrase` is rejected
exactly on live keys.  The *answers* of **exact lookups and of the enumeration** are those of that map
in **every** state of every history, in-memory or file-backed, with no precondition on the operations
(`C09_exact`, `lookup_exact`, `entries_exact`).  *Prefix* (`FuzzyPartialPrefix`) lookups are the map's
outside one decidable class, which is a genuine defect of the code (known finding F36, refutations
below):

* `fuzzyClass` — class **FuzzyOverTombstoneOrPending** (F36): prefix lookups only scan persisted
  leaves, add the pending entries of exactly the query and filter pending keys / tombstones keyed by
  the query (`Trie::lookup_all_phrases` returns phrases without the key they were found under).

The class is *transient*: after **any** history `reopen; flush; reopen` (writer drained, snapshot taken
and adopted) or close-and-open leaves nothing pending, so that every answer — exact, prefix,
enumeration — is the map's (`adoption_answers`, `close_open_answers`, §6a).  `Layered` is treated for
arbitrary system layers and a user layer under any history applied through `Layered` itself
(`layered_history`, `layered_history_file`).  The provided trait methods `lookup_first_phrase` /
`lookup_all_phrases` are the head / the whole of the full result.

History of the statement: until fix 8e6d504 the exact lookup and the enumeration carried the exclusion
`shadowed` (class **UpdatePersisted**, F10: a live key both persisted and pending was enumerated twice
and looked up with the larger of the two frequencies; `entries_exact_iff` and
`shadowed_lookup_reports_larger` characterised the old behaviour exactly and are gone with it), and
every theorem carried the precondition `OpOk` (no phrase text beginning with U+10FFFF, class
**MaxCodePointPhrase**: the pending range ended at the exclusive bound `"\u{10FFFF}"`).  Both are
regression examples now (`update_persisted_fixed`, `max_code_point_phrase_fixed`).
-/
namespace Chewing.C09
open Chewing MapSpec TrieBuf Trie

/-! ## 1. Refinement: the denoted map follows the specification along every history -/

/-- one step: invariant preserved, `abs (apply op s) = MapSpec.apply op (abs s)`, and the result of
    `add_phrase` (the only operation that can fail) is the specification's -/
theorem refines_step (s : State) (hs : Inv s) (op : Op) :
    Inv (apply s op) ∧ abs (apply s op) = (abs s).apply op ∧
      ∀ k t, addOk s k t = (abs s).addOk k t :=
  ⟨inv_apply hs op, abs_apply hs op, fun k t => addOk_eq hs k t⟩

/-- **all histories** from a fresh in-memory or file-backed dictionary -/
theorem triebuf_refines (init : State) (hi : init = initMem ∨ init = initFile) (ops : List Op) :
    Inv (run init ops) ∧ abs (run init ops) = Map.empty.run ops := by
  rcases hi with rfl | rfl
  · have := run_refines inv_initMem ops
    rw [abs_initMem] at this; exact this
  · have := run_refines inv_initFile ops
    rw [abs_initFile] at this; exact this

/-- the pending list of the model is, in every reachable state, strictly increasing in the order of
    `PhraseKey` — it is the iteration order of the `BTreeMap` it stands for -/
theorem pending_sorted (init : State) (hi : init = initMem ∨ init = initFile) (ops : List Op) :
    Sorted (run init ops).btree := by
  rcases hi with rfl | rfl
  · exact sorted_run (s := initMem) List.Pairwise.nil ops
  · exact sorted_run (s := initFile) List.Pairwise.nil ops

/-! ## 2. Answers -/

/-- exact lookup, in **every** state: exactly the live phrases of the syllables, each once, with the
    stored frequency and time -/
theorem lookup_exact (s : State) (hs : Inv s) (k : Key) :
    IsLookup (abs s) k (lookupAll s k .standard) := lookup_agrees hs k

/-- exact lookup in *every* state: the phrases returned are exactly the live ones, each once -/
theorem lookup_phrases (s : State) (hs : Inv s) (k : Key) :
    (texts (lookupAll s k .standard)).Nodup ∧
      ∀ t, t ∈ texts (lookupAll s k .standard) ↔ ∃ v, abs s (k, t) = some v := lookup_texts hs k

/-- enumeration, in **every** state: exactly the live entries, each once -/
theorem entries_exact (s : State) (hs : Inv s) : IsEntries (abs s) (entries s) := entries_agrees hs

/-- on an exact lookup the de-duplication loop of `lookup_first_n_phrases` is the identity: the candidates
    (persisted phrases without a pending entry, then pending entries, minus tombstones) already have
    pairwise different texts -/
theorem lookup_is_candidates (s : State) (hs : Inv s) (k : Key) :
    lookupAll s k .standard = entriesIterFor s k .standard := lookupAll_std_eq_cands hs k

/-- prefix lookup outside class FuzzyOverTombstoneOrPending: one entry per phrase live under a matching
    key, with the highest frequency among them -/
theorem fuzzy_exact (s : State) (hs : Inv s) (q : Key) (hq : fuzzyMatch q q = true)
    (hc : fuzzyClass s q = false) :
    IsFuzzyLookup fuzzyMatch (abs s) q (lookupAll s q .fuzzyPartialPrefix) := fuzzy_agrees hs q hq hc

/-- an in-memory dictionary (no persisted layer) answers exact lookups and enumerations as the map,
    in every state of every history (special case of `C09_exact`, kept for `layered_history`) -/
theorem mem_answers (ops : List Op) :
    let s := run initMem ops
    abs s = Map.empty.run ops ∧ (∀ k, IsLookup (abs s) k (lookupAll s k .standard)) ∧ IsEntries (abs s) (entries s) := by
  intro s
  have h := triebuf_refines initMem (Or.inl rfl) ops
  exact ⟨h.2, fun k => lookup_agrees h.1 k, entries_agrees h.1⟩

/-! ## 3. Remove / re-add -/

/-- a removed phrase stays absent — from the map, from lookups and from the enumeration — as long as
    it is not added or updated again, whatever else happens (including snapshots) -/
theorem removed_stays_absent (s : State) (hs : Inv s) (k : Key) (t : Text) (ops : List Op)
    (hw : ∀ op ∈ ops, Map.writes (k, t) op = false) :
    let s' := run (apply s (.remove k t)) ops
    abs s' (k, t) = none ∧ t ∉ texts (lookupAll s' k .standard) ∧ ∀ e ∈ entries s', ¬ (e.1 = k ∧ e.2.text = t) := by
  intro s'
  have h1 := inv_apply hs (.remove k t)
  have h2 := run_refines h1 ops
  have habs : abs s' (k, t) = none := by
    show abs (run (apply s (.remove k t)) ops) (k, t) = none
    rw [h2.2, abs_apply hs]
    exact Map.run_absent (Map.apply_remove_absent _ k t) ops hw
  refine ⟨habs, ?_, ?_⟩
  · intro hm
    obtain ⟨v, hv⟩ := ((lookup_texts h2.1 k).2 t).mp hm
    rw [habs] at hv; exact absurd hv (by simp)
  · rintro e he ⟨e1, e2⟩
    obtain ⟨hg, h⟩ := mem_entries.mp he
    rw [e1, e2] at hg h
    -- a listed entry is live in the map
    have : ∃ v, abs s' (k, t) = some v := by
      rcases h with ⟨⟨l, hl, el, hp⟩, hn⟩ | ⟨v, hv, _⟩
      · exact ⟨valOf e.2, (absOver_eq_some h2.1.snap h2.1.bt).mpr
          ⟨hg, Or.inr ⟨hn, l, hl, el, e.2, hp, e2, rfl⟩⟩⟩
      · exact ⟨v, (absOver_eq_some h2.1.snap h2.1.bt).mpr ⟨hg, Or.inl hv⟩⟩
    obtain ⟨v, hv⟩ := this
    rw [habs] at hv; exact absurd hv (by simp)

/-- a pending entry that is not under a tombstone is returned by the exact lookup *as written* -/
theorem pending_is_reported (s : State) (hs : Inv s) (k : Key) (t : Text) (v : Val)
    (hbt : ((k, t), v) ∈ s.btree) (hg : (k, t) ∉ s.grave) :
    mkPhrase t v ∈ lookupAll s k .standard := by
  rw [lookupAll_std_eq_cands hs k]
  exact (mem_cands hs).mpr ⟨hg, Or.inr ⟨v, hbt, rfl⟩⟩

/-- … and adding it again makes it visible again, with the newly written value (F09, F10 fixed; before
    8e6d504 the value was only guaranteed for a key that was not also persisted) -/
theorem readd_visible_again (s : State) (hs : Inv s) (k : Key) (t : Text) (f : Nat) (tm : Option Nat)
    (ha : abs s (k, t) = none) :
    let s' := apply s (.add k t f tm)
    addOk s k t = true ∧ abs s' (k, t) = some (f, tm.getD 0) ∧ t ∈ texts (lookupAll s' k .standard) ∧
      { text := t, freq := f, lastUsed := some (tm.getD 0) } ∈ lookupAll s' k .standard := by
  intro s'
  have h1 : Inv s' := inv_apply hs (.add k t f tm)
  have habs : abs s' (k, t) = some (f, tm.getD 0) := by
    show abs (apply s (.add k t f tm)) (k, t) = _
    rw [abs_apply hs]; exact Map.apply_add_absent ha f tm
  have hin := ((lookup_texts h1 k).2 t).mpr ⟨_, habs⟩
  refine ⟨by rw [addOk_eq hs]; simp [Map.addOk, ha], habs, hin, ?_⟩
  have hbt : ((k, t), (f, tm.getD 0)) ∈ s'.btree := by
    have : addOk s k t = true := by rw [addOk_eq hs]; simp [Map.addOk, ha]
    show _ ∈ (apply s (.add k t f tm)).btree
    simp only [apply, this, if_true, put]
    exact mem_btInsert.mpr (Or.inl rfl)
  have hg : (k, t) ∉ s'.grave := ((absOver_eq_some h1.snap h1.bt).mp habs).1
  exact pending_is_reported s' h1 k t (f, tm.getD 0) hbt hg

/-- `update_phrase` always makes the phrase live with the written value (upsert), and the exact lookup
    reports exactly that value — also when the phrase is already persisted (F10 fixed) -/
theorem update_visible (s : State) (hs : Inv s) (k : Key) (t : Text) (f tm : Nat) :
    let s' := apply s (.update k t f tm)
    abs s' (k, t) = some (f, tm) ∧ t ∈ texts (lookupAll s' k .standard) ∧
      { text := t, freq := f, lastUsed := some tm } ∈ lookupAll s' k .standard := by
  intro s'
  have h1 : Inv s' := inv_apply hs (.update k t f tm)
  have habs : abs s' (k, t) = some (f, tm) := by
    show abs (apply s (.update k t f tm)) (k, t) = _
    rw [abs_apply hs]; exact Map.apply_update _ k t f tm
  refine ⟨habs, ((lookup_texts h1 k).2 t).mpr ⟨_, habs⟩, ?_⟩
  have hbt : ((k, t), (f, tm)) ∈ s'.btree := by
    show _ ∈ (apply s (.update k t f tm)).btree
    simp only [apply, put]
    exact mem_btInsert.mpr (Or.inl rfl)
  have hg : (k, t) ∉ s'.grave := ((absOver_eq_some h1.snap h1.bt).mp habs).1
  exact pending_is_reported s' h1 k t (f, tm) hbt hg

/-! ## 4. Layered -/

/-- a layered dictionary returns the union of its layers: one entry per phrase, each entry is an
    answer of some layer and carries the highest frequency any layer reports for that phrase, in the
    order of first appearance across the layers (system layers in order, then the user layer) -/
theorem layered_union (layers : List Dict) (k : List Nat) (st : Strategy) :
    let r := Layered.lookupAll layers k st
    (texts r).Nodup ∧
    (∀ t, t ∈ texts r ↔ ∃ d ∈ layers, t ∈ texts (d.lookup k st)) ∧
    (∀ p ∈ r, (∃ d ∈ layers, p ∈ d.lookup k st) ∧
      ∀ d ∈ layers, ∀ q ∈ d.lookup k st, q.text = p.text → q.freq ≤ p.freq) ∧
    texts r = firstOcc (texts (Layered.candidates layers k st)) := by
  intro r
  have hc : ∀ p, p ∈ Layered.candidates layers k st ↔ ∃ d ∈ layers, p ∈ d.lookup k st := by
    intro p; simp [Layered.candidates, List.mem_flatMap]
  refine ⟨dedup_texts_nodup _, ?_, ?_, texts_dedup _⟩
  · intro t
    show t ∈ texts (dedup _) ↔ _
    rw [mem_texts_dedup, mem_texts]
    constructor
    · rintro ⟨p, hp, rfl⟩
      obtain ⟨d, hd, hpd⟩ := (hc p).mp hp
      exact ⟨d, hd, mem_texts.mpr ⟨p, hpd, rfl⟩⟩
    · rintro ⟨d, hd, ht⟩
      obtain ⟨p, hp, rfl⟩ := mem_texts.mp ht
      exact ⟨p, (hc p).mpr ⟨d, hd, hp⟩, rfl⟩
  · intro p hp
    refine ⟨(hc p).mp (mem_of_mem_dedup hp), ?_⟩
    intro d hd q hq e
    exact dedup_highest hp ((hc q).mpr ⟨d, hd, hq⟩) e

/-- the order is stable for equal inputs: the answer is a function of the layers' answers alone -/
theorem layered_deterministic (l1 l2 : List Dict) (k : List Nat) (st : Strategy)
    (h : l1.map (fun d => d.lookup k st) = l2.map (fun d => d.lookup k st)) :
    Layered.lookupAll l1 k st = Layered.lookupAll l2 k st := by
  unfold Layered.lookupAll Layered.candidates
  rw [List.flatMap_def, List.flatMap_def, h]

/-- a history applied through `Layered` is the history of forwarded calls applied to the user layer -/
theorem layered_runUser (u : State) (ops : List Op) :
    Layered.runUser u ops = run u (ops.filter Layered.forwarded) := by
  induction ops generalizing u with
  | nil => rfl
  | cons op ops ih =>
    show Layered.runUser (Layered.applyUser u op) ops = _
    rw [ih]
    unfold Layered.applyUser
    cases hf : Layered.forwarded op with
    | true => simp [hf, run_cons]
    | false => simp [hf]

/-- `Layered` over system layers `sys` (any dictionaries) and a user layer `u` whose exact lookup of
    `k` is a correct answer for the map `m`: each phrase once; a phrase is returned iff a system layer
    returns it or it is live in `m`; a live user phrase is reported with at least the user's frequency
    (the highest across layers, by `layered_union`) -/
theorem layered_over_map (sys : List Dict) (u : State) (m : Map) (k : Key)
    (hlk : IsLookup m k (lookupAll u k .standard)) :
    let r := Layered.lookupAll (sys ++ [toDict u]) k .standard
    (texts r).Nodup ∧
    (∀ t, t ∈ texts r ↔ (∃ d ∈ sys, t ∈ texts (d.lookup k .standard)) ∨ ∃ v, m (k, t) = some v) ∧
    (∀ t v, m (k, t) = some v → ∃ p ∈ r, p.text = t ∧ v.1 ≤ p.freq) := by
  intro r
  obtain ⟨h1, h2, h3, _⟩ := layered_union (sys ++ [toDict u]) k .standard
  -- membership in the user layer's answer = liveness in the map
  have huser : ∀ t, t ∈ texts (lookupAll u k .standard) ↔ ∃ v, m (k, t) = some v := by
    intro t
    constructor
    · intro ht
      obtain ⟨p, hp, rfl⟩ := mem_texts.mp ht
      exact ⟨_, hlk.2.1 p hp⟩
    · rintro ⟨v, hv⟩
      obtain ⟨p, hp, e⟩ := hlk.2.2 t v hv
      exact mem_texts.mpr ⟨p, hp, e⟩
  have hdm : toDict u ∈ sys ++ [toDict u] := List.mem_append.mpr (Or.inr (by simp))
  refine ⟨h1, ?_, ?_⟩
  · intro t
    rw [h2 t]
    constructor
    · rintro ⟨d, hd, ht⟩
      rcases List.mem_append.mp hd with hd | hd
      · exact Or.inl ⟨d, hd, ht⟩
      · simp only [List.mem_cons, List.not_mem_nil, or_false] at hd
        rw [hd] at ht
        exact Or.inr ((huser t).mp ht)
    · rintro (⟨d, hd, ht⟩ | hv)
      · exact ⟨d, List.mem_append.mpr (Or.inl hd), ht⟩
      · exact ⟨toDict u, hdm, (huser t).mpr hv⟩
  · intro t v hv
    obtain ⟨q, hq, eq⟩ := hlk.2.2 t v hv
    have hqv := hlk.2.1 q hq
    rw [eq, hv] at hqv
    have hfreq : q.freq = v.1 := by
      have := congrArg Prod.fst (Option.some.inj hqv)
      simpa [valOf] using this.symm
    have ht : t ∈ texts r := (h2 t).mpr ⟨_, hdm, mem_texts.mpr ⟨q, hq, eq⟩⟩
    obtain ⟨p, hp, ep⟩ := mem_texts.mp ht
    refine ⟨p, hp, ep, ?_⟩
    have := (h3 p hp).2 _ hdm q hq (by rw [eq, ep])
    rw [hfreq] at this; exact this

/-- **Layered under any update history**: an in-memory user layer that went through the history `ops`
    of `Layered::{add,update,remove}_phrase`, `flush`, `reopen`; the user's map is
    `Map.empty.run (forwarded ops)` -/
theorem layered_history (sys : List Dict) (ops : List Op) (k : Key) :
    let m := Map.empty.run (ops.filter Layered.forwarded)
    let r := Layered.lookupAll (sys ++ [toDict (Layered.runUser initMem ops)]) k .standard
    (texts r).Nodup ∧
    (∀ t, t ∈ texts r ↔ (∃ d ∈ sys, t ∈ texts (d.lookup k .standard)) ∨ ∃ v, m (k, t) = some v) ∧
    (∀ t v, m (k, t) = some v → ∃ p ∈ r, p.text = t ∧ v.1 ≤ p.freq) := by
  intro m r
  obtain ⟨habs, hl, _⟩ := mem_answers (ops.filter Layered.forwarded)
  have hu : Layered.runUser initMem ops = run initMem (ops.filter Layered.forwarded) := layered_runUser _ _
  have hlk : IsLookup m k (lookupAll (Layered.runUser initMem ops) k .standard) := by
    have := hl k
    rw [habs, ← hu] at this; exact this
  exact layered_over_map sys _ m k hlk

/-! ## 5. The first n results are the first n of the full result -/

theorem first_n_is_prefix_triebuf (s : State) (k : Key) (n : Nat) (st : Strategy) :
    lookupFirstN s k n st = (lookupAll s k st).take n := rfl

theorem first_n_is_prefix_layered (layers : List Dict) (k : List Nat) (n : Nat) (st : Strategy) :
    Layered.lookupFirstN layers k n st = (Layered.lookupAll layers k st).take n := rfl

/-- for `Trie` this needs the final `truncate` of fix 4e93dec (F11) and the fact that the early
    `break` only skips leaves beyond the first n phrases -/
theorem first_n_is_prefix_trie (t : List Leaf) (q : Key) (n : Nat) (st : Strategy) :
    Trie.lookupFirstN t q n st = (Trie.lookupAll t q st).take n := by
  unfold Trie.lookupFirstN Trie.lookupAll
  rw [take_collect]; simp

/-- asking for `usize::MAX` (`lookup_all_phrases`) returns everything -/
theorem lookup_all_is_full (s : State) (k : Key) (st : Strategy) (n : Nat) (h : (lookupAll s k st).length ≤ n) :
    lookupFirstN s k n st = lookupAll s k st := by
  rw [first_n_is_prefix_triebuf]; exact List.take_of_length_le h

/-- the provided trait method `lookup_first_phrase` returns the head of the full result — for every
    implementation whose `lookup_first_n_phrases` is a prefix of its full result (all four above) -/
theorem first_phrase_is_head (lookupN : Nat → List Phrase) (full : List Phrase) (h : ∀ n, lookupN n = full.take n) :
    firstPhraseOf lookupN = full.head? := by
  unfold firstPhraseOf; rw [h 1]; cases full <;> rfl

/-- the provided trait method `lookup_all_phrases` (n = `usize::MAX`) returns the full result; a `Vec`
    never holds more than `usize::MAX` elements -/
theorem all_phrases_is_full (lookupN : Nat → List Phrase) (full : List Phrase) (h : ∀ n, lookupN n = full.take n)
    (hl : full.length ≤ usizeMax) : allPhrasesOf lookupN = full := by
  unfold allPhrasesOf; rw [h usizeMax]; exact List.take_of_length_le hl

/-- … instantiated: `TrieBuf`, `Layered`, `Trie`, SQLite -/
theorem first_phrase_triebuf (s : State) (k : Key) (st : Strategy) :
    firstPhraseOf (fun n => lookupFirstN s k n st) = (lookupAll s k st).head? :=
  first_phrase_is_head _ _ (fun n => first_n_is_prefix_triebuf s k n st)

theorem first_phrase_layered (layers : List Dict) (k : List Nat) (st : Strategy) :
    firstPhraseOf (fun n => Layered.lookupFirstN layers k n st) = (Layered.lookupAll layers k st).head? :=
  first_phrase_is_head _ _ (fun n => first_n_is_prefix_layered layers k n st)

theorem first_phrase_trie (t : List Leaf) (q : Key) (st : Strategy) :
    firstPhraseOf (fun n => Trie.lookupFirstN t q n st) = (Trie.lookupAll t q st).head? :=
  first_phrase_is_head _ _ (fun n => first_n_is_prefix_trie t q n st)

theorem first_phrase_sqlite (s : SqliteDict.State) (k : Key) (st : Strategy) :
    firstPhraseOf (fun n => SqliteDict.lookupFirstN s k n st) = (SqliteDict.lookupAll s k).head? :=
  first_phrase_is_head _ _ (fun _ => rfl)

/-! ## 6. The full statement, its refutation on the current tree, and the partial theorem -/

/-- the answers of a state are those of the map it denotes -/
structure Answers (s : State) : Prop where
  lookup : ∀ k, IsLookup (abs s) k (lookupAll s k .standard)
  entries : IsEntries (abs s) (entries s)
  fuzzy : ∀ q, fuzzyMatch q q = true → IsFuzzyLookup fuzzyMatch (abs s) q (lookupAll s q .fuzzyPartialPrefix)

/-- full-strength C09 for `TrieBuf`: along every history the dictionary denotes the specified map
    and answers as that map -/
def C09_full : Prop :=
  ∀ init, (init = initMem ∨ init = initFile) → ∀ ops : List Op,
    abs (run init ops) = Map.empty.run ops ∧ Answers (run init ops)

/-- C09 for the exact lookup and the enumeration — the two answers the property's statement names —
    at full strength: every history, every state, in-memory or file-backed, no precondition -/
def C09_exact_full : Prop :=
  ∀ init, (init = initMem ∨ init = initFile) → ∀ ops : List Op,
    let s := run init ops
    abs s = Map.empty.run ops ∧ (∀ k, IsLookup (abs s) k (lookupAll s k .standard)) ∧ IsEntries (abs s) (entries s)

theorem C09_exact : C09_exact_full := by
  intro init hi ops s
  have h := triebuf_refines init hi ops
  exact ⟨h.2, fun k => lookup_agrees h.1 k, entries_agrees h.1⟩

def kCe4 : Key := [10268]      -- ㄘㄜˋ
def kC : Key := [10240]        -- ㄘ
def tCe : Text := [28204]      -- 測

/-- F10 witness (fixed): add, snapshot, then update the persisted entry with a lower frequency -/
def witnessF10 : List Op := [.add kCe4 tCe 100 (some 2), .flush, .reopen, .update kCe4 tCe 50 7]

/-- F36 witness (pending half): a pending entry is never matched by prefix -/
def witnessF36 : List Op := [.add kCe4 tCe 1 (some 2)]

/-- F36 witness (tombstone half): the prefix lookup ignores the tombstone of a persisted entry -/
def witnessF36b : List Op := [.add kCe4 tCe 100 (some 2), .flush, .reopen, .remove kCe4 tCe]

/-- F10 regression (fixed by 8e6d504): the lookup reports the new value — before the fix it reported
    the old, larger one, 100 — and `entries()` yields the updated entry once — before: twice, 100 and 50 -/
theorem update_persisted_fixed :
    lookupAll (run initFile witnessF10) kCe4 .standard = [{ text := tCe, freq := 50, lastUsed := some 7 }] ∧
    entries (run initFile witnessF10) = [(kCe4, { text := tCe, freq := 50, lastUsed := some 7 })] ∧
    abs (run initFile witnessF10) (kCe4, tCe) = some (50, 7) := by decide

/-- F36: the pending phrase 測 under ㄘㄜˋ is live and matches the prefix ㄘ, yet the prefix lookup is empty -/
theorem fuzzy_pending_refuted :
    ¬ IsFuzzyLookup fuzzyMatch (abs (run initMem witnessF36)) kC (lookupAll (run initMem witnessF36) kC .fuzzyPartialPrefix) := by
  intro h
  have h1 : lookupAll (run initMem witnessF36) kC .fuzzyPartialPrefix = [] := by decide
  have h2 : abs (run initMem witnessF36) (kCe4, tCe) = some (1, 2) := by decide
  have hm : fuzzyMatch kCe4 kC = true := by decide
  obtain ⟨p, hp, _⟩ := h.2.2 kCe4 tCe (1, 2) hm h2
  rw [h1] at hp
  exact absurd hp (by simp)

/-- F36: after removing the persisted 測, the prefix lookup of ㄘ still returns it (the exact lookup does not) -/
theorem fuzzy_tombstone_witness :
    lookupAll (run initFile witnessF36b) kC .fuzzyPartialPrefix = [{ text := tCe, freq := 100, lastUsed := some 2 }] ∧
    lookupAll (run initFile witnessF36b) kCe4 .standard = [] ∧
    abs (run initFile witnessF36b) (kCe4, tCe) = none ∧ fuzzyClass (run initFile witnessF36b) kC = true := by
  decide

theorem C09_full_refuted : ¬ C09_full := by
  intro h
  have := (h initMem (Or.inl rfl) witnessF36).2.fuzzy kC (by decide)
  exact fuzzy_pending_refuted this

/-- **C09 for `TrieBuf`, partial**: along every history the denoted map is the specified one, every
    exact lookup and the enumeration are the map's (no exclusion), and every prefix lookup is the map's
    outside *exactly* the class `FuzzyOverTombstoneOrPending` (`fuzzyClass`) -/
theorem triebuf_refines_partial (init : State) (hi : init = initMem ∨ init = initFile) (ops : List Op) :
    let s := run init ops
    abs s = Map.empty.run ops ∧
    (∀ k, IsLookup (abs s) k (lookupAll s k .standard)) ∧
    IsEntries (abs s) (entries s) ∧
    (∀ q, fuzzyMatch q q = true → fuzzyClass s q = false →
      IsFuzzyLookup fuzzyMatch (abs s) q (lookupAll s q .fuzzyPartialPrefix)) := by
  intro s
  have h := triebuf_refines init hi ops
  exact ⟨h.2, fun k => lookup_agrees h.1 k, entries_agrees h.1, fun q hq hc => fuzzy_agrees h.1 q hq hc⟩

/-! ### 6a. The snapshot-adoption path: after `flush` + `reopen` every answer is exact

The known-finding class only exists *between* a modification of a dictionary and the adoption of the
next snapshot.  `Settled` = nothing pending, no tombstone. -/

/-- a settled state answers every query — exact lookup, enumeration, prefix lookup — as its map -/
theorem settled_answers (s : State) (hs : Inv s) (h : Settled s) : Answers s :=
  ⟨fun k => lookup_agrees hs k, entries_agrees hs, fun q hq => fuzzy_agrees hs q hq (settled_not_fuzzyClass h q)⟩

/-- **flush and reopen**: after *any* history on a file-backed dictionary, `reopen; flush; reopen`
    (let a writer in flight finish, take a snapshot, adopt it) leaves the specified map unchanged and
    from then on all answers are the map's, with no exclusion -/
theorem adoption_answers (ops : List Op) :
    let s := run initFile (ops ++ settleOps)
    abs s = Map.empty.run ops ∧ Answers s := by
  intro s
  have h := triebuf_refines initFile (Or.inr rfl) (ops ++ settleOps)
  have hq : Quiet (run initFile ops) := quiet_run quiet_initFile ops
  have hf : (run initFile ops).fileBacked = true := by rw [fileBacked_run]; rfl
  have hset : Settled s := by
    show Settled (run initFile (ops ++ settleOps))
    rw [TrieBuf.run_append]; exact settled_settle hq hf
  refine ⟨?_, settled_answers s h.1 hset⟩
  rw [h.2, Map.run_append, Map.run_idle _ settleOps (by decide)]

/-- **close and open again** (`Drop`: sync, flush, join; then `TrieBuf::open`): same conclusion -/
theorem close_open_answers (ops : List Op) :
    let s := run initFile (ops ++ [.closeOpen])
    abs s = Map.empty.run ops ∧ Answers s := by
  intro s
  have h := triebuf_refines initFile (Or.inr rfl) (ops ++ [.closeOpen])
  have hf : (run initFile ops).fileBacked = true := by rw [fileBacked_run]; rfl
  have hset : Settled s := by
    show Settled (run initFile (ops ++ [.closeOpen]))
    rw [TrieBuf.run_append]; exact settled_closeOpen hf
  refine ⟨?_, settled_answers s h.1 hset⟩
  rw [h.2, Map.run_append, Map.run_idle _ [.closeOpen] (by decide)]

/-- **Layered with a file-backed user layer**, after any history followed by `reopen; flush; reopen`
    through `Layered` (all three are forwarded): union with the user's map, no exclusion -/
theorem layered_history_file (sys : List Dict) (ops : List Op) (k : Key) :
    let m := Map.empty.run (ops.filter Layered.forwarded)
    let r := Layered.lookupAll (sys ++ [toDict (Layered.runUser initFile (ops ++ settleOps))]) k .standard
    (texts r).Nodup ∧
    (∀ t, t ∈ texts r ↔ (∃ d ∈ sys, t ∈ texts (d.lookup k .standard)) ∨ ∃ v, m (k, t) = some v) ∧
    (∀ t v, m (k, t) = some v → ∃ p ∈ r, p.text = t ∧ v.1 ≤ p.freq) := by
  intro m r
  have hu : Layered.runUser initFile (ops ++ settleOps) = run initFile (ops.filter Layered.forwarded ++ settleOps) := by
    rw [layered_runUser, List.filter_append]
    rfl
  obtain ⟨habs, ha⟩ := adoption_answers (ops.filter Layered.forwarded)
  have hlk : IsLookup m k (lookupAll (Layered.runUser initFile (ops ++ settleOps)) k .standard) := by
    have := ha.lookup k
    rw [habs, ← hu] at this; exact this
  exact layered_over_map sys _ m k hlk

/-- F36 on an in-memory dictionary, exactly: with no persisted layer the prefix lookup degenerates to
    the exact lookup of the query (pending entries are only ever matched by their exact key) -/
theorem mem_fuzzy_is_exact (s : State) (h : MemInv s) (q : Key) :
    lookupAll s q .fuzzyPartialPrefix = lookupAll s q .standard := by
  unfold TrieBuf.lookupAll entriesIterFor
  rw [h.2.1]
  rfl

/-- the class is *transient*: whatever state a file-backed dictionary is in, it is left by
    `reopen; flush; reopen` -/
theorem classes_are_transient (s : State) (hq : Quiet s) (hf : s.fileBacked = true) :
    ∀ q, fuzzyClass (run s settleOps) q = false :=
  fun q => settled_not_fuzzyClass (settled_settle hq hf) q

/-- MaxCodePointPhrase regression (fixed by 2c45871): a pending phrase that begins with U+10FFFF is looked
    up like any other — before the fix it was outside the range `entries_iter_for` scanned (exclusive
    bound `"\u{10FFFF}"`): live and enumerated, but never returned by a lookup, and `add_phrase` accepted
    it a second time -/
theorem max_code_point_phrase_fixed :
    lookupAll (run initMem [.add kCe4 [0x10FFFF] 1 none]) kCe4 .standard = [{ text := [0x10FFFF], freq := 1, lastUsed := some 0 }] ∧
    addOk (run initMem [.add kCe4 [0x10FFFF] 1 none]) kCe4 [0x10FFFF] = false := by decide

/-! ## 7. The SQLite user dictionary (feature `sqlite`; relational model, `Model/SqliteDict.lean`)

Its specification `SqliteDict.SMap` differs from `MapSpec` by design of the back end: the value is
`(freq, Option (user_freq, time))` and a lookup reports `max(freq, user_freq)`; `add_phrase` replaces
a live row instead of being rejected, `update_phrase` of a learned phrase changes `user_freq` only.
With that specification there is **no** exclusion: refinement and answers hold in every state. -/

/-- all histories, starting from any content written by `SqliteDictionaryBuilder` -/
theorem sqlite_refines (es : List Entry) (ops : List SqliteDict.Op) :
    SqliteDict.Inv (SqliteDict.run (SqliteDict.build es) ops) ∧
      SqliteDict.abs (SqliteDict.run (SqliteDict.build es) ops) = (SqliteDict.abs (SqliteDict.build es)).run ops :=
  SqliteDict.run_refines (SqliteDict.inv_build es) ops

/-- … in particular from an empty database -/
theorem sqlite_refines_fresh (ops : List SqliteDict.Op) :
    SqliteDict.abs (SqliteDict.run SqliteDict.init ops) = SqliteDict.SMap.empty.run ops :=
  (SqliteDict.run_refines SqliteDict.inv_init ops).2

/-- answers in every state of every history: a lookup returns exactly the live phrases of the
    syllables, each once, with the reported value; the enumeration exactly the live entries; the
    first n results are the first n of the full result (the lookup strategy is ignored) -/
theorem sqlite_answers (es : List Entry) (ops : List SqliteDict.Op) :
    let s := SqliteDict.run (SqliteDict.build es) ops
    (∀ k, SqliteDict.IsLookup (SqliteDict.abs s) k (SqliteDict.lookupAll s k)) ∧
    SqliteDict.IsEntries (SqliteDict.abs s) (SqliteDict.entries s) ∧
    (∀ k n st, SqliteDict.lookupFirstN s k n st = (SqliteDict.lookupAll s k).take n) := by
  intro s
  have h := (sqlite_refines es ops).1
  exact ⟨fun k => SqliteDict.lookup_agrees h k, SqliteDict.entries_agrees h, fun _ _ _ => rfl⟩

/-- a removed phrase stays absent until it is added or updated again -/
theorem sqlite_removed_stays_absent (s : SqliteDict.State) (hs : SqliteDict.Inv s) (k : Key) (t : Text)
    (ops : List SqliteDict.Op) (hw : ∀ op ∈ ops, SqliteDict.SMap.writes (k, t) op = false) :
    let s' := SqliteDict.run (SqliteDict.apply s (.remove k t)) ops
    SqliteDict.abs s' (k, t) = none ∧ t ∉ (SqliteDict.lookupAll s' k).map (·.text) := by
  intro s'
  have h1 := SqliteDict.inv_apply hs (.remove k t)
  have h2 := SqliteDict.run_refines h1 ops
  have habs : SqliteDict.abs s' (k, t) = none := by
    show SqliteDict.abs (SqliteDict.run (SqliteDict.apply s (.remove k t)) ops) (k, t) = none
    rw [h2.2, SqliteDict.abs_apply hs]
    exact SqliteDict.SMap.run_absent (by simp [SqliteDict.SMap.apply, SqliteDict.SMap.set]) ops hw
  refine ⟨habs, ?_⟩
  intro hm
  obtain ⟨p, hp, e⟩ := List.mem_map.mp hm
  obtain ⟨v, hv, _⟩ := (SqliteDict.lookup_agrees h2.1 k).2.1 p hp
  rw [e, habs] at hv
  exact absurd hv (by simp)

/-- … and `add_phrase` / `update_phrase` make it live again with the written value -/
theorem sqlite_readd_visible_again (s : SqliteDict.State) (hs : SqliteDict.Inv s) (k : Key) (t : Text) (f : Nat) :
    SqliteDict.abs (SqliteDict.apply s (.add k t f)) (k, t) = some (f, none) ∧
      { text := t, freq := f, lastUsed := none } ∈ SqliteDict.lookupAll (SqliteDict.apply s (.add k t f)) k := by
  have h1 := SqliteDict.inv_apply hs (.add k t f)
  have habs : SqliteDict.abs (SqliteDict.apply s (.add k t f)) (k, t) = some (f, none) := by
    rw [SqliteDict.abs_apply hs]; simp [SqliteDict.SMap.apply, SqliteDict.SMap.set]
  refine ⟨habs, ?_⟩
  obtain ⟨p, hp, e⟩ := (SqliteDict.lookup_agrees h1 k).2.2 t _ habs
  obtain ⟨v, hv, hr⟩ := (SqliteDict.lookup_agrees h1 k).2.1 p hp
  rw [e, habs] at hv
  simp only [Option.some.injEq] at hv
  rw [← hv] at hr
  simp only [SqliteDict.report, Prod.mk.injEq] at hr
  have : p = { text := t, freq := f, lastUsed := none } := by
    cases p; simp_all
  rw [← this]; exact hp

/-! ## 9. The file layer: C09's abstract trie file is C11's byte-level file

C09 models a trie file as the list of its leaves and "insert everything into a `TrieBuilder`, write,
open" as `Trie.build` (used by `checkpoint` for the snapshot and, through `DictLink`, by C10 and C08).
C11 models the same code at the level of the bytes.  The theorems of this section (proved in
`Proofs/TrieLink.lean` from C11's `read_write`, `lookup_correct`, `first_n_prefix`,
`first_phrase_correct`, `entries_correct`, `writes_within_limits`) identify the two, so that "a complete
file is the leaves written" is a theorem, not an assumption. -/

/-- the two transcriptions of the comparator of `TrieBuilder::write` (C09's `leafCmp`, C11's `phraseLt`)
    are the same function -/
theorem comparator_is_C11 (a b : Phrase) : Trie.leafLt a b = TrieCodec.phraseLt a b :=
  TrieLink.leafLt_eq_phraseLt a b

/-- C09's leaf sort (insertion from the left) and C11's (insertion from the right) give the same leaf -/
theorem leaf_order_is_C11 (ps : List Phrase) : isort Trie.leafLt ps = TrieCodec.sortLeaf ps :=
  TrieLink.isort_leafLt_eq_sortLeaf ps

/-- … as does **every** stable sort: a list that is sorted by the comparator and keeps every class of
    equally-ranked phrases in insertion order is the model's leaf (the comparator is a total preorder
    since fix ddfe893), so the model does not depend on the algorithm `slice::sort_by` runs -/
theorem leaf_order_any_stable_sort (ps r : List Phrase) (hs : StableSort.Sorted TrieCodec.phraseLt r)
    (hst : StableSort.StableOf TrieCodec.phraseLt (fun _ => True) ps r) : r = isort Trie.leafLt ps := by
  rw [leaf_order_is_C11]; exact TrieLink.stable_sort_is_sortLeaf ps r hs hst

/-- the two models of `TrieBuilder::insert` hold the same phrase vector for every key -/
theorem builder_insert_is_C11 (es : List Entry) (k : Key) : Trie.leafOf es k = (C11.inserted es k).getD [] :=
  TrieLink.leafOf_eq_refFind es k

/-- **the file layer of C09 is C11.**  For all metadata and every list of entries valid for the Rust
    types: inside the limits of the format (`Fits`) `TrieBuilder::write` succeeds, and whatever bytes it
    produced *denote* C09's abstract file `Trie.build es` (`TrieLink.Denotes`): `Trie::new` opens them, and
    for every query of non-zero syllables the real reader's `lookup_all_phrases` (exact and prefix
    strategy), `lookup_first_n_phrases` and `lookup_first_phrase` return **the same list** as C09's
    `Trie.lookupAll` / `Trie.lookupFirstN` on `Trie.build es`; `entries()` enumerates the entries of
    `Trie.build es` (a permutation: the real iterator goes depth first — which permutation: `file_entries_order`),
    key by key in the same order. -/
theorem file_layer_is_C11 (info : TrieCodec.Info) (es : List Entry) (hv : C11.ValidInput info es) :
    ((TrieCodec.Builder.ofEntries info es).Fits → ((TrieCodec.Builder.ofEntries info es).write).isSome = true) ∧
    ∀ bytes, (TrieCodec.Builder.ofEntries info es).write = some bytes → TrieLink.Denotes bytes (Trie.build es) :=
  ⟨C11.writes_within_limits _, fun bytes hw => TrieLink.build_denotes info es hv bytes hw⟩

/-- the lookup clause of `file_layer_is_C11`, spelled out -/
theorem file_lookup_is_C11 (info : TrieCodec.Info) (es : List Entry) (hv : C11.ValidInput info es) (bytes : Der.Bytes)
    (hw : (TrieCodec.Builder.ofEntries info es).write = some bytes) :
    ∃ tr, TrieCodec.openTrie bytes = some tr ∧ ∀ k st, C11.ValidKey k →
      TrieCodec.lookupAll tr k st = Trie.lookupAll (Trie.build es) k st ∧
      ∀ n, TrieCodec.lookupFirstN tr k n st = Trie.lookupFirstN (Trie.build es) k n st := by
  obtain ⟨tr, ho, h1, h2, _⟩ := (TrieLink.build_denotes info es hv bytes hw).reads
  exact ⟨tr, ho, fun k st hk => ⟨h1 k st hk, fun n => h2 k n st hk⟩⟩

/-- a snapshot taken by `checkpoint` (`Trie.build (entries s)`) is such a file: in a state whose
    entries are valid for the Rust types and within the limits, the bytes exist and denote it -/
theorem snapshot_file_is_C11 (info : TrieCodec.Info) (s : State) (hv : C11.ValidInput info (entries s))
    (hf : (TrieCodec.Builder.ofEntries info (entries s)).Fits) :
    ∃ bytes, (TrieCodec.Builder.ofEntries info (entries s)).write = some bytes ∧
      TrieLink.Denotes bytes (Trie.build (entries s)) :=
  TrieLink.build_denotes_fits info (entries s) hv hf

/-- **the order of `Trie::entries()` across keys** (the clause "a permutation" of `file_layer_is_C11`, determined):
    C09's abstract enumeration `Trie.entries (Trie.build es)` lists the leaves in file order — the keys of
    `buildKeys es`, sorted lexicographically by syllable code with a prefix first —; the real iterator over the
    bytes lists the SAME leaves with every maximal chain "each key a prefix of the next" of that sorted key list
    reversed (depth first along first children, `results.pop()` = deepest first).  From C11's `entries_order`. -/
theorem file_entries_order (info : TrieCodec.Info) (es : List Entry) (hv : C11.ValidInput info es) (bytes : Der.Bytes)
    (hw : (TrieCodec.Builder.ofEntries info es).write = some bytes) :
    ∃ tr, TrieCodec.openTrie bytes = some tr ∧
      TrieCodec.entries tr = .ok (((Cli.runs (TrieLink.buildKeys es)).flatMap List.reverse).flatMap fun k =>
        (TrieCodec.sortLeaf ((TrieCodec.refFind es k).getD [])).map fun p => (k, p)) ∧
      Trie.entries (Trie.build es) = (TrieLink.buildKeys es).flatMap fun k =>
        (TrieCodec.sortLeaf ((TrieCodec.refFind es k).getD [])).map fun p => (k, p) :=
  TrieLink.build_entries_exact info es hv bytes hw

/-! ## 8. Non-vacuity: the hypotheses are satisfiable and the classes are inhabited -/

/-- F09 regression (fixed): remove then re-add / update is visible again, also across a snapshot -/
example : lookupAll (run initMem [.add kCe4 tCe 1 (some 2), .remove kCe4 tCe, .add kCe4 tCe 3 (some 4)]) kCe4 .standard
    = [{ text := tCe, freq := 3, lastUsed := some 4 }] := by decide
example : lookupAll (run initFile [.add kCe4 tCe 1 (some 2), .flush, .reopen, .remove kCe4 tCe, .flush, .reopen,
    .update kCe4 tCe 5 5]) kCe4 .standard = [{ text := tCe, freq := 5, lastUsed := some 5 }] := by decide

/-- the F10 witness: the key is both persisted and pending; after adoption it is persisted only — the
    answer is the same -/
example : (run initFile witnessF10).btree ≠ [] ∧ (run initFile witnessF10).snap ≠ [] := by decide
example : lookupAll (run initFile (witnessF10 ++ [.flush, .reopen])) kCe4 .standard
    = [{ text := tCe, freq := 50, lastUsed := some 7 }] := by decide
/-- the F36 witness is in class FuzzyOverTombstoneOrPending; once persisted it is answered -/
example : fuzzyClass (run initMem witnessF36) kC = true := by decide
example : fuzzyClass (run initFile (witnessF36 ++ [.flush, .reopen])) kC = false ∧
    lookupAll (run initFile (witnessF36 ++ [.flush, .reopen])) kC .fuzzyPartialPrefix
      = [{ text := tCe, freq := 1, lastUsed := some 2 }] := by decide
/-- adoption: the F10 and F36 witnesses followed by `reopen; flush; reopen` are settled and answered exactly -/
example : Settled (run initFile (witnessF10 ++ settleOps)) ∧ Settled (run initFile (witnessF36b ++ settleOps)) := by decide
example : lookupAll (run initFile (witnessF36b ++ settleOps)) kC .fuzzyPartialPrefix = [] := by decide
example : (run initFile witnessF10).btree ≠ [] := by decide
/-- provided trait methods on the F11 leaf -/
example : firstPhraseOf (fun n => Trie.lookupFirstN (Trie.build [([1], ⟨[65], 1, none⟩), ([1], ⟨[66], 1, none⟩)]) [1] n .standard)
    = some ⟨[65], 1, none⟩ := by decide
example : fuzzyMatch kC kC = true := by decide
/-- F11 regression (fixed): first n of a 4-phrase leaf -/
example : (Trie.lookupFirstN (Trie.build [([1], ⟨[65], 1, none⟩), ([1], ⟨[66], 1, none⟩), ([1], ⟨[67], 1, none⟩),
    ([1], ⟨[68], 1, none⟩)]) [1] 2 .standard).length = 2 := by decide
/-- Layered: the documented example of `layered.rs` (側 1, 冊 100, 測 1, 策 100) -/
example : Layered.lookupAll
    [(TrieBuf.toDict (run initMem [.add kCe4 [28204] 1 none, .add kCe4 [20874] 1 none, .add kCe4 [20596] 1 none])),
     (TrieBuf.toDict (run initMem [.add kCe4 [31574] 100 none, .add kCe4 [20874] 100 none]))] kCe4 .standard
    = [⟨[20596], 1, some 0⟩, ⟨[20874], 100, some 0⟩, ⟨[28204], 1, some 0⟩, ⟨[31574], 100, some 0⟩] := by decide

/-- §9: a leaf mixing a single character with longer phrases — both models put the single character first,
    then descending frequency (before fix ddfe893 C09's comparator compared UTF-8 lengths here) -/
example : isort Trie.leafLt [⟨[1, 2], 5, none⟩, ⟨[3], 1, none⟩, ⟨[4, 5], 7, none⟩] =
    [⟨[3], 1, none⟩, ⟨[4, 5], 7, none⟩, ⟨[1, 2], 5, none⟩] ∧
    TrieCodec.sortLeaf [⟨[1, 2], 5, none⟩, ⟨[3], 1, none⟩, ⟨[4, 5], 7, none⟩] =
    [⟨[3], 1, none⟩, ⟨[4, 5], 7, none⟩, ⟨[1, 2], 5, none⟩] := by decide

/-- §9: the hypotheses of `file_layer_is_C11` hold for C11's sample input, the file is written, and C09's
    abstract file for it has the two leaves ㄘㄜˋ (測 re-inserted in place, then 冊) and ㄘㄜˋ ㄕˋ -/
example : C11.ValidInput {} C11.sampleEntries := by
  refine ⟨by unfold TrieCodec.ValidInfo; decide, ?_⟩
  intro e he
  simp only [C11.sampleEntries, List.mem_cons, List.not_mem_nil, or_false] at he
  rcases he with rfl | rfl | rfl | rfl <;> exact ⟨by decide, by decide⟩
example : ((TrieCodec.Builder.ofEntries {} C11.sampleEntries).write).isSome = true := by decide
example : Trie.build C11.sampleEntries =
    [([10268], [{ text := [28204], freq := 9 }, { text := [20874], freq := 70000 }]),
     ([10268, 8708], [{ text := [28204, 35430], freq := 100, lastUsed := some 5 }])] := by decide

end Chewing.C09
