import Chewing.Proofs.TrieBufSorted
import Chewing.Proofs.TrieBufSettle
import Chewing.Proofs.SqliteDict
import Chewing.Proofs.TrieLink
import Chewing.Proofs.TrieLinkOrder
import Chewing.Proofs.TrieFuzzyOrder
/-!
# C09 — Mutable dictionaries behave as a map under any update history

Models: `Model/MapSpec.lean` (the abstract map and what a correct answer is), `Model/TrieBuf.lean`
(`Trie` read side, `TrieBuilder`, `TrieBuf` with snapshot / pending tree / graveyard and the
*sequential* snapshot writer), `Model/Layered.lean` (the shared de-duplication loop, `Layered`).
The models describe the repository **after** the five `fix:` commits of this property:
F09 (`add_phrase`/`update_phrase` lift the tombstone), F11 (`Trie::lookup_first_n_phrases` truncates),
F10 (8e6d504: a pending entry replaces the persisted entry of the same key in `entries()` and in
lookups), MaxCodePointPhrase (2c45871: a lookup scans *all* pending phrases of the syllables) and
F36 (c3d9fb2: a prefix lookup is answered from the merged view of `entries()`, every pending / tombstone
filter keyed by the entry's own key, restricted to the keys that match the query per syllable).

Result in one paragraph.  **`theorem C09 : C09_full`** — whatever sequence of add / update / remove /
flush / reopen / close-and-open is applied to an in-memory or a file-backed `TrieBuf` (snapshot adoption
included), the map it denotes is the one `MapSpec` computes, `add_phrase` is rejected exactly on live
keys, and **every answer — exact lookup, prefix (`FuzzyPartialPrefix`) lookup, enumeration — is that
map's, in every state of every history, with no exclusion and no precondition** (`triebuf_refines`,
`lookup_exact`, `fuzzy_exact`, `entries_exact`).  The prefix-lookup specification `IsFuzzyLookup` is
ORDER-FREE (one entry per phrase text live under a matching key, with the value of one such key and the
highest frequency among them); the ORDER the repaired code produces is stated separately and exactly
(`fuzzy_order`: first appearance in "persisted matching entries in file order, then pending matching
entries in `BTreeMap` order"; `first_n_is_prefix_triebuf`: the first n results are the first n of it).
`Layered` is treated for arbitrary system layers and a user layer under any history applied through
`Layered` itself, in-memory or file-backed, for both strategies and in every state
(`layered_history_full`; the older `layered_history`, `layered_history_file` are special cases).  The
provided trait methods `lookup_first_phrase` / `lookup_all_phrases` are the head / the whole of the full
result.

History of the statement: until fix 8e6d504 the exact lookup and the enumeration carried the exclusion
`shadowed` (class **UpdatePersisted**, F10: a live key both persisted and pending was enumerated twice
and looked up with the larger of the two frequencies; `entries_exact_iff` and
`shadowed_lookup_reports_larger` characterised the old behaviour exactly and are gone with it), and
every theorem carried the precondition `OpOk` (no phrase text beginning with U+10FFFF, class
**MaxCodePointPhrase**: the pending range ended at the exclusive bound `"\u{10FFFF}"`).  Both are
regression examples now (`update_persisted_fixed`, `max_code_point_phrase_fixed`).  Until fix c3d9fb2
the prefix lookup carried the exclusion `fuzzyClass` (class **FuzzyOverTombstoneOrPending**, F36: prefix
lookups scanned only the persisted leaves, added the pending entries of exactly the query and filtered
pending keys / tombstones keyed by the QUERY) and the side condition `fuzzyMatch q q`; the full statement
was refuted (`C09_full_refuted`) and `triebuf_refines_partial` excluded exactly that class.  The two
witnesses are regression theorems now (`fuzzy_pending_repaired`, `fuzzy_tombstone_repaired`), the
"transient class" theorems of §6a remain as what they always were — statements about snapshot adoption.
-/
namespace Chewing.C09
open Chewing MapSpec TrieBuf Trie

/-! ## 1. Refinement: the denoted map follows the specification along every history -/

/-- one step: invariant preserved, `abs (apply op s) = MapSpec.apply op (abs s)`, and the result of
    `add_phrase` (the only operation that can fail) is the specification's -/
theorem refines_step (s : State) (hs : Inv s) (op : Op) :
    Inv (apply s op) ∧ abs (apply s op) = (abs s).apply op ∧
      ∀ k t, addOk s k t = (abs s).addOk k t :=
  ⟨inv_apply hs op, abs_apply hs op, fun k t => addOk_eq hs k t⟩

/-- **all histories** from a fresh in-memory or file-backed dictionary -/
theorem triebuf_refines (init : State) (hi : init = initMem ∨ init = initFile) (ops : List Op) :
    Inv (run init ops) ∧ abs (run init ops) = Map.empty.run ops := by
  rcases hi with rfl | rfl
  · have := run_refines inv_initMem ops
    rw [abs_initMem] at this; exact this
  · have := run_refines inv_initFile ops
    rw [abs_initFile] at this; exact this

/-- the pending list of the model is, in every reachable state, strictly increasing in the order of
    `PhraseKey` — it is the iteration order of the `BTreeMap` it stands for -/
theorem pending_sorted (init : State) (hi : init = initMem ∨ init = initFile) (ops : List Op) :
    Sorted (run init ops).btree := by
  rcases hi with rfl | rfl
  · exact sorted_run (s := initMem) List.Pairwise.nil ops
  · exact sorted_run (s := initFile) List.Pairwise.nil ops

/-! ## 2. Answers -/

/-- exact lookup, in **every** state: exactly the live phrases of the syllables, each once, with the
    stored frequency and time -/
theorem lookup_exact (s : State) (hs : Inv s) (k : Key) :
    IsLookup (abs s) k (lookupAll s k .standard) := lookup_agrees hs k

/-- exact lookup in *every* state: the phrases returned are exactly the live ones, each once -/
theorem lookup_phrases (s : State) (hs : Inv s) (k : Key) :
    (texts (lookupAll s k .standard)).Nodup ∧
      ∀ t, t ∈ texts (lookupAll s k .standard) ↔ ∃ v, abs s (k, t) = some v := lookup_texts hs k

/-- enumeration, in **every** state: exactly the live entries, each once -/
theorem entries_exact (s : State) (hs : Inv s) : IsEntries (abs s) (entries s) := entries_agrees hs

/-- on an exact lookup the de-duplication loop of `lookup_first_n_phrases` is the identity: the candidates
    (persisted phrases without a pending entry, then pending entries, minus tombstones) already have
    pairwise different texts -/
theorem lookup_is_candidates (s : State) (hs : Inv s) (k : Key) :
    lookupAll s k .standard = entriesIterFor s k .standard := lookupAll_std_eq_cands hs k

/-- prefix lookup, in **every** state and for **every** query: one entry per phrase live under a matching
    key (same number of syllables, every stored syllable `starts_with` the query's), with the value of one
    such key and the highest frequency among them (F36 fixed: no excluded class, no side condition) -/
theorem fuzzy_exact (s : State) (hs : Inv s) (q : Key) :
    IsFuzzyLookup fuzzyMatch (abs s) q (lookupAll s q .fuzzyPartialPrefix) := fuzzy_agrees hs q

/-- prefix lookup, phrases: the answer lists exactly the texts live under a matching key, each once -/
theorem fuzzy_phrases (s : State) (hs : Inv s) (q : Key) :
    (texts (lookupAll s q .fuzzyPartialPrefix)).Nodup ∧
      ∀ t, t ∈ texts (lookupAll s q .fuzzyPartialPrefix) ↔
        ∃ key v, fuzzyMatch key q = true ∧ abs s (key, t) = some v := fuzzy_texts hs q

/-- **the ORDER of a prefix lookup**, exactly as the repaired code produces it: the candidates are the
    persisted entries (file order: keys of the query's length lexicographically by syllable code, inside a
    key the leaf order) that match, have no pending entry and no tombstone of THEIR key, followed by the
    pending entries (`BTreeMap` order: by key, then text) that match and have no tombstone; the answer
    holds each text at the position of its first appearance among the candidates (with the maximum under
    `Phrase`'s order of all candidates of that text, `dedup`) -/
theorem fuzzy_order (s : State) (q : Key) :
    lookupAll s q .fuzzyPartialPrefix =
      dedup ((((Trie.entries s.snap).filter (fun e => !(btHas s.btree (e.1, e.2.text))) ++ btEntries s.btree).filter
        (fun e => !(s.grave.contains (e.1, e.2.text) ) ) |>.filter (fun e => fuzzyMatch e.1 q)).map (·.2)) ∧
    texts (lookupAll s q .fuzzyPartialPrefix) = firstOcc (texts (entriesIterFor s q .fuzzyPartialPrefix)) :=
  ⟨rfl, texts_dedup _⟩

/-- both strategies in one formula: the candidates of a lookup are the phrases of the enumerated entries
    (`entries()`: pending over persisted, minus tombstones) whose key matches the query under the strategy's
    predicate — `==` for the exact strategy (where the code takes the shortcut through the trie's own lookup
    and the `BTreeMap` range), per-syllable prefix for `FuzzyPartialPrefix` (where it IS the code) -/
theorem lookup_is_filtered_enumeration (s : State) (k : Key) (st : Strategy) :
    lookupAll s k st = dedup (((entries s).filter (fun e => keyMatch st e.1 k)).map (·.2)) := by
  unfold TrieBuf.lookupAll; rw [entriesIterFor_uniform]

/-- a candidate of a prefix lookup, layer by layer — each filter keyed by the key the phrase is stored
    under (the query's key was used before fix c3d9fb2) -/
theorem fuzzy_candidates (s : State) (q : Key) (p : Phrase) :
    p ∈ entriesIterFor s q .fuzzyPartialPrefix ↔ ∃ key, fuzzyMatch key q = true ∧ (key, p.text) ∉ s.grave ∧
      (((∃ l ∈ s.snap, l.1 = key ∧ p ∈ l.2) ∧ ∀ w, ((key, p.text), w) ∉ s.btree) ∨
        ∃ v, ((key, p.text), v) ∈ s.btree ∧ p = mkPhrase p.text v) := mem_fuzzy_entriesIterFor

/-- an in-memory dictionary (no persisted layer) answers exact lookups and enumerations as the map,
    in every state of every history (special case of `C09_exact`, kept for `layered_history`) -/
theorem mem_answers (ops : List Op) :
    let s := run initMem ops
    abs s = Map.empty.run ops ∧ (∀ k, IsLookup (abs s) k (lookupAll s k .standard)) ∧ IsEntries (abs s) (entries s) := by
  intro s
  have h := triebuf_refines initMem (Or.inl rfl) ops
  exact ⟨h.2, fun k => lookup_agrees h.1 k, entries_agrees h.1⟩

/-! ## 3. Remove / re-add -/

/-- a removed phrase stays absent — from the map, from lookups and from the enumeration — as long as
    it is not added or updated again, whatever else happens (including snapshots) -/
theorem removed_stays_absent (s : State) (hs : Inv s) (k : Key) (t : Text) (ops : List Op)
    (hw : ∀ op ∈ ops, Map.writes (k, t) op = false) :
    let s' := run (apply s (.remove k t)) ops
    abs s' (k, t) = none ∧ t ∉ texts (lookupAll s' k .standard) ∧ ∀ e ∈ entries s', ¬ (e.1 = k ∧ e.2.text = t) := by
  intro s'
  have h1 := inv_apply hs (.remove k t)
  have h2 := run_refines h1 ops
  have habs : abs s' (k, t) = none := by
    show abs (run (apply s (.remove k t)) ops) (k, t) = none
    rw [h2.2, abs_apply hs]
    exact Map.run_absent (Map.apply_remove_absent _ k t) ops hw
  refine ⟨habs, ?_, ?_⟩
  · intro hm
    obtain ⟨v, hv⟩ := ((lookup_texts h2.1 k).2 t).mp hm
    rw [habs] at hv; exact absurd hv (by simp)
  · rintro e he ⟨e1, e2⟩
    obtain ⟨hg, h⟩ := mem_entries.mp he
    rw [e1, e2] at hg h
    -- a listed entry is live in the map
    have : ∃ v, abs s' (k, t) = some v := by
      rcases h with ⟨⟨l, hl, el, hp⟩, hn⟩ | ⟨v, hv, _⟩
      · exact ⟨valOf e.2, (absOver_eq_some h2.1.snap h2.1.bt).mpr
          ⟨hg, Or.inr ⟨hn, l, hl, el, e.2, hp, e2, rfl⟩⟩⟩
      · exact ⟨v, (absOver_eq_some h2.1.snap h2.1.bt).mpr ⟨hg, Or.inl hv⟩⟩
    obtain ⟨v, hv⟩ := this
    rw [habs] at hv; exact absurd hv (by simp)

/-- a pending entry that is not under a tombstone is returned by the exact lookup *as written* -/
theorem pending_is_reported (s : State) (hs : Inv s) (k : Key) (t : Text) (v : Val)
    (hbt : ((k, t), v) ∈ s.btree) (hg : (k, t) ∉ s.grave) :
    mkPhrase t v ∈ lookupAll s k .standard := by
  rw [lookupAll_std_eq_cands hs k]
  exact (mem_cands hs).mpr ⟨hg, Or.inr ⟨v, hbt, rfl⟩⟩

/-- … and adding it again makes it visible again, with the newly written value (F09, F10 fixed; before
    8e6d504 the value was only guaranteed for a key that was not also persisted) -/
theorem readd_visible_again (s : State) (hs : Inv s) (k : Key) (t : Text) (f : Nat) (tm : Option Nat)
    (ha : abs s (k, t) = none) :
    let s' := apply s (.add k t f tm)
    addOk s k t = true ∧ abs s' (k, t) = some (f, tm.getD 0) ∧ t ∈ texts (lookupAll s' k .standard) ∧
      { text := t, freq := f, lastUsed := some (tm.getD 0) } ∈ lookupAll s' k .standard := by
  intro s'
  have h1 : Inv s' := inv_apply hs (.add k t f tm)
  have habs : abs s' (k, t) = some (f, tm.getD 0) := by
    show abs (apply s (.add k t f tm)) (k, t) = _
    rw [abs_apply hs]; exact Map.apply_add_absent ha f tm
  have hin := ((lookup_texts h1 k).2 t).mpr ⟨_, habs⟩
  refine ⟨by rw [addOk_eq hs]; simp [Map.addOk, ha], habs, hin, ?_⟩
  have hbt : ((k, t), (f, tm.getD 0)) ∈ s'.btree := by
    have : addOk s k t = true := by rw [addOk_eq hs]; simp [Map.addOk, ha]
    show _ ∈ (apply s (.add k t f tm)).btree
    simp only [apply, this, if_true, put]
    exact mem_btInsert.mpr (Or.inl rfl)
  have hg : (k, t) ∉ s'.grave := ((absOver_eq_some h1.snap h1.bt).mp habs).1
  exact pending_is_reported s' h1 k t (f, tm.getD 0) hbt hg

/-- `update_phrase` always makes the phrase live with the written value (upsert), and the exact lookup
    reports exactly that value — also when the phrase is already persisted (F10 fixed) -/
theorem update_visible (s : State) (hs : Inv s) (k : Key) (t : Text) (f tm : Nat) :
    let s' := apply s (.update k t f tm)
    abs s' (k, t) = some (f, tm) ∧ t ∈ texts (lookupAll s' k .standard) ∧
      { text := t, freq := f, lastUsed := some tm } ∈ lookupAll s' k .standard := by
  intro s'
  have h1 : Inv s' := inv_apply hs (.update k t f tm)
  have habs : abs s' (k, t) = some (f, tm) := by
    show abs (apply s (.update k t f tm)) (k, t) = _
    rw [abs_apply hs]; exact Map.apply_update _ k t f tm
  refine ⟨habs, ((lookup_texts h1 k).2 t).mpr ⟨_, habs⟩, ?_⟩
  have hbt : ((k, t), (f, tm)) ∈ s'.btree := by
    show _ ∈ (apply s (.update k t f tm)).btree
    simp only [apply, put]
    exact mem_btInsert.mpr (Or.inl rfl)
  have hg : (k, t) ∉ s'.grave := ((absOver_eq_some h1.snap h1.bt).mp habs).1
  exact pending_is_reported s' h1 k t (f, tm) hbt hg

/-! ## 4. Layered -/

/-- a layered dictionary returns the union of its layers: one entry per phrase, each entry is an
    answer of some layer and carries the highest frequency any layer reports for that phrase, in the
    order of first appearance across the layers (system layers in order, then the user layer) -/
theorem layered_union (layers : List Dict) (k : List Nat) (st : Strategy) :
    let r := Layered.lookupAll layers k st
    (texts r).Nodup ∧
    (∀ t, t ∈ texts r ↔ ∃ d ∈ layers, t ∈ texts (d.lookup k st)) ∧
    (∀ p ∈ r, (∃ d ∈ layers, p ∈ d.lookup k st) ∧
      ∀ d ∈ layers, ∀ q ∈ d.lookup k st, q.text = p.text → q.freq ≤ p.freq) ∧
    texts r = firstOcc (texts (Layered.candidates layers k st)) := by
  intro r
  have hc : ∀ p, p ∈ Layered.candidates layers k st ↔ ∃ d ∈ layers, p ∈ d.lookup k st := by
    intro p; simp [Layered.candidates, List.mem_flatMap]
  refine ⟨dedup_texts_nodup _, ?_, ?_, texts_dedup _⟩
  · intro t
    show t ∈ texts (dedup _) ↔ _
    rw [mem_texts_dedup, mem_texts]
    constructor
    · rintro ⟨p, hp, rfl⟩
      obtain ⟨d, hd, hpd⟩ := (hc p).mp hp
      exact ⟨d, hd, mem_texts.mpr ⟨p, hpd, rfl⟩⟩
    · rintro ⟨d, hd, ht⟩
      obtain ⟨p, hp, rfl⟩ := mem_texts.mp ht
      exact ⟨p, (hc p).mpr ⟨d, hd, hp⟩, rfl⟩
  · intro p hp
    refine ⟨(hc p).mp (mem_of_mem_dedup hp), ?_⟩
    intro d hd q hq e
    exact dedup_highest hp ((hc q).mpr ⟨d, hd, hq⟩) e

/-- the order is stable for equal inputs: the answer is a function of the layers' answers alone -/
theorem layered_deterministic (l1 l2 : List Dict) (k : List Nat) (st : Strategy)
    (h : l1.map (fun d => d.lookup k st) = l2.map (fun d => d.lookup k st)) :
    Layered.lookupAll l1 k st = Layered.lookupAll l2 k st := by
  unfold Layered.lookupAll Layered.candidates
  rw [List.flatMap_def, List.flatMap_def, h]

/-- a history applied through `Layered` is the history of forwarded calls applied to the user layer -/
theorem layered_runUser (u : State) (ops : List Op) :
    Layered.runUser u ops = run u (ops.filter Layered.forwarded) := by
  induction ops generalizing u with
  | nil => rfl
  | cons op ops ih =>
    show Layered.runUser (Layered.applyUser u op) ops = _
    rw [ih]
    unfold Layered.applyUser
    cases hf : Layered.forwarded op with
    | true => simp [hf, run_cons]
    | false => simp [hf]

/-- `Layered` over system layers `sys` (any dictionaries) and a user layer `u` whose exact lookup of
    `k` is a correct answer for the map `m`: each phrase once; a phrase is returned iff a system layer
    returns it or it is live in `m`; a live user phrase is reported with at least the user's frequency
    (the highest across layers, by `layered_union`) -/
theorem layered_over_map (sys : List Dict) (u : State) (m : Map) (k : Key)
    (hlk : IsLookup m k (lookupAll u k .standard)) :
    let r := Layered.lookupAll (sys ++ [toDict u]) k .standard
    (texts r).Nodup ∧
    (∀ t, t ∈ texts r ↔ (∃ d ∈ sys, t ∈ texts (d.lookup k .standard)) ∨ ∃ v, m (k, t) = some v) ∧
    (∀ t v, m (k, t) = some v → ∃ p ∈ r, p.text = t ∧ v.1 ≤ p.freq) := by
  intro r
  obtain ⟨h1, h2, h3, _⟩ := layered_union (sys ++ [toDict u]) k .standard
  -- membership in the user layer's answer = liveness in the map
  have huser : ∀ t, t ∈ texts (lookupAll u k .standard) ↔ ∃ v, m (k, t) = some v := by
    intro t
    constructor
    · intro ht
      obtain ⟨p, hp, rfl⟩ := mem_texts.mp ht
      exact ⟨_, hlk.2.1 p hp⟩
    · rintro ⟨v, hv⟩
      obtain ⟨p, hp, e⟩ := hlk.2.2 t v hv
      exact mem_texts.mpr ⟨p, hp, e⟩
  have hdm : toDict u ∈ sys ++ [toDict u] := List.mem_append.mpr (Or.inr (by simp))
  refine ⟨h1, ?_, ?_⟩
  · intro t
    rw [h2 t]
    constructor
    · rintro ⟨d, hd, ht⟩
      rcases List.mem_append.mp hd with hd | hd
      · exact Or.inl ⟨d, hd, ht⟩
      · simp only [List.mem_cons, List.not_mem_nil, or_false] at hd
        rw [hd] at ht
        exact Or.inr ((huser t).mp ht)
    · rintro (⟨d, hd, ht⟩ | hv)
      · exact ⟨d, List.mem_append.mpr (Or.inl hd), ht⟩
      · exact ⟨toDict u, hdm, (huser t).mpr hv⟩
  · intro t v hv
    obtain ⟨q, hq, eq⟩ := hlk.2.2 t v hv
    have hqv := hlk.2.1 q hq
    rw [eq, hv] at hqv
    have hfreq : q.freq = v.1 := by
      have := congrArg Prod.fst (Option.some.inj hqv)
      simpa [valOf] using this.symm
    have ht : t ∈ texts r := (h2 t).mpr ⟨_, hdm, mem_texts.mpr ⟨q, hq, eq⟩⟩
    obtain ⟨p, hp, ep⟩ := mem_texts.mp ht
    refine ⟨p, hp, ep, ?_⟩
    have := (h3 p hp).2 _ hdm q hq (by rw [eq, ep])
    rw [hfreq] at this; exact this

/-- **Layered under any update history**: an in-memory user layer that went through the history `ops`
    of `Layered::{add,update,remove}_phrase`, `flush`, `reopen`; the user's map is
    `Map.empty.run (forwarded ops)` -/
theorem layered_history (sys : List Dict) (ops : List Op) (k : Key) :
    let m := Map.empty.run (ops.filter Layered.forwarded)
    let r := Layered.lookupAll (sys ++ [toDict (Layered.runUser initMem ops)]) k .standard
    (texts r).Nodup ∧
    (∀ t, t ∈ texts r ↔ (∃ d ∈ sys, t ∈ texts (d.lookup k .standard)) ∨ ∃ v, m (k, t) = some v) ∧
    (∀ t v, m (k, t) = some v → ∃ p ∈ r, p.text = t ∧ v.1 ≤ p.freq) := by
  intro m r
  obtain ⟨habs, hl, _⟩ := mem_answers (ops.filter Layered.forwarded)
  have hu : Layered.runUser initMem ops = run initMem (ops.filter Layered.forwarded) := layered_runUser _ _
  have hlk : IsLookup m k (lookupAll (Layered.runUser initMem ops) k .standard) := by
    have := hl k
    rw [habs, ← hu] at this; exact this
  exact layered_over_map sys _ m k hlk

/-- `Layered` on a **prefix** lookup, over system layers `sys` (any dictionaries) and a user layer `u`
    whose prefix lookup of `q` is a correct answer for the map `m`: each phrase once; a phrase is returned
    iff a system layer returns it or it is live in `m` under a key matching `q`; a live user phrase is
    reported with at least the user's frequency (the highest across layers, by `layered_union`) -/
theorem layered_over_map_fuzzy (sys : List Dict) (u : State) (m : Map) (q : Key)
    (hlk : IsFuzzyLookup fuzzyMatch m q (lookupAll u q .fuzzyPartialPrefix)) :
    let r := Layered.lookupAll (sys ++ [toDict u]) q .fuzzyPartialPrefix
    (texts r).Nodup ∧
    (∀ t, t ∈ texts r ↔ (∃ d ∈ sys, t ∈ texts (d.lookup q .fuzzyPartialPrefix)) ∨
      ∃ key v, fuzzyMatch key q = true ∧ m (key, t) = some v) ∧
    (∀ key t v, fuzzyMatch key q = true → m (key, t) = some v → ∃ p ∈ r, p.text = t ∧ v.1 ≤ p.freq) := by
  intro r
  obtain ⟨h1, h2, h3, _⟩ := layered_union (sys ++ [toDict u]) q .fuzzyPartialPrefix
  have huser : ∀ t, t ∈ texts (lookupAll u q .fuzzyPartialPrefix) ↔
      ∃ key v, fuzzyMatch key q = true ∧ m (key, t) = some v := by
    intro t
    constructor
    · intro ht
      obtain ⟨p, hp, rfl⟩ := mem_texts.mp ht
      obtain ⟨key, hm, hv⟩ := hlk.2.1 p hp
      exact ⟨key, _, hm, hv⟩
    · rintro ⟨key, v, hm, hv⟩
      obtain ⟨p, hp, e, _⟩ := hlk.2.2 key t v hm hv
      exact mem_texts.mpr ⟨p, hp, e⟩
  have hdm : toDict u ∈ sys ++ [toDict u] := List.mem_append.mpr (Or.inr (by simp))
  refine ⟨h1, ?_, ?_⟩
  · intro t
    rw [h2 t]
    constructor
    · rintro ⟨d, hd, ht⟩
      rcases List.mem_append.mp hd with hd | hd
      · exact Or.inl ⟨d, hd, ht⟩
      · simp only [List.mem_cons, List.not_mem_nil, or_false] at hd
        rw [hd] at ht
        exact Or.inr ((huser t).mp ht)
    · rintro (⟨d, hd, ht⟩ | hv)
      · exact ⟨d, List.mem_append.mpr (Or.inl hd), ht⟩
      · exact ⟨toDict u, hdm, (huser t).mpr hv⟩
  · intro key t v hm hv
    obtain ⟨q', hq', eq, fq⟩ := hlk.2.2 key t v hm hv
    have ht : t ∈ texts r := (h2 t).mpr ⟨_, hdm, mem_texts.mpr ⟨q', hq', eq⟩⟩
    obtain ⟨p, hp, ep⟩ := mem_texts.mp ht
    refine ⟨p, hp, ep, ?_⟩
    have := (h3 p hp).2 _ hdm q' hq' (by rw [eq, ep])
    exact Nat.le_trans fq this

/-- **Layered under any update history, in every state, both strategies**: the user layer — in-memory or
    file-backed, snapshot adoption included — went through the history `ops` of
    `Layered::{add,update,remove}_phrase`, `flush`, `reopen`, close-and-open (no settling suffix, no
    excluded class); the user's map is `Map.empty.run (forwarded ops)`.  Exact lookup of `k`: system layers
    ∪ live phrases of `k`; prefix lookup of `q`: system layers ∪ phrases live under a key matching `q`. -/
theorem layered_history_full (init : State) (hi : init = initMem ∨ init = initFile) (sys : List Dict) (ops : List Op) :
    let m := Map.empty.run (ops.filter Layered.forwarded)
    let u := Layered.runUser init ops
    (∀ k, let r := Layered.lookupAll (sys ++ [toDict u]) k .standard
      (texts r).Nodup ∧
      (∀ t, t ∈ texts r ↔ (∃ d ∈ sys, t ∈ texts (d.lookup k .standard)) ∨ ∃ v, m (k, t) = some v) ∧
      (∀ t v, m (k, t) = some v → ∃ p ∈ r, p.text = t ∧ v.1 ≤ p.freq)) ∧
    (∀ q, let r := Layered.lookupAll (sys ++ [toDict u]) q .fuzzyPartialPrefix
      (texts r).Nodup ∧
      (∀ t, t ∈ texts r ↔ (∃ d ∈ sys, t ∈ texts (d.lookup q .fuzzyPartialPrefix)) ∨
        ∃ key v, fuzzyMatch key q = true ∧ m (key, t) = some v) ∧
      (∀ key t v, fuzzyMatch key q = true → m (key, t) = some v → ∃ p ∈ r, p.text = t ∧ v.1 ≤ p.freq)) := by
  intro m u
  have hu : u = run init (ops.filter Layered.forwarded) := layered_runUser _ _
  have h := triebuf_refines init hi (ops.filter Layered.forwarded)
  rw [← hu] at h
  refine ⟨fun k => ?_, fun q => ?_⟩
  · have hlk : IsLookup m k (lookupAll u k .standard) := by
      have := lookup_agrees h.1 k
      rw [h.2] at this; exact this
    exact layered_over_map sys u m k hlk
  · have hlk : IsFuzzyLookup fuzzyMatch m q (lookupAll u q .fuzzyPartialPrefix) := by
      have := fuzzy_agrees h.1 q
      rw [h.2] at this; exact this
    exact layered_over_map_fuzzy sys u m q hlk

/-! ## 5. The first n results are the first n of the full result -/

theorem first_n_is_prefix_triebuf (s : State) (k : Key) (n : Nat) (st : Strategy) :
    lookupFirstN s k n st = (lookupAll s k st).take n := rfl

theorem first_n_is_prefix_layered (layers : List Dict) (k : List Nat) (n : Nat) (st : Strategy) :
    Layered.lookupFirstN layers k n st = (Layered.lookupAll layers k st).take n := rfl

/-- for `Trie` this needs the final `truncate` of fix 4e93dec (F11) and the fact that the early
    `break` only skips leaves beyond the first n phrases -/
theorem first_n_is_prefix_trie (t : List Leaf) (q : Key) (n : Nat) (st : Strategy) :
    Trie.lookupFirstN t q n st = (Trie.lookupAll t q st).take n := by
  unfold Trie.lookupFirstN Trie.lookupAll
  rw [take_collect]; simp

/-- asking for `usize::MAX` (`lookup_all_phrases`) returns everything -/
theorem lookup_all_is_full (s : State) (k : Key) (st : Strategy) (n : Nat) (h : (lookupAll s k st).length ≤ n) :
    lookupFirstN s k n st = lookupAll s k st := by
  rw [first_n_is_prefix_triebuf]; exact List.take_of_length_le h

/-- the provided trait method `lookup_first_phrase` returns the head of the full result — for every
    implementation whose `lookup_first_n_phrases` is a prefix of its full result (all four above) -/
theorem first_phrase_is_head (lookupN : Nat → List Phrase) (full : List Phrase) (h : ∀ n, lookupN n = full.take n) :
    firstPhraseOf lookupN = full.head? := by
  unfold firstPhraseOf; rw [h 1]; cases full <;> rfl

/-- the provided trait method `lookup_all_phrases` (n = `usize::MAX`) returns the full result; a `Vec`
    never holds more than `usize::MAX` elements -/
theorem all_phrases_is_full (lookupN : Nat → List Phrase) (full : List Phrase) (h : ∀ n, lookupN n = full.take n)
    (hl : full.length ≤ usizeMax) : allPhrasesOf lookupN = full := by
  unfold allPhrasesOf; rw [h usizeMax]; exact List.take_of_length_le hl

/-- … instantiated: `TrieBuf`, `Layered`, `Trie`, SQLite -/
theorem first_phrase_triebuf (s : State) (k : Key) (st : Strategy) :
    firstPhraseOf (fun n => lookupFirstN s k n st) = (lookupAll s k st).head? :=
  first_phrase_is_head _ _ (fun n => first_n_is_prefix_triebuf s k n st)

theorem first_phrase_layered (layers : List Dict) (k : List Nat) (st : Strategy) :
    firstPhraseOf (fun n => Layered.lookupFirstN layers k n st) = (Layered.lookupAll layers k st).head? :=
  first_phrase_is_head _ _ (fun n => first_n_is_prefix_layered layers k n st)

theorem first_phrase_trie (t : List Leaf) (q : Key) (st : Strategy) :
    firstPhraseOf (fun n => Trie.lookupFirstN t q n st) = (Trie.lookupAll t q st).head? :=
  first_phrase_is_head _ _ (fun n => first_n_is_prefix_trie t q n st)

theorem first_phrase_sqlite (s : SqliteDict.State) (k : Key) (st : Strategy) :
    firstPhraseOf (fun n => SqliteDict.lookupFirstN s k n st) = (SqliteDict.lookupAll s k).head? :=
  first_phrase_is_head _ _ (fun _ => rfl)

/-! ## 6. The full statement — a theorem since fix c3d9fb2 (F36) -/

/-- the answers of a state are those of the map it denotes -/
structure Answers (s : State) : Prop where
  lookup : ∀ k, IsLookup (abs s) k (lookupAll s k .standard)
  entries : IsEntries (abs s) (entries s)
  fuzzy : ∀ q, IsFuzzyLookup fuzzyMatch (abs s) q (lookupAll s q .fuzzyPartialPrefix)

/-- full-strength C09 for `TrieBuf`: along every history the dictionary denotes the specified map
    and answers as that map (exact lookup, enumeration, prefix lookup) -/
def C09_full : Prop :=
  ∀ init, (init = initMem ∨ init = initFile) → ∀ ops : List Op,
    abs (run init ops) = Map.empty.run ops ∧ Answers (run init ops)

/-- every state satisfying the invariant answers as its map -/
theorem inv_answers (s : State) (hs : Inv s) : Answers s :=
  ⟨fun k => lookup_agrees hs k, entries_agrees hs, fun q => fuzzy_agrees hs q⟩

/-- **C09 for `TrieBuf`, full strength**: every history, every state, in-memory or file-backed (flush,
    reopen with snapshot adoption, close-and-open included), all three kinds of answers, no excluded
    class, no precondition.  (Refuted until fix c3d9fb2: `C09_full_refuted` with the witnesses below.) -/
theorem C09 : C09_full := by
  intro init hi ops
  have h := triebuf_refines init hi ops
  exact ⟨h.2, inv_answers _ h.1⟩

/-- C09 for the exact lookup and the enumeration alone (special case of `C09`, kept: C10 / C08 link to it) -/
def C09_exact_full : Prop :=
  ∀ init, (init = initMem ∨ init = initFile) → ∀ ops : List Op,
    let s := run init ops
    abs s = Map.empty.run ops ∧ (∀ k, IsLookup (abs s) k (lookupAll s k .standard)) ∧ IsEntries (abs s) (entries s)

theorem C09_exact : C09_exact_full := by
  intro init hi ops s
  have h := triebuf_refines init hi ops
  exact ⟨h.2, fun k => lookup_agrees h.1 k, entries_agrees h.1⟩

def kCe4 : Key := [10268]      -- ㄘㄜˋ
def kC : Key := [10240]        -- ㄘ
def tCe : Text := [28204]      -- 測

/-- F10 witness (fixed): add, snapshot, then update the persisted entry with a lower frequency -/
def witnessF10 : List Op := [.add kCe4 tCe 100 (some 2), .flush, .reopen, .update kCe4 tCe 50 7]

/-- F36 witness (pending half, fixed): a pending entry was never matched by prefix -/
def witnessF36 : List Op := [.add kCe4 tCe 1 (some 2)]

/-- F36 witness (tombstone half, fixed): the prefix lookup ignored the tombstone of a persisted entry -/
def witnessF36b : List Op := [.add kCe4 tCe 100 (some 2), .flush, .reopen, .remove kCe4 tCe]

/-- F10 regression (fixed by 8e6d504): the lookup reports the new value — before the fix it reported
    the old, larger one, 100 — and `entries()` yields the updated entry once — before: twice, 100 and 50 -/
theorem update_persisted_fixed :
    lookupAll (run initFile witnessF10) kCe4 .standard = [{ text := tCe, freq := 50, lastUsed := some 7 }] ∧
    entries (run initFile witnessF10) = [(kCe4, { text := tCe, freq := 50, lastUsed := some 7 })] ∧
    abs (run initFile witnessF10) (kCe4, tCe) = some (50, 7) := by decide

/-- F36 regression, pending half (fixed by c3d9fb2; was `fuzzy_pending_refuted`): the pending phrase 測
    under ㄘㄜˋ is live, matches the prefix ㄘ, and the prefix lookup returns it — before the fix the answer
    was empty until a snapshot had been adopted — in-memory and file-backed alike -/
theorem fuzzy_pending_repaired :
    lookupAll (run initMem witnessF36) kC .fuzzyPartialPrefix = [{ text := tCe, freq := 1, lastUsed := some 2 }] ∧
    lookupAll (run initFile witnessF36) kC .fuzzyPartialPrefix = [{ text := tCe, freq := 1, lastUsed := some 2 }] ∧
    abs (run initMem witnessF36) (kCe4, tCe) = some (1, 2) ∧ fuzzyMatch kCe4 kC = true ∧
    IsFuzzyLookup fuzzyMatch (abs (run initMem witnessF36)) kC (lookupAll (run initMem witnessF36) kC .fuzzyPartialPrefix) :=
  ⟨by decide, by decide, by decide, by decide, (C09 initMem (Or.inl rfl) witnessF36).2.fuzzy kC⟩

/-- F36 regression, tombstone half (fixed by c3d9fb2; was `fuzzy_tombstone_witness`): after removing the
    persisted 測 the prefix lookup of ㄘ no longer returns it (before: `[測/100/2]`), in agreement with the
    exact lookup and the map; the state still holds the persisted leaf and the tombstone -/
theorem fuzzy_tombstone_repaired :
    lookupAll (run initFile witnessF36b) kC .fuzzyPartialPrefix = [] ∧
    lookupAll (run initFile witnessF36b) kCe4 .standard = [] ∧
    abs (run initFile witnessF36b) (kCe4, tCe) = none ∧
    (run initFile witnessF36b).snap ≠ [] ∧ (run initFile witnessF36b).grave = [(kCe4, tCe)] := by
  decide

/-- F36 regression, shadowing: a persisted entry updated with a LOWER frequency is reported by the prefix
    lookup with the new value (the pending entry replaces the persisted one of the same key; a prefix
    lookup that merged without keys would report `max` = 100) -/
theorem fuzzy_shadow_repaired :
    lookupAll (run initFile witnessF10) kC .fuzzyPartialPrefix = [{ text := tCe, freq := 50, lastUsed := some 7 }] := by
  decide

/-- **C09 for `TrieBuf`** spelled out (the former `triebuf_refines_partial`, whose prefix clause excluded
    the class `FuzzyOverTombstoneOrPending` and required `fuzzyMatch q q`): along every history the denoted
    map is the specified one and every exact lookup, the enumeration and every prefix lookup are the map's -/
theorem triebuf_refines_full (init : State) (hi : init = initMem ∨ init = initFile) (ops : List Op) :
    let s := run init ops
    abs s = Map.empty.run ops ∧
    (∀ k, IsLookup (abs s) k (lookupAll s k .standard)) ∧
    IsEntries (abs s) (entries s) ∧
    (∀ q, IsFuzzyLookup fuzzyMatch (abs s) q (lookupAll s q .fuzzyPartialPrefix)) := by
  intro s
  have h := triebuf_refines init hi ops
  exact ⟨h.2, fun k => lookup_agrees h.1 k, entries_agrees h.1, fun q => fuzzy_agrees h.1 q⟩

/-! ### 6a. The snapshot-adoption path

Until fix c3d9fb2 the prefix lookup was only guaranteed in a `Settled` state (nothing pending, no
tombstone) and these theorems said that the known-finding class is transient.  They remain as statements
about adoption: `reopen; flush; reopen` / close-and-open always end settled, with the map unchanged. -/

/-- a settled state answers every query — exact lookup, enumeration, prefix lookup — as its map (now a
    special case of `inv_answers`) -/
theorem settled_answers (s : State) (hs : Inv s) (_h : Settled s) : Answers s := inv_answers s hs

/-- **flush and reopen**: after *any* history on a file-backed dictionary, `reopen; flush; reopen`
    (let a writer in flight finish, take a snapshot, adopt it) leaves the specified map unchanged, nothing
    is pending any more and all answers are the map's -/
theorem adoption_answers (ops : List Op) :
    let s := run initFile (ops ++ settleOps)
    abs s = Map.empty.run ops ∧ Answers s ∧ Settled s := by
  intro s
  have h := triebuf_refines initFile (Or.inr rfl) (ops ++ settleOps)
  have hq : Quiet (run initFile ops) := quiet_run quiet_initFile ops
  have hf : (run initFile ops).fileBacked = true := by rw [fileBacked_run]; rfl
  have hset : Settled s := by
    show Settled (run initFile (ops ++ settleOps))
    rw [TrieBuf.run_append]; exact settled_settle hq hf
  refine ⟨?_, inv_answers s h.1, hset⟩
  rw [h.2, Map.run_append, Map.run_idle _ settleOps (by decide)]

/-- **close and open again** (`Drop`: sync, flush, join; then `TrieBuf::open`): same conclusion -/
theorem close_open_answers (ops : List Op) :
    let s := run initFile (ops ++ [.closeOpen])
    abs s = Map.empty.run ops ∧ Answers s ∧ Settled s := by
  intro s
  have h := triebuf_refines initFile (Or.inr rfl) (ops ++ [.closeOpen])
  have hf : (run initFile ops).fileBacked = true := by rw [fileBacked_run]; rfl
  have hset : Settled s := by
    show Settled (run initFile (ops ++ [.closeOpen]))
    rw [TrieBuf.run_append]; exact settled_closeOpen hf
  refine ⟨?_, inv_answers s h.1, hset⟩
  rw [h.2, Map.run_append, Map.run_idle _ [.closeOpen] (by decide)]

/-- **Layered with a file-backed user layer**, after any history followed by `reopen; flush; reopen`
    through `Layered` (all three are forwarded): union with the user's map (special case of
    `layered_history_full`, which needs no settling suffix) -/
theorem layered_history_file (sys : List Dict) (ops : List Op) (k : Key) :
    let m := Map.empty.run (ops.filter Layered.forwarded)
    let r := Layered.lookupAll (sys ++ [toDict (Layered.runUser initFile (ops ++ settleOps))]) k .standard
    (texts r).Nodup ∧
    (∀ t, t ∈ texts r ↔ (∃ d ∈ sys, t ∈ texts (d.lookup k .standard)) ∨ ∃ v, m (k, t) = some v) ∧
    (∀ t v, m (k, t) = some v → ∃ p ∈ r, p.text = t ∧ v.1 ≤ p.freq) := by
  intro m r
  have hu : Layered.runUser initFile (ops ++ settleOps) = run initFile (ops.filter Layered.forwarded ++ settleOps) := by
    rw [layered_runUser, List.filter_append]
    rfl
  obtain ⟨habs, ha, _⟩ := adoption_answers (ops.filter Layered.forwarded)
  have hlk : IsLookup m k (lookupAll (Layered.runUser initFile (ops ++ settleOps)) k .standard) := by
    have := ha.lookup k
    rw [habs, ← hu] at this; exact this
  exact layered_over_map sys _ m k hlk

/-- an in-memory dictionary has no persisted layer: the candidates of a prefix lookup are the pending
    entries without a tombstone whose key matches, in `BTreeMap` order (before fix c3d9fb2 the prefix
    lookup of an in-memory dictionary degenerated to the exact lookup of the query, `mem_fuzzy_is_exact`) -/
theorem mem_fuzzy_candidates (s : State) (h : MemInv s) (q : Key) :
    entriesIterFor s q .fuzzyPartialPrefix =
      (((btEntries s.btree).filter (fun e => !(s.grave.contains (e.1, e.2.text)))).filter
        (fun e => fuzzyMatch e.1 q)).map (·.2) := by
  show ((TrieBuf.entries s).filter _).map _ = _
  unfold TrieBuf.entries
  rw [h.2.1]
  rfl

/-- whatever state a file-backed dictionary is in, `reopen; flush; reopen` leaves nothing pending -/
theorem settle_settles (s : State) (hq : Quiet s) (hf : s.fileBacked = true) : Settled (run s settleOps) :=
  settled_settle hq hf

/-- MaxCodePointPhrase regression (fixed by 2c45871): a pending phrase that begins with U+10FFFF is looked
    up like any other — before the fix it was outside the range `entries_iter_for` scanned (exclusive
    bound `"\u{10FFFF}"`): live and enumerated, but never returned by a lookup, and `add_phrase` accepted
    it a second time -/
theorem max_code_point_phrase_fixed :
    lookupAll (run initMem [.add kCe4 [0x10FFFF] 1 none]) kCe4 .standard = [{ text := [0x10FFFF], freq := 1, lastUsed := some 0 }] ∧
    addOk (run initMem [.add kCe4 [0x10FFFF] 1 none]) kCe4 [0x10FFFF] = false := by decide

/-! ## 7. The SQLite user dictionary (feature `sqlite`; relational model, `Model/SqliteDict.lean`)

Its specification `SqliteDict.SMap` differs from `MapSpec` by design of the back end: the value is
`(freq, Option (user_freq, time))` and a lookup reports `max(freq, user_freq)`; `add_phrase` replaces
a live row instead of being rejected, `update_phrase` of a learned phrase changes `user_freq` only.
With that specification there is **no** exclusion: refinement and answers hold in every state. -/

/-- all histories, starting from any content written by `SqliteDictionaryBuilder` -/
theorem sqlite_refines (es : List Entry) (ops : List SqliteDict.Op) :
    SqliteDict.Inv (SqliteDict.run (SqliteDict.build es) ops) ∧
      SqliteDict.abs (SqliteDict.run (SqliteDict.build es) ops) = (SqliteDict.abs (SqliteDict.build es)).run ops :=
  SqliteDict.run_refines (SqliteDict.inv_build es) ops

/-- … in particular from an empty database -/
theorem sqlite_refines_fresh (ops : List SqliteDict.Op) :
    SqliteDict.abs (SqliteDict.run SqliteDict.init ops) = SqliteDict.SMap.empty.run ops :=
  (SqliteDict.run_refines SqliteDict.inv_init ops).2

/-- answers in every state of every history: a lookup returns exactly the live phrases of the
    syllables, each once, with the reported value; the enumeration exactly the live entries; the
    first n results are the first n of the full result (the lookup strategy is ignored) -/
theorem sqlite_answers (es : List Entry) (ops : List SqliteDict.Op) :
    let s := SqliteDict.run (SqliteDict.build es) ops
    (∀ k, SqliteDict.IsLookup (SqliteDict.abs s) k (SqliteDict.lookupAll s k)) ∧
    SqliteDict.IsEntries (SqliteDict.abs s) (SqliteDict.entries s) ∧
    (∀ k n st, SqliteDict.lookupFirstN s k n st = (SqliteDict.lookupAll s k).take n) := by
  intro s
  have h := (sqlite_refines es ops).1
  exact ⟨fun k => SqliteDict.lookup_agrees h k, SqliteDict.entries_agrees h, fun _ _ _ => rfl⟩

/-- a removed phrase stays absent until it is added or updated again -/
theorem sqlite_removed_stays_absent (s : SqliteDict.State) (hs : SqliteDict.Inv s) (k : Key) (t : Text)
    (ops : List SqliteDict.Op) (hw : ∀ op ∈ ops, SqliteDict.SMap.writes (k, t) op = false) :
    let s' := SqliteDict.run (SqliteDict.apply s (.remove k t)) ops
    SqliteDict.abs s' (k, t) = none ∧ t ∉ (SqliteDict.lookupAll s' k).map (·.text) := by
  intro s'
  have h1 := SqliteDict.inv_apply hs (.remove k t)
  have h2 := SqliteDict.run_refines h1 ops
  have habs : SqliteDict.abs s' (k, t) = none := by
    show SqliteDict.abs (SqliteDict.run (SqliteDict.apply s (.remove k t)) ops) (k, t) = none
    rw [h2.2, SqliteDict.abs_apply hs]
    exact SqliteDict.SMap.run_absent (by simp [SqliteDict.SMap.apply, SqliteDict.SMap.set]) ops hw
  refine ⟨habs, ?_⟩
  intro hm
  obtain ⟨p, hp, e⟩ := List.mem_map.mp hm
  obtain ⟨v, hv, _⟩ := (SqliteDict.lookup_agrees h2.1 k).2.1 p hp
  rw [e, habs] at hv
  exact absurd hv (by simp)

/-- … and `add_phrase` / `update_phrase` make it live again with the written value -/
theorem sqlite_readd_visible_again (s : SqliteDict.State) (hs : SqliteDict.Inv s) (k : Key) (t : Text) (f : Nat) :
    SqliteDict.abs (SqliteDict.apply s (.add k t f)) (k, t) = some (f, none) ∧
      { text := t, freq := f, lastUsed := none } ∈ SqliteDict.lookupAll (SqliteDict.apply s (.add k t f)) k := by
  have h1 := SqliteDict.inv_apply hs (.add k t f)
  have habs : SqliteDict.abs (SqliteDict.apply s (.add k t f)) (k, t) = some (f, none) := by
    rw [SqliteDict.abs_apply hs]; simp [SqliteDict.SMap.apply, SqliteDict.SMap.set]
  refine ⟨habs, ?_⟩
  obtain ⟨p, hp, e⟩ := (SqliteDict.lookup_agrees h1 k).2.2 t _ habs
  obtain ⟨v, hv, hr⟩ := (SqliteDict.lookup_agrees h1 k).2.1 p hp
  rw [e, habs] at hv
  simp only [Option.some.injEq] at hv
  rw [← hv] at hr
  simp only [SqliteDict.report, Prod.mk.injEq] at hr
  have : p = { text := t, freq := f, lastUsed := none } := by
    cases p; simp_all
  rw [← this]; exact hp

/-! ## 9. The file layer: C09's abstract trie file is C11's byte-level file

C09 models a trie file as the list of its leaves and "insert everything into a `TrieBuilder`, write,
open" as `Trie.build` (used by `checkpoint` for the snapshot and, through `DictLink`, by C10 and C08).
C11 models the same code at the level of the bytes.  The theorems of this section (proved in
`Proofs/TrieLink.lean` from C11's `read_write`, `lookup_correct`, `first_n_prefix`,
`first_phrase_correct`, `entries_correct`, `writes_within_limits`) identify the two, so that "a complete
file is the leaves written" is a theorem, not an assumption. -/

/-- the two transcriptions of the comparator of `TrieBuilder::write` (C09's `leafCmp`, C11's `phraseLt`)
    are the same function -/
theorem comparator_is_C11 (a b : Phrase) : Trie.leafLt a b = TrieCodec.phraseLt a b :=
  TrieLink.leafLt_eq_phraseLt a b

/-- C09's leaf sort (insertion from the left) and C11's (insertion from the right) give the same leaf -/
theorem leaf_order_is_C11 (ps : List Phrase) : isort Trie.leafLt ps = TrieCodec.sortLeaf ps :=
  TrieLink.isort_leafLt_eq_sortLeaf ps

/-- … as does **every** stable sort: a list that is sorted by the comparator and keeps every class of
    equally-ranked phrases in insertion order is the model's leaf (the comparator is a total preorder
    since fix ddfe893), so the model does not depend on the algorithm `slice::sort_by` runs -/
theorem leaf_order_any_stable_sort (ps r : List Phrase) (hs : StableSort.Sorted TrieCodec.phraseLt r)
    (hst : StableSort.StableOf TrieCodec.phraseLt (fun _ => True) ps r) : r = isort Trie.leafLt ps := by
  rw [leaf_order_is_C11]; exact TrieLink.stable_sort_is_sortLeaf ps r hs hst

/-- the two models of `TrieBuilder::insert` hold the same phrase vector for every key -/
theorem builder_insert_is_C11 (es : List Entry) (k : Key) : Trie.leafOf es k = (C11.inserted es k).getD [] :=
  TrieLink.leafOf_eq_refFind es k

/-- **the file layer of C09 is C11.**  For all metadata and every list of entries valid for the Rust
    types: inside the limits of the format (`Fits`) `TrieBuilder::write` succeeds, and whatever bytes it
    produced *denote* C09's abstract file `Trie.build es` (`TrieLink.Denotes`): `Trie::new` opens them, and
    for every query of non-zero syllables the real reader's `lookup_all_phrases` (exact and prefix
    strategy), `lookup_first_n_phrases` and `lookup_first_phrase` return **the same list** as C09's
    `Trie.lookupAll` / `Trie.lookupFirstN` on `Trie.build es`; `entries()` enumerates the entries of
    `Trie.build es` (a permutation: the real iterator goes depth first — which permutation: `file_entries_order`),
    key by key in the same order. -/
theorem file_layer_is_C11 (info : TrieCodec.Info) (es : List Entry) (hv : C11.ValidInput info es) :
    ((TrieCodec.Builder.ofEntries info es).Fits → ((TrieCodec.Builder.ofEntries info es).write).isSome = true) ∧
    ∀ bytes, (TrieCodec.Builder.ofEntries info es).write = some bytes → TrieLink.Denotes bytes (Trie.build es) :=
  ⟨C11.writes_within_limits _, fun bytes hw => TrieLink.build_denotes info es hv bytes hw⟩

/-- the lookup clause of `file_layer_is_C11`, spelled out -/
theorem file_lookup_is_C11 (info : TrieCodec.Info) (es : List Entry) (hv : C11.ValidInput info es) (bytes : Der.Bytes)
    (hw : (TrieCodec.Builder.ofEntries info es).write = some bytes) :
    ∃ tr, TrieCodec.openTrie bytes = some tr ∧ ∀ k st, C11.ValidKey k →
      TrieCodec.lookupAll tr k st = Trie.lookupAll (Trie.build es) k st ∧
      ∀ n, TrieCodec.lookupFirstN tr k n st = Trie.lookupFirstN (Trie.build es) k n st := by
  obtain ⟨tr, ho, h1, h2, _⟩ := (TrieLink.build_denotes info es hv bytes hw).reads
  exact ⟨tr, ho, fun k st hk => ⟨h1 k st hk, fun n => h2 k n st hk⟩⟩

/-- a snapshot taken by `checkpoint` (`Trie.build (entries s)`) is such a file: in a state whose
    entries are valid for the Rust types and within the limits, the bytes exist and denote it -/
theorem snapshot_file_is_C11 (info : TrieCodec.Info) (s : State) (hv : C11.ValidInput info (entries s))
    (hf : (TrieCodec.Builder.ofEntries info (entries s)).Fits) :
    ∃ bytes, (TrieCodec.Builder.ofEntries info (entries s)).write = some bytes ∧
      TrieLink.Denotes bytes (Trie.build (entries s)) :=
  TrieLink.build_denotes_fits info (entries s) hv hf

/-- **the order of `Trie::entries()` across keys** (the clause "a permutation" of `file_layer_is_C11`, determined):
    C09's abstract enumeration `Trie.entries (Trie.build es)` lists the leaves in file order — the keys of
    `buildKeys es`, sorted lexicographically by syllable code with a prefix first —; the real iterator over the
    bytes lists the SAME leaves with every maximal chain "each key a prefix of the next" of that sorted key list
    reversed (depth first along first children, `results.pop()` = deepest first).  From C11's `entries_order`. -/
theorem file_entries_order (info : TrieCodec.Info) (es : List Entry) (hv : C11.ValidInput info es) (bytes : Der.Bytes)
    (hw : (TrieCodec.Builder.ofEntries info es).write = some bytes) :
    ∃ tr, TrieCodec.openTrie bytes = some tr ∧
      TrieCodec.entries tr = .ok (((Cli.runs (TrieLink.buildKeys es)).flatMap List.reverse).flatMap fun k =>
        (TrieCodec.sortLeaf ((TrieCodec.refFind es k).getD [])).map fun p => (k, p)) ∧
      Trie.entries (Trie.build es) = (TrieLink.buildKeys es).flatMap fun k =>
        (TrieCodec.sortLeaf ((TrieCodec.refFind es k).getD [])).map fun p => (k, p) :=
  TrieLink.build_entries_exact info es hv bytes hw

/-- **the persisted candidates of a prefix lookup come in file order** although the repaired code reads them
    from the real, depth-first `Trie::entries()`: for the bytes written from valid entries, the real
    enumeration (C11's byte-level model) restricted to the keys matching `q` is — as a list — the model's
    file-order enumeration restricted to them, and its phrases are what `Trie::lookup_all_phrases(q,
    FuzzyPartialPrefix)` returns (`Proofs/TrieFuzzyOrder.lean`: matching keys have the query's length, a
    chain of proper prefixes holds at most one key of a length, so reversing the chains moves none of them) -/
theorem fuzzy_order_is_file_order (info : TrieCodec.Info) (es : List Entry) (hv : C11.ValidInput info es) (bytes : Der.Bytes)
    (hw : (TrieCodec.Builder.ofEntries info es).write = some bytes) (q : Key) :
    ∃ tr real, TrieCodec.openTrie bytes = some tr ∧ TrieCodec.entries tr = .ok real ∧
      real.filter (fun e => fuzzyMatch e.1 q) = (Trie.entries (Trie.build es)).filter (fun e => fuzzyMatch e.1 q) ∧
      (real.filter (fun e => fuzzyMatch e.1 q)).map (·.2) = Trie.lookupAll (Trie.build es) q .fuzzyPartialPrefix :=
  TrieLink.real_entries_fuzzy info es hv bytes hw q

/-! ## 8. Non-vacuity: the hypotheses are satisfiable and the classes are inhabited -/

/-- F09 regression (fixed): remove then re-add / update is visible again, also across a snapshot -/
example : lookupAll (run initMem [.add kCe4 tCe 1 (some 2), .remove kCe4 tCe, .add kCe4 tCe 3 (some 4)]) kCe4 .standard
    = [{ text := tCe, freq := 3, lastUsed := some 4 }] := by decide
example : lookupAll (run initFile [.add kCe4 tCe 1 (some 2), .flush, .reopen, .remove kCe4 tCe, .flush, .reopen,
    .update kCe4 tCe 5 5]) kCe4 .standard = [{ text := tCe, freq := 5, lastUsed := some 5 }] := by decide

/-- the F10 witness: the key is both persisted and pending; after adoption it is persisted only — the
    answer is the same -/
example : (run initFile witnessF10).btree ≠ [] ∧ (run initFile witnessF10).snap ≠ [] := by decide
example : lookupAll (run initFile (witnessF10 ++ [.flush, .reopen])) kCe4 .standard
    = [{ text := tCe, freq := 50, lastUsed := some 7 }] := by decide
/-- the F36 witnesses: answered the same before and after the snapshot is adopted -/
example : lookupAll (run initFile (witnessF36 ++ [.flush, .reopen])) kC .fuzzyPartialPrefix
      = [{ text := tCe, freq := 1, lastUsed := some 2 }] := by decide
/-- adoption: the F10 and F36 witnesses followed by `reopen; flush; reopen` are settled and answered exactly -/
example : Settled (run initFile (witnessF10 ++ settleOps)) ∧ Settled (run initFile (witnessF36b ++ settleOps)) := by decide
example : lookupAll (run initFile (witnessF36b ++ settleOps)) kC .fuzzyPartialPrefix = [] := by decide
/-- a prefix lookup across two matching keys, one persisted and one pending, same text: one entry, the
    higher frequency, at the position of the persisted one; ㄙ-keys do not match ㄘ -/
example : lookupAll (run initFile [.add kCe4 tCe 3 (some 1), .add [10264] [20874] 9 (some 1), .flush, .reopen,
      .add [10264] tCe 7 (some 4), .add [15368] tCe 99 (some 9)]) kC .fuzzyPartialPrefix
    = [{ text := [20874], freq := 9, lastUsed := some 1 }, { text := tCe, freq := 7, lastUsed := some 4 }] := by decide
/-- the matching rule: same number of syllables, every syllable a prefix -/
example : fuzzyMatch [10268, 8708] kC = false ∧ fuzzyMatch [10268, 8708] [10240, 8704] = true ∧
    fuzzyMatch [10268, 8708] [10240, 10240] = false := by decide
example : (run initFile witnessF10).btree ≠ [] := by decide
/-- provided trait methods on the F11 leaf -/
example : firstPhraseOf (fun n => Trie.lookupFirstN (Trie.build [([1], ⟨[65], 1, none⟩), ([1], ⟨[66], 1, none⟩)]) [1] n .standard)
    = some ⟨[65], 1, none⟩ := by decide
example : fuzzyMatch kC kC = true := by decide
/-- F11 regression (fixed): first n of a 4-phrase leaf -/
example : (Trie.lookupFirstN (Trie.build [([1], ⟨[65], 1, none⟩), ([1], ⟨[66], 1, none⟩), ([1], ⟨[67], 1, none⟩),
    ([1], ⟨[68], 1, none⟩)]) [1] 2 .standard).length = 2 := by decide
/-- Layered: the documented example of `layered.rs` (側 1, 冊 100, 測 1, 策 100) -/
example : Layered.lookupAll
    [(TrieBuf.toDict (run initMem [.add kCe4 [28204] 1 none, .add kCe4 [20874] 1 none, .add kCe4 [20596] 1 none])),
     (TrieBuf.toDict (run initMem [.add kCe4 [31574] 100 none, .add kCe4 [20874] 100 none]))] kCe4 .standard
    = [⟨[20596], 1, some 0⟩, ⟨[20874], 100, some 0⟩, ⟨[28204], 1, some 0⟩, ⟨[31574], 100, some 0⟩] := by decide

/-- §9: a leaf mixing a single character with longer phrases — both models put the single character first,
    then descending frequency (before fix ddfe893 C09's comparator compared UTF-8 lengths here) -/
example : isort Trie.leafLt [⟨[1, 2], 5, none⟩, ⟨[3], 1, none⟩, ⟨[4, 5], 7, none⟩] =
    [⟨[3], 1, none⟩, ⟨[4, 5], 7, none⟩, ⟨[1, 2], 5, none⟩] ∧
    TrieCodec.sortLeaf [⟨[1, 2], 5, none⟩, ⟨[3], 1, none⟩, ⟨[4, 5], 7, none⟩] =
    [⟨[3], 1, none⟩, ⟨[4, 5], 7, none⟩, ⟨[1, 2], 5, none⟩] := by decide

/-- §9: the hypotheses of `file_layer_is_C11` hold for C11's sample input, the file is written, and C09's
    abstract file for it has the two leaves ㄘㄜˋ (測 re-inserted in place, then 冊) and ㄘㄜˋ ㄕˋ -/
example : C11.ValidInput {} C11.sampleEntries := by
  refine ⟨by unfold TrieCodec.ValidInfo; decide, ?_⟩
  intro e he
  simp only [C11.sampleEntries, List.mem_cons, List.not_mem_nil, or_false] at he
  rcases he with rfl | rfl | rfl | rfl <;> exact ⟨by decide, by decide⟩
example : ((TrieCodec.Builder.ofEntries {} C11.sampleEntries).write).isSome = true := by decide
example : Trie.build C11.sampleEntries =
    [([10268], [{ text := [28204], freq := 9 }, { text := [20874], freq := 70000 }]),
     ([10268, 8708], [{ text := [28204, 35430], freq := 100, lastUsed := some 5 }])] := by decide

end Chewing.C09
