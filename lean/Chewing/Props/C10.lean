import Chewing.Proofs.Persist
import Chewing.Proofs.PersistCrash
import Chewing.Proofs.PersistEditor
import Chewing.Proofs.PersistTerm
import Chewing.Proofs.PersistSql
import Chewing.Proofs.DictLink
import Chewing.Proofs.DictLinkBytes
/-!
# C10 — User-dictionary changes are durable; the file is replaced atomically

Model: `Chewing.Model.Persist` — a step model of `TrieBuf` (`sync`, `checkpoint`, `Drop`), of the
snapshot thread and `TrieBuilder::build`, and of an abstract file system; one atomic step per
foreground call / part of `Drop` / hop of the writer between two hook points / process death.
All theorems quantify over **every** action list, i.e. over every interleaving of the foreground
with the writer's progress points and every crash point *of that step model*.

LEVEL — partial by nature.  Proved: the protocol logic, for all schedules and crash points of the
step model.  Trusted (not provable from the source): real threads interleave only at the modelled
points (each foreground call reads the writer's state once: `is_finished()` in `sync`,
`join_handle.is_some()` in `checkpoint`), `rename(2)` replaces the target atomically, `File::create`
/ `write` / `sync_data` touch only the temp file and the writer never opens the dictionary path
for writing, process death keeps what `write(2)` has handed to the kernel.  The correspondence
check (`harness/src/bin/persist.rs`) realises the schedules and crash points through the hooks and
compares every observation with this model.  Outside the quantifier: I/O errors (a failing writer
leaves `dirty = false`, so its changes are not retried at close — by reading, not claimed),
power loss (no directory fsync), other processes writing the same directory.

Statement → theorems.  "the file at the path is still a complete, loadable dictionary holding either
the previous or the new contents, if the process dies at any point": `atomic`, `atomic_step`,
`atomic_old_or_new`, `crash_enabled`, `atomic_after_crash`, `crash_point` (old / new relative to the in-flight
writer, and live after a prefix of the history), `file_is_prefix_live`, `file_is_prefix_spec`; reopening after a
death or a close, over any number of process lifetimes: `reopen_prefix_consistent`, `reopen_durable`,
`next_session_starts`.  The SQLite back end (no writer thread, no temp file): `Sql.sql_prefix`,
`Sql.sql_durable_on_return`, `Sql.sql_crash_keeps_committed` over a relational step model, SQLite's transaction
guarantee itself being trusted.  "after a change has been accepted and the
dictionary is flushed and closed normally, reopening the file shows that change, whatever the timing
of the writer": `change_shows` (an accepted change is live) + `live_stable` (nothing else alters what
is live) + `adopt_safe` + `durable_full` (after close the file holds what is live) + `close_always_completes` (a normal
close is possible after every history: no deadlock, never vacuous); in one statement,
for the tree with both repairs: `durable_spec`.  The editor's call pattern over `Layered`'s forwarding: `editor_durable`,
`editor_durable_spec`, `editor_crash_prefix`, `editor_atomic`, `editor_never_adopts`.

Finding F12 (DESIGN §9): on the code as found (`Cfg.joinFirst = false`) `DurableFull` is false —
`durable_refuted`; repaired in the repository (`fix:` commit, `Drop` joins the writer first) and
proved for the repaired code — `durable_full`.
-/
namespace Chewing.C10
open Chewing.Persist

/-! ## atomic replacement -/

/-- FULL statement (atomicity): in every reachable world — hence also after a crash at any step —
    the file at the dictionary path is a complete, loadable dictionary.  It never mentions `tmp`. -/
def AtomicFull (cfg : Cfg) : Prop :=
  ∀ w, Reachable cfg w → ∃ c, w.fs .path = some (.complete c)

theorem atomic (cfg : Cfg) : AtomicFull cfg :=
  fun _ hr => (inv_reachable hr).core.path

/-- … and what it holds changes only at the writer's rename step, to the complete snapshot:
    every other step (any foreground call, any other writer hop, process death) leaves it as is. -/
theorem atomic_step {cfg : Cfg} {w w' : World} {a : Act} (hr : Reachable cfg w) (hs : step cfg w a = some w') :
    w'.fs .path = w.fs .path ∨
    ∃ wr, w.writer = some wr ∧ wr.pc = .synced ∧ a = .w ∧ w'.fs .path = some (.complete wr.snap) :=
  (step_facts (inv_reachable hr) hs).2.1

/-- old or new: while a snapshot writer exists, the path holds what it held when the writer was
    spawned (`old`, ghost) or the writer's complete snapshot -/
theorem atomic_old_or_new {cfg : Cfg} {w : World} {wr : Writer} (hr : Reachable cfg w) (hw : w.writer = some wr) :
    (wr.pc.idx < PC.renamed.idx ∧ w.fs .path = wr.old) ∨
    (PC.renamed.idx ≤ wr.pc.idx ∧ w.fs .path = some (.complete wr.snap)) := by
  have hx := (inv_reachable hr).core.wr wr hw
  by_cases h : wr.pc.idx < PC.renamed.idx
  · exact Or.inl ⟨h, hx.pathOld h⟩
  · exact Or.inr ⟨Nat.le_of_not_lt h, hx.pathNew (Nat.le_of_not_lt h)⟩

/-- the snapshot a writer is spawned with is the live contents at the time of the flush, and what
    `old` remembers is what the path held then -/
theorem snapshot_is_live (w : World) (h1 : w.writer = none) (h2 : w.buf.dirty = true) :
    (checkpoint w).writer =
      some { pc := .start, snap := w.buf.live, result := none, gen := w.buf.gen, old := w.fs .path } := by
  simp [checkpoint, h1, h2]

/-- process death is possible in every state that is not already dead … -/
theorem crash_enabled (cfg : Cfg) (w : World) (h : w.crashed = false) :
    step cfg w .crash = some { w with crashed := true } := by
  simp [step, h]

/-- … keeps every file, so the path still holds a complete dictionary (old or new by
    `atomic_old_or_new`) … -/
theorem atomic_after_crash {cfg : Cfg} {w w' : World} (hr : Reachable cfg w) (hs : step cfg w .crash = some w') :
    w'.fs = w.fs ∧ ∃ c, w'.fs .path = some (.complete c) := by
  have hfs : w'.fs = w.fs := by
    unfold step at hs
    split at hs
    · cases hs
    · simp only at hs
      have hs := Option.some.inj hs
      subst hs
      rfl
  exact ⟨hfs, atomic cfg w' (reachable_step hr hs)⟩

/-- … and nothing happens afterwards. -/
theorem crashed_is_final (cfg : Cfg) (w : World) (a : Act) (h : w.crashed = true) : step cfg w a = none := by
  simp [step, h]

/-! ## adoption -/

/-- `sync` takes the branch that replaces the layers by the writer's result -/
def Adopts (w : World) (wr : Writer) (t : Content) : Prop :=
  w.writer = some wr ∧ wr.pc = .finished ∧ wr.result = some t ∧ w.buf.dirty = false

/-- while a writer is registered, `sync` changes the dictionary layers only by adopting -/
theorem sync_keeps_layers_unless_adopts (w : World) (wr : Writer) (hw : w.writer = some wr)
    (hn : ∀ t, ¬ Adopts w wr t) : (sync w).buf = w.buf := by
  unfold sync
  rw [hw]
  simp only
  by_cases hpc : wr.pc = .finished
  · simp only [hpc, ne_eq, not_true_eq_false, ite_false]
    cases hr : wr.result with
    | none => rfl
    | some t =>
      simp only
      cases hd : w.buf.dirty with
      | true => simp
      | false => exact absurd ⟨hw, hpc, hr, hd⟩ (hn t)
  · simp [hpc]

/-- `sync` adopts the writer's result only if no change was accepted since the snapshot
    (`gen` counts accepted changes); the result is then exactly the live contents, so nothing
    is lost or resurrected by the adoption -/
theorem adopt_safe {cfg : Cfg} {w : World} {wr : Writer} {t : Content} (hr : Reachable cfg w)
    (ha : Adopts w wr t) :
    wr.gen = w.buf.gen ∧ t = w.buf.live ∧ (sync w).buf.live = w.buf.live ∧ (sync w).buf.trie = t := by
  obtain ⟨hw, hpc, hres, hd⟩ := ha
  have hi := inv_reachable hr
  have hx := hi.core.wr wr hw
  have h9 : wr.pc.idx = 9 := by rw [hpc]; rfl
  have ht : t = wr.snap := by
    have := hx.res (by rw [h9]; decide)
    rw [hres] at this
    exact Option.some.inj this
  refine ⟨(hx.clean hd).2, by rw [ht]; exact (hx.clean hd).1, (core_sync w hi.core).2, ?_⟩
  unfold sync
  rw [hw]
  simp [hpc, hres, hd]

/-! ## durability -/

/-- FULL statement (durability): after any history that ends with the dictionary closed
    (`Drop` has returned), under every schedule of the writer, the file at the path holds
    exactly the live contents of the dictionary. -/
def DurableFull (cfg : Cfg) : Prop :=
  ∀ c0 t0 acts w, run cfg (init c0 t0) acts = some w → w.phase = .closed →
    w.fs .path = some (.complete w.buf.live)

/-- the repaired `Drop` (join, sync, flush, join) is durable — for all schedules -/
theorem durable_full (cfg : Cfg) (hj : cfg.joinFirst = true) : DurableFull cfg := by
  intro c0 t0 acts w hrun hph
  have hi := inv_run (inv_init cfg c0 t0) hrun
  exact hi.core.quiet (hi.ph.closedW hph) (hi.ph.dropB hj (Or.inr hph))

/-- F12 witness: change A, flush, writer parked after `File::create`, change B, flush (refused),
    close: `sync` returns early, `flush` refuses, `join` — B is never written -/
def f12Witness : List Act :=
  [.update 0 1, .flush, .w, .w, .update 1 2, .flush, .close, .d, .d, .w, .w, .w, .w, .w, .w, .w, .d]

def valAt (f : Option FileC) (k : Key) : Option (Option Val) :=
  match f with
  | some (.complete c) => some (c k)
  | _ => none

/-- the code as found (`sync; flush; join`) is not durable -/
theorem durable_refuted (r : Bool) : ¬ DurableFull { revive := r, joinFirst := false } := by
  intro h
  cases r
  · have hw := h (fun _ => none) none f12Witness _ rfl rfl
    have := congrArg (fun f => valAt f 1) hw
    revert this
    decide
  · have hw := h (fun _ => none) none f12Witness _ rfl rfl
    have := congrArg (fun f => valAt f 1) hw
    revert this
    decide

/-- no foreground call other than a change, no writer step and no part of `Drop` alters the live
    contents (in particular `reopen` reloading the file under pending changes does not) -/
theorem live_stable {cfg : Cfg} {w w' : World} {a : Act} (hr : Reachable cfg w) (hs : step cfg w a = some w')
    (ha : a = .flush ∨ a = .reopen ∨ a = .close ∨ a = .d ∨ a = .w ∨ a = .crash) : w'.buf.live = w.buf.live := by
  have := (step_facts (inv_reachable hr) hs).2.2
  rcases ha with h | h | h | h | h | h <;> subst h <;> exact this

/-- "closed normally" is always possible, whatever happened before: from every state reached by any
    schedule in which the dictionary is open and the process alive, `close` followed by at most 22
    steps of the writer and of `Drop` alone (no deadlock between `Drop`'s joins and the writer) ends
    with the dictionary closed — and the file then holds the live contents of that state.  So
    `durable_full` is vacuous for no history. -/
theorem close_always_completes (cfg : Cfg) (hj : cfg.joinFirst = true) (c0 : Content) (t0 : Option FileC)
    (acts : List Act) (w : World) (h : run cfg (init c0 t0) acts = some w) (hc : w.crashed = false)
    (hp : w.phase = .run) :
    ∃ rest w', Passive rest ∧ rest.length ≤ 22 ∧ run cfg (init c0 t0) (acts ++ .close :: rest) = some w' ∧
      w'.phase = .closed ∧ w'.fs .path = some (.complete w.buf.live) := by
  obtain ⟨rest, w', hpa, hl, hr, hcl, _⟩ := close_completes cfg w hc hp
  have hall := run_append_some h hr
  refine ⟨rest, w', hpa, hl, hall, hcl, ?_⟩
  have hd := durable_full cfg hj c0 t0 _ w' hall hcl
  -- the passive steps do not change what is live
  have hlive : ∀ (l : List Act) (x y : World), Reachable cfg x → (∀ a ∈ l, a = .close ∨ a = .w ∨ a = .d) →
      run cfg x l = some y → y.buf.live = x.buf.live := by
    intro l
    induction l with
    | nil =>
      intro x y _ _ hxy
      have := Option.some.inj hxy
      subst this
      rfl
    | cons a as ih =>
      intro x y hx hmem hxy
      simp only [run] at hxy
      cases hs : step cfg x a with
      | none => rw [hs] at hxy; cases hxy
      | some x1 =>
        rw [hs] at hxy
        have ha := hmem a (List.mem_cons_self ..)
        have h1 : x1.buf.live = x.buf.live :=
          live_stable hx hs (by rcases ha with h | h | h <;> simp [h])
        rw [ih x1 y (reachable_step hx hs) (fun b hb => hmem b (List.mem_cons_of_mem _ hb)) hxy, h1]
  have := hlive (.close :: rest) w w' ⟨c0, t0, acts, h⟩ (by
    intro a ha
    rcases List.mem_cons.mp ha with h | h
    · exact Or.inl h
    · exact Or.inr (hpa a h)) hr
  rw [hd, this]

/-- an accepted change shows in the live contents — for both variants of the tombstone rule, as
    long as the key is not tombstoned in the unrepaired one (that exception is finding F09 of
    property C09: `add`/`update` after `remove` of the same phrase stays hidden) -/
theorem change_shows {cfg : Cfg} {w w' : World} {k : Key} {v : Val}
    (hg : cfg.revive = true ∨ w.buf.grave k = false) :
    (step cfg w (.update k v) = some w' → w'.buf.live = setC w.buf.live k (some v)) ∧
    (step cfg w (.add k v) = some w' → w.buf.live k = none → w'.buf.live = setC w.buf.live k (some v)) ∧
    (step cfg w (.remove k) = some w' → w'.buf.live = setC w.buf.live k none) := by
  have hput : (w.buf.put cfg k v).live = setC w.buf.live k (some v) := by
    rcases hg with hg | hg
    · exact live_put_revive cfg hg w.buf k v
    · cases hr : cfg.revive with
      | true => exact live_put_revive cfg hr w.buf k v
      | false => rw [live_put_norevive cfg hr w.buf k v, hg]; rfl
  refine ⟨?_, ?_, ?_⟩
  · intro hs
    simp only [step] at hs
    split at hs
    · cases hs
    · split at hs
      · have hs := Option.some.inj hs
        subst hs
        exact hput
      · cases hs
  · intro hs hnone
    simp only [step] at hs
    split at hs
    · cases hs
    · split at hs
      · have hs := Option.some.inj hs
        subst hs
        simp only [Buf.add, hnone, Option.isSome_none, Bool.false_eq_true, ite_false]
        exact hput
      · cases hs
  · intro hs
    simp only [step] at hs
    split at hs
    · cases hs
    · split at hs
      · have hs := Option.some.inj hs
        subst hs
        exact live_remove w.buf k
      · cases hs

/-- with both repairs in place the live contents are, at every moment and across sessions, the
    accepted changes applied as map updates to the initial file contents -/
theorem live_tracks (cfg : Cfg) (hrv : cfg.revive = true) (hj : cfg.joinFirst = true) (c0 : Content)
    (t0 : Option FileC) (acts : List Act) (w : World) (h : run cfg (init c0 t0) acts = some w) :
    w.buf.live = spec c0 acts := by
  have := live_run hrv hj (inv_init cfg c0 t0) h
  rw [this]
  show acts.foldl applyChange (Buf.fresh c0 0).live = spec c0 acts
  rw [live_fresh]
  rfl

/-- end to end: after change … flush … close under any schedule, reopening the file shows exactly
    the accepted changes -/
theorem durable_spec (cfg : Cfg) (hrv : cfg.revive = true) (hj : cfg.joinFirst = true) (c0 : Content)
    (t0 : Option FileC) (acts : List Act) (w : World) (h : run cfg (init c0 t0) acts = some w)
    (hc : w.phase = .closed) : w.fs .path = some (.complete (spec c0 acts)) := by
  rw [← live_tracks cfg hrv hj c0 t0 acts w h]
  exact durable_full cfg hj c0 t0 acts w h hc

/-- a single accepted change is what `spec` says: visible after `update`, gone after `remove`,
    visible after an accepted `add` -/
theorem spec_last_change (c0 : Content) (acts : List Act) (k : Key) (v : Val) :
    spec c0 (acts ++ [.update k v]) k = some v ∧ spec c0 (acts ++ [.remove k]) k = none ∧
    (spec c0 acts k = none → spec c0 (acts ++ [.add k v]) k = some v) := by
  simp [spec, List.foldl_append, applyChange, setC]
  intro h
  simp [h, setC]

/-! ## crash points: old or new, and prefix-consistent -/

/-- after ANY action list (any schedule, process death anywhere or nowhere) the file at the path is a
    complete dictionary whose contents were the live contents of the dictionary after some prefix of
    that list: never a mixture of two moments, never anything that was not live at some moment -/
theorem file_is_prefix_live (cfg : Cfg) (c0 : Content) (t0 : Option FileC) (acts : List Act) (w : World)
    (h : run cfg (init c0 t0) acts = some w) :
    ∃ c, readPath w.fs = some c ∧ LiveOfPrefix cfg (init c0 t0) acts c := by
  obtain ⟨c, hc⟩ := atomic cfg w ⟨c0, t0, acts, h⟩
  exact ⟨c, readPath_eq_some.mpr hc, (hist_init h).path c hc⟩

/-- … with both repairs in place: exactly the accepted changes of a prefix of the history -/
theorem file_is_prefix_spec (cfg : Cfg) (hrv : cfg.revive = true) (hj : cfg.joinFirst = true) (c0 : Content)
    (t0 : Option FileC) (acts : List Act) (w : World) (h : run cfg (init c0 t0) acts = some w) :
    ∃ pre, pre <+: acts ∧ readPath w.fs = some (spec c0 pre) := by
  obtain ⟨c, hc, pre, wp, hpre, hrun, hl⟩ := file_is_prefix_live cfg c0 t0 acts w h
  refine ⟨pre, hpre, ?_⟩
  rw [hc, ← hl, live_tracks cfg hrv hj c0 t0 pre wp hrun]

/-- CRASH-POINT THEOREM.  The process dies after an arbitrary action list `acts` (any foreground
    history, the writer at any progress point, any part of `Drop`).  Then (1) death changed no file,
    (2) the file at the path loads, (3) its contents were live after some prefix of `acts`, and
    (4) relative to an in-flight writer it holds the OLD contents (what the path held when the
    writer was spawned) strictly before the rename step and the NEW contents (the writer's complete
    snapshot) from the rename step on. -/
theorem crash_point (cfg : Cfg) (c0 : Content) (t0 : Option FileC) (acts : List Act) (w : World)
    (h : run cfg (init c0 t0) (acts ++ [.crash]) = some w) :
    w.crashed = true ∧
    ∃ w1, run cfg (init c0 t0) acts = some w1 ∧ w.fs = w1.fs ∧ w.writer = w1.writer ∧
    ∃ c, readPath w.fs = some c ∧ LiveOfPrefix cfg (init c0 t0) acts c ∧
      ∀ wr, w.writer = some wr →
        (wr.pc.idx < PC.renamed.idx ∧ wr.old = some (.complete c)) ∨
        (PC.renamed.idx ≤ wr.pc.idx ∧ c = wr.snap) := by
  rw [run_append] at h
  cases h1 : run cfg (init c0 t0) acts with
  | none => rw [h1] at h; cases h
  | some w1 =>
    rw [h1] at h
    have hs := run_one h
    have hw : w = { w1 with crashed := true } := by
      unfold step at hs
      split at hs
      · cases hs
      · exact (Option.some.inj hs).symm
    subst hw
    refine ⟨rfl, w1, rfl, rfl, rfl, ?_⟩
    obtain ⟨c, hc, hp⟩ := file_is_prefix_live cfg c0 t0 acts w1 h1
    refine ⟨c, hc, hp, ?_⟩
    intro wr hwr
    have hpath := readPath_eq_some.mp hc
    rcases atomic_old_or_new (cfg := cfg) (w := w1) ⟨c0, t0, acts, h1⟩ hwr with ⟨hlt, ho⟩ | ⟨hge, hn⟩
    · exact Or.inl ⟨hlt, by rw [← ho]; exact hpath⟩
    · exact Or.inr ⟨hge, complete_inj (hpath.symm.trans hn)⟩

/-- REOPENING AFTER A CRASH.  Process lifetimes over the same directory, each ended by a normal close
    or by death at an arbitrary point, the next one opening whatever files the previous one left
    (including a leftover temp file): the dictionary the last one leaves holds exactly the accepted
    changes of a prefix of every lifetime, in order — a prefix-consistent map. -/
theorem reopen_prefix_consistent (cfg : Cfg) (hrv : cfg.revive = true) (hj : cfg.joinFirst = true)
    (ss : List (List Act)) (c0 c : Content) (t0 t : Option FileC) (h : runSessions cfg c0 t0 ss = some (c, t)) :
    ∃ pres, PrefixEach pres ss ∧ c = spec c0 pres.flatten :=
  sessions_prefix hrv hj h

/-- … and when every lifetime ends with a normal close, nothing at all is lost across lifetimes -/
theorem reopen_durable (cfg : Cfg) (hrv : cfg.revive = true) (hj : cfg.joinFirst = true)
    (ss : List (List Act)) (c0 c : Content) (t0 t : Option FileC) (h : runSessions cfg c0 t0 ss = some (c, t))
    (hc : AllClosed cfg c0 t0 ss) : c = spec c0 ss.flatten :=
  sessions_durable hrv hj h hc

/-- a lifetime that ended (closed or died) always leaves a loadable file: the next one can start -/
theorem next_session_starts (cfg : Cfg) (c0 : Content) (t0 : Option FileC) (s : List Act) (w : World)
    (h : run cfg (init c0 t0) s = some w) : ∃ c, readPath w.fs = some c :=
  let ⟨c, hc, _⟩ := file_is_prefix_live cfg c0 t0 s w h
  ⟨c, hc⟩

/-! ## the editor -/

/-- whatever the editor does (learn / unlearn, `reopen(); flush()` after keys that changed the
    dictionary, being dropped at any moment) and however the writer is scheduled, once the editor
    has been dropped the file holds the live contents -/
theorem editor_durable (cfg : Cfg) (hj : cfg.joinFirst = true) (c0 : Content) (t0 : Option FileC)
    (eacts : List EdAct) (e : EdWorld) (h : edRun cfg { w := init c0 t0, dirtyLevel := 0 } eacts = some e)
    (hc : e.w.phase = .closed) : e.w.fs .path = some (.complete e.w.buf.live) := by
  obtain ⟨acts, hr⟩ := edRun_refines h
  exact durable_full cfg hj c0 t0 acts e.w hr hc

/-- … in the editor's own terms: once the editor has been dropped, the file holds exactly what the
    editor learned and unlearned (`edSpec`: `learn_phrase` sets / adds, `unlearn_phrase` removes; key
    events, `dirty_level`, `reopen`, `flush` and the writer's schedule do not appear in it) -/
theorem editor_durable_spec (cfg : Cfg) (hrv : cfg.revive = true) (hj : cfg.joinFirst = true) (c0 : Content)
    (t0 : Option FileC) (eacts : List EdAct) (e : EdWorld)
    (h : edRun cfg { w := init c0 t0, dirtyLevel := 0 } eacts = some e) (hc : e.w.phase = .closed) :
    e.w.fs .path = some (.complete (edSpec c0 eacts)) := by
  have hr := edRun_trace h
  rw [← spec_edTrace h c0]
  exact durable_spec cfg hrv hj c0 t0 _ e.w hr hc

/-- … and if the process dies at any point of an editor session instead, the file holds what the
    editor had learned and unlearned up to some earlier moment of the session -/
theorem editor_crash_prefix (cfg : Cfg) (hrv : cfg.revive = true) (hj : cfg.joinFirst = true) (c0 : Content)
    (t0 : Option FileC) (eacts : List EdAct) (e : EdWorld)
    (h : edRun cfg { w := init c0 t0, dirtyLevel := 0 } eacts = some e) :
    ∃ pre, pre <+: edTrace cfg { w := init c0 t0, dirtyLevel := 0 } eacts ∧ readPath e.w.fs = some (spec c0 pre) :=
  file_is_prefix_spec cfg hrv hj c0 t0 _ e.w (edRun_trace h)

/-- … and the atomicity invariant holds throughout -/
theorem editor_atomic (cfg : Cfg) (c0 : Content) (t0 : Option FileC) (eacts : List EdAct) (e : EdWorld)
    (h : edRun cfg { w := init c0 t0, dirtyLevel := 0 } eacts = some e) :
    ∃ c, e.w.fs .path = some (.complete c) := by
  obtain ⟨acts, hr⟩ := edRun_refines h
  exact atomic cfg e.w ⟨c0, t0, acts, hr⟩

/-- the editor calls `reopen()` only right after it dirtied the dictionary, so that `sync` never
    adopts a writer's result during an editing session: the base layer is only ever replaced by a
    reload and the pending layer grows until the editor is dropped (a cost, not a loss) -/
theorem editor_never_adopts (cfg : Cfg) (c0 : Content) (t0 : Option FileC) (eacts : List EdAct) (e : EdWorld)
    (h : edRun cfg { w := init c0 t0, dirtyLevel := 0 } eacts = some e) (ha : ∀ a ∈ eacts, EnvOk a)
    (hrun : e.w.phase = .run) (hdl : 0 < e.dirtyLevel) : ∀ wr t, ¬ Adopts e.w wr t := by
  have hi : EdInv e := edInv_run (fun _ hdl => absurd hdl (Nat.lt_irrefl 0)) ha h
  intro wr t hA
  have := hi hrun hdl
  rw [hA.2.2.2] at this
  cases this

/-! ## non-vacuity -/

/-- the same schedule on the repaired `Drop`: close reaches `closed` and B is on disk -/
def f12Fixed : List Act :=
  [.update 0 1, .flush, .w, .w, .update 1 2, .flush, .close, .w, .w, .w, .w, .w, .w, .w, .d, .d, .d,
   .w, .w, .w, .w, .w, .w, .w, .w, .w, .d]

example : ∃ w, run { revive := false, joinFirst := true } (init (fun _ => none) none) f12Fixed = some w ∧
    w.phase = .closed ∧ valAt (w.fs .path) 1 = some (some 2) ∧ valAt (w.fs .path) 0 = some (some 1) :=
  ⟨_, rfl, rfl, rfl, rfl⟩

/-- `Adopts` is reachable: change, flush, the writer runs to completion, nothing changed meanwhile -/
example : ∃ w wr t, run { revive := true, joinFirst := true } (init (fun _ => none) none)
    [.update 0 1, .flush, .w, .w, .w, .w, .w, .w, .w, .w, .w] = some w ∧ Adopts w wr t :=
  ⟨_, _, _, rfl, rfl, rfl, rfl, rfl⟩

/-- a crash in the middle of the rewrite (temp file complete, not yet renamed) is reachable, and the
    path still holds the old contents there -/
example : ∃ w, run { revive := true, joinFirst := true } (init (setC (fun _ => none) 0 (some 7)) none)
    [.update 0 1, .flush, .w, .w, .w, .w, .w, .crash] = some w ∧ w.crashed = true ∧
    valAt (w.fs .path) 0 = some (some 7) ∧ valAt (w.fs .tmp) 0 = some (some 1) :=
  ⟨_, rfl, rfl, rfl, rfl⟩

/-- two lifetimes: the first dies with the temp file complete but not renamed (change A lost, which
    was never flushed to completion), the second opens the old file next to the leftover temp file,
    makes change B and closes normally: the file holds B and not A -/
example : ∃ c t, runSessions { revive := true, joinFirst := true } (fun _ => none) none
    [[.update 0 1, .flush, .w, .w, .w, .w, .w, .crash],
     [.update 1 2, .close, .d, .d, .d, .w, .w, .w, .w, .w, .w, .w, .w, .w, .d]] = some (c, t) ∧
    c 0 = none ∧ c 1 = some 2 :=
  ⟨_, _, rfl, rfl, rfl⟩

end Chewing.C10

/-! ## the SQLite back end (feature `sqlite`)

Stated over the relational step model `Chewing.Model.PersistSql`.  TRUSTED: SQLite's transaction
guarantee (a committed transaction survives process death, an uncommitted one leaves no trace; WAL,
`synchronous = NORMAL`).  Proved: what libchewing adds on top — one call = one transaction, so the
committed relations are at every moment, and after death at any statement boundary, exactly the calls
that have returned; no `flush` and no close is needed. -/

namespace Chewing.C10.Sql
open Chewing.PersistSql

/-- after ANY list of micro-steps (calls entered, statements run, commits, process death anywhere)
    what a new connection reads is exactly the effect of the calls that have returned, in order;
    these are all the calls entered except possibly the one that was in progress at death -/
theorem sql_prefix (r0 : Rel) (acts : List Act) (w : World) (h : run (init r0) acts = some w) :
    w.db = spec r0 w.returned ∧
    (w.entered = w.returned ∨ ∃ c, w.entered = w.returned ++ [c]) := by
  have hi := sinv_run (sinv_init r0) h
  refine ⟨hi.db, ?_⟩
  cases ht : w.tx with
  | some t => exact Or.inr ⟨t.call, (hi.open_ t ht).1⟩
  | none =>
    cases hc : w.crashed with
    | false => exact Or.inl (hi.idle ht hc)
    | true => exact hi.dead ht hc

/-- durable at once: when a call returns, its whole effect is in the committed relations -/
theorem sql_durable_on_return (r0 : Rel) (acts : List Act) (w w' : World) (t : Tx)
    (h : run (init r0) acts = some w) (ht : w.tx = some t) (hs : step w .commit = some w') :
    w'.db = applyCall w.db t.call ∧ w'.returned = w.returned ++ [t.call] := by
  have hi := sinv_run (sinv_init r0) h
  have h0 := (hi.open_ t ht).2
  unfold step at hs
  split at hs
  · cases hs
  · simp only [ht] at hs
    cases htd : t.todo with
    | cons s rest => rw [htd] at hs; cases hs
    | nil =>
      rw [htd] at hs
      have hs := Option.some.inj hs
      subst hs
      rw [htd] at h0
      exact ⟨h0, rfl⟩

/-- process death loses the open transaction and nothing else -/
theorem sql_crash_keeps_committed (w w' : World) (hs : step w .crash = some w') :
    w'.db = w.db ∧ w'.returned = w.returned ∧ w'.tx = none := by
  unfold step at hs
  split at hs
  · cases hs
  · have hs := Option.some.inj hs
    subst hs
    exact ⟨rfl, rfl, rfl⟩

/-- `flush` (`wal_checkpoint`) and `reopen` change no relation -/
theorem sql_flush_reopen_noop (r : Rel) : applyCall r .flush = r ∧ applyCall r .reopen = r := ⟨rfl, rfl⟩

/-- what the calling code sees after an accepted change -/
theorem sql_change_shows (r : Rel) (k : Key) (f uf t : Nat) :
    (view (applyCall r (.add k f)) k = some (f, 0)) ∧
    (view (applyCall r (.remove k)) k = none) ∧
    (∃ v, view (applyCall r (.update k f uf t)) k = some v) := by
  refine ⟨?_, ?_, ?_⟩
  · simp [applyCall, plan, exec, view]
  · simp [applyCall, plan, exec, view]
  · simp only [applyCall, plan]
    split
    · next x id hd =>
      simp only [List.foldl, exec, view, hd]
      cases hu : r.user id with
      | none => exact ⟨(x, 0), by simp⟩
      | some p => exact ⟨(max x uf, p.2), by simp⟩
    · simp [exec, view]

/-- non-vacuity: an `update_phrase` of a new phrase dies between its two `INSERT`s: the first call's
    effect is there, nothing of the second -/
example : ∃ w, run (init { dict := fun _ => none, user := fun _ => none, maxId := 0 })
    [.call (.add 0 5), .stmt, .commit, .call (.update 1 1 9 7), .stmt, .crash] = some w ∧
    view w.db 0 = some (5, 0) ∧ view w.db 1 = none ∧ w.db.user 1 = none ∧ w.returned = [.add 0 5] :=
  ⟨_, rfl, rfl, rfl, rfl, rfl⟩

end Chewing.C10.Sql


/-! ## linked: C10's assumptions about dictionary contents, discharged by C09's theorems

`Proofs/DictLink.lean` runs C10's protocol over C09's **concrete** `TrieBuf` layers (`CWorld`,
`cstep`: the control skeleton of `Model/Persist.lean`, the data functions of `Model/TrieBuf.lean`) and
proves a forward simulation into the abstract model.  The three assumptions the abstract model makes
about contents become theorems here, each resting on the C09 theorem named:

* live = base overridden by pending minus tombstones — `live_is_abs_linked` (`TrieBuf.abs`, the map of
  `C09.triebuf_refines`);
* add / update / remove act on the layers as `Buf.add` / `Buf.put` / `Buf.remove`, `add_phrase` is
  rejected exactly on a live phrase — `changes_refine_linked` (C09's `btGet_btInsert`, `btGet_btErase`,
  `contains_graveErase/Insert`, `addOk_eq` = `C09.refines_step`);
* `entries()` collected into a `TrieBuilder` is the live contents — `snapshot_is_entries_linked`
  (C09's snapshot lemma `build_abs`, in every state: since fix 8e6d504 `entries()` yields a key that is
  both persisted and pending once, with the pending value, so the written value is the map's whatever
  the order of `trie_iter.chain(btree_iter)` is — `snapshot_order_irrelevant`; before the fix the key was
  listed twice and the order was what made the written value right).

Files.  In `DictLink` a complete file is the `List Leaf` written (`Trie.build es` is "insert all, write,
open" in C09's model).  That this abstraction is faithful is no longer assumed: `C09.file_layer_is_C11`
(`Proofs/TrieLink.lean`) proves from C11's theorems that the bytes `TrieBuilder::write` produces for
`es` denote exactly `Trie.build es` under the real reader, and `Proofs/DictLinkBytes.lean` proves that
along every run every complete file is such a `Trie.build es` with `es` valid and within the size limits
(`Tracked`).  `durable_lookup_bytes_linked` below is the end-to-end statement with the file as **bytes**;
its explicit extra hypotheses are C11's: arguments of the Rust types (`CActValid`) and every snapshot
of the history within the format's limits (`SnapshotsOk … Fits`, as `C11.writes_within_limits`). -/

namespace Chewing.C10
open Chewing.Persist Chewing.DictLink

/-- C10's `Buf.live` of the abstraction of C09's layers is the encoding of the map C09's `TrieBuf`
    denotes -/
theorem live_is_abs_linked {s : TrieBuf.State} {b : Buf} (h : BufRel s b) : Rep (TrieBuf.abs s) b.live :=
  live_rep h

/-- every step of the protocol over C09's concrete operations (`TrieBuf.apply` for the three change
    calls, `Trie.build (TrieBuf.entries st)` for the snapshot) is the corresponding step of C10's
    abstract model with both repairs, and the abstraction relation is kept -/
theorem changes_refine_linked {cw cw' : CWorld} {w : World} {a : CAct} (hs : Sim cw w)
    (h : cstep cw a = some cw') : ∃ w', step cfgR w (encAct a) = some w' ∧ Sim cw' w' :=
  sim_step hs h

/-- the file the snapshot thread writes from C09's concrete `entries()` denotes exactly the live
    contents — in every state -/
theorem snapshot_is_entries_linked {s : TrieBuf.State} {b : Buf} (hl : LInv s) (h : BufRel s b) :
    Trie.SnapOk (Trie.build (TrieBuf.entries s)) ∧
      Rep (TrieBuf.baseGet (Trie.build (TrieBuf.entries s))) b.live :=
  build_rep hl h

/-- … and since fix 8e6d504 (F10) that no longer hangs on the order of `entries_iter`
    (`trie_iter.chain(btree_iter)`): `entries()` skips a persisted entry that has a pending entry of the same
    key, so on the state of C09's F10 witness (add 100, snapshot adopted, update to 50) both orders write
    the map's value 50.  Without that filter (the code before the fix) the swapped order writes the stale
    persisted value 100 — the seeded mutant `C08-entries-order-stale-freq`. -/
theorem snapshot_order_irrelevant :
    let s := TrieBuf.run TrieBuf.initFile
      [.add [10268] [28204] 100 (some 2), .flush, .reopen, .update [10268] [28204] 50 7]
    let live := fun e : Entry => !(s.grave.contains (e.1, e.2.text))
    let swapped := (TrieBuf.btEntries s.btree ++
      (Trie.entries s.snap).filter (fun e => !(TrieBuf.btHas s.btree (e.1, e.2.text)))).filter live
    let swappedUnfiltered := (TrieBuf.btEntries s.btree ++ Trie.entries s.snap).filter live
    TrieBuf.abs s ([10268], [28204]) = some (50, 7) ∧
    TrieBuf.baseGet (Trie.build (TrieBuf.entries s)) ([10268], [28204]) = some (50, 7) ∧
    TrieBuf.baseGet (Trie.build swapped) ([10268], [28204]) = some (50, 7) ∧
    TrieBuf.baseGet (Trie.build swappedUnfiltered) ([10268], [28204]) = some (100, 2) := by
  decide

/-- **END TO END, in C09's terms.**  A file-backed user dictionary is opened on a well-formed trie
    file `t0`; any history of `add_phrase` / `update_phrase` / `remove_phrase` (C09's concrete
    operations on the concrete layers), `flush`, `reopen`, under **every** schedule of the snapshot
    writer, over any number of close / open cycles, ends with the dictionary closed.  Then the file
    at the path is a well-formed trie file `t` which holds exactly the map `MapSpec` computes from
    the calls made (`opsOf acts`: rejected `add`s change nothing), and a `TrieBuf` opened on it
    answers every exact lookup, the enumeration and every prefix lookup as that map — no exclusion:
    the reopened dictionary is outside C09's finding class. -/
theorem durable_lookup_linked (t0 : List Leaf) (h0 : Trie.SnapOk t0) (tmp : Option CFile) (htmp : TmpOk tmp)
    (acts : List CAct) (cw : CWorld)
    (hrun : crun (cinit t0 tmp) acts = some cw) (hcl : cw.phase = .closed) :
    ∃ t, cw.fs .path = some (.complete t) ∧ Trie.SnapOk t ∧
      (∀ pk, TrieBuf.baseGet t pk = MapSpec.Map.run (TrieBuf.baseGet t0) (opsOf acts) pk) ∧
      TrieBuf.abs (freshSt t) = MapSpec.Map.run (TrieBuf.baseGet t0) (opsOf acts) ∧
      (∀ k, MapSpec.IsLookup (MapSpec.Map.run (TrieBuf.baseGet t0) (opsOf acts)) k
        (TrieBuf.lookupAll (freshSt t) k .standard)) ∧
      MapSpec.IsEntries (MapSpec.Map.run (TrieBuf.baseGet t0) (opsOf acts)) (TrieBuf.entries (freshSt t)) ∧
      (∀ q,
        MapSpec.IsFuzzyLookup Trie.fuzzyMatch (MapSpec.Map.run (TrieBuf.baseGet t0) (opsOf acts)) q
          (TrieBuf.lookupAll (freshSt t) q .fuzzyPartialPrefix)) := by
  obtain ⟨w, hr, hs⟩ := sim_run (sim_init h0 htmp) hrun
  have hd := durable_spec cfgR rfl rfl _ _ _ w hr (hs.phase ▸ hcl)
  have hp := hs.fs .path
  rw [hd] at hp
  cases hcf : cw.fs .path with
  | none => rw [hcf] at hp; exact hp.elim
  | some f =>
    rw [hcf] at hp
    cases f with
    | partial_ => exact hp.elim
    | complete t =>
      have ht : TRel t _ := hp
      have heq : ∀ pk, TrieBuf.baseGet t pk = MapSpec.Map.run (TrieBuf.baseGet t0) (opsOf acts) pk :=
        rep_unique ht.2 (rep_spec (rep_absC _) acts)
      have habs : TrieBuf.abs (freshSt t) = MapSpec.Map.run (TrieBuf.baseGet t0) (opsOf acts) := by
        rw [abs_freshSt]
        funext pk
        exact heq pk
      have hi := inv_freshSt ht.1
      refine ⟨t, rfl, ht.1, heq, habs, ?_, ?_, ?_⟩
      · intro k
        rw [← habs]
        exact TrieBuf.lookup_agrees hi k
      · rw [← habs]
        exact TrieBuf.entries_agrees hi
      · intro q
        rw [← habs]
        exact TrieBuf.fuzzy_agrees hi q

/-- non-vacuity of `durable_lookup_linked`: learn 測 under ㄘㄜˋ, update it while the first snapshot
    is being written, drop the dictionary: the run exists, ends closed, and the file holds the
    updated entry -/
example : ∃ cw, crun (cinit [] none)
    [.add [10268] [28204] 5 none, .flush, .w, .w, .update [10268] [28204] 9 7, .close,
     .w, .w, .w, .w, .w, .w, .w, .d, .d, .d, .w, .w, .w, .w, .w, .w, .w, .w, .w, .d] = some cw ∧
    cw.phase = .closed ∧ creadPath cw.fs = some [([10268], [{ text := [28204], freq := 9, lastUsed := some 7 }])] :=
  ⟨_, rfl, rfl, rfl⟩

/-! ### the same with the file as bytes (C11 under C09 under C10) -/

theorem isEntries_perm {m : MapSpec.Map} {l1 l2 : List Entry} (hp : l1.Perm l2) (h : MapSpec.IsEntries m l2) :
    MapSpec.IsEntries m l1 := by
  refine ⟨(hp.map _).nodup_iff.mpr h.1, fun e he => h.2.1 e (hp.mem_iff.mp he), ?_⟩
  intro k t v hm
  obtain ⟨e, he, h1, h2⟩ := h.2.2 k t v hm
  exact ⟨e, hp.mem_iff.mpr he, h1, h2⟩

theorem lookupAll_freshSt (t : List Leaf) (k : List Nat) (st : Strategy) :
    TrieBuf.lookupAll (freshSt t) k st = dedup (Trie.lookupAll t k st) := by
  have h : ∀ l : List Phrase, l.filter (fun _ => true) = l := fun l => List.filter_eq_self.mpr (fun _ _ => rfl)
  have he : ∀ l : List Entry, l.filter (fun _ => true) = l := fun l => List.filter_eq_self.mpr (fun _ _ => rfl)
  cases st with
  | standard =>
    simp [TrieBuf.lookupAll, TrieBuf.entriesIterFor, freshSt, TrieBuf.initFile, TrieBuf.initMem, TrieBuf.btreeRange,
      TrieBuf.btHas, h]
  | fuzzyPartialPrefix =>
    -- since fix c3d9fb2 the prefix lookup goes through `entries()`; nothing is pending in a fresh state
    rw [← TrieBuf.trie_entries_fuzzy]
    simp [TrieBuf.lookupAll, TrieBuf.entriesIterFor, TrieBuf.entries, freshSt, TrieBuf.initFile, TrieBuf.initMem,
      TrieBuf.btEntries, TrieBuf.btHas, he]

theorem entries_freshSt (t : List Leaf) : TrieBuf.entries (freshSt t) = Trie.entries t := by
  simp [TrieBuf.entries, freshSt, TrieBuf.initFile, TrieBuf.initMem, TrieBuf.btEntries, TrieBuf.btHas]

/-- the size limits of the trie format (C11's `Builder.Fits`) for a file with metadata `info` -/
def FitsInfo (info : TrieCodec.Info) (es : List Entry) : Prop := (TrieCodec.Builder.ofEntries info es).Fits

/-- **END TO END, with the file as bytes.**  The user dictionary is opened on the file written from
    the valid entries `es0`; the history makes `add_phrase` / `update_phrase` calls with arguments of the
    Rust types (`CActValid`), `remove_phrase`, `flush`,
    `reopen`, under **every** schedule of the snapshot writer, over any number of close / open cycles;
    every snapshot the history can take is within the limits of the trie format (`SnapshotsOk`: the
    hypothesis of `C11.writes_within_limits`, under which `TrieBuilder::write` does not fail); at the end
    the dictionary is closed.  Then the file at the path is `TrieBuilder::write` of a list `es` of valid
    entries: the **bytes** exist, `Trie::new` opens them with the metadata written, and the real
    reader (C11's byte-level `lookup_all_phrases`, `lookup_first_n_phrases`, `entries`)
    * answers every exact lookup of a key of non-zero syllables as the map `MapSpec` computes from the
      calls made, `lookup_first_n_phrases` being its first `n`;
    * enumerates exactly that map, each (syllables, phrase) once;
    * is what a `TrieBuf` opened on the file reads through: its lookups (both strategies) are the
      de-duplicated byte-level lookups, so its prefix lookups are that map's too. -/
theorem durable_lookup_bytes_linked (info : TrieCodec.Info) (hinfo : TrieCodec.ValidInfo info)
    (es0 : List Entry) (hv0 : ∀ e ∈ es0, TrieCodec.ValidEntry e) (hfit0 : FitsInfo info es0)
    (tmp : Option CFile) (htmp : TmpWritten (FitsInfo info) tmp)
    (acts : List CAct) (hval : ∀ a ∈ acts, CActValid a)
    (hfit : SnapshotsOk (FitsInfo info) (cinit (Trie.build es0) tmp) acts)
    (cw : CWorld) (hrun : crun (cinit (Trie.build es0) tmp) acts = some cw) (hcl : cw.phase = .closed) :
    ∃ es bytes tr, cw.fs .path = some (.complete (Trie.build es)) ∧ (∀ e ∈ es, TrieCodec.ValidEntry e) ∧
      (TrieCodec.Builder.ofEntries info es).write = some bytes ∧
      TrieCodec.openTrie bytes = some tr ∧ TrieCodec.about tr = info ∧
      TrieLink.Denotes bytes (Trie.build es) ∧
      (∀ k, C11.ValidKey k → MapSpec.IsLookup (MapSpec.Map.run (TrieBuf.baseGet (Trie.build es0)) (opsOf acts)) k
        (TrieCodec.lookupAll tr k .standard)) ∧
      (∀ k n st, C11.ValidKey k → TrieCodec.lookupFirstN tr k n st = (TrieCodec.lookupAll tr k st).take n) ∧
      (∃ ents, TrieCodec.entries tr = .ok ents ∧
        MapSpec.IsEntries (MapSpec.Map.run (TrieBuf.baseGet (Trie.build es0)) (opsOf acts)) ents) ∧
      (∀ k st, C11.ValidKey k →
        TrieBuf.lookupAll (freshSt (Trie.build es)) k st = dedup (TrieCodec.lookupAll tr k st)) ∧
      (∀ q, C11.ValidKey q →
        MapSpec.IsFuzzyLookup Trie.fuzzyMatch (MapSpec.Map.run (TrieBuf.baseGet (Trie.build es0)) (opsOf acts)) q
          (dedup (TrieCodec.lookupAll tr q .fuzzyPartialPrefix))) := by
  have h0 : Written (FitsInfo info) (Trie.build es0) := ⟨es0, hv0, hfit0, rfl⟩
  obtain ⟨t, hpath, hsnap, heq, habs, _, hent, hfz⟩ :=
    durable_lookup_linked (Trie.build es0) h0.snapOk tmp htmp.ok acts cw hrun hcl
  have htr := tracked_run (tracked_init h0 htmp) hval hfit hrun
  obtain ⟨es, hv, hf, rfl⟩ := htr.files .path t hpath
  have hvi : C11.ValidInput info es := ⟨hinfo, hv⟩
  obtain ⟨bytes, hw, hden⟩ := TrieLink.build_denotes_fits info es hvi hf
  obtain ⟨tr, hopen, hlook, hfirst, _, ents, hents, hperm, _⟩ := hden.reads
  obtain ⟨tr', hopen', habout⟩ := C11.info_roundtrip info es hvi bytes hw
  have etr : tr' = tr := Option.some.inj (hopen'.symm.trans hopen)
  rw [etr] at habout
  have hmap : MapSpec.Map.run (TrieBuf.baseGet (Trie.build es0)) (opsOf acts) = TrieBuf.baseGet (Trie.build es) := by
    funext pk; exact (heq pk).symm
  refine ⟨es, bytes, tr, hpath, hv, hw, hopen, habout, hden, ?_, ?_, ⟨ents, hents, ?_⟩, ?_, ?_⟩
  · intro k hk
    rw [hlook k .standard hk, hmap]
    exact isLookup_baseGet hsnap k
  · intro k n st hk
    rw [hfirst k n st hk, hlook k st hk]
    unfold Trie.lookupFirstN Trie.lookupAll
    rw [Trie.take_collect]; simp
  · rw [entries_freshSt] at hent
    exact isEntries_perm hperm hent
  · intro k st hk
    rw [lookupAll_freshSt, hlook k st hk]
  · intro q hq
    have := hfz q
    rw [lookupAll_freshSt, ← hlook q .fuzzyPartialPrefix hq] at this
    exact this

/-- the size limits hold for the empty file and for the one-entry file of the example -/
theorem fitsInfo_empty : FitsInfo {} [] := by
  refine ⟨?_, ?_⟩
  · show TrieCodec.Item.Fits (.node 0 none .nil)
    exact ⟨(fun ps h => by cases h), (by decide), trivial⟩
  intro recs data h
  have hb : (TrieCodec.Builder.ofEntries {} []).buffers = some ([(1, 0, 0)], []) := by decide
  rw [hb] at h
  cases h
  decide

theorem fitsInfo_one : FitsInfo {} [([10268], { text := [28204], freq := 5, lastUsed := some 0 })] := by
  refine ⟨?_, ?_⟩
  · show TrieCodec.Item.Fits (.node 0 none (.cons 10268 (some [{ text := [28204], freq := 5, lastUsed := some 0 }]) .nil .nil))
    refine ⟨(fun ps h => by cases h), (by decide), ⟨?_, (by decide), trivial, trivial⟩⟩
    intro ps h
    cases h
    decide
  intro recs data h
  have hb : (TrieCodec.Builder.ofEntries {} [([10268], { text := [28204], freq := 5, lastUsed := some 0 })]).buffers =
      some ([(1, 1, 0), (2, 1, 10268), (0, 13, 0)], [48, 11, 12, 3, 230, 184, 172, 2, 1, 5, 128, 1, 0]) := by decide
  rw [hb] at h
  cases h
  decide

/-- non-vacuity of `durable_lookup_bytes_linked`: learn 測 under ㄘㄜˋ on a fresh dictionary and drop it — the
    run exists, ends closed, and every snapshot along it fits the format -/
example : ∃ cw, crun (cinit (Trie.build []) none)
      [.add [10268] [28204] 5 none, .close, .d, .d, .d, .w, .w, .w, .w, .w, .w, .w, .w, .w, .d] = some cw ∧
    cw.phase = .closed ∧
    SnapshotsOk (FitsInfo {}) (cinit (Trie.build []) none)
      [.add [10268] [28204] 5 none, .close, .d, .d, .d, .w, .w, .w, .w, .w, .w, .w, .w, .w, .d] := by
  refine ⟨_, rfl, rfl, ?_⟩
  refine snapshotsOk_cons fitsInfo_empty _ rfl ?_
  iterate 14 refine snapshotsOk_cons fitsInfo_one _ rfl ?_
  exact snapshotsOk_nil fitsInfo_one

/-- non-vacuity of the hypotheses of `durable_lookup_bytes_linked`: the calls of the example run above
    have arguments of the Rust types -/
example : ∀ a ∈ ([.add [10268] [28204] 5 none, .update [10268] [28204] 9 7, .flush, .close] : List CAct), CActValid a := by
  intro a ha
  simp only [List.mem_cons, List.not_mem_nil, or_false] at ha
  rcases ha with rfl | rfl | rfl | rfl
  · exact ⟨⟨by decide, by decide⟩, by decide, by decide⟩
  · exact ⟨⟨by decide, by decide⟩, by decide, by decide⟩
  · trivial
  · trivial

end Chewing.C10
