import Chewing.Proofs.Der
import Chewing.Proofs.TriePhrase
import Chewing.Proofs.TrieBuilder
import Chewing.Proofs.TrieSort
import Chewing.Proofs.TrieLayout
import Chewing.Proofs.TrieLookup
import Chewing.Proofs.TrieSpec
import Chewing.Proofs.TrieDoc
/-!
# C11 — A trie dictionary file returns exactly what was put in, in the documented order

Model: `Chewing.Model.Der` (the shapes of the `der` crate the format uses) and
`Chewing.Model.TrieCodec` (`TrieBuilder::{insert, write}`, `Trie::{new, lookup_all_phrases,
entries, about}` at the level of the file's bytes), tied to `src/dictionary/trie.rs` by
byte-for-byte correspondence on generated entry sets (`harness/src/bin/codec.rs`).

Finding F13 (`data_len as u16` / `child_len as u16` truncated silently) is repaired in the
repository (`fix:` commit): `write` returns an error beyond the 16-bit limits, which is what the
model does (`writeLoop` returns `none`).  The statement is therefore about *successful* writes,
together with `writes_within_limits`: inside the format's limits `write` does succeed.
-/
namespace Chewing.C11
open Chewing Chewing.Der Chewing.TrieCodec

/-! ## the statement -/

/-- inputs as the Rust types constrain them: `String`s hold Unicode scalar values, a `Syllable` is a
    non-zero `u16`, `freq : u32`, `last_used : Option<u64>` -/
def ValidInput (info : Info) (es : List Entry) : Prop := ValidInfo info ∧ ∀ e ∈ es, ValidEntry e

/-- a query: non-zero syllable codes -/
def ValidKey (k : List Nat) : Prop := ∀ s ∈ k, s ≠ 0

/-- the phrases inserted for a key: insertion order, a re-inserted phrase replacing the earlier one
    where it stood (`none` = the key was never inserted) -/
def inserted (es : List Entry) (k : List Nat) : Option (List Phrase) := refFind es k

/-- the documented order of a leaf with inserted phrase vector `ps`: single characters keep
    insertion order; multi-character phrases are ordered by descending frequency -/
def OrderDocumented (ps result : List Phrase) : Prop :=
  result.Perm ps ∧
  ((∀ p ∈ ps, p.text.length = 1) → result = ps) ∧
  ((∀ p ∈ ps, p.text.length ≠ 1) → result.Pairwise (fun a b => b.freq ≤ a.freq))

/-- every syllable of the key begins with the corresponding partial syllable, same length -/
def fuzzyMatch : List Nat → List Nat → Bool
  | [], [] => true
  | s :: k, p :: q => startsWith s p && fuzzyMatch k q
  | _, _ => false

/-- a list of (key, inserted phrase vector) groups holding each key satisfying `P` exactly once -/
def GroupsOf (es : List Entry) (P : List Nat → Prop) (groups : List (List Nat × List Phrase)) : Prop :=
  (groups.map (·.1)).Nodup ∧ ∀ k ps, (k, ps) ∈ groups ↔ (inserted es k = some ps ∧ P k)

end Chewing.C11
