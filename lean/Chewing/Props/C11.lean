import Chewing.Model.TrieCodec
namespace Chewing.C11
end Chewing.C11
